(* Correspondence driver: reads one case per line, runs the extracted model, prints one
   result per line.  Line: id entry argv stdin seg
     argv  = comma separated hex tokens ('_' = empty token, '-' = no arguments)
     stdin = hex ('-' = empty)      seg = comma separated chunk sizes ('-' = none)
   Result: id class outhex      class: 0 | 1 | panic | hang | info | unknown *)
open Model

let rec pos_of_int (i : int) : positive =
  if i = 1 then XH
  else if i land 1 = 1 then XI (pos_of_int (i lsr 1))
  else XO (pos_of_int (i lsr 1))
let n_of_int i : n = if i = 0 then N0 else Npos (pos_of_int i)
let rec int_of_pos = function
  | XH -> 1 | XO p -> 2 * int_of_pos p | XI p -> 2 * int_of_pos p + 1
let int_of_n = function N0 -> 0 | Npos p -> int_of_pos p
let rec nat_of_int i : nat = if i <= 0 then O else S (nat_of_int (i - 1))
let z_to_string = function
  | Z0 -> "0" | Zpos p -> string_of_int (int_of_pos p) | Zneg p -> "-" ^ string_of_int (int_of_pos p)

let hexval c = match c with
  | '0'..'9' -> Char.code c - 48 | 'a'..'f' -> Char.code c - 87 | 'A'..'F' -> Char.code c - 55
  | _ -> failwith "bad hex"
let bytes_of_hex (s : string) : n list =
  if s = "-" || s = "_" then [] else begin
    let len = String.length s / 2 in
    let rec go i acc = if i < 0 then acc
      else go (i - 1) (n_of_int (hexval s.[2*i] * 16 + hexval s.[2*i+1]) :: acc) in
    go (len - 1) []
  end
let hex_of_bytes (l : n list) : string =
  match l with [] -> "-" | _ ->
    let b = Buffer.create 64 in
    List.iter (fun x -> Buffer.add_string b (Printf.sprintf "%02x" (int_of_n x))) l;
    Buffer.contents b

let argv_of s = if s = "-" then [] else List.map bytes_of_hex (String.split_on_char ',' s)
let seg_of s = if s = "-" then [] else List.map (fun x -> nat_of_int (int_of_string x)) (String.split_on_char ',' s)

let side_str = function SSome v -> z_to_string v | SCont -> ""
let bound_str b =
  Printf.sprintf "%s:%s:%d:%s" (side_str b.bl) (side_str b.br) (if b.blast then 1 else 0)
    (match b.bfb with None -> "N" | Some f -> "S" ^ hex_of_bytes f)
let bof_str = function Bound b -> "B" ^ bound_str b | Filler f -> "F" ^ hex_of_bytes f

let show id r =
  match r with
  | MOut (Done o) -> Printf.printf "%s 0 %s\n" id (hex_of_bytes o)
  | MOut (Fail o) -> Printf.printf "%s 1 %s\n" id (hex_of_bytes o)
  | MOut Panic -> Printf.printf "%s panic -\n" id
  | MOut Hang -> Printf.printf "%s hang -\n" id
  | MInfo -> Printf.printf "%s info -\n" id
  | MUnknown -> Printf.printf "%s unknown -\n" id

let () =
  try
    while true do
      let line = input_line stdin in
      match String.split_on_char ' ' line with
      | id :: entry :: argv :: inp :: seg :: _ ->
        (try
          (match entry with
           | "main" -> show id (run_main (argv_of argv) (bytes_of_hex inp))
           | "general" -> show id (entry_general (argv_of argv) (bytes_of_hex inp))
           | "fast" -> show id (entry_fast (argv_of argv) (bytes_of_hex inp))
           | "stream" -> show id (entry_stream (argv_of argv) (seg_of seg) (bytes_of_hex inp))
           | "bounds" ->
             (match entry_bounds (bytes_of_hex inp) with
              | None -> Printf.printf "%s 1 -\n" id
              | Some l ->
                let s = Printf.sprintf "%s;%s" (String.concat "|" (List.map bof_str l.items)) (side_str l.lif) in
                let b = Buffer.create 64 in
                String.iter (fun c -> Buffer.add_string b (Printf.sprintf "%02x" (Char.code c))) s;
                Printf.printf "%s 0 %s\n" id (Buffer.contents b))
           | _ -> Printf.printf "%s badentry -\n" id)
        with Stack_overflow -> Printf.printf "%s overflow -\n" id)
      | _ -> ()
    done
  with End_of_file -> ()
