/* LD_PRELOAD interposer on read(0, ..) and write(1, ..):
 *   FIO_RSEG=a,b,c   successive read(0) calls return exactly a, b, c bytes (then unrestricted)
 *   FIO_RCHUNK=n     every read(0) returns at most n bytes (exactly n unless EOF)
 *   FIO_RFAIL=k      after k bytes have been delivered, read(0) fails with EIO
 *   FIO_WFAIL=k      write(1) accepts k bytes in total (short write at the boundary), then ENOSPC
 *   FIO_WSHORT=n     every write(1) accepts at most n bytes
 *   FIO_WERRNO=e / FIO_RERRNO=e   the errno of the injected write / read fault (default ENOSPC / EIO)
 */
#define _GNU_SOURCE
#include <dlfcn.h>
#include <errno.h>
#include <stdlib.h>
#include <string.h>
#include <unistd.h>

static ssize_t (*real_read)(int, void *, size_t);
static ssize_t (*real_write)(int, const void *, size_t);
static int inited;
static long rseg[4096]; static int nseg, segi;
static long rchunk = -1, rfail = -1, wfail = -1, wshort = -1, werrno = ENOSPC, rerrno = EIO;
static long rdone, wdone;

static void init(void) {
    if (inited) return;
    inited = 1;
    real_read = dlsym(RTLD_NEXT, "read");
    real_write = dlsym(RTLD_NEXT, "write");
    const char *s = getenv("FIO_RSEG");
    if (s && *s) {
        char *dup = strdup(s), *p = dup, *tok;
        while ((tok = strsep(&p, ",")) && nseg < 4096) rseg[nseg++] = atol(tok);
        free(dup);
    }
    if ((s = getenv("FIO_RCHUNK"))) rchunk = atol(s);
    if ((s = getenv("FIO_RFAIL"))) rfail = atol(s);
    if ((s = getenv("FIO_WFAIL"))) wfail = atol(s);
    if ((s = getenv("FIO_WSHORT"))) wshort = atol(s);
    if ((s = getenv("FIO_WERRNO"))) werrno = atol(s);
    if ((s = getenv("FIO_RERRNO"))) rerrno = atol(s);
}

ssize_t read(int fd, void *buf, size_t count) {
    init();
    if (fd != 0) return real_read(fd, buf, count);
    size_t want = count;
    if (segi < nseg) { if ((size_t)rseg[segi] < want) want = rseg[segi]; segi++; }
    else if (rchunk > 0 && (size_t)rchunk < want) want = rchunk;
    if (rfail >= 0) {
        if (rdone >= rfail) { errno = rerrno; return -1; }
        if ((long)want > rfail - rdone) want = rfail - rdone;
    }
    size_t got = 0;
    while (got < want) {
        ssize_t n = real_read(fd, (char *)buf + got, want - got);
        if (n < 0) { if (errno == EINTR) continue; if (got) break; return -1; }
        if (n == 0) break;
        got += n;
    }
    rdone += got;
    return got;
}

ssize_t write(int fd, const void *buf, size_t count) {
    init();
    if (fd != 1) return real_write(fd, buf, count);
    size_t want = count;
    if (wshort > 0 && (size_t)wshort < want) want = wshort;
    if (wfail >= 0) {
        if (wdone >= wfail) { errno = werrno; return -1; }
        if ((long)want > wfail - wdone) want = wfail - wdone;
    }
    ssize_t n = real_write(fd, buf, want);
    if (n > 0) wdone += n;
    return n;
}
