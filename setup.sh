#!/bin/sh
# Build the framework from files on disk only (offline): Coq development, extracted model
# + OCaml driver, shim, and warm cargo builds of tuc and the Rust harness.
set -e
cd "$(dirname "$0")"
export CARGO_NET_OFFLINE=true
python3 - <<'PY'
import sys, os
sys.path.insert(0, os.path.join(os.getcwd(), "harness"))
from common import *
rc, out = build_coq()
if rc != 0:
    print(out[-4000:]); sys.exit(1)
build_driver(); build_shim(); build_tuc(); build_harness()
import tie
r = tie.tie_check()
print("translation tie:", {k: v["status"] for k, v in r.items()})
print("setup ok")
PY
