From Coq Require Import ZArith Bool List.
From TucModel Require Import Base.Bytes Model.Bounds Tie.RsPrelude Tie.TieBase Tie.Gen_ubl_is_sorted.
Import ListNotations.
Local Open Scope Z_scope.
Definition sides := [SCont; SSome (-2); SSome (-1); SSome 1; SSome 2; SSome 3].
Definition bs := flat_map (fun l => map (fun r => mkB l r false None) sides) sides.
Definition lists := [[]] ++ map (fun b => [Bound b]) bs ++ flat_map (fun a => map (fun b => [Bound a; Filler []; Bound b]) bs) bs.
Definition cex :=
  flat_map (fun l => let u := mkL l SCont in
    let g := gen_ubl_is_sorted u in let m := Ret (is_sorted l) in
    if eq_rs Bool.eqb g m then [] else [(map (fun x => match x with Bound b => (bl b, br b) | Filler _ => (SCont, SCont) end) l, g, m)]) lists.
Eval vm_compute in (length cex, firstn 3 cex).
