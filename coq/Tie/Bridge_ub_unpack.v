(** [UserBounds::unpack], translated from the current source, is the model's [unpack_bound] on fewer
    than 2^31 parts: a resolvable bound becomes one single-part bound per selected part, in order;
    an unresolvable one is kept as it is, fallback included. *)
From Coq Require Import ZArith Bool List Lia.
From TucModel Require Import Base.Bytes Model.Bounds Tie.RsPrelude Tie.TieBase
  Tie.Gen_ub_new Tie.Bridge_ub_new Tie.Gen_ub_try_into_range Tie.Bridge_ub_try_into_range Tie.Gen_ub_unpack.
Import ListNotations.
Local Open Scope Z_scope.

Lemma mapM_singles (F : Z -> rs ubound) :
  (forall i, 0 <= i < i32_max -> F i = Ret (single (i + 1))) ->
  forall (c s : nat), Z.of_nat s + Z.of_nat c <= i32_max ->
    mapM F (map (fun k => Z.of_nat s + Z.of_nat k) (seq 0 c)) = Ret (singles_from s c).
Proof.
  intros HF c. induction c as [|c IH]; intros s H; [reflexivity|].
  cbn [seq]. rewrite <- seq_shift. cbn [map mapM singles_from]. rewrite map_map.
  rewrite HF by lia. cbn [bind].
  rewrite (map_ext _ (fun k => Z.of_nat (S s) + Z.of_nat k)) by (intros; lia).
  rewrite IH by lia. cbn [bind]. do 3 f_equal. lia.
Qed.

Lemma tie_ub_unpack : forall (b : ubound) (n : nat),
  Z.of_nat n <= i32_max -> bl b <> SSome 0 ->
  gen_ub_unpack b (Z.of_nat n) = Ret (unpack_bound b n).
Proof.
  intros b n Hn Hz. cbv beta delta [gen_ub_unpack] iota zeta.
  rewrite (tie_ub_try_into_range b n Hn Hz). cbn [bind]. unfold unpack_bound.
  destruct (try_into_range b n) as [[s e]|] eqn:E; cbn [range_Z]; [|reflexivity].
  assert (Hse : (s <= e <= n)%nat).
  { unfold try_into_range in E.
    destruct (resolve_left (bl b) (Z.of_nat n)) as [s0|] eqn:EL; [|discriminate].
    destruct (resolve_right (br b) (Z.of_nat n)) as [e0|] eqn:ER; [|discriminate].
    destruct (Z.leb_spec e0 s0); [discriminate|]. injection E as <- <-.
    unfold resolve_left in EL. unfold resolve_right in ER.
    destruct (bl b) as [x|]; destruct (br b) as [y|];
      repeat match goal with
             | H : (if ?c then None else _) = Some _ |- _ => destruct c eqn:?; [discriminate|]; injection H as <-
             | H : Some _ = Some _ |- _ => injection H as <-
             end;
      repeat match goal with H : orb _ _ = false |- _ => apply orb_false_iff in H; destruct H end;
      repeat match goal with H : (_ <? _) = false |- _ => apply Z.ltb_ge in H end;
      case_bools; lia. }
  unfold to_list, iter_range, range_list. cbn [fst snd].
  replace (Z.to_nat (Z.of_nat e - Z.of_nat s)) with (e - s)%nat by lia.
  match goal with |- context [mapM ?F _] => rewrite (mapM_singles F) end; [reflexivity | | lia].
  intros i Hi. unfold usize_add, usize_chk, in_usize, usize_max.
  destruct (Z.leb_spec 0 (i + 1)); [|unfold i32_max in *; lia].
  destruct (Z.leb_spec (i + 1) 18446744073709551615); [|unfold i32_max in *; lia].
  cbn [andb bind]. rewrite cast_i32_small by (unfold i32_max in *; lia). rewrite tie_ub_new. reflexivity.
Qed.
