(** src/cut_str.rs : maybe_replace_delimiter, as translated, is the model's [maybe_replace]
    (wherever the model describes the record: [Some]). *)
From Coq Require Import ZArith Bool List Lia.
From TucModel Require Import Base.Bytes Model.Bounds Model.Scan Model.Regex Model.Opt Model.CutStr.
From TucModel Require Import Tie.RsPrelude Tie.TieBase Tie.RsRegex Tie.Gen_maybe_replace.
Import ListNotations.

Theorem tie_maybe_replace : forall (o : opt) (text t : bytes),
  maybe_replace o text = Some t -> gen_maybe_replace text o = Ret t.
Proof.
  intros o text t. cbv beta delta [gen_maybe_replace maybe_replace] iota zeta.
  destruct (o_btype o); cbn [btype_eqb];
    destruct (o_replace o) as [nd|]; try (intros H; injection H as <-; reflexivity);
    destruct (o_regex o) as [x|]; try (intros H; injection H as <-; reflexivity);
    destruct (o_compress o); try (intros H; injection H as <-; reflexivity);
    unfold rx_replace_all, rb_normal, rx_matches; cbn [fst snd];
    destruct (rx_normal x text) as [ms|]; intros H; try discriminate; injection H as <-; reflexivity.
Qed.

(** the other direction: outside the model's description the translated code is undefined too *)
Theorem tie_maybe_replace_none : forall (o : opt) (text : bytes),
  maybe_replace o text = None -> gen_maybe_replace text o = Panic.
Proof.
  intros o text. cbv beta delta [gen_maybe_replace maybe_replace] iota zeta.
  destruct (o_btype o); cbn [btype_eqb];
    destruct (o_replace o) as [nd|]; try discriminate;
    destruct (o_regex o) as [x|]; try discriminate;
    destruct (o_compress o); try discriminate;
    unfold rx_replace_all, rb_normal, rx_matches; cbn [fst snd];
    destruct (rx_normal x text) as [ms|]; intros H; try discriminate; reflexivity.
Qed.
