From Coq Require Import ZArith Bool List.
From TucModel Require Import Base.Bytes Model.Bounds Tie.RsPrelude Tie.TieBase Tie.Gen_complement_std_range.
Import ListNotations.
Local Open Scope Z_scope.
Definition cex :=
  flat_map (fun n => flat_map (fun s => flat_map (fun e =>
    let g := gen_complement_std_range (Z.of_nat n) (Z.of_nat s, Z.of_nat e) in
    let m := Ret (pairs_Z (complement_std_range n s e)) in
    if eq_rs (eq_list eq_zz) g m then [] else [(Z.of_nat n, Z.of_nat s, Z.of_nat e, g, m)]) grid_n) grid_n) grid_n.
Eval vm_compute in (length cex, firstn 3 cex).
