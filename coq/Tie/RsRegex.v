(** The regex crate and bstr's [replace] are not translated ("modelled, not verified" in any case): the
    model's matchers stand for them (hybrids). A regex bag [x : rx] offers two compiled forms, [x.normal]
    and [x.greedy]; [Panic] stands for "outside what the model describes" (-c on invalid UTF-8), which
    every bridge lemma excludes by hypothesis. Hand-written. *)
From Coq Require Import ZArith Bool List.
From TucModel Require Import Base.Bytes Model.Bounds Model.Scan Model.Regex Model.Opt Model.CutStr Tie.RsPrelude.
Import ListNotations.

Definition rb_normal (x : rx) : rx * bool := (x, false).
Definition rb_greedy (x : rx) : rx * bool := (x, true).
Definition rx_matches (r : rx * bool) (line : bytes) : option (list mtch) :=
  if snd r then rx_greedy (fst r) line else rx_normal (fst r) line.

(** [re.replace_all(text, NoExpand(rep))] *)
Definition rx_replace_all (r : rx * bool) (text rep : bytes) : rs bytes :=
  match rx_matches r text with Some ms => Ret (replace_matches text ms rep) | None => Panic end.

(** [text.replace(needle, rep)] of bstr *)
Definition bytes_replace (needle rep text : bytes) : bytes := replace_matches text (lit_matches needle text) rep.

(** [re.find_iter(line)]: the matches as (start, end); an iterator over them held in a variable is the
    list of those not yet taken ([next] takes the first, [last] the last) *)
Definition mzz (p : nat * nat) : Z * Z := (Z.of_nat (fst p), Z.of_nat (snd p)).
Definition rx_find_iter_z (r : rx * bool) (line : bytes) : list (Z * Z) :=
  match rx_matches r line with
  | Some ms => map mzz ms
  | None => []
  end.
Definition last_error {A} (l : list A) : option A := hd_error (rev l).
Definition trimk_eqb (a b : trimk) : bool :=
  match a, b with TLeft, TLeft | TRight, TRight | TBoth, TBoth => true | _, _ => false end.
