(** [UserBoundsList::has_negative_indices], translated from the current source, is the model's. *)
From Coq Require Import ZArith Bool List Lia.
From TucModel Require Import Base.Bytes Model.Bounds Tie.RsPrelude Tie.TieBase
  Tie.Gen_ubl_bounds_only Tie.Bridge_ubl_bounds_only Tie.Gen_ubl_has_negative_indices.
Import ListNotations.
Local Open Scope Z_scope.

Lemma anyM_spec {A} (F : A -> rs bool) (G : A -> bool) :
  (forall x, F x = Ret (G x)) -> forall l, anyM F l = Ret (existsb G l).
Proof.
  intros H l. induction l as [|x l IH]; [reflexivity|]. cbn [anyM existsb]. rewrite H. cbn [bind].
  destruct (G x); [reflexivity | exact IH].
Qed.

Lemma tie_ubl_has_negative_indices : forall u : ublist,
  gen_ubl_has_negative_indices u = Ret (has_negative_indices (items u)).
Proof.
  intros u. cbv beta delta [gen_ubl_has_negative_indices] iota zeta. rewrite tie_ubl_bounds_only. cbn [bind].
  unfold to_list, iter_list, has_negative_indices.
  match goal with |- context [anyM ?F _] => rewrite (anyM_spec F (fun b => side_neg (bl b) || side_neg (br b))) end; [reflexivity|].
  intros [[l|] [r|] la fb]; unfold side_neg; cbn [bl br]; case_bools; reflexivity.
Qed.
