From Coq Require Import ZArith Bool List.
From TucModel Require Import Base.Bytes Model.Bounds Tie.RsPrelude Tie.TieBase Tie.Gen_side_partial_cmp Tie.Gen_ub_partial_cmp.
Import ListNotations.
Local Open Scope Z_scope.
Definition sides := SCont :: map SSome grid_idx.
Definition cex :=
  flat_map (fun ar => flat_map (fun bl_ =>
    let a := mkB SCont ar false None in
    let b := mkB bl_ SCont false None in
    match gen_ub_partial_cmp a b with
    | Ret c => if Bool.eqb (bound_le a b) (ord_le c) then [] else [(ar, bl_, Ret c, bound_le a b)]
    | Panic => [(ar, bl_, Panic, bound_le a b)]
    end) sides) sides.
Eval vm_compute in (length cex, firstn 3 cex).
