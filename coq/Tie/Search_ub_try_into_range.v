(** compiled only when Bridge_ub_try_into_range.v no longer checks: arguments on which the code as
    translated and the model differ (left side 0 excluded, as in the lemma) *)
From Coq Require Import ZArith Bool List.
From TucModel Require Import Base.Bytes Model.Bounds Tie.RsPrelude Tie.TieBase Tie.Gen_ub_try_into_range.
Import ListNotations.
Local Open Scope Z_scope.
Definition sides_r := SCont :: map SSome grid_idx.
Definition sides_l := SCont :: map SSome (filter (fun z => negb (z =? 0)) grid_idx).
Definition cex :=
  flat_map (fun n => flat_map (fun l => flat_map (fun r =>
    let b := mkB l r false None in
    let g := gen_ub_try_into_range b (Z.of_nat n) in
    let m := Ret (range_Z (try_into_range b n)) in
    if eq_rs (eq_opt eq_zz) g m then [] else [(l, r, Z.of_nat n, g, m)]) sides_r) sides_l) grid_n.
Eval vm_compute in (length cex, firstn 3 cex).
