(** src/cut_str.rs : fill_with_fields_locations_using_regex, as translated: whatever the buffer held, it
    ends up holding the gaps between the matches the regex reports on the record (the model's
    [fields_of_matches]) - for the matches of any engine. *)
From Coq Require Import ZArith Bool List Lia.
From TucModel Require Import Base.Bytes Model.Bounds Model.Scan Model.Regex Model.Opt Model.CutStr
  Tie.RsPrelude Tie.TieBase Tie.RsStr Tie.RsRegex Tie.Gen_fill_regex.
Import ListNotations.
Local Open Scope Z_scope.


Fixpoint gaps_init (start : nat) (ms : list mtch) : list mtch :=
  match ms with [] => [] | m :: ms' => (start, fst m) :: gaps_init (snd m) ms' end.
Fixpoint gaps_last (start : nat) (ms : list mtch) : nat :=
  match ms with [] => start | m :: ms' => gaps_last (snd m) ms' end.

Lemma gaps_from_split len : forall ms start,
  gaps_from start ms len = gaps_init start ms ++ [(gaps_last start ms, len)].
Proof. induction ms as [|m ms IH]; intros start; cbn [gaps_from gaps_init gaps_last app]; [reflexivity|]. rewrite IH. reflexivity. Qed.

Lemma fill_regex_loop (F : list (Z * Z) * Z -> Z * Z -> rs (ctrl (list (Z * Z) * Z) unit)) :
  (forall buf prev m, F (buf, prev) m = Ret (Next (buf ++ [(prev, fst m)], snd m))) ->
  forall ms buf prev,
    loopM F (map mzz ms) (buf, Z.of_nat prev)
    = Ret (Next (buf ++ map mzz (gaps_init prev ms), Z.of_nat (gaps_last prev ms))).
Proof.
  intros HF. induction ms as [|m ms IH]; intros buf prev; cbn [map loopM gaps_init gaps_last].
  - rewrite app_nil_r. reflexivity.
  - rewrite HF. cbn [bind]. change (snd (mzz m)) with (Z.of_nat (snd m)). change (fst (mzz m)) with (Z.of_nat (fst m)).
    rewrite IH, <- app_assoc. reflexivity.
Qed.

Theorem tie_fill_regex : forall (buffer0 : list (Z * Z)) (line : bytes) (r : rx * bool) (ms : list mtch),
  rx_matches r line = Some ms ->
  gen_fill_regex buffer0 line r = Ret (tt, map mzz (fields_of_matches ms line)).
Proof.
  intros buffer0 line r ms Hm. cbv beta delta [gen_fill_regex] iota zeta. unfold fields_of_matches.
  destruct line as [|x line']; [reflexivity|]. set (line := x :: line') in *. cbv iota beta.
  unfold to_list, iter_list, rx_find_iter_z. rewrite Hm. change 0 with (Z.of_nat 0).
  match goal with |- context [loopM ?F _ _] => rewrite (fill_regex_loop F) end.
  - cbn [bind app]. rewrite gaps_from_split, map_app. reflexivity.
  - intros buf prev m. reflexivity.
Qed.
