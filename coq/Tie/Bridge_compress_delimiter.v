(** [compress_delimiter] (src/cut_str.rs), translated from the current source with the reused output
    buffer as an argument and a result: WHATEVER the buffer held on entry it ends up holding exactly the
    model's compressed copy of the record, and none of its slices can panic - the occurrences
    [find_iter] reports do not overlap and lie within the text. *)
From Coq Require Import ZArith Bool List Lia.
From TucModel Require Import Base.Bytes Base.ListX Model.Scan Tie.RsPrelude Tie.TieBase Tie.RsStr Tie.RsScan
  Tie.Bridge_fill_fields Tie.Gen_compress_delimiter.
Import ListNotations.
Local Open Scope Z_scope.

Fixpoint spaced (ld prev : nat) (ps : list nat) : Prop :=
  match ps with [] => True | p :: ps' => (prev <= p)%nat /\ spaced ld (p + ld) ps' end.

Lemma spaced_weaken ld ps : forall a b, (b <= a)%nat -> spaced ld a ps -> spaced ld b ps.
Proof. destruct ps as [|p ps]; intros a b H S; [exact I|]. cbn [spaced] in *. destruct S as [S1 S2]. split; [lia | exact S2]. Qed.

Lemma find_iter_aux_spaced d : forall l skip pos, spaced (length d) (pos + skip) (find_iter_aux d skip pos l).
Proof.
  induction l as [|x l IH]; intros skip pos; cbn [find_iter_aux].
  - destruct skip; [destruct d|]; cbn [spaced]; try exact I. split; [lia | exact I].
  - destruct skip as [|k].
    + destruct (starts_with d (x :: l)).
      * cbn [spaced]. split; [lia|]. apply (spaced_weaken _ _ (S pos + (length d - 1))%nat); [lia | apply IH].
      * apply (spaced_weaken _ _ (S pos + 0)%nat); [lia | apply IH].
    + replace (pos + S k)%nat with (S pos + k)%nat by lia. apply IH.
Qed.

Definition cpiece (line d : bytes) (prev idx : nat) : bytes :=
  if Nat.eqb idx 0 then d else match slice line prev idx with [] => [] | _ => slice line prev idx ++ d end.

Fixpoint cbody (line d : bytes) (prev : nat) (ps : list nat) : bytes * nat :=
  match ps with
  | [] => ([], prev)
  | p :: ps' => (cpiece line d prev p ++ fst (cbody line d (p + length d) ps'), snd (cbody line d (p + length d) ps'))
  end.

Lemma compress_from_cbody line d : forall ps prev,
  compress_from d line prev ps
  = fst (cbody line d prev ps) ++ (if Nat.ltb (snd (cbody line d prev ps)) (length line) then skipn (snd (cbody line d prev ps)) line else []).
Proof.
  induction ps as [|p ps IH]; intros prev; cbn [compress_from cbody fst snd]; [reflexivity|].
  rewrite IH, <- app_assoc. unfold cpiece. reflexivity.
Qed.

Lemma compress_loop (F : bytes * Z -> Z -> rs (ctrl (bytes * Z) unit)) (line d : bytes) :
  (forall out prev idx, (prev <= idx)%nat -> (idx <= length line)%nat -> Z.of_nat idx + Z.of_nat (length d) <= usize_max ->
     F (out, Z.of_nat prev) (Z.of_nat idx) = Ret (Next (out ++ cpiece line d prev idx, Z.of_nat (idx + length d)))) ->
  forall ps out prev,
    spaced (length d) prev ps -> Forall (fun p => (p <= length line)%nat) ps ->
    Z.of_nat (length line) + Z.of_nat (length d) <= usize_max ->
    loopM F (map Z.of_nat ps) (out, Z.of_nat prev)
    = Ret (Next (out ++ fst (cbody line d prev ps), Z.of_nat (snd (cbody line d prev ps)))).
Proof.
  intros HF ps. induction ps as [|p ps IH]; intros out prev Hsp Hall Hlen; cbn [map loopM cbody fst snd].
  - rewrite app_nil_r. reflexivity.
  - cbn [spaced] in Hsp. destruct Hsp as [Hle Hsp]. inversion Hall as [|? ? Hp Hps]; subst.
    rewrite HF by (try assumption; lia). cbn [bind]. rewrite (IH _ _ Hsp Hps Hlen). rewrite <- app_assoc. reflexivity.
Qed.

Lemma tie_compress_delimiter : forall (line d output0 : bytes),
  Z.of_nat (length line) + Z.of_nat (length d) <= usize_max ->
  gen_compress_delimiter line d output0 = Ret (tt, compress_delimiter d line).
Proof.
  intros line d output0 Hlen. cbv beta delta [gen_compress_delimiter] iota zeta.
  unfold to_list, iter_list, find_iter_z, compress_delimiter.
  change 0 with (Z.of_nat 0).
  match goal with |- context [loopM ?F _ _] => rewrite (compress_loop F line d) end.
  - cbn [bind]. rewrite compress_from_cbody. cbn [app].
    set (last := snd (cbody line d 0 (find_iter d line))).
    destruct (Z.ltb_spec (Z.of_nat last) (Z.of_nat (length line))) as [H|H]; destruct (Nat.ltb_spec last (length line)) as [H'|H']; try lia.
    + unfold str_from. destruct (Z.leb_spec 0 (Z.of_nat last)); [|lia]. destruct (Z.leb_spec (Z.of_nat last) (Z.of_nat (length line))); [|lia].
      cbn [andb bind]. rewrite Nat2Z.id. reflexivity.
    + rewrite app_nil_r. reflexivity.
  - intros out prev idx H1 H2 H3. cbv beta iota. change (Z.of_nat 0) with 0. unfold str_between.
    destruct (Z.leb_spec 0 (Z.of_nat prev)); [|lia]. destruct (Z.leb_spec (Z.of_nat prev) (Z.of_nat idx)); [|lia].
    destruct (Z.leb_spec (Z.of_nat idx) (Z.of_nat (length line))); [|lia]. cbn [andb bind].
    replace (Z.to_nat (Z.of_nat idx - Z.of_nat prev)) with (idx - prev)%nat by lia. rewrite Nat2Z.id. fold (slice line prev idx).
    unfold usize_add, usize_chk, in_usize.
    destruct (Z.leb_spec 0 (Z.of_nat idx + Z.of_nat (length d))); [|lia].
    destruct (Z.leb_spec (Z.of_nat idx + Z.of_nat (length d)) usize_max); [|lia]. cbn [andb].
    unfold cpiece. replace (Z.of_nat idx + Z.of_nat (length d)) with (Z.of_nat (idx + length d)) by lia.
    (* whatever the shape of the branches (separate, merged, reordered): decide idx = 0 and whether the part is
       empty, then compare the appended bytes up to associativity *)
    destruct (Z.eqb_spec (Z.of_nat idx) 0) as [E0|E0]; destruct (Nat.eqb_spec idx 0) as [E1|E1]; try lia.
    + assert (prev = 0)%nat by lia. subst prev idx. change (slice line 0 0) with (@nil byte).
      cbn [orb andb negb bind app]; rewrite ?app_nil_r, <- ?app_assoc; reflexivity.
    + destruct (slice line prev idx) as [|y pp] eqn:Esl; cbn [orb andb negb bind app]; rewrite ?app_nil_r, <- ?app_assoc; reflexivity.
  - unfold find_iter. apply (find_iter_aux_spaced d line 0 0).
  - unfold find_iter. pose proof (find_iter_aux_le d line 0 0) as H. eapply Forall_impl; [|exact H]. cbv beta. intros a Ha. lia.
  - exact Hlen.
Qed.
