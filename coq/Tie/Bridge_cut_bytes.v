(** [cut_bytes] (src/cut_bytes.rs), translated from the current source with what it writes to stdout
    accumulated: on fewer than 2^31 bytes it never panics (the slice [&data[r.start..r.end]] is always
    in range), succeeds exactly when the model's [cut_bytes_items] does, and has then written exactly
    the model's output; when a bound fails it has written the pieces before that bound. *)
From Coq Require Import ZArith Bool List Lia.
From TucModel Require Import Base.Bytes Base.ListX Model.Bounds Model.Scan Model.Regex Model.Opt Model.CutBytes
  Tie.RsPrelude Tie.TieBase Tie.RsOpt Tie.RsStr Tie.RsList
  Tie.Gen_ub_try_into_range Tie.Bridge_ub_try_into_range Tie.Bridge_ubl_unpack Tie.Gen_cut_bytes.
Import ListNotations.
Local Open Scope Z_scope.

Definition piece (generic : option bytes) (data : bytes) (x : bof) : option bytes :=
  match x with
  | Filler f => Some f
  | Bound b => match try_into_range b (length data) with
               | Some (s, e) => Some (slice data s e)
               | None => fallback_for b generic
               end
  end.

(** the walk over the items with the output so far: (succeeded?, written) *)
Fixpoint walk (generic : option bytes) (data : bytes) (acc : bytes) (l : list bof) : option unit * bytes :=
  match l with
  | [] => (Some tt, acc)
  | x :: l' => match piece generic data x with
               | Some o => walk generic data (acc ++ o) l'
               | None => (None, acc)
               end
  end.

Lemma walk_items generic data l : forall acc,
  walk generic data acc l = match cut_bytes_items l generic data with
                            | Some o => (Some tt, acc ++ o)
                            | None => (None, snd (walk generic data acc l))
                            end.
Proof.
  induction l as [|x l IH]; intros acc; cbn [walk cut_bytes_items]; [rewrite app_nil_r; reflexivity|].
  destruct x as [b|f]; cbn [piece].
  - destruct (match try_into_range b (length data) with Some (s, e) => Some (slice data s e) | None => fallback_for b generic end) as [o|];
      [|reflexivity]. rewrite IH. destruct (cut_bytes_items l generic data); [rewrite app_assoc; reflexivity|reflexivity].
  - rewrite IH. destruct (cut_bytes_items l generic data); [rewrite app_assoc; reflexivity|reflexivity].
Qed.

Lemma loopM_walk (F : bytes -> bof -> rs (ctrl bytes bytes)) generic data :
  forall l, (forall st x, In x l -> F st x = Ret (match piece generic data x with Some o => Next (st ++ o) | None => Break st end)) ->
  forall st, loopM F l st = Ret (match walk generic data st l with (Some _, a) => Next a | (None, a) => Break a end).
Proof.
  induction l as [|x l IH]; intros H st; cbn [loopM walk]; [reflexivity|].
  rewrite (H st x (or_introl eq_refl)). destruct (piece generic data x) as [o|]; cbn [bind]; [|reflexivity].
  apply IH. intros st' y Hy. apply H. right. exact Hy.
Qed.

(** the same for a [for] loop whose body leaves the function with [return Err(..)]: [Break] then carries the
    function's result instead of the output so far *)
Lemma loopM_walk_for (F : bytes -> bof -> rs (ctrl bytes (option unit))) generic data :
  forall l, (forall st x, In x l -> F st x = Ret (match piece generic data x with Some o => Next (st ++ o) | None => Break None end)) ->
  forall st, loopM F l st = Ret (match walk generic data st l with (Some _, a) => Next a | (None, _) => Break None end).
Proof.
  induction l as [|x l IH]; intros H st; cbn [loopM walk]; [reflexivity|].
  rewrite (H st x (or_introl eq_refl)). destruct (piece generic data x) as [o|]; cbn [bind]; [|reflexivity].
  apply IH. intros st' y Hy. apply H. right. exact Hy.
Qed.

(** one step of the loop, whichever way it is written: the piece appended, or the loop left *)
Ltac cut_bytes_step data Hn Hnz :=
  let st := fresh "st" in let x := fresh "x" in let Hx := fresh "Hx" in
  intros st x Hx; rewrite Forall_forall in Hnz; specialize (Hnz x Hx);
  destruct x as [b|f]; cbn beta iota; cbn [piece]; [|reflexivity];
  rewrite (tie_ub_try_into_range b (length data) Hn Hnz); cbn [bind];
  let E := fresh "E" in
  destruct (try_into_range b (length data)) as [[s e]|] eqn:E; cbn [range_Z fst snd];
  [ assert (Hse : (s <= e <= length data)%nat);
    [ unfold try_into_range in E;
      destruct (resolve_left (bl b) (Z.of_nat (length data))) as [s0|] eqn:EL; [|discriminate];
      destruct (resolve_right (br b) (Z.of_nat (length data))) as [e0|] eqn:ER; [|discriminate];
      destruct (Z.leb_spec e0 s0); [discriminate|]; injection E as <- <-;
      unfold resolve_left in EL; unfold resolve_right in ER;
      destruct (bl b) as [xl|]; destruct (br b) as [yr|];
        repeat match goal with
               | H : (if ?c then None else _) = Some _ |- _ => destruct c eqn:?; [discriminate|]; injection H as <-
               | H : Some _ = Some _ |- _ => injection H as <-
               end;
        repeat match goal with H : orb _ _ = false |- _ => apply orb_false_iff in H; destruct H end;
        repeat match goal with H : (_ <? _) = false |- _ => apply Z.ltb_ge in H end;
        case_bools; try (cbn [item_left_nz] in Hnz; assert (xl <> 0) by (intros ->; apply Hnz; reflexivity)); unfold data in *; cbn [length] in *; lia
    | unfold str_between;
      destruct (Z.leb_spec 0 (Z.of_nat s)); [|lia]; destruct (Z.leb_spec (Z.of_nat s) (Z.of_nat e)); [|lia];
      destruct (Z.leb_spec (Z.of_nat e) (Z.of_nat (length data))); [|lia]; cbn [andb bind];
      unfold slice; replace (Z.to_nat (Z.of_nat e - Z.of_nat s)) with (e - s)%nat by lia; rewrite Nat2Z.id; reflexivity ]
  | unfold fallback_for; destruct (bfb b); [reflexivity|]; destruct (o_fallback _); reflexivity ].

(** in the terms of the model: *)
Lemma tie_cut_bytes_model : forall (data : bytes) (o : opt),
  Z.of_nat (length data) <= i32_max -> Forall item_left_nz (items (o_bounds o)) -> data <> [] ->
  exists r, gen_cut_bytes data o = Ret r
            /\ match cut_bytes_items (items (o_bounds o)) (o_fallback o) data with
               | Some out => r = (Some tt, out)
               | None => fst r = None
               end.
Proof.
  intros data o Hn Hnz Hne. cbv beta delta [gen_cut_bytes] iota zeta.
  destruct data as [|d0 data']; [contradiction|]. set (data := d0 :: data') in *. cbv iota beta.
  unfold to_list, iter_ublist.
  pose proof (walk_items (o_fallback o) data (items (o_bounds o)) []) as Hw. cbn [app] in Hw.
  first
  [ (* the items walked by [try_for_each]: a failing step keeps what was written *)
    match goal with |- context [loopM ?F _ _] => rewrite (loopM_walk F (o_fallback o) data) end;
    [ cbn [bind]; destruct (walk (o_fallback o) data [] (items (o_bounds o))) as [[[]|] a]; cbn [bind];
      (eexists; split; [reflexivity|]);
      destruct (cut_bytes_items (items (o_bounds o)) (o_fallback o) data); first [exact Hw | discriminate Hw | reflexivity]
    | cut_bytes_step data Hn Hnz ]
  | (* the same walk written as a [for] loop with [return Err(..)] *)
    match goal with |- context [loopM ?F _ _] => rewrite (loopM_walk_for F (o_fallback o) data) end;
    [ cbn [bind]; destruct (walk (o_fallback o) data [] (items (o_bounds o))) as [[[]|] a]; cbn [bind];
      (eexists; split; [reflexivity|]);
      destruct (cut_bytes_items (items (o_bounds o)) (o_fallback o) data); first [exact Hw | discriminate Hw | reflexivity]
    | cut_bytes_step data Hn Hnz ] ].
Qed.
