(** [TryFrom<&UserBoundsList> for ForwardBounds] (src/stream.rs), translated from the current source:
    it accepts exactly the lists the model's [forward_bounds_ok] accepts - non-empty, forward only, no
    bound starting where the previous one ended - and then holds the list as [From<Vec>] rebuilds it
    together with the index of its last bound.  ([From<Vec<BoundOrFiller>>] itself is the model's
    [from_vec]: Tie/RsList.v.) *)
From Coq Require Import ZArith Bool List Lia.
From TucModel Require Import Base.Bytes Model.Bounds Model.Scan Model.Regex Model.Opt Model.Stream
  Tie.RsPrelude Tie.TieBase Tie.RsOpt Tie.RsList
  Tie.Gen_ubl_is_forward_only Tie.Bridge_ubl_is_forward_only Tie.Gen_fb_try_from.
Import ListNotations.
Local Open Scope Z_scope.

Definition norm_left (s : side) : side := match s with SCont => SSome 1 | s => s end.

Fixpoint strict_items (prev : side) (l : list bof) : bool :=
  match l with
  | [] => true
  | Filler _ :: r => strict_items prev r
  | Bound b :: r => if side_eqb (norm_left (bl b)) prev then false else strict_items (br b) r
  end.

Lemma strict_items_bounds_only : forall l prev, strict_items prev l = strict_from prev (bounds_only l).
Proof.
  induction l as [|[b|f] l IH]; intros prev; cbn [strict_items]; [reflexivity | | apply IH].
  change (bounds_only (Bound b :: l)) with (b :: bounds_only l). cbn [strict_from]. unfold norm_left. rewrite IH. destruct (bl b); reflexivity.
Qed.

(** the index of the last bound: the first one met walking the enumeration backwards *)
Fixpoint first_bound_idx (l : list (Z * bof)) : option Z :=
  match l with
  | [] => None
  | (i, Bound _) :: _ => Some i
  | (_, Filler _) :: r => first_bound_idx r
  end.
Definition last_bound_idx (l : list bof) : option Z := first_bound_idx (rev (enumerate_z l)).

Definition fb_image (u : ublist) : option gfb :=
  if forward_bounds_ok (items u) then
    match from_vec (items u) with
    | Some v => match last_bound_idx (items v) with Some i => Some (mkFB v i) | None => None end
    | None => None
    end
  else None.

Lemma loop_strict (F : side -> bof -> rs (ctrl side side)) :
  (forall prev x, F prev x = Ret (match x with
                                  | Bound b => if side_eqb (norm_left (bl b)) prev then Break prev else Next (br b)
                                  | Filler _ => Next prev
                                  end)) ->
  forall l prev, exists p, loopM F l prev = Ret (if strict_items prev l then Next p else Break p).
Proof.
  intros HF. induction l as [|x l IH]; intros prev; cbn [loopM strict_items].
  - exists prev. reflexivity.
  - rewrite HF. destruct x as [b|f]; cbn [bind].
    + destruct (side_eqb (norm_left (bl b)) prev); [exists prev; reflexivity | apply IH].
    + apply IH.
Qed.

Lemma loop_last (F : side * option Z -> Z * bof -> rs (ctrl (side * option Z) unit)) :
  (forall st i x, F st (i, x) = Ret (match x with
                                     | Bound _ => Stop (fst st, Some i)
                                     | Filler _ => Next st
                                     end)) ->
  forall l prev, loopM F l (prev, None)
                 = Ret (match first_bound_idx l with Some i => Stop (prev, Some i) | None => Next (prev, None) end).
Proof.
  intros HF. induction l as [|[i x] l IH]; intros prev; cbn [loopM first_bound_idx]; [reflexivity|].
  rewrite HF. destruct x as [b|f]; cbn [bind fst]; [reflexivity | apply IH].
Qed.

Theorem tie_fb_try_from : forall u : ublist,
  bounds_only (items u) <> [] -> gen_fb_try_from u = Ret (fb_image u).
Proof.
  intros u Hb. cbv beta delta [gen_fb_try_from] iota zeta. unfold fb_image, forward_bounds_ok.
  destruct (items u) as [|x0 l0] eqn:El; [reflexivity|]. rewrite <- El in *.
  rewrite tie_ubl_is_forward_only. cbn [bind].
  destruct (is_forward_only (items u)); cbn [andb]; [|reflexivity].
  unfold to_list, iter_ublist.
  match goal with |- context [loopM ?F (items u) (SSome 0)] =>
    destruct (loop_strict F) with (l := items u) (prev := SSome 0) as [p Hp] end.
  { intros prev x. destruct x as [b|f]; [|reflexivity]. unfold norm_left.
    destruct (bl b) as [n|]; cbv beta iota zeta;
      match goal with |- context [side_eqb ?a prev] => destruct (side_eqb a prev) end; reflexivity. }
  rewrite Hp. rewrite <- strict_items_bounds_only.
  destruct (strict_items (SSome 0) (items u)); cbn [bind]; [|reflexivity].
  unfold model_from_vec. destruct (from_vec (items u)) as [v|] eqn:Ev.
  2:{ exfalso. unfold from_vec in Ev. destruct (bounds_only (items u)); [apply Hb; reflexivity | discriminate]. }
  cbn [bind]. unfold iter_list, last_bound_idx.
  match goal with |- context [loopM ?F (rev (enumerate_z (items v))) (p, None)] =>
    rewrite (loop_last F) end.
  2:{ intros st i x. destruct st as [a b0]. destruct x as [b|f]; reflexivity. }
  cbn [bind]. destruct (first_bound_idx (rev (enumerate_z (items v)))) as [i|]; reflexivity.
Qed.

(** what it accepts: exactly [forward_bounds_ok]; the index it keeps is that of a bound with only
    fillers after it, so [get_last_bound] cannot hit its "invariant error" *)
Lemma first_bound_idx_spec : forall (l : list (Z * bof)) i, first_bound_idx l = Some i ->
  exists pre b post, l = pre ++ (i, Bound b) :: post /\ Forall (fun p => match snd p with Filler _ => True | Bound _ => False end) pre.
Proof.
  induction l as [|[j x] l IH]; intros i H; cbn [first_bound_idx] in H; [discriminate|].
  destruct x as [b|f].
  - injection H as <-. exists [], b, l. split; [reflexivity | constructor].
  - destruct (IH i H) as (pre & b & post & E & Hall). exists ((j, Filler f) :: pre), b, post.
    split; [rewrite E; reflexivity | constructor; [exact I | exact Hall]].
Qed.

Lemma first_bound_idx_none : forall l : list (Z * bof), first_bound_idx l = None ->
  Forall (fun p => match snd p with Filler _ => True | Bound _ => False end) l.
Proof.
  induction l as [|[j x] l IH]; intros H; [constructor|]. cbn [first_bound_idx] in H.
  destruct x as [b|f]; [discriminate|]. constructor; [exact I | apply IH, H].
Qed.

Lemma snd_combine {A B} : forall (a : list A) (l : list B), length a = length l -> map snd (combine a l) = l.
Proof.
  induction a as [|x a IH]; intros [|y l] H; cbn in *; try discriminate; [reflexivity|].
  f_equal. apply IH. congruence.
Qed.

Lemma fillers_have_no_bounds : forall l : list bof,
  Forall (fun x => match x with Filler _ => True | Bound _ => False end) l -> bounds_only l = [].
Proof.
  induction l as [|[b|f] l IH]; intros H; [reflexivity | inversion H as [|? ? Hx ?]; destruct Hx |].
  inversion H as [|? ? ? Hl]; subst. change (bounds_only (Filler f :: l)) with (bounds_only l). apply IH, Hl.
Qed.

Lemma last_bound_idx_some : forall l : list bof, bounds_only l <> [] -> exists i, last_bound_idx l = Some i.
Proof.
  intros l Hb. unfold last_bound_idx. destruct (first_bound_idx (rev (enumerate_z l))) as [i|] eqn:E; [exists i; reflexivity|].
  exfalso. apply Hb. apply fillers_have_no_bounds.
  pose proof (first_bound_idx_none _ E) as H.
  assert (Hl : l = map snd (enumerate_z l)).
  { unfold enumerate_z. rewrite snd_combine; [reflexivity|]. rewrite map_length, seq_length. reflexivity. }
  rewrite Hl. apply Forall_map. apply Forall_rev in H. rewrite rev_involutive in H. exact H.
Qed.

Lemma mark_last_has_bounds : forall l : list bof, bounds_only l <> [] -> bounds_only (mark_last l) <> [].
Proof.
  induction l as [|[b|f] l IH]; intros H; cbn [mark_last]; [exact H | |].
  - destruct (bounds_only l); discriminate.
  - change (bounds_only (Filler f :: mark_last l)) with (bounds_only (mark_last l)). apply IH. exact H.
Qed.

(** accepted exactly when the model's test says so, never panicking *)
Theorem tie_fb_try_from_accepts : forall u : ublist, bounds_only (items u) <> [] ->
  (exists fb, gen_fb_try_from u = Ret (Some fb)) <-> forward_bounds_ok (items u) = true.
Proof.
  intros u Hb. rewrite (tie_fb_try_from u Hb). unfold fb_image. split.
  - intros [fb H]. destruct (forward_bounds_ok (items u)); [reflexivity | discriminate].
  - intros ->. unfold from_vec. destruct (bounds_only (items u)) as [|b0 bs] eqn:Eb; [exfalso; apply Hb; reflexivity|].
    cbn [items]. destruct (last_bound_idx_some (mark_last (items u))) as [i Hi].
    { apply mark_last_has_bounds. rewrite Eb. discriminate. }
    rewrite Hi. eexists. reflexivity.
Qed.
