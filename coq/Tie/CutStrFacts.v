(** Facts about the model's bounds lists that the bridge of [cut_str] needs: complementing or unpacking
    a list of bounds without a zero side gives such a list again. Hand-written, model only. *)
From Coq Require Import ZArith Bool List Lia.
From TucModel Require Import Base.Bytes Model.Bounds Proofs.BoundsFacts Proofs.C06.
Import ListNotations.
Local Open Scope Z_scope.

Lemma Forall_flat_map {A B} (P : A -> Prop) (Q : B -> Prop) (f : A -> list B) (l : list A) :
  (forall x, P x -> Forall Q (f x)) -> Forall P l -> Forall Q (flat_map f l).
Proof.
  intros H. induction l as [|x l IH]; intros Hl; cbn [flat_map]; [constructor|].
  inversion Hl; subst. apply Forall_app. split; [apply H; assumption | apply IH; assumption].
Qed.

Lemma mark_last_nz : forall l : list bof, Forall item_nz l -> Forall item_nz (mark_last l).
Proof.
  induction l as [|[b|f] l IH]; intros H; cbn [mark_last]; [constructor | |].
  - inversion H as [|? ? Hb Hl]; subst. destruct (bounds_only l).
    + constructor; [exact Hb | exact Hl].
    + constructor; [exact Hb | apply IH, Hl].
  - inversion H; subst. constructor; [exact I | apply IH; assumption].
Qed.

Lemma from_vec_items l u : from_vec l = Some u -> items u = mark_last l.
Proof. unfold from_vec. destruct (bounds_only l); [discriminate|]. intros E. injection E as <-. reflexivity. Qed.

Lemma from_vec_nz l u : from_vec l = Some u -> Forall item_nz l -> Forall item_nz (items u).
Proof. intros E H. rewrite (from_vec_items l u E). apply mark_last_nz, H. Qed.

Lemma singles_nz : forall c s, Forall bound_nz (singles_from s c).
Proof.
  induction c as [|c IH]; intros s; cbn [singles_from]; constructor; [|apply IH].
  unfold bound_nz, single; cbn [bl br side_nz]. lia.
Qed.

Lemma unpack_bound_nz b n : bound_nz b -> Forall bound_nz (unpack_bound b n).
Proof. intros H. unfold unpack_bound. destruct (try_into_range b n) as [[s e]|]; [apply singles_nz | constructor; [exact H | constructor]]. Qed.

Lemma unpack_list_nz l n u : unpack_list l n = Some u -> Forall item_nz l -> Forall item_nz (items u).
Proof.
  unfold unpack_list. intros E H. apply (from_vec_nz _ _ E).
  apply (Forall_flat_map item_nz item_nz); [|exact H].
  intros [b|f] Hx; [|constructor; [exact I | constructor]].
  apply Forall_map. eapply Forall_impl; [|apply unpack_bound_nz, Hx]. intros a Ha. exact Ha.
Qed.

Lemma complement_bound_nz b n cs : bound_nz b -> complement_bound b n = Some cs -> Forall bound_nz cs.
Proof.
  intros Hb. unfold complement_bound. destruct (try_into_range b n) as [[s e]|] eqn:E; [|discriminate].
  destruct (try_into_range_some b n s e Hb E) as (_ & _ & _ & Hse). intros H. injection H as <-.
  apply Forall_map. unfold complement_std_range.
  destruct s as [|s']; destruct (Nat.eqb_spec e n) as [En|En]; repeat constructor;
    unfold of_range; cbn [fst snd bl br side_nz]; lia.
Qed.

Lemma complement_items_nz l n : Forall item_nz l -> Forall item_nz (complement_items l n).
Proof.
  unfold complement_items. apply Forall_flat_map. intros [b|f] Hx; [|constructor; [exact I | constructor]].
  destruct (complement_bound b n) as [cs|] eqn:E.
  - apply Forall_map. eapply Forall_impl; [|apply (complement_bound_nz b n cs Hx E)]. intros a Ha. exact Ha.
  - constructor; [exact Hx | constructor].
Qed.

Lemma complement_list_nz l n u : complement_list l n = Some u -> Forall item_nz l -> Forall item_nz (items u).
Proof.
  unfold complement_list. destruct (bounds_only (complement_items l n)); [discriminate|].
  intros E H. apply (from_vec_nz _ _ E). apply complement_items_nz, H.
Qed.

Lemma mark_last_nonempty : forall l : list bof, l <> [] -> mark_last l <> [].
Proof. intros [|[b|f] l] H; cbn [mark_last]; [contradiction | destruct (bounds_only l); discriminate | discriminate]. Qed.

Lemma complement_list_nonempty l n u : complement_list l n = Some u -> items u <> [].
Proof.
  unfold complement_list. destruct (bounds_only (complement_items l n)) eqn:Eb; [discriminate|].
  intros E. rewrite (from_vec_items _ _ E). apply mark_last_nonempty. intros H. rewrite H in Eb. discriminate.
Qed.
