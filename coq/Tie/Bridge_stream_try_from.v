(** [TryFrom<&Opt> for StreamOpt], translated from the current source (with [ForwardBounds::try_from]
    taken from the model): accepted exactly when the model's [stream_opt] accepts - one-byte delimiter,
    none of -m -g -p --json -t -e -s, field mode, a replacement of exactly one byte if any, bounds the
    forward-bounds test accepts - never panicking ([unwrap] on the replacement is reached only behind
    [is_some]), with the delimiter, replacement, join, terminator and fallback carried over. *)
From Coq Require Import ZArith Bool List Lia.
From TucModel Require Import Base.Bytes Model.Bounds Model.Scan Model.Regex Model.Opt Model.Stream
  Tie.RsPrelude Tie.TieBase Tie.RsOpt Tie.Gen_stream_try_from.
Import ListNotations.
Local Open Scope Z_scope.

Definition stream_image (o : opt) : option gsopt :=
  match stream_opt o with
  | Some so => Some (mkGSO (s_delim so) (s_repl so) (s_join so) (s_eol so) (o_bounds o) (s_fallback so))
  | None => None
  end.

Lemma tie_stream_try_from : forall o : opt, gen_stream_try_from o = Ret (stream_image o).
Proof.
  intros o. cbv beta delta [gen_stream_try_from] iota zeta. unfold stream_image, stream_opt, model_forward_try_from.
  destruct (o_delim o) as [|d [|d2 ds]]; cbn [length hd_error];
    try (change (Z.of_nat 0 =? 1) with false); try (change (Z.of_nat 1 =? 1) with true); cbn [negb];
    try reflexivity.
  2:{ destruct (Z.eqb_spec (Z.of_nat (S (S (length ds)))) 1) as [E|E]; [lia|]. reflexivity. }
  destruct (o_complement o), (o_greedy o), (o_compress o), (o_json o), (btype_eqb (o_btype o) BFields);
    cbn [orb negb]; try reflexivity.
  destruct (o_replace o) as [[|r [|r2 rs]]|]; cbn [opt_unwrap bind length];
    try (change (Z.of_nat 0 =? 1) with false); try (change (Z.of_nat 1 =? 1) with true); cbn [negb orb];
    try reflexivity;
    try (destruct (Z.eqb_spec (Z.of_nat (S (S (length rs)))) 1) as [E|E]; [lia|]; cbn [negb]; reflexivity);
    destruct (o_trim o), (o_regex o), (o_only_delimited o); cbn [orb]; try reflexivity;
    cbn [bind]; destruct (forward_bounds_ok (items (o_bounds o))); cbn [opt_unwrap opt_mapM hd_error bind]; reflexivity.
Qed.
