(** src/cut_lines.rs : cut_lines_forward_only (the one-line-at-a-time algorithm of -l), translated stage by
    stage.  PARTIAL: proved here is everything that happens once the input is exhausted (or every bound has
    been used) - the stages after the main loop, against the model's [fwd_finish] / [fwd_tail]: a pending bound
    that has printed lines is complete only if it is open on the right, every other pending bound prints its
    own fallback, else the generic one, else the run fails; fillers verbatim; the EOL between items under
    join; one final EOL.  The main loop itself ([gen_lines_forward_s4], a `while let` over [read_line] with the
    inner `while` over the bounds) is translated but not bridged: [read_and_cut_lines] keeps the model's
    [fwd_lines] for it (hybrid), and the correspondence check ties it. *)
From Coq Require Import ZArith Bool List Lia.
From TucModel Require Import Base.Bytes Model.Bounds Model.Scan Model.Utf8 Model.Regex Model.Opt Model.CutBytes Model.CutStr Model.CutLines Proofs.Utf8Snoc
  Tie.RsPrelude Tie.TieBase Tie.RsOpt Tie.RsStr Tie.RsList Tie.RsLines Tie.Bridge_print_bof Tie.LinesFacts
  Tie.Gen_ub_matches Tie.Bridge_ub_matches
  Tie.Gen_lines_forward.
Import ListNotations.
Local Open Scope Z_scope.

Section Tail.
  Variables (o : opt) (sin lb : bytes) (li : Z) (an : bool).
  Notation its := (items (o_bounds o)).
  Notation n := (length (items (o_bounds o))).
  Notation S6 := (bytes * bytes * bytes * Z * Z * bool)%type.
  Notation st out i := (sin, out, lb, li, Z.of_nat i, an) (only parsing).

  Definition item_out (x : bof) : option bytes :=
    match x with Filler f => Some f | Bound b => fallback_for b (o_fallback o) end.
  Definition sep_after (i : nat) : bytes := if o_join o && negb (Z.of_nat i =? Z.of_nat n) then [o_eol o] else [].

  Lemma fwd_tail_step : forall l x,
    fwd_tail o (x :: l) = match item_out x with
                          | Some t => match fwd_tail o l with
                                      | Some r => Some (t ++ (if o_join o && nonempty l then [o_eol o] else []) ++ r)
                                      | None => None end
                          | None => None end.
  Proof. intros l [b|f]; cbn [fwd_tail item_out]; [destruct (fallback_for b (o_fallback o))|]; reflexivity. Qed.

  Lemma tail_loop (cond : S6 -> rs bool) (body : S6 -> rs (ctrl S6 (option unit))) :
    (forall out i, cond (st out i) = Ret (Z.of_nat i <? Z.of_nat n)) ->
    (forall out i x, nth_error its i = Some x ->
       body (st out i) = match item_out x with
                         | Some t => Ret (Next (st (out ++ t ++ sep_after (S i)) (S i)))
                         | None => Ret (Break None)
                         end) ->
    forall k i out fuel, (n - i = k)%nat -> (i <= n)%nat -> (k < fuel)%nat ->
      whileM fuel cond body (st out i)
      = match fwd_tail o (skipn i its) with
        | Some r => Ret (Next (st (out ++ r) n))
        | None => Ret (Break None)
        end.
  Proof.
    intros Hc Hb. induction k as [|k IH]; intros i out fuel Hk Hi Hf; destruct fuel as [|fuel]; try lia; cbn [whileM]; rewrite Hc.
    - assert (i = n) by lia. subst i. destruct (Z.ltb_spec (Z.of_nat n) (Z.of_nat n)); [lia|]. cbn [bind].
      rewrite skipn_all. cbn [fwd_tail]. rewrite app_nil_r. reflexivity.
    - destruct (Z.ltb_spec (Z.of_nat i) (Z.of_nat n)); [|lia]. cbn [bind].
      destruct (nth_error its i) as [x|] eqn:En; [|apply nth_error_None in En; lia].
      rewrite (Hb out i x En).
      assert (Es : skipn i its = x :: skipn (S i) its).
      { rewrite nth_skipn in En. rewrite skipn_S_tl. destruct (skipn i its); [discriminate|]. cbn in En. injection En as ->. reflexivity. }
      rewrite Es, fwd_tail_step. destruct (item_out x) as [t|]; cbn [bind]; [|reflexivity].
      rewrite (IH (S i) _ fuel) by lia.
      assert (Esep : sep_after (S i) = (if o_join o && nonempty (skipn (S i) its) then [o_eol o] else [])).
      { unfold sep_after. f_equal. f_equal.
        destruct (Z.eqb_spec (Z.of_nat (S i)) (Z.of_nat n)) as [E|E].
        - assert (S i = n) by lia. rewrite H0, skipn_all. reflexivity.
        - destruct (skipn (S i) its) eqn:E2; [|reflexivity]. exfalso.
          apply (f_equal (@length _)) in E2. rewrite skipn_length in E2. cbn in E2. lia. }
      rewrite Esep. destruct (fwd_tail o (skipn (S i) its)); [rewrite <- !app_assoc; reflexivity | reflexivity].
  Qed.
End Tail.

Lemma usize_add_1 (i : nat) : Z.of_nat i + 1 <= usize_max -> usize_add (Z.of_nat i) 1 = Ret (Z.of_nat (S i)).
Proof. apply usize_add_nat. Qed.

(** the final while loop and the final EOL *)
Lemma s6_spec (o : opt) (sin out lb : bytes) (li : Z) (i : nat) (an : bool) :
  (i <= length (items (o_bounds o)))%nat -> Z.of_nat (length (items (o_bounds o))) + 1 <= usize_max ->
  match fwd_tail o (skipn i (items (o_bounds o))) with
  | Some r => gen_lines_forward_s6 sin out o lb li (Z.of_nat i) an = Ret (Some tt, out ++ r ++ [o_eol o])
  | None => exists p, gen_lines_forward_s6 sin out o lb li (Z.of_nat i) an = Ret (None, p)
  end.
Proof.
  intros Hi Hn. cbv beta delta [gen_lines_forward_s6 gen_lines_forward_s7 gen_lines_forward_s8] iota zeta.
  match goal with |- context [whileM ?f ?c ?b _] =>
    pose proof (tail_loop o sin lb li an c b) as L end.
  rewrite (L ltac:(intros; reflexivity)) with (k := (length (items (o_bounds o)) - i)%nat); try lia.
  - destruct (fwd_tail o (skipn i (items (o_bounds o)))) as [r|]; cbn [bind]; [rewrite <- app_assoc; reflexivity | eexists; reflexivity].
  - intros out' j x En. rewrite Nat2Z.id, En. cbn [opt_unwrap bind].
    assert (Hj : (j < length (items (o_bounds o)))%nat) by (apply nth_error_Some; rewrite En; discriminate).
    unfold sep_after, item_out.
    destruct x as [b|f].
    + unfold fallback_for. destruct (bfb b) as [fb|].
      * rewrite (usize_add_1 j) by lia. cbn [bind].
        destruct (o_join o), (Z.of_nat (S j) =? Z.of_nat (length (items (o_bounds o)))); cbn [andb negb app]; rewrite <- ?app_assoc, ?app_nil_r; reflexivity.
      * destruct (o_fallback o) as [fb|]; [|reflexivity].
        rewrite (usize_add_1 j) by lia. cbn [bind].
        destruct (o_join o), (Z.of_nat (S j) =? Z.of_nat (length (items (o_bounds o)))); cbn [andb negb app]; rewrite <- ?app_assoc, ?app_nil_r; reflexivity.
    + rewrite (usize_add_1 j) by lia. cbn [bind].
      destruct (o_join o), (Z.of_nat (S j) =? Z.of_nat (length (items (o_bounds o)))); cbn [andb negb app]; rewrite <- ?app_assoc, ?app_nil_r; reflexivity.
Qed.

(** what follows the main loop: the pending bound that has printed lines, then the rest *)
Theorem tie_lines_forward_finish (o : opt) (sin out lb : bytes) (li : Z) (i : nat) (an : bool) :
  (i <= length (items (o_bounds o)))%nat -> Z.of_nat (length (items (o_bounds o))) + 1 <= usize_max ->
  (an = true -> exists b, nth_error (items (o_bounds o)) i = Some (Bound b)) ->
  match fwd_finish o (skipn i (items (o_bounds o))) an with
  | Some r => gen_lines_forward_s5 sin out o lb li (Z.of_nat i) an = Ret (Some tt, out ++ r ++ [o_eol o])
  | None => exists p, gen_lines_forward_s5 sin out o lb li (Z.of_nat i) an = Ret (None, p)
  end.
Proof.
  intros Hi Hn Han. cbv beta delta [gen_lines_forward_s5] iota zeta. rewrite Nat2Z.id.
  destruct an.
  - destruct (Han eq_refl) as [b Eb]. rewrite Eb.
    assert (Hlt : (i < length (items (o_bounds o)))%nat) by (apply nth_error_Some; rewrite Eb; discriminate).
    assert (Es : skipn i (items (o_bounds o)) = Bound b :: skipn (S i) (items (o_bounds o))).
    { rewrite nth_skipn in Eb. rewrite skipn_S_tl. destruct (skipn i (items (o_bounds o))); [discriminate|]. cbn in Eb. injection Eb as ->. reflexivity. }
    rewrite Es. cbn [fwd_finish].
    destruct (br b) as [r|] eqn:Er; cbn [side_eqb negb].
    + eexists. reflexivity.
    + rewrite (usize_add_1 i) by lia. cbn [bind].
      pose proof (s6_spec o sin (out ++ (if o_join o && negb (Z.of_nat (S i) =? Z.of_nat (length (items (o_bounds o)))) then [o_eol o] else [])) lb li (S i) true ltac:(lia) Hn) as H6.
      assert (Esep : (if o_join o && negb (Z.of_nat (S i) =? Z.of_nat (length (items (o_bounds o)))) then [o_eol o] else [])
                     = (if o_join o && nonempty (skipn (S i) (items (o_bounds o))) then [o_eol o] else [])).
      { f_equal. f_equal. destruct (Z.eqb_spec (Z.of_nat (S i)) (Z.of_nat (length (items (o_bounds o))))) as [E|E].
        - assert (E' : S i = length (items (o_bounds o))) by lia. rewrite E', skipn_all. reflexivity.
        - destruct (skipn (S i) (items (o_bounds o))) eqn:E2; [|reflexivity]. exfalso.
          apply (f_equal (@length _)) in E2. rewrite skipn_length in E2. cbn in E2. lia. }
      rewrite <- Esep.
      destruct (fwd_tail o (skipn (S i) (items (o_bounds o)))) as [r|].
      * destruct (o_join o), (Z.of_nat (S i) =? Z.of_nat (length (items (o_bounds o)))); cbn [andb negb app] in *;
          rewrite ?app_nil_r in H6; rewrite H6, <- ?app_assoc; reflexivity.
      * destruct H6 as [p H6]. exists p.
        destruct (o_join o), (Z.of_nat (S i) =? Z.of_nat (length (items (o_bounds o)))); cbn [andb negb app] in *; rewrite ?app_nil_r in H6; exact H6.
  - assert (Ef : fwd_finish o (skipn i (items (o_bounds o))) false = fwd_tail o (skipn i (items (o_bounds o))))
      by (unfold fwd_finish; destruct (skipn i (items (o_bounds o))) as [|[b|f] r]; reflexivity).
    rewrite Ef. exact (s6_spec o sin out lb li i false Hi Hn).
Qed.

Definition tie_lines_forward := tie_lines_forward_finish.
Print Assumptions tie_lines_forward_finish.

(** ------------------------------------------------------------------------------------------------
    The inner loop of the main loop: for one line, the pending bounds are walked as the model's
    [fwd_bounds] walks them. *)
Section Inner.
  Variables (o : opt) (sin lb : bytes) (li : Z) (line : bytes).
  Notation its := (items (o_bounds o)).
  Notation n := (length (items (o_bounds o))).
  Notation S6 := (bytes * bytes * bytes * Z * Z * bool)%type.
  Notation st out i an := (sin, out, lb, li, Z.of_nat i, an) (only parsing).

  (** what one turn of the loop does at index i *)
  Definition turn (out : bytes) (i : nat) (an : bool) (x : bof) : ctrl S6 (option unit) :=
    match x with
    | Filler f => Next (st (out ++ f ++ sep_after o (S i)) (S i) an)
    | Bound b =>
        match matches b li with
        | Some true =>
            let pre := (if an then [o_eol o] else []) ++ line in
            if side_eqb (br b) (SSome li)
            then Next (st (out ++ pre ++ sep_after o (S i)) (S i) false)
            else Stop (st (out ++ pre) i true)
        | _ => Stop (st out i an)
        end
    end.

  Lemma inner_loop (cond : S6 -> rs bool) (body : S6 -> rs (ctrl S6 (option unit))) :
    (forall out i an, cond (st out i an) = Ret (Z.of_nat i <? Z.of_nat n)) ->
    (forall out i an x, nth_error its i = Some x -> body (st out i an) = Ret (turn out i an x)) ->
    forall k i out an fuel, (n - i = k)%nat -> (i <= n)%nat -> (k < fuel)%nat ->
      exists tag : S6 -> ctrl S6 (option unit), (tag = Next \/ tag = Stop) /\
        whileM fuel cond body (st out i an)
        = let '(o', rest, an') := fwd_bounds o (skipn i its) an li line in
          Ret (tag (st (out ++ o') (n - length rest) an')).
  Proof.
    intros Hc Hb. induction k as [|k IH]; intros i out an fuel Hk Hi Hf; destruct fuel as [|fuel]; try lia; cbn [whileM]; rewrite Hc.
    - assert (i = n) by lia. subst i. destruct (Z.ltb_spec (Z.of_nat n) (Z.of_nat n)); [lia|]. cbn [bind].
      rewrite skipn_all. cbn [fwd_bounds length]. rewrite app_nil_r, Nat.sub_0_r. exists Next. split; [left; reflexivity | reflexivity].
    - destruct (Z.ltb_spec (Z.of_nat i) (Z.of_nat n)); [|lia]. cbn [bind].
      destruct (nth_error its i) as [x|] eqn:En; [|apply nth_error_None in En; lia].
      rewrite (Hb out i an x En).
      assert (Es : skipn i its = x :: skipn (S i) its).
      { rewrite nth_skipn in En. rewrite skipn_S_tl. destruct (skipn i its); [discriminate|]. cbn in En. injection En as ->. reflexivity. }
      assert (Esep : sep_after o (S i) = (if o_join o && nonempty (skipn (S i) its) then [o_eol o] else [])).
      { unfold sep_after. f_equal. f_equal.
        destruct (Z.eqb_spec (Z.of_nat (S i)) (Z.of_nat n)) as [E|E].
        - assert (E' : S i = n) by lia. rewrite E', skipn_all. reflexivity.
        - destruct (skipn (S i) its) eqn:E2; [|reflexivity]. exfalso.
          apply (f_equal (@length _)) in E2. rewrite skipn_length in E2. cbn in E2. lia. }
      assert (Hlen : length (skipn i its) = (n - i)%nat) by apply skipn_length.
      rewrite Es. cbn [fwd_bounds]. unfold turn. destruct x as [b|f]; cbn [bind].
      + destruct (matches b li) as [[|]|].
        * destruct (side_eqb (br b) (SSome li)); cbn [bind].
          -- destruct (IH (S i) (out ++ ((if an then [o_eol o] else []) ++ line) ++ sep_after o (S i)) false fuel ltac:(lia) ltac:(lia) ltac:(lia)) as (tag & Ht & E).
             exists tag. split; [exact Ht|]. rewrite E, <- Esep.
             destruct (fwd_bounds o (skipn (S i) its) false li line) as [[o' rest] a']. rewrite <- !app_assoc. reflexivity.
          -- exists Stop. split; [right; reflexivity|]. rewrite <- Es, Hlen. replace (n - (n - i))%nat with i by lia. reflexivity.
        * exists Stop. split; [right; reflexivity|]. rewrite <- Es, Hlen, app_nil_r. replace (n - (n - i))%nat with i by lia. reflexivity.
        * exists Stop. split; [right; reflexivity|]. rewrite <- Es, Hlen, app_nil_r. replace (n - (n - i))%nat with i by lia. reflexivity.
      + destruct (IH (S i) (out ++ f ++ sep_after o (S i)) an fuel ltac:(lia) ltac:(lia) ltac:(lia)) as (tag & Ht & E).
        exists tag. split; [exact Ht|]. rewrite E, <- Esep.
        destruct (fwd_bounds o (skipn (S i) its) an li line) as [[o' rest] a']. rewrite <- !app_assoc. reflexivity.
  Qed.
End Inner.

(** ------------------------------------------------------------------------------------------------
    The main loop: one raw line after the other, each handed to the inner loop, until the input or the
    bounds are exhausted; then the finishing stages.  (A line is valid UTF-8 with its ASCII terminator exactly
    when it is without it: Proofs/Utf8Snoc.v.) *)
Definition of_outcome_fwd (m : outcome) (x : rs (option unit * bytes)) : Prop :=
  match m with
  | Done out => x = Ret (Some tt, out)
  | Fail _ => exists partial, x = Ret (None, partial)
  | _ => True
  end.

Section Outer.
  Variables (o : opt) (lb out0 : bytes).
  Notation its := (items (o_bounds o)).
  Notation n := (length (items (o_bounds o))).
  Notation eol := (o_eol o).
  Notation S6 := (bytes * bytes * bytes * Z * Z * bool)%type.

  Definition after (r : ctrl S6 (option unit)) : rs (option unit * bytes) :=
    match r with
    | Next (sin', out', lb', li', i', an') => gen_lines_forward_s5 sin' out' o lb' li' i' an'
    | Stop (sin', out', lb', li', i', an') => gen_lines_forward_s5 sin' out' o lb' li' i' an'
    | Break v => Ret (v, out0)
    end.

  Definition step_model (sin out : bytes) (li : Z) (i : nat) (an : bool) : rs (ctrl S6 (option unit)) :=
    match sin with
    | [] => Ret (Stop ([], out, lb, li, Z.of_nat i, an))
    | _ => let '(raw, rest) := take_line eol sin in
           if utf8_valid raw then
             let '(o', restb, an') := fwd_bounds o (skipn i its) an (li + 1) (strip_eol eol raw) in
             let i' := (n - length restb)%nat in
             Ret ((if Z.of_nat i' =? Z.of_nat n then Stop else Next) (rest, out ++ o', lb, li + 1, Z.of_nat i', an'))
           else Ret (Break None)
    end.

  Lemma outer_loop (step : S6 -> rs (ctrl S6 (option unit))) :
    Z.of_nat n + 1 <= usize_max ->
    (forall sin out li i an, 0 <= li -> li + 1 <= i32_max -> (i <= n)%nat ->
       step (sin, out, lb, li, Z.of_nat i, an) = step_model sin out li i an) ->
    forall fuel sin out li i an,
      (length sin < fuel)%nat -> 0 <= li -> li + Z.of_nat (length sin) + 1 <= i32_max -> (i < n)%nat ->
      (an = true -> exists b r, skipn i its = Bound b :: r) ->
      (forall l, In l (records eol sin) -> utf8_valid (l ++ [eol]) = utf8_valid l) ->
      of_outcome_fwd (fwd_lines o (records eol sin) (skipn i its) an li out)
                     (bind (loopWhile fuel step (sin, out, lb, li, Z.of_nat i, an)) after).
  Proof.
    intros Hn Hstep. induction fuel as [|fuel IH]; intros sin out li i an Hf Hli Hmax Hi Hinv Hutf; [lia|].
    cbn [loopWhile]. rewrite Hstep by lia. unfold step_model.
    destruct sin as [|c sin'].
    - (* the input is exhausted *)
      cbn [bind records records_aux fwd_lines after].
      pose proof (tie_lines_forward_finish o [] out lb li i an ltac:(lia) Hn) as F.
      assert (Hinv' : an = true -> exists b, nth_error its i = Some (Bound b)).
      { intros E. destruct (Hinv E) as (b & r & Hs). exists b. rewrite nth_skipn, Hs. reflexivity. }
      specialize (F Hinv'). destruct (fwd_finish o (skipn i its) an) as [t|]; cbn [of_outcome_fwd]; exact F.
    - set (sin0 := c :: sin') in *. assert (Hne : sin0 <> []) by discriminate.
      pose proof (records_take eol sin0 Hne) as RT. pose proof (take_line_length eol sin0) as [_ TL]. specialize (TL Hne).
      unfold sin0 at 1. cbv iota. fold sin0.
      destruct (take_line eol sin0) as [raw rest] eqn:Et. cbn [snd] in TL. destruct RT as [Erec Eraw].
      rewrite Erec. cbn [fwd_lines].
      assert (Hu : utf8_valid raw = utf8_valid (strip_eol eol raw)).
      { destruct Eraw as [E|[E _]]; [|rewrite <- E; reflexivity]. rewrite E at 1. apply Hutf. rewrite Erec. left. reflexivity. }
      rewrite Hu. destruct (utf8_valid (strip_eol eol raw)); cbn [negb]; [|cbn [bind after of_outcome_fwd]; eexists; reflexivity].
      pose proof (fwd_bounds_suffix o (li + 1) (strip_eol eol raw) (skipn i its) an Hinv) as FS.
      destruct (fwd_bounds o (skipn i its) an (li + 1) (strip_eol eol raw)) as [[o' restb] an'].
      destruct FS as [[pre Hpre] Han'].
      assert (Hsk : skipn (n - length restb) its = restb).
      { assert (Hits : its = firstn i its ++ pre ++ restb) by (rewrite <- Hpre; symmetry; apply firstn_skipn).
        rewrite app_assoc in Hits. apply (suffix_skipn its (firstn i its ++ pre) restb Hits). }
      assert (Hlr : (length restb <= n)%nat).
      { apply (f_equal (@length _)) in Hpre. rewrite skipn_length, app_length in Hpre. lia. }
      destruct restb as [|rb restb'] eqn:Erb.
      + (* every bound has been used: the loop is left, the finishing stages add the EOL *)
        cbn [length]. rewrite Nat.sub_0_r, Z.eqb_refl. cbn [bind after].
        pose proof (tie_lines_forward_finish o rest (out ++ o') lb (li + 1) n an' ltac:(lia) Hn) as F.
        assert (Hno : an' = true -> exists b, nth_error its n = Some (Bound b)).
        { intros E. destruct (Han' E) as (b & r & Hb). discriminate. }
        specialize (F Hno). rewrite skipn_all in F. cbn [fwd_finish fwd_tail app] in F. cbn [of_outcome_fwd]. rewrite <- app_assoc in F. exact F.
      + rewrite <- Erb in *. assert (Hl1 : (1 <= length restb)%nat) by (rewrite Erb; cbn; lia).
        destruct (Z.eqb_spec (Z.of_nat (n - length restb)) (Z.of_nat n)) as [E|E]; [lia|].
        cbn [bind]. replace (match restb with [] => Done (out ++ o' ++ [eol]) | _ :: _ => fwd_lines o (records eol rest) restb an' (li + 1) (out ++ o') end)
          with (fwd_lines o (records eol rest) restb an' (li + 1) (out ++ o')) by (rewrite Erb; reflexivity).
        assert (IH' := IH rest (out ++ o') (li + 1) (n - length restb)%nat an').
        rewrite Hsk in IH'. apply IH'; try lia.
        * exact Han'.
        * intros l Hl. apply Hutf. rewrite Erec. right. exact Hl.
  Qed.
End Outer.

Lemma i32_add_1 (a : Z) : 0 <= a -> a + 1 <= i32_max -> i32_add a 1 = Ret (a + 1).
Proof.
  intros H1 H2. unfold i32_add, i32_chk, in_i32, i32_min, i32_max in *.
  destruct (Z.leb_spec (-2147483648) (a + 1)); [|lia]. destruct (Z.leb_spec (a + 1) 2147483647); [|lia]. reflexivity.
Qed.

(** the whole function *)
Theorem tie_lines_forward_whole : forall (o : opt) (input : bytes),
  items (o_bounds o) <> [] ->
  Z.of_nat (length (items (o_bounds o))) + 1 <= usize_max ->
  Z.of_nat (length input) + 1 <= i32_max ->
  (o_eol o < 128)%N ->
  of_outcome_fwd (fwd_lines o (records (o_eol o) input) (items (o_bounds o)) false 0 [])
                 (gen_lines_forward input o).
Proof.
  intros o input Hne Hn Hlen Heol.
  assert (Hutf : forall l, In l (records (o_eol o) input) -> utf8_valid (l ++ [o_eol o]) = utf8_valid l)
    by (intros l _; apply utf8_valid_snoc, Heol).
  cbv beta delta [gen_lines_forward gen_lines_forward_s1 gen_lines_forward_s2 gen_lines_forward_s3 gen_lines_forward_s4] iota zeta.
  assert (Hpos : (0 < length (items (o_bounds o)))%nat) by (destruct (items (o_bounds o)); [contradiction | cbn; lia]).
  match goal with |- of_outcome_fwd _ (bind (loopWhile ?fuel ?step ?st) ?aft) =>
    assert (Hstep : forall sin out li i an, 0 <= li -> li + 1 <= i32_max -> (i <= length (items (o_bounds o)))%nat ->
               step (sin, out, [], li, Z.of_nat i, an) = step_model o [] sin out li i an);
    [| assert (Haft : forall r, aft r = after o [] r) by (intros [[[[[[a b] c] d] e] f]|[[[[[a b] c] d] e] f]|v]; reflexivity);
       pose proof (outer_loop o [] [] step Hn Hstep fuel input [] 0 0%nat false) as OL ]
  end.
  2:{ change (Z.of_nat 0) with 0 in OL. cbn [skipn] in OL.
      match goal with |- of_outcome_fwd _ (bind ?x ?aft) =>
        replace (bind x aft) with (bind x (after o [])) by (destruct x as [r|]; [cbn [bind]; symmetry; apply Haft | reflexivity]) end.
      apply OL; try lia; try discriminate; try exact Hutf. }
  (* one turn of the main loop *)
  intros sin out li i an Hli Hmax Hi. unfold step_model, read_line_eol.
  destruct sin as [|c sin']; [reflexivity|]. set (sin0 := c :: sin').
  destruct (take_line (o_eol o) sin0) as [raw rest]. cbv iota beta.
  destruct (utf8_valid raw); cbv iota beta; rewrite (i32_add_1 li Hli Hmax); cbn [bind]; [|reflexivity].
  fold (strip_eol (o_eol o) raw). set (line := strip_eol (o_eol o) raw).
  match goal with |- context [whileM ?f ?c ?b _] =>
    destruct (inner_loop o rest [] (li + 1) line c b) with (k := (length (items (o_bounds o)) - i)%nat) (i := i) (out := out) (an := an) (fuel := f)
      as (tag & Htag & E) end; try lia.
  - intros; reflexivity.
  - (* one turn of the inner loop *)
    intros out' j an0 x En. rewrite Nat2Z.id, En. cbn [opt_unwrap bind]. unfold turn, sep_after.
    assert (Hj : (j < length (items (o_bounds o)))%nat) by (apply nth_error_Some; rewrite En; discriminate).
    destruct x as [b|f].
    + rewrite tie_ub_matches. cbn [bind].
      destruct (matches b (li + 1)) as [[|]|]; try reflexivity.
      rewrite ?(side_eqb_sym (SSome (li + 1)) (br b)).
      destruct (side_eqb (br b) (SSome (li + 1))).
      * rewrite (usize_add_1 j) by lia. cbn [bind].
        destruct an0; destruct (o_join o), (Z.of_nat (S j) =? Z.of_nat (length (items (o_bounds o)))); cbn [andb negb];
          rewrite <- ?app_assoc, ?app_nil_r; cbn [app]; rewrite ?app_nil_r; reflexivity.
      * destruct an0; cbn [app]; rewrite <- ?app_assoc; reflexivity.
    + rewrite (usize_add_1 j) by lia. cbn [bind].
      destruct (o_join o), (Z.of_nat (S j) =? Z.of_nat (length (items (o_bounds o)))); cbn [andb negb];
        rewrite <- ?app_assoc, ?app_nil_r; cbn [app]; rewrite ?app_nil_r; reflexivity.
  - rewrite E. destruct (fwd_bounds o (skipn i (items (o_bounds o))) an (li + 1) line) as [[o' restb] an'].
    destruct Htag as [-> | ->]; cbn [bind];
      destruct (Z.of_nat (length (items (o_bounds o)) - length restb) =? Z.of_nat (length (items (o_bounds o)))); reflexivity.
Qed.

Print Assumptions tie_lines_forward_whole.
