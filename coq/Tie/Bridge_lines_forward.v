(** src/cut_lines.rs : cut_lines_forward_only (the one-line-at-a-time algorithm of -l), translated stage by
    stage.  PARTIAL: proved here is everything that happens once the input is exhausted (or every bound has
    been used) - the stages after the main loop, against the model's [fwd_finish] / [fwd_tail]: a pending bound
    that has printed lines is complete only if it is open on the right, every other pending bound prints its
    own fallback, else the generic one, else the run fails; fillers verbatim; the EOL between items under
    join; one final EOL.  The main loop itself ([gen_lines_forward_s4], a `while let` over [read_line] with the
    inner `while` over the bounds) is translated but not bridged: [read_and_cut_lines] keeps the model's
    [fwd_lines] for it (hybrid), and the correspondence check ties it. *)
From Coq Require Import ZArith Bool List Lia.
From TucModel Require Import Base.Bytes Model.Bounds Model.Scan Model.Utf8 Model.Regex Model.Opt Model.CutBytes Model.CutStr Model.CutLines
  Tie.RsPrelude Tie.TieBase Tie.RsOpt Tie.RsStr Tie.RsList Tie.RsLines Tie.Bridge_print_bof
  Tie.Gen_lines_forward.
Import ListNotations.
Local Open Scope Z_scope.

Section Tail.
  Variables (o : opt) (sin lb : bytes) (li : Z) (an : bool).
  Notation its := (items (o_bounds o)).
  Notation n := (length (items (o_bounds o))).
  Notation S6 := (bytes * bytes * bytes * Z * Z * bool)%type.
  Notation st out i := (sin, out, lb, li, Z.of_nat i, an) (only parsing).

  Definition item_out (x : bof) : option bytes :=
    match x with Filler f => Some f | Bound b => fallback_for b (o_fallback o) end.
  Definition sep_after (i : nat) : bytes := if o_join o && negb (Z.of_nat i =? Z.of_nat n) then [o_eol o] else [].

  Lemma fwd_tail_step : forall l x,
    fwd_tail o (x :: l) = match item_out x with
                          | Some t => match fwd_tail o l with
                                      | Some r => Some (t ++ (if o_join o && nonempty l then [o_eol o] else []) ++ r)
                                      | None => None end
                          | None => None end.
  Proof. intros l [b|f]; cbn [fwd_tail item_out]; [destruct (fallback_for b (o_fallback o))|]; reflexivity. Qed.

  Lemma tail_loop (cond : S6 -> rs bool) (body : S6 -> rs (ctrl S6 (option unit))) :
    (forall out i, cond (st out i) = Ret (Z.of_nat i <? Z.of_nat n)) ->
    (forall out i x, nth_error its i = Some x ->
       body (st out i) = match item_out x with
                         | Some t => Ret (Next (st (out ++ t ++ sep_after (S i)) (S i)))
                         | None => Ret (Break None)
                         end) ->
    forall k i out fuel, (n - i = k)%nat -> (i <= n)%nat -> (k < fuel)%nat ->
      whileM fuel cond body (st out i)
      = match fwd_tail o (skipn i its) with
        | Some r => Ret (Next (st (out ++ r) n))
        | None => Ret (Break None)
        end.
  Proof.
    intros Hc Hb. induction k as [|k IH]; intros i out fuel Hk Hi Hf; destruct fuel as [|fuel]; try lia; cbn [whileM]; rewrite Hc.
    - assert (i = n) by lia. subst i. destruct (Z.ltb_spec (Z.of_nat n) (Z.of_nat n)); [lia|]. cbn [bind].
      rewrite skipn_all. cbn [fwd_tail]. rewrite app_nil_r. reflexivity.
    - destruct (Z.ltb_spec (Z.of_nat i) (Z.of_nat n)); [|lia]. cbn [bind].
      destruct (nth_error its i) as [x|] eqn:En; [|apply nth_error_None in En; lia].
      rewrite (Hb out i x En).
      assert (Es : skipn i its = x :: skipn (S i) its).
      { rewrite nth_skipn in En. rewrite skipn_S_tl. destruct (skipn i its); [discriminate|]. cbn in En. injection En as ->. reflexivity. }
      rewrite Es, fwd_tail_step. destruct (item_out x) as [t|]; cbn [bind]; [|reflexivity].
      rewrite (IH (S i) _ fuel) by lia.
      assert (Esep : sep_after (S i) = (if o_join o && nonempty (skipn (S i) its) then [o_eol o] else [])).
      { unfold sep_after. f_equal. f_equal.
        destruct (Z.eqb_spec (Z.of_nat (S i)) (Z.of_nat n)) as [E|E].
        - assert (S i = n) by lia. rewrite H0, skipn_all. reflexivity.
        - destruct (skipn (S i) its) eqn:E2; [|reflexivity]. exfalso.
          apply (f_equal (@length _)) in E2. rewrite skipn_length in E2. cbn in E2. lia. }
      rewrite Esep. destruct (fwd_tail o (skipn (S i) its)); [rewrite <- !app_assoc; reflexivity | reflexivity].
  Qed.
End Tail.

Lemma usize_add_1 (i : nat) : Z.of_nat i + 1 <= usize_max -> usize_add (Z.of_nat i) 1 = Ret (Z.of_nat (S i)).
Proof. apply usize_add_nat. Qed.

(** the final while loop and the final EOL *)
Lemma s6_spec (o : opt) (sin out lb : bytes) (li : Z) (i : nat) (an : bool) :
  (i <= length (items (o_bounds o)))%nat -> Z.of_nat (length (items (o_bounds o))) + 1 <= usize_max ->
  match fwd_tail o (skipn i (items (o_bounds o))) with
  | Some r => gen_lines_forward_s6 sin out o lb li (Z.of_nat i) an = Ret (Some tt, out ++ r ++ [o_eol o])
  | None => exists p, gen_lines_forward_s6 sin out o lb li (Z.of_nat i) an = Ret (None, p)
  end.
Proof.
  intros Hi Hn. cbv beta delta [gen_lines_forward_s6 gen_lines_forward_s7 gen_lines_forward_s8] iota zeta.
  match goal with |- context [whileM ?f ?c ?b _] =>
    pose proof (tail_loop o sin lb li an c b) as L end.
  rewrite (L ltac:(intros; reflexivity)) with (k := (length (items (o_bounds o)) - i)%nat); try lia.
  - destruct (fwd_tail o (skipn i (items (o_bounds o)))) as [r|]; cbn [bind]; [rewrite <- app_assoc; reflexivity | eexists; reflexivity].
  - intros out' j x En. rewrite Nat2Z.id, En. cbn [opt_unwrap bind].
    assert (Hj : (j < length (items (o_bounds o)))%nat) by (apply nth_error_Some; rewrite En; discriminate).
    unfold sep_after, item_out.
    destruct x as [b|f].
    + unfold fallback_for. destruct (bfb b) as [fb|].
      * rewrite (usize_add_1 j) by lia. cbn [bind].
        destruct (o_join o && negb (Z.of_nat (S j) =? Z.of_nat (length (items (o_bounds o)))))%bool; rewrite <- ?app_assoc, ?app_nil_r; reflexivity.
      * destruct (o_fallback o) as [fb|]; [|reflexivity].
        rewrite (usize_add_1 j) by lia. cbn [bind].
        destruct (o_join o && negb (Z.of_nat (S j) =? Z.of_nat (length (items (o_bounds o)))))%bool; rewrite <- ?app_assoc, ?app_nil_r; reflexivity.
    + rewrite (usize_add_1 j) by lia. cbn [bind].
      destruct (o_join o && negb (Z.of_nat (S j) =? Z.of_nat (length (items (o_bounds o)))))%bool; rewrite <- ?app_assoc, ?app_nil_r; reflexivity.
Qed.

(** what follows the main loop: the pending bound that has printed lines, then the rest *)
Theorem tie_lines_forward_finish (o : opt) (sin out lb : bytes) (li : Z) (i : nat) (an : bool) :
  (i <= length (items (o_bounds o)))%nat -> Z.of_nat (length (items (o_bounds o))) + 1 <= usize_max ->
  (an = true -> exists b, nth_error (items (o_bounds o)) i = Some (Bound b)) ->
  match fwd_finish o (skipn i (items (o_bounds o))) an with
  | Some r => gen_lines_forward_s5 sin out o lb li (Z.of_nat i) an = Ret (Some tt, out ++ r ++ [o_eol o])
  | None => exists p, gen_lines_forward_s5 sin out o lb li (Z.of_nat i) an = Ret (None, p)
  end.
Proof.
  intros Hi Hn Han. cbv beta delta [gen_lines_forward_s5] iota zeta. rewrite Nat2Z.id.
  destruct an.
  - destruct (Han eq_refl) as [b Eb]. rewrite Eb.
    assert (Hlt : (i < length (items (o_bounds o)))%nat) by (apply nth_error_Some; rewrite Eb; discriminate).
    assert (Es : skipn i (items (o_bounds o)) = Bound b :: skipn (S i) (items (o_bounds o))).
    { rewrite nth_skipn in Eb. rewrite skipn_S_tl. destruct (skipn i (items (o_bounds o))); [discriminate|]. cbn in Eb. injection Eb as ->. reflexivity. }
    rewrite Es. cbn [fwd_finish].
    destruct (br b) as [r|] eqn:Er; cbn [side_eqb negb].
    + eexists. reflexivity.
    + rewrite (usize_add_1 i) by lia. cbn [bind].
      pose proof (s6_spec o sin (out ++ (if o_join o && negb (Z.of_nat (S i) =? Z.of_nat (length (items (o_bounds o)))) then [o_eol o] else [])) lb li (S i) true ltac:(lia) Hn) as H6.
      assert (Esep : (if o_join o && negb (Z.of_nat (S i) =? Z.of_nat (length (items (o_bounds o)))) then [o_eol o] else [])
                     = (if o_join o && nonempty (skipn (S i) (items (o_bounds o))) then [o_eol o] else [])).
      { f_equal. f_equal. destruct (Z.eqb_spec (Z.of_nat (S i)) (Z.of_nat (length (items (o_bounds o))))) as [E|E].
        - assert (E' : S i = length (items (o_bounds o))) by lia. rewrite E', skipn_all. reflexivity.
        - destruct (skipn (S i) (items (o_bounds o))) eqn:E2; [|reflexivity]. exfalso.
          apply (f_equal (@length _)) in E2. rewrite skipn_length in E2. cbn in E2. lia. }
      rewrite <- Esep.
      destruct (fwd_tail o (skipn (S i) (items (o_bounds o)))) as [r|].
      * destruct (o_join o && negb (Z.of_nat (S i) =? Z.of_nat (length (items (o_bounds o)))))%bool;
          cbn [app] in *; rewrite ?app_nil_r in H6; rewrite H6, <- ?app_assoc; reflexivity.
      * destruct H6 as [p H6]. exists p.
        destruct (o_join o && negb (Z.of_nat (S i) =? Z.of_nat (length (items (o_bounds o)))))%bool; rewrite ?app_nil_r in H6; exact H6.
  - assert (Ef : fwd_finish o (skipn i (items (o_bounds o))) false = fwd_tail o (skipn i (items (o_bounds o))))
      by (unfold fwd_finish; destruct (skipn i (items (o_bounds o))) as [|[b|f] r]; reflexivity).
    rewrite Ef. exact (s6_spec o sin out lb li i false Hi Hn).
Qed.

Definition tie_lines_forward := tie_lines_forward_finish.
Print Assumptions tie_lines_forward_finish.
