(** [UserBoundsList::get_userbounds_only], translated from the current source, yields the model's
    [bounds_only]: the bounds of the list in order, the literal text left out. *)
From Coq Require Import ZArith Bool List Lia.
From TucModel Require Import Base.Bytes Model.Bounds Tie.RsPrelude Tie.TieBase Tie.Gen_ubl_bounds_only.
Import ListNotations.
Local Open Scope Z_scope.

Lemma flat_mapM_spec {A B : Type} (F : A -> rs (option B)) (G : A -> list B) :
  (forall x, exists c, F x = Ret c /\ to_list c = G x) ->
  forall l, flat_mapM F l = Ret (flat_map G l).
Proof.
  intros H l. induction l as [|x l IH]; [reflexivity|].
  cbn [flat_mapM flat_map]. destruct (H x) as (c & E & T). rewrite E. cbn [bind]. rewrite IH. cbn [bind]. rewrite T. reflexivity.
Qed.

Lemma tie_ubl_bounds_only : forall u : ublist, gen_ubl_bounds_only u = Ret (bounds_only (items u)).
Proof.
  intros u. cbv beta delta [gen_ubl_bounds_only] iota zeta. unfold to_list at 1, iter_list. unfold bounds_only.
  match goal with |- context [flat_mapM ?F _] => rewrite (flat_mapM_spec F (fun x => match x with Bound b => [b] | Filler _ => [] end)) end;
    [reflexivity|].
  intros [b|f]; eexists; (split; [reflexivity|]); reflexivity.
Qed.
