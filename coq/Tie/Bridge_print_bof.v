(** src/stream.rs : print_bof (the step of the -M path that is taken at every delimiter, EOL and chunk end),
    as translated: with the pending items being those from index [i] on, it writes what the model's
    [print_bof] writes and moves the index past exactly the items the model consumes.  The bound that is
    pending must be comparable with the current field (no sign mismatch: the bounds of the -M path are
    positive, [tie_forward_only_spec]); the piece of the chunk must lie inside it. *)
From Coq Require Import ZArith Bool List Lia.
From TucModel Require Import Base.Bytes Model.Bounds Model.Scan Model.Regex Model.Opt Model.Stream
  Tie.RsPrelude Tie.TieBase Tie.RsOpt Tie.RsStr Tie.RsList
  Tie.Gen_ub_matches Tie.Bridge_ub_matches Tie.Gen_print_field Tie.Bridge_print_field Tie.Gen_print_bof.
Import ListNotations.
Local Open Scope Z_scope.

Definition so_of (g : gsopt) : sopt :=
  mkSO (gs_delim g) (gs_repl g) (gs_join g) (gs_eol g) (gs_fallback g) (items (gs_bounds g)) SCont.

Lemma nth_skipn {A} : forall (l : list A) i, nth_error l i = hd_error (skipn i l).
Proof. induction l as [|x l IH]; intros [|i]; cbn; try reflexivity. apply IH. Qed.

Lemma skipn_S_tl {A} : forall (l : list A) i, skipn (S i) l = tl (skipn i l).
Proof. intros l i. revert l. induction i as [|i IH]; intros [|x l]; try reflexivity. exact (IH l). Qed.

(** the bound that is waiting to be printed, if any *)
Definition pending (its : list bof) : option ubound :=
  match its with
  | Filler _ :: Bound b :: _ => Some b
  | Bound b :: _ => Some b
  | _ => None
  end.

Lemma str_between_nat (s : bytes) (a b : nat) :
  (a <= b)%nat -> (b <= length s)%nat -> str_between s (Z.of_nat a) (Z.of_nat b) = Ret (slice s a b).
Proof.
  intros H1 H2. unfold str_between, slice.
  destruct (Z.leb_spec 0 (Z.of_nat a)); [|lia]. destruct (Z.leb_spec (Z.of_nat a) (Z.of_nat b)); [|lia].
  destruct (Z.leb_spec (Z.of_nat b) (Z.of_nat (length s))); [|lia]. cbn [andb].
  replace (Z.to_nat (Z.of_nat b - Z.of_nat a)) with (b - a)%nat by lia. rewrite Nat2Z.id. reflexivity.
Qed.

Lemma usize_add_nat (i : nat) : Z.of_nat i + 1 <= usize_max -> usize_add (Z.of_nat i) 1 = Ret (Z.of_nat (S i)).
Proof.
  intros H. unfold usize_add, usize_chk, in_usize.
  destruct (Z.leb_spec 0 (Z.of_nat i + 1)); [|lia]. destruct (Z.leb_spec (Z.of_nat i + 1) usize_max); [|lia].
  cbn [andb]. f_equal. lia.
Qed.

(** the part after the optional filler: the pending bound *)
Definition bound_code (g : gsopt) (out0 : bytes) (j : nat) (curr : Z) (chunk : bytes) (a b : nat) (trunc complete : bool)
  (s : option bof) : rs (option Z * bytes) :=
  match s with
  | Some (Bound bd) =>
      bind (gen_ub_matches bd curr) (fun t => bind (opt_unwrap t) (fun c : bool =>
        if c then
          bind (str_between chunk (Z.of_nat a) (Z.of_nat b)) (fun piece =>
            bind (gen_print_field piece (match gs_repl g with Some v => v | None => gs_delim g end)
                    (negb trunc && (1 <? curr) && negb (side_eqb (bl bd) (SSome curr)))) (fun '(r, w) =>
              match r with
              | Some _ =>
                  if complete && side_eqb (br bd) (SSome curr)
                  then bind (usize_add (Z.of_nat j) 1) (fun v =>
                         if gs_join g && negb (blast bd)
                         then Ret (Some v, (out0 ++ w) ++ [match gs_repl g with Some v => v | None => gs_delim g end])
                         else Ret (Some v, out0 ++ w))
                  else Ret (Some (Z.of_nat j), out0 ++ w)
              | None => Ret (None, out0 ++ w)
              end))
        else Ret (Some (Z.of_nat j), out0)))
  | _ => Ret (Some (Z.of_nat j), out0)
  end.

Definition bound_model (g : gsopt) (its1 : list bof) (curr : Z) (piece : bytes) (trunc complete : bool) : bytes * list bof :=
  match its1 with
  | Bound bd :: r =>
      match matches bd curr with
      | Some true =>
          let pre := if negb trunc && (1 <? curr) && negb (side_eqb (bl bd) (SSome curr)) then [sdelim (so_of g)] else [] in
          if complete && side_eqb (br bd) (SSome curr)
          then (pre ++ piece ++ (if s_join (so_of g) && negb (blast bd) then [sdelim (so_of g)] else []), r)
          else (pre ++ piece, its1)
      | _ => ([], its1)
      end
  | _ => ([], its1)
  end.

Lemma bound_part (g : gsopt) (out0 : bytes) (j : nat) (curr : Z) (chunk : bytes) (a b : nat) (trunc complete : bool) :
  Z.of_nat j + 1 <= usize_max -> (a <= b)%nat -> (b <= length chunk)%nat ->
  let its1 := skipn j (items (gs_bounds g)) in
  (forall bd, hd_error its1 = Some (Bound bd) -> matches bd curr <> None) ->
  bound_code g out0 j curr chunk a b trunc complete (nth_error (items (gs_bounds g)) j)
  = let '(o2, its') := bound_model g its1 curr (slice chunk a b) trunc complete in
    Ret (Some (Z.of_nat (j + (length its1 - length its'))), out0 ++ o2).
Proof.
  intros Hj Hab Hb its1 Hm. unfold bound_code, bound_model. rewrite nth_skipn. fold its1.
  destruct its1 as [|x r] eqn:E; cbn [hd_error].
  - rewrite Nat.sub_diag, Nat.add_0_r, app_nil_r. reflexivity.
  - destruct x as [bd|f].
    2:{ rewrite Nat.sub_diag, Nat.add_0_r, app_nil_r. reflexivity. }
    rewrite tie_ub_matches. cbn [bind]. specialize (Hm bd eq_refl).
    destruct (matches bd curr) as [[|]|]; [| |contradiction]; cbn [opt_unwrap bind].
    2:{ rewrite Nat.sub_diag, Nat.add_0_r, app_nil_r. reflexivity. }
    rewrite (str_between_nat chunk a b Hab Hb). cbn [bind]. rewrite tie_print_field. cbn [bind].
    unfold sdelim, so_of. cbn [s_repl s_delim s_join].
    destruct (complete && side_eqb (br bd) (SSome curr))%bool.
    + rewrite (usize_add_nat j Hj). cbn [bind length].
      replace (j + (S (length r) - length r))%nat with (S j) by lia.
      destruct (gs_join g && negb (blast bd))%bool; rewrite <- ?app_assoc; [reflexivity | rewrite app_nil_r; reflexivity].
    + rewrite Nat.sub_diag, Nat.add_0_r. reflexivity.
Qed.

Lemma print_bof_split (g : gsopt) (its : list bof) curr piece trunc complete :
  print_bof (so_of g) its curr piece trunc complete
  = match its with
    | Filler f :: r => let '(o2, its') := bound_model g r curr piece trunc complete in (f ++ o2, its')
    | _ => let '(o2, its') := bound_model g its curr piece trunc complete in (o2, its')
    end.
Proof.
  unfold print_bof, bound_model. destruct its as [|[bd|f] r].
  - reflexivity.
  - destruct (matches bd curr) as [[|]|]; try reflexivity. destruct (complete && side_eqb (br bd) (SSome curr))%bool; reflexivity.
  - destruct r as [|[bd|f'] r']; try (rewrite app_nil_r; reflexivity).
    destruct (matches bd curr) as [[|]|]; try (rewrite app_nil_r; reflexivity).
    destruct (complete && side_eqb (br bd) (SSome curr))%bool; reflexivity.
Qed.

Lemma side_eqb_sym (a b : side) : side_eqb a b = side_eqb b a.
Proof. destruct a as [x|], b as [y|]; cbn [side_eqb]; try reflexivity. apply Z.eqb_sym. Qed.

(** The proof below does not follow the shape of the function: it fixes what the two look-ups find, then
    decides every comparison and compares the bytes written and the index returned. *)
Ltac pb_crunch g bd curr trunc complete :=
  rewrite ?tie_ub_matches; cbn [bind opt_unwrap];
  repeat match goal with
         | |- context [side_eqb (SSome curr) ?x] => rewrite (side_eqb_sym (SSome curr) x)
         end;
  destruct trunc, complete, (1 <? curr), (side_eqb (bl bd) (SSome curr)), (side_eqb (br bd) (SSome curr)),
           (gs_join g), (blast bd), (gs_repl g);
  cbn [bind opt_unwrap andb negb app length];
  rewrite ?app_nil_r, <- ?app_assoc; cbn [app];
  first [reflexivity | (repeat f_equal; lia)].

Theorem tie_print_bof : forall (g : gsopt) (i : nat) (curr : Z) (chunk : bytes) (a b : nat) (trunc complete : bool),
  Z.of_nat i + 2 <= usize_max -> (a <= b)%nat -> (b <= length chunk)%nat ->
  let its := skipn i (items (gs_bounds g)) in
  (forall bd, pending its = Some bd -> matches bd curr <> None) ->
  gen_print_bof g (Z.of_nat i) curr chunk (Z.of_nat a) (Z.of_nat b) trunc complete
  = let '(out, its') := print_bof (so_of g) its curr (slice chunk a b) trunc complete in
    Ret (Some (Z.of_nat (i + (length its - length its'))), out).
Proof.
  intros g i curr chunk a b trunc complete Hi Hab Hb its Hm.
  assert (E0 : nth_error (items (gs_bounds g)) i = hd_error its) by apply nth_skipn.
  assert (E1 : nth_error (items (gs_bounds g)) (S i) = hd_error (tl its)).
  { rewrite nth_skipn, skipn_S_tl. reflexivity. }
  cbv beta delta [gen_print_bof] iota zeta. rewrite !Nat2Z.id.
  rewrite ?(usize_add_nat i) by lia. cbn [bind]. rewrite ?Nat2Z.id.
  rewrite ?(str_between_nat chunk a b Hab Hb). 
  unfold print_bof, sdelim, so_of. cbn [s_repl s_delim s_join].
  destruct its as [|x its1] eqn:E; cbn [hd_error tl] in E0, E1.
  - rewrite ?E0, ?E1. cbn [length app]; rewrite ?app_nil_r; first [reflexivity | (repeat f_equal; lia)].
  - destruct x as [bd|f].
    + rewrite ?E0. cbv iota beta. specialize (Hm bd eq_refl).
      rewrite ?tie_ub_matches. cbn [bind].
      destruct (matches bd curr) as [[|]|] eqn:Em; [| |contradiction]; cbn [opt_unwrap bind negb]; cbv iota.
      * rewrite ?(str_between_nat chunk a b Hab Hb). cbn [bind]. rewrite ?tie_print_field. cbn [bind].
        rewrite ?(usize_add_nat i) by lia. cbn [bind].
        pb_crunch g bd curr trunc complete.
      * cbn [length app]; rewrite ?app_nil_r; first [reflexivity | (repeat f_equal; lia)].
    + rewrite ?E0. cbv iota beta. rewrite ?(usize_add_nat i) by lia. cbn [bind]. rewrite ?Nat2Z.id, ?E1.
      destruct its1 as [|[bd|f'] r]; cbn [hd_error]; cbv iota beta.
      * cbn [length app]; rewrite ?app_nil_r; first [reflexivity | (repeat f_equal; lia)].
      * specialize (Hm bd eq_refl). rewrite ?tie_ub_matches. cbn [bind].
        destruct (matches bd curr) as [[|]|] eqn:Em; [| |contradiction]; cbn [opt_unwrap bind negb]; cbv iota.
        -- rewrite ?(str_between_nat chunk a b Hab Hb). cbn [bind]. rewrite ?tie_print_field. cbn [bind].
           rewrite ?(usize_add_nat (S i)) by lia. cbn [bind].
           pb_crunch g bd curr trunc complete.
        -- cbn [length app]; rewrite ?app_nil_r; first [reflexivity | (repeat f_equal; lia)].
      * cbn [length app]; rewrite ?app_nil_r; first [reflexivity | (repeat f_equal; lia)].
Qed.
