(** [TryFrom<&Opt> for FastOpt], translated from the current source: accepted exactly when the model's
    [fast_eligible] says so (one-byte delimiter, none of -m -g -p --json -r -e, field mode), never
    panicking, and the options are carried over unchanged. *)
From Coq Require Import ZArith Bool List Lia.
From TucModel Require Import Base.Bytes Model.Bounds Model.Scan Model.Regex Model.Opt Model.FastLane
  Tie.RsPrelude Tie.TieBase Tie.RsOpt Tie.Gen_fast_try_from.
Import ListNotations.
Local Open Scope Z_scope.

Definition fast_image (o : opt) : option gfopt :=
  if fast_eligible o then
    match o_delim o with
    | d :: _ => Some (mkGFO d (o_join o) (o_eol o) (o_bounds o) (o_only_delimited o) (o_trim o) (o_fallback o))
    | [] => None
    end
  else None.

Lemma tie_fast_try_from : forall o : opt, gen_fast_try_from o = Ret (fast_image o).
Proof.
  intros o. cbv beta delta [gen_fast_try_from] iota zeta. unfold fast_image, fast_eligible.
  destruct (o_delim o) as [|d [|d2 ds]]; cbn [length hd_error Nat.eqb andb];
    try (change (Z.of_nat 0 =? 1) with false); try (change (Z.of_nat 1 =? 1) with true);
    cbn [negb]; try reflexivity.
  - destruct (o_complement o), (o_greedy o), (o_compress o), (o_json o), (btype_eqb (o_btype o) BFields),
      (o_replace o), (o_regex o); reflexivity.
  - destruct (Z.eqb_spec (Z.of_nat (S (S (length ds)))) 1) as [E|E]; [lia|]. reflexivity.
Qed.
