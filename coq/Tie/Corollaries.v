(** What the property theorems say about the code as translated from the current source
    (the [gen_*] definitions of [Tie/Gen_*.v]), obtained from the theorems over the hand-written
    model through the bridge lemmas.  These are re-proved on every run against what the source
    says now. *)
From Coq Require Import ZArith Bool List Lia.
From TucModel Require Import Base.Bytes Base.ListX Model.Bounds Spec.Resolve Proofs.BoundsFacts Proofs.C09 Proofs.C15
  Tie.RsPrelude Tie.TieBase
  Tie.Gen_side_partial_cmp Tie.Bridge_side_partial_cmp
  Tie.Gen_ub_partial_cmp Tie.Bridge_ub_partial_cmp
  Tie.Gen_ub_matches Tie.Bridge_ub_matches
  Tie.Gen_ub_try_into_range Tie.Bridge_ub_try_into_range
  Tie.Gen_complement_std_range Tie.Bridge_complement_std_range
  Tie.Gen_ub_new Tie.Bridge_ub_new Tie.Gen_ub_from_range Tie.Bridge_ub_from_range
  Tie.Gen_ub_unpack Tie.Bridge_ub_unpack Tie.Gen_ub_complement Tie.Bridge_ub_complement
  Tie.Gen_ubl_bounds_only Tie.Bridge_ubl_bounds_only Tie.Gen_ubl_is_sortable Tie.Bridge_ubl_is_sortable
  Tie.Gen_ubl_is_sorted Tie.Bridge_ubl_is_sorted Tie.Gen_ubl_has_negative_indices Tie.Bridge_ubl_has_negative_indices
  Tie.Gen_ubl_is_forward_only Tie.Bridge_ubl_is_forward_only
  Model.Scan Model.Regex Model.Opt Model.Stream Model.FastLane Tie.RsOpt
  Tie.Gen_fast_try_from Tie.Bridge_fast_try_from Tie.Gen_stream_try_from Tie.Bridge_stream_try_from
  Model.BoundsParse Spec.BoundsGrammar Tie.RsStr Tie.Gen_side_from_str Tie.Bridge_side_from_str Tie.Gen_ub_from_str Tie.Bridge_ub_from_str
  Tie.RsList Tie.Gen_ubl_unpack Tie.Bridge_ubl_unpack Tie.Gen_ubl_complement Tie.Bridge_ubl_complement
  Model.CutBytes Spec.BytesMode Tie.Gen_cut_bytes Tie.Bridge_cut_bytes
  Spec.Fields Proofs.ScanSplit Tie.RsScan Tie.Gen_fill_fields Tie.Bridge_fill_fields Tie.Gen_compress_delimiter Tie.Bridge_compress_delimiter
  Proofs.C01More Tie.Gen_trim Tie.Bridge_trim
  Tie.Gen_fb_try_from Tie.Bridge_fb_try_from Tie.Gen_print_field Tie.Bridge_print_field Tie.Gen_print_bof Tie.Bridge_print_bof Model.CutBytes Tie.Gen_print_rest Tie.Bridge_print_rest Tie.Gen_cut_lines Tie.Bridge_cut_lines Tie.Gen_read_and_cut_bytes Tie.Bridge_read_and_cut_bytes Tie.Gen_get_last_bound Tie.Bridge_get_last_bound Tie.Gen_lines_forward Tie.Bridge_lines_forward
  Proofs.C06 Proofs.PlainMulti Tie.RsCut Tie.Gen_cut_str Tie.Bridge_cut_str
  Model.Utf8 Model.CutLines Proofs.C05 Proofs.C03Full Proofs.C05Full Tie.RsLines Tie.Gen_read_and_cut_lines Tie.Bridge_read_and_cut_lines
  Proofs.C12 Proofs.C16 Tie.Gen_fill_regex Tie.Bridge_fill_regex Tie.Gen_trim_regex Tie.Bridge_trim_regex Tie.Gen_compress_regex Tie.Bridge_compress_regex
  Proofs.Plain Proofs.C16Replace Tie.RsRegex Tie.Gen_maybe_replace Tie.Bridge_maybe_replace
  Model.CutStr Tie.Gen_fast_output_parts Tie.Bridge_fast_output_parts Tie.Gen_fast_cut_record Tie.Bridge_fast_cut_record Proofs.C02
  Proofs.C13 Proofs.C06 Proofs.C03Full Proofs.C19 Proofs.C18Iff.
Import ListNotations.
Local Open Scope Z_scope.

Lemma nz_left b : bound_nz b -> bl b <> SSome 0.
Proof. intros [H _] E. rewrite E in H. apply H. reflexivity. Qed.

(** C13 / C06 / C09 (the arithmetic they all rest on): on fewer than 2^31 parts the translated
    [try_into_range] never panics, fails exactly on the bounds that do not resolve (an index
    beyond the parts in either direction, or an empty interval), and otherwise returns the 0-based
    half-open interval from the first to the last selected position - -1 the last part, -n the first. *)
Theorem tie_try_into_range_spec : forall (b : ubound) (n : nat),
  Z.of_nat n <= i32_max -> bound_nz b ->
  (gen_ub_try_into_range b (Z.of_nat n) = Ret None /\ ~ resolves b n)
  \/ (exists s e, gen_ub_try_into_range b (Z.of_nat n) = Ret (Some (s, e))
                  /\ resolves b n
                  /\ s = first_pos b (Z.of_nat n) - 1 /\ e = last_pos b (Z.of_nat n)
                  /\ 0 <= s < e /\ e <= Z.of_nat n).
Proof.
  intros b n Hn Hnz. rewrite (tie_ub_try_into_range b n Hn (nz_left b Hnz)).
  destruct (try_into_range b n) as [[s e]|] eqn:E.
  - right. exists (Z.of_nat s), (Z.of_nat e). cbn [range_Z]. split; [reflexivity|].
    destruct (try_into_range_some b n s e Hnz E) as (Hres & Hs & He & Hlt). split; [exact Hres|]. repeat split; lia.
  - left. split; [reflexivity | exact (try_into_range_none b n E)].
Qed.

(** C09: rewriting any in-range negative side -k as n+1-k does not change what the translated
    [try_into_range] returns. *)
Theorem tie_C09_range_unchanged : forall (n : nat) (b b' : ubound),
  Z.of_nat n <= i32_max -> bound_nz b -> bound_nz b' ->
  bound_rewrites (Z.of_nat n) b b' ->
  gen_ub_try_into_range b' (Z.of_nat n) = gen_ub_try_into_range b (Z.of_nat n).
Proof.
  intros n b b' Hn Hb Hb' Hrw.
  rewrite (tie_ub_try_into_range b n Hn (nz_left b Hb)), (tie_ub_try_into_range b' n Hn (nz_left b' Hb')).
  f_equal. f_equal. exact (C09_try_into_range n b b' Hrw).
Qed.

(** C15: the translated [complement_std_range] returns, for a resolved range s < e <= n, the parts
    before it followed by the parts after it, leaving out the empty ones. *)
Theorem tie_C15_complement : forall n s e : nat, (s < e <= n)%nat ->
  gen_complement_std_range (Z.of_nat n) (Z.of_nat s, Z.of_nat e) = Ret (pairs_Z (complement_spec n s e)).
Proof.
  intros n s e H. rewrite tie_complement_std_range. f_equal. f_equal. exact (complement_std_range_spec n s e H).
Qed.

(** C03 / C05 (the streaming readers' membership test): the translated [matches] is total (no
    panic for any index), refuses exactly the sign mismatches, and otherwise tests l <= idx <= r
    with an open side standing for no constraint. *)
Theorem tie_matches_spec : forall (b : ubound) (idx : Z),
  gen_ub_matches b idx = Ret (matches b idx).
Proof. exact tie_ub_matches. Qed.

(** C02 / C05 / C19 (ordering used by the early stop, the forward-only test and -M eligibility):
    the translated comparisons never panic and decide the model's [side_gt], [side_le], [bound_le]. *)
Theorem tie_orderings : forall (a b : side) (x y : ubound),
  (exists c, gen_side_partial_cmp a b = Ret c /\ side_gt a b = ord_gt c /\ side_le a b = ord_le c)
  /\ (exists c, gen_ub_partial_cmp x y = Ret c /\ bound_le x y = ord_le c).
Proof. intros. split; [apply tie_side_partial_cmp | apply tie_ub_partial_cmp]. Qed.

(** C08 / C07 / C13: the translated [unpack] turns a bound that resolves to the parts s+1..e into
    exactly e-s single-part bounds, for the parts s+1, s+2, .., e in order (one JSON element, one
    character each), and keeps a bound that does not resolve as it is - fallback included, so that
    whoever prints it applies the fallback or fails. *)
Theorem tie_unpack_spec : forall (b : ubound) (n : nat),
  Z.of_nat n <= i32_max -> bound_nz b ->
  match try_into_range b n with
  | Some (s, e) => gen_ub_unpack b (Z.of_nat n) = Ret (map (fun k => single (Z.of_nat s + 1 + Z.of_nat k)) (seq 0 (e - s)))
  | None => gen_ub_unpack b (Z.of_nat n) = Ret [b]
  end.
Proof.
  intros b n Hn Hnz. rewrite (tie_ub_unpack b n Hn (nz_left b Hnz)). unfold unpack_bound.
  destruct (try_into_range b n) as [[s e]|]; [|reflexivity]. f_equal.
  generalize (e - s)%nat as c. intros c. revert s. induction c as [|c IH]; intros s; [reflexivity|].
  cbn [singles_from seq map]. f_equal; [f_equal; lia|].
  rewrite <- seq_shift, map_map, IH. apply map_ext. intros k. f_equal. lia.
Qed.

(** C15: the translated [complement] of a bound that resolves to [s, e) on n parts is the bounds for
    the non-empty ones among [0, s) and [e, n), in that order, none of them carrying a fallback; a
    bound that does not resolve has no complement (the caller keeps it: C13). *)
Theorem tie_C15_complement_of_a_bound : forall (b : ubound) (n : nat),
  Z.of_nat n <= i32_max -> bound_nz b ->
  match try_into_range b n with
  | Some (s, e) => gen_ub_complement b (Z.of_nat n)
                   = Ret (Some (map (fun r => of_range (fst r) (snd r)) (complement_spec n s e)))
  | None => gen_ub_complement b (Z.of_nat n) = Ret None
  end.
Proof.
  intros b n Hn Hnz. rewrite (tie_ub_complement b n Hn (nz_left b Hnz)). unfold complement_bound.
  destruct (try_into_range b n) as [[s e]|] eqn:E; [|reflexivity].
  destruct (try_into_range_some b n s e Hnz E) as (_ & _ & _ & Hlt).
  rewrite (complement_std_range_spec n s e Hlt). reflexivity.
Qed.

(** C03 / C05 / C19 (what decides between the one-line-at-a-time reader and whole-input buffering, and
    whether -M accepts a request): the translated [is_forward_only] never panics, and when it says yes
    every index of every bound is positive (or the side is open). *)
Theorem tie_forward_only_spec : forall u : ublist,
  (exists b, gen_ubl_is_forward_only u = Ret b)
  /\ (gen_ubl_is_forward_only u = Ret true -> Forall item_nz (items u) ->
      Forall (fun b => pos_side (bl b) /\ pos_side (br b)) (bounds_only (items u))).
Proof.
  intros u. rewrite tie_ubl_is_forward_only. split; [eexists; reflexivity|].
  intros H Hnz. apply forward_positive; [congruence | exact Hnz].
Qed.

(** C02 (the early stop is offered only when the list is sortable): the translated [is_sortable]
    never panics and says yes exactly when the bounds do not mix positive and non-positive indexes. *)
Theorem tie_sortable_spec : forall u : ublist, gen_ubl_is_sortable u = Ret (is_sortable (items u)).
Proof. exact tie_ubl_is_sortable. Qed.

(** C19 / C03: the translated [StreamOpt::try_from] accepts an option set exactly under the documented
    conditions for -M (and never panics); C02 / C19: the translated [FastOpt::try_from] accepts exactly
    the option sets of the fast path's domain. *)
Theorem tie_C19_fixed_memory_eligibility : forall o : opt,
  (exists g, gen_stream_try_from o = Ret (Some g)) <->
  (exists d, o_delim o = [d])
  /\ o_complement o = false /\ o_greedy o = false /\ o_compress o = false /\ o_json o = false
  /\ o_btype o = BFields
  /\ (o_replace o = None \/ exists r, o_replace o = Some [r])
  /\ o_trim o = None /\ o_regex o = None /\ o_only_delimited o = false
  /\ forward_bounds_ok (items (o_bounds o)) = true.
Proof.
  intros o. rewrite tie_stream_try_from. rewrite <- (C19_stream_eligibility o). unfold stream_image.
  destruct (stream_opt o) as [so|]; split.
  - intros _. eexists; reflexivity.
  - intros _. eexists; reflexivity.
  - intros [g H]. discriminate.
  - intros [so H]. discriminate.
Qed.

Theorem tie_C02_fast_path_domain : forall o : opt,
  (exists g, gen_fast_try_from o = Ret (Some g)) <-> fast_eligible o = true.
Proof.
  intros o. rewrite tie_fast_try_from. unfold fast_image. split.
  - intros [g H]. destruct (fast_eligible o); [reflexivity | discriminate].
  - intros H. rewrite H. unfold fast_eligible in H.
    destruct (o_delim o) as [|d l]; [discriminate|]. eexists; reflexivity.
Qed.

(** C18 / C12: the translated [UserBounds::from_str] accepts a text exactly when it is a bound of the
    documented language ([bound_text], Spec/BoundsGrammar.v, written from the documentation) and builds
    the bound the grammar assigns; it never panics, whatever the text. *)
Theorem tie_C18_bound_accepted_iff : forall (s : bytes) (b : ubound),
  Z.of_nat (length s) < usize_max ->
  (gen_ub_from_str s = Ret (Some b) <-> bound_text s b)
  /\ (exists r, gen_ub_from_str s = Ret r).
Proof.
  intros s b H. rewrite (tie_ub_from_str s H). split; [|eexists; reflexivity].
  rewrite <- (parse_bound_iff s b). split; [intros E; injection E as E; exact E | intros ->; reflexivity].
Qed.

(** C15 / C13, list level: the translated [UserBoundsList::complement] never panics; it refuses exactly
    when no bound is left after every bound has been replaced by what it leaves out (an unresolvable
    bound stays, so it is not "nothing"); otherwise the list it builds is the model's. *)
Theorem tie_C15_list_complement : forall (u : ublist) (n : nat),
  Z.of_nat n <= i32_max -> Forall item_left_nz (items u) ->
  gen_ubl_complement u (Z.of_nat n) = Ret (complement_list (items u) n)
  /\ (complement_list (items u) n = None <-> bounds_only (complement_items (items u) n) = []).
Proof.
  intros u n Hn Hnz. split; [exact (tie_ubl_complement u n Hn Hnz)|].
  unfold complement_list. destruct (bounds_only (complement_items (items u) n)) as [|b bs] eqn:E.
  - split; reflexivity.
  - unfold from_vec. rewrite E. split; discriminate.
Qed.

(** C06, the whole of [cut_bytes] as translated: on a non-empty input of fewer than 2^31 bytes and a
    bounds list that resolves on it, the code succeeds, never panics, and what it has written to stdout
    is exactly the bytes at the selected positions, bound by bound in request order, with the format text
    in between - the specification [spec_bytes] written from the statement. *)
Theorem tie_C06_byte_mode_exact : forall (data : bytes) (o : opt),
  data <> [] -> Z.of_nat (length data) <= i32_max ->
  Forall item_nz (items (o_bounds o)) ->
  Forall (item_resolves (length data)) (items (o_bounds o)) ->
  gen_cut_bytes data o = Ret (Some tt, spec_bytes (items (o_bounds o)) data).
Proof.
  intros data o Hne Hn Hnz Hres.
  assert (Hl : Forall item_left_nz (items (o_bounds o))).
  { eapply Forall_impl; [|exact Hnz]. intros [b|f] H; cbn in *; [apply nz_left; exact H | exact I]. }
  destruct (tie_cut_bytes_model data o Hn Hl Hne) as (r & E & Hr). rewrite E. f_equal.
  pose proof (C06_exact (o_bounds o) (o_fallback o) data Hne Hnz Hres) as H6. unfold cut_bytes in H6.
  destruct data as [|d0 data']; [contradiction|].
  destruct (cut_bytes_items (items (o_bounds o)) (o_fallback o) (d0 :: data')) as [out|]; [|discriminate].
  injection H6 as <-. exact Hr.
Qed.

(** C02 / C10, on the code as translated: for every option set of the fast path's domain whose bounds
    come out of the parser, every record shorter than 2^31 - 3 bytes and WHATEVER the reused vector of
    field starts holds on entry, the translated [cut_str_fast_lane] writes exactly what the model of the
    GENERAL path prints for that record (and fails where it fails); it panics nowhere the general path's
    model does not. *)
Theorem tie_C02_fast_record_is_the_general_path : forall (o : opt) (l : list bof) (d : byte) (record : bytes) (scratch : list Z),
  fast_eligible o = true -> from_vec l = Some (o_bounds o) -> Forall item_nz l ->
  o_delim o = [d] -> Z.of_nat (length record) + 2 <= i32_max ->
  match cut_str o record with
  | Some r => of_rres_partial r (gen_fast_cut_record record (gf_of o d) scratch (lif (o_bounds o)))
  | None => False
  end.
Proof.
  intros o l d record scratch He Hv Hnz Hd Hlen.
  rewrite (C02_record o l record He Hv Hnz).
  apply tie_fast_cut_record; [exact Hd | exact Hlen |].
  (* the bounds of the list are the parsed ones, with the last one marked: their left sides are not 0 *)
  unfold from_vec in Hv. destruct (bounds_only l) eqn:Eb; [discriminate|]. injection Hv as Hv. rewrite <- Hv. cbn [items].
  clear -Hnz. induction l as [|x l IH]; cbn [mark_last]; [constructor|].
  inversion Hnz as [|? ? Hx Hl]; subst. destruct x as [b|f].
  - destruct (bounds_only l); constructor; try (apply IH; exact Hl);
      try (cbn [item_left_nz set_last bl]; apply nz_left; exact Hx).
    eapply Forall_impl; [|exact Hl]. intros [b'|f'] H; cbn in *; [apply nz_left; exact H | exact I].
  - constructor; [exact I | apply IH; exact Hl].
Qed.

(** C01 (the splitting core) and C10 (the reused buffers), on the code as translated: whatever the
    reused vector holds on entry, the translated [fill_with_fields_locations] fills it with byte ranges
    that cut a non-empty record into exactly the fields of the statement - the leftmost non-overlapping
    occurrences of the delimiter as separators, self-overlapping delimiters included; and whatever the
    reused output buffer holds, the translated [compress_delimiter] leaves in it the model's compressed
    copy.  Neither can panic. *)
Theorem tie_C01_fields_locations : forall (scratch : list (Z * Z)) (d line : bytes),
  d <> [] -> line <> [] -> Z.of_nat (length line) + Z.of_nat (length d) <= usize_max ->
  exists table : list mtch,
    gen_fill_fields scratch line d = Ret (tt, map mz table)
    /\ is_split d line (pieces line table).
Proof.
  intros scratch d line Hd Hl Hlen. exists (fields_of_matches (lit_matches d line) line).
  split; [apply tie_fill_fields; exact Hlen | apply fields_locations_are_fields; assumption].
Qed.

Theorem tie_C10_compress_ignores_its_buffer : forall (line d b1 b2 : bytes),
  Z.of_nat (length line) + Z.of_nat (length d) <= usize_max ->
  gen_compress_delimiter line d b1 = gen_compress_delimiter line d b2.
Proof. intros. rewrite !tie_compress_delimiter by assumption. reflexivity. Qed.

(** C01 (-t), on the code as translated: [trim] removes from the chosen end(s) whole copies of the
    delimiter and nothing else, stops as soon as the text no longer starts (ends) with one, terminates
    within its fuel and cannot panic. *)
Theorem tie_C01_trim_left : forall (buffer d : bytes),
  d <> [] -> Z.of_nat (length buffer) + Z.of_nat (length d) <= usize_max ->
  exists (k : nat) (rest : bytes),
    gen_trim buffer TLeft d = Ret rest /\ buffer = copies d k ++ rest /\ strip_prefix d rest = None.
Proof.
  intros buffer d Hd Hlen. destruct (trim_left_spec d buffer Hd) as (k & E1 & E2).
  exists k, (trim_left d buffer). split; [rewrite (tie_trim buffer TLeft d Hlen); reflexivity | split; assumption].
Qed.

Theorem tie_C01_trim_right : forall (buffer d : bytes),
  d <> [] -> Z.of_nat (length buffer) + Z.of_nat (length d) <= usize_max ->
  exists (k : nat) (rest : bytes),
    gen_trim buffer TRight d = Ret rest /\ buffer = rest ++ copies d k /\ (forall x, rest <> x ++ d).
Proof.
  intros buffer d Hd Hlen. destruct (trim_right_spec d buffer Hd) as (k & E1 & E2).
  exists k, (trim_right d buffer). split; [rewrite (tie_trim buffer TRight d Hlen); reflexivity | split; assumption].
Qed.

(** C16 over the translated [maybe_replace_delimiter]: with -e RE -r R a selected text is printed as its
    fields joined by the literal R; after -p (which has rewritten the runs already) it is printed as it is. *)
Theorem tie_C16_selected_text_is_rejoined_with_R : forall (o : opt) (x : rx) (nd text : bytes) (ms : list mtch),
  o_btype o <> BChars -> o_replace o = Some nd -> o_regex o = Some x -> o_compress o = false ->
  rx_normal x text = Some ms ->
  gen_maybe_replace text o = Ret (intercalate nd (pieces text (gaps_from 0 ms (length text)))).
Proof.
  intros o x nd text ms Hb Hr Hx Hc Hm. apply tie_maybe_replace.
  apply (maybe_replace_regex_is_intercalate o x nd text ms); assumption.
Qed.

Theorem tie_C16_after_compress_printed_as_it_is : forall (o : opt) (x : rx) (nd text : bytes),
  o_replace o = Some nd -> o_regex o = Some x -> o_compress o = true -> gen_maybe_replace text o = Ret text.
Proof. intros o x nd text Hr Hx Hc. apply tie_maybe_replace. apply (maybe_replace_after_compress o x nd text); assumption. Qed.

(** ... and with a literal delimiter the same function joins the fields with R (C01's replacement clause) *)
Theorem tie_C01_literal_replacement : forall (o : opt) (nd text : bytes),
  o_btype o <> BChars -> o_replace o = Some nd -> o_regex o = None ->
  gen_maybe_replace text o
  = Ret (intercalate nd (pieces text (gaps_from 0 (lit_matches (o_delim o) text) (length text)))).
Proof.
  intros o nd text Hb Hr Hx. apply tie_maybe_replace. unfold maybe_replace. rewrite Hr, Hx, replace_matches_is_intercalate.
  destruct (o_btype o); try reflexivity. exfalso. apply Hb. reflexivity.
Qed.

(** C19/C03: the forward-bounds test that [StreamOpt::try_from] relies on (taken from the model there) is
    the translated [ForwardBounds::try_from]'s: the two accept the same lists, and the translated one
    never panics on a list that holds a bound *)
Theorem tie_C19_forward_bounds_test : forall u : ublist, bounds_only (items u) <> [] ->
  ((exists fb, gen_fb_try_from u = Ret (Some fb)) <-> (exists v, model_forward_try_from u = Ret (Some v))).
Proof.
  intros u Hb. rewrite (tie_fb_try_from_accepts u Hb). unfold model_forward_try_from.
  destruct (forward_bounds_ok (items u)); split; intros H; try reflexivity; try (eexists; reflexivity);
    first [discriminate H | destruct H as [v H]; discriminate H].
Qed.

(** C16 over the translated regex splitter and trimmer: with -e RE the fields are the gaps between the
    successive leftmost non-overlapping matches of RE (-g: of (RE)+, the maximal runs), whatever the scratch
    buffer held; -t removes the first match only when it starts the record and the last one only when it
    ends it *)
Theorem tie_C16_fields_are_the_gaps : forall (buffer0 : list (Z * Z)) (line : bytes) (r : re),
  gen_fill_regex buffer0 line (rb_normal (RxRe r)) = Ret (tt, map mzz (fields_of_matches (re_find_iter r line) line)) /\
  gen_fill_regex buffer0 line (rb_greedy (RxRe r)) = Ret (tt, map mzz (fields_of_matches (re_find_iter (RPlus r) line) line)).
Proof. intros buffer0 line r. split; apply tie_fill_regex; reflexivity. Qed.

Theorem tie_C16_trim : forall (line : bytes) (k : trimk) (r : re),
  gen_trim_regex line k (rb_greedy (RxRe r)) = Ret (trim_matches k (re_find_iter (RPlus r) line) line).
Proof.
  intros line k r. apply tie_trim_regex; [reflexivity|]. apply (proj1 (re_matches_wf (RPlus r) line)).
Qed.

(** C16: -p with -r R rewrites every run of matches to the literal R before cutting - the record becomes
    its greedy fields joined by R *)
Theorem tie_C16_compress_rewrites_runs : forall (line nd : bytes) (r : re),
  gen_compress_regex line (rb_greedy (RxRe r)) nd
  = Ret (intercalate nd (pieces line (gaps_from 0 (re_find_iter (RPlus r) line) (length line)))).
Proof.
  intros line nd r. rewrite (tie_compress_regex line nd (rb_greedy (RxRe r)) (re_find_iter (RPlus r) line)); [|reflexivity].
  rewrite replace_matches_is_intercalate. reflexivity.
Qed.

(** C01 over the translated general path ([cut_str] of src/cut_str.rs, every stage of it): for every
    non-empty literal delimiter and every combination of -t, -p, -s, -m, -j, -r, format text and fallbacks
    (-g has its own theorem in the model), the record comes out as the function of its fields that the
    statement describes, whatever the scratch buffers held *)
Theorem tie_C01_record_as_a_function_of_its_fields :
  forall (o : opt) (line0 : bytes) (fields0 : list (Z * Z)) (buf0 : list byte),
    value_opts o -> Forall item_nz (items (o_bounds o)) ->
    Z.of_nat (length line0) + Z.of_nat (length (o_delim o)) <= usize_max ->
    Z.of_nat (length (line2 o (line1 o line0))) + Z.of_nat (length (o_delim o)) <= usize_max ->
    Z.of_nat (length (line2 o (line1 o line0))) + 2 <= i32_max ->
    of_rres_cut
      (Some (let line1 := match o_trim o with Some k => trim_lit k (o_delim o) line0 | None => line0 end in
             match line1 with
             | [] => ROk (if o_only_delimited o then [] else [o_eol o])
             | _ =>
                 let fs := if o_compress o then squeeze (split (o_delim o) line1) else split (o_delim o) line1 in
                 if o_only_delimited o && Nat.eqb (length fs) 1 then ROk []
                 else match effective_bounds o (length fs) with
                      | None => RErr
                      | Some bs =>
                          match spec_items fs (o_fallback o) (o_join o) (rep_of' o) bs with
                          | Some x => ROk (x ++ [o_eol o])
                          | None => RErr
                          end
                      end
             end))
      (gen_cut_str line0 o fields0 buf0 [o_eol o]).
Proof.
  intros o line0 fields0 buf0 Hv Hnz H0 H2 Hf.
  rewrite <- (general_record_value o line0 Hv Hnz).
  destruct Hv as (Hd & Hre & Hj & Hb & Hg).
  apply tie_cut_str_literal; try assumption. rewrite Hb. discriminate.
Qed.

(** C10 over the same: the result does not depend on what the two scratch buffers held *)
Theorem tie_C10_cut_str_ignores_its_buffers :
  forall (o : opt) (line0 : bytes) (f1 f2 : list (Z * Z)) (b1 b2 : list byte) (out : bytes),
    o_regex o = None -> o_btype o <> BChars ->
    Forall item_nz (items (o_bounds o)) ->
    Z.of_nat (length line0) + Z.of_nat (length (o_delim o)) <= usize_max ->
    Z.of_nat (length (line2 o (line1 o line0))) + Z.of_nat (length (o_delim o)) <= usize_max ->
    Z.of_nat (length (line2 o (line1 o line0))) + 2 <= i32_max ->
    cut_str o line0 = Some (ROk out) ->
    gen_cut_str line0 o f1 b1 [o_eol o] = gen_cut_str line0 o f2 b2 [o_eol o].
Proof.
  intros o line0 f1 f2 b1 b2 out Hre Hb Hnz H0 H2 Hf E.
  pose proof (tie_cut_str_literal o line0 f1 b1 Hre Hb Hnz H0 H2 Hf) as A.
  pose proof (tie_cut_str_literal o line0 f2 b2 Hre Hb Hnz H0 H2 Hf) as B.
  rewrite E in A, B. cbn [of_rres_cut] in A, B. rewrite A, B. reflexivity.
Qed.

(** C16 over the translated general path: with -e RE (a regex of the modelled family) and any of
    -t -p -g -s -m --json -j -r, format text and fallbacks, the translated [cut_str] - every stage of it, with
    the translated regex trimmer, compressor and splitter it calls - does what the model's [cut_str] does:
    succeeds with exactly that output, fails exactly there (in particular -p or -j without -r), and panics
    nowhere else *)
Theorem tie_C16_general_path : forall (o : opt) (r : re) (line0 : bytes) (fields0 : list (Z * Z)) (buf0 : list byte),
  o_regex o = Some (RxRe r) -> o_btype o <> BChars -> Forall item_nz (items (o_bounds o)) ->
  (forall nd, o_replace o = Some nd ->
     Z.of_nat (length (rline2 o r (rline1 o r line0))) + Z.of_nat (length nd) <= usize_max) ->
  Z.of_nat (length (rfields o r (rline1 o r line0))) <= i32_max ->
  of_rres_cut (cut_str o line0) (gen_cut_str line0 o fields0 buf0 [o_eol o]).
Proof. exact tie_cut_str_regex. Qed.

(** C07 over the translated general path: with -c, on a record that is valid UTF-8, the translated [cut_str]
    (the regex splitter on the empty match at every scalar boundary, the two empty end pieces dropped) does
    what the model's [cut_str] does, for every combination of -s -m --json -j -r, format text and fallbacks *)
Theorem tie_C07_general_path : forall (o : opt) (line0 : bytes) (ms : list mtch) (fields0 : list (Z * Z)) (buf0 : list byte),
  o_regex o = Some RxChars -> o_btype o = BChars -> o_trim o = None ->
  Forall item_nz (items (o_bounds o)) ->
  char_matches line0 = Some ms ->
  Z.of_nat (length (drop_outer (fields_of_matches ms line0))) <= i32_max ->
  of_rres_cut (cut_str o line0) (gen_cut_str line0 o fields0 buf0 [o_eol o]).
Proof. exact tie_cut_str_chars. Qed.

(** C03/C04 over the translated step of the -M path: at every delimiter, EOL and chunk end [print_bof]
    writes what the model's [print_bof] writes for the piece of the chunk it is given and moves past exactly
    the items the model consumes - so a field is printed the same way whether it arrives whole or in pieces
    exactly when the model says so (which is what C04's theorems are about) *)
Theorem tie_C04_print_bof_step : forall (g : gsopt) (i : nat) (curr : Z) (chunk : bytes) (a b : nat) (trunc complete : bool),
  Z.of_nat i + 2 <= usize_max -> (a <= b)%nat -> (b <= length chunk)%nat ->
  (forall bd, pending (skipn i (items (gs_bounds g))) = Some bd -> matches bd curr <> None) ->
  gen_print_bof g (Z.of_nat i) curr chunk (Z.of_nat a) (Z.of_nat b) trunc complete
  = let '(out, its') := print_bof (so_of g) (skipn i (items (gs_bounds g))) curr (slice chunk a b) trunc complete in
    Ret (Some (Z.of_nat (i + (length (skipn i (items (gs_bounds g))) - length its'))), out).
Proof. intros g i curr chunk a b trunc complete H1 H2 H3 H4. exact (tie_print_bof g i curr chunk a b trunc complete H1 H2 H3 H4). Qed.

(** C13 over the translated end-of-record step of the -M path: a bound that is still pending when the record
    ends prints its own fallback, else the generic one, else the run fails (an open range that has started is
    complete); fillers are printed verbatim *)
Theorem tie_C13_pending_bounds_at_record_end : forall (g : gsopt) (i : nat) (n : Z),
  (i <= length (items (gs_bounds g)))%nat ->
  Forall (comparable n) (skipn i (items (gs_bounds g))) ->
  match pff (so_of g) (skipn i (items (gs_bounds g))) n with
  | Some t => gen_print_rest (Z.of_nat i) g n = Ret (Some tt, t)
  | None => exists p, gen_print_rest (Z.of_nat i) g n = Ret (None, p)
  end.
Proof. exact tie_print_rest. Qed.

(** C05 over the translated whole-input algorithm of -l (the translated [cut_lines] calling the translated
    [cut_str]): for a request that resolves, it prints the selection of the statement *)
Theorem tie_C05_buffered_reader : forall (o : opt) (input : bytes) (bs : list bof) (x : bytes),
  plain_opts o (o_eol o) -> o_trim o = None -> o_only_delimited o = false -> o_replace o = None ->
  items (o_bounds o) = bs -> Forall item_nz bs ->
  utf8_valid input = true -> input <> [] -> strip_one_suffix (o_eol o) input <> [] ->
  spec_items (records (o_eol o) input) (o_fallback o) (o_join o) [o_eol o] bs = Some x ->
  Z.of_nat (length input) + 2 <= i32_max ->
  gen_cut_lines input o = Ret (Some tt, x ++ [o_eol o]).
Proof.
  intros o input bs x Hp Ht Hs Hr Hb Hnz Hv Hi Hst Hx Hlen.
  pose proof (C05_buffered_same o input bs x Hp Ht Hs Hr Hb Hnz Hv Hi Hst Hx) as E.
  destruct Hp as (Hd & Hre & Hj & Hbt & Hc & Hg & Hcp).
  assert (Hl : (length (strip_one_suffix (o_eol o) input) <= length input)%nat).
  { unfold strip_one_suffix. destruct (rev input) as [|y r] eqn:Er; [lia|]. destruct (N.eqb y (o_eol o)); [|lia].
    rewrite rev_length. apply (f_equal (@length _)) in Er. rewrite rev_length in Er. cbn [length] in Er. lia. }
  set (l' := strip_one_suffix (o_eol o) input) in *.
  assert (E1 : line1 o l' = l') by (unfold line1; rewrite Ht; reflexivity).
  assert (E2 : line2 o l' = l') by (unfold line2, compresses; rewrite Hcp; reflexivity).
  assert (H : of_rres_cut (cut_str o l') (gen_cut_str l' o [] [] [o_eol o])).
  { apply tie_cut_str_literal; try assumption.
    - intros Ec. rewrite Ec in Hbt. discriminate.
    - rewrite <- Hb in Hnz. exact Hnz.
    - rewrite Hd. cbn [length]. unfold usize_max, i32_max in *. lia.
    - rewrite E1, E2, Hd. cbn [length]. unfold usize_max, i32_max in *. lia.
    - rewrite E1, E2. unfold RsPrelude.i32_max, i32_max in *. lia. }
  pose proof (tie_cut_lines input o H) as T. rewrite E in T. exact T.
Qed.

(** C06 from the input to the output: the translated [read_and_cut_bytes] (reading everything, then the
    translated [cut_bytes]) writes exactly the bytes at the selected positions *)
Theorem tie_C06_whole_byte_mode : forall (input : bytes) (o : opt),
  input <> [] -> Z.of_nat (length input) <= i32_max ->
  Forall item_nz (items (o_bounds o)) ->
  Forall (item_resolves (length input)) (items (o_bounds o)) ->
  gen_read_and_cut_bytes input o = Ret (Some tt, spec_bytes (items (o_bounds o)) input).
Proof. intros input o H1 H2 H3 H4. rewrite tie_read_and_cut_bytes. apply tie_C06_byte_mode_exact; assumption. Qed.

(** C19/C03: what the translated [ForwardBounds::try_from] builds always has its last bound where it says:
    the translated [get_last_bound] never reaches its "invariant error" panic *)
Theorem tie_C19_last_bound_invariant : forall (u : ublist) (fb : gfb),
  bounds_only (items u) <> [] -> gen_fb_try_from u = Ret (Some fb) ->
  exists b, gen_get_last_bound fb = Ret b /\ In (Bound b) (items (fb_list fb)).
Proof. exact tie_get_last_bound. Qed.

(** C13/C05 over the translated one-line-at-a-time reader, for what happens once the input is exhausted:
    a pending bound that has printed lines is complete only if it is open on the right; every other pending
    bound prints its own fallback, else the generic one, else the run fails; then one EOL *)
Theorem tie_C13_lines_forward_finish : forall (o : opt) (sin out lb : bytes) (li : Z) (i : nat) (an : bool),
  (i <= length (items (o_bounds o)))%nat -> Z.of_nat (length (items (o_bounds o))) + 1 <= usize_max ->
  (an = true -> exists b, nth_error (items (o_bounds o)) i = Some (Bound b)) ->
  match fwd_finish o (skipn i (items (o_bounds o))) an with
  | Some r => gen_lines_forward_s5 sin out o lb li (Z.of_nat i) an = Ret (Some tt, out ++ r ++ [o_eol o])
  | None => exists p, gen_lines_forward_s5 sin out o lb li (Z.of_nat i) an = Ret (None, p)
  end.
Proof. exact tie_lines_forward_finish. Qed.

(** C05 over the translated one-line-at-a-time reader, the whole of it: for an input whose lines are valid
    UTF-8 (with and without their terminator alike) and an ascending request that resolves on it, it prints
    the selection of the statement (the terminator is LF or NUL: below 128) *)
Theorem tie_C05_forward_reader : forall (o : opt) (input : bytes) (x : bytes),
  records (o_eol o) input <> [] -> items (o_bounds o) <> [] ->
  fwd_ok 1 (Z.of_nat (length (records (o_eol o) input))) (items (o_bounds o)) -> last_marked (items (o_bounds o)) ->
  Forall (fun l => utf8_valid l = true) (records (o_eol o) input) ->
  (o_eol o < 128)%N ->
  Z.of_nat (length (items (o_bounds o))) + 1 <= usize_max -> Z.of_nat (length input) + 1 <= RsPrelude.i32_max ->
  spec_items (records (o_eol o) input) (o_fallback o) (o_join o) [o_eol o] (items (o_bounds o)) = Some x ->
  gen_lines_forward input o = Ret (Some tt, x ++ [o_eol o]).
Proof.
  intros o input x Hl Hb Hok Hlm Hu Hu2 Hn Hlen Hx.
  destruct (C05_forward o (records (o_eol o) input) (items (o_bounds o)) Hl Hb Hok Hlm Hu) as (x' & E1 & E2).
  rewrite Hx in E1. injection E1 as <-.
  pose proof (tie_lines_forward_whole o input Hb Hn Hlen Hu2) as T. rewrite E2 in T. exact T.
Qed.

(** C05 over the translated line mode as a whole - the translated dispatcher calling the translated readers:
    whichever of the two algorithms it picks for a request (the choice is the code's), what is printed is the
    selection of the statement *)
Theorem tie_C05_whichever_algorithm : forall (o : opt) (input : bytes) (x : bytes),
  plain_opts o (o_eol o) -> o_trim o = None -> o_only_delimited o = false -> o_replace o = None ->
  Forall item_nz (items (o_bounds o)) -> items (o_bounds o) <> [] ->
  fwd_ok 1 (Z.of_nat (length (records (o_eol o) input))) (items (o_bounds o)) -> last_marked (items (o_bounds o)) ->
  Forall (fun l => utf8_valid l = true) (records (o_eol o) input) -> records (o_eol o) input <> [] ->
  (o_eol o < 128)%N ->
  utf8_valid input = true -> input <> [] -> strip_one_suffix (o_eol o) input <> [] ->
  Z.of_nat (length (items (o_bounds o))) + 1 <= usize_max -> Z.of_nat (length input) + 2 <= RsPrelude.i32_max ->
  spec_items (records (o_eol o) input) (o_fallback o) (o_join o) [o_eol o] (items (o_bounds o)) = Some x ->
  gen_read_and_cut_lines input o = Ret (Some tt, x ++ [o_eol o]).
Proof.
  intros o input x Hp Ht Hs Hr Hnz Hne Hok Hlm Hu Hl Hu2 Hv Hi Hst Hn Hlen Hx.
  rewrite tie_read_and_cut_lines. destruct (can_be_streamed o).
  - apply tie_C05_forward_reader; try assumption. unfold RsPrelude.i32_max in *. lia.
  - apply (tie_C05_buffered_reader o input (items (o_bounds o)) x); try assumption; reflexivity.
Qed.

Print Assumptions tie_try_into_range_spec.
Print Assumptions tie_C05_whichever_algorithm.
Print Assumptions tie_C05_forward_reader.
Print Assumptions tie_C13_lines_forward_finish.
Print Assumptions tie_C19_last_bound_invariant.
Print Assumptions tie_C06_whole_byte_mode.
Print Assumptions tie_C05_buffered_reader.
Print Assumptions tie_C13_pending_bounds_at_record_end.
Print Assumptions tie_C04_print_bof_step.
Print Assumptions tie_C07_general_path.
Print Assumptions tie_C16_general_path.
Print Assumptions tie_C01_record_as_a_function_of_its_fields.
Print Assumptions tie_C10_cut_str_ignores_its_buffers.
Print Assumptions tie_C16_compress_rewrites_runs.
Print Assumptions tie_C16_fields_are_the_gaps.
Print Assumptions tie_C16_trim.
Print Assumptions tie_C19_forward_bounds_test.
Print Assumptions tie_C16_selected_text_is_rejoined_with_R.
Print Assumptions tie_C16_after_compress_printed_as_it_is.
Print Assumptions tie_C01_literal_replacement.
Print Assumptions tie_C01_trim_left.
Print Assumptions tie_C01_trim_right.
Print Assumptions tie_C01_fields_locations.
Print Assumptions tie_C10_compress_ignores_its_buffer.
Print Assumptions tie_C02_fast_record_is_the_general_path.
Print Assumptions tie_C06_byte_mode_exact.
Print Assumptions tie_C15_list_complement.
Print Assumptions tie_C18_bound_accepted_iff.
Print Assumptions tie_C19_fixed_memory_eligibility.
Print Assumptions tie_C02_fast_path_domain.
Print Assumptions tie_forward_only_spec.
Print Assumptions tie_sortable_spec.
Print Assumptions tie_unpack_spec.
Print Assumptions tie_C15_complement_of_a_bound.
Print Assumptions tie_C09_range_unchanged.
Print Assumptions tie_C15_complement.
Print Assumptions tie_matches_spec.
Print Assumptions tie_orderings.
