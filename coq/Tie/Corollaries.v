(** What the property theorems say about the code as translated from the current source
    (the [gen_*] definitions of [Tie/Gen_*.v]), obtained from the theorems over the hand-written
    model through the bridge lemmas.  These are re-proved on every run against what the source
    says now. *)
From Coq Require Import ZArith Bool List Lia.
From TucModel Require Import Base.Bytes Base.ListX Model.Bounds Spec.Resolve Proofs.BoundsFacts Proofs.C09 Proofs.C15
  Tie.RsPrelude Tie.TieBase
  Tie.Gen_side_partial_cmp Tie.Bridge_side_partial_cmp
  Tie.Gen_ub_partial_cmp Tie.Bridge_ub_partial_cmp
  Tie.Gen_ub_matches Tie.Bridge_ub_matches
  Tie.Gen_ub_try_into_range Tie.Bridge_ub_try_into_range
  Tie.Gen_complement_std_range Tie.Bridge_complement_std_range.
Import ListNotations.
Local Open Scope Z_scope.

Lemma nz_left b : bound_nz b -> bl b <> SSome 0.
Proof. intros [H _] E. rewrite E in H. apply H. reflexivity. Qed.

(** C13 / C06 / C09 (the arithmetic they all rest on): on fewer than 2^31 parts the translated
    [try_into_range] never panics, fails exactly on the bounds that do not resolve (an index
    beyond the parts in either direction, or an empty interval), and otherwise returns the 0-based
    half-open interval from the first to the last selected position - -1 the last part, -n the first. *)
Theorem tie_try_into_range_spec : forall (b : ubound) (n : nat),
  Z.of_nat n <= i32_max -> bound_nz b ->
  (gen_ub_try_into_range b (Z.of_nat n) = Ret None /\ ~ resolves b n)
  \/ (exists s e, gen_ub_try_into_range b (Z.of_nat n) = Ret (Some (s, e))
                  /\ resolves b n
                  /\ s = first_pos b (Z.of_nat n) - 1 /\ e = last_pos b (Z.of_nat n)
                  /\ 0 <= s < e /\ e <= Z.of_nat n).
Proof.
  intros b n Hn Hnz. rewrite (tie_ub_try_into_range b n Hn (nz_left b Hnz)).
  destruct (try_into_range b n) as [[s e]|] eqn:E.
  - right. exists (Z.of_nat s), (Z.of_nat e). cbn [range_Z]. split; [reflexivity|].
    destruct (try_into_range_some b n s e Hnz E) as (Hres & Hs & He & Hlt). split; [exact Hres|]. repeat split; lia.
  - left. split; [reflexivity | exact (try_into_range_none b n E)].
Qed.

(** C09: rewriting any in-range negative side -k as n+1-k does not change what the translated
    [try_into_range] returns. *)
Theorem tie_C09_range_unchanged : forall (n : nat) (b b' : ubound),
  Z.of_nat n <= i32_max -> bound_nz b -> bound_nz b' ->
  bound_rewrites (Z.of_nat n) b b' ->
  gen_ub_try_into_range b' (Z.of_nat n) = gen_ub_try_into_range b (Z.of_nat n).
Proof.
  intros n b b' Hn Hb Hb' Hrw.
  rewrite (tie_ub_try_into_range b n Hn (nz_left b Hb)), (tie_ub_try_into_range b' n Hn (nz_left b' Hb')).
  f_equal. f_equal. exact (C09_try_into_range n b b' Hrw).
Qed.

(** C15: the translated [complement_std_range] returns, for a resolved range s < e <= n, the parts
    before it followed by the parts after it, leaving out the empty ones. *)
Theorem tie_C15_complement : forall n s e : nat, (s < e <= n)%nat ->
  gen_complement_std_range (Z.of_nat n) (Z.of_nat s, Z.of_nat e) = Ret (pairs_Z (complement_spec n s e)).
Proof.
  intros n s e H. rewrite tie_complement_std_range. f_equal. f_equal. exact (complement_std_range_spec n s e H).
Qed.

(** C03 / C05 (the streaming readers' membership test): the translated [matches] is total (no
    panic for any index), refuses exactly the sign mismatches, and otherwise tests l <= idx <= r
    with an open side standing for no constraint. *)
Theorem tie_matches_spec : forall (b : ubound) (idx : Z),
  gen_ub_matches b idx = Ret (matches b idx).
Proof. exact tie_ub_matches. Qed.

(** C02 / C05 / C19 (ordering used by the early stop, the forward-only test and -M eligibility):
    the translated comparisons never panic and decide the model's [side_gt], [side_le], [bound_le]. *)
Theorem tie_orderings : forall (a b : side) (x y : ubound),
  (exists c, gen_side_partial_cmp a b = Ret c /\ side_gt a b = ord_gt c /\ side_le a b = ord_le c)
  /\ (exists c, gen_ub_partial_cmp x y = Ret c /\ bound_le x y = ord_le c).
Proof. intros. split; [apply tie_side_partial_cmp | apply tie_ub_partial_cmp]. Qed.

Print Assumptions tie_try_into_range_spec.
Print Assumptions tie_C09_range_unchanged.
Print Assumptions tie_C15_complement.
Print Assumptions tie_matches_spec.
Print Assumptions tie_orderings.
