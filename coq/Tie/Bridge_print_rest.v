(** src/stream.rs : print_filler_or_fallbacks (what the -M path does with the items that are left when a
    record ends), as translated: the model's [pff] - fillers verbatim, an open range that has started is
    complete, every other bound prints its own fallback, else the generic one, else the run fails - with the
    join delimiter after every bound but the last. *)
From Coq Require Import ZArith Bool List Lia.
From TucModel Require Import Base.Bytes Model.Bounds Model.Scan Model.Regex Model.Opt Model.CutBytes Model.Stream
  Tie.RsPrelude Tie.TieBase Tie.RsOpt Tie.RsStr Tie.RsList
  Tie.Gen_ub_matches Tie.Bridge_ub_matches Tie.Bridge_print_bof Tie.Gen_print_rest.
Import ListNotations.
Local Open Scope Z_scope.

Definition comparable (n : Z) (x : bof) : Prop :=
  match x with Bound b => matches b n <> None | Filler _ => True end.

Lemma rest_loop (g : gsopt) (n : Z) (F : bytes -> bof -> rs (ctrl bytes (option unit))) :
  (forall st x, comparable n x ->
     F st x = match x with
              | Filler f => Ret (Next (st ++ f))
              | Bound b =>
                  let sep := if gs_join g && negb (blast b) then [sdelim (so_of g)] else [] in
                  let started := match bl b with SCont => true | SSome l => (l <=? n) end in
                  if started && side_eqb (br b) SCont then Ret (Next st)
                  else match fallback_for b (gs_fallback g) with
                       | Some fb => Ret (Next (st ++ fb ++ sep))
                       | None => Ret (Break None)
                       end
              end) ->
  forall l st, Forall (comparable n) l ->
    loopM F l st = match pff (so_of g) l n with Some t => Ret (Next (st ++ t)) | None => Ret (Break None) end.
Proof.
  intros HF. induction l as [|x l IH]; intros st Hl; cbn [loopM pff]; [rewrite app_nil_r; reflexivity|].
  inversion Hl as [|? ? Hx Hl']; subst. rewrite (HF st x Hx). destruct x as [b|f].
  - cbv zeta. change (s_fallback (so_of g)) with (gs_fallback g). change (s_join (so_of g)) with (gs_join g).
    destruct ((match bl b with SCont => true | SSome l0 => l0 <=? n end) && side_eqb (br b) SCont)%bool; cbn [bind].
    + apply IH, Hl'.
    + destruct (fallback_for b (gs_fallback g)) as [fb|]; cbn [bind]; [|reflexivity].
      rewrite (IH _ Hl'). destruct (pff (so_of g) l n); [rewrite <- !app_assoc; reflexivity | reflexivity].
  - cbn [bind]. rewrite (IH _ Hl'). destruct (pff (so_of g) l n); [rewrite <- app_assoc; reflexivity | reflexivity].
Qed.

Theorem tie_print_rest : forall (g : gsopt) (i : nat) (n : Z),
  (i <= length (items (gs_bounds g)))%nat ->
  Forall (comparable n) (skipn i (items (gs_bounds g))) ->
  match pff (so_of g) (skipn i (items (gs_bounds g))) n with
  | Some t => gen_print_rest (Z.of_nat i) g n = Ret (Some tt, t)
  | None => exists p, gen_print_rest (Z.of_nat i) g n = Ret (None, p)
  end.
Proof.
  intros g i n Hi Hc. cbv beta delta [gen_print_rest] iota zeta. unfold vec_from.
  destruct (Z.leb_spec 0 (Z.of_nat i)); [|lia]. destruct (Z.leb_spec (Z.of_nat i) (Z.of_nat (length (items (gs_bounds g))))); [|lia].
  cbn [andb bind]. rewrite Nat2Z.id. unfold to_list, iter_list.
  match goal with |- context [loopM ?F _ _] => rewrite (rest_loop g n F) end; [| |exact Hc].
  - destruct (pff (so_of g) (skipn i (items (gs_bounds g))) n); cbn [bind]; [reflexivity | eexists; reflexivity].
  - intros st x Hx. destruct x as [b|f]; [|reflexivity]. cbn [comparable] in Hx. cbv zeta.
    unfold sdelim, so_of. cbn [s_repl s_delim].
    destruct (side_eqb (br b) SCont) eqn:Er.
    + rewrite tie_ub_matches. cbn [bind].
      assert (Em : matches b n = Some (match bl b with SCont => true | SSome l => l <=? n end)).
      { destruct b as [[l|] [r|] la fb]; cbn [br side_eqb] in Er; try discriminate; unfold matches in *; cbn [bl br] in *.
        - destruct (opposite_sign l n); [exfalso; apply Hx; reflexivity | reflexivity].
        - reflexivity. }
      rewrite Em. rewrite andb_true_r.
      destruct (match bl b with SCont => true | SSome l => l <=? n end); [reflexivity|].
      unfold fallback_for. destruct (bfb b) as [fb|]; cbn [opt_unwrap bind].
      * destruct (gs_join g), (blast b); cbn [andb negb app]; rewrite ?app_nil_r, <- ?app_assoc; reflexivity.
      * destruct (gs_fallback g) as [fb|]; [|reflexivity].
        destruct (gs_join g), (blast b); cbn [andb negb app]; rewrite ?app_nil_r, <- ?app_assoc; reflexivity.
    + rewrite andb_false_r. unfold fallback_for. destruct (bfb b) as [fb|]; cbn [opt_unwrap bind].
      * destruct (gs_join g), (blast b); cbn [andb negb app]; rewrite ?app_nil_r, <- ?app_assoc; reflexivity.
      * destruct (gs_fallback g) as [fb|]; [|reflexivity].
        destruct (gs_join g), (blast b); cbn [andb negb app]; rewrite ?app_nil_r, <- ?app_assoc; reflexivity.
Qed.
