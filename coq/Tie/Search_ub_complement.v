From Coq Require Import ZArith Bool List.
From TucModel Require Import Base.Bytes Model.Bounds Tie.RsPrelude Tie.TieBase Tie.Gen_ub_new Tie.Gen_ub_from_range Tie.Gen_ub_try_into_range Tie.Gen_complement_std_range Tie.Gen_ub_complement.
Import ListNotations.
Local Open Scope Z_scope.
Definition eq_ub (a b : ubound) : bool := side_eqb (bl a) (bl b) && side_eqb (br a) (br b) && Bool.eqb (blast a) (blast b)
  && match bfb a, bfb b with None, None => true | Some _, Some _ => true | _, _ => false end.
Definition sides_r := SCont :: map SSome grid_idx.
Definition sides_l := SCont :: map SSome (filter (fun z => negb (z =? 0)) grid_idx).
Definition cex :=
  flat_map (fun n => flat_map (fun l => flat_map (fun r =>
    let b := mkB l r false (Some []) in
    let g := gen_ub_complement b (Z.of_nat n) in
    let m := Ret (complement_bound b n) in
    if eq_rs (eq_opt (eq_list eq_ub)) g m then [] else [(l, r, Z.of_nat n, g, m)]) sides_r) sides_l) grid_n.
Eval vm_compute in (length cex, firstn 2 cex).
