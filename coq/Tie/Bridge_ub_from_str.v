(** [UserBounds::from_str], translated from the current source, is the model's [parse_bound]: the
    first '=' starts the fallback, an empty range part and a lone ':' are refused, the first ':'
    separates the two sides, a side 0 and a same-sign decreasing range are refused - and none of its
    slicings or index computations can panic (text shorter than 2^64 bytes). *)
From Coq Require Import ZArith Bool List Lia.
From TucModel Require Import Base.Bytes Model.Bounds Model.BoundsParse Tie.RsPrelude Tie.TieBase Tie.RsStr
  Tie.Gen_side_from_str Tie.Bridge_side_from_str Tie.Gen_ub_new Tie.Bridge_ub_new Tie.Gen_ub_from_str.
Import ListNotations.
Local Open Scope Z_scope.

Lemma find_from_split c s : forall pos,
  match str_find_from c s pos with
  | None => split_once c s = (s, None)
  | Some j => exists i : nat, j = pos + Z.of_nat i /\ (i < length s)%nat
              /\ split_once c s = (firstn i s, Some (skipn (S i) s))
  end.
Proof.
  induction s as [|x s IH]; intros pos; cbn [str_find_from split_once]; [reflexivity|].
  destruct (N.eqb x c).
  - exists 0%nat. cbn. repeat split; lia.
  - specialize (IH (pos + 1)). destruct (str_find_from c s (pos + 1)) as [j|].
    + destruct IH as (i & Hj & Hi & E). exists (S i). rewrite E. cbn [firstn skipn length]. repeat split; lia.
    + rewrite IH. reflexivity.
Qed.

Lemma find_split c s :
  match str_find c s with
  | None => split_once c s = (s, None)
  | Some j => exists i : nat, j = Z.of_nat i /\ (i < length s)%nat
              /\ split_once c s = (firstn i s, Some (skipn (S i) s))
  end.
Proof. unfold str_find. pose proof (find_from_split c s 0) as H. destruct (str_find_from c s 0); [|exact H]. destruct H as (i & -> & H). exists i. split; [lia | exact H]. Qed.

(** what follows once the two sides are known: zero and order tests, [new], the fallback *)
Ltac sides_tail fb :=
  repeat match goal with
         | l : side |- _ => destruct l as [[|?p|?p]|]
         end;
  cbn [side_is_zero Z.eqb orb]; unfold same_sign; rewrite ?tie_ub_new; cbn [bind bl br blast bfb];
  case_bools; cbn [andb orb negb Bool.eqb]; try reflexivity; try (exfalso; lia).

Lemma split_once_none c s a : split_once c s = (a, None) -> a = s.
Proof.
  revert a. induction s as [|x s IH]; intros a E; cbn [split_once] in E; [injection E as <-; reflexivity|].
  destruct (N.eqb x c); [discriminate|]. destruct (split_once c s) as [a' b'] eqn:E'. injection E as <- ->.
  rewrite (IH a' eq_refl). reflexivity.
Qed.

Lemma split_once_len c s a b : split_once c s = (a, b) -> (length a <= length s)%nat.
Proof.
  revert a b. induction s as [|x s IH]; intros a b E; cbn [split_once] in E.
  - injection E as <- <-. cbn. lia.
  - destruct (N.eqb x c); [injection E as <- <-; cbn; lia|].
    destruct (split_once c s) as [a' b'] eqn:E'. injection E as <- <-. cbn [length]. specialize (IH a' b' eq_refl). lia.
Qed.

Lemma tie_ub_from_str : forall s0 : bytes,
  Z.of_nat (length s0) < usize_max ->
  gen_ub_from_str s0 = Ret (parse_bound s0).
Proof.
  intros s0 Hlen. cbv beta delta [gen_ub_from_str] iota zeta. unfold parse_bound, str_split_once.
  change 61%N with ch_eq. change 58%N with ch_colon.
  destruct (split_once ch_eq s0) as [s fbo] eqn:Es.
  pose proof (split_once_len _ _ _ _ Es) as Hsub.
  assert (Hs : Z.of_nat (length s) < usize_max) by lia.
  destruct fbo as [fb|]; [|apply split_once_none in Es; subst s0]; clear Hsub Hlen; try clear Es;
    (destruct s as [|c0 s']; [reflexivity|]); set (s := c0 :: s') in *;
    (destruct (bytes_eqb s [ch_colon]) eqn:Ecol; [reflexivity|]);
    pose proof (find_split ch_colon s) as Hf; destruct (str_find ch_colon s) as [j|].
  all: try (rewrite Hf; rewrite tie_side_from_str; cbn [bind]; destruct (parse_side s) as [x|]; [|reflexivity];
            cbn [bind]; set (l := x); set (r := x); clearbody r; subst l; sides_tail fb).
  all: destruct Hf as (i & -> & Hi & E); rewrite E; clear E; subst s; cbn [length] in Hi, Hs |- *.
  all: assert (Hadd : usize_add (Z.of_nat i) 1 = Ret (Z.of_nat i + 1))
         by (unfold usize_add, usize_chk, in_usize; unfold usize_max in *;
             destruct (Z.leb_spec 0 (Z.of_nat i + 1)); [|lia];
             destruct (Z.leb_spec (Z.of_nat i + 1) 18446744073709551615); [reflexivity | lia]).
  all: assert (Hsub : usize_sub (Z.of_nat (S (length s'))) 1 = Ret (Z.of_nat (S (length s')) - 1))
         by (unfold usize_sub, usize_chk, in_usize; unfold usize_max in *;
             destruct (Z.leb_spec 0 (Z.of_nat (S (length s')) - 1)); [|lia];
             destruct (Z.leb_spec (Z.of_nat (S (length s')) - 1) 18446744073709551615); [reflexivity | lia]).
  all: assert (Hfrom : str_from (c0 :: s') (Z.of_nat i + 1) = Ret (skipn (S i) (c0 :: s')))
         by (unfold str_from; cbn [length];
             destruct (Z.leb_spec 0 (Z.of_nat i + 1)); [|lia];
             destruct (Z.leb_spec (Z.of_nat i + 1) (Z.of_nat (S (length s')))); [|lia];
             cbn [andb]; replace (Z.to_nat (Z.of_nat i + 1)) with (S i) by lia; reflexivity).
  all: assert (Hto : str_to (c0 :: s') (Z.of_nat i) = Ret (firstn i (c0 :: s')))
         by (unfold str_to; cbn [length];
             destruct (Z.leb_spec 0 (Z.of_nat i)); [|lia];
             destruct (Z.leb_spec (Z.of_nat i) (Z.of_nat (S (length s')))); [|lia];
             cbn [andb]; rewrite Nat2Z.id; reflexivity).
  all: destruct i as [|i'].
  (* the colon comes first: an open left side *)
  1,3: change (Z.of_nat 0 =? 0) with true; cbv iota; change (Z.of_nat 0) with 0 in *;
       rewrite Hadd; cbn [bind]; change (0 + 1) with 1 in *; rewrite Hfrom; cbn [bind firstn];
       rewrite tie_side_from_str; cbn [bind]; destruct (parse_side (skipn 1 (c0 :: s'))) as [r|]; [|reflexivity];
       sides_tail fb.
  (* the colon comes later *)
  all: destruct (Z.eqb_spec (Z.of_nat (S i')) 0) as [E0|_]; [lia|]; rewrite Hsub; cbn [bind firstn].
  all: destruct (Z.eqb_spec (Z.of_nat (S i')) (Z.of_nat (S (length s')) - 1)) as [El|El].
  (* ... and is the last character: an open right side *)
  1,3: rewrite (skipn_all2 (n := S (S i'))) by (cbn [length]; lia);
       rewrite Hto; cbn [bind firstn]; rewrite tie_side_from_str; cbn [bind];
       destruct (parse_side (c0 :: firstn i' s')) as [l|]; [|reflexivity]; sides_tail fb.
  (* ... and has text on both sides *)
  all: destruct (skipn (S (S i')) (c0 :: s')) as [|y b'] eqn:Eb;
         [exfalso; apply (f_equal (@length _)) in Eb; rewrite skipn_length in Eb; cbn [length] in Eb; lia|];
       rewrite Hto; cbn [bind firstn]; rewrite tie_side_from_str; cbn [bind];
       destruct (parse_side (c0 :: firstn i' s')) as [l|]; [|reflexivity];
       rewrite Hadd; cbn [bind]; rewrite Hfrom; rewrite ?Eb; cbn [bind]; rewrite tie_side_from_str; cbn [bind];
       destruct (parse_side (y :: b')) as [r|]; [|reflexivity]; sides_tail fb.
Qed.
