(** [list.into()] for a [Vec<BoundOrFiller>]: [From<Vec<BoundOrFiller>> for UserBoundsList] is not
    translated (it marks the last bound through a saved [&mut]); the model's [from_vec] stands for it
    (hybrid), its [expect] on a list without bounds being the [Panic]. Hand-written. *)
From Coq Require Import ZArith Bool List.
From TucModel Require Import Base.Bytes Model.Bounds Tie.RsPrelude.

Definition model_from_vec (l : list bof) : rs ublist :=
  match from_vec l with Some u => Ret u | None => Panic end.

(** a [UserBoundsList] derefs to its vector: iterating it visits the items *)
Global Instance iter_ublist : Iterable ublist bof := items.
