(** [UserBoundsList::unpack], translated from the current source (with [From<Vec<..>>] taken from the
    model), is the model's [unpack_list] on fewer than 2^31 parts: every bound replaced in place by its
    expansion, the literal text kept where it is. *)
From Coq Require Import ZArith Bool List Lia.
From TucModel Require Import Base.Bytes Model.Bounds Tie.RsPrelude Tie.TieBase Tie.RsList
  Tie.Gen_ub_new Tie.Gen_ub_try_into_range Tie.Gen_ub_unpack Tie.Bridge_ub_unpack Tie.Gen_ubl_unpack.
Import ListNotations.
Local Open Scope Z_scope.

Lemma flat_mapM_list {A B : Type} (F : A -> rs (list B)) (G : A -> list B) (P : A -> Prop) :
  (forall x, P x -> F x = Ret (G x)) ->
  forall l, Forall P l -> flat_mapM F l = Ret (flat_map G l).
Proof.
  intros H l HP. induction HP as [|x l Hx Hl IH]; [reflexivity|].
  cbn [flat_mapM flat_map]. rewrite (H x Hx). cbn [bind]. rewrite IH. reflexivity.
Qed.

Definition item_left_nz (x : bof) : Prop := match x with Bound b => bl b <> SSome 0 | Filler _ => True end.

Definition of_opt (o : option ublist) : rs ublist := match o with Some u => Ret u | None => Panic end.

Lemma tie_ubl_unpack : forall (u : ublist) (n : nat),
  Z.of_nat n <= i32_max -> Forall item_left_nz (items u) ->
  gen_ubl_unpack u (Z.of_nat n) = of_opt (unpack_list (items u) n).
Proof.
  intros u n Hn Hnz. cbv beta delta [gen_ubl_unpack] iota zeta.
  match goal with |- context [flat_mapM ?F _] =>
    rewrite (flat_mapM_list F (fun x => match x with Bound b => map Bound (unpack_bound b n) | Filler f => [Filler f] end) item_left_nz)
  end; [| |exact Hnz].
  - cbn [bind]. unfold unpack_list, model_from_vec, of_opt, to_list, iter_list.
    match goal with |- context [from_vec ?l] => destruct (from_vec l) end; reflexivity.
  - intros [b|f] Hx; [|reflexivity]. cbn beta iota. rewrite (tie_ub_unpack b n Hn Hx). reflexivity.
Qed.
