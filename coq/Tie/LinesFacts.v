(** Reading a line at a time is reading the records one by one (model only; hand-written). *)
From Coq Require Import ZArith Bool List Lia.
From TucModel Require Import Base.Bytes Model.Bounds Model.Scan Model.Utf8 Model.Regex Model.Opt Model.CutStr Model.CutLines
  Tie.RsPrelude Tie.RsLines.
Import ListNotations.

Definition strip_eol (eol : byte) (raw : bytes) : bytes :=
  match strip_suffix_byte eol raw with Some v => v | None => raw end.

Lemma take_line_length eol : forall l, (length (snd (take_line eol l)) <= length l)%nat /\
  (l <> [] -> length (snd (take_line eol l)) < length l)%nat.
Proof.
  induction l as [|x l IH]; cbn [take_line]; [split; [cbn; lia | intros H; contradiction]|].
  destruct (N.eqb x eol); cbn [snd length]; [split; intros; lia|].
  destruct (take_line eol l) as [a b]. cbn [snd length] in *. destruct IH as [IH1 _]. split; intros; lia.
Qed.

Lemma strip_eol_snoc eol (a : bytes) : strip_eol eol (a ++ [eol]) = a.
Proof. unfold strip_eol, strip_suffix_byte. rewrite rev_app_distr. cbn [rev app]. rewrite N.eqb_refl, rev_involutive. reflexivity. Qed.

Lemma strip_eol_no eol (a : bytes) : (forall x, In x a -> x <> eol) -> strip_eol eol a = a.
Proof.
  intros H. unfold strip_eol, strip_suffix_byte. destruct (rev a) as [|y r] eqn:E; [reflexivity|].
  destruct (N.eqb_spec y eol) as [Ey|Ey]; [|reflexivity]. exfalso. apply (H y); [|exact Ey].
  apply in_rev. rewrite E. left. reflexivity.
Qed.

(** the first raw line is the first record plus its terminator (if it has one), and the records that
    follow are those of what is left *)
Lemma records_aux_take eol : forall l cur, l <> [] ->
  let '(raw, rest) := take_line eol l in
  records_aux eol cur l = (rev cur ++ strip_eol eol raw) :: records eol rest
  /\ (raw = strip_eol eol raw ++ [eol] \/ (raw = strip_eol eol raw /\ rest = [])).
Proof.
  induction l as [|x l IH]; intros cur Hne; [contradiction|]. cbn [take_line records_aux].
  destruct (N.eqb_spec x eol) as [Ex|Ex].
  - subst x. change [eol] with ([] ++ [eol]). rewrite strip_eol_snoc, app_nil_r. split; [reflexivity | left; reflexivity].
  - destruct l as [|y l'].
    + cbn [take_line records_aux]. assert (Es : strip_eol eol [x] = [x]) by (apply strip_eol_no; intros z [<-|[]]; exact Ex).
      rewrite Es. cbn [rev]. split; [reflexivity | right; split; reflexivity].
    + specialize (IH (x :: cur) ltac:(discriminate)). destruct (take_line eol (y :: l')) as [a b] eqn:Et.
      destruct IH as [IH1 IH2]. rewrite IH1. cbn [rev]. rewrite <- app_assoc. cbn [app].
      assert (Es : strip_eol eol (x :: a) = x :: strip_eol eol a).
      { destruct IH2 as [E|[E _]].
        - rewrite E at 1. change (x :: strip_eol eol a ++ [eol]) with ((x :: strip_eol eol a) ++ [eol]). apply strip_eol_snoc.
        - assert (Hno : forall z, In z a -> z <> eol).
          { (* no terminator in the last, unterminated line *)
            clear -Et E. revert a b Et E. generalize (y :: l') as m. induction m as [|u m IHm]; intros a b Et E; cbn [take_line] in Et.
            - injection Et as <- <-. intros z [].
            - destruct (N.eqb_spec u eol) as [Eu|Eu].
              + injection Et as <- <-. subst u. exfalso. unfold strip_eol, strip_suffix_byte in E. cbn [rev app] in E. rewrite N.eqb_refl in E. discriminate.
              + destruct (take_line eol m) as [a' b'] eqn:Et'. injection Et as <- <-.
                assert (E' : a' = strip_eol eol a').
                { unfold strip_eol, strip_suffix_byte in *. cbn [rev] in E. destruct (rev a') as [|w r] eqn:Er; [reflexivity|].
                  cbn [app] in E. destruct (N.eqb w eol); [|reflexivity]. exfalso.
                  apply (f_equal (@length _)) in E. rewrite rev_length in E. cbn [length] in E.
                  apply (f_equal (@length _)) in Er. rewrite rev_length in Er. cbn [length] in Er. rewrite app_length in E. cbn in E. lia. }
                intros z [<-|Hz]; [exact Eu | apply (IHm a' b' eq_refl E' z Hz)]. }
          rewrite (strip_eol_no eol a Hno). apply strip_eol_no. intros z [<-|Hz]; [exact Ex | apply Hno, Hz]. }
      rewrite Es. split; [reflexivity|].
      destruct IH2 as [E|[E Eb]]; [left; rewrite E at 1; reflexivity | right; split; [rewrite E at 1; reflexivity | exact Eb]].
Qed.

Lemma records_take eol (l : bytes) : l <> [] ->
  let '(raw, rest) := take_line eol l in
  records eol l = strip_eol eol raw :: records eol rest
  /\ (raw = strip_eol eol raw ++ [eol] \/ (raw = strip_eol eol raw /\ rest = [])).
Proof. intros H. pose proof (records_aux_take eol l [] H) as P. destruct (take_line eol l). exact P. Qed.

(** what [fwd_bounds] leaves pending is a suffix of what it was given, and when it says "a bound has
    started printing" that bound is the first pending item *)
Lemma fwd_bounds_suffix (o : opt) (idx : Z) (line : bytes) : forall bs an,
  (an = true -> exists b r, bs = Bound b :: r) ->
  let '(out, rest, an') := fwd_bounds o bs an idx line in
  (exists pre, bs = pre ++ rest) /\ (an' = true -> exists b r, rest = Bound b :: r).
Proof.
  induction bs as [|x bs IH]; intros an Han; cbn [fwd_bounds].
  - split; [exists []; reflexivity | intros E; destruct (Han E) as (b & r & H); discriminate].
  - destruct x as [b|f].
    + destruct (matches b idx) as [[|]|].
      * destruct (side_eqb (br b) (SSome idx)).
        -- specialize (IH false ltac:(discriminate)). destruct (fwd_bounds o bs false idx line) as [[o' rest] a'].
           destruct IH as [[pre Hp] Ha]. split; [exists (Bound b :: pre); rewrite Hp; reflexivity | exact Ha].
        -- split; [exists []; reflexivity | intros _; exists b, bs; reflexivity].
      * split; [exists []; reflexivity | intros E; exists b, bs; reflexivity].
      * split; [exists []; reflexivity | intros E; exists b, bs; reflexivity].
    + assert (Hf : an = true -> exists b r, bs = Bound b :: r) by (intros E; destruct (Han E) as (b & r & H); discriminate).
      (* a filler is pending only when no bound has started printing *)
      specialize (IH an Hf). destruct (fwd_bounds o bs an idx line) as [[o' rest] a'].
      destruct IH as [[pre Hp] Ha]. split; [exists (Filler f :: pre); rewrite Hp; reflexivity | exact Ha].
Qed.

Lemma suffix_skipn {A} (l pre rest : list A) : l = pre ++ rest -> skipn (length l - length rest) l = rest.
Proof.
  intros ->. rewrite app_length. replace (length pre + length rest - length rest)%nat with (length pre) by lia.
  rewrite skipn_app, skipn_all, Nat.sub_diag. reflexivity.
Qed.

Lemma records_length eol : forall l cur, (length (records_aux eol cur l) <= S (length l))%nat.
Proof.
  induction l as [|x l IH]; intros cur; cbn [records_aux length]; [destruct cur; cbn; lia|].
  destruct (N.eqb x eol); cbn [length]; [specialize (IH []) | specialize (IH (x :: cur))]; lia.
Qed.
