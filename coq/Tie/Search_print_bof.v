(** When the bridge of [print_bof] no longer checks: a grid of pending items, fields and flags. *)
From Coq Require Import ZArith Bool List.
From TucModel Require Import Base.Bytes Model.Bounds Model.Scan Model.Regex Model.Opt Model.Stream
  Tie.RsPrelude Tie.TieBase Tie.RsOpt Tie.Gen_print_bof.
Import ListNotations.
Local Open Scope Z_scope.

Definition ub (l r : side) (la : bool) : bof := Bound (mkB l r la None).
Definition lists : list (list bof) :=
  [[ub (SSome 1) (SSome 1) true]; [ub (SSome 1) (SSome 2) false; ub (SSome 3) (SSome 3) true];
   [Filler [58%N]; ub (SSome 2) SCont true]; [ub (SSome 2) (SSome 3) true; Filler [59%N]]; [Filler [58%N]]; []].
Definition chunk : bytes := [97%N; 98%N; 99%N].
Definition bools := [false; true].
Definition cex :=
  flat_map (fun its => flat_map (fun i => flat_map (fun curr => flat_map (fun ab => flat_map (fun tr => flat_map (fun co =>
  flat_map (fun j => flat_map (fun rp =>
    let g := mkGSO 45%N rp j 10%N (mkL its SCont) None in
    let so := mkSO 45%N rp j 10%N None its SCont in
    let x := gen_print_bof g (Z.of_nat i) curr chunk (Z.of_nat (fst ab)) (Z.of_nat (snd ab)) tr co in
    let '(out, its') := print_bof so (skipn i its) curr (slice chunk (fst ab) (snd ab)) tr co in
    let want := Ret (Some (Z.of_nat (i + (length (skipn i its) - length its'))), out) in
    if eq_rs (fun p q => eq_opt Z.eqb (fst p) (fst q) && eq_list N.eqb (snd p) (snd q)) x want then []
    else [(its, i, curr, ab, (tr, co, j), x, want)])
  [None; Some 43%N]) bools) bools) bools) [(0, 0); (0, 2); (1, 3)]%nat) [1; 2; 3]) [0; 1]%nat) lists.
Eval vm_compute in (length cex, firstn 2 cex).
