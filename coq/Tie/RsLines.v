(** The two readers of src/cut_lines.rs ([cut_lines_forward_only]: a loop over [read_line]/[read_until];
    [cut_lines]: [read_to_end], then [cut_str] on the whole input) are not translated: the model's
    [fwd_lines] and [cut_lines_buffered] stand for them (hybrids), called with the input that is left and
    returning (result, what was written).  [Panic] also stands for the outcomes the result monad has no
    name for (a record outside the model's description, [Hang]); the bridge lemma keeps them apart.
    Hand-written. *)
From Coq Require Import ZArith Bool List.
From TucModel Require Import Base.Bytes Model.Bounds Model.Scan Model.Utf8 Model.Regex Model.Opt Model.CutStr Model.CutLines Tie.RsPrelude.
Import ListNotations.

Definition of_outcome (x : outcome) : rs (option unit * bytes) :=
  match x with
  | Done out => Ret (Some tt, out)
  | Fail pre => Ret (None, pre)
  | Bytes.Panic => RsPrelude.Panic
  | Hang => RsPrelude.Panic
  end.

Definition model_lines_forward (stdin : bytes) (o : opt) : rs (option unit * bytes) :=
  of_outcome (fwd_lines o (lines_of (o_eol o) stdin) (items (o_bounds o)) false 0 []).
Definition model_lines_buffered (stdin : bytes) (o : opt) : rs (option unit * bytes) :=
  match cut_lines_buffered o stdin with Some x => of_outcome x | None => RsPrelude.Panic end.

(** [std::str::from_utf8] and [str::strip_suffix(char)] for an ASCII character *)
Definition from_utf8 (b : bytes) : option bytes := if Utf8.utf8_valid b then Some b else None.
Definition strip_suffix_byte (c : byte) (s : bytes) : option bytes :=
  match rev s with x :: r => if N.eqb x c then Some (rev r) else None | [] => None end.

(** [read_utils::read_line_with_eol]: the next line with its terminator, taken off the input; [None] at the end
    of the input, [Some None] when the line is not valid UTF-8 ([read_line]'s check; [read_until] + [from_utf8]
    under -z) *)
Fixpoint take_line (eol : byte) (l : bytes) : bytes * bytes :=
  match l with
  | [] => ([], [])
  | x :: r => if N.eqb x eol then ([x], r) else let '(a, b) := take_line eol r in (x :: a, b)
  end.
Definition read_line_eol (eol : byte) (input : bytes) : option (option bytes) * bytes :=
  match input with
  | [] => (None, [])
  | _ => let '(line, rest) := take_line eol input in
         ((if Utf8.utf8_valid line then Some (Some line) else Some None), rest)
  end.
