(** [From<Range<usize>> for UserBounds], translated from the current source, is the model's
    [of_range] whenever the range lies below 2^31 (otherwise the code's [expect] fires). *)
From Coq Require Import ZArith Bool List Lia.
From TucModel Require Import Base.Bytes Model.Bounds Tie.RsPrelude Tie.TieBase Tie.Gen_ub_new Tie.Bridge_ub_new Tie.Gen_ub_from_range.
Local Open Scope Z_scope.

Lemma usize_to_i32_ok z : z <= i32_max -> usize_to_i32 z = Ret z.
Proof. unfold usize_to_i32. intros H. destruct (Z.leb_spec z i32_max); [reflexivity | lia]. Qed.

Lemma tie_ub_from_range : forall s e : nat,
  Z.of_nat s < i32_max -> Z.of_nat e <= i32_max ->
  gen_ub_from_range (Z.of_nat s, Z.of_nat e) = Ret (of_range s e).
Proof.
  intros s e Hs He. cbv beta delta [gen_ub_from_range] iota zeta. cbn [fst snd].
  rewrite !usize_to_i32_ok by lia. cbn [bind]. unfold i32_add. chk. cbn [bind].
  rewrite tie_ub_new. cbn [bind]. reflexivity.
Qed.
