(** When the bridge of [cut_str] no longer checks: where do the translated function and the model differ?
    A grid of option sets, bounds and short records, evaluated by the kernel. *)
From Coq Require Import ZArith Bool List.
From TucModel Require Import Base.Bytes Model.Bounds Model.Scan Model.Regex Model.Opt Model.CutStr
  Tie.RsPrelude Tie.TieBase Tie.RsRegex Tie.RsCut Tie.Gen_cut_str.
Import ListNotations.
Local Open Scope Z_scope.

Definition dash : byte := 45%N.
Definition ca : byte := 97%N.
Definition cb : byte := 98%N.
Definition cc : byte := 99%N.
Definition recs : list bytes :=
  [[]; [ca]; [dash]; [ca; dash; cb]; [ca; dash; dash; cb]; [dash; ca; dash]; [ca; dash; cb; dash; cc]; [dash; dash]].
Definition ub (l r : side) (fb : option bytes) : bof := Bound (mkB l r false fb).
Definition lists : list (list bof) :=
  [[ub (SSome 1) (SSome 1) None]; [ub (SSome 2) (SSome 2) None]; [ub (SSome 1) (SSome 2) None];
   [ub (SSome (-1)) (SSome (-1)) None]; [ub (SSome 2) SCont None]; [ub (SSome 3) (SSome 3) (Some [120%N])];
   [ub (SSome 2) (SSome 2) None; Filler [58%N]; ub (SSome 1) (SSome 1) None]].
Definition mk (bs : list bof) (tr : option trimk) (s g p m j js : bool) (r : option bytes) (x : option rx) : option opt :=
  match from_vec bs with
  | Some u => Some (mkOpt [dash] 10%N u BFields s g p r tr m j js false None x)
  | None => None
  end.
Definition bools := [false; true].
Definition opts : list opt :=
  flat_map (fun bs => flat_map (fun tr => flat_map (fun s => flat_map (fun g => flat_map (fun p => flat_map (fun m =>
  flat_map (fun j => flat_map (fun js => flat_map (fun r => flat_map (fun x =>
    match mk bs tr s g p m j js r x with Some o => [o] | None => [] end)
    [None; Some (RxRe (RByte dash))]) [None; Some [43%N]]) bools) bools) bools) bools) bools) bools) [None; Some TBoth]) lists.

Definition agree (m : option rres) (g : rs (option unit * bytes)) : bool :=
  match m, g with
  | Some (ROk out), Ret (Some _, w) => eq_list N.eqb out w
  | Some RErr, Ret (None, _) => true
  | Some RPanic, Panic => true
  | None, _ | Some RHang, _ => true
  | _, _ => false
  end.

Definition cex :=
  flat_map (fun o => flat_map (fun l =>
    let g := gen_cut_str l o [] [] [o_eol o] in
    let m := cut_str o l in
    if agree m g then [] else [(l, o_trim o, (o_only_delimited o, o_greedy o, o_compress o, o_complement o, o_join o, o_json o),
                               o_replace o, items (o_bounds o), m, g)]) recs) opts.
Eval vm_compute in (length opts, length cex, firstn 2 cex).
