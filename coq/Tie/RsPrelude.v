(** Target language of the translator (/verif/translator, rs2coq): a result monad in which
    Rust's checked integer arithmetic (debug build: overflow panics) and wrapping [as] casts
    are explicit.  Hand-written; the generated files [Gen_*.v] import it. *)
From Coq Require Import ZArith Bool List Lia.
Import ListNotations.
Local Open Scope Z_scope.

Inductive rs (A : Type) : Type := Ret (a : A) | Panic.
Arguments Ret {A} a.
Arguments Panic {A}.

Definition bind {A B : Type} (m : rs A) (k : A -> rs B) : rs B :=
  match m with Ret a => k a | Panic => Panic end.

Definition i32_min : Z := -2147483648.
Definition i32_max : Z := 2147483647.
Definition usize_max : Z := 18446744073709551615.

Definition in_i32 (z : Z) : bool := (i32_min <=? z) && (z <=? i32_max).
Definition in_usize (z : Z) : bool := (0 <=? z) && (z <=? usize_max).

Definition i32_chk (z : Z) : rs Z := if in_i32 z then Ret z else Panic.
Definition usize_chk (z : Z) : rs Z := if in_usize z then Ret z else Panic.

Definition i32_add (a b : Z) : rs Z := i32_chk (a + b).
Definition i32_sub (a b : Z) : rs Z := i32_chk (a - b).
Definition i32_mul (a b : Z) : rs Z := i32_chk (a * b).
Definition i32_neg (a : Z) : rs Z := i32_chk (- a).
Definition usize_add (a b : Z) : rs Z := usize_chk (a + b).
Definition usize_sub (a b : Z) : rs Z := usize_chk (a - b).
Definition usize_mul (a b : Z) : rs Z := usize_chk (a * b).

(** [x as i32] from usize, [x as usize] from i32: two's-complement wrap *)
Definition cast_i32 (z : Z) : Z := (z + 2147483648) mod 4294967296 - 2147483648.
Definition cast_usize (z : Z) : Z := z mod 18446744073709551616.

(** [Ord::cmp] on integers: Less/Equal/Greater are Lt/Eq/Gt *)
Definition i32_cmp (a b : Z) : comparison := Z.compare a b.

(** [usize::try_into::<i32>().expect(..)]: panics when the value does not fit *)
Definition usize_to_i32 (z : Z) : rs Z := if z <=? i32_max then Ret z else Panic.

(** [iter.map(f).collect()] with an [f] that may panic: the elements are visited in order *)
Fixpoint mapM {A B : Type} (f : A -> rs B) (l : list A) : rs (list B) :=
  match l with
  | [] => Ret []
  | x :: l' => bind (f x) (fun y => bind (mapM f l') (fun ys => Ret (y :: ys)))
  end.

(** what [into_iter()] / iteration ranges over: a vector is its elements, a [Range<usize>] s..e the
    numbers s, s+1, .., e-1 *)
Class Iterable (C A : Type) := to_list : C -> list A.
Global Instance iter_list {A} : Iterable (list A) A := fun l => l.
Definition range_list (r : Z * Z) : list Z :=
  map (fun k => fst r + Z.of_nat k) (seq 0 (Z.to_nat (snd r - fst r))).
Global Instance iter_range : Iterable (Z * Z) Z := range_list.

(** [&v[i..]]: panics when i is past the end *)
Definition vec_from {A} (v : list A) (i : Z) : rs (list A) :=
  if (0 <=? i) && (i <=? Z.of_nat (length v)) then Ret (skipn (Z.to_nat i) v) else Panic.

(** [xs.iter().enumerate()] *)
Definition enumerate_z {A} (l : list A) : list (Z * A) := combine (map Z.of_nat (seq 0 (length l))) l.

Global Instance iter_option {A} : Iterable (option A) A := fun o => match o with Some x => [x] | None => [] end.

(** loops.  [for x in xs { .. }]: the `let mut` variables in scope are the state; `return v` inside the
    body leaves the loop with [Break v].  [xs.for_each(|x| ..)]: the same without [Break]. *)
Inductive ctrl (S R : Type) : Type := Next (s : S) | Stop (s : S) | Break (r : R).
Arguments Next {S R} s.
Arguments Stop {S R} s.
Arguments Break {S R} r.

(** [Next]: go on with the next element; [Stop]: `break` - the loop ends, the state is kept;
    [Break]: `return v` (or a failed [try_for_each] step) - the enclosing function ends *)
Fixpoint loopM {S A R : Type} (f : S -> A -> rs (ctrl S R)) (l : list A) (s : S) : rs (ctrl S R) :=
  match l with
  | [] => Ret (Next s)
  | x :: l' => bind (f s x) (fun c => match c with
                                      | Next s' => loopM f l' s'
                                      | Stop s' => Ret (Stop s')
                                      | Break r => Ret (Break r)
                                      end)
  end.

(** [loop { .. }] left by `break` ([Stop]) or `return` ([Break]), on fuel: what a `while let` becomes *)
Fixpoint loopWhile {S R : Type} (fuel : nat) (step : S -> rs (ctrl S R)) (s : S) : rs (ctrl S R) :=
  match fuel with
  | O => Panic
  | Datatypes.S f =>
      bind (step s) (fun r => match r with
                              | Next s' => loopWhile f step s'
                              | Stop s' => Ret (Stop s')
                              | Break v => Ret (Break v)
                              end)
  end.

(** [v[i]] on a vector: panics when out of range *)
Definition vec_index {A} (v : list A) (i : Z) : rs A :=
  if (0 <=? i) then match nth_error v (Z.to_nat i) with Some x => Ret x | None => Panic end else Panic.

Fixpoint foldM {S A : Type} (f : S -> A -> rs S) (l : list A) (s : S) : rs S :=
  match l with
  | [] => Ret s
  | x :: l' => bind (f s x) (fun s' => foldM f l' s')
  end.

(** [xs.any(|x| ..)]: stops at the first element for which the closure says true *)
Fixpoint anyM {A : Type} (f : A -> rs bool) (l : list A) : rs bool :=
  match l with
  | [] => Ret false
  | x :: l' => bind (f x) (fun b => if b then Ret true else anyM f l')
  end.

(** [xs.flat_map(|x| ..)]: the closure's results (anything iterable) one after the other *)
Fixpoint flat_mapM {A C B : Type} `{Iterable C B} (f : A -> rs C) (l : list A) : rs (list B) :=
  match l with
  | [] => Ret []
  | x :: l' => bind (f x) (fun c => bind (flat_mapM f l') (fun r => Ret (to_list c ++ r)))
  end.

(** [a <= b] on [Option<&T>] through T's [partial_cmp]: [None] is below everything *)
Definition opt_le_with {T : Type} (cmp : T -> T -> rs (option comparison)) (a b : option T) : rs bool :=
  match a, b with
  | None, _ => Ret true
  | Some _, None => Ret false
  | Some x, Some y => bind (cmp x y) (fun c => Ret match c with Some Lt | Some Eq => true | _ => false end)
  end.

(** [while COND { BODY }]: bounded by a fuel term chosen per function; running out of fuel is reported
    as [Panic] (the bridge lemmas show it does not happen) *)
Fixpoint whileM {S R : Type} (fuel : nat) (cond : S -> rs bool) (body : S -> rs (ctrl S R)) (s : S) : rs (ctrl S R) :=
  match fuel with
  | O => Panic
  | Datatypes.S f =>
      bind (cond s) (fun c =>
        if c then bind (body s) (fun r => match r with
                                          | Next s' => whileM f cond body s'
                                          | Stop s' => Ret (Stop s')
                                          | Break v => Ret (Break v)
                                          end)
        else Ret (Next s))
  end.
