(** Target language of the translator (/verif/translator, rs2coq): a result monad in which
    Rust's checked integer arithmetic (debug build: overflow panics) and wrapping [as] casts
    are explicit.  Hand-written; the generated files [Gen_*.v] import it. *)
From Coq Require Import ZArith Bool List Lia.
Import ListNotations.
Local Open Scope Z_scope.

Inductive rs (A : Type) : Type := Ret (a : A) | Panic.
Arguments Ret {A} a.
Arguments Panic {A}.

Definition bind {A B : Type} (m : rs A) (k : A -> rs B) : rs B :=
  match m with Ret a => k a | Panic => Panic end.

Definition i32_min : Z := -2147483648.
Definition i32_max : Z := 2147483647.
Definition usize_max : Z := 18446744073709551615.

Definition in_i32 (z : Z) : bool := (i32_min <=? z) && (z <=? i32_max).
Definition in_usize (z : Z) : bool := (0 <=? z) && (z <=? usize_max).

Definition i32_chk (z : Z) : rs Z := if in_i32 z then Ret z else Panic.
Definition usize_chk (z : Z) : rs Z := if in_usize z then Ret z else Panic.

Definition i32_add (a b : Z) : rs Z := i32_chk (a + b).
Definition i32_sub (a b : Z) : rs Z := i32_chk (a - b).
Definition i32_mul (a b : Z) : rs Z := i32_chk (a * b).
Definition i32_neg (a : Z) : rs Z := i32_chk (- a).
Definition usize_add (a b : Z) : rs Z := usize_chk (a + b).
Definition usize_sub (a b : Z) : rs Z := usize_chk (a - b).
Definition usize_mul (a b : Z) : rs Z := usize_chk (a * b).

(** [x as i32] from usize, [x as usize] from i32: two's-complement wrap *)
Definition cast_i32 (z : Z) : Z := (z + 2147483648) mod 4294967296 - 2147483648.
Definition cast_usize (z : Z) : Z := z mod 18446744073709551616.

(** [Ord::cmp] on integers: Less/Equal/Greater are Lt/Eq/Gt *)
Definition i32_cmp (a b : Z) : comparison := Z.compare a b.

(** [usize::try_into::<i32>().expect(..)]: panics when the value does not fit *)
Definition usize_to_i32 (z : Z) : rs Z := if z <=? i32_max then Ret z else Panic.

(** [iter.map(f).collect()] with an [f] that may panic: the elements are visited in order *)
Fixpoint mapM {A B : Type} (f : A -> rs B) (l : list A) : rs (list B) :=
  match l with
  | [] => Ret []
  | x :: l' => bind (f x) (fun y => bind (mapM f l') (fun ys => Ret (y :: ys)))
  end.

(** what [into_iter()] / iteration ranges over: a vector is its elements, a [Range<usize>] s..e the
    numbers s, s+1, .., e-1 *)
Class Iterable (C A : Type) := to_list : C -> list A.
Global Instance iter_list {A} : Iterable (list A) A := fun l => l.
Definition range_list (r : Z * Z) : list Z :=
  map (fun k => fst r + Z.of_nat k) (seq 0 (Z.to_nat (snd r - fst r))).
Global Instance iter_range : Iterable (Z * Z) Z := range_list.
