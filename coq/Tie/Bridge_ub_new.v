(** [UserBounds::new], translated from the current source: both sides as given, not the last bound,
    no fallback. *)
From Coq Require Import ZArith Bool List Lia.
From TucModel Require Import Base.Bytes Model.Bounds Tie.RsPrelude Tie.TieBase Tie.Gen_ub_new.
Local Open Scope Z_scope.

Lemma tie_ub_new : forall l r : side, gen_ub_new l r = Ret (mkB l r false None).
Proof. intros l r. reflexivity. Qed.
