(** src/cut_str.rs : compress_delimiter_with_regex, as translated: every match of the regex it is given
    (the greedy form: every maximal run of matches) is rewritten to the new delimiter, literally. *)
From Coq Require Import ZArith Bool List Lia.
From TucModel Require Import Base.Bytes Model.Bounds Model.Scan Model.Regex Model.Opt Model.CutStr
  Tie.RsPrelude Tie.TieBase Tie.RsRegex Tie.Gen_compress_regex.
Import ListNotations.

Theorem tie_compress_regex : forall (line nd : bytes) (r : rx * bool) (ms : list mtch),
  rx_matches r line = Some ms -> gen_compress_regex line r nd = Ret (replace_matches line ms nd).
Proof.
  intros line nd r ms Hm. cbv beta delta [gen_compress_regex] iota zeta. unfold rx_replace_all. rewrite Hm. reflexivity.
Qed.
