From Coq Require Import ZArith Bool List.
From TucModel Require Import Base.Bytes Model.Bounds Tie.RsPrelude Tie.TieBase Tie.Gen_ub_matches.
Import ListNotations.
Local Open Scope Z_scope.
Definition sides := SCont :: map SSome grid_idx.
Definition cex :=
  flat_map (fun i => flat_map (fun l => flat_map (fun r =>
    let b := mkB l r false None in
    let g := gen_ub_matches b i in
    let m := Ret (matches b i) in
    if eq_rs (eq_opt Bool.eqb) g m then [] else [(l, r, i, g, m)]) sides) sides) grid_idx.
Eval vm_compute in (length cex, firstn 3 cex).
