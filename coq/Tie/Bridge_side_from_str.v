(** [Side::from_str], translated from the current source, is the model's [parse_side] (with
    [i32::from_str] as modelled by [parse_i32]). *)
From Coq Require Import ZArith Bool List Lia.
From TucModel Require Import Base.Bytes Model.Bounds Model.BoundsParse Tie.RsPrelude Tie.TieBase Tie.RsStr Tie.Gen_side_from_str.
Import ListNotations.

Lemma tie_side_from_str : forall s : bytes, gen_side_from_str s = Ret (parse_side s).
Proof.
  intros s. cbv beta delta [gen_side_from_str] iota zeta. unfold parse_side.
  destruct s as [|x s]; [reflexivity|]. destruct (parse_i32 (x :: s)); reflexivity.
Qed.
