(** src/stream.rs : ForwardBounds::get_last_bound, as translated: on a value built by the translated
    [ForwardBounds::try_from] it returns a bound of the list - the "invariant error" panic is unreachable. *)
From Coq Require Import ZArith Bool List Lia.
From TucModel Require Import Base.Bytes Model.Bounds Model.Scan Model.Regex Model.Opt Model.Stream
  Tie.RsPrelude Tie.TieBase Tie.RsOpt Tie.RsList
  Tie.Gen_ubl_is_forward_only Tie.Bridge_ubl_is_forward_only Tie.Gen_fb_try_from Tie.Bridge_fb_try_from Tie.Gen_get_last_bound.
Import ListNotations.
Local Open Scope Z_scope.

Lemma in_enumerate {A} : forall (l : list A) (s : nat) (i : Z) (x : A),
  In (i, x) (combine (map Z.of_nat (seq s (length l))) l) ->
  (s <= Z.to_nat i)%nat /\ 0 <= i /\ nth_error l (Z.to_nat i - s) = Some x.
Proof.
  induction l as [|y l IH]; intros s i x H; cbn [length seq map combine] in H; [contradiction|].
  destruct H as [H|H].
  - injection H as <- <-. rewrite Nat2Z.id, Nat.sub_diag. split; [lia | split; [lia | reflexivity]].
  - destruct (IH (S s) i x H) as (H1 & H2 & H3). split; [lia | split; [lia|]].
    replace (Z.to_nat i - s)%nat with (S (Z.to_nat i - S s)) by lia. exact H3.
Qed.

Theorem tie_get_last_bound : forall (u : ublist) (fb : gfb),
  bounds_only (items u) <> [] -> gen_fb_try_from u = Ret (Some fb) ->
  exists b, gen_get_last_bound fb = Ret b /\ In (Bound b) (items (fb_list fb)).
Proof.
  intros u fb Hb H. rewrite (tie_fb_try_from u Hb) in H. injection H as H. unfold fb_image in H.
  destruct (forward_bounds_ok (items u)); [|discriminate].
  destruct (from_vec (items u)) as [v|]; [|discriminate].
  destruct (last_bound_idx (items v)) as [i|] eqn:Ei; [|discriminate]. injection H as <-.
  cbv beta delta [gen_get_last_bound] iota zeta. cbn [fb_list fb_last].
  unfold last_bound_idx in Ei. destruct (first_bound_idx_spec _ _ Ei) as (pre & b & post & E & _).
  assert (Hin : In (i, Bound b) (enumerate_z (items v))).
  { apply in_rev. rewrite E. apply in_or_app. right. left. reflexivity. }
  unfold enumerate_z in Hin. destruct (in_enumerate (items v) 0 i (Bound b) Hin) as (_ & _ & Hn).
  rewrite Nat.sub_0_r in Hn. rewrite Hn. exists b. split; [reflexivity|]. apply (nth_error_In _ _ Hn).
Qed.
