(** src/cut_bytes.rs : read_and_cut_bytes (byte mode from the input to the output), as translated: everything
    that is left of the input is read and handed to the translated [cut_bytes]; its result and output are
    passed on unchanged. *)
From Coq Require Import ZArith Bool List.
From TucModel Require Import Base.Bytes Model.Bounds Model.Scan Model.Regex Model.Opt
  Tie.RsPrelude Tie.TieBase Tie.RsOpt Tie.RsStr Tie.RsList Tie.Gen_cut_bytes Tie.Gen_read_and_cut_bytes.
Import ListNotations.

Lemma pass_on_bytes (x : rs (option unit * bytes)) :
  bind x (fun '(r, w) => match r with Some _ => Ret (Some tt, [] ++ w) | None => Ret (None, [] ++ w) end) = x.
Proof. destruct x as [[[[]|] w]|]; reflexivity. Qed.

Theorem tie_read_and_cut_bytes : forall (stdin : bytes) (o : opt),
  gen_read_and_cut_bytes stdin o = gen_cut_bytes stdin o.
Proof.
  intros stdin o. cbv beta delta [gen_read_and_cut_bytes] iota zeta.
  destruct stdin as [|c l]; cbv iota beta; apply pass_on_bytes.
Qed.
