(** When the bridge of [trim_regex] no longer checks: a grid of records, regexes and trim kinds. *)
From Coq Require Import ZArith Bool List.
From TucModel Require Import Base.Bytes Model.Bounds Model.Scan Model.Regex Model.Opt Model.CutStr
  Tie.RsPrelude Tie.TieBase Tie.RsStr Tie.RsRegex Tie.Gen_trim_regex.
Import ListNotations.
Definition dash : byte := 45%N.
Definition ca : byte := 97%N.
Definition recs : list bytes :=
  [[]; [ca]; [dash]; [dash; dash]; [ca; dash]; [dash; ca]; [dash; ca; dash]; [ca; dash; ca]; [dash; dash; ca; dash; ca; dash; dash]; [ca; dash; dash]].
Definition res : list re := [RByte dash; RCat (RByte dash) (RByte dash); RAlt (RByte dash) (RByte ca)].
Definition cex :=
  flat_map (fun l => flat_map (fun r => flat_map (fun k =>
    let g := gen_trim_regex l k (rb_greedy (RxRe r)) in
    let m := Ret (trim_matches k (re_find_iter (RPlus r) l) l) in
    if eq_rs (eq_list N.eqb) g m then [] else [(l, r, k, g, m)]) [TLeft; TRight; TBoth]) res) recs.
Eval vm_compute in (length cex, firstn 3 cex).
