(** [output_parts] of the fast lane, translated from the current source with its writes accumulated, is
    the per-bound step of the model's [fast_out]: the same bytes (the slice from the start of the first
    selected field to one before the start of the field after the last, or a fallback, then the
    delimiter under -j unless the bound is the last), failure exactly when an unresolvable bound has no
    fallback, and a panic exactly where the model has its explicit [RPanic] branches (an index past the
    table of field starts). *)
From Coq Require Import ZArith Bool List Lia.
From TucModel Require Import Base.Bytes Base.ListX Model.Bounds Model.Scan Model.Regex Model.Opt Model.CutBytes Model.FastLane
  Tie.RsPrelude Tie.TieBase Tie.RsOpt Tie.RsStr Tie.RsList
  Tie.Gen_ub_try_into_range Tie.Bridge_ub_try_into_range Tie.Gen_fast_output_parts.
Import ListNotations.
Local Open Scope Z_scope.

(** one bound of [fast_out], with the separator that follows it *)
Definition fast_piece (join : bool) (generic : option bytes) (d : byte) (line : bytes) (fields : list nat) (b : ubound) : rres :=
  match (match try_into_range b (length fields - 1) with
         | Some (s, e) =>
             match nth_error fields s, nth_error fields e with
             | Some a, Some z =>
                 if Nat.leb 1 z && Nat.leb a (z - 1) && Nat.leb (z - 1) (length line)
                 then ROk (slice line a (z - 1)) else RPanic
             | _, _ => RPanic
             end
         | None => match fallback_for b generic with Some f => ROk f | None => RErr end
         end) with
  | ROk p => ROk (p ++ (if join && negb (blast b) then [d] else []))
  | e => e
  end.

Definition of_rres (r : rres) : rs (option unit * bytes) :=
  match r with
  | ROk out => Ret (Some tt, out)
  | RErr => Ret (None, [])
  | _ => Panic
  end.

Lemma vec_index_nat (fields : list nat) (i : nat) :
  vec_index (map Z.of_nat fields) (Z.of_nat i) = match nth_error fields i with Some x => Ret (Z.of_nat x) | None => Panic end.
Proof.
  unfold vec_index. destruct (Z.leb_spec 0 (Z.of_nat i)); [|lia]. rewrite Nat2Z.id, nth_error_map.
  destruct (nth_error fields i); reflexivity.
Qed.

Lemma tie_fast_output_parts : forall (line : bytes) (b : ubound) (fields : list nat) (g : gfopt),
  fields <> [] -> Z.of_nat (length fields) <= i32_max -> bl b <> SSome 0 ->
  Z.of_nat (length line) < usize_max ->
  gen_fast_output_parts line b (map Z.of_nat fields) g
  = of_rres (fast_piece (gf_join g) (gf_fallback g) (gf_delim g) line fields b).
Proof.
  intros line b fields g Hne Hlen Hz Hline. cbv beta delta [gen_fast_output_parts] iota zeta.
  rewrite map_length. unfold fast_piece.
  assert (Hsub : usize_sub (Z.of_nat (length fields)) 1 = Ret (Z.of_nat (length fields - 1))).
  { destruct fields as [|f0 fs]; [contradiction|]. cbn [length] in *. unfold usize_sub, usize_chk, in_usize, usize_max, i32_max in *.
    destruct (Z.leb_spec 0 (Z.of_nat (S (length fs)) - 1)); [|lia].
    destruct (Z.leb_spec (Z.of_nat (S (length fs)) - 1) 18446744073709551615); [|lia]. cbn [andb]. f_equal. lia. }
  rewrite Hsub. cbn [bind].
  rewrite (tie_ub_try_into_range b (length fields - 1)) by (try exact Hz; unfold i32_max in *; lia). cbn [bind].
  destruct (try_into_range b (length fields - 1)) as [[s e]|] eqn:E; cbn [range_Z opt_unwrap bind fst snd].
  - rewrite !vec_index_nat.
    destruct (nth_error fields s) as [a|]; cbn [bind]; [|reflexivity].
    destruct (nth_error fields e) as [z|]; cbn [bind]; [|reflexivity].
    unfold usize_sub, usize_chk, in_usize.
    destruct z as [|z']; [reflexivity|].
    destruct (Z.leb_spec 0 (Z.of_nat (S z') - 1)); [|lia].
    destruct (Z.leb_spec (Z.of_nat (S z') - 1) usize_max).
    2:{ (* a field start beyond 2^64 cannot occur below the length of the line; the model panics there too *)
        cbn [andb Nat.leb Nat.sub]. destruct (Nat.leb_spec a (z' - 0)); cbn [andb];
          destruct (Nat.leb_spec (z' - 0) (length line)); cbn [andb]; try reflexivity. unfold usize_max in *. lia. }
    cbn [andb bind Nat.leb]. unfold str_between.
    replace (S z' - 1)%nat with z' by lia.
    destruct (Nat.leb_spec a z'); destruct (Nat.leb_spec z' (length line)); cbn [andb];
      destruct (Z.leb_spec 0 (Z.of_nat a)); try lia;
      destruct (Z.leb_spec (Z.of_nat a) (Z.of_nat (S z') - 1)); try lia;
      destruct (Z.leb_spec (Z.of_nat (S z') - 1) (Z.of_nat (length line))); try lia; cbn [andb bind of_rres]; try reflexivity.
    unfold slice. replace (Z.to_nat (Z.of_nat (S z') - 1 - Z.of_nat a)) with (z' - a)%nat by lia. rewrite Nat2Z.id.
    destruct (gf_join g), (blast b); cbn [andb negb of_rres app]; rewrite ?app_nil_r; reflexivity.
  - unfold fallback_for. destruct (bfb b) as [f|]; cbn [bind opt_unwrap of_rres].
    + destruct (gf_join g), (blast b); cbn [andb negb app]; rewrite ?app_nil_r; reflexivity.
    + destruct (gf_fallback g) as [f|]; cbn [of_rres]; [|reflexivity].
      destruct (gf_join g), (blast b); cbn [andb negb app]; rewrite ?app_nil_r; reflexivity.
Qed.
