(** [cut_str_fast_lane], the fast lane's per-record function, translated from the current source with
    its writes accumulated and its scratch vector of field starts as an argument, is the model's
    [cut_fast]: for every record shorter than 2^31 bytes, every option set in the fast lane's domain and
    WHATEVER the scratch vector held on entry (C10), it writes exactly what the model prints and fails
    or panics exactly where the model does. *)
From Coq Require Import ZArith Bool List Lia.
From TucModel Require Import Base.Bytes Base.ListX Model.Bounds Model.Scan Model.Regex Model.Opt Model.CutBytes Model.FastLane
  Tie.RsPrelude Tie.TieBase Tie.RsOpt Tie.RsStr Tie.RsList
  Tie.Gen_ub_try_into_range Tie.Gen_fast_output_parts Tie.Bridge_fast_output_parts Tie.Bridge_ubl_unpack Tie.Gen_fast_cut_record.
Import ListNotations.
Local Open Scope Z_scope.

Notation st4 := (list N * list Z * list N * Z)%type (only parsing).

(** the scan: one push per delimiter, stopping at the last interesting field *)
Lemma scan_loop (F : st4 -> Z -> rs (ctrl st4 (option unit))) (lif : side) :
  (forall out fs buf c i, c + 1 <= i32_max -> 0 <= i -> i + 1 <= usize_max -> i32_min <= c ->
     F (out, fs, buf, c) i = Ret (if side_eqb (SSome (c + 1)) lif then Stop (out, fs ++ [i + 1], buf, c + 1)
                                  else Next (out, fs ++ [i + 1], buf, c + 1))) ->
  forall (ps : list nat) out fs buf c,
    0 <= c -> c + Z.of_nat (length ps) <= i32_max -> Forall (fun i => Z.of_nat i + 1 <= usize_max) ps ->
    exists tag : st4 -> ctrl st4 (option unit), (tag = Next \/ tag = Stop) /\
      loopM F (map Z.of_nat ps) (out, fs, buf, c)
      = Ret (tag (out, fs ++ map Z.of_nat (fst (scan_starts lif c ps)), buf, snd (scan_starts lif c ps))).
Proof.
  intros HF ps. induction ps as [|i ps IH]; intros out fs buf c Hc Hlen Hall; cbn [map loopM scan_starts length] in *.
  - exists Next. split; [left; reflexivity|]. cbn [fst snd map]. rewrite app_nil_r. reflexivity.
  - inversion Hall as [|? ? Hi Hps]; subst.
    rewrite HF by (unfold i32_min; lia). destruct (side_eqb (SSome (c + 1)) lif); cbn [bind fst snd map].
    + exists Stop. split; [right; reflexivity|]. replace (Z.of_nat (S i)) with (Z.of_nat i + 1) by lia. reflexivity.
    + destruct (IH out (fs ++ [Z.of_nat i + 1]) buf (c + 1)) as (tag & Ht & E); [lia | lia | exact Hps |].
      exists tag. split; [exact Ht|]. rewrite E.
      destruct (scan_starts lif (c + 1) ps) as [r c']. cbn [fst snd map]. rewrite <- app_assoc. cbn [app].
      replace (Z.of_nat (S i)) with (Z.of_nat i + 1) by lia. reflexivity.
Qed.

(** the output loop over the bounds list *)
Fixpoint fwalk (join : bool) (generic : option bytes) (d : byte) (line : bytes) (fields : list nat) (acc : bytes) (l : list bof)
  : rs (option unit * bytes) :=
  match l with
  | [] => Ret (Some tt, acc)
  | Filler f :: l' => fwalk join generic d line fields (acc ++ f) l'
  | Bound b :: l' =>
      match fast_piece join generic d line fields b with
      | ROk p => fwalk join generic d line fields (acc ++ p) l'
      | RErr => Ret (None, acc)
      | _ => Panic
      end
  end.

Lemma out_loop (F : st4 -> bof -> rs (ctrl st4 st4)) join generic d line (fields : list nat) (fz : list Z) buf c :
  forall l,
  (forall out x, In x l ->
     F (out, fz, buf, c) x =
     match x with
     | Filler f => Ret (Next (out ++ f, fz, buf, c))
     | Bound b => match fast_piece join generic d line fields b with
                  | ROk p => Ret (Next (out ++ p, fz, buf, c))
                  | RErr => Ret (Break (out, fz, buf, c))
                  | _ => Panic
                  end
     end) ->
  forall out,
    loopM F l (out, fz, buf, c)
    = bind (fwalk join generic d line fields out l)
           (fun r => Ret (match fst r with Some _ => Next (snd r, fz, buf, c) | None => Break (snd r, fz, buf, c) end)).
Proof.
  induction l as [|x l IH]; intros H out; cbn [loopM fwalk]; [reflexivity|].
  rewrite (H out x (or_introl eq_refl)).
  assert (IH' : forall out', loopM F l (out', fz, buf, c) = bind (fwalk join generic d line fields out' l)
             (fun r => Ret (match fst r with Some _ => Next (snd r, fz, buf, c) | None => Break (snd r, fz, buf, c) end)))
    by (intros out'; apply IH; intros o y Hy; apply H; right; exact Hy).
  destruct x as [b|f]; cbn [bind]; [|apply IH'].
  destruct (fast_piece join generic d line fields b); cbn [bind]; [apply IH' | reflexivity | reflexivity | reflexivity].
Qed.

(** [fast_out] is that walk *)
Lemma fast_out_fwalk (o : opt) d line fields l : forall acc,
  match fast_out o d line fields l with
  | ROk r => fwalk (o_join o) (o_fallback o) d line fields acc l = Ret (Some tt, acc ++ r)
  | RErr => exists p, fwalk (o_join o) (o_fallback o) d line fields acc l = Ret (None, p)
  | _ => fwalk (o_join o) (o_fallback o) d line fields acc l = Panic
  end.
Proof.
  induction l as [|x l IH]; intros acc; cbn [fwalk fast_out]; [rewrite app_nil_r; reflexivity|].
  destruct x as [b|f].
  - unfold fast_piece.
    destruct (match try_into_range b (length fields - 1) with
              | Some (s, e) => match nth_error fields s, nth_error fields e with
                               | Some a, Some z => if Nat.leb 1 z && Nat.leb a (z - 1) && Nat.leb (z - 1) (length line)
                                                   then ROk (slice line a (z - 1)) else RPanic
                               | _, _ => RPanic end
              | None => match fallback_for b (o_fallback o) with Some f => ROk f | None => RErr end
              end) as [p| | |]; try reflexivity; [|eexists; reflexivity].
    specialize (IH (acc ++ p ++ (if o_join o && negb (blast b) then [d] else []))).
    destruct (fast_out o d line fields l) as [r| | |]; try exact IH.
    rewrite IH. rewrite <- !app_assoc. reflexivity.
  - specialize (IH (acc ++ f)). destruct (fast_out o d line fields l) as [r| | |]; try exact IH.
    rewrite IH. rewrite <- app_assoc. reflexivity.
Qed.

Definition gf_of (o : opt) (d : byte) : gfopt :=
  mkGFO d (o_join o) (o_eol o) (o_bounds o) (o_only_delimited o) (o_trim o) (o_fallback o).

Definition of_rres_partial (r : rres) (x : rs (option unit * bytes)) : Prop :=
  match r with
  | ROk out => x = Ret (Some tt, out)
  | RErr => exists partial, x = Ret (None, partial)
  | _ => x = Panic
  end.

Lemma positions_lt d : forall buf pos, Forall (fun i => (i < pos + length buf)%nat) (positions_from d pos buf).
Proof.
  induction buf as [|x buf IH]; intros pos; cbn [positions_from length]; [constructor|].
  specialize (IH (S pos)). assert (H : Forall (fun i => (i < pos + S (length buf))%nat) (positions_from d (S pos) buf))
    by (eapply Forall_impl; [|exact IH]; cbn; intros; lia).
  destruct (N.eqb x d); [constructor; [lia | exact H] | exact H].
Qed.

Lemma positions_len d : forall buf pos, (length (positions_from d pos buf) <= length buf)%nat.
Proof.
  induction buf as [|x buf IH]; intros pos; cbn [positions_from length]; [lia|].
  specialize (IH (S pos)). destruct (N.eqb x d); cbn [length]; lia.
Qed.

Theorem tie_fast_cut_record : forall (o : opt) (d : byte) (line0 : bytes) (fields0 : list Z),
  o_delim o = [d] -> Z.of_nat (length line0) + 2 <= i32_max ->
  Forall item_left_nz (items (o_bounds o)) ->
  of_rres_partial (cut_fast o line0)
                  (gen_fast_cut_record line0 (gf_of o d) fields0 (lif (o_bounds o))).
Proof.
  intros o d line0 fields0 Hd Hlen Hnz. unfold cut_fast. rewrite Hd.
  cbv beta delta [gen_fast_cut_record] iota zeta. unfold gf_of. cbn [gf_trim gf_delim gf_only_delimited gf_eol gf_bounds gf_join gf_fallback].
  assert (Htrim : Z.of_nat (length (match o_trim o with Some k => trim_lit k [d] line0 | None => line0 end)) + 2 <= i32_max).
  { destruct (o_trim o) as [k|]; [|exact Hlen].
    assert (H : (length (trim_lit k [d] line0) <= length line0)%nat); [|lia].
    clear. unfold trim_lit.
    assert (HS : forall (p l r : bytes), strip_prefix p l = Some r -> (length r <= length l)%nat).
    { induction p as [|x p IHp]; intros l r E; cbn [strip_prefix] in E; [injection E as <-; lia|].
      destruct l as [|y l]; [discriminate|]. destruct (N.eqb x y); [|discriminate]. apply IHp in E. cbn [length]. lia. }
    assert (HF : forall p fuel l, (length (trim_left_fuel fuel p l) <= length l)%nat).
    { intros p fuel. induction fuel as [|f IHf]; intros l; cbn [trim_left_fuel]; [lia|].
      destruct (strip_prefix p l) as [r|] eqn:E; [|lia]. specialize (IHf r). apply HS in E. lia. }
    assert (HL : forall p l, (length (trim_left p l) <= length l)%nat).
    { intros p l. unfold trim_left. destruct p; [lia | apply HF]. }
    assert (HR : forall p l, (length (trim_right p l) <= length l)%nat).
    { intros p l. unfold trim_right. rewrite rev_length. specialize (HL (rev p) (rev l)). rewrite rev_length in HL. exact HL. }
    destruct k; [apply HL | apply HR | etransitivity; [apply HR | apply HL]]. }
  set (buffer := match o_trim o with Some k => trim_lit k [d] line0 | None => line0 end) in *.
  (* both copies of the code after the optional trim see the same buffer *)
  assert (Main : forall (out0 : bytes),
    out0 = [] ->
    of_rres_partial
      match buffer with
      | [] => ROk (if o_only_delimited o then [] else [o_eol o])
      | _ :: _ =>
          let '(starts, curr) := scan_starts (lif (o_bounds o)) 0 (positions_from d 0 buffer) in
          if (curr =? 0) && o_only_delimited o then ROk []
          else match fast_out o d buffer (0%nat :: starts ++ (if side_eqb (SSome curr) (lif (o_bounds o)) then [] else [S (length buffer)])) (items (o_bounds o)) with
               | ROk body => ROk (body ++ [o_eol o])
               | e => e
               end
      end
      (gen_fast_cut_record buffer (mkGFO d (o_join o) (o_eol o) (o_bounds o) (o_only_delimited o) None (o_fallback o)) fields0 (lif (o_bounds o)))).
  2:{ specialize (Main [] eq_refl). revert Main. cbv beta delta [gen_fast_cut_record] iota zeta.
      cbn [gf_trim gf_delim gf_only_delimited gf_eol gf_bounds gf_join gf_fallback].
      unfold buffer. destruct (o_trim o) as [k|]; cbn [opt_unwrap bind]; unfold model_trim; cbn [bind]; intros M; exact M. }
  intros out0 Hout0. cbv beta delta [gen_fast_cut_record] iota zeta.
  cbn [gf_trim gf_delim gf_only_delimited gf_eol gf_bounds gf_join gf_fallback].
  destruct buffer as [|b0 buf'] eqn:Ebuf'.
  { cbv iota beta. destruct (o_only_delimited o); cbn [negb of_rres_partial app]; reflexivity. }
  rewrite <- Ebuf' in *. cbv iota beta.
  subst out0.
  assert (Hbne : buffer <> []) by (rewrite Ebuf'; discriminate).
  unfold to_list at 1, iter_list, memchr_iter.
  set (lif0 := lif (o_bounds o)) in *.
  set (ps := positions_from d 0 buffer).
  assert (Hps_len : (length ps <= length buffer)%nat) by apply positions_len.
  assert (Hps_lt : Forall (fun i => Z.of_nat i + 1 <= usize_max) ps).
  { pose proof (positions_lt d buffer 0) as H. eapply Forall_impl; [|exact H]. cbn. intros a Ha. unfold usize_max, i32_max in *. lia. }
  match goal with |- context [loopM ?F (map Z.of_nat ps) ?st] =>
    destruct (scan_loop F lif0) with (ps := ps) (out := @nil N) (fs := @nil Z ++ [0]) (buf := buffer) (c := 0) as (tag & Ht & E)
  end.
  { intros out fs buf c i H1 H2 H3 H4. cbv beta iota.
    unfold i32_add, i32_chk, in_i32. unfold i32_min, i32_max in *.
    destruct (Z.leb_spec (-2147483648) (c + 1)); [|lia]. destruct (Z.leb_spec (c + 1) 2147483647); [|lia]. cbn [andb bind].
    unfold usize_add, usize_chk, in_usize. destruct (Z.leb_spec 0 (i + 1)); [|lia]. destruct (Z.leb_spec (i + 1) usize_max); [|lia].
    cbn [andb bind]. destruct (side_eqb (SSome (c + 1)) lif0); reflexivity. }
  { lia. } { unfold i32_max in *. lia. } { exact Hps_lt. }
  rewrite E. cbn [bind]. clear E.
  destruct (scan_starts lif0 0 ps) as [starts curr] eqn:Escan. cbn [fst snd].
  assert (Hstarts : (length starts <= length ps)%nat).
  { clear -Escan. revert starts curr Escan. generalize 0 as c0. induction ps as [|i ps IH]; intros c0 starts curr E; cbn [scan_starts] in E.
    - injection E as <- <-. cbn. lia.
    - destruct (side_eqb (SSome (c0 + 1)) lif0); [injection E as <- <-; cbn; lia|].
      destruct (scan_starts lif0 (c0 + 1) ps) as [r c] eqn:E'. injection E as <- <-. specialize (IH _ _ _ E'). cbn [length]. lia. }
  assert (After :
    of_rres_partial
      (if (curr =? 0) && o_only_delimited o then ROk []
       else match fast_out o d buffer (0%nat :: starts ++ (if side_eqb (SSome curr) lif0 then [] else [S (length buffer)])) (items (o_bounds o)) with
            | ROk body => ROk (body ++ [o_eol o])
            | e => e
            end)
      (match tag (@nil N, (@nil Z ++ [0]) ++ map Z.of_nat starts, buffer, curr) with
       | Next (stdout, fields, buffer1, curr_field) | Stop (stdout, fields, buffer1, curr_field) =>
           (if (curr_field =? 0) && o_only_delimited o then Ret (Some tt, stdout)
            else Ret (Some tt, stdout))
       | Break v => Ret (v, @nil N)
       end) -> True) by trivial. clear After.
  destruct Ht as [-> | ->]; cbv iota beta.
  all: rewrite ?(andb_comm (o_only_delimited o) (curr =? 0)).
  all: destruct ((curr =? 0) && o_only_delimited o); [cbn [of_rres_partial]; reflexivity|].
  all: set (fields_m := (0%nat :: starts ++ (if side_eqb (SSome curr) lif0 then [] else [S (length buffer)]))).
  all: assert (Hadd : usize_add (Z.of_nat (length buffer)) 1 = Ret (Z.of_nat (S (length buffer))))
         by (unfold usize_add, usize_chk, in_usize; unfold usize_max, i32_max in *;
             destruct (Z.leb_spec 0 (Z.of_nat (length buffer) + 1)); [|lia];
             destruct (Z.leb_spec (Z.of_nat (length buffer) + 1) 18446744073709551615); [|lia]; cbn [andb]; f_equal; lia).
  all: assert (Hfz : (if side_eqb (SSome curr) lif0 then (@nil Z ++ [0]) ++ map Z.of_nat starts
                      else ((@nil Z ++ [0]) ++ map Z.of_nat starts) ++ [Z.of_nat (S (length buffer))]) = map Z.of_nat fields_m)
         by (unfold fields_m; destruct (side_eqb (SSome curr) lif0); cbn [map app]; rewrite ?map_app, ?app_nil_r; cbn [map]; reflexivity).
  all: assert (Hfm_ne : fields_m <> []) by (unfold fields_m; discriminate).
  all: assert (Hfm_len : Z.of_nat (length fields_m) <= i32_max)
         by (unfold fields_m; cbn [length]; rewrite app_length; destruct (side_eqb (SSome curr) lif0); cbn [length]; unfold i32_max in *; lia).
  all: assert (Hout : forall (F : st4 -> bof -> rs (ctrl st4 st4)) (fz : list Z),
         fz = map Z.of_nat fields_m ->
         (forall out x, In x (items (o_bounds o)) ->
            F (out, fz, buffer, curr) x =
            match x with
            | Filler f => Ret (Next (out ++ f, fz, buffer, curr))
            | Bound b => match fast_piece (o_join o) (o_fallback o) d buffer fields_m b with
                         | ROk p => Ret (Next (out ++ p, fz, buffer, curr))
                         | RErr => Ret (Break (out, fz, buffer, curr))
                         | _ => Panic
                         end
            end) ->
         of_rres_partial
           (match fast_out o d buffer fields_m (items (o_bounds o)) with ROk body => ROk (body ++ [o_eol o]) | e => e end)
           (bind (loopM F (items (o_bounds o)) (@nil N, fz, buffer, curr))
              (fun r => match r with
                        | Next (stdout, _, _, _) | Stop (stdout, _, _, _) => Ret (Some tt, stdout ++ [o_eol o])
                        | Break (stdout, _, _, _) => Ret (None, stdout)
                        end)))
       by (intros F fz Efz HF; rewrite (out_loop F (o_join o) (o_fallback o) d buffer fields_m fz buffer curr _ HF);
           pose proof (fast_out_fwalk o d buffer fields_m (items (o_bounds o)) []) as HW;
           destruct (fast_out o d buffer fields_m (items (o_bounds o))) as [r| | |];
           [rewrite HW; cbn [bind fst snd app of_rres_partial]; reflexivity
           | destruct HW as (pp & HW); rewrite HW; cbn [bind fst snd of_rres_partial]; eexists; reflexivity
           | rewrite HW; reflexivity | rewrite HW; reflexivity]).
  all: unfold to_list, iter_ublist.
  all: destruct (side_eqb (SSome curr) lif0) eqn:Es; cbn [negb]; cbv iota; [|rewrite Hadd; cbn [bind]].
  all: match goal with |- context [loopM ?F _ _] => apply (Hout F) end; [exact Hfz|].
  all: intros out x Hx; rewrite Forall_forall in Hnz; specialize (Hnz x Hx); destruct x as [b|f]; cbv beta iota; [|reflexivity].
  all: rewrite ?Hfz.
  all: try rewrite (tie_fast_output_parts buffer b fields_m (mkGFO d (o_join o) (o_eol o) (o_bounds o) (o_only_delimited o) None (o_fallback o)) Hfm_ne Hfm_len Hnz)
         by (unfold usize_max, i32_max in *; lia).
  all: cbn [gf_join gf_fallback gf_delim].
  all: destruct (fast_piece (o_join o) (o_fallback o) d buffer fields_m b); cbn [of_rres bind]; rewrite ?app_nil_r; reflexivity.
Qed.
