(** [UserBoundsList::is_sortable], translated from the current source, is the model's [is_sortable]:
    not both a positive and a non-positive index among the sides of the bounds. *)
From Coq Require Import ZArith Bool List Lia.
From TucModel Require Import Base.Bytes Model.Bounds Tie.RsPrelude Tie.TieBase
  Tie.Gen_ubl_bounds_only Tie.Bridge_ubl_bounds_only Tie.Gen_ubl_is_sortable.
Import ListNotations.
Local Open Scope Z_scope.

Definition pos_of_b (b : ubound) : bool := side_pos (bl b) || side_pos (br b).
Definition neg_of_b (b : ubound) : bool := side_nonpos (bl b) || side_nonpos (br b).

Lemma foldM_flags (F : bool * bool -> ubound -> rs (bool * bool)) :
  (forall p n b, F (p, n) b = Ret (p || pos_of_b b, n || neg_of_b b)) ->
  forall l p n, foldM F l (p, n) = Ret (p || existsb pos_of_b l, n || existsb neg_of_b l).
Proof.
  intros H l. induction l as [|b l IH]; intros p n; cbn [foldM existsb].
  - rewrite !orb_false_r. reflexivity.
  - rewrite H. cbn [bind]. rewrite IH. rewrite !orb_assoc. reflexivity.
Qed.

(* the same walk written as a `for` loop *)
Lemma loopM_flags {R} (F : bool * bool -> ubound -> rs (ctrl (bool * bool) R)) :
  (forall p n b, F (p, n) b = Ret (Next (p || pos_of_b b, n || neg_of_b b))) ->
  forall l p n, loopM F l (p, n) = Ret (Next (p || existsb pos_of_b l, n || existsb neg_of_b l)).
Proof.
  intros H l. induction l as [|b l IH]; intros p n; cbn [loopM existsb].
  - rewrite !orb_false_r. reflexivity.
  - rewrite H. cbn [bind]. rewrite IH. rewrite !orb_assoc. reflexivity.
Qed.

Ltac flags_pointwise :=
  intros p n [[l|] [r|] la fb]; unfold pos_of_b, neg_of_b, side_pos, side_nonpos; cbn [bl br];
  case_bools; cbn [negb orb]; rewrite ?orb_true_r, ?orb_false_r; first [reflexivity | exfalso; lia].

Lemma tie_ubl_is_sortable : forall u : ublist, gen_ubl_is_sortable u = Ret (is_sortable (items u)).
Proof.
  intros u. cbv beta delta [gen_ubl_is_sortable] iota zeta. rewrite tie_ubl_bounds_only. cbn [bind].
  unfold to_list, iter_list.
  first [ match goal with |- context [foldM ?F _ _] => rewrite (foldM_flags F) by flags_pointwise end
        | match goal with |- context [loopM ?F _ _] => rewrite (loopM_flags F) by flags_pointwise end ].
  cbn [bind orb]. unfold is_sortable. first [reflexivity | rewrite andb_comm; reflexivity].
Qed.
