(** [&str] operations the two [from_str] functions use, over the UTF-8 bytes of the text (every
    character they look for is ASCII, so byte offsets are character boundaries).  Hand-written target
    library; [parse_i32] ([i32::from_str]: optional sign, digits, range) is the model's. *)
From Coq Require Import ZArith Bool List.
From TucModel Require Import Base.Bytes Model.Bounds Model.BoundsParse Tie.RsPrelude.
Import ListNotations.
Local Open Scope Z_scope.

(** [s.split_once(c)] *)
Definition str_split_once (c : byte) (s : bytes) : option (bytes * bytes) :=
  match split_once c s with
  | (a, Some b) => Some (a, b)
  | (_, None) => None
  end.

(** [s.find(c)]: byte offset of the first occurrence *)
Fixpoint str_find_from (c : byte) (s : bytes) (pos : Z) : option Z :=
  match s with
  | [] => None
  | x :: s' => if N.eqb x c then Some pos else str_find_from c s' (pos + 1)
  end.
Definition str_find (c : byte) (s : bytes) : option Z := str_find_from c s 0.

(** [&s[a..]], [&s[..b]], [&s[a..b]]: panic when out of range *)
Definition str_from (s : bytes) (a : Z) : rs bytes :=
  if (0 <=? a) && (a <=? Z.of_nat (length s)) then Ret (skipn (Z.to_nat a) s) else Panic.
Definition str_to (s : bytes) (b : Z) : rs bytes :=
  if (0 <=? b) && (b <=? Z.of_nat (length s)) then Ret (firstn (Z.to_nat b) s) else Panic.
Definition str_between (s : bytes) (a b : Z) : rs bytes :=
  if (0 <=? a) && (a <=? b) && (b <=? Z.of_nat (length s)) then Ret (firstn (Z.to_nat (b - a)) (skipn (Z.to_nat a) s)) else Panic.
