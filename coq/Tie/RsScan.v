(** [bstr::ByteSlice::find_iter(needle)] is not translated: the model's [find_iter] stands for it
    (hybrid; bstr is "modelled, not verified" in any case). Hand-written. *)
From Coq Require Import ZArith Bool List.
From TucModel Require Import Base.Bytes Model.Scan Tie.RsPrelude.

Definition find_iter_z (needle haystack : bytes) : list Z := map Z.of_nat (find_iter needle haystack).

(** [slice.ends_with(needle)] *)
Definition ends_with (d l : bytes) : bool := starts_with (rev d) (rev l).
