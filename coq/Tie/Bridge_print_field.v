(** src/stream.rs : print_field, as translated: the delimiter if asked for, then the bytes. *)
From Coq Require Import ZArith Bool List.
From TucModel Require Import Base.Bytes Model.Bounds Tie.RsPrelude Tie.TieBase Tie.Gen_print_field.
Import ListNotations.

Lemma tie_print_field : forall (buffer : bytes) (d : byte) (p : bool),
  gen_print_field buffer d p = Ret (Some tt, (if p then [d] else []) ++ buffer).
Proof. intros buffer d p. cbv beta delta [gen_print_field] iota zeta. destruct p; reflexivity. Qed.
