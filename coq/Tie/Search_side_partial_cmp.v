From Coq Require Import ZArith Bool List.
From TucModel Require Import Base.Bytes Model.Bounds Tie.RsPrelude Tie.TieBase Tie.Gen_side_partial_cmp.
Import ListNotations.
Local Open Scope Z_scope.
Definition sides := SCont :: map SSome grid_idx.
Definition cex :=
  flat_map (fun a => flat_map (fun b =>
    match gen_side_partial_cmp a b with
    | Ret c => if Bool.eqb (side_gt a b) (ord_gt c) && Bool.eqb (side_le a b) (ord_le c) then [] else [(a, b, Ret c, side_gt a b, side_le a b)]
    | Panic => [(a, b, Panic, side_gt a b, side_le a b)]
    end) sides) sides.
Eval vm_compute in (length cex, firstn 3 cex).
