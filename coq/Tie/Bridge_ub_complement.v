(** [UserBounds::complement], translated from the current source, is the model's [complement_bound]
    on fewer than 2^31 parts: [None] when the bound does not resolve, otherwise the ranges of
    [complement_std_range] turned back into bounds (without fallback, not last). *)
From Coq Require Import ZArith Bool List Lia.
From TucModel Require Import Base.Bytes Model.Bounds Tie.RsPrelude Tie.TieBase
  Tie.Gen_ub_new Tie.Gen_ub_from_range Tie.Bridge_ub_from_range
  Tie.Gen_ub_try_into_range Tie.Bridge_ub_try_into_range
  Tie.Gen_complement_std_range Tie.Bridge_complement_std_range Tie.Gen_ub_complement.
Import ListNotations.
Local Open Scope Z_scope.

Lemma mapM_of_ranges (F : Z * Z -> rs ubound) :
  (forall s e : nat, Z.of_nat s < i32_max -> Z.of_nat e <= i32_max -> F (Z.of_nat s, Z.of_nat e) = Ret (of_range s e)) ->
  forall l : list (nat * nat),
    Forall (fun p => Z.of_nat (fst p) < i32_max /\ Z.of_nat (snd p) <= i32_max) l ->
    mapM F (pairs_Z l) = Ret (map (fun r => of_range (fst r) (snd r)) l).
Proof.
  intros HF l. induction l as [|[a b] l IH]; intros H; [reflexivity|].
  inversion H as [|? ? [Ha Hb] Hl]; subst. cbn [pairs_Z map mapM fst snd] in *.
  rewrite HF by assumption. cbn [bind]. unfold pairs_Z in IH. rewrite IH by assumption. reflexivity.
Qed.

Lemma complement_std_range_small n s e : (s < e <= n)%nat -> Z.of_nat n <= i32_max ->
  Forall (fun p => Z.of_nat (fst p) < i32_max /\ Z.of_nat (snd p) <= i32_max) (complement_std_range n s e).
Proof.
  intros H Hn. unfold complement_std_range.
  destruct s as [|s]; destruct (Nat.eqb_spec e n); repeat constructor; cbn [fst snd]; unfold i32_max in *; lia.
Qed.

Lemma tie_ub_complement : forall (b : ubound) (n : nat),
  Z.of_nat n <= i32_max -> bl b <> SSome 0 ->
  gen_ub_complement b (Z.of_nat n) = Ret (complement_bound b n).
Proof.
  intros b n Hn Hz. cbv beta delta [gen_ub_complement] iota zeta.
  rewrite (tie_ub_try_into_range b n Hn Hz). cbn [bind]. unfold complement_bound.
  destruct (try_into_range b n) as [[s e]|] eqn:E; cbn [range_Z]; [|reflexivity].
  assert (Hse : (s < e <= n)%nat).
  { unfold try_into_range in E.
    destruct (resolve_left (bl b) (Z.of_nat n)) as [s0|] eqn:EL; [|discriminate].
    destruct (resolve_right (br b) (Z.of_nat n)) as [e0|] eqn:ER; [|discriminate].
    destruct (Z.leb_spec e0 s0); [discriminate|]. injection E as <- <-.
    unfold resolve_left in EL. unfold resolve_right in ER.
    destruct (bl b) as [x|]; destruct (br b) as [y|];
      repeat match goal with
             | H : (if ?c then None else _) = Some _ |- _ => destruct c eqn:?; [discriminate|]; injection H as <-
             | H : Some _ = Some _ |- _ => injection H as <-
             end;
      repeat match goal with H : orb _ _ = false |- _ => apply orb_false_iff in H; destruct H end;
      repeat match goal with H : (_ <? _) = false |- _ => apply Z.ltb_ge in H end;
      case_bools; try (cbn [bl] in Hz; assert (x <> 0) by (intros ->; apply Hz; reflexivity)); lia. }
  rewrite tie_complement_std_range. cbn [bind]. unfold to_list, iter_list.
  match goal with |- context [mapM ?F _] => rewrite (mapM_of_ranges F) end.
  - reflexivity.
  - intros s' e' Hs' He'. rewrite (tie_ub_from_range s' e' Hs' He'). reflexivity.
  - apply complement_std_range_small; assumption.
Qed.
