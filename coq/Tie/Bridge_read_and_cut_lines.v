(** src/cut_lines.rs : read_and_cut_lines, as translated, calling the translated readers: the choice between
    the forward reader and the buffered one is the model's [can_be_streamed] - no -m, no -p, bounds that only
    move forward, no closed range with a fallback - and the chosen reader's result and output are passed on
    unchanged. *)
From Coq Require Import ZArith Bool List Lia.
From TucModel Require Import Base.Bytes Model.Bounds Model.Scan Model.Regex Model.Opt Model.CutBytes Model.CutStr Model.CutLines
  Tie.RsPrelude Tie.TieBase Tie.RsList Tie.RsLines
  Tie.Gen_ubl_is_forward_only Tie.Bridge_ubl_is_forward_only Tie.Bridge_ubl_has_negative_indices
  Tie.Gen_lines_forward Tie.Gen_cut_lines Tie.Gen_read_and_cut_lines.
Import ListNotations.

Lemma pass_on (x : rs (option unit * bytes)) :
  bind x (fun '(r, w) => match r with Some _ => Ret (Some tt, [] ++ w) | None => Ret (None, [] ++ w) end) = x.
Proof. destruct x as [[[[]|] w]|]; reflexivity. Qed.

(** the same when the callee's result is returned as it is (no `?` followed by `Ok(())`) *)
Lemma pass_on' (x : rs (option unit * bytes)) : bind x (fun '(r, w) => Ret (r, [] ++ w)) = x.
Proof. destruct x as [[r w]|]; reflexivity. Qed.

Ltac pass := first [apply pass_on | apply pass_on'].

Theorem tie_read_and_cut_lines : forall (stdin : bytes) (o : opt),
  gen_read_and_cut_lines stdin o
  = if can_be_streamed o then gen_lines_forward stdin o else gen_cut_lines stdin o.
Proof.
  intros stdin o. cbv beta delta [gen_read_and_cut_lines] iota zeta.
  unfold can_be_streamed, has_range_with_fallback.
  unfold to_list, iter_ublist.
  match goal with |- context [anyM ?F _] =>
    rewrite (anyM_spec F (fun x => match x with
                                   | Bound b => negb (side_eqb (bl b) (br b)) && negb (side_eqb (br b) SCont)
                                                && match fallback_for b (o_fallback o) with Some _ => true | None => false end
                                   | Filler _ => false
                                   end)) end.
  2:{ intros [b|f]; [|reflexivity]. unfold fallback_for.
      destruct (bfb b), (o_fallback o), (side_eqb (bl b) (br b)), (side_eqb (br b) SCont); reflexivity. }
  cbn [bind]. set (h := existsb _ (items (o_bounds o))).
  (* every flag decided, whichever order the source tests them in *)
  destruct (o_complement o), (o_compress o), h; cbn [negb andb bind];
    rewrite ?tie_ubl_is_forward_only; cbn [bind];
    try (destruct (is_forward_only (items (o_bounds o)))); cbn [negb andb]; pass.
Qed.
