(** [UserBounds::matches], translated from the current source, is the model's [matches]. *)
From Coq Require Import ZArith Bool List Lia.
From TucModel Require Import Base.Bytes Model.Bounds Tie.RsPrelude Tie.TieBase Tie.Gen_ub_matches.
Local Open Scope Z_scope.

Lemma tie_ub_matches : forall (b : ubound) (idx : Z), gen_ub_matches b idx = Ret (matches b idx).
Proof.
  intros [[l|] [r|] la fb] idx; cbv beta delta [gen_ub_matches] iota zeta;
    unfold matches, opposite_sign; cbn [bl br]; case_bools; cbn; first [reflexivity | exfalso; lia].
Qed.
