(** src/cut_lines.rs : cut_lines (the whole-input algorithm of -l), as translated: everything that is left
    of the input is read, it must be valid UTF-8, one trailing EOL goes, and the rest is cut as one record
    by the translated [cut_str] with fresh scratch buffers - the model's [cut_lines_buffered], whatever the
    translated [cut_str] is known to do on that record. *)
From Coq Require Import ZArith Bool List Lia.
From TucModel Require Import Base.Bytes Model.Bounds Model.Scan Model.Utf8 Model.Regex Model.Opt Model.CutStr Model.CutLines
  Tie.RsPrelude Tie.TieBase Tie.RsOpt Tie.RsStr Tie.RsList Tie.RsRegex Tie.RsCut Tie.RsLines
  Tie.Gen_cut_str Tie.Bridge_cut_str Tie.Gen_cut_lines.
Import ListNotations.

Definition of_outcome_cut (m : option outcome) (x : rs (option unit * bytes)) : Prop :=
  match m with
  | Some (Done out) => x = Ret (Some tt, out)
  | Some (Fail _) => exists partial, x = Ret (None, partial)
  | Some Bytes.Panic => x = RsPrelude.Panic
  | _ => True
  end.

Lemma strip_suffix_is_strip_one (eol : byte) (l : bytes) :
  (match strip_suffix_byte eol l with Some v => v | None => l end) = strip_one_suffix eol l.
Proof. unfold strip_suffix_byte, strip_one_suffix. destruct (rev l) as [|x r]; [reflexivity|]. destruct (N.eqb x eol); reflexivity. Qed.

Theorem tie_cut_lines : forall (stdin : bytes) (o : opt),
  of_rres_cut (cut_str o (strip_one_suffix (o_eol o) stdin)) (gen_cut_str (strip_one_suffix (o_eol o) stdin) o [] [] [o_eol o]) ->
  of_outcome_cut (cut_lines_buffered o stdin) (gen_cut_lines stdin o).
Proof.
  intros stdin o H. cbv beta delta [gen_cut_lines] iota zeta. unfold cut_lines_buffered, from_utf8. cbn [app].
  destruct (utf8_valid stdin); cbn [negb]; [|eexists; reflexivity].
  rewrite strip_suffix_is_strip_one.
  destruct (cut_str o (strip_one_suffix (o_eol o) stdin)) as [[out| | |]|]; cbn [of_rres_cut of_outcome_cut] in *.
  - rewrite H. reflexivity.
  - destruct H as [p H]. rewrite H. eexists. reflexivity.
  - rewrite H. reflexivity.
  - exact I.
  - exact I.
Qed.
