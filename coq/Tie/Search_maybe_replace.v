(** When the bridge of [maybe_replace_delimiter] no longer checks: a grid of texts and option sets. *)
From Coq Require Import ZArith Bool List.
From TucModel Require Import Base.Bytes Model.Bounds Model.Scan Model.Regex Model.Opt Model.CutStr
  Tie.RsPrelude Tie.TieBase Tie.RsRegex Tie.Gen_maybe_replace.
Import ListNotations.
Definition dash : byte := 45%N.
Definition ca : byte := 97%N.
Definition texts : list bytes := [[]; [ca]; [dash]; [ca; dash; ca]; [dash; dash]; [ca; dash; dash; ca; dash]].
Definition bools := [false; true].
Definition opts : list opt :=
  flat_map (fun bt => flat_map (fun p => flat_map (fun r => flat_map (fun x =>
    [mkOpt [dash] 10%N (mkL [] SCont) bt false false p r None false false false false None x])
    [None; Some (RxRe (RByte dash)); Some (RxRe (RAlt (RByte dash) (RByte 43%N)))]) [None; Some [43%N]; Some [dash; dash]]) bools) [BFields; BChars; BLines].
Definition cex :=
  flat_map (fun o => flat_map (fun t =>
    let g := gen_maybe_replace t o in
    match maybe_replace o t with
    | Some m => if eq_rs (eq_list N.eqb) g (Ret m) then [] else [(t, o_btype o, o_compress o, o_replace o, g, Some m)]
    | None => []
    end) texts) opts.
Eval vm_compute in (length cex, firstn 3 cex).
