(** [UserBoundsList::is_sorted], translated from the current source, is the model's [is_sorted]: every
    bound starts no earlier than the previous one ends ([prev <= b] through [partial_cmp], an open
    left side standing for the first part). *)
From Coq Require Import ZArith Bool List Lia.
From TucModel Require Import Base.Bytes Model.Bounds Tie.RsPrelude Tie.TieBase
  Tie.Gen_side_partial_cmp Tie.Gen_ub_partial_cmp Tie.Bridge_ub_partial_cmp
  Tie.Gen_ubl_bounds_only Tie.Bridge_ubl_bounds_only Tie.Gen_ubl_is_sorted.
Import ListNotations.
Local Open Scope Z_scope.

Lemma opt_le_some a b : opt_le_with gen_ub_partial_cmp (Some a) (Some b) = Ret (bound_le a b).
Proof.
  unfold opt_le_with. destruct (tie_ub_partial_cmp a b) as (c & E & H). rewrite E. cbn [bind]. rewrite H.
  destruct c as [[| |]|]; reflexivity.
Qed.

Fixpoint last_b (p : ubound) (bs : list ubound) : ubound := match bs with [] => p | b :: bs' => last_b b bs' end.

Lemma loopM_sorted (F : option ubound -> ubound -> rs (ctrl (option ubound) bool)) :
  (forall p b, F (Some p) b = Ret (if bound_le p b then Next (Some b) else Break false)) ->
  forall bs p, loopM F bs (Some p) = Ret (if is_sorted_from p bs then Next (Some (last_b p bs)) else Break false).
Proof.
  intros HS bs. induction bs as [|b bs IH]; intros p; cbn [loopM is_sorted_from last_b]; [reflexivity|].
  rewrite HS. destruct (bound_le p b); cbn [bind]; [apply IH | reflexivity].
Qed.

Lemma loopM_sorted_all (F : option ubound -> ubound -> rs (ctrl (option ubound) bool)) :
  (forall b, F None b = Ret (Next (Some b))) ->
  (forall p b, F (Some p) b = Ret (if bound_le p b then Next (Some b) else Break false)) ->
  forall bs, loopM F bs None =
             Ret (match bs with
                  | [] => Next None
                  | b :: bs' => if is_sorted_from b bs' then Next (Some (last_b b bs')) else Break false
                  end).
Proof.
  intros HN HS [|b bs]; [reflexivity|]. cbn [loopM]. rewrite HN. cbn [bind]. apply loopM_sorted. exact HS.
Qed.

Lemma tie_ubl_is_sorted : forall u : ublist, gen_ubl_is_sorted u = Ret (is_sorted (items u)).
Proof.
  intros u. cbv beta delta [gen_ubl_is_sorted] iota zeta. rewrite tie_ubl_bounds_only. cbn [bind].
  unfold to_list, iter_list, is_sorted.
  match goal with |- context [loopM ?F _ _] => rewrite (loopM_sorted_all F) end.
  - cbn [bind]. destruct (bounds_only (items u)) as [|b bs]; [reflexivity|]. destruct (is_sorted_from b bs); reflexivity.
  - intros b. reflexivity.
  - intros p b. cbn beta iota. rewrite opt_le_some. cbn [bind]. destruct (bound_le p b); reflexivity.
Qed.
