(** [UserBoundsList::is_forward_only], translated from the current source, is the model's: sortable,
    sorted, no negative index - evaluated left to right, none of the three ever panicking. *)
From Coq Require Import ZArith Bool List Lia.
From TucModel Require Import Base.Bytes Model.Bounds Tie.RsPrelude Tie.TieBase
  Tie.Gen_ubl_bounds_only Tie.Gen_ubl_is_sortable Tie.Bridge_ubl_is_sortable
  Tie.Gen_side_partial_cmp Tie.Gen_ub_partial_cmp Tie.Gen_ubl_is_sorted Tie.Bridge_ubl_is_sorted
  Tie.Gen_ubl_has_negative_indices Tie.Bridge_ubl_has_negative_indices Tie.Gen_ubl_is_forward_only.
Local Open Scope Z_scope.

Lemma tie_ubl_is_forward_only : forall u : ublist,
  gen_ubl_is_forward_only u = Ret (is_forward_only (items u)).
Proof.
  intros u. cbv beta delta [gen_ubl_is_forward_only] iota zeta.
  rewrite tie_ubl_is_sortable. cbn [bind]. unfold is_forward_only.
  destruct (is_sortable (items u)); cbn [andb]; [|reflexivity].
  rewrite tie_ubl_is_sorted. cbn [bind].
  destruct (is_sorted (items u)); cbn [andb]; [|reflexivity].
  rewrite tie_ubl_has_negative_indices. reflexivity.
Qed.
