(** What [cut_str] (src/cut_str.rs) calls and the translator does not translate (hybrids):
    - [fill_with_fields_locations_greedy] (a `while let` over suffix searches): the model's greedy splitter,
      [merge_adjacent] over the literal matches;
    - serde_json + [std::str::from_utf8] inside the macro [write_maybe_as_json!]: the model's [json_string],
      refused for text that is not valid UTF-8;
    - [Vec::drain(..1)].
    Hand-written. *)
From Coq Require Import ZArith Bool List.
From TucModel Require Import Base.Bytes Model.Bounds Model.Scan Model.Utf8 Model.Json Model.Regex Model.Opt Model.CutStr
  Tie.RsPrelude Tie.RsRegex.
Import ListNotations.

Definition model_fill_greedy (buffer : list (Z * Z)) (line d : bytes) : rs (unit * list (Z * Z)) :=
  Ret (tt, map mzz (fields_of_matches (merge_adjacent (lit_matches d line)) line)).

Definition json_text (t : bytes) : option bytes := if utf8_valid t then Some (json_string t) else None.

Definition vec_drain1 {A} (l : list A) : rs (list A) := match l with [] => Panic | _ :: t => Ret t end.
