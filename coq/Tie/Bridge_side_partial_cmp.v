(** The translation of [Side::partial_cmp] (generated from the current source) against the two
    derived operators of the model ([side_gt], [side_le]): it never panics and decides them. *)
From Coq Require Import ZArith Bool List Lia.
From TucModel Require Import Base.Bytes Model.Bounds Tie.RsPrelude Tie.TieBase Tie.Gen_side_partial_cmp.
Local Open Scope Z_scope.


Lemma tie_side_partial_cmp : forall a b : side,
  exists c, gen_side_partial_cmp a b = Ret c /\ side_gt a b = ord_gt c /\ side_le a b = ord_le c.
Proof.
  intros [x|] [y|]; cbv beta delta [gen_side_partial_cmp i32_cmp] iota zeta;
    unfold side_gt, side_le, same_sign; case_bools; cbn;
    eexists; (split; [reflexivity|]); cbn; split; first [reflexivity | lia].
Qed.
