(** Target-side records for the two eligibility conversions ([TryFrom<&Opt>] for [FastOpt] and
    [StreamOpt]) and the one function they call that is *not* translated: [ForwardBounds::try_from] is
    represented by the model's [forward_bounds_ok] (hybrid; the wrapper [ForwardBounds] is abstracted to
    the bounds list it holds). Hand-written. *)
From Coq Require Import ZArith Bool List.
From TucModel Require Import Base.Bytes Model.Bounds Model.Scan Model.Regex Model.Opt Model.Stream Model.FastLane Tie.RsPrelude.
Import ListNotations.

Record gfopt := mkGFO { gf_delim : byte; gf_join : bool; gf_eol : byte; gf_bounds : ublist;
                        gf_only_delimited : bool; gf_trim : option trimk; gf_fallback : option bytes }.
Record gsopt := mkGSO { gs_delim : byte; gs_repl : option byte; gs_join : bool; gs_eol : byte;
                        gs_bounds : ublist; gs_fallback : option bytes }.

Definition opt_unwrap {A} (o : option A) : rs A := match o with Some x => Ret x | None => Panic end.
Definition opt_mapM {A B} (f : A -> rs B) (o : option A) : rs (option B) :=
  match o with Some x => bind (f x) (fun y => Ret (Some y)) | None => Ret None end.

Definition model_forward_try_from (u : ublist) : rs (option ublist) :=
  Ret (if forward_bounds_ok (items u) then Some u else None).

(** [memchr::memchr_iter(d, buf)]: the offsets of the byte [d] (the model's [positions_from]);
    [trim(buf, kind, d)] of src/cut_str.rs is not translated: the model's [trim_lit] stands for it (hybrid). *)
Definition memchr_iter (d : byte) (buf : bytes) : list Z := map Z.of_nat (positions_from d 0 buf).
Definition model_trim (buf : bytes) (k : trimk) (d : byte) : rs bytes := Ret (trim_lit k [d] buf).

(** src/stream.rs: struct ForwardBounds { list, last_bound_idx } *)
Record gfb := mkFB { fb_list : ublist; fb_last : Z }.
