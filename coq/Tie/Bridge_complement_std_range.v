(** [complement_std_range], translated from the current source, is the model's. *)
From Coq Require Import ZArith Bool List Lia.
From TucModel Require Import Base.Bytes Model.Bounds Tie.RsPrelude Tie.TieBase Tie.Gen_complement_std_range.
Import ListNotations.
Local Open Scope Z_scope.

Lemma tie_complement_std_range : forall n s e : nat,
  gen_complement_std_range (Z.of_nat n) (Z.of_nat s, Z.of_nat e) = Ret (pairs_Z (complement_std_range n s e)).
Proof.
  intros n s e. cbv beta delta [gen_complement_std_range] iota zeta. cbn [fst snd].
  unfold complement_std_range, pairs_Z.
  remember (Z.of_nat s) as zs eqn:Es. remember (Z.of_nat e) as ze eqn:Ee. remember (Z.of_nat n) as zn eqn:En.
  destruct zs as [|p|p]; [assert (s = 0%nat) by lia; subst s | destruct s as [|s]; [lia|] | lia];
    case_bools; cbn [negb app map fst snd]; subst; try (exfalso; lia); rs_finish.
Qed.
