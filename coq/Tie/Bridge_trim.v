(** [trim] (src/cut_str.rs, the literal-delimiter trimmer), translated from the current source, is the
    model's [trim_lit]: the two [while] loops end within the fuel (the length of the text plus one), none
    of the slicings or index updates can panic, and what is returned is the text without the whole copies
    of the delimiter at the chosen end(s). *)
From Coq Require Import ZArith Bool List Lia.
From TucModel Require Import Base.Bytes Base.ListX Model.Scan Proofs.ScanSplit Tie.RsPrelude Tie.TieBase Tie.RsStr Tie.RsScan Tie.Gen_trim.
Import ListNotations.
Local Open Scope Z_scope.

Lemma skipn_skipn' {A} (a : nat) : forall (b : nat) (l : list A), skipn a (skipn b l) = skipn (b + a) l.
Proof. induction b as [|b IH]; intros l; [reflexivity|]. destruct l; [rewrite !skipn_nil; reflexivity | apply IH]. Qed.

Section Left.
  Variables (buf d : bytes).

  Fixpoint left_idx (n i : nat) : nat :=
    match n with
    | O => i
    | S f => if starts_with d (skipn i buf) then left_idx f (i + length d) else i
    end.

  Lemma left_idx_spec : forall n i, skipn (left_idx n i) buf = trim_left_fuel n d (skipn i buf).
  Proof.
    induction n as [|n IH]; intros i; cbn [left_idx trim_left_fuel]; [reflexivity|].
    unfold starts_with. destruct (strip_prefix d (skipn i buf)) as [r|] eqn:E; [|reflexivity].
    rewrite IH. f_equal. apply strip_prefix_some in E.
    rewrite <- skipn_skipn', E. apply skipn_app_length.
  Qed.

  Lemma left_idx_le : d <> [] -> forall n i, (i <= length buf)%nat -> (i <= left_idx n i <= length buf)%nat.
  Proof.
    intros Hd. induction n as [|n IH]; intros i Hi; cbn [left_idx]; [lia|].
    destruct (starts_with d (skipn i buf)) eqn:E; [|lia].
    apply starts_with_length in E. rewrite skipn_length in E.
    specialize (IH (i + length d)%nat). lia.
  Qed.

  Lemma left_loop {St R} (emb : nat -> St) (cond : St -> rs bool) (body : St -> rs (ctrl St R)) :
    d <> [] ->
    (forall i, (i <= length buf)%nat -> cond (emb i) = Ret (starts_with d (skipn i buf))) ->
    (forall i, (i <= length buf)%nat -> body (emb i) = Ret (Next (emb (i + length d)%nat))) ->
    forall n i, (i <= length buf)%nat -> (length buf - i <= n)%nat ->
      whileM (S n) cond body (emb i) = Ret (Next (emb (left_idx n i))).
  Proof.
    intros Hd Hc Hb. induction n as [|n IH]; intros i Hi Hn; cbn [whileM left_idx].
    - rewrite Hc by exact Hi. assert (i = length buf) by lia. subst i. rewrite skipn_all.
      assert (E : starts_with d [] = false) by (destruct d; [contradiction | reflexivity]). rewrite E. reflexivity.
    - rewrite Hc by exact Hi. destruct (starts_with d (skipn i buf)) eqn:E; cbn [bind]; [|reflexivity].
      rewrite Hb by exact Hi. cbn [bind].
      pose proof (starts_with_length _ _ E) as HL. rewrite skipn_length in HL.
      assert (Hld : (1 <= length d)%nat) by (destruct d; [contradiction | cbn; lia]).
      apply IH; lia.
  Qed.
End Left.

Section Right.
  Variables (buf d : bytes) (i0 : nat).

  Fixpoint right_idx (n r : nat) : nat :=
    match n with
    | O => r
    | S f => if ends_with d (slice buf i0 r) then right_idx f (r - length d) else r
    end.

  Lemma slice_length (a b : nat) : (a <= b <= length buf)%nat -> length (slice buf a b) = (b - a)%nat.
  Proof. intros H. unfold slice. rewrite firstn_length, skipn_length. lia. Qed.

  Lemma right_idx_spec : forall n r, (i0 <= r <= length buf)%nat ->
    (i0 <= right_idx n r <= r)%nat
    /\ slice buf i0 (right_idx n r) = rev (trim_left_fuel n (rev d) (rev (slice buf i0 r))).
  Proof.
    induction n as [|n IH]; intros r Hr; cbn [right_idx trim_left_fuel]; [rewrite rev_involutive; split; [lia | reflexivity]|].
    unfold ends_with, starts_with. destruct (strip_prefix (rev d) (rev (slice buf i0 r))) as [q|] eqn:E.
    2:{ rewrite rev_involutive. split; [lia | reflexivity]. }
    apply strip_prefix_some in E.
    assert (Esl : slice buf i0 r = rev q ++ d).
    { rewrite <- (rev_involutive (slice buf i0 r)), E, rev_app_distr, rev_involutive. reflexivity. }
    assert (Hlen : (r - i0 = length q + length d)%nat).
    { rewrite <- (slice_length i0 r Hr), Esl, app_length, rev_length. reflexivity. }
    assert (Eshort : slice buf i0 (r - length d) = rev q).
    { unfold slice in *. replace (r - length d - i0)%nat with (length (rev q)) by (rewrite rev_length; lia).
      assert (Hfa : firstn (length (rev q)) (rev q ++ d) = rev q)
        by (rewrite firstn_app, Nat.sub_diag, firstn_all; cbn [firstn]; apply app_nil_r).
      rewrite <- Hfa at 2. rewrite <- Esl.
      rewrite firstn_firstn. f_equal. rewrite rev_length. lia. }
    destruct (IH (r - length d)%nat) as [Hb Hs]; [lia|]. split; [lia|].
    rewrite Hs, Eshort, rev_involutive. reflexivity.
  Qed.

  Lemma right_loop {St R} (emb : nat -> St) (cond : St -> rs bool) (body : St -> rs (ctrl St R)) :
    d <> [] ->
    (forall r, (i0 <= r <= length buf)%nat -> cond (emb r) = Ret (ends_with d (slice buf i0 r))) ->
    (forall r, (length d <= r <= length buf)%nat -> body (emb r) = Ret (Next (emb (r - length d)%nat))) ->
    forall n r, (i0 <= r <= length buf)%nat -> (r - i0 <= n)%nat ->
      whileM (S n) cond body (emb r) = Ret (Next (emb (right_idx n r))).
  Proof.
    intros Hd Hc Hb. induction n as [|n IH]; intros r Hr Hn; cbn [whileM right_idx].
    - rewrite Hc by exact Hr. assert (r = i0) by lia. subst r. rewrite slice_empty.
      assert (E : ends_with d [] = false).
      { unfold ends_with. cbn [rev]. destruct (rev d) eqn:Er; [|reflexivity]. exfalso. apply Hd. rewrite <- (rev_involutive d), Er. reflexivity. }
      rewrite E. reflexivity.
    - rewrite Hc by exact Hr. destruct (ends_with d (slice buf i0 r)) eqn:E; cbn [bind]; [|reflexivity].
      unfold ends_with in E. pose proof (starts_with_length _ _ E) as HL. rewrite !rev_length, (slice_length i0 r Hr) in HL.
      assert (Hld : (1 <= length d)%nat) by (destruct d; [contradiction | cbn; lia]).
      rewrite Hb by lia. cbn [bind]. apply IH; lia.
  Qed.
End Right.

Lemma tlf_stable d : d <> [] -> forall n m l, (length l <= n)%nat -> (length l <= m)%nat ->
  trim_left_fuel n d l = trim_left_fuel m d l.
Proof.
  intros Hd. induction n as [|n IH]; intros m l Hn Hm.
  - destruct l; [|cbn in Hn; lia]. destruct m; cbn [trim_left_fuel]; [reflexivity|].
    destruct d; [contradiction | reflexivity].
  - destruct m as [|m].
    + destruct l; [|cbn in Hm; lia]. cbn [trim_left_fuel]. destruct d; [contradiction | reflexivity].
    + cbn [trim_left_fuel]. destruct (strip_prefix d l) as [r|] eqn:E; [|reflexivity].
      pose proof (strip_prefix_some _ _ _ E) as El. subst l. rewrite app_length in Hn, Hm.
      assert (1 <= length d)%nat by (destruct d; [contradiction | cbn; lia]). apply IH; lia.
Qed.

Lemma rev_nonempty (d : bytes) : d <> [] -> rev d <> [].
Proof. intros H E. apply H. rewrite <- (rev_involutive d), E. reflexivity. Qed.

Lemma tie_trim : forall (buffer : bytes) (k : trimk) (d : bytes),
  Z.of_nat (length buffer) + Z.of_nat (length d) <= usize_max ->
  gen_trim buffer k d = Ret (trim_lit k d buffer).
Proof.
  intros buffer k d Hmax. cbv beta delta [gen_trim] iota zeta.
  destruct d as [|c0 d'] eqn:Ed.
  { cbv iota beta. destruct k; unfold trim_lit, trim_right, trim_left; cbn [rev]; rewrite ?rev_involutive; reflexivity. }
  rewrite <- Ed in *. assert (Hd : d <> []) by (rewrite Ed; discriminate).
  replace (match d with [] => true | _ => false end) with false by (rewrite Ed; reflexivity). cbv iota beta.
  assert (Hadd : forall i : nat, (i <= length buffer)%nat -> usize_add (Z.of_nat i) (Z.of_nat (length d)) = Ret (Z.of_nat (i + length d))).
  { intros i Hi. unfold usize_add, usize_chk, in_usize.
    destruct (Z.leb_spec 0 (Z.of_nat i + Z.of_nat (length d))); [|lia].
    destruct (Z.leb_spec (Z.of_nat i + Z.of_nat (length d)) usize_max); [|lia]. cbn [andb]. f_equal. lia. }
  assert (Hsubz : forall r : nat, (length d <= r)%nat -> (r <= length buffer)%nat -> usize_sub (Z.of_nat r) (Z.of_nat (length d)) = Ret (Z.of_nat (r - length d))).
  { intros r Hr Hr'. unfold usize_sub, usize_chk, in_usize.
    destruct (Z.leb_spec 0 (Z.of_nat r - Z.of_nat (length d))); [|lia].
    destruct (Z.leb_spec (Z.of_nat r - Z.of_nat (length d)) usize_max); [|lia]. cbn [andb]. f_equal. lia. }
  assert (Hfrom : forall i : nat, (i <= length buffer)%nat -> str_from buffer (Z.of_nat i) = Ret (skipn i buffer)).
  { intros i Hi. unfold str_from. destruct (Z.leb_spec 0 (Z.of_nat i)); [|lia].
    destruct (Z.leb_spec (Z.of_nat i) (Z.of_nat (length buffer))); [|lia]. cbn [andb]. rewrite Nat2Z.id. reflexivity. }
  assert (Hto : forall r : nat, (r <= length buffer)%nat -> str_to buffer (Z.of_nat r) = Ret (slice buffer 0 r)).
  { intros r Hr. unfold str_to, slice. destruct (Z.leb_spec 0 (Z.of_nat r)); [|lia].
    destruct (Z.leb_spec (Z.of_nat r) (Z.of_nat (length buffer))); [|lia]. cbn [andb skipn]. rewrite Nat2Z.id, Nat.sub_0_r. reflexivity. }
  assert (Hbetween : forall i r : nat, (i <= r <= length buffer)%nat -> str_between buffer (Z.of_nat i) (Z.of_nat r) = Ret (slice buffer i r)).
  { intros i r Hr. unfold str_between, slice. destruct (Z.leb_spec 0 (Z.of_nat i)); [|lia].
    destruct (Z.leb_spec (Z.of_nat i) (Z.of_nat r)); [|lia].
    destruct (Z.leb_spec (Z.of_nat r) (Z.of_nat (length buffer))); [|lia]. cbn [andb].
    replace (Z.to_nat (Z.of_nat r - Z.of_nat i)) with (r - i)%nat by lia. rewrite Nat2Z.id. reflexivity. }
  assert (Hleft : skipn (left_idx buffer d (length buffer) 0) buffer = trim_left d buffer).
  { rewrite left_idx_spec. unfold trim_left. cbn [skipn]. clear -Hd. destruct d; [contradiction | reflexivity]. }
  pose proof (left_idx_le buffer d Hd (length buffer) 0 ltac:(lia)) as Hli.
  destruct k; cbv iota beta; unfold trim_lit.
  - (* Left *)
    change 0 with (Z.of_nat 0).
    rewrite (left_loop buffer d Z.of_nat) with (n := length buffer) (i := 0%nat); try lia; try exact Hd.
    + cbn [bind]. rewrite Hfrom by lia. cbn [bind]. rewrite Hleft. reflexivity.
    + intros i Hi. cbv beta. rewrite Hfrom by exact Hi. reflexivity.
    + intros i Hi. cbv beta. rewrite Hadd by exact Hi. reflexivity.
  - (* Right *)
    rewrite (right_loop buffer d 0 Z.of_nat) with (n := length buffer) (r := length buffer); try lia; try exact Hd.
    + cbn [bind]. destruct (right_idx_spec buffer d 0 (length buffer) (length buffer) ltac:(lia)) as [Hb Hs].
      rewrite Hto by lia. cbn [bind]. rewrite Hs. unfold trim_right, trim_left.
      rewrite slice_full. destruct (rev d) eqn:Er; [exfalso; exact (rev_nonempty d Hd Er)|]. rewrite <- Er, rev_length. reflexivity.
    + intros r Hr. cbv beta. rewrite Hto by lia. reflexivity.
    + intros r Hr. cbv beta. rewrite Hsubz by lia. reflexivity.
  - (* Both *)
    set (j := left_idx buffer d (length buffer) 0) in *.
    change 0 with (Z.of_nat 0).
    rewrite (left_loop buffer d (fun i => (Z.of_nat i, Z.of_nat (length buffer)))) with (n := length buffer) (i := 0%nat); try lia; try exact Hd.
    + cbn [bind]. fold j.
      rewrite (right_loop buffer d j (fun r => (Z.of_nat j, Z.of_nat r))) with (n := length buffer) (r := length buffer); try lia; try exact Hd.
      * cbn [bind]. destruct (right_idx_spec buffer d j (length buffer) (length buffer) ltac:(lia)) as [Hb Hs].
        rewrite Hbetween by lia. cbn [bind]. rewrite Hs.
        assert (Esl : slice buffer j (length buffer) = trim_left d buffer).
        { unfold slice. rewrite <- Hleft. fold j. rewrite firstn_all2; [reflexivity | rewrite skipn_length; lia]. }
        rewrite Esl. unfold trim_right. f_equal. f_equal. unfold trim_left at 2.
        destruct (rev d) eqn:Er; [exfalso; exact (rev_nonempty d Hd Er)|]. rewrite <- Er.
        apply tlf_stable; [apply rev_nonempty; exact Hd | | lia].
        rewrite rev_length, <- Esl, slice_length; lia.
      * intros r Hr. cbv beta iota. rewrite Hbetween by lia. reflexivity.
      * intros r Hr. cbv beta iota. rewrite Hsubz by lia. reflexivity.
    + intros i Hi. cbv beta iota. rewrite Hfrom by exact Hi. reflexivity.
    + intros i Hi. cbv beta iota. rewrite Hadd by exact Hi. reflexivity.
Qed.
