(** src/cut_str.rs : cut_str (the general path), translated from the current source stage by stage
    ([gen_cut_str_s<k>] is what follows the k-th top-level statement of the function), against the
    model's [cut_str], for a literal delimiter ([o_regex o = None]: no -e, no -c). *)
From Coq Require Import ZArith Bool List Lia.
From TucModel Require Import Base.Bytes Base.ListX Model.Bounds Model.Scan Model.Utf8 Model.Json Model.Regex Model.Opt
  Model.CutBytes Model.CutStr Proofs.BoundsFacts Proofs.C06
  Tie.RsPrelude Tie.TieBase Tie.RsOpt Tie.RsStr Tie.RsList Tie.RsScan Tie.RsRegex Tie.RsCut
  Tie.Gen_ub_try_into_range Tie.Bridge_ub_try_into_range
  Tie.Gen_maybe_replace Tie.Bridge_maybe_replace Tie.CutStrFacts
  Proofs.C12 Proofs.C16 Tie.Gen_trim_regex Tie.Bridge_trim_regex Tie.Gen_fill_regex Tie.Bridge_fill_regex Tie.Gen_compress_regex Tie.Bridge_compress_regex
  Tie.Gen_ubl_unpack Tie.Bridge_ubl_unpack Tie.Gen_ubl_complement Tie.Bridge_ubl_complement Tie.Bridge_ubl_has_negative_indices
  Tie.Gen_trim Tie.Bridge_trim Tie.Gen_fill_fields Tie.Bridge_fill_fields Tie.Gen_compress_delimiter Tie.Bridge_compress_delimiter
  Tie.Gen_cut_str.
Import ListNotations.
Local Open Scope Z_scope.


(** the option tests of [cut_str] in one order, whichever way round the source writes them *)
Ltac norm_bools o :=
  repeat match goal with
         | |- context [(?a && o_compress o)%bool] => rewrite (andb_comm a (o_compress o))
         | |- context [(?a && o_join o)%bool] =>
             lazymatch a with negb _ => fail | _ => rewrite (andb_comm a (o_join o)) end
         | |- context [(btype_eqb (o_btype o) BLines || btype_eqb (o_btype o) BFields)%bool] =>
             rewrite (orb_comm (btype_eqb (o_btype o) BLines) (btype_eqb (o_btype o) BFields))
         | |- context [(?a || o_json o)%bool] => rewrite (orb_comm a (o_json o))
         | |- context [(?x && btype_eqb (o_btype o) BChars)%bool] => rewrite (andb_comm x (btype_eqb (o_btype o) BChars))
         end.

(** one bound of the model's output loop, with the separator that follows it *)
Definition gpiece (o : opt) (line : bytes) (fields : list mtch) (b : ubound) : rres :=
  match (match try_into_range b (length fields) with
         | Some (s, e) =>
             match range_start fields s, range_end fields (e - 1) with
             | Some a, Some z =>
                 if Nat.leb a z && Nat.leb z (length line) then
                   match maybe_replace o (slice line a z) with
                   | Some t => match emit_part o t with Some p => ROk p | None => RErr end
                   | None => RHang
                   end
                 else RPanic
             | _, _ => RPanic
             end
         | None =>
             match fallback_for b (o_fallback o) with
             | Some f => match emit_part o f with Some p => ROk p | None => RErr end
             | None => RErr
             end
         end) with
  | ROk p => ROk (p ++ (if o_join o && negb (blast b)
                        then match o_replace o with Some nd => nd | None => o_delim o end else []))
  | e => e
  end.

Lemma out_loop_cons_bound o line fields b bs :
  out_loop o line fields (Bound b :: bs)
  = match gpiece o line fields b with
    | ROk p => match out_loop o line fields bs with ROk r => ROk (p ++ r) | e => e end
    | e => e
    end.
Proof.
  cbn [out_loop]. unfold gpiece.
  destruct (try_into_range b (length fields)) as [[s e]|].
  - destruct (range_start fields s); [|reflexivity]. destruct (range_end fields (e - 1)); [|reflexivity].
    destruct (Nat.leb n n0 && Nat.leb n0 (length line))%bool; [|reflexivity].
    destruct (maybe_replace o (slice line n n0)); [|reflexivity]. destruct (emit_part o l); [|reflexivity].
    destruct (out_loop o line fields bs); try reflexivity. rewrite <- app_assoc. reflexivity.
  - destruct (fallback_for b (o_fallback o)); [|reflexivity]. destruct (emit_part o l); [|reflexivity].
    destruct (out_loop o line fields bs); try reflexivity. rewrite <- app_assoc. reflexivity.
Qed.

Lemma vec_index_mz (fields : list mtch) (i : nat) :
  vec_index (map mz fields) (Z.of_nat i) = match nth_error fields i with Some x => Ret (mz x) | None => Panic end.
Proof.
  unfold vec_index. destruct (Z.leb_spec 0 (Z.of_nat i)); [|lia]. rewrite Nat2Z.id, nth_error_map.
  destruct (nth_error fields i); reflexivity.
Qed.

Lemma maybe_replace_literal o text : o_regex o = None -> exists t, maybe_replace o text = Some t.
Proof.
  intros H. unfold maybe_replace. rewrite H. destruct (o_btype o), (o_replace o); eexists; reflexivity.
Qed.

Section Loop.
  Variables (o : opt) (line : bytes) (fields : list mtch).
  Variables (buf : list byte) (lh : bytes) (sb : bool) (d : bytes) (b1 b2 : ublist).
  Notation S9 := (bytes * list (Z * Z) * list byte * bytes * bytes * bool * bytes * ublist * ublist)%type.
  Notation st out := (out, map mz fields, buf, line, lh, sb, d, b1, b2) (only parsing).

  (** what one step of the closure does *)
  Definition step_spec (F : S9 -> bof -> rs (ctrl S9 S9)) : Prop :=
    forall (out : bytes) (x : bof), item_nz x ->
      F (st out) x = match x with
                     | Filler f => Ret (Next (st (out ++ f)))
                     | Bound b => match gpiece o line fields b with
                                  | ROk p => Ret (Next (st (out ++ p)))
                                  | RErr => Ret (Break (st out))
                                  | _ => Panic
                                  end
                     end.

  Lemma loop_bridge (F : S9 -> bof -> rs (ctrl S9 S9)) : step_spec F ->
    forall (bs : list bof) (out : bytes), Forall item_nz bs ->
      loopM F bs (st out)
      = match out_loop o line fields bs with
        | ROk r => Ret (Next (st (out ++ r)))
        | RErr => match loopM F bs (st out) with Ret (Break s) => Ret (Break s) | _ => Panic end
        | _ => Panic
        end
      /\ (out_loop o line fields bs = RErr -> exists out', loopM F bs (st out) = Ret (Break (st out'))).
  Proof.
    intros HF. induction bs as [|x bs IH]; intros out Hnz.
    - cbn [loopM out_loop]. rewrite app_nil_r. split; [reflexivity | discriminate].
    - inversion Hnz as [|? ? Hx Hbs]; subst. cbn [loopM]. rewrite (HF out x Hx).
      destruct x as [b|f].
      + rewrite out_loop_cons_bound. destruct (gpiece o line fields b) as [p| | |]; cbn [bind].
        * destruct (IH (out ++ p) Hbs) as [E1 E2].
          destruct (out_loop o line fields bs) as [r| | |].
          -- rewrite E1, <- app_assoc. split; [reflexivity | discriminate].
          -- destruct (E2 eq_refl) as [out' E]. rewrite E. split; [reflexivity | intros _; exists out'; reflexivity].
          -- rewrite E1. split; [reflexivity | discriminate].
          -- rewrite E1. split; [reflexivity | discriminate].
        * split; [reflexivity | intros _; exists out; reflexivity].
        * split; [reflexivity | discriminate].
        * split; [reflexivity | discriminate].
      + cbn [out_loop bind]. destruct (IH (out ++ f) Hbs) as [E1 E2].
        destruct (out_loop o line fields bs) as [r| | |].
        * rewrite E1, <- app_assoc. split; [reflexivity | discriminate].
        * destruct (E2 eq_refl) as [out' E]. rewrite E. split; [reflexivity | intros _; exists out'; reflexivity].
        * rewrite E1. split; [reflexivity | discriminate].
        * rewrite E1. split; [reflexivity | discriminate].
  Qed.
End Loop.

Lemma emit_json_text o t : emit_part o t = if o_json o then json_text t else Some t.
Proof. unfold emit_part, json_text. reflexivity. Qed.

Definition s19_out (o : opt) (eol : bytes) : bytes := (if o_json o then [ch_rbracket] else []) ++ eol.

Lemma s19_spec o stdout eol : gen_cut_str_s19 o stdout eol = Ret (Some tt, stdout ++ s19_out o eol).
Proof.
  cbv beta delta [gen_cut_str_s19 gen_cut_str_s20 gen_cut_str_s21] iota zeta. unfold s19_out.
  destruct (o_json o); cbn [app]; rewrite <- ?app_assoc; reflexivity.
Qed.

Lemma s18_spec (o : opt) (line : bytes) (fields : list mtch) stdout buf eol lh sb d (b1 : ublist) (bs : list bof) (lf : side) :
  (forall text, exists t, maybe_replace o text = Some t) -> Forall item_nz bs -> Z.of_nat (length fields) <= i32_max ->
  match out_loop o line fields bs with
  | ROk r => gen_cut_str_s18 line o stdout (map mz fields) buf eol lh sb d (Z.of_nat (length fields)) b1 (mkL bs lf)
             = Ret (Some tt, stdout ++ r ++ s19_out o eol)
  | RErr => exists p, gen_cut_str_s18 line o stdout (map mz fields) buf eol lh sb d (Z.of_nat (length fields)) b1 (mkL bs lf)
                      = Ret (None, p)
  | RPanic => gen_cut_str_s18 line o stdout (map mz fields) buf eol lh sb d (Z.of_nat (length fields)) b1 (mkL bs lf) = Panic
  | RHang => True
  end.
Proof.
  intros Hre Hnz Hn. cbv beta delta [gen_cut_str_s18] iota zeta. unfold to_list, iter_ublist. cbn [items].
  match goal with |- context [loopM ?F bs _] =>
    assert (HF : step_spec o line fields buf lh sb d b1 (mkL bs lf) F) end.
  { intros out x Hx. destruct x as [b|f]; [|reflexivity]. cbn [item_nz] in Hx.
    rewrite (tie_ub_try_into_range b (length fields)) by (try exact Hn; destruct Hx as [Hl _]; destruct (bl b); cbn in *; congruence).
    cbn [bind]. unfold gpiece.
    destruct (try_into_range b (length fields)) as [[s e]|] eqn:E; cbn [range_Z opt_unwrap bind fst snd].
    - destruct (try_into_range_some b (length fields) s e Hx E) as (_ & _ & _ & Hse).
      rewrite vec_index_mz. unfold range_start, range_end.
      destruct (nth_error fields s) as [fs|]; cbn [bind]; [|reflexivity].
      unfold usize_sub, usize_chk, in_usize.
      destruct (Z.leb_spec 0 (Z.of_nat e - 1)); [|lia]. destruct (Z.leb_spec (Z.of_nat e - 1) usize_max); [|unfold usize_max, i32_max in *; lia].
      cbn [andb bind]. replace (Z.of_nat e - 1) with (Z.of_nat (e - 1)) by lia. rewrite vec_index_mz.
      destruct (nth_error fields (e - 1)) as [fe|]; cbn [bind]; [|reflexivity].
      change (fst (mz fs)) with (Z.of_nat (fst fs)). change (snd (mz fe)) with (Z.of_nat (snd fe)).
      unfold str_between.
      destruct (Nat.leb_spec (fst fs) (snd fe)); destruct (Nat.leb_spec (snd fe) (length line)); cbn [andb];
        destruct (Z.leb_spec 0 (Z.of_nat (fst fs))); try lia;
        destruct (Z.leb_spec (Z.of_nat (fst fs)) (Z.of_nat (snd fe))); try lia;
        destruct (Z.leb_spec (Z.of_nat (snd fe)) (Z.of_nat (length line))); try lia; cbn [andb bind]; try reflexivity.
      replace (Z.to_nat (Z.of_nat (snd fe) - Z.of_nat (fst fs))) with (snd fe - fst fs)%nat by lia. rewrite Nat2Z.id.
      fold (slice line (fst fs) (snd fe)).
      destruct (Hre (slice line (fst fs) (snd fe))) as [t Ht].
      rewrite (tie_maybe_replace o _ t Ht), Ht. cbn [bind]. rewrite emit_json_text.
      destruct (o_json o).
      + destruct (json_text t) as [j|]; [|reflexivity].
        destruct (o_join o), (blast b); cbn [andb negb app]; rewrite ?app_nil_r, <- ?app_assoc; reflexivity.
      + destruct (o_join o), (blast b); cbn [andb negb app]; rewrite ?app_nil_r, <- ?app_assoc; reflexivity.
    - unfold fallback_for. destruct (bfb b) as [f|]; cbn [bind opt_unwrap].
      + rewrite emit_json_text. destruct (o_json o).
        * destruct (json_text f) as [j|]; [|reflexivity].
          destruct (o_join o), (blast b); cbn [andb negb app]; rewrite ?app_nil_r, <- ?app_assoc; reflexivity.
        * destruct (o_join o), (blast b); cbn [andb negb app]; rewrite ?app_nil_r, <- ?app_assoc; reflexivity.
      + destruct (o_fallback o) as [f|]; [|reflexivity].
        rewrite emit_json_text. destruct (o_json o).
        * destruct (json_text f) as [j|]; [|reflexivity].
          destruct (o_join o), (blast b); cbn [andb negb app]; rewrite ?app_nil_r, <- ?app_assoc; reflexivity.
        * destruct (o_join o), (blast b); cbn [andb negb app]; rewrite ?app_nil_r, <- ?app_assoc; reflexivity. }
  match goal with |- context [loopM ?F bs _] =>
    destruct (loop_bridge o line fields buf lh sb d b1 (mkL bs lf) F HF bs stdout Hnz) as [E1 E2] end.
  destruct (out_loop o line fields bs) as [r| | |].
  - rewrite E1. cbn [bind]. rewrite s19_spec, <- app_assoc. reflexivity.
  - destruct (E2 eq_refl) as [out' E]. rewrite E. cbn [bind]. eexists. reflexivity.
  - rewrite E1. reflexivity.
  - exact I.
Qed.

(** what the model's [cut_str] does once the table of fields is known and -s has had its say:
    -m, the unpacking of ranges for --json, the output loop, the brackets and the EOL *)
Definition unpack_wanted (o : opt) : bool :=
  o_json o || (btype_eqb (o_btype o) BChars && match o_replace o with Some _ => true | None => false end).

Definition tail2 (o : opt) (line : bytes) (fields : list mtch) (bs1 : list bof) : rres :=
  let b2 : option (list bof) :=
    if unpack_wanted o && needs_unpack bs1
    then match unpack_list bs1 (length fields) with Some l => Some (items l) | None => None end
    else Some bs1 in
  match b2 with
  | None => RPanic
  | Some bs2 =>
      match out_loop o line fields bs2 with
      | ROk body => ROk ((if o_json o then [ch_lbracket] else []) ++ body ++ (if o_json o then [ch_rbracket] else []) ++ [o_eol o])
      | e => e
      end
  end.

Definition tail_model (o : opt) (line : bytes) (fields : list mtch) : rres :=
  let b1 : option (list bof) :=
    if o_complement o then match complement_list (items (o_bounds o)) (length fields) with Some l => Some (items l) | None => None end
    else Some (items (o_bounds o)) in
  match b1 with
  | None => RErr
  | Some bs1 => tail2 o line fields bs1
  end.

Lemma item_nz_left : forall l : list bof, Forall item_nz l -> Forall item_left_nz l.
Proof.
  intros l H. eapply Forall_impl; [|exact H]. intros [b|f] Hx; [|exact I]. destruct Hx as [Hl _].
  cbn [item_left_nz]. destruct (bl b); cbn in *; congruence.
Qed.

(** [gen_cut_str_s17]: the unpacking of ranges, then the loop *)
Lemma s17_spec (o : opt) (line : bytes) (fields : list mtch) stdout buf lh sb d (b1 u : ublist) :
  (forall text, exists t, maybe_replace o text = Some t) -> Forall item_nz (items u) -> Z.of_nat (length fields) <= i32_max ->
  let g := gen_cut_str_s17 line o stdout (map mz fields) buf [o_eol o] lh sb d (Z.of_nat (length fields)) b1 u in
  match (if unpack_wanted o && needs_unpack (items u)
         then match unpack_list (items u) (length fields) with Some l => Some (items l) | None => None end
         else Some (items u)) with
  | None => g = Panic
  | Some bs2 => match out_loop o line fields bs2 with
                | ROk r => g = Ret (Some tt, stdout ++ r ++ s19_out o [o_eol o])
                | RErr => exists p, g = Ret (None, p)
                | RPanic => g = Panic
                | RHang => True
                end
  end.
Proof.
  intros Hre Hnz Hn g. subst g. cbv beta delta [gen_cut_str_s17] iota zeta. norm_bools o. fold (unpack_wanted o).
  destruct (unpack_wanted o); cbn [andb].
  - unfold to_list, iter_ublist.
    match goal with |- context [anyM ?F _] =>
      rewrite (anyM_spec F (fun x => match x with
                                     | Bound b => negb (side_eqb (bl b) (br b)) || side_eqb (bl b) SCont
                                     | Filler _ => false end)) end.
    2:{ intros [[l r la fb]|f]; cbn [bl br]; first [reflexivity | f_equal; apply orb_comm]. }
    cbn [bind]. fold (needs_unpack (items u)). destruct (needs_unpack (items u)).
    + rewrite tie_ubl_unpack by (try exact Hn; apply item_nz_left, Hnz). unfold of_opt.
      destruct (unpack_list (items u) (length fields)) as [v|] eqn:Ev; [|reflexivity]. cbn [bind].
      pose proof (unpack_list_nz _ _ _ Ev Hnz) as Hv. destruct v as [bs lf]. cbn [items] in *.
      exact (s18_spec o line fields stdout buf [o_eol o] lh sb d (mkL bs lf) bs lf Hre Hv Hn).
    + destruct u as [bs lf]. cbn [items] in *.
      exact (s18_spec o line fields stdout buf [o_eol o] lh sb d b1 bs lf Hre Hnz Hn).
  - destruct u as [bs lf]. cbn [items] in *.
    exact (s18_spec o line fields stdout buf [o_eol o] lh sb d b1 bs lf Hre Hnz Hn).
Qed.

(** from the table of fields on: -s on a record without a delimiter, --json's bracket, -m, the rest *)
Lemma s11_spec (o : opt) (line : bytes) (fields : list mtch) buf lh sb d :
  (forall text, exists t, maybe_replace o text = Some t) ->
  Forall item_nz (items (o_bounds o)) -> Z.of_nat (length fields) <= i32_max ->
  let g := gen_cut_str_s11 line o [] (map mz fields) buf [o_eol o] lh sb d in
  if (o_only_delimited o && Nat.eqb (length fields) 1)%bool then g = Ret (Some tt, [])
  else match tail_model o line fields with
       | ROk r => g = Ret (Some tt, r)
       | RErr => exists p, g = Ret (None, p)
       | RPanic => g = Panic
       | RHang => True
       end.
Proof.
  intros Hre Hnz Hn g. subst g.
  cbv beta delta [gen_cut_str_s11 gen_cut_str_s12] iota zeta. rewrite map_length.
  assert (Main : match tail_model o line fields with
                 | ROk r => gen_cut_str_s13 line o [] (map mz fields) buf [o_eol o] lh sb d (Z.of_nat (length fields)) = Ret (Some tt, r)
                 | RErr => exists p, gen_cut_str_s13 line o [] (map mz fields) buf [o_eol o] lh sb d (Z.of_nat (length fields)) = Ret (None, p)
                 | RPanic => gen_cut_str_s13 line o [] (map mz fields) buf [o_eol o] lh sb d (Z.of_nat (length fields)) = Panic
                 | RHang => True
                 end).
  { cbv beta delta [gen_cut_str_s13 gen_cut_str_s14 gen_cut_str_s15 gen_cut_str_s16] iota zeta. unfold tail_model.
    set (out0 := if o_json o then [] ++ [91%N] else []).
    assert (Eo : out0 = (if o_json o then [ch_lbracket] else [])) by (unfold out0; destruct (o_json o); reflexivity).
    assert (Hs17 : forall (b1 u : ublist), Forall item_nz (items u) ->
              match tail2 o line fields (items u) with
              | ROk r => gen_cut_str_s17 line o out0 (map mz fields) buf [o_eol o] lh sb d (Z.of_nat (length fields)) b1 u = Ret (Some tt, r)
              | RErr => exists p, gen_cut_str_s17 line o out0 (map mz fields) buf [o_eol o] lh sb d (Z.of_nat (length fields)) b1 u = Ret (None, p)
              | RPanic => gen_cut_str_s17 line o out0 (map mz fields) buf [o_eol o] lh sb d (Z.of_nat (length fields)) b1 u = Panic
              | RHang => True
              end).
    { intros b1 u Hu. pose proof (s17_spec o line fields out0 buf lh sb d b1 u Hre Hu Hn) as H. cbv zeta in H.
      unfold s19_out in H. unfold tail2.
      destruct (if unpack_wanted o && needs_unpack (items u)
                then match unpack_list (items u) (length fields) with Some l => Some (items l) | None => None end
                else Some (items u)) as [bs2|]; [|exact H].
      destruct (out_loop o line fields bs2); exact H. }
    assert (Hg : (if o_json o
                  then gen_cut_str_s16 line o ([] ++ [91%N]) (map mz fields) buf [o_eol o] lh sb d (Z.of_nat (length fields)) (mkL [] SCont) (o_bounds o)
                  else gen_cut_str_s16 line o [] (map mz fields) buf [o_eol o] lh sb d (Z.of_nat (length fields)) (mkL [] SCont) (o_bounds o))
                 = gen_cut_str_s16 line o out0 (map mz fields) buf [o_eol o] lh sb d (Z.of_nat (length fields)) (mkL [] SCont) (o_bounds o))
      by (unfold out0; destruct (o_json o); reflexivity).
    cbv beta delta [gen_cut_str_s16] iota zeta in Hg. rewrite Hg. clear Hg.
    destruct (o_complement o).
    - rewrite tie_ubl_complement by (try exact Hn; apply item_nz_left, Hnz). cbn [bind].
      destruct (complement_list (items (o_bounds o)) (length fields)) as [u|] eqn:Eu; [|eexists; reflexivity].
      pose proof (complement_list_nonempty _ _ _ Eu) as Hne. destruct (items u) as [|x0 xs] eqn:Ei; [contradiction|].
      rewrite <- Ei. apply Hs17. apply (complement_list_nz _ _ _ Eu Hnz).
    - apply Hs17. exact Hnz. }
  destruct (o_only_delimited o); destruct (Z.eqb_spec (Z.of_nat (length fields)) 1) as [E|E]; destruct (Nat.eqb_spec (length fields) 1) as [E'|E'];
    cbn [andb]; try lia; first [reflexivity | exact Main].
Qed.

Lemma s10_spec (o : opt) (line : bytes) (fields : list mtch) buf lh sb d :
  (forall text, exists t, maybe_replace o text = Some t) -> o_btype o <> BChars ->
  Forall item_nz (items (o_bounds o)) -> Z.of_nat (length fields) <= i32_max ->
  let g := gen_cut_str_s10 line o [] (map mz fields) buf [o_eol o] lh sb d in
  if (o_only_delimited o && Nat.eqb (length fields) 1)%bool then g = Ret (Some tt, [])
  else match tail_model o line fields with
       | ROk r => g = Ret (Some tt, r)
       | RErr => exists p, g = Ret (None, p)
       | RPanic => g = Panic
       | RHang => True
       end.
Proof.
  intros Hre Hb Hnz Hn g. subst g.
  assert (Eb : btype_eqb (o_btype o) BChars = false) by (destruct (o_btype o); try reflexivity; exfalso; apply Hb; reflexivity).
  assert (E : gen_cut_str_s10 line o [] (map mz fields) buf [o_eol o] lh sb d = gen_cut_str_s11 line o [] (map mz fields) buf [o_eol o] lh sb d)
    by (cbv beta delta [gen_cut_str_s10] iota zeta; rewrite Eb, ?andb_false_r; reflexivity).
  rewrite E. exact (s11_spec o line fields buf lh sb d Hre Hnz Hn).
Qed.

(** -c: the two empty pieces at the ends of the table go *)
Lemma removelast_map {A B} (f : A -> B) : forall l, removelast (map f l) = map f (removelast l).
Proof. induction l as [|a [|b l] IH]; [reflexivity | reflexivity |]. cbn [map removelast] in *. rewrite IH. reflexivity. Qed.

Lemma tl_removelast {A} (l : list A) : tl (removelast l) = removelast (tl l).
Proof. destruct l as [|a [|b l]]; reflexivity. Qed.

Lemma s10_chars (o : opt) (line : bytes) (fields0 : list mtch) buf lh sb d :
  o_btype o = BChars ->
  gen_cut_str_s10 line o [] (map mz fields0) buf [o_eol o] lh sb d
  = gen_cut_str_s11 line o [] (map mz (drop_outer fields0)) buf [o_eol o] lh sb d.
Proof.
  intros Hb. cbv beta delta [gen_cut_str_s10] iota zeta. rewrite Hb. cbn [btype_eqb andb]. rewrite map_length. unfold drop_outer.
  destruct (Z.ltb_spec 2 (Z.of_nat (length fields0))) as [H|H]; destruct (Nat.ltb_spec 2 (length fields0)) as [H'|H']; try lia; cbn [andb]; [|reflexivity].
  rewrite removelast_map. destruct (removelast fields0) as [|x xs] eqn:E.
  - destruct fields0 as [|a [|b l]]; cbn in H'; try lia. cbn [removelast] in E. destruct l; discriminate.
  - cbn [map vec_drain1 bind]. rewrite <- tl_removelast, E. reflexivity.
Qed.

(** the record after -t, after -p, and its table of fields *)
Definition line1 (o : opt) (line0 : bytes) : bytes :=
  match o_trim o with Some k => trim_lit k (o_delim o) line0 | None => line0 end.
Lemma trim_lit_length k p l : (length (trim_lit k p l) <= length l)%nat.
Proof.
  unfold trim_lit.
  assert (HS : forall (p l r : bytes), strip_prefix p l = Some r -> (length r <= length l)%nat).
  { induction p0 as [|x p0 IHp]; intros l0 r E; cbn [strip_prefix] in E; [injection E as <-; lia|].
    destruct l0 as [|y l0]; [discriminate|]. destruct (N.eqb x y); [|discriminate]. apply IHp in E. cbn [length]. lia. }
  assert (HF : forall p fuel l, (length (trim_left_fuel fuel p l) <= length l)%nat).
  { intros p0 fuel. induction fuel as [|f IHf]; intros l0; cbn [trim_left_fuel]; [lia|].
    destruct (strip_prefix p0 l0) as [r|] eqn:E; [|lia]. specialize (IHf r). apply HS in E. lia. }
  assert (HL : forall p l, (length (trim_left p l) <= length l)%nat).
  { intros p0 l0. unfold trim_left. destruct p0; [lia | apply HF]. }
  assert (HR : forall p l, (length (trim_right p l) <= length l)%nat).
  { intros p0 l0. unfold trim_right. rewrite rev_length. specialize (HL (rev p0) (rev l0)). rewrite rev_length in HL. exact HL. }
  destruct k; [apply HL | apply HR | etransitivity; [apply HR | apply HL]].
Qed.

Lemma line1_length o line0 : (length (line1 o line0) <= length line0)%nat.
Proof. unfold line1. destruct (o_trim o); [apply trim_lit_length | lia]. Qed.

Definition compresses (o : opt) : bool :=
  o_compress o && (btype_eqb (o_btype o) BFields || btype_eqb (o_btype o) BLines).
Definition line2 (o : opt) (l1 : bytes) : bytes :=
  if compresses o then compress_delimiter (o_delim o) l1 else l1.
Definition fields_lit (o : opt) (l2 : bytes) : list mtch :=
  fields_of_matches (if o_greedy o then merge_adjacent (lit_matches (o_delim o) l2) else lit_matches (o_delim o) l2) l2.

(** a record of n bytes has at most n + 2 fields *)
Lemma find_iter_aux_count d : forall l skip pos, (length (find_iter_aux d skip pos l) <= S (length l))%nat.
Proof.
  induction l as [|x l IH]; intros skip pos; cbn [find_iter_aux length].
  - destruct skip; [destruct d|]; cbn [length]; lia.
  - destruct skip; [|specialize (IH skip (S pos)); lia].
    destruct (starts_with d (x :: l)); cbn [length]; [specialize (IH (length d - 1)%nat (S pos)) | specialize (IH 0%nat (S pos))]; lia.
Qed.

Lemma merge_adjacent_from_count : forall ms cur, (length (merge_adjacent_from cur ms) <= S (length ms))%nat.
Proof.
  induction ms as [|m ms IH]; intros cur; cbn [merge_adjacent_from length]; [lia|].
  destruct (Nat.eqb (fst m) (snd cur)); cbn [length]; [specialize (IH (fst cur, snd m)) | specialize (IH m)]; lia.
Qed.

Lemma gaps_from_count len : forall ms start, length (gaps_from start ms len) = S (length ms).
Proof. induction ms as [|m ms IH]; intros start; cbn [gaps_from length]; [reflexivity|]. rewrite IH. reflexivity. Qed.

Lemma fields_lit_count o l2 : (length (fields_lit o l2) <= length l2 + 2)%nat.
Proof.
  unfold fields_lit, fields_of_matches. destruct l2 as [|x l2']; [cbn; lia|]. rewrite gaps_from_count.
  assert (H : (length (lit_matches (o_delim o) (x :: l2')) <= S (length (x :: l2')))%nat).
  { unfold lit_matches, find_iter. rewrite map_length. apply find_iter_aux_count. }
  destruct (o_greedy o); [|lia].
  unfold merge_adjacent. destruct (lit_matches (o_delim o) (x :: l2')) as [|m ms]; [cbn; lia|].
  pose proof (merge_adjacent_from_count ms m). cbn [length] in *. lia.
Qed.

Definition of_rres_cut (r : option rres) (x : rs (option unit * bytes)) : Prop :=
  match r with
  | Some (ROk out) => x = Ret (Some tt, out)
  | Some RErr => exists partial, x = Ret (None, partial)
  | Some RPanic => x = Panic
  | _ => True
  end.

Theorem tie_cut_str_literal : forall (o : opt) (line0 : bytes) (fields0 : list (Z * Z)) (buf0 : list byte),
  o_regex o = None -> o_btype o <> BChars ->
  Forall item_nz (items (o_bounds o)) ->
  Z.of_nat (length line0) + Z.of_nat (length (o_delim o)) <= usize_max ->
  Z.of_nat (length (line2 o (line1 o line0))) + Z.of_nat (length (o_delim o)) <= usize_max ->
  Z.of_nat (length (line2 o (line1 o line0))) + 2 <= i32_max ->
  of_rres_cut (cut_str o line0) (gen_cut_str line0 o fields0 buf0 [o_eol o]).
Proof.
  intros o line0 fields0 buf0 Hre Hb Hnz H0 H2 Hf'.
  assert (Hf : Z.of_nat (length (fields_lit o (line2 o (line1 o line0)))) <= i32_max).
  { pose proof (fields_lit_count o (line2 o (line1 o line0))). lia. }
  assert (H1 : Z.of_nat (length (line1 o line0)) + Z.of_nat (length (o_delim o)) <= usize_max).
  { pose proof (line1_length o line0). lia. }
  assert (Eb : btype_eqb (o_btype o) BChars = false) by (destruct (o_btype o); try reflexivity; exfalso; apply Hb; reflexivity).
  unfold cut_str. rewrite Hre. cbn [andb].
  cbv beta delta [gen_cut_str gen_cut_str_s1 gen_cut_str_s2] iota zeta. rewrite Hre. cbv iota beta.
  (* -t *)
  assert (E2 : forall stdout, (match o_trim o with
            | Some k => bind (gen_trim line0 k (o_delim o)) (fun v => gen_cut_str_s3 v o stdout fields0 buf0 [o_eol o])
            | None => gen_cut_str_s3 line0 o stdout fields0 buf0 [o_eol o] end)
            = gen_cut_str_s3 (line1 o line0) o stdout fields0 buf0 [o_eol o]).
  { intros stdout. unfold line1. destruct (o_trim o) as [k|]; [|reflexivity]. rewrite tie_trim by exact H0. reflexivity. }
  match goal with |- of_rres_cut _ ?g =>
    assert (Hg : g = gen_cut_str_s3 (line1 o line0) o [] fields0 buf0 [o_eol o]) by (rewrite <- E2; destruct (o_trim o); reflexivity);
    rewrite Hg; clear Hg end.
  replace (match o_trim o with Some k => Some (trim_lit k (o_delim o) line0) | None => Some line0 end) with (Some (line1 o line0))
    by (unfold line1; destruct (o_trim o); reflexivity).
  set (l1 := line1 o line0) in *.
  cbv beta delta [gen_cut_str_s3] iota zeta.
  destruct l1 as [|c l1'] eqn:El1.
  { (* the record is empty once trimmed *) destruct (o_only_delimited o); cbn [negb of_rres_cut app]; reflexivity. }
  rewrite <- El1 in *. clear El1 c l1'. cbv iota beta.
  cbv beta delta [gen_cut_str_s4 gen_cut_str_s5 gen_cut_str_s6 gen_cut_str_s7 gen_cut_str_s8] iota zeta.
  rewrite Hre. cbn [andb]. norm_bools o. fold (compresses o).
  (* -p *)
  assert (E8 : (if compresses o
                then bind (gen_compress_delimiter l1 (o_delim o) buf0)
                          (fun '(r, m) => gen_cut_str_s9 m o [] fields0 m [o_eol o] [] false (o_delim o))
                else gen_cut_str_s9 l1 o [] fields0 buf0 [o_eol o] [] false (o_delim o))
               = gen_cut_str_s9 (line2 o l1) o [] fields0 (if compresses o then line2 o l1 else buf0) [o_eol o] [] false (o_delim o)).
  { unfold line2. destruct (compresses o); [|reflexivity]. rewrite tie_compress_delimiter by exact H1. reflexivity. }
  match goal with |- of_rres_cut _ ?g =>
    assert (Hg : g = gen_cut_str_s9 (line2 o l1) o [] fields0 (if compresses o then line2 o l1 else buf0) [o_eol o] [] false (o_delim o))
      by (rewrite <- E8; destruct (compresses o); reflexivity);
    rewrite Hg; clear Hg end.
  replace (if compresses o then Some (compress_delimiter (o_delim o) l1, o_delim o, false) else Some (l1, o_delim o, false))
    with (Some (line2 o l1, o_delim o, false)) by (unfold line2; destruct (compresses o); reflexivity).
  set (l2 := line2 o l1) in *. set (buf1 := if compresses o then l2 else buf0). clearbody buf1.
  (* the table of fields *)
  cbv beta delta [gen_cut_str_s9] iota zeta.
  replace (if o_greedy o then Some (merge_adjacent (lit_matches (o_delim o) l2)) else Some (lit_matches (o_delim o) l2))
    with (Some (if o_greedy o then merge_adjacent (lit_matches (o_delim o) l2) else lit_matches (o_delim o) l2))
    by (destruct (o_greedy o); reflexivity).
  rewrite Eb. fold (fields_lit o l2). set (fields := fields_lit o l2) in *.
  match goal with |- of_rres_cut _ ?g =>
    assert (Hg : g = gen_cut_str_s10 l2 o [] (map mz fields) buf1 [o_eol o] [] false (o_delim o)) end.
  { unfold fields, fields_lit. destruct (o_greedy o).
    - unfold model_fill_greedy. cbn [bind]. reflexivity.
    - rewrite tie_fill_fields by exact H2. cbn [bind]. reflexivity. }
  rewrite Hg; clear Hg.
  (* -s, -m, the unpacking, the output loop *)
  pose proof (s10_spec o l2 fields buf1 [] false (o_delim o) (fun text => maybe_replace_literal o text Hre) Hb Hnz Hf) as H10. cbv zeta in H10.
  destruct (o_only_delimited o && Nat.eqb (length fields) 1)%bool; [exact H10|].
  fold (unpack_wanted o).
  assert (Et : forall X : option rres, X = Some (tail_model o l2 fields) -> of_rres_cut X (gen_cut_str_s10 l2 o [] (map mz fields) buf1 [o_eol o] [] false (o_delim o))).
  { intros X ->. destruct (tail_model o l2 fields); cbn [of_rres_cut]; try exact H10; exact I. }
  apply Et. unfold tail_model, tail2, unpack_wanted. rewrite Eb.
  destruct (o_complement o).
  - destruct (complement_list (items (o_bounds o)) (length fields)) as [u|]; [|reflexivity].
    match goal with |- context [if ?c then _ else _] => destruct c end.
    + destruct (unpack_list (items u) (length fields)) as [v|]; [|reflexivity].
      destruct (out_loop o l2 fields (items v)); reflexivity.
    + destruct (out_loop o l2 fields (items u)); reflexivity.
  - match goal with |- context [if ?c then _ else _] => destruct c end.
    + destruct (unpack_list (items (o_bounds o)) (length fields)) as [v|]; [|reflexivity].
      destruct (out_loop o l2 fields (items v)); reflexivity.
    + destruct (out_loop o l2 fields (items (o_bounds o))); reflexivity.
Qed.

(** the same with -e RE, for the regexes of the modelled family *)
Lemma maybe_replace_re o r text : o_regex o = Some (RxRe r) -> exists t, maybe_replace o text = Some t.
Proof.
  intros H. unfold maybe_replace. rewrite H. cbn [rx_normal].
  destruct (o_btype o), (o_replace o), (o_compress o); eexists; reflexivity.
Qed.

Definition rline1 (o : opt) (r : re) (line0 : bytes) : bytes :=
  match o_trim o with Some k => trim_matches k (re_find_iter (RPlus r) line0) line0 | None => line0 end.
Definition rline2 (o : opt) (r : re) (l1 : bytes) : bytes :=
  if compresses o then match o_replace o with Some nd => replace_matches l1 (re_find_iter (RPlus r) l1) nd | None => l1 end else l1.
Definition rfields (o : opt) (r : re) (l1 : bytes) : list mtch :=
  let l2 := rline2 o r l1 in
  if compresses o
  then match o_replace o with
       | Some nd => fields_of_matches (if o_greedy o then merge_adjacent (lit_matches nd l2) else lit_matches nd l2) l2
       | None => []
       end
  else fields_of_matches (if o_greedy o then re_find_iter (RPlus r) l2 else re_find_iter r l2) l2.

Theorem tie_cut_str_regex : forall (o : opt) (r : re) (line0 : bytes) (fields0 : list (Z * Z)) (buf0 : list byte),
  o_regex o = Some (RxRe r) -> o_btype o <> BChars ->
  Forall item_nz (items (o_bounds o)) ->
  (forall nd, o_replace o = Some nd ->
     Z.of_nat (length (rline2 o r (rline1 o r line0))) + Z.of_nat (length nd) <= usize_max) ->
  Z.of_nat (length (rfields o r (rline1 o r line0))) <= i32_max ->
  of_rres_cut (cut_str o line0) (gen_cut_str line0 o fields0 buf0 [o_eol o]).
Proof.
  intros o r line0 fields0 buf0 Hre Hb Hnz H2 Hf.
  assert (Eb : btype_eqb (o_btype o) BChars = false) by (destruct (o_btype o); try reflexivity; exfalso; apply Hb; reflexivity).
  pose proof (fun text => maybe_replace_re o r text Hre) as Hmr.
  unfold cut_str. rewrite Hre.
  cbv beta delta [gen_cut_str] iota zeta. rewrite Hre. cbv iota beta. norm_bools o.
  (* --regex with -p or -j needs -r *)
  destruct (o_replace o) as [nd|] eqn:Er.
  2:{ destruct (o_compress o) eqn:Ec; cbn [andb orb]; [eexists; reflexivity|].
      destruct (o_join o) eqn:Ej; cbn [andb orb]; [eexists; reflexivity|].
      (* no -r, no -p, no -j *)
      cbv beta delta [gen_cut_str_s1 gen_cut_str_s2] iota zeta. rewrite Hre. cbv iota beta. cbn [opt_unwrap bind].
      assert (Hl1 : forall stdout, (match o_trim o with
            | Some k => bind (gen_trim_regex line0 k (rb_greedy (RxRe r))) (fun v => gen_cut_str_s3 v o stdout fields0 buf0 [o_eol o])
            | None => gen_cut_str_s3 line0 o stdout fields0 buf0 [o_eol o] end)
            = gen_cut_str_s3 (rline1 o r line0) o stdout fields0 buf0 [o_eol o]).
      { intros stdout. unfold rline1. destruct (o_trim o) as [k|]; [|reflexivity].
        rewrite (tie_trim_regex line0 k (rb_greedy (RxRe r)) (re_find_iter (RPlus r) line0)); [reflexivity | reflexivity | apply (proj1 (re_matches_wf (RPlus r) line0))]. }
      match goal with |- of_rres_cut _ ?g =>
        assert (Hg : g = gen_cut_str_s3 (rline1 o r line0) o [] fields0 buf0 [o_eol o]) by (rewrite <- Hl1; destruct (o_trim o); reflexivity);
        rewrite Hg; clear Hg end.
      cbn [rx_greedy rx_normal].
      replace (match o_trim o with Some k => Some (trim_matches k (re_find_iter (RPlus r) line0) line0) | None => Some line0 end)
        with (Some (rline1 o r line0)) by (unfold rline1; destruct (o_trim o); reflexivity).
      set (l1 := rline1 o r line0) in *.
      cbv beta delta [gen_cut_str_s3] iota zeta.
      destruct l1 as [|c l1'] eqn:El1; [destruct (o_only_delimited o); cbn [negb of_rres_cut app]; reflexivity|].
      rewrite <- El1 in *. clear El1 c l1'. cbv iota beta.
      cbv beta delta [gen_cut_str_s4 gen_cut_str_s5 gen_cut_str_s6 gen_cut_str_s7 gen_cut_str_s8] iota zeta.
      norm_bools o. rewrite Hre, Ec. cbn [andb]. cbv beta delta [gen_cut_str_s9] iota zeta. rewrite Hre, Eb. cbn [opt_unwrap bind].
      assert (Ecz : compresses o = false) by (unfold compresses; rewrite Ec; reflexivity).
      unfold rfields, rline2 in Hf. rewrite Ecz in Hf. fold l1 in Hf.
      set (fields := fields_of_matches (if o_greedy o then re_find_iter (RPlus r) l1 else re_find_iter r l1) l1) in *.
      match goal with |- of_rres_cut _ ?g =>
        assert (Hg : g = gen_cut_str_s10 l1 o [] (map mz fields) buf0 [o_eol o] [] true (o_delim o)) end.
      { unfold fields. destruct (o_greedy o).
        - rewrite (tie_fill_regex fields0 l1 (rb_greedy (RxRe r)) (re_find_iter (RPlus r) l1)) by reflexivity. reflexivity.
        - rewrite (tie_fill_regex fields0 l1 (rb_normal (RxRe r)) (re_find_iter r l1)) by reflexivity. reflexivity. }
      rewrite Hg; clear Hg.
      replace (if o_greedy o then Some (re_find_iter (RPlus r) l1) else Some (re_find_iter r l1))
        with (Some (if o_greedy o then re_find_iter (RPlus r) l1 else re_find_iter r l1)) by (destruct (o_greedy o); reflexivity).
      fold fields.
      pose proof (s10_spec o l1 fields buf0 [] true (o_delim o) Hmr Hb Hnz Hf) as H10. cbv zeta in H10.
      destruct (o_only_delimited o && Nat.eqb (length fields) 1)%bool; [exact H10|].
      assert (Et : forall X : option rres, X = Some (tail_model o l1 fields) -> of_rres_cut X (gen_cut_str_s10 l1 o [] (map mz fields) buf0 [o_eol o] [] true (o_delim o))).
      { intros X ->. destruct (tail_model o l1 fields); cbn [of_rres_cut]; try exact H10; exact I. }
      apply Et. unfold tail_model, tail2, unpack_wanted. rewrite Eb, Er.
      destruct (o_complement o).
      - destruct (complement_list (items (o_bounds o)) (length fields)) as [u|]; [|reflexivity].
        match goal with |- context [if ?c then _ else _] => destruct c end.
        + destruct (unpack_list (items u) (length fields)) as [v|]; [|reflexivity].
          destruct (out_loop o l1 fields (items v)); reflexivity.
        + destruct (out_loop o l1 fields (items u)); reflexivity.
      - match goal with |- context [if ?c then _ else _] => destruct c end.
        + destruct (unpack_list (items (o_bounds o)) (length fields)) as [v|]; [|reflexivity].
          destruct (out_loop o l1 fields (items v)); reflexivity.
        + destruct (out_loop o l1 fields (items (o_bounds o))); reflexivity. }
  (* with -r nd *)
  cbn [andb]. rewrite !andb_false_r. cbv iota beta.
  cbv beta delta [gen_cut_str_s1 gen_cut_str_s2] iota zeta. rewrite Hre. cbv iota beta. cbn [opt_unwrap bind].
  assert (Hl1 : forall stdout, (match o_trim o with
        | Some k => bind (gen_trim_regex line0 k (rb_greedy (RxRe r))) (fun v => gen_cut_str_s3 v o stdout fields0 buf0 [o_eol o])
        | None => gen_cut_str_s3 line0 o stdout fields0 buf0 [o_eol o] end)
        = gen_cut_str_s3 (rline1 o r line0) o stdout fields0 buf0 [o_eol o]).
  { intros stdout. unfold rline1. destruct (o_trim o) as [k|]; [|reflexivity].
    rewrite (tie_trim_regex line0 k (rb_greedy (RxRe r)) (re_find_iter (RPlus r) line0)); [reflexivity | reflexivity | apply (proj1 (re_matches_wf (RPlus r) line0))]. }
  match goal with |- of_rres_cut _ ?g =>
    assert (Hg : g = gen_cut_str_s3 (rline1 o r line0) o [] fields0 buf0 [o_eol o]) by (rewrite <- Hl1; destruct (o_compress o), (o_join o), (o_trim o); reflexivity);
    rewrite Hg; clear Hg end.
  cbn [rx_greedy rx_normal].
  replace (match o_trim o with Some k => Some (trim_matches k (re_find_iter (RPlus r) line0) line0) | None => Some line0 end)
    with (Some (rline1 o r line0)) by (unfold rline1; destruct (o_trim o); reflexivity).
  set (l1 := rline1 o r line0) in *.
  cbv beta delta [gen_cut_str_s3] iota zeta.
  destruct l1 as [|c l1'] eqn:El1; [destruct (o_only_delimited o); cbn [negb of_rres_cut app]; reflexivity|].
  rewrite <- El1 in *. clear El1 c l1'. cbv iota beta.
  cbv beta delta [gen_cut_str_s4 gen_cut_str_s5 gen_cut_str_s6 gen_cut_str_s7 gen_cut_str_s8] iota zeta.
  rewrite Hre, Er. cbn [andb opt_unwrap bind]. norm_bools o. fold (compresses o).
  unfold rfields, rline2 in Hf. rewrite Er in Hf. fold l1 in Hf. specialize (H2 nd eq_refl). unfold rline2 in H2. rewrite Er in H2. fold l1 in H2.
  destruct (compresses o) eqn:Ecz.
  - (* -p: every run of matches rewritten to nd, then the literal splitter on nd *)
    rewrite (tie_compress_regex l1 nd (rb_greedy (RxRe r)) (re_find_iter (RPlus r) l1)) by reflexivity. cbn [bind].
    set (l2 := replace_matches l1 (re_find_iter (RPlus r) l1) nd) in *.
    cbv beta delta [gen_cut_str_s9] iota zeta.
    set (fields := fields_of_matches (if o_greedy o then merge_adjacent (lit_matches nd l2) else lit_matches nd l2) l2) in *.
    match goal with |- of_rres_cut _ ?g =>
      assert (Hg : g = gen_cut_str_s10 l2 o [] (map mz fields) buf0 [o_eol o] l2 false nd) end.
    { unfold fields. destruct (o_greedy o).
      - unfold model_fill_greedy. cbn [bind]. reflexivity.
      - rewrite tie_fill_fields by exact H2. cbn [bind]. reflexivity. }
    rewrite Hg; clear Hg.
    replace (if o_greedy o then Some (merge_adjacent (lit_matches nd l2)) else Some (lit_matches nd l2))
      with (Some (if o_greedy o then merge_adjacent (lit_matches nd l2) else lit_matches nd l2)) by (destruct (o_greedy o); reflexivity).
    rewrite Eb. fold fields.
    pose proof (s10_spec o l2 fields buf0 l2 false nd Hmr Hb Hnz Hf) as H10. cbv zeta in H10.
    destruct (o_only_delimited o && Nat.eqb (length fields) 1)%bool; [exact H10|].
    assert (Et : forall X : option rres, X = Some (tail_model o l2 fields) -> of_rres_cut X (gen_cut_str_s10 l2 o [] (map mz fields) buf0 [o_eol o] l2 false nd)).
    { intros X ->. destruct (tail_model o l2 fields); cbn [of_rres_cut]; try exact H10; exact I. }
    apply Et. unfold tail_model, tail2, unpack_wanted. rewrite Eb, Er.
    destruct (o_complement o).
    + destruct (complement_list (items (o_bounds o)) (length fields)) as [u|]; [|reflexivity].
      match goal with |- context [if ?c then _ else _] => destruct c end.
      * destruct (unpack_list (items u) (length fields)) as [v|]; [|reflexivity].
        destruct (out_loop o l2 fields (items v)); reflexivity.
      * destruct (out_loop o l2 fields (items u)); reflexivity.
    + match goal with |- context [if ?c then _ else _] => destruct c end.
      * destruct (unpack_list (items (o_bounds o)) (length fields)) as [v|]; [|reflexivity].
        destruct (out_loop o l2 fields (items v)); reflexivity.
      * destruct (out_loop o l2 fields (items (o_bounds o))); reflexivity.
  - (* no -p: the regex splitter *)
    cbv beta delta [gen_cut_str_s9] iota zeta. rewrite Hre, Eb. cbn [opt_unwrap bind].
    set (fields := fields_of_matches (if o_greedy o then re_find_iter (RPlus r) l1 else re_find_iter r l1) l1) in *.
    match goal with |- of_rres_cut _ ?g =>
      assert (Hg : g = gen_cut_str_s10 l1 o [] (map mz fields) buf0 [o_eol o] [] true (o_delim o)) end.
    { unfold fields. destruct (o_greedy o).
      - rewrite (tie_fill_regex fields0 l1 (rb_greedy (RxRe r)) (re_find_iter (RPlus r) l1)) by reflexivity. reflexivity.
      - rewrite (tie_fill_regex fields0 l1 (rb_normal (RxRe r)) (re_find_iter r l1)) by reflexivity. reflexivity. }
    rewrite Hg; clear Hg.
    replace (if o_greedy o then Some (re_find_iter (RPlus r) l1) else Some (re_find_iter r l1))
      with (Some (if o_greedy o then re_find_iter (RPlus r) l1 else re_find_iter r l1)) by (destruct (o_greedy o); reflexivity).
    fold fields.
    pose proof (s10_spec o l1 fields buf0 [] true (o_delim o) Hmr Hb Hnz Hf) as H10. cbv zeta in H10.
    destruct (o_only_delimited o && Nat.eqb (length fields) 1)%bool; [exact H10|].
    assert (Et : forall X : option rres, X = Some (tail_model o l1 fields) -> of_rres_cut X (gen_cut_str_s10 l1 o [] (map mz fields) buf0 [o_eol o] [] true (o_delim o))).
    { intros X ->. destruct (tail_model o l1 fields); cbn [of_rres_cut]; try exact H10; exact I. }
    apply Et. unfold tail_model, tail2, unpack_wanted. rewrite Eb, Er.
    destruct (o_complement o).
    + destruct (complement_list (items (o_bounds o)) (length fields)) as [u|]; [|reflexivity].
      match goal with |- context [if ?c then _ else _] => destruct c end.
      * destruct (unpack_list (items u) (length fields)) as [v|]; [|reflexivity].
        destruct (out_loop o l1 fields (items v)); reflexivity.
      * destruct (out_loop o l1 fields (items u)); reflexivity.
    + match goal with |- context [if ?c then _ else _] => destruct c end.
      * destruct (unpack_list (items (o_bounds o)) (length fields)) as [v|]; [|reflexivity].
        destruct (out_loop o l1 fields (items v)); reflexivity.
      * destruct (out_loop o l1 fields (items (o_bounds o))); reflexivity.
Qed.

(** -c: the characters of a record that is valid UTF-8 (no -t here) *)
Theorem tie_cut_str_chars : forall (o : opt) (line0 : bytes) (ms : list mtch) (fields0 : list (Z * Z)) (buf0 : list byte),
  o_regex o = Some RxChars -> o_btype o = BChars -> o_trim o = None ->
  Forall item_nz (items (o_bounds o)) ->
  char_matches line0 = Some ms ->
  Z.of_nat (length (drop_outer (fields_of_matches ms line0))) <= i32_max ->
  of_rres_cut (cut_str o line0) (gen_cut_str line0 o fields0 buf0 [o_eol o]).
Proof.
  intros o line0 ms fields0 buf0 Hre Hb Ht Hnz Hms Hf.
  assert (Hmr : forall text, exists t, maybe_replace o text = Some t)
    by (intros text; unfold maybe_replace; rewrite Hb; eexists; reflexivity).
  (* the two checks of --regex (-c is served by a regex) against -p / -j without -r *)
  assert (Hpre : forall (g : option rres) (k : rs (option unit * bytes)),
    of_rres_cut g k ->
    of_rres_cut (if (true && match o_replace o with None => true | Some _ => false end && (o_compress o || o_join o))%bool then Some RErr else g)
      (if (o_compress o && match o_replace o with None => true | _ => false end)%bool
       then Ret (None, [])
       else if (o_join o && match o_replace o with None => true | _ => false end)%bool
            then Ret (None, [])
            else k)).
  { intros g k H. destruct (o_replace o) as [nd|].
    - cbn [andb]. rewrite !andb_false_r. exact H.
    - cbn [andb]. rewrite !andb_true_r. destruct (o_compress o); cbn [orb]; [eexists; reflexivity|].
      destruct (o_join o); [eexists; reflexivity | exact H]. }
  unfold cut_str. rewrite Hre, Ht, Hb.
  cbv beta delta [gen_cut_str] iota zeta. rewrite Hre. cbv iota beta. norm_bools o.
  apply Hpre.
  cbv beta delta [gen_cut_str_s1 gen_cut_str_s2] iota zeta. rewrite Ht.
  cbv beta delta [gen_cut_str_s3] iota zeta.
  destruct line0 as [|c l0]; [destruct (o_only_delimited o); reflexivity|]. cbv iota beta.
  cbn [rx_greedy rx_normal btype_eqb orb]. rewrite andb_false_r. rewrite Hms.
  replace (if o_greedy o then Some ms else Some ms) with (Some ms) by (destruct (o_greedy o); reflexivity).
  set (fields := drop_outer (fields_of_matches ms (c :: l0))) in *.
  cbv beta delta [gen_cut_str_s4 gen_cut_str_s5 gen_cut_str_s6 gen_cut_str_s7 gen_cut_str_s8] iota zeta.
  norm_bools o. rewrite Hre, Hb. cbn [btype_eqb orb andb]. rewrite andb_false_r.
  cbv beta delta [gen_cut_str_s9] iota zeta. rewrite Hre. cbn [andb opt_unwrap bind].
  assert (Hfill : forall rb, rx_matches rb (c :: l0) = Some ms ->
            bind (gen_fill_regex fields0 (c :: l0) rb) (fun '(_, m) => gen_cut_str_s10 (c :: l0) o [] m buf0 [o_eol o] [] true (o_delim o))
            = gen_cut_str_s11 (c :: l0) o [] (map mz fields) buf0 [o_eol o] [] true (o_delim o)).
  { intros rb Hrb. rewrite (tie_fill_regex fields0 (c :: l0) rb ms Hrb). cbn [bind].
    change (map mzz (fields_of_matches ms (c :: l0))) with (map mz (fields_of_matches ms (c :: l0))).
    rewrite (s10_chars o (c :: l0) (fields_of_matches ms (c :: l0)) buf0 [] true (o_delim o) Hb). reflexivity. }
  match goal with |- of_rres_cut _ ?g =>
    assert (Hg : g = gen_cut_str_s11 (c :: l0) o [] (map mz fields) buf0 [o_eol o] [] true (o_delim o)) end.
  { destruct (o_greedy o); apply Hfill; unfold rx_matches, rb_greedy, rb_normal; cbn [fst snd rx_greedy rx_normal]; exact Hms. }
  rewrite Hg; clear Hg.
  pose proof (s11_spec o (c :: l0) fields buf0 [] true (o_delim o) Hmr Hnz Hf) as H11. cbv zeta in H11.
  destruct (o_only_delimited o && Nat.eqb (length fields) 1)%bool; [exact H11|].
  assert (Et : forall X : option rres, X = Some (tail_model o (c :: l0) fields) -> of_rres_cut X (gen_cut_str_s11 (c :: l0) o [] (map mz fields) buf0 [o_eol o] [] true (o_delim o)))
    by (intros X ->; destruct (tail_model o (c :: l0) fields); cbn [of_rres_cut]; try exact H11; exact I).
  apply Et. unfold tail_model, tail2, unpack_wanted. rewrite Hb. cbn [btype_eqb andb].
  destruct (o_complement o).
  - destruct (complement_list (items (o_bounds o)) (length fields)) as [u|]; [|reflexivity].
    destruct ((o_json o || match o_replace o with Some _ => true | None => false end) && needs_unpack (items u))%bool.
    + destruct (unpack_list (items u) (length fields)) as [v|]; [|reflexivity].
      destruct (out_loop o (c :: l0) fields (items v)); reflexivity.
    + destruct (out_loop o (c :: l0) fields (items u)); reflexivity.
  - destruct ((o_json o || match o_replace o with Some _ => true | None => false end) && needs_unpack (items (o_bounds o)))%bool.
    + destruct (unpack_list (items (o_bounds o)) (length fields)) as [v|]; [|reflexivity].
      destruct (out_loop o (c :: l0) fields (items v)); reflexivity.
    + destruct (out_loop o (c :: l0) fields (items (o_bounds o))); reflexivity.
Qed.

Definition tie_cut_str := tie_cut_str_literal.
Print Assumptions tie_cut_str_literal.
Print Assumptions tie_cut_str_regex.
Print Assumptions tie_cut_str_chars.
