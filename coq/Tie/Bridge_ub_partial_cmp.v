(** [UserBounds::partial_cmp], translated from the current source, decides the model's [bound_le]
    (the [prev <= b] test of [is_sorted]) and never panics. *)
From Coq Require Import ZArith Bool List Lia.
From TucModel Require Import Base.Bytes Model.Bounds Tie.RsPrelude Tie.TieBase
  Tie.Gen_side_partial_cmp Tie.Bridge_side_partial_cmp Tie.Gen_ub_partial_cmp.
Local Open Scope Z_scope.

Lemma tie_ub_partial_cmp : forall a b : ubound,
  exists c, gen_ub_partial_cmp a b = Ret c /\ bound_le a b = ord_le c.
Proof.
  intros a b. cbv beta delta [gen_ub_partial_cmp] iota zeta. unfold bound_le.
  destruct (bl b) as [v|];
    match goal with |- context [gen_side_partial_cmp ?x ?y] =>
      destruct (tie_side_partial_cmp x y) as (c & E & _ & Hle); rewrite E; cbn [bind];
      exists c; split; [reflexivity | exact Hle] end.
Qed.
