(** src/cut_str.rs : trim_regex, as translated, is the model's [trim_matches] on the matches the regex
    reports (for any engine whose matches are sorted and inside the record): the first match when it
    starts the record, the last one when it ends it, never the same match twice. *)
From Coq Require Import ZArith Bool List Lia.
From TucModel Require Import Base.Bytes Model.Bounds Model.Scan Model.Regex Model.Opt Model.CutStr Proofs.C12
  Tie.RsPrelude Tie.TieBase Tie.RsStr Tie.RsRegex Tie.Gen_trim_regex.
Import ListNotations.
Local Open Scope Z_scope.


Lemma str_between_nat (s : bytes) (a b : nat) :
  (a <= b)%nat -> (b <= length s)%nat -> str_between s (Z.of_nat a) (Z.of_nat b) = Ret (slice s a b).
Proof.
  intros H1 H2. unfold str_between, slice.
  destruct (Z.leb_spec 0 (Z.of_nat a)); [|lia]. destruct (Z.leb_spec (Z.of_nat a) (Z.of_nat b)); [|lia].
  destruct (Z.leb_spec (Z.of_nat b) (Z.of_nat (length s))); [|lia]. cbn [andb].
  replace (Z.to_nat (Z.of_nat b - Z.of_nat a)) with (b - a)%nat by lia. rewrite Nat2Z.id. reflexivity.
Qed.

Lemma rev_nil_inv {A} (l : list A) : rev l = [] -> l = [].
Proof. intros H. apply (f_equal (@rev A)) in H. rewrite rev_involutive in H. exact H. Qed.

(** the last match of a well-formed list lies between the start and the end *)
Lemma wf_ms_last : forall (ms : list mtch) (s len : nat) (m : mtch),
  wf_ms s ms len -> hd_error (rev ms) = Some m -> (s <= fst m /\ fst m <= snd m /\ snd m <= len)%nat.
Proof.
  induction ms as [|m0 ms IH]; intros s len m Hwf Hl; [discriminate|].
  cbn [wf_ms] in Hwf. destruct Hwf as (H1 & H2 & H3). cbn [rev] in Hl. revert Hl.
  destruct (rev ms) as [|y ys] eqn:Er; intros Hl.
  - cbn in Hl. injection Hl as <-. assert (ms = []) by (apply rev_nil_inv, Er).
    subst ms. cbn [wf_ms] in H3. lia.
  - cbn in Hl. injection Hl as <-. destruct (IH (snd m0) len y H3) as (A & B & C); [try rewrite Er; reflexivity|]. lia.
Qed.

Lemma last_error_map {A B} (f : A -> B) (l : list A) :
  last_error (map f l) = match hd_error (rev l) with Some x => Some (f x) | None => None end.
Proof. unfold last_error. rewrite <- map_rev. destruct (rev l); reflexivity. Qed.

Theorem tie_trim_regex : forall (line : bytes) (k : trimk) (r : rx * bool) (ms : list mtch),
  rx_matches r line = Some ms -> wf_ms 0%nat ms (length line) ->
  gen_trim_regex line k r = Ret (trim_matches k ms line).
Proof.
  intros line k r ms Hm Hwf. cbv beta delta [gen_trim_regex] iota zeta.
  unfold rx_find_iter_z, trim_matches. rewrite Hm. clear Hm.
  assert (Hlast : forall l s m, wf_ms s l (length line) -> hd_error (rev l) = Some m ->
                                (s <= fst m /\ fst m <= snd m /\ snd m <= length line)%nat)
    by (intros l s m; apply wf_ms_last).
  unfold mtch in *.
  change 0 with (Z.of_nat 0).
  destruct ms as [|m ms'].
  - (* no match at all *)
    cbn [map hd_error tl rev]. unfold last_error. cbn [rev hd_error].
    destruct k; cbn [trimk_eqb orb]; rewrite ?str_between_nat by lia; reflexivity.
  - cbn [map hd_error tl]. cbn [wf_ms] in Hwf. destruct Hwf as (W1 & W2 & W3).
    change (fst (mzz m)) with (Z.of_nat (fst m)). change (snd (mzz m)) with (Z.of_nat (snd m)).
    destruct k; cbn [trimk_eqb orb].
    + (* left *)
      destruct (Z.eqb_spec (Z.of_nat (fst m)) (Z.of_nat 0)) as [E|E]; destruct (Nat.eqb_spec (fst m) 0) as [E'|E']; try lia.
      * assert (snd m <= length line)%nat by (destruct (rev ms') as [|y ys] eqn:Er; [apply rev_nil_inv in Er; subst ms'; cbn in W3; lia | destruct (Hlast ms' (snd m) y W3) as (?&?&?); [first [exact (f_equal (@hd_error _) Er) | reflexivity] | lia]]).
        rewrite str_between_nat by lia. reflexivity.
      * rewrite str_between_nat by lia. reflexivity.
    + (* right: the last of all the matches *)
      change (mzz m :: map mzz ms') with (map mzz (m :: ms')). rewrite last_error_map.
      destruct (rev (m :: ms')) as [|y ys] eqn:Er; [apply rev_nil_inv in Er; discriminate|].
      cbn [hd_error]. destruct (Hlast (m :: ms') 0%nat y) as (A & B & C); [cbn [wf_ms]; auto | rewrite Er; reflexivity|].
      change (snd (mzz y)) with (Z.of_nat (snd y)). change (fst (mzz y)) with (Z.of_nat (fst y)).
      destruct (Z.eqb_spec (Z.of_nat (snd y)) (Z.of_nat (length line))) as [E|E]; destruct (Nat.eqb_spec (snd y) (length line)) as [E'|E']; try lia;
        rewrite str_between_nat by lia; reflexivity.
    + (* both *)
      destruct (Z.eqb_spec (Z.of_nat (fst m)) (Z.of_nat 0)) as [E|E]; destruct (Nat.eqb_spec (fst m) 0) as [E'|E']; try lia.
      * (* the first match is taken on the left; the last of the others, if any, on the right *)
        rewrite last_error_map. destruct (rev ms') as [|y ys] eqn:Er.
        -- cbn [hd_error]. assert (ms' = []) by (apply rev_nil_inv, Er).
           subst ms'. cbn in W3. rewrite str_between_nat by lia. reflexivity.
        -- cbn [hd_error]. destruct (Hlast ms' (snd m) y W3) as (A & B & C); [first [exact (f_equal (@hd_error _) Er) | reflexivity]|].
           change (snd (mzz y)) with (Z.of_nat (snd y)). change (fst (mzz y)) with (Z.of_nat (fst y)).
           destruct (Z.eqb_spec (Z.of_nat (snd y)) (Z.of_nat (length line))) as [F|F]; destruct (Nat.eqb_spec (snd y) (length line)) as [F'|F']; try lia;
             rewrite str_between_nat by lia; reflexivity.
      * (* the first match is kept for the right side when it is the only one *)
        rewrite last_error_map. cbn [rev]. destruct (rev ms') as [|y ys] eqn:Er.
        -- cbn [hd_error app]. assert (ms' = []) by (apply rev_nil_inv, Er).
           subst ms'. cbn in W3.
           change (snd (mzz m)) with (Z.of_nat (snd m)). change (fst (mzz m)) with (Z.of_nat (fst m)).
           destruct (Z.eqb_spec (Z.of_nat (snd m)) (Z.of_nat (length line))) as [F|F]; destruct (Nat.eqb_spec (snd m) (length line)) as [F'|F']; try lia;
             rewrite str_between_nat by lia; reflexivity.
        -- cbn [hd_error app]. destruct (Hlast ms' (snd m) y W3) as (A & B & C); [first [exact (f_equal (@hd_error _) Er) | reflexivity]|].
           change (snd (mzz y)) with (Z.of_nat (snd y)). change (fst (mzz y)) with (Z.of_nat (fst y)).
           destruct (Z.eqb_spec (Z.of_nat (snd y)) (Z.of_nat (length line))) as [F|F]; destruct (Nat.eqb_spec (snd y) (length line)) as [F'|F']; try lia;
             rewrite str_between_nat by lia; reflexivity.
Qed.
