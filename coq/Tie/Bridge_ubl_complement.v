(** [UserBoundsList::complement], translated from the current source (with [From<Vec<..>>] taken from
    the model), is the model's [complement_list] on fewer than 2^31 parts: every bound replaced in place
    by its complement, a bound that does not resolve kept as it is, literal text kept; refused when no
    bound is left; and it never panics. *)
From Coq Require Import ZArith Bool List Lia.
From TucModel Require Import Base.Bytes Model.Bounds Tie.RsPrelude Tie.TieBase Tie.RsList
  Tie.Gen_ub_new Tie.Gen_ub_from_range Tie.Gen_ub_try_into_range Tie.Gen_complement_std_range
  Tie.Gen_ub_complement Tie.Bridge_ub_complement Tie.Bridge_ubl_unpack Tie.Bridge_ubl_has_negative_indices Tie.Gen_ubl_complement.
Import ListNotations.
Local Open Scope Z_scope.

Lemma any_is_bound (l : list bof) :
  existsb (fun x => match x with Bound _ => true | Filler _ => false end) l
  = match bounds_only l with [] => false | _ => true end.
Proof.
  unfold bounds_only. induction l as [|[b|f] l IH]; cbn [existsb flat_map app orb]; [reflexivity | reflexivity | exact IH].
Qed.

Lemma tie_ubl_complement : forall (u : ublist) (n : nat),
  Z.of_nat n <= i32_max -> Forall item_left_nz (items u) ->
  gen_ubl_complement u (Z.of_nat n) = Ret (complement_list (items u) n).
Proof.
  intros u n Hn Hnz. cbv beta delta [gen_ubl_complement] iota zeta.
  match goal with |- context [flat_mapM ?F _] =>
    rewrite (flat_mapM_list F (fun x => match x with
                                        | Bound b => match complement_bound b n with Some bs => map Bound bs | None => [Bound b] end
                                        | Filler f => [Filler f] end) item_left_nz)
  end; [| |unfold to_list, iter_list; exact Hnz].
  - cbn [bind]. unfold to_list, iter_list.
    match goal with |- context [anyM ?F _] =>
      rewrite (anyM_spec F (fun x => match x with Bound _ => true | Filler _ => false end)) by (intros [?|?]; reflexivity)
    end.
    cbn [bind]. rewrite any_is_bound. unfold complement_list, complement_items, model_from_vec.
    match goal with |- context [bounds_only ?l] => destruct (bounds_only l) as [|b0 bs0] eqn:Eb end; cbn [negb].
    + reflexivity.
    + unfold from_vec. rewrite Eb. reflexivity.
  - intros [b|f] Hx; [|reflexivity]. cbn beta iota. rewrite (tie_ub_complement b n Hn Hx). cbn [bind].
    destruct (complement_bound b n); reflexivity.
Qed.
