(** Vocabulary and tactics shared by the bridge lemmas: they are meant to survive any rewrite of the Rust
    function that keeps its meaning - unfold both sides, split on every comparison, let
    [lia] finish. *)
From Coq Require Import ZArith Bool List Lia.
From TucModel Require Import Tie.RsPrelude.
Import ListNotations.
Local Open Scope Z_scope.

(* keep integer arithmetic folded: [cbn] must reduce the control structure only, so that [lia] still
   recognises the terms *)
Global Arguments Z.add : simpl never.
Global Arguments Z.sub : simpl never.
Global Arguments Z.opp : simpl never.
Global Arguments Z.mul : simpl never.
Global Arguments Z.ltb : simpl never.
Global Arguments Z.leb : simpl never.
Global Arguments Z.eqb : simpl never.
Global Arguments Z.compare : simpl never.
Global Arguments Z.of_nat : simpl never.
Global Arguments Z.to_nat : simpl never.
Global Arguments Z.modulo : simpl never.
Global Arguments Z.succ : simpl never.

Ltac case_bools :=
  repeat match goal with
  | |- context [Z.ltb ?a ?b] => destruct (Z.ltb_spec a b)
  | |- context [Z.leb ?a ?b] => destruct (Z.leb_spec a b)
  | |- context [Z.eqb ?a ?b] => destruct (Z.eqb_spec a b)
  | |- context [Z.compare ?a ?b] => destruct (Z.compare_spec a b)
  | |- context [Nat.eqb ?a ?b] => destruct (Nat.eqb_spec a b)
  end.

Lemma i32_chk_ok z : i32_min <= z <= i32_max -> i32_chk z = Ret z.
Proof. unfold i32_chk, in_i32, i32_min, i32_max. intros H. destruct (Z.leb_spec (-2147483648) z), (Z.leb_spec z 2147483647); try lia. reflexivity. Qed.

Lemma cast_i32_small z : 0 <= z <= i32_max -> cast_i32 z = z.
Proof. unfold cast_i32, i32_max. intros H. rewrite Z.mod_small by lia. lia. Qed.

Lemma cast_usize_small z : 0 <= z <= i32_max -> cast_usize z = z.
Proof. unfold cast_usize, i32_max. intros H. apply Z.mod_small. lia. Qed.

Ltac chk :=
  repeat match goal with
  | |- context [i32_chk ?z] => rewrite (i32_chk_ok z) by (unfold i32_min, i32_max in *; lia)
  end.

(** closes an equation between results once every comparison has been split: the same value up to
    arithmetic, or contradictory hypotheses *)
Ltac rs_finish :=
  first [ reflexivity
        | exfalso; unfold i32_max, i32_min in *; lia
        | repeat (f_equal; try (unfold i32_max, i32_min in *; lia)); fail ].

(** images of the model's values in the translated code's types *)
Definition range_Z (r : option (nat * nat)) : option (Z * Z) :=
  match r with Some (s, e) => Some (Z.of_nat s, Z.of_nat e) | None => None end.
Definition pairs_Z (l : list (nat * nat)) : list (Z * Z) := map (fun p => (Z.of_nat (fst p), Z.of_nat (snd p))) l.
Definition ord_gt (c : option comparison) : bool := match c with Some Gt => true | _ => false end.
Definition ord_le (c : option comparison) : bool := match c with Some Lt | Some Eq => true | _ => false end.

(** boolean equalities and a grid of arguments, for the search that runs when a bridge lemma no
    longer checks: small values around every sign change plus the widths where i32 arithmetic
    overflows *)
Definition eq_rs {A} (eqA : A -> A -> bool) (x y : rs A) : bool :=
  match x, y with Ret a, Ret b => eqA a b | Panic, Panic => true | _, _ => false end.
Definition eq_opt {A} (eqA : A -> A -> bool) (x y : option A) : bool :=
  match x, y with Some a, Some b => eqA a b | None, None => true | _, _ => false end.
Definition eq_zz (x y : Z * Z) : bool := Z.eqb (fst x) (fst y) && Z.eqb (snd x) (snd y).
Fixpoint eq_list {A} (eqA : A -> A -> bool) (x y : list A) : bool :=
  match x, y with [] , [] => true | a :: x', b :: y' => eqA a b && eq_list eqA x' y' | _, _ => false end.
Definition eq_cmp (x y : comparison) : bool :=
  match x, y with Lt, Lt | Eq, Eq | Gt, Gt => true | _, _ => false end.

Definition grid_idx : list Z :=
  [-2147483648; -2147483647; -65537; -65536; -46341; -4; -3; -2; -1; 0; 1; 2; 3; 4; 46341; 65536; 65537; 2147483646; 2147483647].
Definition grid_n : list nat := [0; 1; 2; 3; 4; 5]%nat.
