(** When the bridge of [cut_lines_forward_only] no longer checks: a grid of option sets, bounds and short inputs. *)
From Coq Require Import ZArith Bool List.
From TucModel Require Import Base.Bytes Model.Bounds Model.Scan Model.Regex Model.Opt Model.CutStr Model.CutLines
  Tie.RsPrelude Tie.TieBase Tie.RsLines Tie.Gen_lines_forward.
Import ListNotations.
Local Open Scope Z_scope.

Definition nl : byte := 10%N.
Definition ca : byte := 97%N.
Definition cb : byte := 98%N.
Definition inputs : list bytes :=
  [[]; [ca]; [ca; nl]; [ca; nl; cb]; [ca; nl; cb; nl]; [ca; nl; nl]; [nl]; [ca; nl; cb; nl; ca; nl]; [200%N; nl; ca; nl]].
Definition ub (l r : side) (fb : option bytes) : bof := Bound (mkB l r false fb).
Definition lists : list (list bof) :=
  [[ub (SSome 1) (SSome 1) None]; [ub (SSome 2) (SSome 2) None]; [ub (SSome 1) (SSome 2) None]; [ub (SSome 2) SCont None];
   [ub (SSome 1) (SSome 1) None; ub (SSome 2) (SSome 3) None]; [ub (SSome 4) (SSome 4) (Some [120%N])];
   [ub (SSome 1) (SSome 1) None; Filler [58%N]; ub (SSome 3) (SSome 3) None]; [ub (SSome 1) (SSome 2) None; ub (SSome 2) (SSome 2) None]].
Definition opts : list opt :=
  flat_map (fun bs => flat_map (fun j => flat_map (fun fb =>
    match from_vec bs with
    | Some u => [mkOpt [nl] nl u BLines false false false None None false j false false fb None]
    | None => [] end) [None; Some [121%N]]) [false; true]) lists.
Definition agree (m : outcome) (g : rs (option unit * bytes)) : bool :=
  match m, g with
  | Done out, Ret (Some _, w) => eq_list N.eqb out w
  | Fail _, Ret (None, _) => true
  | Bytes.Panic, RsPrelude.Panic => true
  | Hang, _ => true
  | _, _ => false
  end.
Definition cex :=
  flat_map (fun o => flat_map (fun i =>
    let g := gen_lines_forward i o in
    let m := fwd_lines o (records (o_eol o) i) (items (o_bounds o)) false 0 [] in
    if agree m g then [] else [(i, o_join o, o_fallback o, items (o_bounds o), m, g)]) inputs) opts.
Eval vm_compute in (length opts, length cex, firstn 2 cex).
