(** [UserBounds::try_into_range], translated from the current source, is the model's
    [try_into_range] for every record of fewer than 2^31 parts: same error cases, same range, and
    none of its i32 additions, subtractions or negations overflows (no [Panic]).  The left side must
    not be the index 0, which the parser never produces ([Side::Some(0)] is rejected by
    [UserBounds::from_str]; with it the code's [v - 1] would wrap to usize::MAX in the cast). *)
From Coq Require Import ZArith Bool List Lia.
From TucModel Require Import Base.Bytes Model.Bounds Tie.RsPrelude Tie.TieBase Tie.Gen_ub_try_into_range.
Local Open Scope Z_scope.

Lemma tie_ub_try_into_range : forall (b : ubound) (n : nat),
  Z.of_nat n <= i32_max -> bl b <> SSome 0 ->
  gen_ub_try_into_range b (Z.of_nat n) = Ret (range_Z (try_into_range b n)).
Proof.
  intros [[l|] [r|] la fb] n Hn Hz; cbn [bl] in Hz; try (assert (l <> 0) by (intros ->; apply Hz; reflexivity));
    cbv beta delta [gen_ub_try_into_range] iota zeta;
    unfold try_into_range, resolve_left, resolve_right; cbn [bl br];
    rewrite cast_i32_small by lia;
    unfold i32_neg, i32_add, i32_sub, bind;
    repeat (case_bools; chk; cbn [orb andb negb]);
    cbn; unfold range_Z;
    rewrite ?cast_usize_small by (unfold i32_max in *; lia);
    rewrite ?Z2Nat.id by lia;
    rs_finish.
Qed.
