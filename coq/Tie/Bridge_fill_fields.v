(** [fill_with_fields_locations] (src/cut_str.rs), translated from the current source with the reused
    vector it fills as an argument and a result: WHATEVER the vector held on entry, it ends up holding
    exactly the model's table of field locations (the gaps between the occurrences [find_iter] reports),
    and nothing in it can panic (text and delimiter together shorter than 2^64 bytes). *)
From Coq Require Import ZArith Bool List Lia.
From TucModel Require Import Base.Bytes Base.ListX Model.Scan Tie.RsPrelude Tie.TieBase Tie.RsStr Tie.RsScan Tie.Gen_fill_fields.
Import ListNotations.
Local Open Scope Z_scope.

Definition mz (m : mtch) : Z * Z := (Z.of_nat (fst m), Z.of_nat (snd m)).

(** the positions [find_iter] reports lie within the text *)
Lemma find_iter_aux_le d : forall l skip pos, Forall (fun p => (p <= pos + length l)%nat) (find_iter_aux d skip pos l).
Proof.
  induction l as [|x l IH]; intros skip pos; cbn [find_iter_aux length].
  - destruct skip; [destruct d|]; repeat constructor. lia.
  - assert (H : forall k, Forall (fun p => (p <= pos + S (length l))%nat) (find_iter_aux d k (S pos) l))
      by (intros k; eapply Forall_impl; [|apply (IH k (S pos))]; cbn; intros; lia).
    destruct skip; [|apply H]. destruct (starts_with d (x :: l)); [constructor; [lia | apply H] | apply H].
Qed.

Fixpoint init_gaps (ld prev : nat) (ps : list nat) : list mtch :=
  match ps with [] => [] | p :: ps' => (prev, p) :: init_gaps ld (p + ld) ps' end.
Fixpoint last_prev (ld prev : nat) (ps : list nat) : nat :=
  match ps with [] => prev | p :: ps' => last_prev ld (p + ld) ps' end.

Lemma gaps_from_init ld len : forall ps prev,
  gaps_from prev (map (fun p => (p, p + ld)%nat) ps) len = init_gaps ld prev ps ++ [(last_prev ld prev ps, len)].
Proof. induction ps as [|p ps IH]; intros prev; cbn [map gaps_from init_gaps last_prev fst snd app]; [reflexivity|]. rewrite IH. reflexivity. Qed.

Lemma fill_loop (F : list (Z * Z) * Z -> Z -> rs (ctrl (list (Z * Z) * Z) unit)) (ld : nat) :
  (forall buf prev idx, 0 <= idx -> idx + Z.of_nat ld <= usize_max ->
     F (buf, prev) idx = Ret (Next (buf ++ [(prev, idx)], idx + Z.of_nat ld))) ->
  forall ps buf prev, Forall (fun p => Z.of_nat p + Z.of_nat ld <= usize_max) ps ->
    loopM F (map Z.of_nat ps) (buf, Z.of_nat prev)
    = Ret (Next (buf ++ map mz (init_gaps ld prev ps), Z.of_nat (last_prev ld prev ps))).
Proof.
  intros HF ps. induction ps as [|p ps IH]; intros buf prev Hall; cbn [map loopM init_gaps last_prev].
  - rewrite app_nil_r. reflexivity.
  - inversion Hall as [|? ? Hp Hps]; subst. rewrite HF by lia. cbn [bind].
    replace (Z.of_nat p + Z.of_nat ld) with (Z.of_nat (p + ld)) by lia. rewrite IH by exact Hps.
    rewrite <- app_assoc. reflexivity.
Qed.

Lemma tie_fill_fields : forall (buffer0 : list (Z * Z)) (line d : bytes),
  Z.of_nat (length line) + Z.of_nat (length d) <= usize_max ->
  gen_fill_fields buffer0 line d = Ret (tt, map mz (fields_of_matches (lit_matches d line) line)).
Proof.
  intros buffer0 line d Hlen. cbv beta delta [gen_fill_fields] iota zeta. unfold fields_of_matches.
  destruct line as [|x line']; [reflexivity|]. set (line := x :: line') in *. cbv iota beta.
  unfold to_list, iter_list, find_iter_z, lit_matches.
  match goal with |- context [loopM ?F _ _] =>
    rewrite (fill_loop F (length d)) with (prev := 0%nat) (buf := @nil (Z * Z))
  end.
  - cbn [bind]. rewrite gaps_from_init, map_app. reflexivity.
  - intros buf prev idx H0 H1. cbv beta iota. unfold usize_add, usize_chk, in_usize.
    destruct (Z.leb_spec 0 (idx + Z.of_nat (length d))); [|lia].
    destruct (Z.leb_spec (idx + Z.of_nat (length d)) usize_max); [|lia]. reflexivity.
  - unfold find_iter. pose proof (find_iter_aux_le d line 0 0) as H. eapply Forall_impl; [|exact H]. cbv beta. intros a Ha. unfold line in *. cbn [length] in *. lia.
Qed.
