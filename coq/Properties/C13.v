(** C13 — an out-of-range bound is never silent.  Statements only. *)
From TucModel Require Import Base.Bytes Model.Bounds Model.CutBytes Model.Scan Model.Opt Model.CutStr
     Model.FastLane Model.CutLines Model.Stream Spec.Resolve Proofs.BoundsFacts Proofs.C06 Proofs.C13 Proofs.C01More Proofs.C13More.
Local Open Scope Z_scope.

(** "cannot be resolved" is exactly: try_into_range fails *)
Theorem C13_unresolvable_iff :
  forall (b : ubound) (n : nat), bound_nz b -> (try_into_range b n = None <-> ~ resolves b n).
Proof.
  intros b n Hnz. split; [apply try_into_range_none | apply unresolved_none; exact Hnz].
Qed.

Theorem C13_byte_mode :
  forall (b : ubound) (l : list bof) (generic : option bytes) (data : bytes),
    bound_nz b -> ~ resolves b (length data) ->
    cut_bytes_items (Bound b :: l) generic data =
    match fallback_rule (bfb b) generic with
    | None => None
    | Some f => match cut_bytes_items l generic data with
                | Some r => Some (f ++ r)
                | None => None
                end
    end.
Proof. exact C13_bytes_unresolved. Qed.

Theorem C13_general_path :
  forall (o : opt) (line : bytes) (fields : list mtch) (b : ubound) (bs : list bof),
    bound_nz b -> ~ resolves b (length fields) ->
    out_loop o line fields (Bound b :: bs) =
    match fallback_rule (bfb b) (o_fallback o) with
    | None => RErr
    | Some f => match emit_part o f with
                | None => RErr
                | Some p => match out_loop o line fields bs with
                            | ROk r => ROk (p ++ sep_of o b ++ r)
                            | e => e
                            end
                end
    end.
Proof. exact C13_general_unresolved. Qed.

Theorem C13_range_expansion_keeps_unresolvable :
  forall (b : ubound) (n : nat), bound_nz b -> ~ resolves b n -> unpack_bound b n = [b].
Proof. exact C13_unpack_keeps. Qed.

Theorem C13_range_expansion_of_resolvable :
  forall (b : ubound) (n s e : nat),
    bound_nz b -> try_into_range b n = Some (s, e) ->
    unpack_bound b n = singles_from s (e - s)
    /\ Forall (fun u => exists i, (s <= i < e)%nat /\ try_into_range u n = Some (i, S i)) (unpack_bound b n).
Proof. exact C13_unpack_expands. Qed.

Theorem C13_fast_path :
  forall (o : opt) (d : byte) (line : bytes) (fields : list nat) (b : ubound) (bs : list bof),
    bound_nz b -> ~ resolves b (length fields - 1) ->
    fast_out o d line fields (Bound b :: bs) =
    match fallback_rule (bfb b) (o_fallback o) with
    | None => RErr
    | Some f => match fast_out o d line fields bs with
                | ROk r => ROk (f ++ (if o_join o && negb (blast b) then [d] else []) ++ r)
                | e => e
                end
    end.
Proof. exact C13_fast_unresolved. Qed.

Theorem C13_resolvable_ignores_fallbacks_general :
  forall (o : opt) (g : option bytes) (line : bytes) (fields : list mtch) (bs : list bof),
    Forall item_nz bs -> Forall (item_resolves (length fields)) bs ->
    out_loop (with_fallback o g) line fields (map strip_fb bs) = out_loop o line fields bs.
Proof. exact C13_general_resolved_no_fallback. Qed.

Theorem C13_resolvable_ignores_fallbacks_fast :
  forall (o : opt) (g : option bytes) (d : byte) (line : bytes) (fields : list nat) (bs : list bof),
    Forall item_nz bs -> Forall (item_resolves (length fields - 1)) bs ->
    fast_out (with_fallback o g) d line fields (map strip_fb bs) = fast_out o d line fields bs.
Proof. exact C13_fast_resolved_no_fallback. Qed.

Theorem C13_resolvable_ignores_fallbacks_bytes :
  forall (g g' : option bytes) (data : bytes) (bs : list bof),
    Forall item_nz bs -> Forall (item_resolves (length data)) bs ->
    cut_bytes_items (map strip_fb bs) g' data = cut_bytes_items bs g data.
Proof. exact C13_bytes_resolved_no_fallback. Qed.

Theorem C13_lines_one_at_a_time :
  forall (o : opt) (b : ubound) (bs : list bof),
    fwd_tail o (Bound b :: bs) =
    match fallback_rule (bfb b) (o_fallback o) with
    | None => None
    | Some f => match fwd_tail o bs with
                | Some r => Some (f ++ (if o_join o && nonempty bs then [o_eol o] else []) ++ r)
                | None => None
                end
    end.
Proof. exact C13_lines_forward_tail. Qed.

Theorem C13_lines_straddling_range_fails :
  forall (o : opt) (b : ubound) (bs : list bof) (v : Z),
    br b = SSome v -> fwd_finish o (Bound b :: bs) true = None.
Proof. exact C13_lines_forward_straddle. Qed.

Theorem C13_fixed_memory :
  forall (so : sopt) (b : ubound) (bs : list bof) (n l : Z),
    bl b = SSome l -> n < l ->
    pff so (Bound b :: bs) n =
    match fallback_rule (bfb b) (s_fallback so) with
    | None => None
    | Some f => match pff so bs n with
                | Some t => Some (f ++ (if s_join so && negb (blast b) then [sdelim so] else []) ++ t)
                | None => None
                end
    end.
Proof. exact C13_stream_not_started. Qed.

(** --complement (-m): a bound that does not resolve is not dropped from the complemented
    list; it stays where it was, so that C13_general_path applies to it *)
Theorem C13_complement_keeps_unresolvable :
  forall (l : list bof) (n : nat) (b : ubound),
    In (Bound b) l -> bound_nz b -> ~ resolves b n -> In (Bound b) (complement_items l n).
Proof. exact C13_complement_keeps. Qed.

(** a whole record through the general path (literal delimiter, field mode: trim, -p, -g,
    -s, -m, -j, -r, format text): if the record was cut - not dropped by -s, not failed - then
    every requested bound that does not resolve on its fields had a fallback, its own or the
    generic one; so an unresolvable bound without fallback always fails the record *)
Theorem C13_whole_record_is_never_silent :
  forall (o : opt) (line0 out : bytes),
    o_regex o = None -> o_btype o = BFields -> o_json o = false ->
    Forall item_nz (items (o_bounds o)) ->
    cut_str o line0 = Some (ROk out) ->
    let line1 := match o_trim o with Some k => trim_lit k (o_delim o) line0 | None => line0 end in
    let fields := snd (lit_stage o line1) in
    line1 <> [] -> (o_only_delimited o && Nat.eqb (length fields) 1) = false ->
    forall b, In (Bound b) (items (o_bounds o)) -> ~ resolves b (length fields) ->
              fallback_for b (o_fallback o) <> None.
Proof. exact general_record_never_silent. Qed.

Print Assumptions C13_unresolvable_iff.
Print Assumptions C13_byte_mode.
Print Assumptions C13_general_path.
Print Assumptions C13_range_expansion_keeps_unresolvable.
Print Assumptions C13_range_expansion_of_resolvable.
Print Assumptions C13_fast_path.
Print Assumptions C13_resolvable_ignores_fallbacks_general.
Print Assumptions C13_resolvable_ignores_fallbacks_fast.
Print Assumptions C13_resolvable_ignores_fallbacks_bytes.
Print Assumptions C13_lines_one_at_a_time.
Print Assumptions C13_lines_straddling_range_fails.
Print Assumptions C13_fixed_memory.
Print Assumptions C13_complement_keeps_unresolvable.
Print Assumptions C13_whole_record_is_never_silent.
