(** C12 — every invocation terminates with status 0 or 1.  Statements only.
    Proved: for every argument vector and every input the model of main() ends in status 0
    or 1 (or help/version, or "outside the model"), never in Panic or Hang; the index sites
    of the general path and of the fast lane cannot go out of range; range expansion is
    bounded by the number of parts.  Every loop of the model is structural or runs on fuel =
    input length + 1, and the fuel is shown never to run out. *)
From TucModel Require Import Base.Bytes Base.ListX Model.Bounds Model.Scan Model.Opt Model.CutBytes
     Model.CutStr Model.FastLane Spec.Resolve Proofs.BoundsFacts Proofs.C06 Proofs.ScanSplit Proofs.C02 Proofs.C12 Model.Stream Model.Args Model.Main Proofs.C04 Proofs.C12Total.

(** every invocation: whatever the argument vector (any strings: huge, negative or zero
    indexes, unbalanced braces, empty values, multi-byte text, regexes in or out of the
    family) and whatever the input (any bytes, empty, no final EOL), the run is a help/
    version text, a rejection, a normal end with status 0 or 1 - or lies outside what the
    model describes ([MUnknown]: a regex outside the modelled family, -c on text that is not
    valid UTF-8).  [Panic] (an index out of range, an unwrap on None) and [Hang] (a loop
    that does not consume input) are unreachable. *)
Theorem C12_every_invocation_ends_with_status_0_or_1 :
  forall (argv : args) (input : bytes), mres_ok (run_main argv input).
Proof. exact every_run_terminates_normally. Qed.

(** the same per option set, for every option set with well-formed bounds (what parse_args
    builds - C12_parse_args_builds_well_formed_options) *)
Theorem C12_every_option_set_terminates :
  forall (o : opt) (input : bytes), parsed_opt o -> mres_ok (run_opt o input).
Proof. exact run_opt_total. Qed.

Theorem C12_parse_args_builds_well_formed_options :
  forall (argv : args) (o : opt), parse_args argv = POpt o -> parsed_opt o.
Proof. exact parse_args_builds_parsed_opt. Qed.

(** one record through the whole general path (trim, compress, split plain/greedy/regex/
    characters, -s, complement, range expansion, output loop): never Panic, never Hang *)
Theorem C12_general_path_record :
  forall (o : opt) (line0 : bytes), bounds_ok o -> rx_consistent o ->
    match cut_str o line0 with Some r => rres_ok r | None => True end.
Proof. exact cut_str_total. Qed.

(** -M never runs out of fuel and every record read to its EOL yields output or fails *)
Theorem C12_fixed_memory_terminates :
  forall (so : sopt) (input : bytes), no_adjacent_fillers (s_items so) ->
    outcome_ok (run_stream_whole so input).
Proof. exact fixed_memory_total. Qed.

(** the literal splitter (plain and greedy) yields sorted, non-overlapping, in-range matches
    for every delimiter, the empty one included *)
Theorem C12_literal_matches_are_well_formed :
  forall d line : bytes, wf_ms 0 (lit_matches d line) (length line).
Proof. exact lit_matches_wf. Qed.

Theorem C12_greedy_matches_are_well_formed :
  forall (ms : list mtch) (len : nat), wf_ms 0 ms len -> wf_ms 0 (merge_adjacent ms) len.
Proof. exact merge_adjacent_wf. Qed.

(** fields[r.start], fields[r.end - 1] and line[a..z] of the general path never panic *)
Theorem C12_general_path_never_indexes_out_of_range :
  forall (o : opt) (line : bytes) (ms : list mtch) (bs : list bof),
    line <> [] -> wf_ms 0 ms (length line) -> Forall item_nz bs ->
    out_loop o line (fields_of_matches ms line) bs <> RPanic.
Proof. exact out_loop_no_panic. Qed.

Theorem C12_fast_lane_never_indexes_out_of_range :
  forall (o : opt) (l : list bof) (line0 : bytes),
    fast_eligible o = true -> from_vec l = Some (o_bounds o) -> Forall item_nz l ->
    cut_str o line0 <> Some RPanic -> cut_fast o line0 <> RPanic.
Proof. exact fast_no_panic. Qed.

(** the work of range expansion does not grow with the numeric value of an index *)
Theorem C12_range_expansion_is_bounded_by_the_parts :
  forall (b : ubound) (n : nat), bound_nz b -> length (unpack_bound b n) <= Nat.max 1 n.
Proof. exact unpack_cost. Qed.

Print Assumptions C12_literal_matches_are_well_formed.
Print Assumptions C12_greedy_matches_are_well_formed.
Print Assumptions C12_general_path_never_indexes_out_of_range.
Print Assumptions C12_fast_lane_never_indexes_out_of_range.
Print Assumptions C12_range_expansion_is_bounded_by_the_parts.
Print Assumptions C12_every_invocation_ends_with_status_0_or_1.
Print Assumptions C12_every_option_set_terminates.
Print Assumptions C12_parse_args_builds_well_formed_options.
Print Assumptions C12_general_path_record.
Print Assumptions C12_fixed_memory_terminates.
