(** C12 — every invocation terminates with status 0 or 1.  Statements only.
    Proved: the index sites of the general path and of the fast lane cannot go out of range,
    and range expansion is bounded by the number of parts.  Every loop of the model is
    structural or runs on fuel = input length + 1. *)
From TucModel Require Import Base.Bytes Base.ListX Model.Bounds Model.Scan Model.Opt Model.CutBytes
     Model.CutStr Model.FastLane Spec.Resolve Proofs.BoundsFacts Proofs.C06 Proofs.ScanSplit Proofs.C02 Proofs.C12.

(** the literal splitter (plain and greedy) yields sorted, non-overlapping, in-range matches
    for every delimiter, the empty one included *)
Theorem C12_literal_matches_are_well_formed :
  forall d line : bytes, wf_ms 0 (lit_matches d line) (length line).
Proof. exact lit_matches_wf. Qed.

Theorem C12_greedy_matches_are_well_formed :
  forall (ms : list mtch) (len : nat), wf_ms 0 ms len -> wf_ms 0 (merge_adjacent ms) len.
Proof. exact merge_adjacent_wf. Qed.

(** fields[r.start], fields[r.end - 1] and line[a..z] of the general path never panic *)
Theorem C12_general_path_never_indexes_out_of_range :
  forall (o : opt) (line : bytes) (ms : list mtch) (bs : list bof),
    line <> [] -> wf_ms 0 ms (length line) -> Forall item_nz bs ->
    out_loop o line (fields_of_matches ms line) bs <> RPanic.
Proof. exact out_loop_no_panic. Qed.

Theorem C12_fast_lane_never_indexes_out_of_range :
  forall (o : opt) (l : list bof) (line0 : bytes),
    fast_eligible o = true -> from_vec l = Some (o_bounds o) -> Forall item_nz l ->
    cut_str o line0 <> Some RPanic -> cut_fast o line0 <> RPanic.
Proof. exact fast_no_panic. Qed.

(** the work of range expansion does not grow with the numeric value of an index *)
Theorem C12_range_expansion_is_bounded_by_the_parts :
  forall (b : ubound) (n : nat), bound_nz b -> length (unpack_bound b n) <= Nat.max 1 n.
Proof. exact unpack_cost. Qed.

Print Assumptions C12_literal_matches_are_well_formed.
Print Assumptions C12_greedy_matches_are_well_formed.
Print Assumptions C12_general_path_never_indexes_out_of_range.
Print Assumptions C12_fast_lane_never_indexes_out_of_range.
Print Assumptions C12_range_expansion_is_bounded_by_the_parts.
