(** C01 — field mode emits exactly the requested fields.  Statements only.
    Proved here: the splitting core for every non-empty literal delimiter (self-overlapping
    ones included).  The full statement (trim, -p, -g, the output loop) is the executable
    model itself, tied to the code by the correspondence check; see DESIGN.md §3 C01. *)
From TucModel Require Import Base.Bytes Base.ListX Model.Bounds Model.BoundsParse Model.Scan Model.Opt
     Model.CutBytes Model.CutStr Spec.Fields Proofs.C06 Proofs.ScanSplit Proofs.Plain.

(** the byte ranges pushed by fill_with_fields_locations cut a non-empty record into
    pieces ps with  p1 ++ d ++ p2 ++ ... ++ pk = record  where every delimiter occurrence used
    is the leftmost one not overlapping the previous (no byte lost, altered or reordered,
    no field contains a delimiter occurrence that a left-to-right scan would have taken) *)
Theorem C01_fields_locations_are_fields :
  forall d line : bytes, d <> [] -> line <> [] ->
    is_split d line (pieces line (fields_of_matches (lit_matches d line) line)).
Proof. exact fields_locations_are_fields. Qed.

(** the same ranges, as values: the offset-level scan equals the value-level scan *)
Theorem C01_offsets_equal_values :
  forall d line : bytes, d <> [] -> line <> [] ->
    pieces line (fields_of_matches (lit_matches d line) line) = split d line.
Proof. exact scan_ranges_split. Qed.

Theorem C01_split_is_leftmost_nonoverlapping :
  forall d line : bytes, d <> [] -> is_split d line (split d line).
Proof. exact split_is_split. Qed.

(** the whole record under plain options (one-byte delimiter; any bounds list incl. negative,
    open, repeated, reordered, format text, fallbacks; -j; -r R of any length): for each
    bound, in the order written, the record's fields from the bound's first to its last,
    joined by the (replacement) delimiter, the (replacement) delimiter after every bound but
    the last only under -j/-r, then the EOL *)
Theorem C01_plain_record_is_exactly_the_requested_fields :
  forall (o : opt) (d : byte) (line : bytes),
    plain_opts o d -> o_trim o = None -> o_only_delimited o = false ->
    line <> [] -> Forall item_nz (items (o_bounds o)) ->
    cut_str o line
    = Some (match spec_items (split_on d line) (o_fallback o) (o_join o) (rep_of o d) (items (o_bounds o)) with
            | Some x => ROk (x ++ [o_eol o])
            | None => RErr
            end).
Proof. exact general_plain_record. Qed.

(** the slice from the start of a bound's first field to the end of its last field is those
    fields joined by the delimiter; replacing the delimiter rewrites exactly the separators *)
Theorem C01_replacement_rewrites_exactly_the_separators :
  forall (d : byte) (rep : bytes) (fs : list bytes), fs <> [] -> Forall (dfree d) fs ->
    replace_matches (intercalate [d] fs) (lit_matches [d] (intercalate [d] fs)) rep = intercalate rep fs.
Proof. exact replace_joined. Qed.

(** non-vacuity: '--' in '---' (self-overlapping): fields "" and "-" *)
Example C01_self_overlapping :
  pieces [45;45;45]%N (fields_of_matches (lit_matches [45;45]%N [45;45;45]%N) [45;45;45]%N)
  = [[]; [45%N]].
Proof. reflexivity. Qed.

Print Assumptions C01_fields_locations_are_fields.
Print Assumptions C01_offsets_equal_values.
Print Assumptions C01_split_is_leftmost_nonoverlapping.
Print Assumptions C01_plain_record_is_exactly_the_requested_fields.
Print Assumptions C01_replacement_rewrites_exactly_the_separators.
