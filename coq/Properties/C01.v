(** C01 — field mode emits exactly the requested fields.  Statements only.
    Proved here: the splitting core for every non-empty literal delimiter (self-overlapping
    ones included); what -g, -p, -t and -s do to the fields; how the general path stages a
    record; the whole record under plain options.  See DESIGN.md §3 C01. *)
From TucModel Require Import Base.Bytes Base.ListX Model.Bounds Model.BoundsParse Model.Scan Model.Opt
     Model.CutBytes Model.CutStr Spec.Fields Proofs.C06 Proofs.ScanSplit Proofs.Plain Proofs.C01More Proofs.PlainMulti Proofs.Greedy.

(** the byte ranges pushed by fill_with_fields_locations cut a non-empty record into
    pieces ps with  p1 ++ d ++ p2 ++ ... ++ pk = record  where every delimiter occurrence used
    is the leftmost one not overlapping the previous (no byte lost, altered or reordered,
    no field contains a delimiter occurrence that a left-to-right scan would have taken) *)
Theorem C01_fields_locations_are_fields :
  forall d line : bytes, d <> [] -> line <> [] ->
    is_split d line (pieces line (fields_of_matches (lit_matches d line) line)).
Proof. exact fields_locations_are_fields. Qed.

(** the same ranges, as values: the offset-level scan equals the value-level scan *)
Theorem C01_offsets_equal_values :
  forall d line : bytes, d <> [] -> line <> [] ->
    pieces line (fields_of_matches (lit_matches d line) line) = split d line.
Proof. exact scan_ranges_split. Qed.

Theorem C01_split_is_leftmost_nonoverlapping :
  forall d line : bytes, d <> [] -> is_split d line (split d line).
Proof. exact split_is_split. Qed.

(** the whole record under plain options (one-byte delimiter; any bounds list incl. negative,
    open, repeated, reordered, format text, fallbacks; -j; -r R of any length): for each
    bound, in the order written, the record's fields from the bound's first to its last,
    joined by the (replacement) delimiter, the (replacement) delimiter after every bound but
    the last only under -j/-r, then the EOL *)
Theorem C01_plain_record_is_exactly_the_requested_fields :
  forall (o : opt) (d : byte) (line : bytes),
    plain_opts o d -> o_trim o = None -> o_only_delimited o = false ->
    line <> [] -> Forall item_nz (items (o_bounds o)) ->
    cut_str o line
    = Some (match spec_items (split_on d line) (o_fallback o) (o_join o) (rep_of o d) (items (o_bounds o)) with
            | Some x => ROk (x ++ [o_eol o])
            | None => RErr
            end).
Proof. exact general_plain_record. Qed.

(** the slice from the start of a bound's first field to the end of its last field is those
    fields joined by the delimiter; replacing the delimiter rewrites exactly the separators *)
Theorem C01_replacement_rewrites_exactly_the_separators :
  forall (d : byte) (rep : bytes) (fs : list bytes), fs <> [] -> Forall (dfree d) fs ->
    replace_matches (intercalate [d] fs) (lit_matches [d] (intercalate [d] fs)) rep = intercalate rep fs.
Proof. exact replace_joined. Qed.

(** the fields of the statement are unique: any cutting of the record that satisfies
    [is_split] is the one the splitter computes *)
Theorem C01_fields_are_unique :
  forall d : bytes, d <> [] -> forall (ps : list bytes) (line : bytes), is_split d line ps -> split d line = ps.
Proof. exact split_unique. Qed.

(** -g counts a run of delimiters as one separator: the fields are those of the record minus
    the empty ones strictly inside it (the ranges still index the original record, so a
    selected range prints the runs between its fields whole) *)
Theorem C01_greedy_fields :
  forall d line : bytes, d <> [] -> line <> [] ->
    pieces line (fields_of_matches (merge_adjacent (lit_matches d line)) line) = squeeze (split d line).
Proof. exact greedy_fields. Qed.

(** -p collapses every run of delimiters before the fields are counted: the compressed
    record is those same fields joined by single delimiters, and cutting it gives them back *)
Theorem C01_compress_collapses_runs :
  forall d line : bytes, d <> [] -> line <> [] ->
    compress_delimiter d line = intercalate d (squeeze (split d line)).
Proof. exact compress_is_squeeze. Qed.

Theorem C01_compress_then_split :
  forall d line : bytes, d <> [] -> line <> [] ->
    split d (compress_delimiter d line) = squeeze (split d line).
Proof. exact compress_then_split. Qed.

(** -t l / -t r: every whole copy of the delimiter at that end goes, nothing else *)
Theorem C01_trim_left :
  forall d l : bytes, d <> [] ->
    exists k, l = copies d k ++ trim_left d l /\ strip_prefix d (trim_left d l) = None.
Proof. exact trim_left_spec. Qed.

Theorem C01_trim_right :
  forall d l : bytes, d <> [] ->
    exists k, l = trim_right d l ++ copies d k /\ forall x, trim_right d l <> x ++ d.
Proof. exact trim_right_spec. Qed.

(** -s drops exactly the records that contain no delimiter *)
Theorem C01_one_field_iff_no_delimiter :
  forall d line : bytes, d <> [] -> (length (split d line) = 1 <-> ~ occurs_in d line).
Proof. exact one_field_iff_no_delimiter. Qed.

(** the general path on a literal delimiter in field mode is: trim, then (empty record ->
    EOL or nothing under -s), else stage the record ([lit_stage]: compress, split plain or
    greedy), then [finish_record] (-s, complement, output loop, EOL) ... *)
Theorem C01_general_path_stages :
  forall (o : opt) (line0 : bytes),
    o_regex o = None -> o_btype o = BFields -> o_json o = false ->
    cut_str o line0
    = Some (let line1 := match o_trim o with
                         | None => line0
                         | Some k => trim_lit k (o_delim o) line0
                         end in
            match line1 with
            | [] => ROk (if o_only_delimited o then [] else [o_eol o])
            | _ => finish_record o (fst (lit_stage o line1)) (snd (lit_stage o line1))
            end).
Proof. exact cut_str_literal. Qed.

(** ... and the fields it hands to the output loop are the fields of the statement for that
    option set, for every combination of -p and -g *)
Theorem C01_staged_fields_are_the_fields :
  forall (o : opt) (line1 : bytes), o_delim o <> [] -> line1 <> [] ->
    pieces (fst (lit_stage o line1)) (snd (lit_stage o line1)) = spec_fields o line1.
Proof. exact stage_fields. Qed.

(** the whole record as a function of the record, for every non-empty literal delimiter
    (multi-byte and self-overlapping ones included) and every combination of -t, -p, -s, -m,
    -j, -r, format text and fallbacks (everything but -g): after trimming, an empty record
    gives an empty record (nothing under -s); otherwise the fields are those of the
    statement (squeezed under -p), a record with a single field is dropped under -s, and
    each bound (of the request, or of its complement under -m) prints, in the order written,
    its fields joined by the (replacement) delimiter, the (replacement) delimiter after
    every bound but the last only under -j/-r, fallbacks in place, then the EOL *)
Theorem C01_record_as_a_function_of_its_fields :
  forall (o : opt) (line0 : bytes),
    value_opts o -> Forall item_nz (items (o_bounds o)) ->
    cut_str o line0
    = Some (let line1 := match o_trim o with Some k => trim_lit k (o_delim o) line0 | None => line0 end in
            match line1 with
            | [] => ROk (if o_only_delimited o then [] else [o_eol o])
            | _ =>
                let fs := if o_compress o then squeeze (split (o_delim o) line1) else split (o_delim o) line1 in
                if o_only_delimited o && Nat.eqb (length fs) 1 then ROk []
                else match effective_bounds o (length fs) with
                     | None => RErr
                     | Some bs =>
                         match spec_items fs (o_fallback o) (o_join o) (rep_of' o) bs with
                         | Some x => ROk (x ++ [o_eol o])
                         | None => RErr
                         end
                     end
            end).
Proof. exact general_record_value. Qed.

(** ... and under -g (with any of -t, -p, -s, -m, -j, -r, format text, fallbacks): the fields
    counted are the first field, the non-empty ones and the last ([kept_v] gives their
    positions among all the fields of the record; as values they are [squeeze]); a bound that
    resolves to the counted fields s+1..e prints every field of the record from the first of
    them to the last of them joined by the (replacement) delimiter - so the runs of
    delimiters between them are printed whole, or each delimiter of a run replaced under -r *)
Theorem C01_record_as_a_function_of_its_fields_greedy :
  forall (o : opt) (line0 : bytes),
    greedy_opts o -> Forall item_nz (items (o_bounds o)) ->
    cut_str o line0
    = Some (let d := o_delim o in
            let line1 := match o_trim o with Some k => trim_lit k d line0 | None => line0 end in
            match line1 with
            | [] => ROk (if o_only_delimited o then [] else [o_eol o])
            | _ =>
                let ps := if o_compress o then squeeze (split d line1) else split d line1 in
                let ks := kept_v ps in
                if o_only_delimited o && Nat.eqb (length ks) 1 then ROk []
                else match effective_bounds o (length ks) with
                     | None => RErr
                     | Some bs =>
                         match spec_items_g ps ks (o_fallback o) (o_join o) (rep_of' o) bs with
                         | Some x => ROk (x ++ [o_eol o])
                         | None => RErr
                         end
                     end
            end).
Proof. exact general_record_value_greedy. Qed.

Theorem C01_greedy_counted_fields_are_the_squeezed_ones :
  forall ps : list bytes, map (fun k => nth k ps []) (kept_v ps) = squeeze ps.
Proof. exact kept_v_is_squeeze. Qed.

(** the slice from the start of a bound's first field to the end of its last is those
    fields joined by the delimiter, for any delimiter; -r rewrites exactly the separators *)
Theorem C01_replacement_rewrites_exactly_the_separators_any_delimiter :
  forall (d rep : bytes) (fs : list bytes), d <> [] -> fs <> [] -> leftmost_fields d fs ->
    replace_matches (intercalate d fs) (lit_matches d (intercalate d fs)) rep = intercalate rep fs.
Proof. exact replace_joined_gen. Qed.

(** non-vacuity: '--' in '---' (self-overlapping): fields "" and "-" *)
Example C01_self_overlapping :
  pieces [45;45;45]%N (fields_of_matches (lit_matches [45;45]%N [45;45;45]%N) [45;45;45]%N)
  = [[]; [45%N]].
Proof. reflexivity. Qed.

Print Assumptions C01_fields_locations_are_fields.
Print Assumptions C01_offsets_equal_values.
Print Assumptions C01_split_is_leftmost_nonoverlapping.
Print Assumptions C01_plain_record_is_exactly_the_requested_fields.
Print Assumptions C01_replacement_rewrites_exactly_the_separators.
Print Assumptions C01_fields_are_unique.
Print Assumptions C01_greedy_fields.
Print Assumptions C01_compress_collapses_runs.
Print Assumptions C01_compress_then_split.
Print Assumptions C01_trim_left.
Print Assumptions C01_trim_right.
Print Assumptions C01_one_field_iff_no_delimiter.
Print Assumptions C01_general_path_stages.
Print Assumptions C01_staged_fields_are_the_fields.

(** non-vacuity: a--b-  under -p and under -g: fields a, b and the empty last one *)
Example C01_squeeze_example :
  compress_delimiter [45]%N [97;45;45;98;45]%N = [97;45;98;45]%N
  /\ squeeze (split [45]%N [97;45;45;98;45]%N) = [[97]; [98]; []]%N
  /\ pieces [97;45;45;98;45]%N
        (fields_of_matches (merge_adjacent (lit_matches [45]%N [97;45;45;98;45]%N)) [97;45;45;98;45]%N)
     = [[97]; [98]; []]%N.
Proof. repeat split; reflexivity. Qed.
Print Assumptions C01_record_as_a_function_of_its_fields.
Print Assumptions C01_replacement_rewrites_exactly_the_separators_any_delimiter.

(** non-vacuity: '--' as delimiter, -p -s -j, bounds 2,1 on  a----b--  : fields a, b, "" *)
Example C01_value_example :
  squeeze (split [45;45]%N [97;45;45;45;45;98;45;45]%N) = [[97]; [98]; []]%N
  /\ spec_items [[97]; [98]; []]%N None true [45;45]%N
        [Bound (mkB (SSome 2) (SSome 2) false None); Bound (mkB (SSome 1) (SSome 1) true None)]
     = Some [98;45;45;97]%N.
Proof. split; reflexivity. Qed.
Print Assumptions C01_record_as_a_function_of_its_fields_greedy.
Print Assumptions C01_greedy_counted_fields_are_the_squeezed_ones.

(** non-vacuity: a--b-c under -g: counted fields a, b, c at positions 0, 2, 3; the bound 1:2
    prints  a--b  (the run whole), and  a//b  under -r / *)
Example C01_greedy_example :
  kept_v (split [45]%N [97;45;45;98;45;99]%N) = [0; 2; 3]
  /\ spec_items_g (split [45]%N [97;45;45;98;45;99]%N) [0; 2; 3] None false [45]%N
        [Bound (mkB (SSome 1) (SSome 2) true None)] = Some [97;45;45;98]%N
  /\ spec_items_g (split [45]%N [97;45;45;98;45;99]%N) [0; 2; 3] None true [47]%N
        [Bound (mkB (SSome 1) (SSome 2) true None)] = Some [97;47;47;98]%N.
Proof. repeat split; reflexivity. Qed.
