(** C01 — field mode emits exactly the requested fields.  Statements only.
    Proved here: the splitting core for every non-empty literal delimiter (self-overlapping
    ones included).  The full statement (trim, -p, -g, the output loop) is the executable
    model itself, tied to the code by the correspondence check; see DESIGN.md §3 C01. *)
From TucModel Require Import Base.Bytes Base.ListX Model.Scan Spec.Fields Proofs.ScanSplit.

(** the byte ranges pushed by fill_with_fields_locations cut a non-empty record into
    pieces ps with  p1 ++ d ++ p2 ++ ... ++ pk = record  where every delimiter occurrence used
    is the leftmost one not overlapping the previous (no byte lost, altered or reordered,
    no field contains a delimiter occurrence that a left-to-right scan would have taken) *)
Theorem C01_fields_locations_are_fields :
  forall d line : bytes, d <> [] -> line <> [] ->
    is_split d line (pieces line (fields_of_matches (lit_matches d line) line)).
Proof. exact fields_locations_are_fields. Qed.

(** the same ranges, as values: the offset-level scan equals the value-level scan *)
Theorem C01_offsets_equal_values :
  forall d line : bytes, d <> [] -> line <> [] ->
    pieces line (fields_of_matches (lit_matches d line) line) = split d line.
Proof. exact scan_ranges_split. Qed.

Theorem C01_split_is_leftmost_nonoverlapping :
  forall d line : bytes, d <> [] -> is_split d line (split d line).
Proof. exact split_is_split. Qed.

(** non-vacuity: '--' in '---' (self-overlapping): fields "" and "-" *)
Example C01_self_overlapping :
  pieces [45;45;45]%N (fields_of_matches (lit_matches [45;45]%N [45;45;45]%N) [45;45;45]%N)
  = [[]; [45%N]].
Proof. reflexivity. Qed.

Print Assumptions C01_fields_locations_are_fields.
Print Assumptions C01_offsets_equal_values.
Print Assumptions C01_split_is_leftmost_nonoverlapping.
