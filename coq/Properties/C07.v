(** C07 — character mode cuts by Unicode scalar value and never splits one.  Statements only.
    Assumed (not proved; exercised by the correspondence run): the regex \b|\B yields an
    empty match at exactly the scalar boundaries of a valid UTF-8 record - which is what
    [char_matches] models. *)
From TucModel Require Import Base.Bytes Base.ListX Model.Scan Model.Utf8 Model.CutStr Proofs.ScanSplit Proofs.C07.

(** the fields character mode indexes are exactly the scalar encodings of the record, whole
    and in order (so every index, negative ones included, counts characters) *)
Theorem C07_fields_are_the_characters :
  forall (line : bytes) (cs : list bytes),
    utf8_chars line = Some cs -> cs <> [] ->
    exists ms, char_matches line = Some ms
               /\ pieces line (drop_outer (fields_of_matches ms line)) = cs.
Proof. exact chars_are_fields. Qed.

(** the characters of a valid record concatenate back to it, and none is empty *)
Theorem C07_characters_tile_the_record :
  forall (fuel : nat) (l : bytes) (cs : list bytes),
    utf8_chars_fuel fuel l = Some cs -> concat cs = l /\ Forall (fun c => c <> []) cs.
Proof. exact utf8_chars_fuel_concat. Qed.

Example C07_example :   (* "a€" : one 1-byte and one 3-byte scalar *)
  utf8_chars [97; 226; 130; 172]%N = Some [[97%N]; [226; 130; 172]%N].
Proof. reflexivity. Qed.

Print Assumptions C07_fields_are_the_characters.
Print Assumptions C07_characters_tile_the_record.
