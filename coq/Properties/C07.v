(** C07 — character mode cuts by Unicode scalar value and never splits one.  Statements only.
    Assumed (not proved; exercised by the correspondence run): the regex \b|\B yields an
    empty match at exactly the scalar boundaries of a valid UTF-8 record - which is what
    [char_matches] models. *)
From TucModel Require Import Base.Bytes Base.ListX Model.Scan Model.Utf8 Model.CutStr Proofs.ScanSplit Proofs.C07 Proofs.C07More Proofs.C07Utf8.

(** the fields character mode indexes are exactly the scalar encodings of the record, whole
    and in order (so every index, negative ones included, counts characters) *)
Theorem C07_fields_are_the_characters :
  forall (line : bytes) (cs : list bytes),
    utf8_chars line = Some cs -> cs <> [] ->
    exists ms, char_matches line = Some ms
               /\ pieces line (drop_outer (fields_of_matches ms line)) = cs.
Proof. exact chars_are_fields. Qed.

(** the characters of a valid record concatenate back to it, and none is empty *)
Theorem C07_characters_tile_the_record :
  forall (fuel : nat) (l : bytes) (cs : list bytes),
    utf8_chars_fuel fuel l = Some cs -> concat cs = l /\ Forall (fun c => c <> []) cs.
Proof. exact utf8_chars_fuel_concat. Qed.

(** a bound that resolves to the characters s+1 .. e prints exactly those characters, whole
    and in order: the bytes between the start of the first and the end of the last are their
    concatenation (negative and open sides are resolved against the number of characters
    by C09/C06's [try_into_range]) *)
Theorem C07_a_range_prints_exactly_the_selected_characters :
  forall (line : bytes) (cs : list bytes) (ms : list mtch) (s e a z : nat),
    utf8_chars line = Some cs -> char_matches line = Some ms ->
    s < e -> e <= length cs ->
    range_start (drop_outer (fields_of_matches ms line)) s = Some a ->
    range_end (drop_outer (fields_of_matches ms line)) (e - 1) = Some z ->
    slice line a z = concat (slice cs s e).
Proof. exact chars_range_is_the_selected_characters. Qed.

(** the characters of a valid text are whole scalar encodings, and any run of whole
    characters is valid UTF-8 again: no character is split, the output stays valid *)
Theorem C07_characters_are_whole_scalars :
  forall (fuel : nat) (l : bytes) (cs : list bytes), utf8_chars_fuel fuel l = Some cs -> Forall scalar cs.
Proof. exact utf8_chars_fuel_scalar. Qed.

Theorem C07_selected_characters_are_valid_utf8 :
  forall (line : bytes) (cs : list bytes) (s e : nat),
    utf8_chars line = Some cs -> utf8_valid (concat (slice cs s e)) = true.
Proof. exact selected_characters_are_valid_utf8. Qed.

Example C07_example :   (* "a€" : one 1-byte and one 3-byte scalar *)
  utf8_chars [97; 226; 130; 172]%N = Some [[97%N]; [226; 130; 172]%N].
Proof. reflexivity. Qed.

Print Assumptions C07_fields_are_the_characters.
Print Assumptions C07_characters_tile_the_record.
Print Assumptions C07_a_range_prints_exactly_the_selected_characters.
Print Assumptions C07_characters_are_whole_scalars.
Print Assumptions C07_selected_characters_are_valid_utf8.
