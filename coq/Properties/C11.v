(** C11 — -z is newline mode with the roles of LF and NUL exchanged.  Statements only. *)
From TucModel Require Import Base.Bytes Base.ListX Model.Bounds Model.Scan Model.Utf8 Model.Regex Model.Opt Model.CutStr
     Model.FastLane Model.CutLines Model.Stream Proofs.C06 Proofs.C11 Proofs.C11Run Proofs.C11Utf8 Proofs.C11Stream Proofs.C11Lines.

(** records: reading the exchanged input with the exchanged terminator gives the exchanged records *)
Theorem C11_records :
  forall (eol : byte) (l : bytes), records (swap eol) (map swap l) = map (map swap) (records eol l).
Proof. exact C11_records_swap. Qed.

(** more generally nothing in record splitting, field location, trimming or -p looks at
    the value of a byte, only at which bytes are equal: they commute with every injective
    renaming of the bytes (exchanging LF and NUL is one; CR is like any other byte) *)
Theorem C11_record_splitting_is_value_blind :
  forall f : byte -> byte, (forall a b, f a = f b -> a = b) ->
  forall (eol : byte) (l : bytes), records (f eol) (map f l) = map (map f) (records eol l).
Proof. exact records_rename. Qed.

Theorem C11_field_locations_are_value_blind :
  forall f : byte -> byte, (forall a b, f a = f b -> a = b) ->
  forall d line : bytes,
    fields_of_matches (lit_matches (map f d) (map f line)) (map f line)
    = fields_of_matches (lit_matches d line) line.
Proof. exact fields_locations_rename. Qed.

Theorem C11_greedy_field_locations_are_value_blind :
  forall f : byte -> byte, (forall a b, f a = f b -> a = b) ->
  forall d line : bytes,
    fields_of_matches (merge_adjacent (lit_matches (map f d) (map f line))) (map f line)
    = fields_of_matches (merge_adjacent (lit_matches d line)) line.
Proof. exact greedy_locations_rename. Qed.

Theorem C11_trim_is_value_blind :
  forall f : byte -> byte, (forall a b, f a = f b -> a = b) ->
  forall (k : trimk) (d l : bytes), trim_lit k (map f d) (map f l) = map f (trim_lit k d l).
Proof. exact trim_rename. Qed.

Theorem C11_compress_is_value_blind :
  forall f : byte -> byte, (forall a b, f a = f b -> a = b) ->
  forall d line : bytes, compress_delimiter (map f d) (map f line) = map f (compress_delimiter d line).
Proof. exact compress_rename. Qed.

Theorem C11_swap_is_a_renaming : forall a b : byte, swap a = swap b -> a = b.
Proof. exact swap_injective. Qed.

(** whole runs of the general path (multi-byte delimiters, -g -p -t -s -m -j -r, format text,
    fallbacks; no regex, no --json): with option texts that hold neither LF nor NUL, running
    with the other terminator on the input with LF and NUL exchanged gives the exchanged
    output and the same status *)
Theorem C11_general_path :
  forall (o : opt) (input : bytes),
    o_regex o = None -> o_json o = false -> neutral_texts o ->
    read_and_cut_str (with_eol (swap (o_eol o)) o) (map swap input)
    = option_map (rename_outcome swap) (read_and_cut_str o input).
Proof. exact C11_general_path_swap. Qed.

(** ... more generally under every injective renaming applied to the input and to every
    option text (the terminator, the delimiter, the replacement, fallbacks, format text) *)
Theorem C11_general_path_is_value_blind :
  forall f : byte -> byte, (forall a b, f a = f b -> a = b) ->
  forall (o : opt) (input : bytes), o_regex o = None -> o_json o = false ->
    read_and_cut_str (rename_opt f o) (map f input)
    = option_map (rename_outcome f) (read_and_cut_str o input).
Proof. exact general_path_rename. Qed.

Theorem C11_fast_lane :
  forall (o : opt) (l : list bof) (input : bytes),
    fast_eligible o = true -> from_vec l = Some (o_bounds o) -> Forall item_nz l -> neutral_texts o ->
    read_and_cut_fast (with_eol (swap (o_eol o)) o) (map swap input)
    = option_map (rename_outcome swap) (read_and_cut_fast o input).
Proof. exact C11_fast_lane_swap. Qed.

(** -M: accepted with the other terminator exactly when it was, and then the exchanged output *)
Theorem C11_fixed_memory :
  forall (o : opt) (input : bytes),
    neutral_texts o ->
    match stream_opt o, stream_opt (with_eol (swap (o_eol o)) o) with
    | Some so, Some so' => run_stream_whole so' (map swap input) = rename_outcome swap (run_stream_whole so input)
    | None, None => True
    | _, _ => False
    end.
Proof. exact C11_fixed_memory_swap. Qed.

(** -l, both algorithms (in line mode the delimiter is the terminator itself) *)
Theorem C11_line_mode :
  forall (o : opt) (input : bytes),
    o_regex o = None -> o_json o = false -> neutral_line_texts o ->
    read_and_cut_lines (with_line_eol (swap (o_eol o)) o) (map swap input)
    = option_map (rename_outcome swap) (read_and_cut_lines o input).
Proof. exact C11_line_mode_swap. Qed.

(** -c *)
Theorem C11_character_mode :
  forall (o : opt) (input : bytes),
    o_regex o = Some RxChars -> o_btype o = BChars -> o_json o = false -> neutral_texts o ->
    read_and_cut_str (with_eol (swap (o_eol o)) o) (map swap input)
    = option_map (rename_outcome swap) (read_and_cut_str o input).
Proof. exact C11_character_mode_swap. Qed.

(** the exchange keeps UTF-8 validity and the character boundaries (what -l and -c look at
    besides equality of bytes) *)
Theorem C11_exchange_keeps_utf8 :
  forall l : bytes, utf8_valid (map swap l) = utf8_valid l.
Proof. exact utf8_valid_swap. Qed.

Print Assumptions C11_records.
Print Assumptions C11_record_splitting_is_value_blind.
Print Assumptions C11_field_locations_are_value_blind.
Print Assumptions C11_greedy_field_locations_are_value_blind.
Print Assumptions C11_trim_is_value_blind.
Print Assumptions C11_compress_is_value_blind.
Print Assumptions C11_swap_is_a_renaming.
Print Assumptions C11_general_path.
Print Assumptions C11_general_path_is_value_blind.
Print Assumptions C11_fast_lane.
Print Assumptions C11_fixed_memory.
Print Assumptions C11_line_mode.
Print Assumptions C11_character_mode.
Print Assumptions C11_exchange_keeps_utf8.
