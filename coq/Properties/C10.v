(** C10 — records are cut independently of one another.  Statements only. *)
From TucModel Require Import Base.Bytes Model.Bounds Model.Scan Model.Opt Model.CutBytes Model.CutStr
     Model.FastLane Proofs.C10.

(** general path (-f with any options, -c, --json): for every A, B the run over
    (A ++ EOL) ++ B is the run over A ++ EOL followed by the run over B *)
Theorem C10_general_path :
  forall (o : opt) (A B : bytes),
    read_and_cut_str o ((A ++ [o_eol o]) ++ B)
    = seq_outcome (read_and_cut_str o (A ++ [o_eol o])) (read_and_cut_str o B).
Proof. exact C10_general. Qed.

Theorem C10_fast_path :
  forall (o : opt) (A B : bytes),
    read_and_cut_fast o ((A ++ [o_eol o]) ++ B)
    = seq_outcome (read_and_cut_fast o (A ++ [o_eol o])) (read_and_cut_fast o B).
Proof. exact C10_fast. Qed.

(** a failure on A is a failure on A ++ B with exactly the same complete records delivered *)
Theorem C10_failure_is_preserved :
  forall (o : opt) (A B pre : bytes),
    read_and_cut_str o (A ++ [o_eol o]) = Some (Fail pre) ->
    read_and_cut_str o ((A ++ [o_eol o]) ++ B) = Some (Fail pre).
Proof. exact C10_failure_prefix. Qed.

Theorem C10_failure_is_preserved_fast :
  forall (o : opt) (A B pre : bytes),
    read_and_cut_fast o (A ++ [o_eol o]) = Some (Fail pre) ->
    read_and_cut_fast o ((A ++ [o_eol o]) ++ B) = Some (Fail pre).
Proof. exact C10_failure_prefix_fast. Qed.

Print Assumptions C10_general_path.
Print Assumptions C10_fast_path.
Print Assumptions C10_failure_is_preserved.
Print Assumptions C10_failure_is_preserved_fast.
