(** C10 — records are cut independently of one another.  Statements only. *)
From TucModel Require Import Base.Bytes Model.Bounds Model.Scan Model.Opt Model.CutBytes Model.CutStr
     Model.FastLane Model.Stream Proofs.C04 Proofs.C10 Proofs.C10Stream Model.Scratch Proofs.C10Scratch.

(** general path (-f with any options, -c, --json): for every A, B the run over
    (A ++ EOL) ++ B is the run over A ++ EOL followed by the run over B *)
Theorem C10_general_path :
  forall (o : opt) (A B : bytes),
    read_and_cut_str o ((A ++ [o_eol o]) ++ B)
    = seq_outcome (read_and_cut_str o (A ++ [o_eol o])) (read_and_cut_str o B).
Proof. exact C10_general. Qed.

Theorem C10_fast_path :
  forall (o : opt) (A B : bytes),
    read_and_cut_fast o ((A ++ [o_eol o]) ++ B)
    = seq_outcome (read_and_cut_fast o (A ++ [o_eol o])) (read_and_cut_fast o B).
Proof. exact C10_fast. Qed.

(** a failure on A is a failure on A ++ B with exactly the same complete records delivered *)
Theorem C10_failure_is_preserved :
  forall (o : opt) (A B pre : bytes),
    read_and_cut_str o (A ++ [o_eol o]) = Some (Fail pre) ->
    read_and_cut_str o ((A ++ [o_eol o]) ++ B) = Some (Fail pre).
Proof. exact C10_failure_prefix. Qed.

Theorem C10_failure_is_preserved_fast :
  forall (o : opt) (A B pre : bytes),
    read_and_cut_fast o (A ++ [o_eol o]) = Some (Fail pre) ->
    read_and_cut_fast o ((A ++ [o_eol o]) ++ B) = Some (Fail pre).
Proof. exact C10_failure_prefix_fast. Qed.

(** -M: the fixed-memory reader is one per-record function ([stream_cut]: the reader started
    afresh on that record alone) mapped over the records of the input - nothing computed for
    one record (pending bound, field counter, truncation flag, early-stop state) reaches the
    next.  [no_adjacent_fillers] holds for every bounds list the parser builds (C04). *)
Theorem C10_fixed_memory_is_per_record :
  forall (so : sopt) (input : bytes),
    no_adjacent_fillers (s_items so) ->
    Some (run_stream_whole so input) = run_records (stream_cut so) (records (s_eol so) input) [].
Proof. exact stream_whole_per_record. Qed.

Theorem C10_fixed_memory :
  forall (so : sopt) (A B : bytes),
    no_adjacent_fillers (s_items so) ->
    Some (run_stream_whole so ((A ++ [s_eol so]) ++ B))
    = seq_outcome (Some (run_stream_whole so (A ++ [s_eol so]))) (Some (run_stream_whole so B)).
Proof. exact C10_stream. Qed.

(** ... under every way of cutting the three inputs into reads *)
Theorem C10_fixed_memory_any_chunking :
  forall (so : sopt) (A B : bytes) (cs csA csB : list bytes),
    no_adjacent_fillers (s_items so) ->
    chunks_ok cs -> chunks_ok csA -> chunks_ok csB ->
    concat cs = (A ++ [s_eol so]) ++ B -> concat csA = A ++ [s_eol so] -> concat csB = B ->
    Some (run_stream so cs) = seq_outcome (Some (run_stream so csA)) (Some (run_stream so csB)).
Proof. exact C10_stream_chunked. Qed.

Theorem C10_failure_is_preserved_fixed_memory :
  forall (so : sopt) (A B pre : bytes),
    no_adjacent_fillers (s_items so) ->
    run_stream_whole so (A ++ [s_eol so]) = Fail pre ->
    run_stream_whole so ((A ++ [s_eol so]) ++ B) = Fail pre.
Proof. exact C10_stream_failure_prefix. Qed.

(** "nothing computed for one record (field positions, compressed copies, ...) influences another": with
    the scratch buffers the code reuses made explicit - the fields vector, the compressed-line buffer, the
    fast lane's vector of field starts, each updated by [clear]/[push]/[pop]/[drain]/[extend] in the code's
    order - a record prints the same whatever the buffers held when it arrived, and a run that hands them
    from record to record prints what the stateless run prints (so the theorems above hold for it) *)
Theorem C10_a_record_ignores_the_scratch_buffers :
  forall (s s' : scratch) (o : opt) (line : bytes),
    fst (cut_str_st s o line) = fst (cut_str_st s' o line)
    /\ fst (cut_fast_st s o line) = fst (cut_fast_st s' o line).
Proof. exact C10_record_ignores_scratch. Qed.

Theorem C10_general_path_with_reused_buffers :
  forall (o : opt) (input : bytes), read_and_cut_str_st o input = read_and_cut_str o input.
Proof. exact C10_general_path_scratch. Qed.

Theorem C10_fast_path_with_reused_buffers :
  forall (o : opt) (input : bytes), read_and_cut_fast_st o input = read_and_cut_fast o input.
Proof. exact C10_fast_path_scratch. Qed.

Print Assumptions C10_general_path.
Print Assumptions C10_a_record_ignores_the_scratch_buffers.
Print Assumptions C10_general_path_with_reused_buffers.
Print Assumptions C10_fast_path_with_reused_buffers.
Print Assumptions C10_fast_path.
Print Assumptions C10_failure_is_preserved.
Print Assumptions C10_failure_is_preserved_fast.
Print Assumptions C10_fixed_memory_is_per_record.
Print Assumptions C10_fixed_memory.
Print Assumptions C10_fixed_memory_any_chunking.
Print Assumptions C10_failure_is_preserved_fixed_memory.
