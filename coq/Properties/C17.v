(** C17 — memory stays within the documented bounds.  Statements only.
    PARTIAL: the theorems are about an accounting model of what each path keeps resident;
    the allocator, Vec growth and page accounting are runtime facts, measured on the real
    binary by the run (peak RSS while one dimension of the input grows), not proved. *)
From TucModel Require Import Base.Bytes Base.ListX Model.Bounds Model.Scan Model.Opt Model.CutBytes
     Model.Stream Model.Space Proofs.C04 Proofs.C17.

Theorem C17_fixed_memory_state_only_shrinks :
  forall (so : sopt) (c : bytes) (its : list bof) (curr : Z) (trunc : bool) (p out out' : bytes)
         (its' : list bof) (curr' : Z) (trunc' : bool),
    scan_chunk so its curr trunc p c out = ChunkEnd out' its' curr' trunc' ->
    items_size its' <= items_size its.
Proof. exact scan_chunk_items_shrink. Qed.

Theorem C17_fixed_memory_account_is_independent_of_the_input :
  forall (so : sopt) (c : bytes) (its : list bof) (curr : Z) (trunc : bool) (out out' : bytes)
         (its' : list bof) (curr' : Z) (trunc' : bool) (chunk' : bytes),
    scan_chunk so its curr trunc [] c out = ChunkEnd out' its' curr' trunc' ->
    items_size its <= items_size (s_items so) ->
    stream_resident its' chunk' <= items_size (s_items so) + 3 + length chunk'.
Proof. exact stream_resident_bounded. Qed.

Theorem C17_record_paths_account_is_linear_in_the_record :
  forall (o : opt) (record : bytes) (nf : nat),
    nf <= length record + 1 ->
    record_resident o record nf <= 4 * length record + 2 + items_size (items (o_bounds o)).
Proof. exact record_resident_linear. Qed.

Print Assumptions C17_fixed_memory_state_only_shrinks.
Print Assumptions C17_fixed_memory_account_is_independent_of_the_input.
Print Assumptions C17_record_paths_account_is_linear_in_the_record.
