(** C16 — a regex delimiter splits at its matches and is replaced literally.  Statements only.
    The theorems are about the modelled regex family (literal characters, ASCII classes,
    concatenation, alternation, '+', groups; leftmost-first), whose engine is proved sound
    and complete for the declarative language of the family (Spec/RegexLang.v); that the
    regex crate computes the same matches on this family is what the correspondence run checks. *)
From TucModel Require Import Base.Bytes Base.ListX Model.Bounds Model.Scan Model.Regex Model.Opt Model.CutStr
     Spec.RegexLang Spec.Fields Proofs.C06 Proofs.ScanSplit Proofs.C12 Proofs.C16 Proofs.C16Sem Proofs.C16Replace.

(** the engine against the language of the family: what it reports at the head of a text is
    a word of the language, and it reports nothing only when no prefix of the text is one *)
Theorem C16_engine_is_sound :
  forall (r : re) (l : bytes) (n : nat), match_len r l = Some n -> n <= length l /\ re_lang r (firstn n l).
Proof. exact match_len_some. Qed.

Theorem C16_engine_is_complete :
  forall (r : re) (l : bytes), match_len r l = None -> forall u s', l = u ++ s' -> ~ re_lang r u.
Proof. exact match_len_none. Qed.

(** find_iter: the matches are the successive leftmost non-overlapping ones - each reported
    match is a word of the language, it starts at the first position after the previous
    match at which any word of the language starts ([scan_ok]: positions passed over carry
    the proof that no word starts there), and scanning resumes at its end *)
Theorem C16_matches_are_the_leftmost_nonoverlapping_ones :
  forall (r : re) (l : bytes), scan_ok r 0 0 l (re_find_iter r l).
Proof. exact re_find_iter_spec. Qed.

(** matches are sorted, non-overlapping, non-empty and inside the record *)
Theorem C16_matches_are_well_formed :
  forall (r : re) (line : bytes),
    wf_ms 0 (re_find_iter r line) (length line) /\ Forall (fun m => fst m < snd m) (re_find_iter r line).
Proof. exact re_matches_wf. Qed.

(** the fields are exactly the gaps between successive matches: gaps and matches, woven
    together in order, are the record - no byte lost, altered or reordered *)
Theorem C16_fields_and_matches_tile_the_record :
  forall (r : re) (line : bytes), weave line 0 (re_find_iter r line) (length line) = line.
Proof. exact regex_fields_tile_the_record. Qed.

(** -g: the same for maximal runs of adjacent matches (the matches of (RE)+) *)
Theorem C16_greedy_fields_tile_the_record :
  forall (r : re) (line : bytes), weave line 0 (re_find_iter (RPlus r) line) (length line) = line.
Proof. exact regex_greedy_fields_tile_the_record. Qed.

(** for any well-formed match list (whatever engine produced it) *)
Theorem C16_tiling_for_any_matcher :
  forall (line : bytes) (ms : list mtch) (start len : nat),
    wf_ms start ms len -> weave line start ms len = slice line start len.
Proof. exact weave_is_the_line. Qed.

(** and the output loop cannot index out of range on them *)
Theorem C16_no_index_out_of_range :
  forall (o : opt) (line : bytes) (ms : list mtch) (bs : list bof),
    line <> [] -> wf_ms 0 ms (length line) -> Forall item_nz bs ->
    out_loop o line (fields_of_matches ms line) bs <> RPanic.
Proof. exact out_loop_no_panic. Qed.

(** -r R prints the literal text R - never an expansion of it - wherever a delimiter is replaced:
    for the matches of any engine, replacing them is joining the gaps between them with R *)
Theorem C16_replacement_is_the_literal_text :
  forall (line rep : bytes) (ms : list mtch),
    replace_matches line ms rep = intercalate rep (pieces line (gaps_from 0 ms (length line))).
Proof. exact replace_matches_is_intercalate. Qed.

(** ... so a selected text is printed as its fields joined by R ... *)
Theorem C16_selected_text_is_rejoined_with_R :
  forall (o : opt) (x : rx) (nd text : bytes) (ms : list mtch),
    o_btype o <> BChars -> o_replace o = Some nd -> o_regex o = Some x -> o_compress o = false ->
    rx_normal x text = Some ms ->
    maybe_replace o text = Some (intercalate nd (pieces text (gaps_from 0 ms (length text)))).
Proof. exact maybe_replace_regex_is_intercalate. Qed.

(** ... and after -p, which has already rewritten every run of matches to R, it is printed as it is
    (an R that itself matches RE is not expanded a second time) *)
Theorem C16_after_compress_the_text_is_printed_as_it_is :
  forall (o : opt) (x : rx) (nd text : bytes),
    o_replace o = Some nd -> o_regex o = Some x -> o_compress o = true -> maybe_replace o text = Some text.
Proof. exact maybe_replace_after_compress. Qed.

Print Assumptions C16_matches_are_well_formed.
Print Assumptions C16_replacement_is_the_literal_text.
Print Assumptions C16_selected_text_is_rejoined_with_R.
Print Assumptions C16_after_compress_the_text_is_printed_as_it_is.
Print Assumptions C16_fields_and_matches_tile_the_record.
Print Assumptions C16_greedy_fields_tile_the_record.
Print Assumptions C16_tiling_for_any_matcher.
Print Assumptions C16_no_index_out_of_range.
Print Assumptions C16_engine_is_sound.
Print Assumptions C16_engine_is_complete.
Print Assumptions C16_matches_are_the_leftmost_nonoverlapping_ones.

(** non-vacuity: ',|;;' on  a,;;b  : matches at 1..2 and 2..4 *)
Example C16_alternation_example :
  re_find_iter (RAlt (RByte 44) (RCat (RByte 59) (RByte 59))) [97;44;59;59;98]%N = [(1, 2); (2, 4)].
Proof. reflexivity. Qed.
