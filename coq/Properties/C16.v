(** C16 — a regex delimiter splits at its matches and is replaced literally.  Statements only.
    The theorems are about the modelled regex family (literal characters, ASCII classes,
    concatenation, alternation, '+', groups; leftmost-first); that the regex crate computes
    the same matches on this family is what the correspondence run checks. *)
From TucModel Require Import Base.Bytes Base.ListX Model.Bounds Model.Scan Model.Regex Model.Opt Model.CutStr
     Proofs.C06 Proofs.ScanSplit Proofs.C12 Proofs.C16.

(** matches are sorted, non-overlapping, non-empty and inside the record *)
Theorem C16_matches_are_well_formed :
  forall (r : re) (line : bytes),
    wf_ms 0 (re_find_iter r line) (length line) /\ Forall (fun m => fst m < snd m) (re_find_iter r line).
Proof. exact re_matches_wf. Qed.

(** the fields are exactly the gaps between successive matches: gaps and matches, woven
    together in order, are the record - no byte lost, altered or reordered *)
Theorem C16_fields_and_matches_tile_the_record :
  forall (r : re) (line : bytes), weave line 0 (re_find_iter r line) (length line) = line.
Proof. exact regex_fields_tile_the_record. Qed.

(** -g: the same for maximal runs of adjacent matches (the matches of (RE)+) *)
Theorem C16_greedy_fields_tile_the_record :
  forall (r : re) (line : bytes), weave line 0 (re_find_iter (RPlus r) line) (length line) = line.
Proof. exact regex_greedy_fields_tile_the_record. Qed.

(** for any well-formed match list (whatever engine produced it) *)
Theorem C16_tiling_for_any_matcher :
  forall (line : bytes) (ms : list mtch) (start len : nat),
    wf_ms start ms len -> weave line start ms len = slice line start len.
Proof. exact weave_is_the_line. Qed.

(** and the output loop cannot index out of range on them *)
Theorem C16_no_index_out_of_range :
  forall (o : opt) (line : bytes) (ms : list mtch) (bs : list bof),
    line <> [] -> wf_ms 0 ms (length line) -> Forall item_nz bs ->
    out_loop o line (fields_of_matches ms line) bs <> RPanic.
Proof. exact out_loop_no_panic. Qed.

Print Assumptions C16_matches_are_well_formed.
Print Assumptions C16_fields_and_matches_tile_the_record.
Print Assumptions C16_greedy_fields_tile_the_record.
Print Assumptions C16_tiling_for_any_matcher.
Print Assumptions C16_no_index_out_of_range.
