(** C14 — failures are reported, never swallowed, and never corrupt earlier output.
    Statements only.  PARTIAL: the theorems are about the I/O envelope model of main() (one
    buffered stdout flushed with the error propagated on every branch) and about the record
    iteration; signals, the kernel's pipe semantics and std's EINTR handling are runtime
    facts exercised through the fault-injection shim, not proved. *)
From TucModel Require Import Base.Bytes Base.ListX Model.Bounds Model.Scan Model.Opt Model.CutBytes
     Model.CutStr Model.FastLane Model.Main Model.IO Proofs.C10 Proofs.C14.

Theorem C14_delivered_is_a_prefix :
  forall (r : outcome) (read_ok : bool) (wk : option nat),
    match r with
    | Done out | Fail out => is_prefix (snd (envelope r read_ok wk)) out
    | _ => snd (envelope r read_ok wk) = []
    end.
Proof. exact delivered_is_prefix. Qed.

Theorem C14_success_means_everything_delivered :
  forall (r : outcome) (read_ok : bool) (wk : option nat),
    fst (envelope r read_ok wk) = 0 ->
    exists out, r = Done out /\ read_ok = true /\ snd (envelope r read_ok wk) = out.
Proof. exact success_means_everything_delivered. Qed.

Theorem C14_a_fault_is_never_a_success :
  forall (out : bytes) (read_ok : bool) (wk : option nat),
    read_ok = false \/ fits out wk = false -> fst (envelope (Done out) read_ok wk) = 1.
Proof. exact fault_is_reported. Qed.

Theorem C14_failing_record_keeps_earlier_records :
  forall (o : opt) (A B a : bytes),
    read_and_cut_str o (A ++ [o_eol o]) = Some (Done a) ->
    match read_and_cut_str o ((A ++ [o_eol o]) ++ B) with
    | Some (Done out) | Some (Fail out) => is_prefix a out
    | _ => True
    end.
Proof. exact failing_record_keeps_earlier_output. Qed.

Theorem C14_failing_record_keeps_earlier_records_fast :
  forall (o : opt) (A B a : bytes),
    read_and_cut_fast o (A ++ [o_eol o]) = Some (Done a) ->
    match read_and_cut_fast o ((A ++ [o_eol o]) ++ B) with
    | Some (Done out) | Some (Fail out) => is_prefix a out
    | _ => True
    end.
Proof. exact failing_record_keeps_earlier_output_fast. Qed.

Theorem C14_failing_cut_is_reported :
  forall (pre : bytes) (read_ok : bool) (wk : option nat), fst (envelope (Fail pre) read_ok wk) = 1.
Proof. exact failing_cut_is_reported. Qed.

Print Assumptions C14_delivered_is_a_prefix.
Print Assumptions C14_success_means_everything_delivered.
Print Assumptions C14_a_fault_is_never_a_success.
Print Assumptions C14_failing_record_keeps_earlier_records.
Print Assumptions C14_failing_record_keeps_earlier_records_fast.
Print Assumptions C14_failing_cut_is_reported.
