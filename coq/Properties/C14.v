(** C14 — failures are reported, never swallowed, and never corrupt earlier output.
    Statements only.  PARTIAL: the theorems are about the I/O envelope model of main() (one
    buffered stdout flushed with the error propagated on every branch) and about the record
    iteration; signals, the kernel's pipe semantics and std's EINTR handling are runtime
    facts exercised through the fault-injection shim, not proved. *)
From TucModel Require Import Base.Bytes Base.ListX Model.Bounds Model.Scan Model.Opt Model.CutBytes
     Model.CutStr Model.FastLane Model.Stream Model.Main Model.IO Proofs.C04 Proofs.C10 Proofs.C10Stream Proofs.C14 Proofs.C14More.

Theorem C14_delivered_is_a_prefix :
  forall (r : outcome) (read_ok : bool) (wk : option nat),
    match r with
    | Done out | Fail out => is_prefix (snd (envelope r read_ok wk)) out
    | _ => snd (envelope r read_ok wk) = []
    end.
Proof. exact delivered_is_prefix. Qed.

Theorem C14_success_means_everything_delivered :
  forall (r : outcome) (read_ok : bool) (wk : option nat),
    fst (envelope r read_ok wk) = 0 ->
    exists out, r = Done out /\ read_ok = true /\ snd (envelope r read_ok wk) = out.
Proof. exact success_means_everything_delivered. Qed.

Theorem C14_a_fault_is_never_a_success :
  forall (out : bytes) (read_ok : bool) (wk : option nat),
    read_ok = false \/ fits out wk = false -> fst (envelope (Done out) read_ok wk) = 1.
Proof. exact fault_is_reported. Qed.

Theorem C14_failing_record_keeps_earlier_records :
  forall (o : opt) (A B a : bytes),
    read_and_cut_str o (A ++ [o_eol o]) = Some (Done a) ->
    match read_and_cut_str o ((A ++ [o_eol o]) ++ B) with
    | Some (Done out) | Some (Fail out) => is_prefix a out
    | _ => True
    end.
Proof. exact failing_record_keeps_earlier_output. Qed.

Theorem C14_failing_record_keeps_earlier_records_fast :
  forall (o : opt) (A B a : bytes),
    read_and_cut_fast o (A ++ [o_eol o]) = Some (Done a) ->
    match read_and_cut_fast o ((A ++ [o_eol o]) ++ B) with
    | Some (Done out) | Some (Fail out) => is_prefix a out
    | _ => True
    end.
Proof. exact failing_record_keeps_earlier_output_fast. Qed.

Theorem C14_failing_cut_is_reported :
  forall (pre : bytes) (read_ok : bool) (wk : option nat), fst (envelope (Fail pre) read_ok wk) = 1.
Proof. exact failing_cut_is_reported. Qed.

(** what a failing run has delivered, exactly: the outputs - complete and unmodified - of the
    records before the first failing one, nothing of that record or of later ones; and a
    successful run has delivered the outputs of all the records, in order.  General path
    (also -c, --json, -e) and -M; the fast lane equals the general path (C02). *)
Theorem C14_failure_delivers_exactly_the_earlier_records :
  forall (o : opt) (input pre : bytes),
    read_and_cut_str o input = Some (Fail pre) <->
    exists rs1 r rs2 outs, records (o_eol o) input = rs1 ++ r :: rs2
                           /\ Forall2 (cut_ok (cut_str o)) rs1 outs /\ cut_str o r = Some RErr
                           /\ pre = concat outs.
Proof. exact general_failure_delivers_earlier_records. Qed.

Theorem C14_success_delivers_every_record :
  forall (o : opt) (input out : bytes),
    read_and_cut_str o input = Some (Done out) <->
    exists outs, Forall2 (cut_ok (cut_str o)) (records (o_eol o) input) outs /\ out = concat outs.
Proof. exact general_success_delivers_all_records. Qed.

Theorem C14_fixed_memory_failure_delivers_exactly_the_earlier_records :
  forall (so : sopt) (input pre : bytes),
    no_adjacent_fillers (s_items so) ->
    (run_stream_whole so input = Fail pre <->
     exists rs1 r rs2 outs, records (s_eol so) input = rs1 ++ r :: rs2
                            /\ Forall2 (cut_ok (stream_cut so)) rs1 outs /\ stream_cut so r = Some RErr
                            /\ pre = concat outs).
Proof. exact fixed_memory_failure_delivers_earlier_records. Qed.

Theorem C14_fixed_memory_success_delivers_every_record :
  forall (so : sopt) (input out : bytes),
    no_adjacent_fillers (s_items so) ->
    (run_stream_whole so input = Done out <->
     exists outs, Forall2 (cut_ok (stream_cut so)) (records (s_eol so) input) outs /\ out = concat outs).
Proof. exact fixed_memory_success_delivers_all_records. Qed.

Print Assumptions C14_delivered_is_a_prefix.
Print Assumptions C14_success_means_everything_delivered.
Print Assumptions C14_a_fault_is_never_a_success.
Print Assumptions C14_failing_record_keeps_earlier_records.
Print Assumptions C14_failing_record_keeps_earlier_records_fast.
Print Assumptions C14_failing_cut_is_reported.
Print Assumptions C14_failure_delivers_exactly_the_earlier_records.
Print Assumptions C14_success_delivers_every_record.
Print Assumptions C14_fixed_memory_failure_delivers_exactly_the_earlier_records.
Print Assumptions C14_fixed_memory_success_delivers_every_record.
