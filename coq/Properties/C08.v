(** C08 — --json prints well-formed strings that decode to the part's text.  Statements only. *)
From TucModel Require Import Base.Bytes Model.Bounds Model.BoundsParse Model.Scan Model.Utf8 Model.Json Model.Opt
     Model.CutStr Spec.JsonSpec Spec.Fields Spec.JsonArray Proofs.BoundsFacts Proofs.C08 Proofs.C08Array Proofs.C08Record Model.Args.

(** every element the writer emits reads back, with a strict reader, as exactly the part's
    text - whatever quotes, backslashes or control characters it contains *)
Theorem C08_element_roundtrip :
  forall s : bytes, json_read_string (json_string s) = Some s.
Proof. exact C08_roundtrip. Qed.

Theorem C08_escape_roundtrip :
  forall s : bytes, json_unescape (flat_map json_escape_byte s) = Some s.
Proof. exact json_unescape_escape. Qed.

(** the line printed for a record - '[' e1 ',' e2 ... ']' - is read back by a strict one-pass
    reader of JSON arrays of strings (no white space, nothing after ']') as exactly the list
    of parts, in order, however many there are *)
Theorem C08_array_roundtrip :
  forall parts : list bytes, json_read_array (json_array_line parts) = Some parts.
Proof. exact json_array_roundtrip. Qed.

(** one element per part: with the option settings --json installs, for every bounds list
    without format text (as the parser builds it, possibly complemented), whatever the
    record's fields are, what the output loop prints between the brackets is the JSON
    strings of [concat pss] separated by commas, where each requested bound contributes
    [bound_elems]: a resolvable one, the text of every part it covers, one element each, in
    order ([seq s (e-s)]); an unresolvable one, its fallback as one element *)
Theorem C08_one_element_per_part :
  forall (o : opt) (line : bytes) (fields : list mtch) (bs : list ubound) (l2 : list bof) (body : bytes),
  json_opts o ->
  Forall bound_nz bs -> unmarked_init bs -> set_last_flag bs = bs ->
  (if needs_unpack (map Bound bs)
   then option_map items (unpack_list (map Bound bs) (length fields))
   else Some (map Bound bs)) = Some l2 ->
  out_loop o line fields l2 = ROk body ->
  exists pss, Forall2 (bound_elems o line fields) bs pss
              /\ body = intercalate [ch_comma] (map json_string (concat pss)).
Proof. intros o line fields bs l2 body Hj. exact (json_body o Hj line fields bs l2 body). Qed.

(** a whole record through [cut_str] (every option of the general path: multi-byte -d, -g,
    -p, -t, -s, -m, -z, -c, -e): the output is nothing (dropped by -s), or a bare EOL (only
    when the record is empty, possibly after -t), or exactly one array line as above *)
Theorem C08_record_is_one_array :
  forall (o : opt) (rec out : bytes) (bs0 : list ubound),
  json_opts o -> plain_bounds (items (o_bounds o)) bs0 ->
  cut_str o rec = Some (ROk out) ->
  (out = [] /\ o_only_delimited o = true)
  \/ (out = [o_eol o] /\ (o_trim o = None -> rec = []))
  \/ exists line fields bs pss,
       (o_complement o = false -> bs = bs0)
       /\ Forall2 (bound_elems o line fields) bs pss
       /\ out = json_array_line (concat pss) ++ [o_eol o].
Proof. exact C08_record. Qed.

Theorem C08_nonempty_record_decodes :
  forall (o : opt) (rec out : bytes) (bs0 : list ubound),
  json_opts o -> plain_bounds (items (o_bounds o)) bs0 ->
  o_trim o = None -> o_only_delimited o = false -> rec <> [] ->
  cut_str o rec = Some (ROk out) ->
  exists line fields bs pss,
    (o_complement o = false -> bs = bs0)
    /\ Forall2 (bound_elems o line fields) bs pss
    /\ out = json_array_line (concat pss) ++ [o_eol o]
    /\ json_read_array (json_array_line (concat pss)) = Some (concat pss).
Proof. exact C08_record_decodes. Qed.

(** the hypothesis on the bounds holds for everything the parser accepts without braces *)
Theorem C08_parsed_bounds_are_plain :
  forall (s : bytes) (u : ublist),
  existsb is_brace s = false -> parse_ublist s = Some u -> exists bs, plain_bounds (items u) bs.
Proof. exact parsed_plain_bounds. Qed.

Example C08_nasty :
  json_string [34; 92; 0; 31; 127; 10]%N
  = [34; 92;34; 92;92; 92;117;48;48;48;48; 92;117;48;48;49;102; 127; 92;110; 34]%N.
Proof. reflexivity. Qed.

Print Assumptions C08_element_roundtrip.
Print Assumptions C08_escape_roundtrip.
Print Assumptions C08_array_roundtrip.
Print Assumptions C08_one_element_per_part.
Print Assumptions C08_record_is_one_array.
Print Assumptions C08_nonempty_record_decodes.
Print Assumptions C08_parsed_bounds_are_plain.

(** non-vacuity: a concrete record and option set meeting the hypotheses *)
Example C08_array_example :
  json_read_array [91; 34;97;34; 44; 34;92;34;34; 44; 34;34; 93]%N = Some [[97]; [34]; []]%N.
Proof. reflexivity. Qed.

(** tuc -d - --json -f 2:3,7=x on the record a-QUOTE-b-c-BACKSLASH (bytes 97 45 34 98 45 99 92): the options parse_args builds meet
    [json_opts], the range gives two elements, the missing field 7 its fallback *)
Example C08_record_example :
  match parse_args [[45;100];[45];[45;45;106;115;111;110];[45;102];[50;58;51;44;55;61;120]]%N with
  | POpt o =>
      o_json o = true /\ o_join o = true /\ o_replace o = Some [ch_comma]
      /\ cut_str o [97;45;34;98;45;99;92]%N
         = Some (ROk (json_array_line [[34;98]; [99;92]; [120]]%N ++ [10%N]))
  | _ => False
  end.
Proof. vm_compute. repeat split; reflexivity. Qed.
