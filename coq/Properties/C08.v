(** C08 — --json prints well-formed strings that decode to the part's text.  Statements only. *)
From TucModel Require Import Base.Bytes Model.Json Spec.JsonSpec Proofs.C08.

(** every element the writer emits reads back, with a strict reader, as exactly the part's
    text - whatever quotes, backslashes or control characters it contains *)
Theorem C08_element_roundtrip :
  forall s : bytes, json_read_string (json_string s) = Some s.
Proof. exact C08_roundtrip. Qed.

Theorem C08_escape_roundtrip :
  forall s : bytes, json_unescape (flat_map json_escape_byte s) = Some s.
Proof. exact json_unescape_escape. Qed.

Example C08_nasty :
  json_string [34; 92; 0; 31; 127; 10]%N
  = [34; 92;34; 92;92; 92;117;48;48;48;48; 92;117;48;48;49;102; 127; 92;110; 34]%N.
Proof. reflexivity. Qed.

Print Assumptions C08_element_roundtrip.
Print Assumptions C08_escape_roundtrip.
