(** C19 — contradictory or unsupported option sets are rejected up front.  Statements only. *)
From TucModel Require Import Base.Bytes Model.Bounds Model.BoundsParse Model.Scan Model.Regex Model.Opt
     Model.CutStr Model.Stream Model.Args Model.Main Spec.OptTable Proofs.C19.

(** for every one of the 5 * 2^11 * 3 abstract option sets (mode, -d, -e, -g, -p, -s, -m, -j,
    --no-join, --json, -r, -t, -M absent/0/positive) the model of parse_args plus the -M
    eligibility test decides as the statement says (finite domain, checked inside the kernel) *)
Theorem C19_decision_table :
  forall s : optset, decision_eqb (decide_spec s) (decide_model s) = true.
Proof. exact C19_every_option_set. Qed.

Theorem C19_regex_with_join_or_compress_fails_each_record :
  forall (o : opt) (line : bytes),
    o_regex o <> None -> o_replace o = None -> (o_compress o || o_join o) = true ->
    cut_str o line = Some RErr.
Proof. exact C19_regex_join_without_replacement_fails. Qed.

Theorem C19_fixed_memory_eligibility :
  forall o : opt,
    (exists so, stream_opt o = Some so) <->
    (exists d, o_delim o = [d])
    /\ o_complement o = false /\ o_greedy o = false /\ o_compress o = false /\ o_json o = false
    /\ o_btype o = BFields
    /\ (o_replace o = None \/ exists r, o_replace o = Some [r])
    /\ o_trim o = None /\ o_regex o = None /\ o_only_delimited o = false
    /\ forward_bounds_ok (items (o_bounds o)) = true.
Proof. exact C19_stream_eligibility. Qed.

Print Assumptions C19_decision_table.
Print Assumptions C19_regex_with_join_or_compress_fails_each_record.
Print Assumptions C19_fixed_memory_eligibility.
