(** C04 — fixed-memory output does not depend on how the input is chunked.  Statements only. *)
From TucModel Require Import Base.Bytes Base.ListX Model.Bounds Model.BoundsParse Model.CutBytes Model.Opt
     Model.Stream Proofs.C04 Proofs.C04Parse.

(** for every option set -M accepts, every input and every two ways of splitting it into
    successive non-empty reads: same bytes written, same status *)
Theorem C04_segmentation_independence :
  forall (so : sopt) (cs cs' : list bytes),
    no_adjacent_fillers (s_items so) ->
    chunks_ok cs -> chunks_ok cs' -> concat cs = concat cs' ->
    run_stream so cs = run_stream so cs'.
Proof. exact C04_segmentation_independent. Qed.

(** in particular every segmentation (every buffer capacity, one byte at a time, ...) gives
    what the whole input gives when it arrives in a single read *)
Theorem C04_any_segmentation_equals_single_read :
  forall (so : sopt) (cs : list bytes),
    no_adjacent_fillers (s_items so) -> chunks_ok cs ->
    run_stream so cs = run_stream_whole so (concat cs).
Proof. exact C04_equals_single_read. Qed.

(** the side condition holds for every bounds argument the parser accepts, hence for every
    -M invocation *)
Theorem C04_side_condition_always_holds :
  forall (s : bytes) (u : ublist), parse_ublist s = Some u -> no_adjacent_fillers (items u).
Proof. exact parse_ublist_naf. Qed.

Theorem C04_stream_items_are_the_parsed_bounds :
  forall (o : opt) (so : sopt), stream_opt o = Some so -> s_items so = items (o_bounds o).
Proof. exact stream_opt_items. Qed.

Print Assumptions C04_segmentation_independence.
Print Assumptions C04_any_segmentation_equals_single_read.
Print Assumptions C04_side_condition_always_holds.
Print Assumptions C04_stream_items_are_the_parsed_bounds.
