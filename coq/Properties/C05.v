(** C05 — line mode selects whole lines by index, whichever algorithm serves it.
    Statements only.  Proved: both algorithms index the same list of lines, and a single
    trailing EOL never counts as an extra empty line.  The walk over the bounds of the
    one-line-at-a-time reader is the executable model, tied to the code by the run. *)
From TucModel Require Import Base.Bytes Base.ListX Model.Bounds Model.BoundsParse Model.Scan Model.Opt
     Model.CutBytes Model.CutStr Model.CutLines Spec.Fields Proofs.ScanSplit Proofs.C05.

(** the lines the one-line-at-a-time reader delivers: the input split at every EOL, minus
    one trailing empty piece *)
Theorem C05_lines_of_the_forward_reader :
  forall (eol : byte) (input : bytes), records eol input = drop_last_empty (split_on eol input).
Proof. exact records_spec. Qed.

(** the whole-input algorithm (strip one trailing EOL, split at every EOL) indexes exactly
    the same lines, for every non-empty input *)
Theorem C05_both_algorithms_see_the_same_lines :
  forall (eol : byte) (input : bytes), input <> [] ->
    split_on eol (strip_one_suffix eol input) = records eol input.
Proof. exact C05_same_lines. Qed.

(** and the fields cut_str computes with the EOL as delimiter are those lines, byte for byte *)
Theorem C05_buffered_fields_are_lines :
  forall (eol : byte) (input : bytes),
    input <> [] -> strip_one_suffix eol input <> [] ->
    pieces (strip_one_suffix eol input)
           (fields_of_matches (lit_matches [eol] (strip_one_suffix eol input)) (strip_one_suffix eol input))
    = records eol input.
Proof. exact C05_buffered_fields_are_the_lines. Qed.

(** a single trailing EOL is not an extra line; two trailing EOLs are one empty line *)
Example C05_trailing_eol :
  records 10%N [97; 10]%N = [[97%N]] /\ records 10%N [97]%N = [[97%N]]
  /\ records 10%N [97; 10; 10]%N = [[97%N]; []].
Proof. repeat split; reflexivity. Qed.

Print Assumptions C05_lines_of_the_forward_reader.
Print Assumptions C05_both_algorithms_see_the_same_lines.
Print Assumptions C05_buffered_fields_are_lines.
