(** C05 — line mode selects whole lines by index, whichever algorithm serves it.
    Statements only.  Proved: the one-line-at-a-time reader prints exactly the selected lines
    (the three-variable walk over the bounds, for every input and every ascending resolvable
    list of plain bounds); both algorithms index the same list of lines; the whole-input
    algorithm prints the same selection for the same request. *)
From TucModel Require Import Base.Bytes Base.ListX Model.Bounds Model.BoundsParse Model.Scan Model.Utf8 Model.Opt
     Model.CutBytes Model.CutStr Model.CutLines Spec.Fields Proofs.C06 Proofs.ScanSplit Proofs.C05 Proofs.Plain
     Proofs.C03Full Proofs.C05Full.
Local Open Scope Z_scope.

(** the forward algorithm: for every list L of n >= 1 (valid) lines and every ascending list of
    plain bounds resolvable on it (adjacent and repeated lines allowed), the output is the
    selection of the statement - per bound its lines joined by the EOL, the EOL between bounds
    iff join, one final EOL *)
Theorem C05_forward_reader_prints_the_selection :
  forall (o : opt) (L : list bytes) (bs : list bof),
    L <> [] -> bs <> [] -> fwd_ok 1 (Z.of_nat (length L)) bs -> last_marked bs ->
    Forall (fun l => utf8_valid l = true) L ->
    exists x, spec_items L (o_fallback o) (o_join o) [o_eol o] bs = Some x
              /\ fwd_lines o L bs false 0 [] = Done (x ++ [o_eol o]).
Proof. exact C05_forward. Qed.

(** the whole-input algorithm prints the same selection for the same request *)
Theorem C05_buffered_reader_prints_the_same :
  forall (o : opt) (input : bytes) (bs : list bof) (x : bytes),
    plain_opts o (o_eol o) -> o_trim o = None -> o_only_delimited o = false -> o_replace o = None ->
    items (o_bounds o) = bs -> Forall item_nz bs ->
    utf8_valid input = true -> input <> [] -> strip_one_suffix (o_eol o) input <> [] ->
    spec_items (records (o_eol o) input) (o_fallback o) (o_join o) [o_eol o] bs = Some x ->
    cut_lines_buffered o input = Some (Done (x ++ [o_eol o])).
Proof. exact C05_buffered_same. Qed.


(** the lines the one-line-at-a-time reader delivers: the input split at every EOL, minus
    one trailing empty piece *)
Theorem C05_lines_of_the_forward_reader :
  forall (eol : byte) (input : bytes), records eol input = drop_last_empty (split_on eol input).
Proof. exact records_spec. Qed.

(** the whole-input algorithm (strip one trailing EOL, split at every EOL) indexes exactly
    the same lines, for every non-empty input *)
Theorem C05_both_algorithms_see_the_same_lines :
  forall (eol : byte) (input : bytes), input <> [] ->
    split_on eol (strip_one_suffix eol input) = records eol input.
Proof. exact C05_same_lines. Qed.

(** and the fields cut_str computes with the EOL as delimiter are those lines, byte for byte *)
Theorem C05_buffered_fields_are_lines :
  forall (eol : byte) (input : bytes),
    input <> [] -> strip_one_suffix eol input <> [] ->
    pieces (strip_one_suffix eol input)
           (fields_of_matches (lit_matches [eol] (strip_one_suffix eol input)) (strip_one_suffix eol input))
    = records eol input.
Proof. exact C05_buffered_fields_are_the_lines. Qed.

(** a single trailing EOL is not an extra line; two trailing EOLs are one empty line *)
Example C05_trailing_eol :
  records 10%N [97; 10]%N = [[97%N]] /\ records 10%N [97]%N = [[97%N]]
  /\ records 10%N [97; 10; 10]%N = [[97%N]; []].
Proof. repeat split; reflexivity. Qed.

Print Assumptions C05_forward_reader_prints_the_selection.
Print Assumptions C05_buffered_reader_prints_the_same.
Print Assumptions C05_lines_of_the_forward_reader.
Print Assumptions C05_both_algorithms_see_the_same_lines.
Print Assumptions C05_buffered_fields_are_lines.
