(** C15 — --complement prints exactly what each bound leaves out.  Statements only. *)
From TucModel Require Import Base.Bytes Base.ListX Model.Bounds Model.CutBytes Model.Scan Model.Opt
     Model.CutStr Spec.Resolve Proofs.BoundsFacts Proofs.C06 Proofs.C15 Proofs.C01More Proofs.C09More Proofs.C15More.

(** a resolved bound [s,e) on n parts is replaced, in place, by bounds that resolve to the
    non-empty ones among [0,s) and [e,n), in that order, without fallbacks *)
Theorem C15_complement_of_a_bound :
  forall (b : ubound) (n s e : nat),
    bound_nz b -> try_into_range b n = Some (s, e) ->
    exists cs, complement_bound b n = Some cs
               /\ map (fun c => try_into_range c n) cs = map Some (complement_spec n s e)
               /\ Forall (fun c => bfb c = None /\ blast c = false) cs.
Proof. exact C15_core. Qed.

(** those ranges select the parts before the bound followed by the parts after it *)
Theorem C15_selected_parts :
  forall (A : Type) (parts : list A) (s e : nat), (s < e <= length parts)%nat ->
    concat (map (fun r => slice parts (fst r) (snd r)) (complement_spec (length parts) s e))
    = firstn s parts ++ skipn e parts.
Proof. exact @C15_selects. Qed.

(** if the bounds leave nothing out the complement is rejected (the record fails) *)
Theorem C15_nothing_left_out_fails :
  forall (l : list bof) (n : nat),
    Forall (fun x => match x with Bound b => try_into_range b n = Some (0%nat, n) | Filler _ => True end) l ->
    complement_list l n = None.
Proof. exact C15_nothing_left. Qed.

(** a whole record: -m is the same invocation without -m on the complemented list - every
    bound replaced, in place, by the parts before it followed by the parts after it - so
    order, -j, -r, -s and the EOL are treated by the very same code; and when the bounds leave
    nothing out the record fails *)
Theorem C15_complement_is_the_explicit_request :
  forall (o : opt) (line : bytes) (fields : list mtch) (u : ublist),
    o_complement o = true ->
    complement_list (items (o_bounds o)) (length fields) = Some u ->
    finish_record o line fields = finish_record (with_bounds u (without_complement o)) line fields.
Proof. exact complement_is_the_explicit_request. Qed.

Theorem C15_nothing_left_fails_the_record :
  forall (o : opt) (line : bytes) (fields : list mtch),
    o_complement o = true ->
    complement_list (items (o_bounds o)) (length fields) = None ->
    (o_only_delimited o && Nat.eqb (length fields) 1) = false ->
    finish_record o line fields = RErr.
Proof. exact complement_of_everything_fails. Qed.

Print Assumptions C15_complement_of_a_bound.
Print Assumptions C15_selected_parts.
Print Assumptions C15_nothing_left_out_fails.
Print Assumptions C15_complement_is_the_explicit_request.
Print Assumptions C15_nothing_left_fails_the_record.
