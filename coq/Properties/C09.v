(** C09 — negative indexes are the exact mirror of positive ones.  Statements only. *)
From TucModel Require Import Base.Bytes Model.Bounds Model.CutBytes Model.Scan Model.Opt Model.CutStr
     Model.FastLane Spec.Resolve Proofs.BoundsFacts Proofs.C09 Proofs.C01More Proofs.C09More.
Local Open Scope Z_scope.

(** replacing -k by n+1-k (1 <= k <= n) on either side of a bound never changes the range
    it denotes on n parts -- nor whether it resolves *)
Theorem C09_range_unchanged :
  forall (n : nat) (b b' : ubound),
    bound_rewrites (Z.of_nat n) b b' -> try_into_range b' n = try_into_range b n.
Proof. exact C09_try_into_range. Qed.

(** ... nor its expansion into single parts (-c, --json), nor its complement (-m) *)
Theorem C09_unpack_unchanged :
  forall (n : nat) (b b' : ubound),
    bound_rewrites (Z.of_nat n) b b' ->
    match try_into_range b n with
    | Some _ => unpack_bound b' n = unpack_bound b n
    | None => unpack_bound b' n = [b'] /\ unpack_bound b n = [b]
    end.
Proof. exact C09_unpack. Qed.

Theorem C09_complement_unchanged :
  forall (n : nat) (b b' : ubound),
    bound_rewrites (Z.of_nat n) b b' -> complement_bound b' n = complement_bound b n.
Proof. exact C09_complement. Qed.

(** byte mode: the whole output is unchanged under any rewriting of any subset of indexes *)
Theorem C09_byte_mode :
  forall (l l' : list bof) (generic : option bytes) (data : bytes),
    items_rewrite (Z.of_nat (length data)) l l' ->
    cut_bytes_items l' generic data = cut_bytes_items l generic data.
Proof. exact C09_bytes. Qed.

(** field mode, general path: the output for a record with n fields is unchanged *)
Theorem C09_field_mode_general :
  forall (o : opt) (line : bytes) (fields : list mtch) (l l' : list bof),
    items_rewrite (Z.of_nat (length fields)) l l' ->
    out_loop o line fields l' = out_loop o line fields l.
Proof. exact C09_general. Qed.

(** field mode, fast lane output loop *)
Theorem C09_field_mode_fast :
  forall (o : opt) (d : byte) (line : bytes) (fields : list nat) (l l' : list bof),
    items_rewrite (Z.of_nat (length fields - 1)) l l' ->
    fast_out o d line fields l' = fast_out o d line fields l.
Proof. exact C09_fast. Qed.

(** a whole record of the general path (literal delimiter, field mode: trim, -p, -g, -s, -m,
    -j, -r, format text, fallbacks): with another bounds list that rewrites any subset of
    negative indexes against the number of fields of that record, the output is the same *)
Theorem C09_whole_record :
  forall (o : opt) (u' : ublist) (line0 : bytes),
    o_regex o = None -> o_btype o = BFields -> o_json o = false ->
    (forall line1, line1 <> [] ->
       items_rewrite (Z.of_nat (length (snd (lit_stage o line1)))) (items (o_bounds o)) (items u')) ->
    cut_str (with_bounds u' o) line0 = cut_str o line0.
Proof. exact C09_record. Qed.

(** --complement keeps the correspondence between the two lists *)
Theorem C09_complement_list :
  forall (n : nat) (l l' : list bof),
    items_rewrite (Z.of_nat n) l l' ->
    match complement_list l n, complement_list l' n with
    | Some u, Some u' => items_rewrite (Z.of_nat n) (items u) (items u')
    | None, None => True
    | _, _ => False
    end.
Proof. exact complement_list_rw. Qed.

(** -1 is always the last part and -n the first *)
Theorem C09_minus_one_is_last :
  forall n : nat, (0 < n)%nat ->
    try_into_range (mkB (SSome (-1)) (SSome (-1)) false None) n = Some ((n - 1)%nat, n).
Proof. exact C09_minus_one. Qed.

Theorem C09_minus_n_is_first :
  forall n : nat, (0 < n)%nat ->
    try_into_range (mkB (SSome (- Z.of_nat n)) (SSome (- Z.of_nat n)) false None) n = Some (0%nat, 1%nat).
Proof. exact C09_minus_n. Qed.

Print Assumptions C09_range_unchanged.
Print Assumptions C09_unpack_unchanged.
Print Assumptions C09_complement_unchanged.
Print Assumptions C09_byte_mode.
Print Assumptions C09_field_mode_general.
Print Assumptions C09_field_mode_fast.
Print Assumptions C09_minus_one_is_last.
Print Assumptions C09_minus_n_is_first.
Print Assumptions C09_whole_record.
Print Assumptions C09_complement_list.
