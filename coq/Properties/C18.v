(** C18 — the bounds mini-language.  Statements only.
    Proved: "accepted iff in the language" for single bounds and for lists without format
    text, against a grammar written from the documentation (Spec/BoundsGrammar.v), with the
    bounds the grammar assigns; soundness of acceptance; rejection before any input; plain
    text rendering.  For format strings ({...}) the "iff" is checked exhaustively up to a
    length bound by the run (every string over the statement's alphabet), not proved. *)
From TucModel Require Import Base.Bytes Model.Bounds Model.BoundsParse Model.Opt Model.Args Model.Main
     Spec.Resolve Spec.Fields Spec.BoundsGrammar Proofs.BoundsFacts Proofs.C06 Proofs.ParseFacts Proofs.C18 Proofs.C18Iff.
Local Open Scope Z_scope.

(** i32::from_str as used by Side::from_str: optional single sign, at least one digit,
    32-bit range *)
Theorem C18_integer_iff :
  forall (s : bytes) (v : Z), parse_i32 s = Some v <-> int_lit s v /\ in_i32 v.
Proof. exact parse_i32_iff. Qed.

(** a single bound is accepted iff it is N, N:M, N: or :M with non-zero 32-bit integers, a
    same-sign range not decreasing, optionally followed by '=' and any fallback text (which
    may contain ':' and '='); the bound built is the one the grammar assigns *)
Theorem C18_bound_accepted_iff :
  forall (s : bytes) (b : ubound), parse_bound s = Some b <-> bound_text s b.
Proof. exact parse_bound_iff. Qed.

(** a list without format text is accepted iff it is a comma-separated list of such bounds *)
Theorem C18_list_accepted_iff :
  forall s : bytes, existsb is_brace s = false ->
    ((exists u, parse_ublist s = Some u) <-> (exists bs, csv_text s bs)).
Proof. exact parse_ublist_iff. Qed.

Theorem C18_list_structure :
  forall (s : bytes) (u : ublist), existsb is_brace s = false -> parse_ublist s = Some u ->
    exists bs, csv_text s bs /\ items u = mark_last (map Bound bs).
Proof. exact parse_ublist_structure. Qed.

Theorem C18_accepted_bound_is_well_formed :
  forall (s : bytes) (b : ubound), parse_bound s = Some b ->
    side_i32 (bl b) /\ side_i32 (br b)
    /\ (forall l r, bl b = SSome l -> br b = SSome r -> same_sign r l = true -> l <= r).
Proof. exact parse_bound_sound. Qed.

Theorem C18_accepted_list_has_no_zero_index :
  forall (s : bytes) (u : ublist), parse_ublist s = Some u -> Forall item_nz (items u).
Proof. exact parse_ublist_nz. Qed.

Theorem C18_rejected_before_any_input :
  forall argv : args, parse_args argv = PExit1 -> forall input, run_main argv input = MOut (Fail []).
Proof. exact rejected_before_input. Qed.

Theorem C18_plain_text_is_reproduced :
  forall s : bytes, forallb plain_byte s = true -> render_filler s = s.
Proof. exact render_plain. Qed.

Example C18_escapes :   (* a{{b}}\n\t  ->  a{b} LF TAB *)
  render_filler [97;123;123;98;125;125;92;110;92;116]%N = [97;123;98;125;10;9]%N.
Proof. reflexivity. Qed.

Example C18_accepts : parse_ublist [123;49;125;125;125]%N <> None /\ parse_ublist [61;120]%N = None
                      /\ parse_ublist [123;49;123;50;125]%N = None /\ parse_ublist [123;123]%N = None.
Proof. repeat split; try reflexivity. discriminate. Qed.

Print Assumptions C18_accepted_bound_is_well_formed.
Print Assumptions C18_accepted_list_has_no_zero_index.
Print Assumptions C18_rejected_before_any_input.
Print Assumptions C18_plain_text_is_reproduced.
Print Assumptions C18_integer_iff.
Print Assumptions C18_bound_accepted_iff.
Print Assumptions C18_list_accepted_iff.
Print Assumptions C18_list_structure.

(** non-vacuity: -2:=a:b=c is in the language (a negative index, an open right side, a
    fallback holding ':' and '='), 3:2 and 0 are not *)
Example C18_grammar_examples :
  bound_text [45;50;58;61;97;58;98;61;99]%N (mkB (SSome (-2)) SCont false (Some [97;58;98;61;99]%N))
  /\ parse_bound [51;58;50]%N = None /\ parse_bound [48]%N = None.
Proof.
  split; [|split; reflexivity].
  apply (bt_fallback [45;50;58]%N [97;58;98;61;99]%N (SSome (-2)) SCont).
  apply (rt_from [45;50]%N (-2)). split; [|split; [unfold in_i32; lia | lia]].
  exact (il_minus [50]%N ltac:(discriminate) ltac:(repeat constructor; unfold digit; lia)).
Qed.
