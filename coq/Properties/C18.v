(** C18 — the bounds mini-language.  Statements only.
    Proved: "accepted iff in the language" for single bounds and for lists without format
    text, against a grammar written from the documentation (Spec/BoundsGrammar.v), with the
    bounds the grammar assigns; soundness of acceptance; rejection before any input; plain
    text rendering; for format strings ({...}) "accepted iff in the language" against the
    grammar [fmt_items], with the documented sub-language [fmt_doc] shown to be accepted
    and the rendering of literal text shown to be one left-to-right pass. *)
From TucModel Require Import Base.Bytes Model.Bounds Model.BoundsParse Model.Opt Model.Args Model.Main
     Spec.Resolve Spec.Fields Spec.BoundsGrammar Proofs.BoundsFacts Proofs.C06 Proofs.ParseFacts Proofs.C18 Proofs.C18Iff Proofs.C18Fmt Proofs.C18Render.
Local Open Scope Z_scope.

(** i32::from_str as used by Side::from_str: optional single sign, at least one digit,
    32-bit range *)
Theorem C18_integer_iff :
  forall (s : bytes) (v : Z), parse_i32 s = Some v <-> int_lit s v /\ in_i32 v.
Proof. exact parse_i32_iff. Qed.

(** a single bound is accepted iff it is N, N:M, N: or :M with non-zero 32-bit integers, a
    same-sign range not decreasing, optionally followed by '=' and any fallback text (which
    may contain ':' and '='); the bound built is the one the grammar assigns *)
Theorem C18_bound_accepted_iff :
  forall (s : bytes) (b : ubound), parse_bound s = Some b <-> bound_text s b.
Proof. exact parse_bound_iff. Qed.

(** a list without format text is accepted iff it is a comma-separated list of such bounds *)
Theorem C18_list_accepted_iff :
  forall s : bytes, existsb is_brace s = false ->
    ((exists u, parse_ublist s = Some u) <-> (exists bs, csv_text s bs)).
Proof. exact parse_ublist_iff. Qed.

Theorem C18_list_structure :
  forall (s : bytes) (u : ublist), existsb is_brace s = false -> parse_ublist s = Some u ->
    exists bs, csv_text s bs /\ items u = mark_last (map Bound bs).
Proof. exact parse_ublist_structure. Qed.

(** format strings: the scanner accepts exactly the language [fmt_items] (literal text with
    doubled braces, '{' list '}', and the reading of "{{" / "}}" next to a delimiting brace
    spelled out by its side conditions) and builds exactly the items the grammar assigns *)
Theorem C18_format_accepted_iff :
  forall (s : bytes) (its : list bof), scan_format s false [] [] = Some its <-> fmt_items s its.
Proof. exact scan_format_iff. Qed.

(** the documented language - every '{...}' holds a list without braces, braces balance,
    "{{" and "}}" are literal braces - is accepted, with the items it denotes *)
Theorem C18_documented_format_is_accepted :
  forall (s : bytes) (its : list bof), fmt_doc s its -> scan_format s false [] [] = Some its.
Proof. exact documented_format_accepted. Qed.

(** the whole of from_str on an argument holding a brace: accepted iff in the language and
    at least one bound occurs *)
Theorem C18_format_list_accepted_iff :
  forall (s : bytes) (u : ublist), existsb is_brace s = true ->
    (parse_ublist s = Some u <->
     exists its, fmt_items s its /\ bounds_only its <> [] /\ from_vec its = Some u).
Proof. exact parse_ublist_format_iff. Qed.

(** literal text is rendered by one left-to-right pass: "{{" -> "{", "}}" -> "}",
    backslash-n -> LF, backslash-t -> TAB, every other byte as it is *)
Theorem C18_literal_text_rendering :
  forall t : bytes, render_filler t = render_spec t.
Proof. exact render_filler_is_spec. Qed.

Theorem C18_accepted_bound_is_well_formed :
  forall (s : bytes) (b : ubound), parse_bound s = Some b ->
    side_i32 (bl b) /\ side_i32 (br b)
    /\ (forall l r, bl b = SSome l -> br b = SSome r -> same_sign r l = true -> l <= r).
Proof. exact parse_bound_sound. Qed.

Theorem C18_accepted_list_has_no_zero_index :
  forall (s : bytes) (u : ublist), parse_ublist s = Some u -> Forall item_nz (items u).
Proof. exact parse_ublist_nz. Qed.

Theorem C18_rejected_before_any_input :
  forall argv : args, parse_args argv = PExit1 -> forall input, run_main argv input = MOut (Fail []).
Proof. exact rejected_before_input. Qed.

Theorem C18_plain_text_is_reproduced :
  forall s : bytes, forallb plain_byte s = true -> render_filler s = s.
Proof. exact render_plain. Qed.

Example C18_escapes :   (* a{{b}}\n\t  ->  a{b} LF TAB *)
  render_filler [97;123;123;98;125;125;92;110;92;116]%N = [97;123;98;125;10;9]%N.
Proof. reflexivity. Qed.

Example C18_accepts : parse_ublist [123;49;125;125;125]%N <> None /\ parse_ublist [61;120]%N = None
                      /\ parse_ublist [123;49;123;50;125]%N = None /\ parse_ublist [123;123]%N = None.
Proof. repeat split; try reflexivity. discriminate. Qed.

Print Assumptions C18_accepted_bound_is_well_formed.
Print Assumptions C18_accepted_list_has_no_zero_index.
Print Assumptions C18_rejected_before_any_input.
Print Assumptions C18_plain_text_is_reproduced.
Print Assumptions C18_integer_iff.
Print Assumptions C18_bound_accepted_iff.
Print Assumptions C18_list_accepted_iff.
Print Assumptions C18_list_structure.

(** non-vacuity: -2:=a:b=c is in the language (a negative index, an open right side, a
    fallback holding ':' and '='), 3:2 and 0 are not *)
Example C18_grammar_examples :
  bound_text [45;50;58;61;97;58;98;61;99]%N (mkB (SSome (-2)) SCont false (Some [97;58;98;61;99]%N))
  /\ parse_bound [51;58;50]%N = None /\ parse_bound [48]%N = None.
Proof.
  split; [|split; reflexivity].
  apply (bt_fallback [45;50;58]%N [97;58;98;61;99]%N (SSome (-2)) SCont).
  apply (rt_from [45;50]%N (-2)). split; [|split; [unfold in_i32; lia | lia]].
  exact (il_minus [50]%N ltac:(discriminate) ltac:(repeat constructor; unfold digit; lia)).
Qed.
Print Assumptions C18_format_accepted_iff.
Print Assumptions C18_documented_format_is_accepted.
Print Assumptions C18_format_list_accepted_iff.
Print Assumptions C18_literal_text_rendering.

(** non-vacuity: a{{{1:2=x}}}b is in the documented language: text "a{{", the bound 1:2=x,
    text "}}b" *)
Example C18_format_example :
  scan_format [97;123;123;123;49;58;50;61;120;125;125;125;98]%N false [] []
  = Some [Filler [97;123]%N; Bound (mkB (SSome 1) (SSome 2) false (Some [120]%N)); Filler [125;98]%N].
Proof. reflexivity. Qed.
