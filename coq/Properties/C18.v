(** C18 — the bounds mini-language.  Statements only.
    Proved: soundness of acceptance (what is accepted is well-formed), rejection before any
    input, plain text rendering.  The full "accepted iff" is checked exhaustively up to a
    length bound by the run (every string over the statement's alphabet), not proved. *)
From TucModel Require Import Base.Bytes Model.Bounds Model.BoundsParse Model.Opt Model.Args Model.Main
     Spec.Resolve Proofs.BoundsFacts Proofs.C06 Proofs.ParseFacts Proofs.C18.
Local Open Scope Z_scope.

Theorem C18_accepted_bound_is_well_formed :
  forall (s : bytes) (b : ubound), parse_bound s = Some b ->
    side_i32 (bl b) /\ side_i32 (br b)
    /\ (forall l r, bl b = SSome l -> br b = SSome r -> same_sign r l = true -> l <= r).
Proof. exact parse_bound_sound. Qed.

Theorem C18_accepted_list_has_no_zero_index :
  forall (s : bytes) (u : ublist), parse_ublist s = Some u -> Forall item_nz (items u).
Proof. exact parse_ublist_nz. Qed.

Theorem C18_rejected_before_any_input :
  forall argv : args, parse_args argv = PExit1 -> forall input, run_main argv input = MOut (Fail []).
Proof. exact rejected_before_input. Qed.

Theorem C18_plain_text_is_reproduced :
  forall s : bytes, forallb plain_byte s = true -> render_filler s = s.
Proof. exact render_plain. Qed.

Example C18_escapes :   (* a{{b}}\n\t  ->  a{b} LF TAB *)
  render_filler [97;123;123;98;125;125;92;110;92;116]%N = [97;123;98;125;10;9]%N.
Proof. reflexivity. Qed.

Example C18_accepts : parse_ublist [123;49;125;125;125]%N <> None /\ parse_ublist [61;120]%N = None
                      /\ parse_ublist [123;49;123;50;125]%N = None /\ parse_ublist [123;123]%N = None.
Proof. repeat split; try reflexivity. discriminate. Qed.

Print Assumptions C18_accepted_bound_is_well_formed.
Print Assumptions C18_accepted_list_has_no_zero_index.
Print Assumptions C18_rejected_before_any_input.
Print Assumptions C18_plain_text_is_reproduced.
