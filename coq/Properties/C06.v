(** C06 — byte mode is exact and binary-safe.  Statements only. *)
From TucModel Require Import Base.Bytes Model.Bounds Model.CutBytes Spec.Resolve Spec.BytesMode
     Proofs.BoundsFacts Proofs.C06.

(** every input, every list of resolvable bounds, any format text: the output is exactly
    the selected bytes in request order, nothing added (no EOL), no byte value special
    (the statement is over all [N], in particular over all bytes) *)
Theorem C06_byte_mode_exact :
  forall (l : ublist) (generic : option bytes) (data : bytes),
    data <> [] ->
    Forall item_nz (items l) ->
    Forall (item_resolves (length data)) (items l) ->
    cut_bytes l generic data = Done (spec_bytes (items l) data).
Proof. exact C06_exact. Qed.

Theorem C06_empty_input :
  forall (l : ublist) (generic : option bytes), cut_bytes l generic [] = Done [].
Proof. exact C06_empty. Qed.

Print Assumptions C06_byte_mode_exact.
Print Assumptions C06_empty_input.
