(** C02 — the single-byte-delimiter fast path is indistinguishable from the general path.
    Statements only. *)
From TucModel Require Import Base.Bytes Base.ListX Model.Bounds Model.BoundsParse Model.Scan Model.Opt
     Model.CutBytes Model.CutStr Model.FastLane Spec.Resolve Proofs.BoundsFacts Proofs.C06 Proofs.ParseFacts
     Proofs.C02.
Local Open Scope Z_scope.

(** for every option set in the fast path's domain, every bounds list built by
    From<Vec<BoundOrFiller>> from non-zero indexes (every list the parser accepts), and every
    input: same stdout, same exit status, same completed records when a record fails *)
Theorem C02_fast_lane_equals_general_path :
  forall (o : opt) (l : list bof) (input : bytes),
    fast_eligible o = true -> from_vec l = Some (o_bounds o) -> Forall item_nz l ->
    read_and_cut_fast o input = read_and_cut_str o input.
Proof. exact C02_run. Qed.

(** record by record (which records -s drops, which bounds are out of range, which bytes
    are printed) *)
Theorem C02_each_record :
  forall (o : opt) (l : list bof) (record : bytes),
    fast_eligible o = true -> from_vec l = Some (o_bounds o) -> Forall item_nz l ->
    cut_str o record = Some (cut_fast o record).
Proof. exact C02_record. Qed.

(** the early stop is taken only when every index is positive, every right side is closed
    and none exceeds the stop; resolving such a bound on the truncated field count or on
    the real one gives the same answer *)
Theorem C02_last_interesting_field_is_sound :
  forall (l : list bof) (u : ublist) (L : Z),
    from_vec l = Some u -> lif u = SSome L -> 0 < L -> items_within L (items u).
Proof. exact lif_sound. Qed.

Theorem C02_early_stop_never_changes_a_range :
  forall (L n : nat) (b : ubound),
    bound_within (Z.of_nat L) b -> (L <= n)%nat -> try_into_range b L = try_into_range b n.
Proof. exact early_stop_resolve. Qed.

(** the hypotheses hold for everything parse_args can build *)
Theorem C02_parser_output_qualifies :
  forall (s : bytes) (u : ublist), parse_ublist s = Some u ->
    exists l, from_vec l = Some u /\ Forall item_nz l.
Proof.
  intros s u H. unfold parse_ublist in H. destruct s as [|c s]; [discriminate|].
  destruct (parse_bounds_list (c :: s)) as [l|] eqn:E; [|discriminate].
  exists l. split; [exact H | exact (parse_bounds_list_nz _ _ E)].
Qed.

Print Assumptions C02_fast_lane_equals_general_path.
Print Assumptions C02_each_record.
Print Assumptions C02_last_interesting_field_is_sound.
Print Assumptions C02_early_stop_never_changes_a_range.
Print Assumptions C02_parser_output_qualifies.
