(** C11, whole records and runs: the general path commutes with every injective renaming
    of the bytes, applied to the input and to every option text. *)
From TucModel Require Import Base.Bytes Base.ListX Model.Bounds Model.Scan Model.Utf8 Model.Json Model.Regex
     Model.Opt Model.CutBytes Model.CutStr Proofs.C10 Proofs.C11.

Section Renaming.
  Variable f : byte -> byte.
  Hypothesis f_inj : forall a b, f a = f b -> a = b.
  Notation rn := (map f).

  Definition rename_bound (b : ubound) : ubound := mkB (bl b) (br b) (blast b) (option_map rn (bfb b)).
  Definition rename_item (x : bof) : bof :=
    match x with Bound b => Bound (rename_bound b) | Filler t => Filler (rn t) end.
  Definition rename_ublist (u : ublist) : ublist := mkL (map rename_item (items u)) (lif u).
  Definition rename_opt (o : opt) : opt :=
    mkOpt (rn (o_delim o)) (f (o_eol o)) (rename_ublist (o_bounds o)) (o_btype o) (o_only_delimited o)
          (o_greedy o) (o_compress o) (option_map rn (o_replace o)) (o_trim o) (o_complement o)
          (o_join o) (o_json o) (o_fixed_memory o) (option_map rn (o_fallback o)) (o_regex o).
  Definition rename_rres (r : rres) : rres :=
    match r with ROk out => ROk (rn out) | e => e end.
  Definition rename_outcome (x : outcome) : outcome :=
    match x with Done out => Done (rn out) | Fail pre => Fail (rn pre) | e => e end.

  (** bounds: only the fallback texts change *)
  Lemma try_into_range_rename b n : try_into_range (rename_bound b) n = try_into_range b n.
  Proof. reflexivity. Qed.

  Lemma fallback_for_rename b g :
    fallback_for (rename_bound b) (option_map rn g) = option_map rn (fallback_for b g).
  Proof. unfold fallback_for. cbn [rename_bound bfb]. destruct (bfb b); reflexivity. Qed.

  Lemma bounds_only_rename l : bounds_only (map rename_item l) = map rename_bound (bounds_only l).
  Proof.
    induction l as [|x l IH]; [reflexivity|]. destruct x as [b|t]; cbn [map rename_item bounds_only flat_map app];
      fold (bounds_only (map rename_item l)); fold (bounds_only l); rewrite IH; reflexivity.
  Qed.

  Lemma mark_last_rename l : mark_last (map rename_item l) = map rename_item (mark_last l).
  Proof.
    induction l as [|x l IH]; [reflexivity|]. destruct x as [b|t]; cbn [map rename_item mark_last].
    - rewrite bounds_only_rename. destruct (bounds_only l); cbn [map]; [reflexivity | rewrite IH; reflexivity].
    - rewrite IH. reflexivity.
  Qed.

  Lemma existsb_rename_bound (p : ubound -> bool) bs :
    (forall b, p (rename_bound b) = p b) -> existsb p (map rename_bound bs) = existsb p bs.
  Proof. intros H. induction bs as [|b bs IH]; [reflexivity|]. cbn. rewrite H, IH. reflexivity. Qed.

  Lemma rightmost_rename : forall bs acc, rightmost acc (map rename_bound bs) = rightmost acc bs.
  Proof. induction bs as [|b bs IH]; intros acc; [reflexivity|]. cbn [map rightmost rename_bound br]. apply IH. Qed.

  Lemma is_sortable_rename l : is_sortable (map rename_item l) = is_sortable l.
  Proof.
    unfold is_sortable. rewrite bounds_only_rename.
    rewrite !existsb_rename_bound by (intros b; reflexivity). reflexivity.
  Qed.

  Lemma from_vec_rename l : from_vec (map rename_item l) = option_map rename_ublist (from_vec l).
  Proof.
    unfold from_vec. rewrite bounds_only_rename, is_sortable_rename.
    destruct (bounds_only l) as [|b bs] eqn:E; [reflexivity|]. cbn [map option_map].
    unfold rename_ublist. cbn [items lif]. rewrite mark_last_rename. f_equal. f_equal.
    change (rename_bound b :: map rename_bound bs) with (map rename_bound (b :: bs)).
    rewrite rightmost_rename. reflexivity.
  Qed.

  Lemma rename_of_range a z : rename_bound (of_range a z) = of_range a z.
  Proof. reflexivity. Qed.

  Lemma complement_items_rename l n :
    complement_items (map rename_item l) n = map rename_item (complement_items l n).
  Proof.
    unfold complement_items. induction l as [|x l IH]; [reflexivity|]. cbn [map flat_map].
    rewrite IH, map_app. f_equal. destruct x as [b|t]; cbn [rename_item]; [|reflexivity].
    unfold complement_bound. rewrite try_into_range_rename.
    destruct (try_into_range b n) as [[s e]|]; [|reflexivity].
    rewrite !map_map. apply map_ext. intros r. reflexivity.
  Qed.

  Lemma complement_list_rename l n :
    complement_list (map rename_item l) n = option_map rename_ublist (complement_list l n).
  Proof.
    unfold complement_list. rewrite complement_items_rename, bounds_only_rename.
    destruct (bounds_only (complement_items l n)); [reflexivity|]. cbn [map]. apply from_vec_rename.
  Qed.

  Lemma rename_single i : rename_bound (single i) = single i.
  Proof. reflexivity. Qed.

  Lemma unpack_bound_rename b n : unpack_bound (rename_bound b) n = map rename_bound (unpack_bound b n).
  Proof.
    unfold unpack_bound. rewrite try_into_range_rename. destruct (try_into_range b n) as [[s e]|]; [|reflexivity].
    generalize (e - s). intros c. revert s. induction c as [|c IH]; intros s; [reflexivity|].
    cbn [singles_from map]. rewrite <- IH. reflexivity.
  Qed.

  Lemma unpack_list_rename l n :
    unpack_list (map rename_item l) n = option_map rename_ublist (unpack_list l n).
  Proof.
    unfold unpack_list. rewrite <- from_vec_rename. f_equal.
    induction l as [|x l IH]; [reflexivity|]. cbn [map flat_map]. rewrite IH, map_app. f_equal.
    destruct x as [b|t]; cbn [rename_item]; [|reflexivity].
    rewrite unpack_bound_rename, !map_map. reflexivity.
  Qed.

  Lemma needs_unpack_rename l : needs_unpack (map rename_item l) = needs_unpack l.
  Proof.
    unfold needs_unpack. induction l as [|x l IH]; [reflexivity|]. cbn [map existsb]. rewrite IH.
    destruct x; reflexivity.
  Qed.

  (** texts *)
  Lemma replace_matches_from_rename line rep : forall ms prev,
    replace_matches_from (rn line) prev ms (rn rep) = rn (replace_matches_from line prev ms rep).
  Proof.
    induction ms as [|m0 ms IH]; intros prev; cbn [replace_matches_from].
    - apply skipn_map.
    - rewrite (slice_rename f), IH, !map_app. reflexivity.
  Qed.

  Lemma lit_matches_rename d line : lit_matches (rn d) (rn line) = lit_matches d line.
  Proof. unfold lit_matches, find_iter. rewrite (find_iter_aux_rename f f_inj), map_length. reflexivity. Qed.

  (** no regex, or character mode (where selected text is never rewritten) *)
  Definition rx_ok (o : opt) : Prop := o_regex o = None \/ o_btype o = BChars.

  Lemma maybe_replace_rename o t : rx_ok o ->
    maybe_replace (rename_opt o) (rn t) = option_map rn (maybe_replace o t).
  Proof.
    intros Hx. unfold maybe_replace. cbn [rename_opt o_btype o_replace o_regex o_delim].
    destruct (o_btype o) eqn:Eb; try reflexivity;
      (destruct Hx as [Hx|Hx]; [rewrite Hx | congruence]);
      (destruct (o_replace o) as [nd|]; cbn [option_map]; [|reflexivity]);
      unfold replace_matches; rewrite lit_matches_rename, replace_matches_from_rename; reflexivity.
  Qed.

  Lemma emit_part_rename o t : o_json o = false -> emit_part (rename_opt o) (rn t) = option_map rn (emit_part o t).
  Proof. intros Hj. unfold emit_part. cbn [rename_opt o_json]. rewrite Hj. reflexivity. Qed.

  Lemma out_loop_rename o line fields : rx_ok o -> o_json o = false -> forall bs,
    out_loop (rename_opt o) (rn line) fields (map rename_item bs) = rename_rres (out_loop o line fields bs).
  Proof.
    intros Hx Hj. induction bs as [|x bs IH]; [reflexivity|].
    destruct x as [b|t]; cbn [map rename_item out_loop].
    - rewrite try_into_range_rename, IH.
      assert (Hsep : (if o_join (rename_opt o) && negb (blast (rename_bound b))
                      then match o_replace (rename_opt o) with Some nd => nd | None => o_delim (rename_opt o) end
                      else [])
                     = rn (if o_join o && negb (blast b)
                           then match o_replace o with Some nd => nd | None => o_delim o end else [])).
      { cbn [rename_opt o_join o_replace o_delim rename_bound blast].
        destruct (o_join o && negb (blast b)); [|reflexivity]. destruct (o_replace o); reflexivity. }
      rewrite Hsep. clear Hsep.
      destruct (try_into_range b (length fields)) as [[s e]|].
      + destruct (range_start fields s) as [a|]; [|reflexivity].
        destruct (range_end fields (e - 1)) as [z|]; [|reflexivity].
        rewrite map_length.
        destruct (Nat.leb a z && Nat.leb z (length line)); [|reflexivity].
        rewrite (slice_rename f), (maybe_replace_rename o _ Hx).
        destruct (maybe_replace o (slice line a z)) as [t|]; cbn [option_map]; [|reflexivity].
        rewrite (emit_part_rename o t Hj). destruct (emit_part o t) as [p|]; cbn [option_map]; [|reflexivity].
        destruct (out_loop o line fields bs); cbn [rename_rres]; try reflexivity.
        rewrite !map_app. reflexivity.
      + cbn [rename_opt o_fallback]. rewrite fallback_for_rename.
        destruct (fallback_for b (o_fallback o)) as [fb|]; cbn [option_map]; [|reflexivity].
        fold (rename_opt o). rewrite (emit_part_rename o fb Hj).
        destruct (emit_part o fb) as [p|]; cbn [option_map]; [|reflexivity].
        destruct (out_loop o line fields bs); cbn [rename_rres]; try reflexivity.
        rewrite !map_app. reflexivity.
    - rewrite IH. destruct (out_loop o line fields bs); reflexivity || (cbn [rename_rres]; rewrite map_app; reflexivity).
  Qed.

  Lemma rn_nil_iff (l : bytes) : rn l = [] <-> l = [].
  Proof. destruct l; split; intros H; try reflexivity; discriminate. Qed.

  Lemma fields_of_matches_rename ms line : fields_of_matches ms (rn line) = fields_of_matches ms line.
  Proof. unfold fields_of_matches. rewrite map_length. destruct line; reflexivity. Qed.

  (** what follows once the fields are known *)
  Lemma cut_tail o line (fields0 : list mtch) : rx_ok o -> o_json o = false ->
    (let fields := if btype_eqb (o_btype o) BChars then drop_outer fields0 else fields0 in
     let n := length fields in
     if o_only_delimited o && Nat.eqb n 1 then Some (ROk [])
     else
       match (if o_complement o
              then match complement_list (map rename_item (items (o_bounds o))) n with
                   | Some l => Some (items l)
                   | None => None
                   end
              else Some (map rename_item (items (o_bounds o)))) with
       | None => Some RErr
       | Some bs1 =>
           match (if (false || btype_eqb (o_btype o) BChars
                               && match option_map rn (o_replace o) with Some _ => true | None => false end)
                     && needs_unpack bs1
                  then match unpack_list bs1 n with Some l => Some (items l) | None => None end
                  else Some bs1) with
           | None => Some RPanic
           | Some bs2 =>
               match out_loop (rename_opt o) (rn line) fields bs2 with
               | ROk body => Some (ROk ([] ++ body ++ [] ++ [f (o_eol o)]))
               | e => Some e
               end
           end
       end)
    = option_map rename_rres
        (let fields := if btype_eqb (o_btype o) BChars then drop_outer fields0 else fields0 in
         let n := length fields in
         if o_only_delimited o && Nat.eqb n 1 then Some (ROk [])
         else
           match (if o_complement o
                  then match complement_list (items (o_bounds o)) n with
                       | Some l => Some (items l)
                       | None => None
                       end
                  else Some (items (o_bounds o))) with
           | None => Some RErr
           | Some bs1 =>
               match (if (false || btype_eqb (o_btype o) BChars
                                   && match o_replace o with Some _ => true | None => false end)
                         && needs_unpack bs1
                      then match unpack_list bs1 n with Some l => Some (items l) | None => None end
                      else Some bs1) with
               | None => Some RPanic
               | Some bs2 =>
                   match out_loop o line fields bs2 with
                   | ROk body => Some (ROk ([] ++ body ++ [] ++ [o_eol o]))
                   | e => Some e
                   end
               end
           end).
  Proof.
    intros Hx Hj. cbv zeta.
    set (fields := if btype_eqb (o_btype o) BChars then drop_outer fields0 else fields0).
    destruct (o_only_delimited o && Nat.eqb (length fields) 1); [reflexivity|].
    assert (Hb1 : (if o_complement o
                   then match complement_list (map rename_item (items (o_bounds o))) (length fields) with
                        | Some l => Some (items l)
                        | None => None
                        end
                   else Some (map rename_item (items (o_bounds o))))
                  = option_map (map rename_item)
                      (if o_complement o
                       then match complement_list (items (o_bounds o)) (length fields) with
                            | Some l => Some (items l)
                            | None => None
                            end
                       else Some (items (o_bounds o)))).
    { destruct (o_complement o); [|reflexivity]. rewrite complement_list_rename.
      destruct (complement_list (items (o_bounds o)) (length fields)); reflexivity. }
    rewrite Hb1. clear Hb1.
    destruct (if o_complement o then _ else _) as [bs1|]; cbn [option_map]; [|reflexivity].
    rewrite needs_unpack_rename.
    assert (Hsome : match option_map rn (o_replace o) with Some _ => true | None => false end
                    = match o_replace o with Some _ => true | None => false end)
      by (destruct (o_replace o); reflexivity).
    rewrite Hsome. clear Hsome.
    destruct ((false || btype_eqb (o_btype o) BChars && match o_replace o with Some _ => true | None => false end)
              && needs_unpack bs1).
    - rewrite unpack_list_rename. destruct (unpack_list bs1 (length fields)) as [u|]; cbn [option_map]; [|reflexivity].
      unfold rename_ublist. cbn [items]. rewrite (out_loop_rename o line fields Hx Hj).
      destruct (out_loop o line fields (items u)); cbn [rename_rres option_map]; try reflexivity.
      cbn [app]. rewrite map_app. reflexivity.
    - rewrite (out_loop_rename o line fields Hx Hj).
      destruct (out_loop o line fields bs1); cbn [rename_rres option_map]; try reflexivity.
      cbn [app]. rewrite map_app. reflexivity.
  Qed.

  (** one record through the whole general path (literal delimiter, no --json) *)
  Theorem cut_str_rename o line0 : o_regex o = None -> o_json o = false ->
    cut_str (rename_opt o) (rn line0) = option_map rename_rres (cut_str o line0).
  Proof.
    intros Hx Hj. unfold cut_str.
    cbn [rename_opt o_regex o_replace o_compress o_join o_trim o_delim o_only_delimited o_eol o_btype o_greedy
         o_complement o_bounds o_json]. rewrite Hx, Hj. cbn [andb orb].
    assert (Htrim : match o_trim o with
                    | Some k => Some (trim_lit k (rn (o_delim o)) (rn line0))
                    | None => Some (rn line0)
                    end
                    = option_map rn (match o_trim o with
                                     | Some k => Some (trim_lit k (o_delim o) line0)
                                     | None => Some line0
                                     end)).
    { destruct (o_trim o) as [k|]; cbn [option_map]; [rewrite (trim_rename f f_inj) |]; reflexivity. }
    rewrite Htrim. clear Htrim.
    destruct (match o_trim o with Some k => Some (trim_lit k (o_delim o) line0) | None => Some line0 end)
      as [line1|]; cbn [option_map]; [|reflexivity].
    destruct line1 as [|c l1]; cbn [map].
    { destruct (o_only_delimited o); reflexivity. }
    change (f c :: rn l1) with (rn (c :: l1)). set (L := c :: l1).
    set (sc := o_compress o && (btype_eqb (o_btype o) BFields || btype_eqb (o_btype o) BLines)).
    destruct sc.
    - rewrite (compress_rename f f_inj). cbv iota beta.
      destruct (o_greedy o); cbv iota beta; rewrite !lit_matches_rename; cbv iota beta;
        rewrite !fields_of_matches_rename; apply cut_tail; try assumption; left; assumption.
    - cbv iota beta.
      destruct (o_greedy o); cbv iota beta; rewrite !lit_matches_rename; cbv iota beta;
        rewrite !fields_of_matches_rename; apply cut_tail; try assumption; left; assumption.
  Qed.

  Lemma run_records_rename cut cut' :
    (forall r, cut' (rn r) = option_map rename_rres (cut r)) ->
    forall rs acc, run_records cut' (map rn rs) (rn acc) = option_map rename_outcome (run_records cut rs acc).
  Proof.
    intros H. induction rs as [|r rs IH]; intros acc; cbn [map run_records]; [reflexivity|].
    rewrite H. destruct (cut r) as [[o| | |]|]; cbn [option_map rename_rres]; try reflexivity.
    rewrite <- map_app. apply IH.
  Qed.

  (** whole runs of the general path *)
  Theorem general_path_rename o input : o_regex o = None -> o_json o = false ->
    read_and_cut_str (rename_opt o) (rn input) = option_map rename_outcome (read_and_cut_str o input).
  Proof.
    intros Hx Hj. unfold read_and_cut_str. cbn [rename_opt o_eol]. fold (rename_opt o).
    rewrite (records_rename f f_inj).
    apply (run_records_rename (cut_str o) (cut_str (rename_opt o)) (fun r => cut_str_rename o r Hx Hj) _ []).
  Qed.
End Renaming.

(** ---------- the instance of the statement: LF and NUL exchanged *)
Definition neutral (t : bytes) : Prop := Forall (fun x => x <> LF /\ x <> NUL) t.

Lemma swap_neutral t : neutral t -> map swap t = t.
Proof.
  induction 1 as [|x t [A B] Ht IH]; [reflexivity|]. cbn [map]. rewrite IH. f_equal.
  unfold swap. destruct (N.eqb_spec x LF); [contradiction|]. destruct (N.eqb_spec x NUL); [contradiction|]. reflexivity.
Qed.

Definition neutral_opt (t : option bytes) : Prop := match t with Some x => neutral x | None => True end.

Definition neutral_item (x : bof) : Prop :=
  match x with Bound b => neutral_opt (bfb b) | Filler t => neutral t end.

(** option texts (delimiter, replacement, fallbacks, format text) that hold neither LF nor NUL *)
Definition neutral_texts (o : opt) : Prop :=
  neutral (o_delim o) /\ neutral_opt (o_replace o) /\ neutral_opt (o_fallback o)
  /\ Forall neutral_item (items (o_bounds o)).

Definition with_eol (e : byte) (o : opt) : opt :=
  mkOpt (o_delim o) e (o_bounds o) (o_btype o) (o_only_delimited o) (o_greedy o) (o_compress o)
        (o_replace o) (o_trim o) (o_complement o) (o_join o) (o_json o) (o_fixed_memory o) (o_fallback o) (o_regex o).

Lemma option_map_neutral t : neutral_opt t -> option_map (map swap) t = t.
Proof. destruct t; cbn; [intros H; rewrite (swap_neutral _ H); reflexivity | reflexivity]. Qed.

Lemma rename_neutral_opt o : neutral_texts o -> rename_opt swap o = with_eol (swap (o_eol o)) o.
Proof.
  intros [Hd [Hr [Hf Hb]]]. unfold rename_opt, with_eol.
  rewrite (swap_neutral _ Hd), (option_map_neutral _ Hr), (option_map_neutral _ Hf). f_equal.
  unfold rename_ublist. destruct (o_bounds o) as [its l]. cbn [items lif] in *. f_equal.
  induction Hb as [|x its Hx Hits IH]; [reflexivity|]. cbn [map]. rewrite IH. f_equal.
  destruct x as [b|t]; cbn [rename_item neutral_item] in *.
  - unfold rename_bound. rewrite (option_map_neutral _ Hx). destruct b; reflexivity.
  - rewrite (swap_neutral _ Hx). reflexivity.
Qed.

(** C11 for the general path (multi-byte delimiters, -g -p -t -s -m -j -r, format text,
    fallbacks): running with the other terminator on the input with LF and NUL exchanged
    gives the exchanged output and the same status *)
Theorem C11_general_path_swap o input :
  o_regex o = None -> o_json o = false -> neutral_texts o ->
  read_and_cut_str (with_eol (swap (o_eol o)) o) (map swap input)
  = option_map (rename_outcome swap) (read_and_cut_str o input).
Proof.
  intros Hx Hj Hn. rewrite <- (rename_neutral_opt o Hn). apply general_path_rename; [apply swap_injective | assumption | assumption].
Qed.

(** the fast lane computes what the general path computes (C02), so the same holds there *)
From TucModel Require Import Model.FastLane Proofs.C06 Proofs.C02.

Theorem C11_fast_lane_swap o l input :
  fast_eligible o = true -> from_vec l = Some (o_bounds o) -> Forall item_nz l -> neutral_texts o ->
  read_and_cut_fast (with_eol (swap (o_eol o)) o) (map swap input)
  = option_map (rename_outcome swap) (read_and_cut_fast o input).
Proof.
  intros He Hf Hnz Hn.
  assert (He' : fast_eligible (with_eol (swap (o_eol o)) o) = true) by exact He.
  rewrite (C02_run (with_eol (swap (o_eol o)) o) l _ He' Hf Hnz), (C02_run o l _ He Hf Hnz).
  unfold fast_eligible in He. repeat (apply andb_true_iff in He; destruct He as [He ?]).
  apply C11_general_path_swap; [|  | exact Hn].
  - destruct (o_regex o); [discriminate | reflexivity].
  - destruct (o_json o); [discriminate | reflexivity].
Qed.
