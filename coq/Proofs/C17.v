(** C17 (partial): in the accounting model the fixed-memory path keeps nothing that grows
    with the input: its pending items only shrink, the field piece it looks at lies inside
    the current chunk, and output is emitted, never retained. *)
From TucModel Require Import Base.Bytes Base.ListX Model.Bounds Model.Scan Model.Opt Model.CutBytes
     Model.Stream Model.Space Proofs.C04.

Lemma items_size_tail x l : items_size l <= items_size (x :: l).
Proof. unfold items_size. cbn [fold_right]. lia. Qed.

(** print_bof never grows the pending items *)
Lemma print_bof_size so its curr piece trunc c o its' :
  print_bof so its curr piece trunc c = (o, its') -> items_size its' <= items_size its.
Proof.
  intros H. apply print_bof_its in H. destruct H as [->|[[x ->]|[x [y ->]]]].
  - lia.
  - apply items_size_tail.
  - etransitivity; [apply items_size_tail | apply items_size_tail].
Qed.

(** across a whole chunk the pending items only shrink *)
Theorem scan_chunk_items_shrink so : forall c its curr trunc p out out' its' curr' trunc',
  scan_chunk so its curr trunc p c out = ChunkEnd out' its' curr' trunc' ->
  items_size its' <= items_size its.
Proof.
  induction c as [|x c IH]; intros its curr trunc p out out' its' curr' trunc'; cbn [scan_chunk].
  - destruct p as [|y p'].
    + intros H; injection H as _ <- _ _. lia.
    + destruct (print_bof so its curr (rev (y :: p')) trunc false) as [o i] eqn:E.
      intros H; injection H as _ <- _ _. eapply print_bof_size, E.
  - destruct (N.eqb x (s_eol so)).
    + destruct ((curr =? 1)%Z && negb trunc && match p with [] => true | _ => false end); [discriminate|].
      destruct (print_bof so its curr (rev p) trunc true) as [o i]. destruct (pff so i curr); discriminate.
    + destruct (N.eqb x (s_delim so)).
      * destruct (print_bof so its curr (rev p) trunc true) as [o i] eqn:E.
        destruct (side_eqb (SSome curr) (s_lif so)).
        -- destruct (pff so i curr); discriminate.
        -- intros H. apply IH in H. apply print_bof_size in E. lia.
      * apply IH.
Qed.

(** the resident account of the streaming machine is bounded by the option's own size plus
    the chunk it is looking at - nothing in it depends on the line or the input length *)
Theorem stream_resident_bounded so c its curr trunc out out' its' curr' trunc' chunk' :
  scan_chunk so its curr trunc [] c out = ChunkEnd out' its' curr' trunc' ->
  items_size its <= items_size (s_items so) ->
  stream_resident its' chunk' <= items_size (s_items so) + 3 + length chunk'.
Proof.
  intros H Hi. apply scan_chunk_items_shrink in H. unfold stream_resident. lia.
Qed.

(** the record paths: the account is linear in the record, independent of how many records
    came before (each record is cut by a function of that record alone) *)
Theorem record_resident_linear o record nf :
  nf <= length record + 1 ->
  record_resident o record nf <= 4 * length record + 2 + items_size (items (o_bounds o)).
Proof. intros H. unfold record_resident. destruct (o_compress o); lia. Qed.
