(** C16: the mini engine against the declarative semantics of Spec/RegexLang.v. *)
From TucModel Require Import Base.Bytes Base.ListX Model.Scan Model.Utf8 Model.Regex Spec.RegexLang Proofs.ScanSplit.

(** no regex of the family matches the empty string *)
Lemma re_lang_nonempty r : forall u, re_lang r u -> u <> [].
Proof.
  induction r as [b|rs|a IHa b IHb|a IHa b IHb|a IHa]; intros u H.
  - inversion H; subst. discriminate.
  - inversion H; subst. discriminate.
  - inversion H as [| |? ? u1 v1 Hu Hv| | |]; subst. pose proof (IHa _ Hu) as N1.
    destruct u1; [contradiction | discriminate].
  - inversion H as [| | |? ? ? Hu|? ? ? Hu|]; subst; [apply IHa | apply IHb]; assumption.
  - inversion H as [| | | | |? us Hne HF]; subst. destruct us as [|u1 us']; [contradiction|].
    inversion HF as [|? ? H1 _]; subst. pose proof (IHa _ H1) as N1.
    cbn [concat]. destruct u1; [contradiction | discriminate].
Qed.

(** the loop of RPlus, spelled out so that lemmas can speak about it *)
Definition plus_loop (a : re) (k : bytes -> option bytes) :=
  fix loop (fuel : nat) (s0 : bytes) {struct fuel} : option bytes :=
    match fuel with
    | O => None
    | S f =>
        m a s0 (fun s' =>
                  if Nat.ltb (length s') (length s0) then
                    match loop f s' with
                    | Some x => Some x
                    | None => k s'
                    end
                  else k s')
    end.

Lemma m_plus a s k : m (RPlus a) s k = plus_loop a k (S (length s)) s.
Proof. reflexivity. Qed.

(** soundness: what the engine matches is in the language *)
Lemma m_sound r : forall s k rest, m r s k = Some rest ->
  exists u s', s = u ++ s' /\ re_lang r u /\ k s' = Some rest.
Proof.
  induction r as [b|rs|a IHa b IHb|a IHa b IHb|a IHa]; intros s k rest.
  - cbn [m]. destruct s as [|x s']; [discriminate|]. destruct (N.eqb_spec x b) as [->|]; [|discriminate].
    intros H. exists [b], s'. repeat split; [constructor | exact H].
  - cbn [m]. destruct s as [|x s']; [discriminate|]. destruct (in_class rs x) eqn:E; [|discriminate].
    intros H. exists [x], s'. repeat split; [constructor; exact E | exact H].
  - cbn [m]. intros H. destruct (IHa _ _ _ H) as [u [s1 [-> [Hu H1]]]].
    destruct (IHb _ _ _ H1) as [v [s2 [-> [Hv H2]]]].
    exists (u ++ v), s2. rewrite <- app_assoc. repeat split; [constructor; assumption | exact H2].
  - cbn [m]. destruct (m a s k) as [x|] eqn:E.
    + intros H; injection H as <-. destruct (IHa _ _ _ E) as [u [s1 [-> [Hu H1]]]].
      exists u, s1. repeat split; [apply L_alt_l; exact Hu | exact H1].
    + intros H. destruct (IHb _ _ _ H) as [u [s1 [-> [Hu H1]]]].
      exists u, s1. repeat split; [apply L_alt_r; exact Hu | exact H1].
  - rewrite m_plus. generalize (S (length s)) as fuel. intros fuel. revert s rest.
    induction fuel as [|f IHf]; intros s rest; cbn [plus_loop]; [discriminate|].
    intros H. destruct (IHa _ _ _ H) as [u [s1 [-> [Hu H1]]]].
    destruct (Nat.ltb (length s1) (length (u ++ s1))).
    + destruct (plus_loop a k f s1) as [x|] eqn:E.
      * injection H1 as <-. destruct (IHf _ _ E) as [v [s2 [-> [Hv H2]]]].
        inversion Hv as [| | | | |? us Hne HF]; subst.
        exists (u ++ concat us), s2. rewrite <- app_assoc. repeat split; [|exact H2].
        change (u ++ concat us) with (concat (u :: us)). constructor; [discriminate | constructor; assumption].
      * exists u, s1. repeat split; [|exact H1].
        rewrite <- (app_nil_r u). change (u ++ []) with (concat [u]). constructor; [discriminate | repeat constructor; exact Hu].
    + exists u, s1. repeat split; [|exact H1].
      rewrite <- (app_nil_r u). change (u ++ []) with (concat [u]). constructor; [discriminate | repeat constructor; exact Hu].
Qed.

(** completeness: if some word of the language heads the text and the continuation accepts
    what follows it, the engine finds a match (not necessarily that one: it is leftmost-first) *)
Lemma m_complete r : forall u, re_lang r u -> forall s' k, k s' <> None -> m r (u ++ s') k <> None.
Proof.
  induction r as [b|rs|a IHa b IHb|a IHa b IHb|a IHa]; intros u Hu s' k Hk.
  - inversion Hu; subst. cbn [app m]. rewrite N.eqb_refl. exact Hk.
  - inversion Hu as [|? ? E| | | |]; subst. cbn [app m]. rewrite E. exact Hk.
  - inversion Hu as [| |? ? u1 v1 H1 H2| | |]; subst. cbn [m]. rewrite <- app_assoc.
    apply IHa; [exact H1|]. apply IHb; assumption.
  - cbn [m]. inversion Hu as [| | |? ? ? H1|? ? ? H1|]; subst.
    + pose proof (IHa u H1 s' k Hk) as G. destruct (m a (u ++ s') k); [discriminate | contradiction].
    + destruct (m a (u ++ s') k); [discriminate|]. apply IHb; assumption.
  - inversion Hu as [| | | | |? pieces Hne0 HF0]; subst. rewrite m_plus.
    assert (G : forall us, us <> [] -> Forall (re_lang a) us ->
                forall fuel, length (concat us ++ s') < fuel -> plus_loop a k fuel (concat us ++ s') <> None).
    { induction us as [|u1 us IHus]; intros Hne HF fuel Hf; [contradiction|].
      inversion HF as [|? ? H1 Hrest]; subst. destruct fuel as [|f]; [lia|]. cbn [plus_loop concat].
      rewrite <- app_assoc. apply IHa; [exact H1|].
      pose proof (re_lang_nonempty a u1 H1) as Hu1.
      assert (Hlt : Nat.ltb (length (concat us ++ s')) (length (u1 ++ concat us ++ s')) = true).
      { apply Nat.ltb_lt. rewrite (app_length u1). destruct u1; [contradiction | cbn; lia]. }
      rewrite Hlt. destruct us as [|u2 us'].
      - cbn [concat app]. destruct (plus_loop a k f s'); [discriminate | exact Hk].
      - assert (Hf' : length (concat (u2 :: us') ++ s') < f).
        { apply Nat.ltb_lt in Hlt. change (concat (u1 :: u2 :: us')) with (u1 ++ concat (u2 :: us')) in Hf.
          rewrite <- app_assoc in Hf. lia. }
        pose proof (IHus ltac:(discriminate) Hrest f Hf') as G.
        destruct (plus_loop a k f (concat (u2 :: us') ++ s')); [discriminate | contradiction]. }
    apply G; [assumption | assumption | lia].
Qed.

(** the length of the match at the head of a text *)
Theorem match_len_some r l n : match_len r l = Some n -> n <= length l /\ re_lang r (firstn n l).
Proof.
  unfold match_len. destruct (m r l (fun rest => Some rest)) as [rest|] eqn:E; [|discriminate].
  intros H; injection H as <-. destruct (m_sound r l _ rest E) as [u [s' [-> [Hu H1]]]].
  injection H1 as ->. rewrite app_length. split; [lia|].
  replace (length u + length rest - length rest) with (length u) by lia.
  rewrite firstn_app, Nat.sub_diag, firstn_all. cbn [firstn]. rewrite app_nil_r. exact Hu.
Qed.

Theorem match_len_none r l : match_len r l = None -> forall u s', l = u ++ s' -> ~ re_lang r u.
Proof.
  unfold match_len. destruct (m r l (fun rest => Some rest)) as [rest|] eqn:E; [discriminate|].
  intros _ u s' -> Hu. apply (m_complete r u Hu s' (fun rest => Some rest)); [discriminate | exact E].
Qed.

Theorem re_find_aux_spec r : forall l skip pos, scan_ok r skip pos l (re_find_aux r skip pos l).
Proof.
  induction l as [|x l IH]; intros skip pos; cbn [re_find_aux]; [constructor|].
  destruct skip as [|k]; [|constructor; apply IH].
  destruct (match_len r (x :: l)) as [[|n]|] eqn:E.
  - exfalso. destruct (match_len_some r _ _ E) as [_ H]. cbn in H. exact (re_lang_nonempty r [] H eq_refl).
  - destruct (match_len_some r _ _ E) as [Hle H]. apply so_match; [exact Hle | exact H | apply IH].
  - apply so_none; [exact (match_len_none r _ E) | apply IH].
Qed.

Corollary re_find_iter_spec r l : scan_ok r 0 0 l (re_find_iter r l).
Proof. apply re_find_aux_spec. Qed.
