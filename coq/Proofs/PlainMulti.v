(** The general path on one record for ANY non-empty literal delimiter (multi-byte,
    self-overlapping) and plain options, in terms of the record's fields [split d line]. *)
From TucModel Require Import Base.Bytes Base.ListX Model.Bounds Model.BoundsParse Model.Scan Model.Opt
     Model.CutBytes Model.CutStr Spec.Fields Proofs.BoundsFacts Proofs.C06 Proofs.ScanSplit
     Proofs.C02 Proofs.C05 Proofs.C12 Proofs.Plain Proofs.C01More.

(** matches of [d] in [line]: each is an occurrence of [d], they do not overlap *)
Fixpoint mpos (line d : bytes) (start : nat) (ms : list mtch) : Prop :=
  match ms with
  | [] => start <= length line
  | m :: ms' => start <= fst m /\ snd m = fst m + length d /\ slice line (fst m) (snd m) = d
                /\ mpos line d (snd m) ms'
  end.

Lemma mpos_weaken line d ms : forall s s', s' <= s -> mpos line d s ms -> mpos line d s' ms.
Proof.
  destruct ms as [|m ms]; intros s s' H; cbn [mpos]; [lia|]. intros [A B]. split; [lia | exact B].
Qed.

Lemma mpos_end line d : forall ms start, mpos line d start ms -> start <= length line.
Proof.
  induction ms as [|m ms IH]; intros start; cbn [mpos]; [tauto|].
  intros [A [B [C D]]]. apply IH in D. lia.
Qed.

Lemma starts_with_slice d (pre l : bytes) :
  starts_with d l = true -> slice (pre ++ l) (length pre) (length pre + length d) = d.
Proof.
  intros H. apply starts_with_true in H. destruct H as [r ->]. unfold slice.
  rewrite skipn_app_length. replace (length pre + length d - length pre) with (length d) by lia.
  rewrite firstn_app, Nat.sub_diag, firstn_all. cbn [firstn]. apply app_nil_r.
Qed.

Lemma find_iter_mpos d : d <> [] -> forall l pre skip,
  skip <= length l ->
  mpos (pre ++ l) d (length pre + skip)
       (map (fun p => (p, p + length d)) (find_iter_aux d skip (length pre) l)).
Proof.
  intros Hd. induction l as [|x l IH]; intros pre skip Hs; cbn [find_iter_aux].
  - cbn in Hs. assert (skip = 0) by lia. subst skip. destruct d; [contradiction|]. cbn [map mpos].
    rewrite app_length. cbn. lia.
  - destruct skip as [|k].
    + destruct (starts_with d (x :: l)) eqn:E.
      * cbn [map mpos fst snd]. split; [lia|]. split; [reflexivity|].
        split; [apply starts_with_slice, E|].
        specialize (IH (pre ++ [x]) (length d - 1)).
        rewrite <- app_assoc in IH. cbn [app] in IH. rewrite app_length in IH. cbn [length] in IH.
        replace (length pre + 1) with (S (length pre)) in IH by lia.
        apply starts_with_length in E. cbn [length] in E.
        replace (S (length pre) + (length d - 1)) with (length pre + length d) in IH
          by (destruct d; [contradiction | cbn; lia]).
        apply IH. lia.
      * specialize (IH (pre ++ [x]) 0). rewrite <- app_assoc in IH. cbn [app] in IH.
        rewrite app_length in IH. cbn [length] in IH.
        replace (length pre + 1) with (S (length pre)) in IH by lia.
        eapply mpos_weaken; [|apply IH; lia]. lia.
    + specialize (IH (pre ++ [x]) k). rewrite <- app_assoc in IH. cbn [app] in IH.
      rewrite app_length in IH. cbn [length] in IH.
      replace (length pre + 1) with (S (length pre)) in IH by lia.
      replace (length pre + S k) with (S (length pre) + k) by lia. apply IH. cbn in Hs. lia.
Qed.

Lemma lit_matches_mpos d line : d <> [] -> mpos line d 0 (lit_matches d line).
Proof. intros Hd. exact (find_iter_mpos d Hd line [] 0 ltac:(lia)). Qed.

Lemma mpos_wf line d : forall ms start, mpos line d start ms -> wf_ms start ms (length line).
Proof.
  induction ms as [|m ms IH]; intros start; cbn [mpos wf_ms]; [tauto|].
  intros [A [B [C D]]]. split; [exact A|]. split; [lia | apply IH, D].
Qed.

(** the slice from the start of field s to the end of field e-1 is those fields joined by d *)
Lemma range_slice_gen line d : forall ms start s e a z,
  mpos line d start ms -> s < e ->
  nth_error (gaps_from start ms (length line)) s = Some a ->
  nth_error (gaps_from start ms (length line)) (e - 1) = Some z ->
  slice line (fst a) (snd z)
  = intercalate d (firstn (e - s) (skipn s (pieces line (gaps_from start ms (length line))))).
Proof.
  induction ms as [|m ms IH]; intros start s e a z Hd Hse Ha Hz; cbn [gaps_from] in *.
  - destruct s; [|destruct s; discriminate]. destruct e as [|[|e']]; try lia; [|cbn in Hz; destruct e'; discriminate].
    cbn in Ha, Hz. injection Ha as <-. injection Hz as <-. cbn. reflexivity.
  - destruct Hd as [H1 [H2 [Hp H3]]].
    destruct s as [|s'].
    + cbn in Ha. injection Ha as <-. cbn [fst].
      destruct e as [|[|e']]; [lia | |].
      * cbn in Hz. injection Hz as <-. cbn [snd pieces map firstn skipn Nat.sub fst snd intercalate]. reflexivity.
      * replace (S (S e') - 1) with (S e') in Hz by lia. cbn [nth_error] in Hz.
        assert (Hfirst : exists a0, nth_error (gaps_from (snd m) ms (length line)) 0 = Some a0 /\ fst a0 = snd m).
        { destruct ms; cbn; eexists; split; reflexivity. }
        destruct Hfirst as [a0 [Ha0 Hf0]].
        specialize (IH (snd m) 0 (S e') a0 z H3 ltac:(lia) Ha0).
        replace (S e' - 1) with e' in IH by lia. specialize (IH Hz). rewrite Hf0 in IH.
        assert (Hz' : snd m <= snd z /\ snd z <= length line).
        { destruct (gaps_mono _ _ (snd m) 0 e' a0 z (mpos_wf _ _ _ _ H3) ltac:(lia) Ha0 Hz) as [Q1 [Q2 Q3]]. lia. }
        rewrite (slice_split line start (fst m) (snd z)) by lia.
        rewrite (slice_split line (fst m) (snd m) (snd z)) by lia.
        rewrite Hp, IH.
        cbn [pieces map skipn fst snd]. replace (S (S e') - 0) with (S (S e')) by lia.
        replace (S e' - 0) with (S e') by lia. cbn [firstn].
        fold (pieces line (gaps_from (snd m) ms (length line))).
        destruct (pieces line (gaps_from (snd m) ms (length line))) as [|q qs] eqn:Eq.
        { destruct ms; discriminate. }
        cbn [firstn intercalate skipn]. reflexivity.
    + destruct e as [|e']; [lia|]. replace (S e' - 1) with e' in Hz by lia.
      cbn [nth_error] in Ha. destruct e' as [|e'']; [lia|]. cbn [nth_error] in Hz.
      specialize (IH (snd m) s' (S e'') a z H3 ltac:(lia) Ha).
      replace (S e'' - 1) with e'' in IH by lia. specialize (IH Hz).
      rewrite IH. cbn [pieces map skipn]. replace (S (S e'') - S s') with (S e'' - s') by lia. reflexivity.
Qed.

(** sub-ranges of the fields of a record are again valid fields *)
Lemma first_occ_no_occ d p : d <> [] -> first_occ_at_end d p -> ~ occurs_in d p.
Proof.
  intros Hd H [a [b E]]. specialize (H a (b ++ d)). rewrite E, <- !app_assoc in H.
  specialize (H eq_refl). destruct b; destruct d; try discriminate; contradiction.
Qed.

Lemma leftmost_firstn d : d <> [] -> forall ps k, 1 <= k -> k <= length ps ->
  leftmost_fields d ps -> leftmost_fields d (firstn k ps).
Proof.
  intros Hd. induction ps as [|p ps IH]; intros k H1 H2 H; [cbn in H2; lia|].
  destruct k as [|k]; [lia|]. cbn [firstn]. destruct ps as [|q qs].
  - cbn in H2. assert (k = 0) by lia. subst k. exact H.
  - destruct H as [Hf Hr]. destruct k as [|k'].
    + cbn [firstn leftmost_fields]. apply first_occ_no_occ; assumption.
    + pose proof (IH (S k') ltac:(lia) ltac:(cbn in *; lia) Hr) as G.
      change (firstn (S k') (q :: qs)) with (q :: firstn k' qs) in *.
      cbn [leftmost_fields]. split; [exact Hf | exact G].
Qed.

Lemma leftmost_skipn d : forall ps s, s < length ps -> leftmost_fields d ps -> leftmost_fields d (skipn s ps).
Proof.
  induction ps as [|p ps IH]; intros s Hs H; [cbn in Hs; lia|].
  destruct s as [|s']; [exact H|]. cbn [skipn]. destruct ps as [|q qs]; [cbn in Hs; lia|].
  destruct H as [_ Hr]. apply IH; [cbn in *; lia | exact Hr].
Qed.

(** the text of a range of fields with its delimiters replaced *)
Lemma replace_joined_gen d rep fs : d <> [] -> fs <> [] -> leftmost_fields d fs ->
  replace_matches (intercalate d fs) (lit_matches d (intercalate d fs)) rep = intercalate rep fs.
Proof.
  intros Hd Hne Hf. unfold replace_matches. rewrite replace_is_intercalate.
  destruct (intercalate d fs) as [|c t] eqn:Et.
  - cbn. destruct fs as [|f [|g fs']]; [contradiction | | ].
    + cbn in Et. subst f. destruct d; [contradiction | reflexivity].
    + exfalso. rewrite intercalate_cons in Et by discriminate.
      apply (f_equal (@length _)) in Et. rewrite !app_length in Et. destruct d; [contradiction | cbn in Et; lia].
  - rewrite <- Et.
    pose proof (scan_ranges_split d (intercalate d fs) Hd ltac:(rewrite Et; discriminate)) as H.
    unfold fields_of_matches in H. rewrite Et in H. rewrite <- Et in H. rewrite H.
    rewrite (split_unique d Hd fs (intercalate d fs) (conj eq_refl Hf)). reflexivity.
Qed.

(** ---------- one record under plain options, any non-empty delimiter *)
Definition rep_of' (o : opt) : bytes := match o_replace o with Some nd => nd | None => o_delim o end.

Definition plain_opts' (o : opt) : Prop :=
  o_delim o <> [] /\ o_regex o = None /\ o_json o = false /\ btype_eqb (o_btype o) BChars = false
  /\ o_complement o = false /\ o_greedy o = false /\ o_compress o = false.

Definition loop_opts (o : opt) : Prop :=
  o_delim o <> [] /\ o_regex o = None /\ o_json o = false /\ btype_eqb (o_btype o) BChars = false.

Lemma plain_loop_opts o : plain_opts' o -> loop_opts o.
Proof. intros [A [B [C [D _]]]]. repeat split; assumption. Qed.

Lemma out_loop_plain_gen o line its :
  loop_opts o -> line <> [] -> Forall item_nz its ->
  let fields := gaps_from 0 (lit_matches (o_delim o) line) (length line) in
  out_loop o line fields its
  = match spec_items (split (o_delim o) line) (o_fallback o) (o_join o) (rep_of' o) its with
    | Some x => ROk x
    | None => RErr
    end.
Proof.
  intros [Hd [Hx [Hj Hb]]] Hl Hnz fields. set (d := o_delim o) in *.
  assert (Hfs : pieces line fields = split d line).
  { unfold fields. pose proof (scan_ranges_split d line Hd Hl) as H.
    unfold fields_of_matches in H. destruct line as [|c l]; [contradiction|]. exact H. }
  assert (Hlen : length fields = length (split d line)) by (rewrite <- Hfs, pieces_length; reflexivity).
  assert (Hdp : mpos line d 0 (lit_matches d line)) by (apply lit_matches_mpos, Hd).
  assert (Hvalid : leftmost_fields d (split d line)) by (apply (split_is_split d line Hd)).
  assert (HEP : forall t, emit_part o t = Some t) by (intros t; unfold emit_part; rewrite Hj; reflexivity).
  induction its as [|x its IH]; [reflexivity|].
  inversion Hnz as [|? ? Hx0 Hnz']; subst. specialize (IH Hnz').
  destruct x as [b|f]; cbn [out_loop spec_items].
  - rewrite Hlen.
    destruct (try_into_range b (length (split d line))) as [[s e]|] eqn:E.
    + destruct (try_into_range_some b _ s e Hx0 E) as [_ [_ [_ Hse]]].
      unfold range_start, range_end.
      destruct (nth_error fields s) as [a|] eqn:Ea.
      2:{ apply nth_error_None in Ea. lia. }
      destruct (nth_error fields (e - 1)) as [z|] eqn:Ez.
      2:{ apply nth_error_None in Ez. lia. }
      pose proof (lit_matches_wf d line) as W.
      destruct (gaps_mono _ _ 0 s (e - 1) a z W ltac:(lia) Ea Ez) as [_ [P2 P3]].
      assert (G1 : (fst a <=? snd z) = true) by (apply Nat.leb_le; exact P2).
      assert (G2 : (snd z <=? length line) = true) by (apply Nat.leb_le; exact P3).
      rewrite G1, G2. cbn [andb].
      rewrite (range_slice_gen line d _ 0 s e a z Hdp ltac:(lia) Ea Ez).
      fold fields. rewrite Hfs.
      set (sub := firstn (e - s) (skipn s (split d line))).
      assert (Hsub_ne : sub <> []).
      { unfold sub. intros H0. apply (f_equal (@length _)) in H0. rewrite firstn_length, skipn_length in H0. cbn in H0. lia. }
      assert (Hsub_valid : leftmost_fields d sub).
      { unfold sub. apply leftmost_firstn; [exact Hd | lia | rewrite skipn_length; lia|].
        apply leftmost_skipn; [lia | exact Hvalid]. }
      assert (HMR : maybe_replace o (intercalate d sub) = Some (intercalate (rep_of' o) sub)).
      { unfold maybe_replace, rep_of'. rewrite Hx.
        destruct (o_btype o); try discriminate; (destruct (o_replace o) as [nd|]; [|reflexivity]);
          fold d; f_equal; apply replace_joined_gen; assumption. }
      rewrite HMR, HEP, IH. unfold rep_of'. fold d.
      destruct (spec_items (split d line) (o_fallback o) (o_join o) _ its); cbn [option_map]; reflexivity.
    + destruct (fallback_for b (o_fallback o)) as [fb|]; [|reflexivity].
      rewrite HEP, IH. unfold rep_of'. fold d.
      destruct (spec_items (split d line) (o_fallback o) (o_join o) _ its); cbn [option_map]; reflexivity.
  - rewrite IH. destruct (spec_items (split d line) (o_fallback o) (o_join o) (rep_of' o) its); reflexivity.
Qed.

(** one record, any non-empty literal delimiter, plain options (no trim, no -s): for each
    bound in the order written, its fields joined by the (replacement) delimiter, the
    (replacement) delimiter after every bound but the last only under -j/-r, then the EOL *)
Theorem general_plain_record_gen o line :
  plain_opts' o -> o_trim o = None -> o_only_delimited o = false ->
  line <> [] -> Forall item_nz (items (o_bounds o)) ->
  cut_str o line
  = Some (match spec_items (split (o_delim o) line) (o_fallback o) (o_join o) (rep_of' o) (items (o_bounds o)) with
          | Some x => ROk (x ++ [o_eol o])
          | None => RErr
          end).
Proof.
  intros Hpl Ht Hs Hl Hnz. pose proof Hpl as [Hd [Hx [Hj [Hb [Hc [Hg Hp]]]]]].
  unfold cut_str. rewrite Hx, Ht, Hs, Hb, Hc, Hg, Hp, Hj. cbn [andb orb].
  destruct line as [|c l]; [contradiction|]. cbv iota.
  unfold fields_of_matches.
  rewrite (out_loop_plain_gen o (c :: l) (items (o_bounds o)) (plain_loop_opts o Hpl) Hl Hnz).
  destruct (spec_items (split (o_delim o) (c :: l)) (o_fallback o) (o_join o) (rep_of' o) (items (o_bounds o)));
    reflexivity.
Qed.


(** the same under -p: the record is first rewritten to its fields minus the empty inner ones,
    joined by single delimiters (C01More), then cut as above - so a bound counts and prints
    the squeezed fields *)
Definition compress_opts (o : opt) : Prop :=
  o_delim o <> [] /\ o_regex o = None /\ o_json o = false /\ o_btype o = BFields
  /\ o_complement o = false /\ o_greedy o = false /\ o_compress o = true.

Theorem general_compress_record o line :
  compress_opts o -> o_trim o = None -> o_only_delimited o = false ->
  line <> [] -> Forall item_nz (items (o_bounds o)) ->
  cut_str o line
  = Some (match spec_items (squeeze (split (o_delim o) line)) (o_fallback o) (o_join o) (rep_of' o)
                           (items (o_bounds o)) with
          | Some x => ROk (x ++ [o_eol o])
          | None => RErr
          end).
Proof.
  intros [Hd [Hx [Hj [Hb [Hc [Hg Hp]]]]]] Ht Hs Hl Hnz.
  unfold cut_str. rewrite Hx, Ht, Hs, Hb, Hc, Hg, Hp, Hj. cbn [andb orb btype_eqb].
  destruct line as [|c l]; [contradiction|]. cbv iota.
  set (line' := compress_delimiter (o_delim o) (c :: l)).
  assert (Hl' : line' <> []) by (apply compress_nonempty; [exact Hd | discriminate]).
  unfold fields_of_matches. destruct line' as [|c' l'] eqn:El; [contradiction|]. rewrite <- El.
  assert (Hlo : loop_opts o) by (repeat split; try assumption; rewrite Hb; reflexivity).
  rewrite (out_loop_plain_gen o line' (items (o_bounds o)) Hlo ltac:(rewrite El; discriminate) Hnz).
  subst line'. rewrite (compress_then_split (o_delim o) (c :: l) Hd ltac:(discriminate)).
  destruct (spec_items (squeeze (split (o_delim o) (c :: l))) (o_fallback o) (o_join o) (rep_of' o) (items (o_bounds o)));
    reflexivity.
Qed.

(** ---------- everything but -g together: trim, -p, -s, -m, then the requested fields *)
From TucModel Require Import Proofs.C12Total.

(** the bounds actually printed: the requested ones, or under -m their complement on n fields *)
Definition effective_bounds (o : opt) (n : nat) : option (list bof) :=
  if o_complement o then option_map items (complement_list (items (o_bounds o)) n)
  else Some (items (o_bounds o)).

Lemma finish_record_plain o line :
  loop_opts o -> line <> [] -> Forall item_nz (items (o_bounds o)) ->
  finish_record o line (fields_of_matches (lit_matches (o_delim o) line) line)
  = if o_only_delimited o && Nat.eqb (length (split (o_delim o) line)) 1 then ROk []
    else match effective_bounds o (length (split (o_delim o) line)) with
         | None => RErr
         | Some bs =>
             match spec_items (split (o_delim o) line) (o_fallback o) (o_join o) (rep_of' o) bs with
             | Some x => ROk (x ++ [o_eol o])
             | None => RErr
             end
         end.
Proof.
  intros Hlo Hl Hnz. unfold finish_record, effective_bounds.
  pose proof Hlo as [Hd _].
  assert (Hlen : length (fields_of_matches (lit_matches (o_delim o) line) line) = length (split (o_delim o) line)).
  { rewrite <- (scan_ranges_split (o_delim o) line Hd Hl), pieces_length. reflexivity. }
  rewrite Hlen. destruct (o_only_delimited o && Nat.eqb (length (split (o_delim o) line)) 1); [reflexivity|].
  unfold fields_of_matches. destruct line as [|c l]; [contradiction|].
  destruct (o_complement o).
  - destruct (complement_list (items (o_bounds o)) (length (split (o_delim o) (c :: l)))) as [u|] eqn:Ec;
      cbn [option_map]; [|reflexivity].
    destruct (complement_list_ok _ _ _ Hnz Ec) as [Hnzu _].
    rewrite (out_loop_plain_gen o (c :: l) (items u) Hlo Hl Hnzu).
    destruct (spec_items _ _ _ _ _); reflexivity.
  - rewrite (out_loop_plain_gen o (c :: l) (items (o_bounds o)) Hlo Hl Hnz).
    destruct (spec_items _ _ _ _ _); reflexivity.
Qed.

Definition value_opts (o : opt) : Prop :=
  o_delim o <> [] /\ o_regex o = None /\ o_json o = false /\ o_btype o = BFields /\ o_greedy o = false.

(** C01 as a function of the record, for every non-empty literal delimiter and every
    combination of -t, -p, -s, -m, -j, -r, format text and fallbacks *)
Theorem general_record_value o line0 :
  value_opts o -> Forall item_nz (items (o_bounds o)) ->
  cut_str o line0
  = Some (let line1 := match o_trim o with Some k => trim_lit k (o_delim o) line0 | None => line0 end in
          match line1 with
          | [] => ROk (if o_only_delimited o then [] else [o_eol o])
          | _ =>
              let fs := if o_compress o then squeeze (split (o_delim o) line1) else split (o_delim o) line1 in
              if o_only_delimited o && Nat.eqb (length fs) 1 then ROk []
              else match effective_bounds o (length fs) with
                   | None => RErr
                   | Some bs =>
                       match spec_items fs (o_fallback o) (o_join o) (rep_of' o) bs with
                       | Some x => ROk (x ++ [o_eol o])
                       | None => RErr
                       end
                   end
          end).
Proof.
  intros [Hd [Hx [Hj [Hb Hg]]]] Hnz.
  rewrite (cut_str_literal o line0 Hx Hb Hj). cbv zeta. f_equal.
  destruct (match o_trim o with Some k => trim_lit k (o_delim o) line0 | None => line0 end) as [|c l1] eqn:E; [reflexivity|].
  assert (Hlo : loop_opts o) by (repeat split; try assumption; rewrite Hb; reflexivity).
  unfold lit_stage. rewrite Hg. cbn [fst snd]. destruct (o_compress o).
  - assert (Hl' : compress_delimiter (o_delim o) (c :: l1) <> []) by (apply compress_nonempty; [exact Hd | discriminate]).
    rewrite (finish_record_plain o _ Hlo Hl' Hnz).
    rewrite (compress_then_split (o_delim o) (c :: l1) Hd ltac:(discriminate)). reflexivity.
  - exact (finish_record_plain o (c :: l1) Hlo ltac:(discriminate) Hnz).
Qed.
