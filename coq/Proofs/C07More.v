From TucModel Require Import Base.Bytes Base.ListX Model.Scan Model.Utf8 Model.CutStr Proofs.ScanSplit Proofs.C07.

Lemma char_ranges_length : forall cs n, length (char_ranges n cs) = length cs.
Proof. induction cs as [|c cs IH]; intros n; [reflexivity|]. cbn. f_equal. apply IH. Qed.

(** the fields table of -c on a valid record with at least one character *)
Lemma char_fields_table line cs ms :
  utf8_chars line = Some cs -> cs <> [] -> char_matches line = Some ms ->
  drop_outer (fields_of_matches ms line) = char_ranges 0 cs.
Proof.
  intros Hu Hne. unfold char_matches. rewrite Hu. intros H; injection H as <-.
  unfold utf8_chars in Hu. destruct (utf8_chars_fuel_concat _ _ _ Hu) as [Hc Hn].
  unfold fields_of_matches. destruct line as [|b l'].
  { destruct cs as [|c cs']; [contradiction|]. inversion Hn as [|? ? Hc0 _]; subst.
    cbn in Hc. destruct c; [contradiction | discriminate]. }
  rewrite gaps_boundaries. unfold drop_outer. cbn [length]. rewrite app_length. cbn [length].
  assert (H2 : Nat.ltb 2 (S (length (char_ranges 0 cs) + 1)) = true).
  { apply Nat.ltb_lt. rewrite char_ranges_length. destruct cs; [contradiction | cbn [length]; lia]. }
  rewrite H2. cbn [tl]. apply removelast_last.
Qed.

Lemma char_ranges_nth : forall cs pos i c,
  nth_error cs i = Some c ->
  nth_error (char_ranges pos cs) i
  = Some (pos + total (firstn i cs), pos + total (firstn i cs) + length c).
Proof.
  induction cs as [|c0 cs IH]; intros pos i c H; [destruct i; discriminate|].
  destruct i as [|i'].
  - cbn in H. injection H as <-. cbn [char_ranges nth_error firstn]. unfold total. cbn. rewrite Nat.add_0_r. reflexivity.
  - cbn [nth_error] in H. cbn [char_ranges nth_error firstn]. rewrite (IH _ _ _ H).
    unfold total. cbn [concat]. rewrite app_length. f_equal. f_equal; lia.
Qed.

Lemma total_firstn_S cs i c : nth_error cs i = Some c -> total (firstn (S i) cs) = total (firstn i cs) + length c.
Proof.
  revert i; induction cs as [|c0 cs IH]; intros i H; [destruct i; discriminate|].
  destruct i as [|i']; cbn in H.
  - injection H as <-. unfold total. cbn. rewrite app_nil_r. lia.
  - specialize (IH _ H). unfold total in *.
    change (firstn (S (S i')) (c0 :: cs)) with (c0 :: firstn (S i') cs).
    change (firstn (S i') (c0 :: cs)) with (c0 :: firstn i' cs).
    cbn [concat]. rewrite !app_length. lia.
Qed.

Lemma firstn_split {A} (l : list A) s e : s <= e -> firstn e l = firstn s l ++ slice l s e.
Proof.
  intros H. unfold slice. revert s e H. induction l as [|x l IH]; intros s e H.
  - rewrite !firstn_nil, skipn_nil, firstn_nil. reflexivity.
  - destruct s as [|s'].
    + cbn [firstn skipn app]. rewrite Nat.sub_0_r. reflexivity.
    + destruct e as [|e']; [lia|]. cbn [firstn skipn app]. f_equal.
      replace (S e' - S s') with (e' - s') by lia. apply IH. lia.
Qed.

Lemma slice_concat : forall cs s e, s <= e -> e <= length cs ->
  slice (concat cs) (total (firstn s cs)) (total (firstn e cs)) = concat (slice cs s e).
Proof.
  intros cs s e Hse He. unfold total.
  rewrite (firstn_split cs s e Hse), concat_app, app_length.
  set (P := concat (firstn s cs)). set (M := concat (slice cs s e)).
  assert (E : concat cs = P ++ M ++ concat (skipn e cs)).
  { subst P M. rewrite <- !concat_app. f_equal. rewrite app_assoc, <- (firstn_split cs s e Hse).
    symmetry. apply firstn_skipn. }
  rewrite E. unfold slice. rewrite skipn_app_length.
  replace (length P + length M - length P) with (length M) by lia.
  rewrite firstn_app, Nat.sub_diag, firstn_all. cbn [firstn]. apply app_nil_r.
Qed.

(** a bound that resolves to the characters s+1 .. e prints exactly those characters, whole *)
Theorem chars_range_is_the_selected_characters line cs ms s e a z :
  utf8_chars line = Some cs -> char_matches line = Some ms ->
  s < e -> e <= length cs ->
  range_start (drop_outer (fields_of_matches ms line)) s = Some a ->
  range_end (drop_outer (fields_of_matches ms line)) (e - 1) = Some z ->
  slice line a z = concat (slice cs s e).
Proof.
  intros Hu Hm Hse He Ha Hz.
  assert (Hne : cs <> []) by (intros ->; cbn in He; lia).
  rewrite (char_fields_table line cs ms Hu Hne Hm) in Ha, Hz.
  unfold utf8_chars in Hu. destruct (utf8_chars_fuel_concat _ _ _ Hu) as [Hc _].
  unfold range_start, range_end in *.
  destruct (nth_error cs s) as [c1|] eqn:E1; [|apply nth_error_None in E1; lia].
  destruct (nth_error cs (e - 1)) as [c2|] eqn:E2; [|apply nth_error_None in E2; lia].
  rewrite (char_ranges_nth cs 0 s c1 E1) in Ha. rewrite (char_ranges_nth cs 0 (e - 1) c2 E2) in Hz.
  cbn [fst snd] in Ha, Hz. injection Ha as <-. injection Hz as <-.
  rewrite <- (total_firstn_S cs (e - 1) c2 E2). replace (S (e - 1)) with e by lia.
  rewrite <- Hc at 1. cbn [Nat.add]. apply slice_concat; lia.
Qed.
