(** C10: records are cut independently: the run over A ++ B is the run over A followed by
    the run over B (A ending with an EOL), including what a failure delivers. *)
From TucModel Require Import Base.Bytes Model.Bounds Model.Scan Model.Opt Model.CutBytes Model.CutStr
     Model.FastLane.

(** sequential composition of two runs *)
Definition seq_outcome (x y : option outcome) : option outcome :=
  match x with
  | Some (Done a) =>
      match y with
      | Some (Done b) => Some (Done (a ++ b))
      | Some (Fail b) => Some (Fail (a ++ b))
      | other => other
      end
  | other => other
  end.

Lemma records_aux_app eol cur A B :
  records_aux eol cur (A ++ [eol] ++ B) = records_aux eol cur (A ++ [eol]) ++ records_aux eol [] B.
Proof.
  revert cur; induction A as [|x A IH]; intros cur; cbn [app records_aux].
  - rewrite N.eqb_refl. cbn [records_aux app]. reflexivity.
  - destruct (N.eqb x eol); [cbn [app]; f_equal|]; apply IH.
Qed.

Lemma records_app eol A B :
  records eol ((A ++ [eol]) ++ B) = records eol (A ++ [eol]) ++ records eol B.
Proof. unfold records. rewrite <- app_assoc. apply records_aux_app. Qed.

Lemma run_records_acc cut rs acc :
  run_records cut rs acc =
  match run_records cut rs [] with
  | Some (Done o) => Some (Done (acc ++ o))
  | Some (Fail o) => Some (Fail (acc ++ o))
  | other => other
  end.
Proof.
  revert acc; induction rs as [|r rs IH]; intros acc; cbn [run_records].
  - rewrite app_nil_r. reflexivity.
  - destruct (cut r) as [[o| | |]|]; try reflexivity; [|rewrite app_nil_r; reflexivity].
    rewrite (IH (acc ++ o)), (IH ([] ++ o)). cbn [app].
    destruct (run_records cut rs []) as [[x|x| |]|]; try reflexivity; rewrite app_assoc; reflexivity.
Qed.

Lemma run_records_app cut rs1 rs2 :
  run_records cut (rs1 ++ rs2) [] = seq_outcome (run_records cut rs1 []) (run_records cut rs2 []).
Proof.
  assert (G : forall acc, run_records cut (rs1 ++ rs2) acc =
                          match run_records cut rs1 acc with
                          | Some (Done a) => run_records cut rs2 a
                          | other => other
                          end).
  { induction rs1 as [|r rs1 IH]; intros acc; cbn [app run_records]; [reflexivity|].
    destruct (cut r) as [[o| | |]|]; try reflexivity. apply IH. }
  rewrite G. unfold seq_outcome.
  destruct (run_records cut rs1 []) as [[a|a| |]|]; try reflexivity.
  rewrite (run_records_acc cut rs2 a).
  destruct (run_records cut rs2 []) as [[x|x| |]|]; reflexivity.
Qed.

(** general path (also -c and --json, which run through it) *)
Theorem C10_general o A B :
  read_and_cut_str o ((A ++ [o_eol o]) ++ B)
  = seq_outcome (read_and_cut_str o (A ++ [o_eol o])) (read_and_cut_str o B).
Proof. unfold read_and_cut_str. rewrite records_app. apply run_records_app. Qed.

(** fast lane *)
Theorem C10_fast o A B :
  read_and_cut_fast o ((A ++ [o_eol o]) ++ B)
  = seq_outcome (read_and_cut_fast o (A ++ [o_eol o])) (read_and_cut_fast o B).
Proof. unfold read_and_cut_fast. rewrite records_app. apply run_records_app. Qed.

(** if cutting A fails, cutting A followed by B fails too with the same complete records *)
Theorem C10_failure_prefix o A B pre :
  read_and_cut_str o (A ++ [o_eol o]) = Some (Fail pre) ->
  read_and_cut_str o ((A ++ [o_eol o]) ++ B) = Some (Fail pre).
Proof. intros H. rewrite C10_general, H. reflexivity. Qed.

Theorem C10_failure_prefix_fast o A B pre :
  read_and_cut_fast o (A ++ [o_eol o]) = Some (Fail pre) ->
  read_and_cut_fast o ((A ++ [o_eol o]) ++ B) = Some (Fail pre).
Proof. intros H. rewrite C10_fast, H. reflexivity. Qed.
