(** Facts about the bounds parser that the other proofs rely on:
    no index is 0, same-sign ranges are not decreasing, indexes fit in i32. *)
From TucModel Require Import Base.Bytes Model.Bounds Model.BoundsParse Spec.Resolve
     Proofs.BoundsFacts Proofs.C06.
Local Open Scope Z_scope.

Lemma parse_bound_nz s b : parse_bound s = Some b -> bound_nz b.
Proof.
  unfold parse_bound. destruct (split_once ch_eq s) as [r fb].
  destruct r as [|c r]; [discriminate|].
  destruct (bytes_eqb (c :: r) [ch_colon]); [discriminate|].
  destruct (split_once ch_colon (c :: r)) as [a rest].
  match goal with |- match ?X with _ => _ end = _ -> _ => destruct X as [[l r']|] eqn:E end; [|discriminate].
  destruct (side_is_zero l || side_is_zero r') eqn:Z; [discriminate|].
  apply orb_false_iff in Z. destruct Z as [Zl Zr].
  assert (Hnz : side_nz l /\ side_nz r').
  { split; [destruct l as [v|] | destruct r' as [v|]]; cbn in *; try exact I;
      intros ->; discriminate. }
  intros H. destruct l as [lv|]; destruct r' as [rv|];
    try (injection H as <-; exact Hnz).
  destruct ((rv <? lv) && same_sign rv lv); [discriminate|].
  injection H as <-. exact Hnz.
Qed.

Lemma parse_bounds_csv_nz ps l : parse_bounds_csv ps = Some l -> Forall item_nz l.
Proof.
  revert l; induction ps as [|p ps IH]; intros l; cbn [parse_bounds_csv].
  - intros H; injection H as <-. constructor.
  - destruct (parse_bound p) as [b|] eqn:E; [|discriminate].
    destruct (parse_bounds_csv ps) as [r|]; [|discriminate].
    intros H; injection H as <-. constructor; [exact (parse_bound_nz _ _ E) | apply IH; reflexivity].
Qed.

Lemma push_filler_nz cur acc : Forall item_nz acc -> Forall item_nz (push_filler cur acc).
Proof.
  intros H. unfold push_filler. destruct cur; [exact H|].
  apply Forall_app. split; [exact H | constructor; [exact I | constructor]].
Qed.

Lemma scan_format_nz_len n : forall s inside cur acc l,
  (length s <= n)%nat ->
  Forall item_nz acc -> scan_format s inside cur acc = Some l -> Forall item_nz l.
Proof.
  induction n as [|n IH]; intros s inside cur acc l Hlen Hacc.
  - destruct s; [|cbn in Hlen; lia]. cbn [scan_format].
    destruct inside; [discriminate|]. intros H; injection H as <-. apply push_filler_nz, Hacc.
  - destruct s as [|w0 s']; cbn [scan_format].
    + destruct inside; [discriminate|]. intros H; injection H as <-. apply push_filler_nz, Hacc.
    + cbn in Hlen.
      match goal with |- (if ?c then _ else _) = _ -> _ => destruct c eqn:Eesc end.
      * destruct s' as [|w1 s'']; [discriminate|]. apply IH; [cbn in *; lia | exact Hacc].
      * destruct (N.eqb w0 ch_rbrace && negb inside); [discriminate|].
        destruct (N.eqb w0 ch_lbrace).
        -- destruct inside; [discriminate|]. apply IH; [lia | apply push_filler_nz, Hacc].
        -- destruct (N.eqb w0 ch_rbrace).
           ++ destruct (parse_bounds_csv (split_on ch_comma cur)) as [bs|] eqn:E; [|discriminate].
              apply IH; [lia|]. apply Forall_app. split; [exact Hacc | exact (parse_bounds_csv_nz _ _ E)].
           ++ apply IH; [lia | exact Hacc].
Qed.

Lemma scan_format_nz s inside cur acc l :
  Forall item_nz acc -> scan_format s inside cur acc = Some l -> Forall item_nz l.
Proof. apply (scan_format_nz_len (length s)). lia. Qed.

Lemma parse_bounds_list_nz s l : parse_bounds_list s = Some l -> Forall item_nz l.
Proof.
  unfold parse_bounds_list. destruct s as [|c s]; [intros H; injection H as <-; constructor|].
  destruct (existsb is_brace (c :: s)).
  - apply scan_format_nz. constructor.
  - apply parse_bounds_csv_nz.
Qed.

Lemma mark_last_nz l : Forall item_nz l -> Forall item_nz (mark_last l).
Proof.
  induction l as [|x l IH]; intros H; [constructor|].
  inversion H as [|? ? Hx Hl]; subst. destruct x as [b|f]; cbn [mark_last].
  - destruct (bounds_only l); constructor; try assumption; try (apply IH; assumption).
  - constructor; [exact I | apply IH; assumption].
Qed.

Lemma from_vec_nz l u : Forall item_nz l -> from_vec l = Some u -> Forall item_nz (items u).
Proof.
  intros H. unfold from_vec. destruct (bounds_only l); [discriminate|].
  intros E; injection E as <-. cbn. apply mark_last_nz, H.
Qed.

(** every bounds list the parser accepts has non-zero indexes only *)
Theorem parse_ublist_nz s u : parse_ublist s = Some u -> Forall item_nz (items u).
Proof.
  unfold parse_ublist. destruct s as [|c s]; [discriminate|].
  destruct (parse_bounds_list (c :: s)) as [l|] eqn:E; [|discriminate].
  apply from_vec_nz, (parse_bounds_list_nz _ _ E).
Qed.
