(** C09, one whole record of the general path (literal delimiter, field mode): rewriting
    negative indexes against the number of fields of that record changes nothing, also under
    --complement. *)
From TucModel Require Import Base.Bytes Base.ListX Model.Bounds Model.CutBytes Model.Scan Model.Opt Model.CutStr
     Spec.Resolve Proofs.BoundsFacts Proofs.C09 Proofs.C01More.
Local Open Scope Z_scope.

Lemma rewrites_refl n b : bound_rewrites n b b.
Proof. repeat split; constructor. Qed.

Lemma items_rewrite_refl n l : items_rewrite n l l.
Proof. induction l as [|[b|f] l IH]; constructor; try assumption. apply rewrites_refl. Qed.

Lemma items_rewrite_app n a a' c c' :
  items_rewrite n a a' -> items_rewrite n c c' -> items_rewrite n (a ++ c) (a' ++ c').
Proof. induction 1 as [|f l l' _ IH|b b' l l' Hb _ IH]; intros H2; cbn [app]; [exact H2 | constructor; auto | constructor; auto]. Qed.

Lemma complement_items_rw n l l' :
  items_rewrite (Z.of_nat n) l l' -> items_rewrite (Z.of_nat n) (complement_items l n) (complement_items l' n).
Proof.
  unfold complement_items. induction 1 as [|f l l' _ IH|b b' l l' Hb _ IH]; cbn [flat_map].
  - constructor.
  - constructor. exact IH.
  - apply items_rewrite_app; [|exact IH].
    rewrite (C09_complement n b b' Hb). destruct (complement_bound b n) as [cs|].
    + apply items_rewrite_refl.
    + constructor; [exact Hb | constructor].
Qed.

Lemma bounds_only_rw_len n l l' : items_rewrite n l l' -> length (bounds_only l') = length (bounds_only l).
Proof.
  induction 1 as [|f l l' _ IH|b b' l l' Hb _ IH]; [reflexivity| |].
  - cbn [bounds_only flat_map app]. exact IH.
  - cbn [bounds_only flat_map app length]. fold (bounds_only l). fold (bounds_only l'). f_equal. exact IH.
Qed.

Lemma mark_last_rw n l l' : items_rewrite n l l' -> items_rewrite n (mark_last l) (mark_last l').
Proof.
  induction 1 as [|f l l' _ IH|b b' l l' Hb Hl IH]; cbn [mark_last].
  - constructor.
  - constructor. exact IH.
  - pose proof (bounds_only_rw_len n l l' Hl) as E.
    destruct (bounds_only l) as [|x xs]; destruct (bounds_only l') as [|y ys]; try discriminate.
    + constructor; [|exact Hl]. destruct Hb as [A [B [C D]]]. repeat split; assumption.
    + constructor; assumption.
Qed.

Lemma complement_list_rw n l l' :
  items_rewrite (Z.of_nat n) l l' ->
  match complement_list l n, complement_list l' n with
  | Some u, Some u' => items_rewrite (Z.of_nat n) (items u) (items u')
  | None, None => True
  | _, _ => False
  end.
Proof.
  intros H. unfold complement_list, from_vec.
  pose proof (complement_items_rw n l l' H) as Hc.
  pose proof (bounds_only_rw_len _ _ _ Hc) as E.
  destruct (bounds_only (complement_items l n)) as [|x xs]; destruct (bounds_only (complement_items l' n)) as [|y ys];
    try discriminate; [exact I|]. cbn [items]. apply mark_last_rw, Hc.
Qed.

(** the option set with another bounds list *)
Definition with_bounds (u : ublist) (o : opt) : opt :=
  mkOpt (o_delim o) (o_eol o) u (o_btype o) (o_only_delimited o) (o_greedy o) (o_compress o) (o_replace o)
        (o_trim o) (o_complement o) (o_join o) (o_json o) (o_fixed_memory o) (o_fallback o) (o_regex o).

Lemma out_loop_with_bounds u o line fields bs : out_loop (with_bounds u o) line fields bs = out_loop o line fields bs.
Proof.
  induction bs as [|[b|f] bs IH]; cbn [out_loop]; [reflexivity| |rewrite IH; reflexivity].
  rewrite IH. reflexivity.
Qed.

Theorem finish_record_rw o u' line fields :
  items_rewrite (Z.of_nat (length fields)) (items (o_bounds o)) (items u') ->
  finish_record (with_bounds u' o) line fields = finish_record o line fields.
Proof.
  intros H. unfold finish_record. cbn [with_bounds o_only_delimited o_complement o_bounds o_eol].
  destruct (o_only_delimited o && Nat.eqb (length fields) 1); [reflexivity|].
  destruct (o_complement o).
  - pose proof (complement_list_rw (length fields) _ _ H) as Hc.
    destruct (complement_list (items (o_bounds o)) (length fields)) as [u|];
      destruct (complement_list (items u') (length fields)) as [v|]; try contradiction; [|reflexivity].
    rewrite out_loop_with_bounds, (C09_general o line fields _ _ Hc). reflexivity.
  - rewrite out_loop_with_bounds, (C09_general o line fields _ _ H). reflexivity.
Qed.

(** C09 for a whole record of the general path: trim, -p, -g, -s, -m included *)
Theorem C09_record o u' line0 :
  o_regex o = None -> o_btype o = BFields -> o_json o = false ->
  (forall line1, line1 <> [] ->
     items_rewrite (Z.of_nat (length (snd (lit_stage o line1)))) (items (o_bounds o)) (items u')) ->
  cut_str (with_bounds u' o) line0 = cut_str o line0.
Proof.
  intros Hx Hb Hj H.
  rewrite (cut_str_literal (with_bounds u' o) line0 Hx Hb Hj), (cut_str_literal o line0 Hx Hb Hj).
  cbn [with_bounds o_trim o_delim o_only_delimited o_eol]. cbv zeta.
  destruct (match o_trim o with Some k => trim_lit k (o_delim o) line0 | None => line0 end) as [|c l1] eqn:E; [reflexivity|].
  f_equal. change (lit_stage (with_bounds u' o) (c :: l1)) with (lit_stage o (c :: l1)).
  apply finish_record_rw. apply H. discriminate.
Qed.
