(** C09: rewriting a negative index -k into n+1-k never changes what a bound denotes. *)
From TucModel Require Import Base.Bytes Model.Bounds Model.CutBytes Model.Scan Model.Opt Model.CutStr
     Model.FastLane Spec.Resolve Proofs.BoundsFacts.
Local Open Scope Z_scope.

(** the positive spelling of a side on n parts *)
Definition mirror_side (s : side) (n : Z) : side :=
  match s with
  | SSome v => if v <? 0 then SSome (n + 1 + v) else s
  | SCont => s
  end.

(** [rewrites n s s']: s' is s, or s is a negative index -k with 1 <= k <= n and s' = n+1-k *)
Inductive rewrites (n : Z) : side -> side -> Prop :=
| rw_same s : rewrites n s s
| rw_mirror v : - n <= v <= -1 -> rewrites n (SSome v) (SSome (n + 1 + v)).

Definition bound_rewrites (n : Z) (b b' : ubound) : Prop :=
  rewrites n (bl b) (bl b') /\ rewrites n (br b) (br b')
  /\ blast b' = blast b /\ bfb b' = bfb b.

Lemma resolve_left_rw n s s' : 0 <= n -> rewrites n s s' -> resolve_left s' n = resolve_left s n.
Proof.
  intros Hn H. destruct H as [s|v Hv]; [reflexivity|]. cbn [resolve_left].
  destruct (n <? n + 1 + v) eqn:A; [apply Z.ltb_lt in A; lia|].
  destruct (n + 1 + v <? - n) eqn:B; [apply Z.ltb_lt in B; lia|].
  destruct (n <? v) eqn:C; [apply Z.ltb_lt in C; lia|].
  destruct (v <? - n) eqn:D; [apply Z.ltb_lt in D; lia|].
  cbn. destruct (n + 1 + v <? 0) eqn:E; [apply Z.ltb_lt in E; lia|].
  destruct (v <? 0) eqn:F; [|apply Z.ltb_ge in F; lia]. f_equal. lia.
Qed.

Lemma resolve_right_rw n s s' : 0 <= n -> rewrites n s s' -> resolve_right s' n = resolve_right s n.
Proof.
  intros Hn H. destruct H as [s|v Hv]; [reflexivity|]. cbn [resolve_right].
  destruct (n <? n + 1 + v) eqn:A; [apply Z.ltb_lt in A; lia|].
  destruct (n + 1 + v <? - n) eqn:B; [apply Z.ltb_lt in B; lia|].
  destruct (n <? v) eqn:C; [apply Z.ltb_lt in C; lia|].
  destruct (v <? - n) eqn:D; [apply Z.ltb_lt in D; lia|].
  cbn. destruct (n + 1 + v <? 0) eqn:E; [apply Z.ltb_lt in E; lia|].
  destruct (v <? 0) eqn:F; [|apply Z.ltb_ge in F; lia]. f_equal; lia.
Qed.

Theorem C09_try_into_range n b b' :
  bound_rewrites (Z.of_nat n) b b' -> try_into_range b' n = try_into_range b n.
Proof.
  intros [Hl [Hr _]]. unfold try_into_range.
  rewrite (resolve_left_rw _ _ _ (Nat2Z.is_nonneg n) Hl).
  rewrite (resolve_right_rw _ _ _ (Nat2Z.is_nonneg n) Hr). reflexivity.
Qed.

Theorem C09_unpack n b b' :
  bound_rewrites (Z.of_nat n) b b' ->
  match try_into_range b n with
  | Some _ => unpack_bound b' n = unpack_bound b n
  | None => unpack_bound b' n = [b'] /\ unpack_bound b n = [b]
  end.
Proof.
  intros H. unfold unpack_bound. rewrite (C09_try_into_range n b b' H).
  destruct (try_into_range b n) as [[s e]|]; [reflexivity | split; reflexivity].
Qed.

Theorem C09_complement n b b' :
  bound_rewrites (Z.of_nat n) b b' -> complement_bound b' n = complement_bound b n.
Proof.
  intros H. unfold complement_bound. rewrite (C09_try_into_range n b b' H). reflexivity.
Qed.

(** -1 is the last part and -n the first *)
Theorem C09_minus_one n : (0 < n)%nat ->
  try_into_range (mkB (SSome (-1)) (SSome (-1)) false None) n = Some ((n - 1)%nat, n).
Proof.
  intros Hn. unfold try_into_range. cbn [bl br resolve_left resolve_right].
  destruct (Z.of_nat n <? -1) eqn:A; [apply Z.ltb_lt in A; lia|].
  destruct (-1 <? - Z.of_nat n) eqn:B; [apply Z.ltb_lt in B; lia|]. cbn.
  destruct (Z.of_nat n + -1 + 1 <=? Z.of_nat n + -1) eqn:C; [apply Z.leb_le in C; lia|].
  f_equal. f_equal; lia.
Qed.

Theorem C09_minus_n n : (0 < n)%nat ->
  try_into_range (mkB (SSome (- Z.of_nat n)) (SSome (- Z.of_nat n)) false None) n = Some (0%nat, 1%nat).
Proof.
  intros Hn. unfold try_into_range. cbn [bl br resolve_left resolve_right].
  destruct (Z.of_nat n <? - Z.of_nat n) eqn:A; [apply Z.ltb_lt in A; lia|].
  destruct (- Z.of_nat n <? - Z.of_nat n) eqn:B; [apply Z.ltb_lt in B; lia|]. cbn.
  destruct (- Z.of_nat n <? 0) eqn:D; [|apply Z.ltb_ge in D; lia].
  destruct (Z.of_nat n + - Z.of_nat n + 1 <=? Z.of_nat n + - Z.of_nat n) eqn:C; [apply Z.leb_le in C; lia|].
  f_equal. f_equal; lia.
Qed.

(** item-wise rewriting of a bounds list *)
Inductive items_rewrite (n : Z) : list bof -> list bof -> Prop :=
| ir_nil : items_rewrite n [] []
| ir_filler f l l' : items_rewrite n l l' -> items_rewrite n (Filler f :: l) (Filler f :: l')
| ir_bound b b' l l' : bound_rewrites n b b' -> items_rewrite n l l' ->
                       items_rewrite n (Bound b :: l) (Bound b' :: l').

Lemma fallback_for_rw n b b' g : bound_rewrites n b b' -> fallback_for b' g = fallback_for b g.
Proof. intros [_ [_ [_ H]]]. unfold fallback_for. rewrite H. reflexivity. Qed.

(** byte mode: the whole output is unchanged *)
Theorem C09_bytes l l' generic data :
  items_rewrite (Z.of_nat (length data)) l l' ->
  cut_bytes_items l' generic data = cut_bytes_items l generic data.
Proof.
  induction 1 as [|f l l' _ IH|b b' l l' Hb _ IH]; cbn [cut_bytes_items].
  - reflexivity.
  - rewrite IH. reflexivity.
  - rewrite (C09_try_into_range _ _ _ Hb), (fallback_for_rw _ _ _ generic Hb), IH. reflexivity.
Qed.

(** general path: the output loop over the fields of one record is unchanged *)
Theorem C09_general o line fields l l' :
  items_rewrite (Z.of_nat (length fields)) l l' ->
  out_loop o line fields l' = out_loop o line fields l.
Proof.
  induction 1 as [|f l l' _ IH|b b' l l' Hb _ IH]; cbn [out_loop].
  - reflexivity.
  - rewrite IH. reflexivity.
  - rewrite (C09_try_into_range _ _ _ Hb), (fallback_for_rw _ _ _ _ Hb), IH.
    destruct Hb as [_ [_ [Hlast _]]]. rewrite Hlast. reflexivity.
Qed.

(** fast lane: the output loop over the field starts of one record is unchanged *)
Theorem C09_fast o d line fields l l' :
  items_rewrite (Z.of_nat (length fields - 1)) l l' ->
  fast_out o d line fields l' = fast_out o d line fields l.
Proof.
  induction 1 as [|f l l' _ IH|b b' l l' Hb _ IH]; cbn [fast_out].
  - reflexivity.
  - rewrite IH. reflexivity.
  - rewrite (C09_try_into_range _ _ _ Hb), (fallback_for_rw _ _ _ _ Hb), IH.
    destruct Hb as [_ [_ [Hlast _]]]. rewrite Hlast. reflexivity.
Qed.
