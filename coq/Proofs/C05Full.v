(** C05: the one-line-at-a-time reader prints exactly the selected lines, and so agrees
    with the whole-input algorithm on every request both can serve. *)
From TucModel Require Import Base.Bytes Base.ListX Model.Bounds Model.BoundsParse Model.Scan Model.Utf8
     Model.Opt Model.CutBytes Model.CutStr Model.CutLines Spec.Fields Proofs.BoundsFacts Proofs.C06
     Proofs.ScanSplit Proofs.C02 Proofs.C05 Proofs.C12 Proofs.Plain Proofs.C03Full.
Local Open Scope Z_scope.

(** what remains to be printed when [idx] lines have been read, [ls] are the lines still to
    come, and [started] tells whether the head bound has already printed a line *)
Section Rem.
  Variable o : opt.
  Let eol := o_eol o.

  Definition lsep (bs' : list bof) : bytes := if o_join o && nonempty bs' then [eol] else [].

  Fixpoint rem (idx : Z) (ls : list bytes) (bs : list bof) (started : bool) : bytes :=
    match bs with
    | [] => []
    | Filler f :: bs' => f ++ lsep bs' ++ rem idx ls bs' false
    | Bound b :: bs' =>
        let n := idx + Z.of_nat (length ls) in
        let l := left_of b in
        let hi := match br b with SSome r => r | SCont => n end in
        (if started then flat_map (fun x => eol :: x) (firstn (Z.to_nat (hi - idx)) ls)
         else intercalate [eol] (firstn (Z.to_nat (hi - l + 1)) (skipn (Z.to_nat (l - 1 - idx)) ls)))
        ++ (match br b with SSome _ => lsep bs' | SCont => lsep bs' end)
        ++ rem idx ls bs' false
    end.
End Rem.

(** forward, resolvable bounds on n lines: positive, each left <= right <= n (or open with
    left <= n), each bound starting at or after the line the previous one ended on *)
Fixpoint fwd_ok (lo n : Z) (bs : list bof) : Prop :=
  match bs with
  | [] => True
  | Filler _ :: _ => False
  | Bound b :: bs' =>
      lo <= left_of b /\ 0 < left_of b /\ left_of b <= n
      /\ match br b with
         | SSome rv => left_of b <= rv /\ rv <= n /\ fwd_ok rv n bs'
         | SCont => bs' = []
         end
  end.

Lemma rem_shift o : forall bs idx x ls,
  (forall b, In (Bound b) bs -> idx + 1 < left_of b) -> fwd_ok 0 (idx + 1 + Z.of_nat (length ls)) bs ->
  rem o idx (x :: ls) bs false = rem o (idx + 1) ls bs false.
Proof.
  induction bs as [|y bs IH]; intros idx x ls Hl Hok; [reflexivity|].
  destruct y as [b|f]; [|cbn in Hok; contradiction].
  cbn [rem]. cbn [length]. rewrite Nat2Z.inj_succ.
  replace (idx + Z.succ (Z.of_nat (length ls))) with (idx + 1 + Z.of_nat (length ls)) by lia.
  assert (Hb : idx + 1 < left_of b) by (apply Hl; left; reflexivity).
  replace (Z.to_nat (left_of b - 1 - idx)) with (S (Z.to_nat (left_of b - 1 - (idx + 1)))) by lia.
  cbn [skipn]. f_equal. f_equal.
  cbn [fwd_ok] in Hok. destruct Hok as [_ [_ [_ Hr]]].
  apply IH.
  - intros b' Hin. apply Hl. right; exact Hin.
  - destruct (br b) as [rv|]; [|subst bs; exact I].
    destruct Hr as [_ [_ Hr]]. clear - Hr. revert Hr. generalize rv. induction bs as [|z bs IHb]; intros lo H; [exact I|].
    destruct z as [b'|g]; [|exact H]. cbn [fwd_ok] in *. destruct H as [A [B [C D]]]. repeat split; try assumption; lia.
Qed.

Lemma matches_pos' b k : 0 < k -> 0 < left_of b ->
  (match br b with SSome rv => left_of b <= rv | SCont => True end) ->
  matches b k = Some (match br b with
                      | SSome rv => (left_of b <=? k) && (k <=? rv)
                      | SCont => left_of b <=? k
                      end).
Proof.
  intros Hk Hl Hr. unfold matches, left_of in *.
  assert (Hop : forall v, 0 < v -> opposite_sign v k = false).
  { intros v Hv. unfold opposite_sign. destruct (0 <? v) eqn:A; destruct (k <? 0) eqn:B; destruct (v <? 0) eqn:C;
      destruct (0 <? k) eqn:D; try reflexivity;
      try apply Z.ltb_lt in A; try apply Z.ltb_lt in B; try apply Z.ltb_lt in C; try apply Z.ltb_ge in D; lia. }
  destruct (bl b) as [l|]; destruct (br b) as [rv|].
  - rewrite (Hop l Hl), (Hop rv ltac:(lia)). reflexivity.
  - rewrite (Hop l Hl). reflexivity.
  - rewrite (Hop rv ltac:(lia)). destruct (1 <=? k) eqn:E; [reflexivity | apply Z.leb_gt in E; lia].
  - destruct (1 <=? k) eqn:E; [reflexivity | apply Z.leb_gt in E; lia].
Qed.

Definition pend_ok (idx n : Z) (bs : list bof) (started : bool) : Prop :=
  match bs with
  | [] => started = false
  | Filler _ :: _ => False
  | Bound b :: bs' =>
      0 < left_of b /\ left_of b <= n
      /\ (if started then left_of b <= idx else idx < left_of b)
      /\ match br b with
         | SSome rv => left_of b <= rv /\ rv <= n /\ idx < rv /\ fwd_ok rv n bs'
         | SCont => bs' = []
         end
  end.

Lemma fwd_ok_weaken n : forall bs lo lo', lo' <= lo -> fwd_ok lo n bs -> fwd_ok lo' n bs.
Proof.
  intros bs lo lo' H. destruct bs as [|[b|f] bs']; cbn [fwd_ok]; try tauto.
  intros [A B]. split; [lia | exact B].
Qed.

Lemma fwd_ok_future n : forall bs lo b, fwd_ok lo n bs -> In (Bound b) bs -> lo <= left_of b.
Proof.
  induction bs as [|y bs IH]; intros lo b H Hin; [destruct Hin|].
  destruct y as [b'|f]; cbn [fwd_ok] in H; [|contradiction].
  destruct H as [A [B [C D]]]. destruct Hin as [E|Hin].
  - injection E as <-. exact A.
  - destruct (br b') as [rv|]; [|subst bs; destruct Hin].
    destruct D as [D1 [D2 D3]]. specialize (IH rv b D3 Hin). lia.
Qed.

Lemma intercalate_flat' eol x rest :
  intercalate [eol] (x :: rest) = x ++ flat_map (fun f => eol :: f) rest.
Proof. apply intercalate_flat. Qed.

(** one line through the pending bounds *)
Lemma fwd_step o x ls : forall bs idx started,
  0 <= idx ->
  pend_ok idx (idx + 1 + Z.of_nat (length ls)) bs started ->
  rem o idx (x :: ls) bs started
  = fst (fst (fwd_bounds o bs started (idx + 1) x))
    ++ rem o (idx + 1) ls (snd (fst (fwd_bounds o bs started (idx + 1) x))) (snd (fwd_bounds o bs started (idx + 1) x))
  /\ pend_ok (idx + 1) (idx + 1 + Z.of_nat (length ls))
             (snd (fst (fwd_bounds o bs started (idx + 1) x))) (snd (fwd_bounds o bs started (idx + 1) x)).
Proof.
  set (n := fun idx => idx + 1 + Z.of_nat (length ls)).
  induction bs as [|y bs IH]; intros idx started Hidx Hok.
  - cbn in Hok. subst started. cbn. split; reflexivity.
  - destruct y as [b|f]; [|cbn in Hok; contradiction].
    cbn [pend_ok] in Hok. destruct Hok as [Hl0 [Hln [Hst Hr]]].
    assert (Hlen : idx + Z.of_nat (length (x :: ls)) = idx + 1 + Z.of_nat (length ls)) by (cbn [length]; lia).
    cbn [fwd_bounds rem]. rewrite Hlen.
    assert (Hm := matches_pos' b (idx + 1) ltac:(lia) Hl0).
    destruct (br b) as [rv|] eqn:Ebr.
    + destruct Hr as [Hlr [Hrn [Hir Hrest]]]. rewrite (Hm Hlr).
      destruct (Z_lt_le_dec (idx + 1) (left_of b)) as [Hfut|Hin].
      * (* the bound starts later *)
        destruct started; [lia|].
        assert (E1 : (left_of b <=? idx + 1) && (idx + 1 <=? rv) = false).
        { apply andb_false_iff. left. apply Z.leb_gt. lia. }
        rewrite E1. cbn [fst snd app].
        split.
        -- replace (Z.to_nat (left_of b - 1 - idx)) with (S (Z.to_nat (left_of b - 1 - (idx + 1)))) by lia.
           cbn [skipn rem]. rewrite Ebr.
           replace (idx + 1 + Z.of_nat (length ls)) with (idx + 1 + Z.of_nat (length ls)) by lia.
           f_equal. f_equal. apply rem_shift.
           ++ intros b' Hin'. pose proof (fwd_ok_future _ _ _ _ Hrest Hin'). lia.
           ++ eapply fwd_ok_weaken; [|exact Hrest]. lia.
        -- cbn [pend_ok]. rewrite Ebr. repeat split; try assumption; lia.
      * (* the line belongs to the bound *)
        assert (E1 : (left_of b <=? idx + 1) && (idx + 1 <=? rv) = true).
        { apply andb_true_iff. split; apply Z.leb_le; lia. }
        rewrite E1. cbn [side_eqb].
        destruct (Z.eqb_spec rv (idx + 1)) as [Hend|Hmore].
        -- (* and it is its last line: the next bounds are tried on the same line *)
           subst rv.
           assert (Hnext : pend_ok idx (idx + 1 + Z.of_nat (length ls)) bs false).
           { destruct bs as [|[b'|f'] bs']; cbn [pend_ok fwd_ok] in *; [reflexivity | | contradiction].
             destruct Hrest as [A [B [C D]]]. repeat split; try assumption; try lia.
             destruct (br b') as [rv'|]; [|exact D]. destruct D as [D1 [D2 D3]]. repeat split; try assumption; lia. }
           destruct (IH idx false Hidx Hnext) as [IH1 IH2].
           destruct (fwd_bounds o bs false (idx + 1) x) as [[out' rest'] a'] eqn:Ef. cbn [fst snd] in *.
           split; [|exact IH2].
           rewrite IH1. unfold lsep.
           destruct started.
           ++ replace (Z.to_nat (idx + 1 - idx)) with 1%nat by lia. cbn [firstn flat_map app].
              rewrite <- !app_assoc. cbn [app]. reflexivity.
           ++ assert (left_of b = idx + 1) by lia.
              replace (Z.to_nat (left_of b - 1 - idx)) with 0%nat by lia.
              replace (Z.to_nat (idx + 1 - left_of b + 1)) with 1%nat by lia.
              cbn [skipn firstn intercalate app]. rewrite <- !app_assoc. reflexivity.
        -- (* more lines of this bound follow *)
           cbn [fst snd]. split.
           ++ cbn [rem]. rewrite Ebr.
              assert (Hrem : rem o idx (x :: ls) bs false = rem o (idx + 1) ls bs false).
              { apply rem_shift.
                - intros b' Hin'. pose proof (fwd_ok_future _ _ _ _ Hrest Hin'). lia.
                - eapply fwd_ok_weaken; [|exact Hrest]. lia. }
              rewrite Hrem.
              destruct started.
              ** replace (Z.to_nat (rv - idx)) with (S (Z.to_nat (rv - (idx + 1)))) by lia.
                 cbn [firstn flat_map app]. rewrite <- !app_assoc. reflexivity.
              ** assert (left_of b = idx + 1) by lia.
                 replace (Z.to_nat (left_of b - 1 - idx)) with 0%nat by lia.
                 replace (Z.to_nat (rv - left_of b + 1)) with (S (Z.to_nat (rv - (idx + 1)))) by lia.
                 cbn [skipn firstn]. rewrite intercalate_flat'. rewrite <- !app_assoc. reflexivity.
           ++ cbn [pend_ok]. rewrite Ebr. repeat split; try assumption; lia.
    + (* an open range *)
      subst bs. rewrite (Hm I). cbn [side_eqb].
      destruct (Z_lt_le_dec (idx + 1) (left_of b)) as [Hfut|Hin].
      * destruct started; [lia|].
        assert (E1 : (left_of b <=? idx + 1) = false) by (apply Z.leb_gt; lia).
        rewrite E1. cbn [fst snd app]. split.
        -- replace (Z.to_nat (left_of b - 1 - idx)) with (S (Z.to_nat (left_of b - 1 - (idx + 1)))) by lia.
           cbn [skipn rem]. rewrite Ebr. reflexivity.
        -- cbn [pend_ok]. rewrite Ebr. repeat split; try assumption; lia.
      * assert (E1 : (left_of b <=? idx + 1) = true) by (apply Z.leb_le; lia).
        rewrite E1. cbn [fst snd]. split.
        -- cbn [rem]. rewrite Ebr.
           destruct started.
           ++ replace (Z.to_nat (idx + 1 + Z.of_nat (length ls) - idx)) with (S (Z.to_nat (idx + 1 + Z.of_nat (length ls) - (idx + 1)))) by lia.
              cbn [firstn flat_map app]. rewrite <- !app_assoc. reflexivity.
           ++ assert (left_of b = idx + 1) by lia.
              replace (Z.to_nat (left_of b - 1 - idx)) with 0%nat by lia.
              replace (Z.to_nat (idx + 1 + Z.of_nat (length ls) - left_of b + 1))
                with (S (Z.to_nat (idx + 1 + Z.of_nat (length ls) - (idx + 1)))) by lia.
              cbn [skipn firstn]. rewrite intercalate_flat'. rewrite <- !app_assoc. reflexivity.
        -- cbn [pend_ok]. rewrite Ebr. repeat split; try assumption; lia.
Qed.

Lemma fwd_lines_spec o : forall ls bs started idx acc,
  0 <= idx ->
  pend_ok idx (idx + Z.of_nat (length ls)) bs started ->
  Forall (fun l => utf8_valid l = true) ls ->
  fwd_lines o ls bs started idx acc = Done (acc ++ rem o idx ls bs started ++ [o_eol o]).
Proof.
  induction ls as [|x ls IH]; intros bs started idx acc Hidx Hok Hutf.
  - cbn [fwd_lines length] in *. replace (idx + Z.of_nat 0) with idx in Hok by lia.
    destruct bs as [|[b|f] bs']; cbn [pend_ok] in Hok; [| |contradiction].
    + subst started. reflexivity.
    + destruct Hok as [A [B [C D]]]. destruct started; [|lia].
      destruct (br b) as [rv|] eqn:Ebr; [destruct D as [_ [D2 [D3 _]]]; lia|]. subst bs'.
      cbn [fwd_finish fwd_tail rem]. rewrite Ebr. cbn [length]. rewrite firstn_nil. cbn [flat_map app].
      unfold lsep. cbn [nonempty]. rewrite andb_false_r. reflexivity.
  - cbn [fwd_lines].
    assert (Hv : negb (utf8_valid x) = false).
    { inversion Hutf as [|? ? Hx _]; subst. rewrite Hx. reflexivity. }
    rewrite Hv.
    assert (Hn : idx + Z.of_nat (length (x :: ls)) = idx + 1 + Z.of_nat (length ls)) by (cbn [length]; lia).
    rewrite Hn in Hok.
    destruct (fwd_step o x ls bs idx started Hidx Hok) as [H1 H2].
    destruct (fwd_bounds o bs started (idx + 1) x) as [[out rest] a] eqn:Ef. cbn [fst snd] in *.
    rewrite H1. destruct rest as [|r0 rest'].
    + cbn [rem]. rewrite app_nil_r. reflexivity.
    + rewrite (IH (r0 :: rest') a (idx + 1) (acc ++ out) ltac:(lia) H2).
      * rewrite <- !app_assoc. reflexivity.
      * inversion Hutf; assumption.
Qed.

(** the remainder from the very start is the selection of the statement *)
Fixpoint last_marked (bs : list bof) : Prop :=
  match bs with
  | [] => True
  | Bound b :: bs' => blast b = negb (nonempty bs') /\ last_marked bs'
  | Filler _ :: bs' => last_marked bs'
  end.

Lemma rem_is_spec_items o L : L <> [] -> forall bs lo,
  fwd_ok lo (Z.of_nat (length L)) bs -> 1 <= lo -> last_marked bs ->
  spec_items L (o_fallback o) (o_join o) [o_eol o] bs = Some (rem o 0 L bs false).
Proof.
  intros HL. induction bs as [|y bs IH]; intros lo Hok Hlo Hlm; [reflexivity|].
  destruct y as [b|f]; [|cbn in Hok; contradiction].
  cbn [fwd_ok last_marked] in *. destruct Hok as [A [B [C D]]]. destruct Hlm as [M1 M2].
  cbn [spec_items rem]. replace (0 + Z.of_nat (length L)) with (Z.of_nat (length L)) by lia.
  rewrite try_into_range_present; [| exact B | exact C |].
  2:{ destruct (br b) as [rv|]; [|exact I]. destruct D as [D1 [D2 _]]. lia. }
  assert (Hrest : spec_items L (o_fallback o) (o_join o) [o_eol o] bs = Some (rem o 0 L bs false)).
  { destruct (br b) as [rv|].
    - destruct D as [D1 [D2 D3]]. apply (IH rv D3); [lia | exact M2].
    - subst bs. reflexivity. }
  rewrite Hrest. cbn [option_map]. f_equal.
  replace (Z.to_nat (match br b with SSome rv => rv | SCont => Z.of_nat (length L) end) - Z.to_nat (left_of b - 1))%nat
    with (Z.to_nat (match br b with SSome r => r | SCont => Z.of_nat (length L) end - left_of b + 1)).
  2:{ destruct (br b) as [rv|]; [destruct D as [D1 _]|]; lia. }
  replace (Z.to_nat (left_of b - 1 - 0)) with (Z.to_nat (left_of b - 1)) by lia.
  unfold lsep. rewrite M1, negb_involutive. destruct (br b); reflexivity.
Qed.

(** C05, forward algorithm: for every input of n >= 1 valid lines and every ascending list of
    plain bounds resolvable on it, exactly the selected lines, in request order, separated by
    the EOL (or concatenated under --no-join), then one EOL *)
Theorem C05_forward o L bs :
  L <> [] -> bs <> [] -> fwd_ok 1 (Z.of_nat (length L)) bs -> last_marked bs ->
  Forall (fun l => utf8_valid l = true) L ->
  exists x, spec_items L (o_fallback o) (o_join o) [o_eol o] bs = Some x
            /\ fwd_lines o L bs false 0 [] = Done (x ++ [o_eol o]).
Proof.
  intros HL Hbs Hok Hlm Hutf. exists (rem o 0 L bs false). split.
  - apply (rem_is_spec_items o L HL bs 1 Hok); [lia | exact Hlm].
  - rewrite (fwd_lines_spec o L bs false 0 []); [reflexivity | lia | | exact Hutf].
    replace (0 + Z.of_nat (length L)) with (Z.of_nat (length L)) by lia.
    destruct bs as [|[b|f] bs']; [contradiction | | cbn in Hok; contradiction].
    cbn [fwd_ok pend_ok] in *. destruct Hok as [A [B [C D]]]. repeat split; try assumption; try lia.
    destruct (br b) as [rv|]; [|exact D]. destruct D as [D1 [D2 D3]]. repeat split; try assumption; lia.
Qed.

(** ... and the whole-input algorithm prints the same thing for the same request *)
Theorem C05_buffered_same o input bs x :
  plain_opts o (o_eol o) -> o_trim o = None -> o_only_delimited o = false -> o_replace o = None ->
  items (o_bounds o) = bs -> Forall item_nz bs ->
  utf8_valid input = true -> input <> [] -> strip_one_suffix (o_eol o) input <> [] ->
  spec_items (records (o_eol o) input) (o_fallback o) (o_join o) [o_eol o] bs = Some x ->
  cut_lines_buffered o input = Some (Done (x ++ [o_eol o])).
Proof.
  intros Hpl Ht Hs Hrp Hb Hnz Hu Hi Hst Hx. unfold cut_lines_buffered. rewrite Hu. cbn [negb].
  rewrite (general_plain_record o (o_eol o) _ Hpl Ht Hs Hst); [|rewrite Hb; exact Hnz].
  rewrite (C05_same_lines (o_eol o) input Hi).
  assert (Hrep : rep_of o (o_eol o) = [o_eol o]) by (unfold rep_of; rewrite Hrp; reflexivity).
  rewrite Hrep, Hb, Hx. reflexivity.
Qed.
