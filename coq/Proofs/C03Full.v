(** C03: the fixed-memory path prints, for every record in which each requested range is
    wholly present or wholly absent, exactly what the general path prints.
    Part A: from bytes to fields. *)
From TucModel Require Import Base.Bytes Base.ListX Model.Bounds Model.BoundsParse Model.Scan Model.Opt
     Model.CutBytes Model.CutStr Model.FastLane Model.Stream Spec.Fields Proofs.BoundsFacts Proofs.C06
     Proofs.ScanSplit Proofs.C02 Proofs.C03 Proofs.C04 Proofs.C04Parse Proofs.C05 Proofs.C12 Proofs.C18 Proofs.Plain.
Local Open Scope Z_scope.

(** the field-level reading of the scan of one record *)
Inductive fres := FDone (out : bytes) | FErr.

Definition fprepend (p : bytes) (r : fres) : fres :=
  match r with FDone x => FDone (p ++ x) | FErr => FErr end.

Definition finish (so : sopt) (its : list bof) (n : Z) : fres :=
  match pff so its n with Some t => FDone (t ++ [s_eol so]) | None => FErr end.

Fixpoint stream_fields (so : sopt) (its : list bof) (curr : Z) (fs : list bytes) : fres :=
  match fs with
  | [] => FErr
  | f :: fs' =>
      let ob := print_bof so its curr f false true in
      match fs' with
      | [] => fprepend (fst ob) (finish so (snd ob) curr)
      | _ =>
          if side_eqb (SSome curr) (s_lif so) then fprepend (fst ob) (finish so (snd ob) curr)
          else fprepend (fst ob) (stream_fields so (snd ob) (curr + 1) fs')
      end
  end.

Definition bfree (c : byte) (f : bytes) : Prop := Forall (fun x => N.eqb x c = false) f.

(** scanning the bytes of a field only accumulates them *)
Lemma scan_field so its curr trunc : forall f piece tail out,
  bfree (s_delim so) f -> bfree (s_eol so) f ->
  scan_chunk so its curr trunc piece (f ++ tail) out
  = scan_chunk so its curr trunc (rev f ++ piece) tail out.
Proof.
  induction f as [|x f IH]; intros piece tail out Hd He; [reflexivity|].
  inversion Hd as [|? ? Hx Hd']; subst. inversion He as [|? ? Hy He']; subst.
  cbn [app scan_chunk]. rewrite Hy, Hx. rewrite IH by assumption.
  cbn [rev]. rewrite <- app_assoc. reflexivity.
Qed.

Lemma after_eol_fields eol d : forall fs rest,
  Forall (bfree eol) fs -> N.eqb d eol = false ->
  after_eol eol (intercalate [d] fs ++ eol :: rest) = Some rest.
Proof.
  assert (A : forall f tail, bfree eol f -> after_eol eol (f ++ tail) = after_eol eol tail).
  { induction f as [|x f IH]; intros tail H; [reflexivity|]. inversion H as [|? ? Hx Hf]; subst.
    cbn [app after_eol]. rewrite Hx. apply IH, Hf. }
  induction fs as [|f fs IH]; intros rest Hf Hde.
  - cbn. rewrite N.eqb_refl. reflexivity.
  - inversion Hf as [|? ? H1 H2]; subst. destruct fs as [|g fs'].
    + cbn [intercalate]. rewrite A by exact H1. cbn. rewrite N.eqb_refl. reflexivity.
    + change (intercalate [d] (f :: g :: fs')) with (f ++ [d] ++ intercalate [d] (g :: fs')).
      rewrite <- !app_assoc. rewrite A by exact H1. cbn [app after_eol]. rewrite Hde. apply IH; assumption.
Qed.

(** the scan of one record, field by field *)
Inductive sres := SEnd (x : bytes) | SSkip (x : bytes) (remaining : list bytes) | SErr.

Definition sprepend (p : bytes) (r : sres) : sres :=
  match r with SEnd x => SEnd (p ++ x) | SSkip x rem => SSkip (p ++ x) rem | SErr => SErr end.

Fixpoint stream_scan (so : sopt) (its : list bof) (curr : Z) (fs : list bytes) : sres :=
  match fs with
  | [] => SErr
  | f :: fs' =>
      let ob := print_bof so its curr f false true in
      match fs' with
      | [] => match pff so (snd ob) curr with
              | Some t => SEnd (fst ob ++ t ++ [s_eol so])
              | None => SErr
              end
      | _ =>
          if side_eqb (SSome curr) (s_lif so) then
            match pff so (snd ob) curr with
            | Some t => SSkip (fst ob ++ t) fs'
            | None => SErr
            end
          else sprepend (fst ob) (stream_scan so (snd ob) (curr + 1) fs')
      end
  end.

Lemma stream_scan_cons2 so its curr f g fs' :
  stream_scan so its curr (f :: g :: fs')
  = (let ob := print_bof so its curr f false true in
     if side_eqb (SSome curr) (s_lif so) then
       match pff so (snd ob) curr with
       | Some t => SSkip (fst ob ++ t) (g :: fs')
       | None => SErr
       end
     else sprepend (fst ob) (stream_scan so (snd ob) (curr + 1) (g :: fs'))).
Proof. reflexivity. Qed.

Lemma stream_fields_scan so : forall fs its curr,
  stream_fields so its curr fs
  = match stream_scan so its curr fs with
    | SEnd x => FDone x
    | SSkip x _ => FDone (x ++ [s_eol so])
    | SErr => FErr
    end.
Proof.
  induction fs as [|f fs IH]; intros its curr; [reflexivity|].
  cbn [stream_fields stream_scan].
  destruct (print_bof so its curr f false true) as [o its']. cbn [fst snd].
  destruct fs as [|g fs'].
  - unfold finish. destruct (pff so its' curr); reflexivity.
  - destruct (side_eqb (SSome curr) (s_lif so)).
    + unfold finish. destruct (pff so its' curr); cbn [fprepend]; [rewrite <- app_assoc|]; reflexivity.
    + rewrite IH. destruct (stream_scan so its' (curr + 1) (g :: fs')); cbn [sprepend fprepend];
        rewrite <- ?app_assoc; reflexivity.
Qed.

Lemma scan_record so : forall fs its curr out rest,
  fs <> [] -> Forall (bfree (s_delim so)) fs -> Forall (bfree (s_eol so)) fs ->
  ((1 < length fs)%nat -> N.eqb (s_delim so) (s_eol so) = false) ->
  1 <= curr -> (curr = 1 -> fs <> [[]]) ->
  scan_chunk so its curr false [] (intercalate [s_delim so] fs ++ s_eol so :: rest) out
  = match stream_scan so its curr fs with
    | SEnd x => RecordEnd (out ++ x) rest
    | SSkip x rem => SkipFrom (out ++ x) (intercalate [s_delim so] rem ++ s_eol so :: rest)
    | SErr => ScanErr
    end.
Proof.
  induction fs as [|f fs IH]; intros its curr out rest Hne Hd He Hde Hc1 Hemp; [contradiction|].
  inversion Hd as [|? ? Hd1 Hd2]; subst. inversion He as [|? ? He1 He2]; subst.
  destruct fs as [|g fs'].
  - cbn [intercalate stream_scan].
    rewrite scan_field by assumption. rewrite app_nil_r. cbn [scan_chunk]. rewrite N.eqb_refl.
    assert (Hnot : (curr =? 1) && negb false && match rev f with [] => true | _ :: _ => false end = false).
    { destruct (Z.eqb_spec curr 1) as [->|]; [|reflexivity]. cbn [negb andb].
      destruct f as [|x f']; [exfalso; apply (Hemp eq_refl); reflexivity|].
      cbn [rev]. destruct (rev f'); reflexivity. }
    rewrite Hnot, rev_involutive.
    destruct (print_bof so its curr f false true) as [o its']. cbn [fst snd].
    destruct (pff so its' curr) as [t|]; [|reflexivity]. rewrite <- ?app_assoc. reflexivity.
  - change (intercalate [s_delim so] (f :: g :: fs')) with (f ++ [s_delim so] ++ intercalate [s_delim so] (g :: fs')).
    rewrite <- !app_assoc. rewrite scan_field by assumption. rewrite app_nil_r.
    pose proof (Hde ltac:(cbn; lia)) as Hde1.
    cbn [app scan_chunk]. rewrite Hde1, N.eqb_refl, rev_involutive.
    rewrite stream_scan_cons2. cbv zeta.
    destruct (print_bof so its curr f false true) as [o its']. cbn [fst snd].
    destruct (side_eqb (SSome curr) (s_lif so)).
    + destruct (pff so its' curr) as [t|]; [|reflexivity]. rewrite <- ?app_assoc. reflexivity.
    + etransitivity; [apply (IH its' (curr + 1) (out ++ o) rest ltac:(discriminate) Hd2 He2 (fun _ => Hde1) ltac:(lia) ltac:(intros; lia))|].
      destruct (stream_scan so its' (curr + 1) (g :: fs')); cbn [sprepend]; rewrite <- ?app_assoc; reflexivity.
Qed.

(** one whole record inside one chunk: the scan, then the search for the EOL after an
    early stop, is the field-level function *)
Lemma rec_chunks_record so fs its curr out rest cs started :
  fs <> [] -> Forall (bfree (s_delim so)) fs -> Forall (bfree (s_eol so)) fs ->
  ((1 < length fs)%nat -> N.eqb (s_delim so) (s_eol so) = false) ->
  1 <= curr -> (curr = 1 -> fs <> [[]]) ->
  rec_chunks so (Normal its curr false) started
             ((intercalate [s_delim so] fs ++ s_eol so :: rest) :: cs) out
  = match stream_fields so its curr fs with
    | FDone x => RRecord (out ++ x) (push_rest rest cs)
    | FErr => RFail
    end.
Proof.
  intros Hne Hd He Hde Hc1 Hemp.
  destruct (intercalate [s_delim so] fs ++ s_eol so :: rest) as [|c0 ch] eqn:Ech.
  { destruct (intercalate [s_delim so] fs); discriminate. }
  cbn [rec_chunks]. rewrite <- Ech.
  rewrite (scan_record so fs its curr out rest Hne Hd He Hde Hc1 Hemp), stream_fields_scan.
  destruct (stream_scan so its curr fs) as [x|x rem|] eqn:Es; try reflexivity.
  assert (Hrem : Forall (bfree (s_eol so)) rem).
  { clear - Es He. revert its curr x Es He. induction fs as [|f fs IH]; intros its curr x Es He; [discriminate|].
    cbn [stream_scan] in Es. destruct (print_bof so its curr f false true) as [o its']. cbn [fst snd] in Es.
    inversion He as [|? ? _ He2]; subst. destruct fs as [|g fs'].
    - destruct (pff so its' curr); discriminate.
    - destruct (side_eqb (SSome curr) (s_lif so)).
      + destruct (pff so its' curr); [|discriminate]. injection Es as _ <-. exact He2.
      + destruct (stream_scan so its' (curr + 1) (g :: fs')) as [y|y rem'|] eqn:E2; cbn [sprepend] in Es; try discriminate.
        injection Es as _ <-. eapply IH; [exact E2 | exact He2]. }
  assert (Hlen2 : (1 < length fs)%nat).
  { destruct fs as [|f [|g fs']]; [contradiction | | cbn; lia]. exfalso.
    cbn [stream_scan] in Es. destruct (print_bof so its curr f false true) as [o0 its0]. cbn [fst snd] in Es.
    destruct (pff so its0 curr); discriminate. }
  pose proof (after_eol_fields _ _ rem rest Hrem (Hde Hlen2)) as Ha.
  match goal with |- match ?X with _ => _ end = _ => replace X with (Some rest) by (symmetry; exact Ha) end.
  rewrite <- app_assoc. reflexivity.
Qed.

(** ------------------------------------------------------------------
    Part B: the field-level function prints the requested fields. *)

Definition left_of (b : ubound) : Z := match bl b with SSome l => l | SCont => 1 end.
Definition no_bounds (its : list bof) : Prop := bounds_only its = [].

(** what remains to be printed for [its] when field [k] is the first of the remaining
    fields [fs] (n = k - 1 + |fs| fields in all); only the head bound can have started *)
Section Tail.
  Variable so : sopt.
  Let sd := sdelim so.

  Definition sep_b (b : ubound) : bytes := if s_join so && negb (blast b) then [sd] else [].

  Definition piece_from (k : Z) (fs : list bytes) (b : ubound) : option bytes :=
    let n := k - 1 + Z.of_nat (length fs) in
    let l := left_of b in
    let hi := match br b with SSome r => r | SCont => n end in
    if l <=? n then
      if l <? k then Some (flat_map (fun f => sd :: f) (firstn (Z.to_nat (hi - k + 1)) fs))
      else Some (intercalate [sd] (firstn (Z.to_nat (hi - l + 1)) (skipn (Z.to_nat (l - k)) fs)))
    else fallback_for b (s_fallback so).

  Fixpoint tail_spec (k : Z) (fs : list bytes) (its : list bof) : option bytes :=
    match its with
    | [] => Some []
    | Filler f :: r => option_map (app f) (tail_spec k fs r)
    | Bound b :: r =>
        match piece_from k fs b with
        | None => None
        | Some p => option_map (fun t => p ++ sep_b b ++ t) (tail_spec k fs r)
        end
    end.

  (** ascending bounds after field [lo]; closed ranges wholly present or wholly absent on n
      fields; an open range is the last bound and is marked last *)
  Fixpoint asc (lo n : Z) (its : list bof) : Prop :=
    match its with
    | [] => True
    | Filler _ :: r => asc lo n r
    | Bound b :: r =>
        lo < left_of b /\ 0 < left_of b
        /\ match br b with
           | SSome rv => left_of b <= rv /\ (rv <= n \/ n < left_of b) /\ asc rv n r
           | SCont => blast b = true /\ no_bounds r
           end
    end.

  Lemma matches_pos b k : 0 < k -> 0 < left_of b ->
    (match br b with SSome rv => left_of b <= rv | SCont => True end) ->
    matches b k = Some (match br b with
                        | SSome rv => (left_of b <=? k) && (k <=? rv)
                        | SCont => left_of b <=? k
                        end).
  Proof.
    intros Hk Hl Hr. unfold matches, left_of in *.
    assert (Hop : forall v, 0 < v -> opposite_sign v k = false).
    { intros v Hv. unfold opposite_sign. destruct (0 <? v) eqn:A; destruct (k <? 0) eqn:B; destruct (v <? 0) eqn:C;
        destruct (0 <? k) eqn:D; try reflexivity;
        try apply Z.ltb_lt in A; try apply Z.ltb_lt in B; try apply Z.ltb_lt in C; try apply Z.ltb_ge in D; lia. }
    destruct (bl b) as [l|]; destruct (br b) as [rv|].
    - rewrite (Hop l Hl), (Hop rv ltac:(lia)). reflexivity.
    - rewrite (Hop l Hl). reflexivity.
    - rewrite (Hop rv ltac:(lia)). destruct (1 <=? k) eqn:E; [reflexivity | apply Z.leb_gt in E; lia].
    - destruct (1 <=? k) eqn:E; [reflexivity | apply Z.leb_gt in E; lia].
  Qed.

  (** print_bof on a list that starts with a filler followed by a bound *)
  Lemma print_bof_filler f b r k piece trunc c :
    print_bof so (Filler f :: Bound b :: r) k piece trunc c
    = (f ++ fst (print_bof so (Bound b :: r) k piece trunc c), snd (print_bof so (Bound b :: r) k piece trunc c)).
  Proof.
    unfold print_bof. destruct (matches b k) as [[|]|]; try (cbn; rewrite ?app_nil_r; reflexivity).
    destruct (c && side_eqb (br b) (SSome k)); reflexivity.
  Qed.

  Lemma stream_fields_filler f b r k fs :
    stream_fields so (Filler f :: Bound b :: r) k fs = fprepend f (stream_fields so (Bound b :: r) k fs).
  Proof.
    destruct fs as [|g fs]; [reflexivity|]. cbn [stream_fields]. rewrite print_bof_filler. cbn [fst snd].
    destruct fs as [|h fs'].
    - destruct (finish so _ k); cbn [fprepend]; rewrite <- ?app_assoc; reflexivity.
    - destruct (side_eqb (SSome k) (s_lif so)).
      + destruct (finish so _ k); cbn [fprepend]; rewrite <- ?app_assoc; reflexivity.
      + destruct (stream_fields so _ (k + 1) (h :: fs')); cbn [fprepend]; rewrite <- ?app_assoc; reflexivity.
  Qed.
End Tail.

Fixpoint all_after (k : Z) (its : list bof) : Prop :=
  match its with
  | [] => True
  | Filler _ :: r => all_after k r
  | Bound b :: r => k < left_of b /\ all_after k r
  end.

Lemma asc_all_after lo n its k : asc lo n its -> k <= lo -> all_after k its.
Proof.
  revert lo; induction its as [|x its IH]; intros lo H Hk; [exact I|].
  destruct x as [b|f]; cbn [asc all_after] in *; [|eapply IH; eassumption].
  destruct H as [H1 [H2 H3]]. split; [lia|].
  destruct (br b) as [rv|].
  - destruct H3 as [A [B C]]. eapply IH; [exact C | lia].
  - destruct H3 as [_ Hnb]. clear - Hnb. induction its as [|y its IH]; [exact I|].
    destruct y as [b'|f']; [discriminate|]. cbn. apply IH. exact Hnb.
Qed.

(** moving past a field that no pending bound has reached changes nothing *)
Lemma tail_spec_shift so k f fs its :
  all_after k its -> tail_spec so k (f :: fs) its = tail_spec so (k + 1) fs its.
Proof.
  induction its as [|x its IH]; intros H; [reflexivity|].
  destruct x as [b|g]; cbn [all_after tail_spec] in *.
  - destruct H as [Hl Hr]. rewrite (IH Hr).
    assert (Hp : piece_from so k (f :: fs) b = piece_from so (k + 1) fs b).
    { unfold piece_from. cbn [length]. rewrite Nat2Z.inj_succ.
      replace (k - 1 + Z.succ (Z.of_nat (length fs))) with (k + 1 - 1 + Z.of_nat (length fs)) by lia.
      destruct (left_of b <=? k + 1 - 1 + Z.of_nat (length fs)); [|reflexivity].
      destruct (left_of b <? k) eqn:A; [apply Z.ltb_lt in A; lia|].
      destruct (left_of b <? k + 1) eqn:B; [apply Z.ltb_lt in B; lia|].
      replace (Z.to_nat (left_of b - k)) with (S (Z.to_nat (left_of b - (k + 1)))) by lia.
      reflexivity. }
    rewrite Hp. reflexivity.
  - rewrite (IH H). reflexivity.
Qed.

(** bounds that start after the last field follow the fallback rule, as in the spec *)
Lemma pff_absent so k fs its :
  0 < k -> fs <> [] ->
  all_after (k - 1 + Z.of_nat (length fs)) its ->
  pff so its (k - 1 + Z.of_nat (length fs)) = tail_spec so k fs its.
Proof.
  intros Hk Hfs. induction its as [|x its IH]; intros H; [reflexivity|].
  destruct x as [b|g]; cbn [all_after pff tail_spec] in *.
  - destruct H as [Hl Hr]. rewrite (IH Hr). unfold piece_from.
    destruct (left_of b <=? k - 1 + Z.of_nat (length fs)) eqn:A; [apply Z.leb_le in A; lia|].
    assert (Hst : match bl b with SCont => true | SSome l => l <=? k - 1 + Z.of_nat (length fs) end = false).
    { unfold left_of in *. destruct (bl b) as [l|].
      - apply Z.leb_gt. lia.
      - exfalso. destruct fs; [contradiction|]. cbn [length] in *. lia. }
    rewrite Hst. cbn [andb]. unfold sep_b.
    destruct (fallback_for b (s_fallback so)); [|reflexivity].
    destruct (tail_spec so k fs its); reflexivity.
  - rewrite (IH H). destruct (tail_spec so k fs its); reflexivity.
Qed.

Lemma no_bounds_all_after its k : no_bounds its -> all_after k its.
Proof.
  induction its as [|x its IH]; intros H; [exact I|]. destruct x as [b|f]; [discriminate|]. apply IH, H.
Qed.

Lemma intercalate_flat sd x rest :
  intercalate [sd] (x :: rest) = x ++ flat_map (fun f => sd :: f) rest.
Proof.
  revert x; induction rest as [|y rest IH]; intros x.
  - cbn [intercalate flat_map]. rewrite app_nil_r. reflexivity.
  - change (intercalate [sd] (x :: y :: rest)) with (x ++ [sd] ++ intercalate [sd] (y :: rest)).
    rewrite (IH y). reflexivity.
Qed.

Lemma last_bound_r_cons_bound b r :
  last_bound_r (Bound b :: r) = match bounds_only r with [] => br b | _ => last_bound_r r end.
Proof.
  unfold last_bound_r. cbn [bounds_only flat_map app]. fold (bounds_only r).
  destruct (bounds_only r) as [|b' bs'] eqn:E; [reflexivity|].
  cbn [rev]. destruct (rev bs' ++ [b']) as [|z zs] eqn:Er.
  - destruct (rev bs'); discriminate.
  - cbn [app]. reflexivity.
Qed.

Lemma pre_eq b k : 0 < left_of b -> left_of b <= k ->
  ((1 <? k) && negb (side_eqb (bl b) (SSome k))) = (left_of b <? k).
Proof.
  unfold left_of. intros H1 H2. destruct (bl b) as [l|]; cbn [side_eqb negb].
  - destruct (Z.eqb_spec l k) as [->|Hne]; cbn [negb].
    + rewrite andb_false_r. symmetry. apply Z.ltb_irrefl.
    + rewrite andb_true_r. destruct (1 <? k) eqn:A; destruct (l <? k) eqn:B; try reflexivity;
        try apply Z.ltb_lt in A; try apply Z.ltb_ge in A; try apply Z.ltb_lt in B; try apply Z.ltb_ge in B; lia.
  - rewrite andb_true_r. reflexivity.
Qed.

Lemma last_bound_r_filler f its : last_bound_r (Filler f :: its) = last_bound_r its.
Proof. reflexivity. Qed.

(** shape of a non-empty pending list *)
Lemma pending_shape r : no_adjacent_fillers r -> bounds_only r <> [] ->
  (exists b r', r = Bound b :: r') \/ (exists f b r', r = Filler f :: Bound b :: r').
Proof.
  intros Hn Hb. destruct r as [|[b|f] r']; [contradiction | left; eauto |].
  destruct r' as [|[b|g] r'']; [contradiction | right; eauto | cbn in Hn; contradiction].
Qed.

Definition done_res (so : sopt) (x : option bytes) : fres :=
  match x with Some t => FDone (t ++ [s_eol so]) | None => FErr end.

Lemma fprepend_done so p x : fprepend p (done_res so x) = done_res so (option_map (app p) x).
Proof. destruct x; cbn; [rewrite <- app_assoc|]; reflexivity. Qed.

Lemma fprepend_nil r : fprepend [] r = r.
Proof. destruct r; reflexivity. Qed.

Lemma pff_no_bounds so its m k fs : no_bounds its -> pff so its m = tail_spec so k fs its.
Proof.
  induction its as [|x its IH]; intros H; [reflexivity|]. destruct x as [b|f]; [discriminate|].
  cbn [pff tail_spec]. rewrite (IH H). destruct (tail_spec so k fs its); reflexivity.
Qed.

(** the last bound of an ascending list lies after its lower limit *)
Lemma asc_last_after n : forall its lo, asc lo n its -> bounds_only its <> [] ->
  match last_bound_r its with SSome v => lo < v | SCont => True end.
Proof.
  induction its as [|x its IHi]; intros lo Ha Hb; [contradiction|].
  destruct x as [bb|ff]; cbn [asc] in Ha.
  - rewrite last_bound_r_cons_bound. destruct (bounds_only its) as [|q qs] eqn:E.
    + destruct (br bb) as [v|]; [|exact I]. destruct Ha as [A1 [A2 [A3 _]]]. lia.
    + destruct (br bb) as [v|].
      * destruct Ha as [A1 [A2 [A3 [_ A5]]]]. specialize (IHi v A5 ltac:(discriminate)).
        destruct (last_bound_r its); [lia | exact I].
      * destruct Ha as [_ [_ [_ Hnb]]]. unfold no_bounds in Hnb. congruence.
  - rewrite last_bound_r_filler. apply IHi; [exact Ha | exact Hb].
Qed.

(** the early stop does not fire at a field that lies before the head bound's right side *)
Lemma no_early_stop so n b r k :
  s_lif so = last_bound_r (Bound b :: r) ->
  match br b with SSome rv => k < rv /\ asc rv n r | SCont => no_bounds r end ->
  side_eqb (SSome k) (s_lif so) = false.
Proof.
  intros Hlif H. rewrite Hlif, last_bound_r_cons_bound.
  destruct (bounds_only r) as [|b' bs'] eqn:Eb.
  - destruct (br b) as [rv|]; [|reflexivity]. cbn. apply Z.eqb_neq. lia.
  - destruct (br b) as [rv|]; [|unfold no_bounds in H; congruence].
    destruct H as [A C]. assert (Hq : bounds_only r <> []) by (rewrite Eb; discriminate).
    pose proof (asc_last_after n r rv C Hq) as G.
    destruct (last_bound_r r) as [v|]; [|reflexivity]. cbn. apply Z.eqb_neq. lia.
Qed.

(** one more field of a range that does not end here *)
Lemma piece_step so k f g fs' b hi :
  0 < left_of b -> left_of b <= k ->
  hi = match br b with SSome r => r | SCont => k - 1 + Z.of_nat (length (f :: g :: fs')) end ->
  k < hi -> hi <= k - 1 + Z.of_nat (length (f :: g :: fs')) ->
  exists p', piece_from so (k + 1) (g :: fs') b = Some p'
             /\ piece_from so k (f :: g :: fs') b
                = Some ((if left_of b <? k then [sdelim so] else []) ++ f ++ p').
Proof.
  intros Hl Hlk Hhi Hlt Hle. unfold piece_from.
  replace (k + 1 - 1 + Z.of_nat (length (g :: fs'))) with (k - 1 + Z.of_nat (length (f :: g :: fs')))
    by (cbn [length]; lia).
  set (n := k - 1 + Z.of_nat (length (f :: g :: fs'))) in *.
  rewrite <- Hhi.
  destruct (left_of b <=? n) eqn:A; [|apply Z.leb_gt in A; lia].
  destruct (left_of b <? k + 1) eqn:B; [|apply Z.ltb_ge in B; lia].
  eexists. split; [reflexivity|].
  replace (hi - (k + 1) + 1) with (hi - k) by lia.
  destruct (left_of b <? k) eqn:C.
  - replace (Z.to_nat (hi - k + 1)) with (S (Z.to_nat (hi - k))) by lia. cbn [firstn flat_map app]. reflexivity.
  - apply Z.ltb_ge in C. assert (left_of b = k) by lia.
    replace (Z.to_nat (left_of b - k)) with 0%nat by lia. cbn [skipn].
    replace (Z.to_nat (hi - left_of b + 1)) with (S (Z.to_nat (hi - k))) by lia. cbn [firstn app].
    rewrite intercalate_flat. reflexivity.
Qed.

(** the last field of a range *)
Lemma piece_last so k f fs b :
  0 < left_of b -> left_of b <= k ->
  k = match br b with SSome r => r | SCont => k - 1 + Z.of_nat (length (f :: fs)) end ->
  k <= k - 1 + Z.of_nat (length (f :: fs)) ->
  piece_from so k (f :: fs) b = Some ((if left_of b <? k then [sdelim so] else []) ++ f).
Proof.
  intros Hl Hlk Hhi Hle. unfold piece_from. rewrite <- Hhi.
  destruct (left_of b <=? k - 1 + Z.of_nat (length (f :: fs))) eqn:A; [|apply Z.leb_gt in A; lia].
  destruct (left_of b <? k) eqn:C.
  - replace (Z.to_nat (k - k + 1)) with 1%nat by lia. cbn [firstn flat_map app]. rewrite app_nil_r. reflexivity.
  - apply Z.ltb_ge in C. assert (left_of b = k) by lia.
    replace (Z.to_nat (left_of b - k)) with 0%nat by lia. cbn [skipn].
    replace (Z.to_nat (k - left_of b + 1)) with 1%nat by lia. cbn [firstn intercalate app]. reflexivity.
Qed.

(** the main induction: with ascending bounds whose closed ranges are wholly present or
    wholly absent, the field-level scan prints exactly the specified remainder *)
Theorem stream_fields_spec so : forall fs k b r,
  0 < k -> fs <> [] ->
  0 < left_of b ->
  (match br b with
   | SSome rv => k <= rv /\ left_of b <= rv
                 /\ (rv <= k - 1 + Z.of_nat (length fs) \/ k - 1 + Z.of_nat (length fs) < left_of b)
                 /\ asc rv (k - 1 + Z.of_nat (length fs)) r
   | SCont => blast b = true /\ no_bounds r
   end) ->
  s_lif so = last_bound_r (Bound b :: r) ->
  no_adjacent_fillers r ->
  stream_fields so (Bound b :: r) k fs = done_res so (tail_spec so k fs (Bound b :: r)).
Proof.
  induction fs as [|f fs IH]; intros k b r Hk Hne Hl Hdom Hlif Hnaf; [contradiction|].
  set (n := k - 1 + Z.of_nat (length (f :: fs))) in *.
  assert (Hn : n = k + Z.of_nat (length fs)) by (unfold n; cbn [length]; lia).
  assert (Hmatch := matches_pos so b k Hk Hl).
  (* is field k inside the head bound? *)
  destruct (Z_lt_le_dec k (left_of b)) as [Hbefore|Hinside].
  - (* not yet: nothing is printed for this field *)
    assert (Hm : matches b k = Some false).
    { rewrite Hmatch; [|destruct (br b); [tauto | exact I]].
      destruct (br b); [|apply f_equal; apply Z.leb_gt; lia].
      apply f_equal. destruct (left_of b <=? k) eqn:A; [apply Z.leb_le in A; lia | reflexivity]. }
    assert (Hall : all_after k (Bound b :: r)).
    { cbn [all_after]. split; [exact Hbefore|]. destruct (br b) as [rv|].
      - destruct Hdom as [_ [A [_ C]]]. eapply asc_all_after; [exact C | lia].
      - apply no_bounds_all_after, Hdom. }
    cbn [stream_fields]. rewrite (stream_field_outside so b r k f Hm). cbn [fst snd fprepend].
    destruct fs as [|g fs'].
    + (* last field: every pending bound is absent *)
      unfold finish.
      assert (Hall' : all_after (k - 1 + Z.of_nat (length [f])) (Bound b :: r)).
      { cbn [length]. replace (k - 1 + Z.of_nat 1) with k by lia. exact Hall. }
      pose proof (pff_absent so k [f] (Bound b :: r) Hk ltac:(discriminate) Hall') as Hp.
      cbn [length] in Hp. replace (k - 1 + Z.of_nat 1) with k in Hp by lia. rewrite Hp.
      unfold done_res. destruct (tail_spec so k [f] (Bound b :: r)); reflexivity.
    + (* the early stop cannot fire before the last bound's right side *)
      assert (Hnostop : side_eqb (SSome k) (s_lif so) = false).
      { apply (no_early_stop so n b r k Hlif). destruct (br b) as [rv|].
        - destruct Hdom as [_ [A [_ C]]]. split; [lia | exact C].
        - apply Hdom. }
      rewrite Hnostop.
      rewrite (tail_spec_shift so k f (g :: fs') (Bound b :: r) Hall), fprepend_nil.
      apply IH; try assumption; try lia; try discriminate.
      replace (k + 1 - 1 + Z.of_nat (length (g :: fs'))) with n by (rewrite Hn; cbn [length]; lia).
      destruct (br b) as [rv|]; [|exact Hdom]. destruct Hdom as [A [B [C D]]]. repeat split; try assumption; lia.
  - (* field k belongs to the head bound (it is present: left_of b <= k <= n) *)
    assert (Hpre := pre_eq b k Hl Hinside).
    destruct (br b) as [rv|] eqn:Ebr.
    + destruct Hdom as [Hkr [Hlr [Hpres Hasc]]].
      assert (Hrvn : rv <= n) by (destruct Hpres as [H|H]; [exact H | lia]).
      assert (Hm : matches b k = Some true).
      { rewrite Hmatch by exact Hlr.
        apply f_equal. apply andb_true_iff. split; apply Z.leb_le; lia. }
      cbn [stream_fields]. rewrite (stream_field_rule so b r k f Hm). rewrite Hpre, Ebr. cbn [fst snd].
      change (side_eqb (SSome rv) (SSome k)) with (rv =? k).
      destruct (Z.eqb_spec rv k) as [->|Hne2].
      * (* the range ends with this field *)
        assert (Hpl : piece_from so k (f :: fs) b = Some ((if left_of b <? k then [sdelim so] else []) ++ f)).
        { apply piece_last; [exact Hl | exact Hinside | rewrite Ebr; reflexivity | fold n; lia]. }
        cbn [tail_spec]. rewrite Hpl.
        assert (Hafter : all_after k r) by (eapply asc_all_after; [exact Hasc | lia]).
        destruct fs as [|g fs'].
        -- (* and it is the last field of the record *)
           unfold finish.
           assert (Hall' : all_after (k - 1 + Z.of_nat (length [f])) r).
           { cbn [length]. replace (k - 1 + Z.of_nat 1) with k by lia. exact Hafter. }
           pose proof (pff_absent so k [f] r Hk ltac:(discriminate) Hall') as Hp.
           cbn [length] in Hp. replace (k - 1 + Z.of_nat 1) with k in Hp by lia. rewrite Hp.
           unfold sep_b. destruct (tail_spec so k [f] r); cbn [option_map done_res fprepend];
             [rewrite <- !app_assoc|]; reflexivity.
        -- destruct (side_eqb (SSome k) (s_lif so)) eqn:Estop.
           ++ (* early stop: nothing but fillers can be left *)
              assert (Hnb : no_bounds r).
              { unfold no_bounds. destruct (bounds_only r) as [|q qs] eqn:Eq; [reflexivity|]. exfalso.
                rewrite Hlif, last_bound_r_cons_bound, Eq in Estop.
                assert (Hq : bounds_only r <> []) by (rewrite Eq; discriminate).
                pose proof (asc_last_after n r k Hasc Hq) as G.
                destruct (last_bound_r r) as [v|]; [|discriminate]. cbn in Estop. apply Z.eqb_eq in Estop. lia. }
              unfold finish. rewrite (pff_no_bounds so r k k (f :: g :: fs') Hnb).
              unfold sep_b. destruct (tail_spec so k (f :: g :: fs') r); cbn [option_map done_res fprepend];
                [rewrite <- !app_assoc|]; reflexivity.
           ++ (* the next bound lies ahead *)
              assert (Hq : bounds_only r <> []).
              { intros Eq. rewrite Hlif, last_bound_r_cons_bound, Eq, Ebr in Estop. cbn in Estop.
                rewrite Z.eqb_refl in Estop. discriminate. }
              rewrite (tail_spec_shift so k f (g :: fs') r Hafter).
              assert (Hn' : k + 1 - 1 + Z.of_nat (length (g :: fs')) = n) by (rewrite Hn; cbn [length]; lia).
              assert (Hlif' : s_lif so = last_bound_r r).
              { rewrite Hlif, last_bound_r_cons_bound. destruct (bounds_only r); [contradiction | reflexivity]. }
              destruct (pending_shape r Hnaf Hq) as [[b' [r' ->]]|[f0 [b' [r' ->]]]].
              ** cbn [asc] in Hasc. destruct Hasc as [A1 [A2 A3]].
                 rewrite (IH (k + 1) b' r' ltac:(lia) ltac:(discriminate) A2).
                 --- unfold sep_b. destruct (tail_spec so (k + 1) (g :: fs') (Bound b' :: r'));
                       cbn [option_map done_res fprepend]; [rewrite <- !app_assoc|]; reflexivity.
                 --- rewrite Hn'. destruct (br b') as [rv'|]; [|exact A3].
                     destruct A3 as [B1 [B2 B3]]. repeat split; try assumption; lia.
                 --- exact Hlif'.
                 --- exact (naf_tail _ _ Hnaf).
              ** cbn [asc] in Hasc. destruct Hasc as [A1 [A2 A3]].
                 rewrite stream_fields_filler.
                 rewrite (IH (k + 1) b' r' ltac:(lia) ltac:(discriminate) A2).
                 --- cbn [tail_spec]. unfold sep_b.
                     destruct (piece_from so (k + 1) (g :: fs') b'); cbn [option_map done_res fprepend]; [|reflexivity].
                     destruct (tail_spec so (k + 1) (g :: fs') r'); cbn [option_map done_res fprepend];
                       [rewrite <- !app_assoc|]; reflexivity.
                 --- rewrite Hn'. destruct (br b') as [rv'|]; [|exact A3].
                     destruct A3 as [B1 [B2 B3]]. repeat split; try assumption; lia.
                 --- rewrite Hlif'. apply last_bound_r_filler.
                 --- exact (naf_tail _ _ (naf_tail _ _ Hnaf)).
      * (* the range goes on: there must be another field *)
        assert (Hlt : k < rv) by lia.
        destruct fs as [|g fs']; [cbn [length] in Hn; lia|].
        assert (Hnostop : side_eqb (SSome k) (s_lif so) = false).
        { apply (no_early_stop so n b r k Hlif). rewrite Ebr. split; [exact Hlt | exact Hasc]. }
        rewrite Hnostop.
        destruct (piece_step so k f g fs' b rv Hl Hinside ltac:(rewrite Ebr; reflexivity) Hlt ltac:(fold n; lia))
          as [p' [Hp1 Hp2]].
        assert (Hafter : all_after k r) by (eapply asc_all_after; [exact Hasc | lia]).
        cbn [tail_spec]. rewrite Hp2, (tail_spec_shift so k f (g :: fs') r Hafter).
        assert (Hn' : k + 1 - 1 + Z.of_nat (length (g :: fs')) = n) by (rewrite Hn; cbn [length]; lia).
        rewrite (IH (k + 1) b r ltac:(lia) ltac:(discriminate) Hl).
        -- cbn [tail_spec]. rewrite Hp1.
           destruct (tail_spec so (k + 1) (g :: fs') r); cbn [option_map done_res fprepend];
             [rewrite <- !app_assoc|]; reflexivity.
        -- rewrite Ebr, Hn'. repeat split; try assumption; lia.
        -- exact Hlif.
        -- exact Hnaf.
    + (* an open range: it runs to the end of the record *)
      destruct Hdom as [Hlast Hnb].
      assert (Hm : matches b k = Some true).
      { rewrite Hmatch by exact I. apply f_equal. apply Z.leb_le. lia. }
      cbn [stream_fields]. rewrite (stream_field_rule so b r k f Hm). rewrite Hpre, Ebr. cbn [fst snd].
      change (side_eqb SCont (SSome k)) with false. cbv iota. rewrite app_nil_r.
      assert (Hsep : sep_b so b = []) by (unfold sep_b; rewrite Hlast, andb_false_r; reflexivity).
      destruct fs as [|g fs'].
      * unfold finish. cbn [pff]. 
        assert (Hst : match bl b with SCont => true | SSome l => l <=? k end = true).
        { unfold left_of in Hinside. destruct (bl b) as [l|]; [apply Z.leb_le; lia | reflexivity]. }
        rewrite Hst, Ebr. cbn [andb side_eqb].
        rewrite (pff_no_bounds so r k k [f] Hnb).
        assert (Hpl : piece_from so k [f] b = Some ((if left_of b <? k then [sdelim so] else []) ++ f)).
        { apply piece_last; [exact Hl | exact Hinside | rewrite Ebr; cbn [length]; lia | cbn [length]; lia]. }
        cbn [tail_spec]. rewrite Hpl, Hsep.
        destruct (tail_spec so k [f] r); cbn [option_map done_res fprepend app]; [rewrite <- !app_assoc|]; reflexivity.
      * assert (Hnostop : side_eqb (SSome k) (s_lif so) = false).
        { apply (no_early_stop so n b r k Hlif). rewrite Ebr. exact Hnb. }
        rewrite Hnostop.
        destruct (piece_step so k f g fs' b n Hl Hinside ltac:(rewrite Ebr; reflexivity) ltac:(rewrite Hn; cbn [length]; lia)
                    ltac:(fold n; lia)) as [p' [Hp1 Hp2]].
        assert (Hafter : all_after k r) by (apply no_bounds_all_after, Hnb).
        cbn [tail_spec]. rewrite Hp2, (tail_spec_shift so k f (g :: fs') r Hafter).
        rewrite (IH (k + 1) b r ltac:(lia) ltac:(discriminate) Hl).
        -- cbn [tail_spec]. rewrite Hp1.
           destruct (tail_spec so (k + 1) (g :: fs') r); cbn [option_map done_res fprepend];
             [rewrite <- !app_assoc|]; reflexivity.
        -- rewrite Ebr. split; assumption.
        -- exact Hlif.
        -- exact Hnaf.
Qed.

(** ------------------------------------------------------------------
    Part C: the specified remainder, taken from field 1, is what the general path prints. *)

Lemma try_into_range_present b n :
  0 < left_of b -> left_of b <= Z.of_nat n ->
  (match br b with SSome rv => left_of b <= rv /\ rv <= Z.of_nat n | SCont => True end) ->
  try_into_range b n
  = Some (Z.to_nat (left_of b - 1),
          Z.to_nat (match br b with SSome rv => rv | SCont => Z.of_nat n end)).
Proof.
  intros Hl Hln Hr. unfold try_into_range, left_of in *.
  assert (HL : resolve_left (bl b) (Z.of_nat n) = Some (match bl b with SSome l => l - 1 | SCont => 0 end)).
  { destruct (bl b) as [l|]; cbn [resolve_left]; [|reflexivity].
    destruct (Z.of_nat n <? l) eqn:A; [apply Z.ltb_lt in A; lia|].
    destruct (l <? - Z.of_nat n) eqn:B; [apply Z.ltb_lt in B; lia|]. cbn [orb].
    destruct (l <? 0) eqn:C; [apply Z.ltb_lt in C; lia | reflexivity]. }
  rewrite HL.
  destruct (br b) as [rv|]; cbn [resolve_right].
  - destruct Hr as [R1 R2].
    destruct (Z.of_nat n <? rv) eqn:A; [apply Z.ltb_lt in A; lia|].
    destruct (rv <? - Z.of_nat n) eqn:B; [apply Z.ltb_lt in B; destruct (bl b); lia|]. cbn [orb].
    destruct (rv <? 0) eqn:C; [apply Z.ltb_lt in C; destruct (bl b); lia|].
    destruct (bl b) as [l|].
    + destruct (rv <=? l - 1) eqn:D; [apply Z.leb_le in D; lia | reflexivity].
    + destruct (rv <=? 0) eqn:D; [apply Z.leb_le in D; lia | reflexivity].
  - destruct (bl b) as [l|].
    + destruct (Z.of_nat n <=? l - 1) eqn:D; [apply Z.leb_le in D; lia | reflexivity].
    + destruct (Z.of_nat n <=? 0) eqn:D; [apply Z.leb_le in D; lia | reflexivity].
Qed.

Lemma try_into_range_absent b n : (0 < n)%nat -> Z.of_nat n < left_of b -> try_into_range b n = None.
Proof.
  intros Hn H. unfold try_into_range, left_of in *. destruct (bl b) as [l|]; [|lia].
  cbn [resolve_left]. destruct (Z.of_nat n <? l) eqn:A; [reflexivity | apply Z.ltb_ge in A; lia].
Qed.

Theorem tail_spec_is_spec_items so F : F <> [] -> forall its lo,
  asc lo (Z.of_nat (length F)) its -> 0 <= lo ->
  tail_spec so 1 F its = spec_items F (s_fallback so) (s_join so) [sdelim so] its.
Proof.
  intros HF. induction its as [|x its IH]; intros lo Ha Hlo; [reflexivity|].
  destruct x as [b|f]; cbn [asc tail_spec spec_items] in *.
  - destruct Ha as [A1 [A2 A3]]. unfold piece_from.
    replace (1 - 1 + Z.of_nat (length F)) with (Z.of_nat (length F)) by lia.
    assert (Hrest : tail_spec so 1 F its = spec_items F (s_fallback so) (s_join so) [sdelim so] its).
    { destruct (br b) as [rv|].
      - destruct A3 as [B1 [_ C]]. apply (IH rv C). lia.
      - destruct A3 as [_ Hnb]. clear - Hnb. induction its as [|y its IHi]; [reflexivity|].
        destruct y as [b'|g]; [discriminate|]. cbn [tail_spec spec_items]. rewrite IHi by exact Hnb. reflexivity. }
    rewrite Hrest.
    destruct (left_of b <=? Z.of_nat (length F)) eqn:Epres.
    + apply Z.leb_le in Epres.
      destruct (left_of b <? 1) eqn:E1; [apply Z.ltb_lt in E1; lia|].
      rewrite try_into_range_present; [| exact A2 | exact Epres |].
      2:{ destruct (br b) as [rv|]; [|exact I]. destruct A3 as [B1 [[B2|B2] _]]; lia. }
      unfold sep_b.
      replace (Z.to_nat (match br b with SSome rv => rv | SCont => Z.of_nat (length F) end) - Z.to_nat (left_of b - 1))%nat
        with (Z.to_nat (match br b with SSome r => r | SCont => Z.of_nat (length F) end - left_of b + 1)).
      2:{ destruct (br b) as [rv|]; [destruct A3 as [B1 _]|]; lia. }
      replace (Z.to_nat (left_of b - 1)) with (Z.to_nat (left_of b - 1)) by reflexivity.
      destruct (spec_items F (s_fallback so) (s_join so) [sdelim so] its); reflexivity.
    + apply Z.leb_gt in Epres. rewrite try_into_range_absent; [| destruct F; [contradiction | cbn; lia] | exact Epres].
      unfold sep_b. destruct (fallback_for b (s_fallback so)); [|reflexivity].
      destruct (spec_items F (s_fallback so) (s_join so) [sdelim so] its); reflexivity.
  - rewrite (IH lo Ha Hlo). reflexivity.
Qed.

(** ------------------------------------------------------------------
    Assembly: one record through -M equals the same record through the general path. *)

Lemma intercalate_split_on d : forall l, intercalate [d] (split_on d l) = l.
Proof.
  induction l as [|x l IH]; [reflexivity|]. cbn [split_on].
  destruct (N.eqb_spec x d) as [->|Hne].
  - rewrite intercalate_cons by apply split_on_ne. rewrite IH. reflexivity.
  - destruct (split_on d l) as [|p ps] eqn:E; [exfalso; exact (split_on_ne _ _ E)|].
    destruct ps as [|q qs]; cbn [intercalate] in *; rewrite <- IH; reflexivity.
Qed.

Lemma split_on_bfree c d : forall l, bfree c l -> Forall (bfree c) (split_on d l).
Proof.
  induction l as [|x l IH]; intros H; [repeat constructor|].
  inversion H as [|? ? Hx Hl]; subst. specialize (IH Hl). cbn [split_on].
  destruct (N.eqb x d); [constructor; [constructor | exact IH]|].
  destruct (split_on d l) as [|p ps]; [repeat constructor; exact Hx|].
  inversion IH as [|? ? Hp Hps]; subst. constructor; [constructor; assumption | exact Hps].
Qed.

Lemma stream_opt_view o so :
  stream_opt o = Some so ->
  o_delim o = [s_delim so] /\ [sdelim so] = rep_of o (s_delim so) /\ s_join so = o_join o
  /\ s_fallback so = o_fallback o /\ s_items so = items (o_bounds o)
  /\ s_lif so = last_bound_r (items (o_bounds o)) /\ s_eol so = o_eol o
  /\ plain_opts o (s_delim so) /\ o_trim o = None /\ o_only_delimited o = false.
Proof.
  unfold stream_opt. destruct (o_delim o) as [|d [|]] eqn:Ed; try discriminate.
  destruct (o_complement o) eqn:E1; [discriminate|]. destruct (o_greedy o) eqn:E2; [discriminate|].
  destruct (o_compress o) eqn:E3; [discriminate|]. destruct (o_json o) eqn:E4; [discriminate|].
  destruct (o_btype o) eqn:E5; try discriminate. cbn [btype_eqb negb orb].
  destruct (o_replace o) as [[|r [|]]|] eqn:E6; try discriminate;
    (destruct (o_trim o) eqn:E7; [discriminate|]); (destruct (o_regex o) eqn:E8; [discriminate|]);
    (destruct (o_only_delimited o) eqn:E9; [discriminate|]); cbn [orb];
    (destruct (forward_bounds_ok (items (o_bounds o))); [|discriminate]);
    intros H; injection H as <-; cbn [s_delim s_repl s_join s_fallback s_items s_lif s_eol];
    unfold sdelim, rep_of, plain_opts; cbn [s_repl s_delim]; rewrite ?E6, ?Ed, ?E5;
    repeat split; try reflexivity; assumption.
Qed.

(** C03, one record: with ascending bounds whose closed ranges are wholly present or wholly
    absent on this record, -M prints exactly what the general path prints (and fails exactly
    when it fails) *)
Theorem C03_record o so r rest cs :
  stream_opt o = Some so ->
  Forall item_nz (items (o_bounds o)) ->
  no_adjacent_fillers (items (o_bounds o)) -> bounds_only (items (o_bounds o)) <> [] ->
  r <> [] -> bfree (s_eol so) r ->
  asc 0 (Z.of_nat (length (split_on (s_delim so) r))) (items (o_bounds o)) ->
  rec_chunks so (Normal (s_items so) 1 false) false ((r ++ s_eol so :: rest) :: cs) []
  = match cut_str o r with
    | Some (ROk x) => RRecord x (push_rest rest cs)
    | _ => RFail
    end.
Proof.
  intros Hso Hnz Hnaf Hb Hr He Hasc.
  destruct (stream_opt_view o so Hso) as [Hd [Hrep [Hj [Hf [Hi [Hlif [Heol [Hpl [Ht Hs]]]]]]]]].
  set (d := s_delim so) in *. set (F := split_on d r) in *.
  assert (HF : F <> []) by apply split_on_ne.
  (* when the delimiter is the terminator itself, a record has a single field *)
  assert (Hde : (1 < length F)%nat -> N.eqb d (s_eol so) = false).
  { intros Hlen. destruct (N.eqb d (s_eol so)) eqn:E; [|reflexivity]. exfalso.
    apply N.eqb_eq in E. unfold F in Hlen. rewrite (split_on_dfree_one d r) in Hlen; [cbn in Hlen; lia|].
    unfold dfree. rewrite E. exact He. }
  rewrite (general_plain_record o d r Hpl Ht Hs Hr Hnz).
  rewrite <- Hrep, <- Hj, <- Hf. fold F.
  rewrite <- (tail_spec_is_spec_items so F HF (items (o_bounds o)) 0 Hasc ltac:(lia)).
  (* the -M side *)
  transitivity (match stream_fields so (s_items so) 1 F with
                | FDone x => RRecord ([] ++ x) (push_rest rest cs)
                | FErr => RFail
                end).
  { pose proof (intercalate_split_on d r) as Hir. fold F in Hir. rewrite <- Hir at 1.
    apply rec_chunks_record.
    - exact HF.
    - apply split_on_dfree.
    - apply split_on_bfree, He.
    - exact Hde.
    - lia.
    - intros _ E. apply Hr. rewrite <- Hir, E. reflexivity. }
  rewrite Hi. cbn [app].
  destruct (pending_shape _ Hnaf Hb) as [[b [r' E]]|[f0 [b [r' E]]]]; rewrite E in *.
  - cbn [asc] in Hasc. destruct Hasc as [A1 [A2 A3]].
    rewrite (stream_fields_spec so F 1 b r' ltac:(lia) HF A2).
    + rewrite <- Heol. destruct (tail_spec so 1 F (Bound b :: r')); reflexivity.
    + replace (1 - 1 + Z.of_nat (length F)) with (Z.of_nat (length F)) by lia.
      destruct (br b) as [rv|]; [|exact A3]. destruct A3 as [B1 [B2 B3]]. repeat split; try assumption; lia.
    + rewrite Hlif. reflexivity.
    + exact (naf_tail _ _ Hnaf).
  - cbn [asc] in Hasc. destruct Hasc as [A1 [A2 A3]].
    rewrite stream_fields_filler.
    rewrite (stream_fields_spec so F 1 b r' ltac:(lia) HF A2).
    + rewrite <- Heol. cbn [tail_spec].
      destruct (piece_from so 1 F b); cbn [option_map done_res fprepend]; [|reflexivity].
      destruct (tail_spec so 1 F r'); cbn [option_map done_res fprepend]; [rewrite <- !app_assoc|]; reflexivity.
    + replace (1 - 1 + Z.of_nat (length F)) with (Z.of_nat (length F)) by lia.
      destruct (br b) as [rv|]; [|exact A3]. destruct A3 as [B1 [B2 B3]]. repeat split; try assumption; lia.
    + rewrite Hlif. apply last_bound_r_filler.
    + exact (naf_tail _ _ (naf_tail _ _ Hnaf)).
Qed.

(** ------------------------------------------------------------------
    A final record without EOL behaves as if it were terminated. *)

Lemma scan_no_eol so : forall c its curr trunc p out,
  bfree (s_eol so) c ->
  match scan_chunk so its curr trunc p c out with
  | RecordEnd _ _ => False
  | SkipFrom _ rest => bfree (s_eol so) rest
  | ChunkEnd _ _ curr' trunc' =>
      (* either some text of the current field is pending, or a delimiter was the last byte *)
      (c <> [] -> trunc' = true \/ curr < curr') /\ curr <= curr'
  | ScanErr => True
  end.
Proof.
  induction c as [|x c IH]; intros its curr trunc p out Hf; cbn [scan_chunk].
  - destruct p as [|y p'].
    + split; [intros H; contradiction | lia].
    + destruct (print_bof so its curr (rev (y :: p')) trunc false). split; [intros _; left; reflexivity | lia].
  - inversion Hf as [|? ? Hx Hc]; subst. rewrite Hx.
    destruct (N.eqb x (s_delim so)).
    + destruct (print_bof so its curr (rev p) trunc true) as [o its'].
      destruct (side_eqb (SSome curr) (s_lif so)).
      * destruct (pff so its' curr); [exact Hc | exact I].
      * specialize (IH its' (curr + 1) false [] (out ++ o) Hc).
        destruct (scan_chunk so its' (curr + 1) false [] c (out ++ o)) as [o2 i2 c2 t2| | |]; try exact IH.
        destruct IH as [_ I2]. split; [intros _; right; lia | lia].
    + specialize (IH its curr trunc (x :: p) out Hc).
      destruct (scan_chunk so its curr trunc (x :: p) c out) as [o2 i2 c2 t2| | |] eqn:E; try exact IH.
      destruct IH as [I1 I2]. split; [|exact I2]. intros _.
      destruct c as [|y c'].
      * cbn [scan_chunk] in E. destruct (print_bof so its curr (rev (x :: p)) trunc false).
        injection E as _ _ _ <-. left; reflexivity.
      * apply I1. discriminate.
Qed.

Lemma after_eol_none eol l : bfree eol l -> after_eol eol l = None.
Proof.
  induction l as [|x l IH]; intros H; [reflexivity|]. inversion H as [|? ? Hx Hl]; subst.
  cbn [after_eol]. rewrite Hx. apply IH, Hl.
Qed.

Lemma after_eol_snoc eol l : bfree eol l -> after_eol eol (l ++ [eol]) = Some [].
Proof.
  induction l as [|x l IH]; intros H; cbn [app after_eol].
  - rewrite N.eqb_refl. reflexivity.
  - inversion H as [|? ? Hx Hl]; subst. rewrite Hx. apply IH, Hl.
Qed.

Theorem last_record_without_eol so r its curr out started :
  r <> [] -> bfree (s_eol so) r -> no_adjacent_fillers its -> 1 <= curr ->
  rec_chunks so (Normal its curr false) started [r] out
  = match rec_chunks so (Normal its curr false) started [r ++ [s_eol so]] out with
    | RRecord x _ => RLast x
    | other => other
    end.
Proof.
  intros Hr Hf Hn Hc.
  destruct r as [|c0 r0]; [contradiction|]. set (r := c0 :: r0) in *.
  assert (Hr1 : r ++ [s_eol so] <> []) by (destruct r; discriminate).
  change (rec_chunks so (Normal its curr false) started [r] out)
    with (match scan_chunk so its curr false [] r out with
          | ChunkEnd out' its' curr' trunc' => rec_chunks so (Normal its' curr' trunc') true [] out'
          | RecordEnd out' rest => RRecord out' (push_rest rest [])
          | SkipFrom out' rest =>
              match after_eol (s_eol so) rest with
              | Some rest' => RRecord (out' ++ [s_eol so]) (push_rest rest' [])
              | None => rec_chunks so Skipping true [] out'
              end
          | ScanErr => RFail
          end).
  destruct (r ++ [s_eol so]) as [|c1 r1] eqn:E1; [contradiction|].
  cbn [rec_chunks]. rewrite <- E1. rewrite (scan_app so [s_eol so] r its curr false [] out Hn).
  pose proof (scan_no_eol so r its curr false [] out Hf) as Hs.
  destruct (scan_chunk so its curr false [] r out) as [o1 i1 c1' t1|o1 rest|o1 rest|]; cbn [scan_then].
  - (* the record ran to the end of input *)
    destruct Hs as [Hs1 Hs2]. specialize (Hs1 ltac:(discriminate)).
    cbn [scan_chunk rec_chunks]. rewrite N.eqb_refl.
    assert (Hnot : (c1' =? 1) && negb t1 && true = false).
    { destruct Hs1 as [->|Hlt]; [rewrite andb_false_r; reflexivity|].
      destruct (Z.eqb_spec c1' 1); [lia | reflexivity]. }
    rewrite Hnot. cbn [rev].
    destruct (print_bof so i1 c1' [] t1 true) as [o its'].
    destruct (pff so its' c1'); reflexivity.
  - contradiction.
  - rewrite (after_eol_none _ _ Hs), (after_eol_snoc _ _ Hs). reflexivity.
  - reflexivity.
Qed.

(** ------------------------------------------------------------------
    Whole inputs. *)

Lemma first_record eol : forall l : bytes,
  bfree eol l \/ exists r rest, l = r ++ eol :: rest /\ bfree eol r.
Proof.
  induction l as [|x l IH]; [left; constructor|].
  destruct (N.eqb x eol) eqn:E.
  - right. exists [], l. apply N.eqb_eq in E. subst x. split; [reflexivity | constructor].
  - destruct IH as [H|[r [rest [-> H]]]].
    + left. constructor; assumption.
    + right. exists (x :: r), rest. split; [reflexivity | constructor; assumption].
Qed.

Lemma records_aux_first eol : forall r cur rest,
  bfree eol r -> records_aux eol cur (r ++ eol :: rest) = (rev cur ++ r) :: records_aux eol [] rest.
Proof.
  induction r as [|x r IH]; intros cur rest H; cbn [app records_aux].
  - rewrite N.eqb_refl, app_nil_r. reflexivity.
  - inversion H as [|? ? Hx Hr]; subst. rewrite Hx, (IH (x :: cur) rest Hr). cbn [rev].
    rewrite <- app_assoc. reflexivity.
Qed.

Lemma records_first eol r rest : bfree eol r -> records eol (r ++ eol :: rest) = r :: records eol rest.
Proof. intros H. unfold records. rewrite records_aux_first by exact H. reflexivity. Qed.

Lemma records_aux_last eol : forall r cur, bfree eol r ->
  records_aux eol cur r = match rev cur ++ r with [] => [] | x => [x] end.
Proof.
  induction r as [|x r IH]; intros cur H; cbn [records_aux].
  - rewrite app_nil_r. destruct cur as [|c cur]; [reflexivity|].
    destruct (rev (c :: cur)) eqn:E; [|reflexivity].
    apply (f_equal (@rev _)) in E. rewrite rev_involutive in E. discriminate.
  - inversion H as [|? ? Hx Hr]; subst. rewrite Hx, (IH (x :: cur) Hr). cbn [rev]. rewrite <- app_assoc. reflexivity.
Qed.

Lemma records_last eol r : bfree eol r -> r <> [] -> records eol r = [r].
Proof.
  intros H Hr. unfold records. rewrite records_aux_last by exact H. cbn [rev app].
  destruct r; [contradiction | reflexivity].
Qed.

Definition record_ok (so : sopt) (its : list bof) (r : bytes) : Prop :=
  r = [] \/ asc 0 (Z.of_nat (length (split_on (s_delim so) r))) its.

(** C03: on every input whose records keep each requested range wholly present or wholly
    absent, -M gives exactly the stdout, the status and the completed records of the same
    invocation without -M (empty records, empty fields, a final record without EOL included) *)
Theorem C03_whole_input o so :
  stream_opt o = Some so ->
  Forall item_nz (items (o_bounds o)) ->
  no_adjacent_fillers (items (o_bounds o)) -> bounds_only (items (o_bounds o)) <> [] ->
  forall fuel input acc,
    (length input < fuel)%nat ->
    Forall (record_ok so (items (o_bounds o))) (records (s_eol so) input) ->
    Some (run_stream_fuel fuel so (push_rest input []) acc)
    = run_records (cut_str o) (records (s_eol so) input) acc.
Proof.
  intros Hso Hnz Hnaf Hb.
  destruct (stream_opt_view o so Hso) as [Hd [Hrep [Hj [Hf [Hi [Hlif [Heol [Hpl [Ht Hs]]]]]]]]].
  assert (Hplain : forall r, r <> [] -> exists y, cut_str o r = Some y /\ (y = RErr \/ exists x, y = ROk x)).
  { intros r Hr. rewrite (general_plain_record o (s_delim so) r Hpl Ht Hs Hr Hnz).
    destruct (spec_items _ _ _ _ _); eexists; split; try reflexivity; [right; eexists; reflexivity | left; reflexivity]. }
  assert (Hempty : cut_str o [] = Some (ROk [s_eol so])).
  { rewrite Heol. apply general_empty_record; [exact Hs | exact Ht | left; apply Hpl]. }
  induction fuel as [|fuel IH]; intros input acc Hlen Hok; [lia|].
  cbn [run_stream_fuel].
  destruct (first_record (s_eol so) input) as [Hfree|[r [rest [-> Hfree]]]].
  - destruct input as [|c0 i0].
    + reflexivity.
    + (* a single, unterminated record *)
      set (r := c0 :: i0) in *. assert (Hr : r <> []) by discriminate.
      rewrite (records_last _ r Hfree Hr) in *. inversion Hok as [|? ? Hok1 _]; subst.
      destruct Hok1 as [E|Hasc]; [contradiction|].
      replace (push_rest r []) with [r] by reflexivity.
      rewrite (last_record_without_eol so r (s_items so) 1 [] false Hr Hfree ltac:(rewrite Hi; exact Hnaf) ltac:(lia)).
      pose proof (C03_record o so r [] [] Hso Hnz Hnaf Hb Hr Hfree Hasc) as HR.
      cbn [app] in HR. change (r ++ [s_eol so]) with (r ++ s_eol so :: []). rewrite HR.
      cbn [run_records]. destruct (Hplain r Hr) as [y [Ey [->|[x ->]]]]; rewrite Ey; reflexivity.
  - pose proof (records_first (s_eol so) r rest Hfree) as Hrf.
    assert (Hok' : Forall (record_ok so (items (o_bounds o))) (r :: records (s_eol so) rest))
      by exact (eq_ind _ (Forall (record_ok so (items (o_bounds o)))) Hok _ Hrf).
    match goal with |- ?lhs = _ =>
      cut (lhs = run_records (cut_str o) (r :: records (s_eol so) rest) acc);
        [intros Hcut; rewrite Hcut; exact (f_equal (fun l => run_records (cut_str o) l acc) (eq_sym Hrf))|]
    end.
    clear Hok. inversion Hok' as [|? ? Hok1 Hok2]; subst.
    assert (Hlen' : (length rest < fuel)%nat) by (rewrite app_length in Hlen; cbn [length] in Hlen; lia).
    assert (Hpr : push_rest (r ++ s_eol so :: rest) [] = [r ++ s_eol so :: rest]) by (destruct r; reflexivity).
    rewrite Hpr. destruct r as [|c0 r0].
    + (* an empty record *)
      cbn [app]. rewrite (stream_empty_record so rest). cbn [run_records]. rewrite Hempty.
      apply IH; assumption.
    + set (r := c0 :: r0) in *. assert (Hr : r <> []) by discriminate.
      destruct Hok1 as [E|Hasc]; [discriminate|].
      rewrite (C03_record o so r rest [] Hso Hnz Hnaf Hb Hr Hfree Hasc).
      cbn [run_records]. destruct (Hplain r Hr) as [y [Ey [->|[x ->]]]]; rewrite Ey; [reflexivity|].
      cbn [app]. apply IH; assumption.
Qed.

Corollary C03_run o so input :
  stream_opt o = Some so ->
  Forall item_nz (items (o_bounds o)) ->
  no_adjacent_fillers (items (o_bounds o)) -> bounds_only (items (o_bounds o)) <> [] ->
  Forall (record_ok so (items (o_bounds o))) (records (s_eol so) input) ->
  Some (run_stream_whole so input) = read_and_cut_str o input.
Proof.
  intros Hso Hnz Hnaf Hb Hok. unfold run_stream_whole, run_stream, read_and_cut_str.
  destruct (stream_opt_view o so Hso) as [_ [_ [_ [_ [_ [_ [Heol _]]]]]]]. rewrite <- Heol.
  apply (C03_whole_input o so Hso Hnz Hnaf Hb); [|exact Hok].
  unfold total_len, push_rest. destruct input; cbn; lia.
Qed.

(** ------------------------------------------------------------------
    The static part of the domain follows from what -M accepts: only "every closed range is
    wholly present or wholly absent on this record" is a condition on the input. *)

Definition no_straddle (n : Z) (its : list bof) : Prop :=
  Forall (fun b => match br b with SSome rv => rv <= n \/ n < left_of b | SCont => True end) (bounds_only its).

Definition closed_ordered (b : ubound) : Prop :=
  match bl b, br b with SSome l, SSome r => l <= r | _, _ => True end.

Fixpoint asc_b (lo n : Z) (bs : list ubound) : Prop :=
  match bs with
  | [] => True
  | b :: bs' =>
      lo < left_of b /\ 0 < left_of b
      /\ match br b with
         | SSome rv => left_of b <= rv /\ (rv <= n \/ n < left_of b) /\ asc_b rv n bs'
         | SCont => blast b = true /\ bs' = []
         end
  end.

Lemma asc_of_bounds lo n its : asc_b lo n (bounds_only its) -> asc lo n its.
Proof.
  revert lo; induction its as [|x its IH]; intros lo H; [exact I|].
  destruct x as [b|f]; cbn [bounds_only flat_map app asc] in *; [|apply IH, H].
  fold (bounds_only its) in H. cbn [asc_b] in H. destruct H as [A1 [A2 A3]].
  split; [exact A1|]. split; [exact A2|]. destruct (br b) as [rv|].
  - destruct A3 as [B1 [B2 B3]]. repeat split; try assumption. apply IH, B3.
  - exact A3.
Qed.

Definition pos_side (s : side) : Prop := match s with SSome v => 0 < v | SCont => True end.

Lemma forward_positive its :
  is_forward_only its = true -> Forall item_nz its ->
  Forall (fun b => pos_side (bl b) /\ pos_side (br b)) (bounds_only its).
Proof.
  intros Hf Hnz. unfold is_forward_only in Hf. apply andb_true_iff in Hf. destruct Hf as [_ Hneg].
  apply negb_true_iff in Hneg. unfold has_negative_indices in Hneg.
  apply Forall_forall. intros b Hb.
  assert (Hn : side_neg (bl b) || side_neg (br b) = false).
  { destruct (side_neg (bl b) || side_neg (br b)) eqn:E; [|reflexivity].
    assert (existsb (fun b => side_neg (bl b) || side_neg (br b)) (bounds_only its) = true)
      by (apply existsb_exists; exists b; split; assumption). congruence. }
  apply orb_false_iff in Hn. destruct Hn as [N1 N2].
  apply bounds_only_in in Hb. rewrite Forall_forall in Hnz. specialize (Hnz _ Hb). cbn in Hnz.
  destruct Hnz as [Z1 Z2]. unfold pos_side, side_nz, side_neg in *.
  split; [destruct (bl b) as [v|] | destruct (br b) as [v|]]; try exact I;
    [apply Z.ltb_ge in N1 | apply Z.ltb_ge in N2]; lia.
Qed.

Lemma sorted_strict_asc n : forall bs prev,
  Forall (fun b => pos_side (bl b) /\ pos_side (br b)) (prev :: bs) ->
  Forall closed_ordered bs ->
  Forall (fun b => br b = SCont -> blast b = true) bs ->
  Forall (fun b => match br b with SSome rv => rv <= n \/ n < left_of b | SCont => True end) bs ->
  is_sorted_from prev bs = true ->
  strict_from (br prev) bs = true ->
  match br prev with
  | SSome rp => asc_b rp n bs
  | SCont => bs = []
  end.
Proof.
  induction bs as [|b bs IH]; intros prev Hpos Hord Hlast Hns Hsort Hstrict.
  - destruct (br prev); [exact I | reflexivity].
  - cbn [is_sorted_from strict_from] in *.
    inversion Hpos as [|? ? [Pp1 Pp2] Hpos']; subst. inversion Hpos' as [|? ? [Pb1 Pb2] Hpos'']; subst.
    inversion Hord as [|? ? Ob Hord']; subst. inversion Hlast as [|? ? Lb Hlast']; subst.
    inversion Hns as [|? ? Nb Hns']; subst.
    destruct (bound_le prev b) eqn:Ele; [|discriminate].
    destruct (side_eqb (match bl b with SCont => SSome 1 | s => s end) (br prev)) eqn:Eeq; [discriminate|].
    unfold bound_le in Ele.
    destruct (br prev) as [rp|] eqn:Ep.
    2:{ exfalso. destruct (bl b); cbn in Ele; discriminate. }
    assert (Hlt : rp < left_of b).
    { unfold left_of. cbn [pos_side] in *. destruct (bl b) as [l|]; cbn [side_le side_eqb] in *.
      - apply andb_true_iff in Ele. destruct Ele as [_ Ele]. apply Z.leb_le in Ele.
        apply Z.eqb_neq in Eeq. lia.
      - apply andb_true_iff in Ele. destruct Ele as [_ Ele]. apply Z.leb_le in Ele.
        apply Z.eqb_neq in Eeq. lia. }
    assert (Hl0 : 0 < left_of b) by (unfold left_of; destruct (bl b); cbn [pos_side] in *; lia).
    cbn [asc_b]. split; [exact Hlt|]. split; [exact Hl0|].
    specialize (IH b ltac:(constructor; [split; assumption | exact Hpos'']) Hord' Hlast' Hns' Hsort Hstrict).
    destruct (br b) as [rv|] eqn:Eb.
    + split; [|split; [exact Nb | exact IH]].
      unfold closed_ordered in Ob. rewrite Eb in Ob. unfold left_of.
      destruct (bl b) as [l|]; [exact Ob | cbn [pos_side] in Pb2; lia].
    + split; [apply Lb; reflexivity | exact IH].
Qed.

Theorem static_domain n its :
  forward_bounds_ok its = true -> Forall item_nz its ->
  Forall closed_ordered (bounds_only its) ->
  Forall (fun b => br b = SCont -> blast b = true) (bounds_only its) ->
  no_straddle n its ->
  asc 0 n its.
Proof.
  intros Hfb Hnz Hord Hlast Hns. apply asc_of_bounds.
  unfold forward_bounds_ok in Hfb. destruct its as [|x0 its0]; [discriminate|].
  set (its := x0 :: its0) in *. apply andb_true_iff in Hfb. destruct Hfb as [Hfo Hst].
  pose proof (forward_positive its Hfo Hnz) as Hpos.
  unfold is_forward_only in Hfo. apply andb_true_iff in Hfo. destruct Hfo as [Hfo _].
  apply andb_true_iff in Hfo. destruct Hfo as [_ Hsorted]. unfold is_sorted in Hsorted.
  unfold no_straddle in Hns.
  destruct (bounds_only its) as [|b bs] eqn:Eb; [exact I|].
  inversion Hpos as [|? ? [P1 P2] Hpos']; subst.
  inversion Hord as [|? ? Ob Hord']; subst. inversion Hlast as [|? ? Lb Hlast']; subst.
  inversion Hns as [|? ? Nb Hns']; subst.
  cbn [strict_from] in Hst.
  destruct (side_eqb (match bl b with SCont => SSome 1 | s => s end) (SSome 0)); [discriminate|].
  assert (Hl0 : 0 < left_of b) by (unfold left_of; destruct (bl b); cbn [pos_side] in *; lia).
  pose proof (sorted_strict_asc n bs b Hpos Hord' Hlast' Hns' Hsorted Hst) as IHb.
  cbn [asc_b]. split; [exact Hl0|]. split; [exact Hl0|].
  destruct (br b) as [rv|] eqn:Ebr.
  - split; [|split; [exact Nb | exact IHb]].
    unfold closed_ordered in Ob. rewrite Ebr in Ob. unfold left_of.
    destruct (bl b) as [l|]; [exact Ob | cbn [pos_side] in P2; lia].
  - split; [apply Lb; reflexivity | exact IHb].
Qed.

(** ------------------------------------------------------------------
    ... and the remaining static facts hold for every list built by From<Vec<BoundOrFiller>> *)

Lemma mark_last_bounds : forall l,
  bounds_only (mark_last l)
  = match rev (bounds_only l) with [] => [] | b :: r => rev r ++ [set_last b] end.
Proof.
  induction l as [|x l IH]; [reflexivity|]. destruct x as [b|f]; cbn [mark_last].
  - cbn [bounds_only flat_map app]. fold (bounds_only l).
    destruct (bounds_only l) as [|b' bs'] eqn:E.
    + cbn [bounds_only flat_map app]. fold (bounds_only l). rewrite E. reflexivity.
    + cbn [bounds_only flat_map app]. fold (bounds_only (mark_last l)). rewrite IH.
      cbn [rev]. destruct (rev bs' ++ [b']) as [|z zs] eqn:Ez.
      * destruct (rev bs'); discriminate.
      * cbn [app]. rewrite rev_app_distr. cbn [rev app]. reflexivity.
  - cbn [bounds_only flat_map app]. exact IH.
Qed.

Lemma sorted_open_is_last : forall bs prev,
  is_sorted_from prev bs = true -> br prev = SCont -> bs = [].
Proof.
  intros bs prev H Hp. destruct bs as [|b bs]; [reflexivity|]. cbn [is_sorted_from] in H.
  unfold bound_le in H. rewrite Hp in H. destruct (bl b); cbn in H; discriminate.
Qed.

Lemma sorted_open_blast : forall bs prev,
  is_sorted_from prev bs = true ->
  (forall d, blast (last (prev :: bs) d) = true) ->
  Forall (fun b => br b = SCont -> blast b = true) (prev :: bs).
Proof.
  induction bs as [|b bs IH]; intros prev Hs Hl.
  - constructor; [intros _; exact (Hl prev) | constructor].
  - cbn [is_sorted_from] in Hs. destruct (bound_le prev b) eqn:E; [|discriminate].
    constructor.
    + intros Hp. exfalso. unfold bound_le in E. rewrite Hp in E. destruct (bl b); cbn in E; discriminate.
    + apply IH; [exact Hs |]. intros d. exact (Hl d).
Qed.

Lemma last_app_single {A} (l : list A) x d : last (l ++ [x]) d = x.
Proof. induction l as [|y l IH]; [reflexivity|]. cbn [app]. destruct (l ++ [x]) eqn:E; [destruct l; discriminate|]. exact IH. Qed.

Theorem from_vec_static l0 u :
  from_vec l0 = Some u -> is_sorted (items u) = true ->
  Forall (fun b => br b = SCont -> blast b = true) (bounds_only (items u))
  /\ bounds_only (items u) <> [].
Proof.
  unfold from_vec. destruct (bounds_only l0) as [|b0 bs0] eqn:Eb; [discriminate|].
  intros H; injection H as <-. cbn [items]. intros Hs.
  unfold is_sorted in Hs. rewrite mark_last_bounds, Eb in *.
  destruct (rev (b0 :: bs0)) as [|z zs] eqn:Er.
  { apply (f_equal (@rev _)) in Er. rewrite rev_involutive in Er. discriminate. }
  split; [|destruct (rev zs); discriminate].
  destruct (rev zs ++ [set_last z]) as [|p ps] eqn:Ep; [constructor|].
  apply sorted_open_blast; [exact Hs |].
  intros d. rewrite <- Ep. rewrite last_app_single. reflexivity.
Qed.

Lemma closed_ordered_mark l : Forall closed_ordered (bounds_only l) -> Forall closed_ordered (bounds_only (mark_last l)).
Proof.
  intros H. rewrite mark_last_bounds. destruct (rev (bounds_only l)) as [|z zs] eqn:Er; [constructor|].
  assert (Hall : Forall closed_ordered (z :: zs)).
  { rewrite <- Er. apply Forall_forall. intros x Hx. rewrite Forall_forall in H. apply H, in_rev, Hx. }
  inversion Hall as [|? ? Hz Hzs]; subst. apply Forall_app. split.
  - apply Forall_forall. intros x Hx. rewrite Forall_forall in Hzs. apply Hzs, in_rev, Hx.
  - constructor; [exact Hz | constructor].
Qed.

Lemma parse_bound_closed_ordered s b : parse_bound s = Some b -> pos_side (bl b) -> pos_side (br b) -> closed_ordered b.
Proof.
  intros H P1 P2. destruct (parse_bound_sound s b H) as [_ [_ Hs]].
  unfold closed_ordered. destruct (bl b) as [l|] eqn:E1; destruct (br b) as [r|] eqn:E2; try exact I.
  apply (Hs l r eq_refl eq_refl). cbn in P1, P2. unfold same_sign.
  destruct (0 <? r) eqn:A; [|apply Z.ltb_ge in A; lia]. destruct (0 <? l) eqn:B; [reflexivity | apply Z.ltb_ge in B; lia].
Qed.

Lemma stream_opt_forward o so : stream_opt o = Some so -> forward_bounds_ok (items (o_bounds o)) = true.
Proof.
  unfold stream_opt. destruct (o_delim o) as [|d [|]]; try discriminate.
  match goal with |- (if ?c then _ else _) = _ -> _ => destruct c end; [discriminate|].
  destruct (forward_bounds_ok (items (o_bounds o))); [reflexivity | discriminate].
Qed.

(** C03, as the statement puts it: for every option set -M accepts, every bounds list built
    by the parser, and every input on whose records each closed range is wholly present or
    wholly absent: same stdout, same status, same completed records as without -M *)
Theorem C03_main o so l0 input :
  from_vec l0 = Some (o_bounds o) ->
  Forall item_nz l0 -> Forall closed_ordered (bounds_only l0) -> no_adjacent_fillers l0 ->
  stream_opt o = Some so ->
  Forall (fun r => r = [] \/ no_straddle (Z.of_nat (length (split_on (s_delim so) r))) (items (o_bounds o)))
         (records (s_eol so) input) ->
  Some (run_stream_whole so input) = read_and_cut_str o input.
Proof.
  intros Hfv Hnz Hord Hnaf Hso Hrec.
  pose proof (stream_opt_forward o so Hso) as Hfb.
  assert (Hit : items (o_bounds o) = mark_last l0).
  { unfold from_vec in Hfv. destruct (bounds_only l0); [discriminate|]. injection Hfv as <-. reflexivity. }
  assert (Hnz' : Forall item_nz (items (o_bounds o))) by (rewrite Hit; apply C06_item_nz_mark, Hnz).
  assert (Hord' : Forall closed_ordered (bounds_only (items (o_bounds o)))) by (rewrite Hit; apply closed_ordered_mark, Hord).
  assert (Hnaf' : no_adjacent_fillers (items (o_bounds o))) by (rewrite Hit; apply Proofs.C04Parse.mark_last_naf, Hnaf).
  assert (Hsorted : is_sorted (items (o_bounds o)) = true).
  { unfold forward_bounds_ok in Hfb. destruct (items (o_bounds o)); [discriminate|].
    apply andb_true_iff in Hfb. destruct Hfb as [Hfo _]. unfold is_forward_only in Hfo.
    apply andb_true_iff in Hfo. destruct Hfo as [Hfo _]. apply andb_true_iff in Hfo. apply Hfo. }
  destruct (from_vec_static l0 (o_bounds o) Hfv Hsorted) as [Hlast Hb].
  apply (C03_run o so input Hso Hnz' Hnaf' Hb).
  eapply Forall_impl; [|exact Hrec]. intros r [->|Hns]; [left; reflexivity|]. right.
  apply static_domain; assumption.
Qed.
