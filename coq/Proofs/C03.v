(** C03 (partial): facts relating the fixed-memory path to the line-at-a-time paths.
    The equality of outputs on every record is checked by the correspondence run and the
    pair oracle; proved here: the reference is well defined, chunking is irrelevant (C04),
    an empty record yields an empty record on both, and the end-of-record rule. *)
From TucModel Require Import Base.Bytes Base.ListX Model.Bounds Model.Scan Model.Opt Model.CutBytes
     Model.CutStr Model.FastLane Model.Stream Proofs.C04.
Local Open Scope Z_scope.

(** every option set -M accepts is served, without -M, by the fast lane - or by the general
    path when a (one-byte) replacement is given *)
Theorem stream_reference_path o so :
  stream_opt o = Some so ->
  (o_replace o = None /\ fast_eligible o = true)
  \/ (exists r, o_replace o = Some [r] /\ fast_eligible o = false).
Proof.
  unfold stream_opt, fast_eligible. destruct (o_delim o) as [|d [|]]; try discriminate.
  destruct (o_complement o); [discriminate|]. destruct (o_greedy o); [discriminate|].
  destruct (o_compress o); [discriminate|]. destruct (o_json o); [discriminate|].
  destruct (o_btype o); try discriminate. cbn [btype_eqb negb orb andb length Nat.eqb].
  destruct (o_replace o) as [[|r [|]]|]; try discriminate;
    (destruct (o_trim o); [discriminate|]); (destruct (o_regex o); [discriminate|]);
    (destruct (o_only_delimited o); [discriminate|]); cbn [orb];
    (destruct (forward_bounds_ok (items (o_bounds o))); [|discriminate]); intros _.
  - right. exists r. split; reflexivity.
  - left. split; reflexivity.
Qed.

(** an empty record yields an empty record, as on the other paths *)
Theorem stream_empty_record so rest :
  rec_chunks so (Normal (s_items so) 1 false) false ((s_eol so :: rest) :: []) []
  = RRecord [s_eol so] (push_rest rest []).
Proof. cbn [rec_chunks scan_chunk]. rewrite N.eqb_refl. reflexivity. Qed.

Theorem general_empty_record o :
  o_only_delimited o = false -> o_trim o = None ->
  (o_regex o = None \/ o_replace o <> None \/ (o_compress o = false /\ o_join o = false)) ->
  cut_str o [] = Some (ROk [o_eol o]).
Proof.
  intros Hs Ht Hr. unfold cut_str. rewrite Hs, Ht.
  destruct (o_regex o) as [x|]; destruct (o_replace o) as [nd|]; cbn [andb orb]; try reflexivity.
  destruct Hr as [H|[H|[H1 H2]]]; [discriminate | contradiction | rewrite H1, H2; reflexivity].
Qed.

(** the input of -M may be taken as arriving in one read (C04) *)
Theorem stream_any_chunking so cs :
  no_adjacent_fillers (s_items so) -> chunks_ok cs ->
  run_stream so cs = run_stream_whole so (concat cs).
Proof. apply C04_equals_single_read. Qed.

(** a field that belongs to the pending bound is printed whole, preceded by the delimiter
    inside a range and followed by the join delimiter when it completes a non-last bound;
    a field outside the pending bound prints nothing *)
Theorem stream_field_rule so b its curr piece :
  matches b curr = Some true ->
  print_bof so (Bound b :: its) curr piece false true =
  ((if (1 <? curr) && negb (side_eqb (bl b) (SSome curr)) then [sdelim so] else [])
     ++ piece
     ++ (if side_eqb (br b) (SSome curr) then (if s_join so && negb (blast b) then [sdelim so] else []) else []),
   if side_eqb (br b) (SSome curr) then its else Bound b :: its).
Proof.
  intros Hm. unfold print_bof. rewrite Hm. cbn [negb andb app].
  destruct (side_eqb (br b) (SSome curr)); cbn [andb]; [reflexivity|]. rewrite app_nil_r. reflexivity.
Qed.

Theorem stream_field_outside so b its curr piece :
  matches b curr = Some false ->
  print_bof so (Bound b :: its) curr piece false true = ([], Bound b :: its).
Proof. intros Hm. unfold print_bof. rewrite Hm. reflexivity. Qed.
