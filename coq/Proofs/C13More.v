(** C13, a whole record of the general path: if the record is cut successfully, every
    requested bound that does not resolve on it had a fallback (its own or the generic one),
    also under --complement; otherwise the record fails. *)
From TucModel Require Import Base.Bytes Base.ListX Model.Bounds Model.CutBytes Model.Scan Model.Opt Model.CutStr
     Spec.Resolve Proofs.BoundsFacts Proofs.C06 Proofs.C13 Proofs.C01More.

Lemma out_loop_ok_fallbacks o line fields : forall bs body,
  out_loop o line fields bs = ROk body ->
  forall b, In (Bound b) bs -> try_into_range b (length fields) = None ->
            fallback_for b (o_fallback o) <> None.
Proof.
  induction bs as [|x bs IH]; intros body H b Hin Hnone; [contradiction|].
  destruct x as [b0|f]; cbn [out_loop] in H.
  - destruct Hin as [E|Hin].
    + injection E as ->. rewrite Hnone in H.
      destruct (fallback_for b (o_fallback o)); [discriminate | discriminate].
    + destruct (out_loop o line fields bs) as [r| | |] eqn:Er.
      * apply (IH r eq_refl b Hin Hnone).
      * exfalso. revert H. match goal with |- match ?P with _ => _ end = _ -> _ => destruct P end; discriminate.
      * exfalso. revert H. match goal with |- match ?P with _ => _ end = _ -> _ => destruct P end; discriminate.
      * exfalso. revert H. match goal with |- match ?P with _ => _ end = _ -> _ => destruct P end; discriminate.
  - destruct Hin as [E|Hin]; [discriminate|].
    destruct (out_loop o line fields bs) as [r| | |] eqn:Er; try discriminate.
    apply (IH r eq_refl b Hin Hnone).
Qed.

Definition same_but_flag (b b' : ubound) : Prop := bl b' = bl b /\ br b' = br b /\ bfb b' = bfb b.

Lemma mark_last_in l b : In (Bound b) l -> exists b', In (Bound b') (mark_last l) /\ same_but_flag b b'.
Proof.
  induction l as [|x l IH]; intros H; [contradiction|]. destruct x as [b0|f]; cbn [mark_last].
  - destruct H as [E|H].
    + injection E as ->. destruct (bounds_only l).
      * exists (set_last b). split; [left; reflexivity | repeat split].
      * exists b. split; [left; reflexivity | repeat split].
    + destruct (bounds_only l) eqn:E.
      * exists b. split; [right; exact H | repeat split].
      * destruct (IH H) as [b' [Hin Hs]]. exists b'. split; [right; exact Hin | exact Hs].
  - destruct H as [E|H]; [discriminate|]. destruct (IH H) as [b' [Hin Hs]]. exists b'. split; [right; exact Hin | exact Hs].
Qed.

(** the record was cut (not dropped by -s, not failed): no unresolvable bound was silent *)
Theorem finish_record_never_silent o line fields out :
  Forall item_nz (items (o_bounds o)) ->
  finish_record o line fields = ROk out ->
  (o_only_delimited o && Nat.eqb (length fields) 1 = false) ->
  forall b, In (Bound b) (items (o_bounds o)) -> ~ resolves b (length fields) ->
            fallback_for b (o_fallback o) <> None.
Proof.
  intros Hnz H Hs b Hin Hr. unfold finish_record in H. rewrite Hs in H.
  assert (Hb : bound_nz b).
  { apply (proj1 (Forall_forall _ _) Hnz (Bound b) Hin). }
  pose proof (unresolved_none b _ Hb Hr) as Hnone.
  destruct (o_complement o).
  - destruct (complement_list (items (o_bounds o)) (length fields)) as [u|] eqn:Ec; [|discriminate].
    destruct (out_loop o line fields (items u)) as [body| | |] eqn:Eo; try discriminate.
    (* the bound is still in the complemented list *)
    unfold complement_list in Ec. destruct (bounds_only (complement_items (items (o_bounds o)) (length fields))); [discriminate|].
    unfold from_vec in Ec. destruct (bounds_only (complement_items (items (o_bounds o)) (length fields))) eqn:E2; [discriminate|].
    injection Ec as <-. cbn [items] in *.
    pose proof (C13_complement_keeps _ (length fields) b Hin Hb Hr) as Hk.
    (* mark_last keeps membership up to the is_last flag; try_into_range and the fallback ignore it *)
    destruct (mark_last_in _ b Hk) as [b' [Hin' [S1 [S2 S3]]]].
    assert (Hnone' : try_into_range b' (length fields) = None).
    { unfold try_into_range in *. rewrite S1, S2. exact Hnone. }
    pose proof (out_loop_ok_fallbacks o line fields _ body Eo b' Hin' Hnone') as G.
    unfold fallback_for in *. rewrite S3 in G. exact G.
  - destruct (out_loop o line fields (items (o_bounds o))) as [body| | |] eqn:Eo; try discriminate.
    exact (out_loop_ok_fallbacks o line fields _ body Eo b Hin Hnone).
Qed.

(** through the whole of cut_str (literal delimiter, field mode: trim, -p, -g, -s, -m) *)
Theorem general_record_never_silent o line0 out :
  o_regex o = None -> o_btype o = BFields -> o_json o = false ->
  Forall item_nz (items (o_bounds o)) ->
  cut_str o line0 = Some (ROk out) ->
  let line1 := match o_trim o with Some k => trim_lit k (o_delim o) line0 | None => line0 end in
  let fields := snd (lit_stage o line1) in
  line1 <> [] -> (o_only_delimited o && Nat.eqb (length fields) 1) = false ->
  forall b, In (Bound b) (items (o_bounds o)) -> ~ resolves b (length fields) ->
            fallback_for b (o_fallback o) <> None.
Proof.
  intros Hx Hb Hj Hnz H line1 fields Hne Hs b Hin Hr.
  rewrite (cut_str_literal o line0 Hx Hb Hj) in H. cbv zeta in H. fold line1 in H.
  destruct line1 as [|c l1] eqn:E; [contradiction|]. injection H as H.
  exact (finish_record_never_silent o _ _ out Hnz H Hs b Hin Hr).
Qed.
