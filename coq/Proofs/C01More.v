(** C01, the options that reshape the fields: -g (greedy), -p (compress), -t (trim), -s.
    Everything is stated against [split d line], the leftmost non-overlapping fields of
    the statement ([is_split], Spec/Fields.v). *)
From TucModel Require Import Base.Bytes Base.ListX Model.Scan Spec.Fields Proofs.ScanSplit Proofs.C02 Proofs.C12.

(** a run of delimiters counts as one separator: the empty fields strictly inside the
    record disappear, the first and the last field stay even when empty *)
Fixpoint drop_empty_inner (ps : list bytes) : list bytes :=
  match ps with
  | [] => []
  | [p] => [p]
  | p :: rest => match p with [] => drop_empty_inner rest | _ => p :: drop_empty_inner rest end
  end.

Definition squeeze (ps : list bytes) : list bytes :=
  match ps with
  | [] => []
  | p :: rest => p :: drop_empty_inner rest
  end.

Lemma dei_cons_empty q rest : drop_empty_inner ([] :: q :: rest) = drop_empty_inner (q :: rest).
Proof. reflexivity. Qed.

Lemma dei_cons_nonempty p q rest : p <> [] ->
  drop_empty_inner (p :: q :: rest) = p :: drop_empty_inner (q :: rest).
Proof. intros H. destruct p; [contradiction | reflexivity]. Qed.

Lemma gaps_from_cons start ms len : exists g gs, gaps_from start ms len = g :: gs.
Proof. destruct ms; cbn; eauto. Qed.

Lemma slice_nonempty (line : bytes) a b : a < b -> b <= length line -> slice line a b <> [].
Proof.
  intros H1 H2 E. apply (f_equal (@length _)) in E. unfold slice in E.
  rewrite firstn_length, skipn_length in E. cbn in E. lia.
Qed.

Lemma wf_ms_le ms : forall s len, wf_ms s ms len -> s <= len.
Proof.
  induction ms as [|m ms IH]; intros s len H; cbn in H; [exact H|].
  destruct H as [A [B C]]. apply IH in C. lia.
Qed.

(** ---------- -g : the greedy splitter *)
Lemma merge_from_pieces line : forall ms cur start,
  fst cur <= snd cur -> wf_ms (snd cur) ms (length line) ->
  pieces line (gaps_from start (merge_adjacent_from cur ms) (length line))
  = slice line start (fst cur) :: drop_empty_inner (pieces line (gaps_from (snd cur) ms (length line))).
Proof.
  induction ms as [|m ms IH]; intros cur start Hc Hwf.
  - reflexivity.
  - cbn [merge_adjacent_from]. destruct Hwf as [H1 [H2 H3]].
    destruct (gaps_from_cons (snd m) ms (length line)) as [g [gs Eg]].
    destruct (Nat.eqb_spec (fst m) (snd cur)) as [E|NE].
    + rewrite (IH (fst cur, snd m) start); [|cbn; lia | exact H3]. cbn [fst snd gaps_from pieces map].
      f_equal. rewrite E, slice_empty.
      change (map (fun r : nat * nat => slice line (fst r) (snd r))) with (pieces line).
      rewrite Eg. reflexivity.
    + cbn [gaps_from pieces map fst snd]. f_equal.
      change (map (fun r : nat * nat => slice line (fst r) (snd r))) with (pieces line).
      rewrite (IH m (snd cur) H2 H3). rewrite Eg. cbn [pieces map].
      rewrite dei_cons_nonempty; [reflexivity|].
      apply slice_nonempty; [lia|].
      pose proof (wf_ms_le _ _ _ H3). lia.
Qed.

Theorem greedy_fields d line : d <> [] -> line <> [] ->
  pieces line (fields_of_matches (merge_adjacent (lit_matches d line)) line) = squeeze (split d line).
Proof.
  intros Hd Hl. rewrite <- (scan_ranges_split d line Hd Hl). unfold fields_of_matches.
  destruct line as [|c l]; [contradiction|]. set (line := c :: l).
  pose proof (lit_matches_wf d line) as Hwf.
  destruct (lit_matches d line) as [|m ms]; [reflexivity|].
  cbn [merge_adjacent]. destruct Hwf as [H1 [H2 H3]].
  rewrite (merge_from_pieces line ms m 0 H2 H3). reflexivity.
Qed.

(** ---------- -p : compress_delimiter *)
Fixpoint enc (d : bytes) (first : bool) (gs : list bytes) : bytes :=
  match gs with
  | [] => []
  | [g] => g
  | g :: rest => (match g with [] => if first then d else [] | _ => g ++ d end) ++ enc d false rest
  end.

Definition mk (d : bytes) (p : nat) : mtch := (p, p + length d).

Lemma compress_from_enc d line : d <> [] -> forall ps prev,
  wf_ms prev (map (mk d) ps) (length line) ->
  compress_from d line prev ps
  = enc d (Nat.eqb prev 0) (pieces line (gaps_from prev (map (mk d) ps) (length line))).
Proof.
  intros Hd. induction ps as [|idx ps IH]; intros prev Hwf.
  - cbn [compress_from map gaps_from pieces enc fst snd]. cbn in Hwf.
    unfold slice. destruct (Nat.ltb_spec prev (length line)) as [Hlt|Hge].
    + rewrite firstn_all2; [reflexivity | rewrite skipn_length; lia].
    + rewrite skipn_all2 by lia. destruct (length line - prev); reflexivity.
  - cbn [compress_from map gaps_from pieces fst snd]. destruct Hwf as [H1 [H2 H3]]. cbn [mk fst snd] in *.
    change (map (fun r : nat * nat => slice line (fst r) (snd r))) with (pieces line).
    destruct (gaps_from_cons (idx + length d) (map (mk d) ps) (length line)) as [g [gs Eg]].
    assert (Hpos : Nat.eqb (idx + length d) 0 = false).
    { apply Nat.eqb_neq. destruct d; [contradiction | cbn; lia]. }
    rewrite (IH (idx + length d) H3), Hpos.
    set (P := pieces line (gaps_from (idx + length d) (map (mk d) ps) (length line))).
    assert (HP : exists q qs, P = q :: qs) by (subst P; rewrite Eg; cbn; eauto).
    destruct HP as [q [qs ->]].
    change (enc d (Nat.eqb prev 0) (slice line prev idx :: q :: qs))
      with ((match slice line prev idx with [] => if Nat.eqb prev 0 then d else [] | _ => slice line prev idx ++ d end)
            ++ enc d false (q :: qs)).
    f_equal.
    pose proof (wf_ms_le _ _ _ H3) as Hle.
    destruct (Nat.eqb_spec idx 0) as [->|Hnz].
    + assert (prev = 0) by lia. subst prev. rewrite slice_empty. reflexivity.
    + destruct (slice line prev idx) as [|y ys] eqn:Es; [|reflexivity].
      destruct (Nat.eqb_spec prev 0) as [->|_]; [|reflexivity].
      exfalso. revert Es. apply slice_nonempty; lia.
Qed.

Lemma dei_nonempty ps : ps <> [] -> drop_empty_inner ps <> [].
Proof.
  induction ps as [|p ps IH]; intros H; [contradiction|].
  destruct ps as [|q rest]; [discriminate|].
  destruct p; [rewrite dei_cons_empty; apply IH; discriminate | discriminate].
Qed.

Lemma enc_false d ps : ps <> [] -> enc d false ps = intercalate d (drop_empty_inner ps).
Proof.
  induction ps as [|g ps IH]; intros H; [contradiction|].
  destruct ps as [|q rest]; [reflexivity|].
  change (enc d false (g :: q :: rest))
    with ((match g with [] => [] | _ => g ++ d end) ++ enc d false (q :: rest)).
  rewrite IH by discriminate. destruct g as [|y ys].
  - rewrite dei_cons_empty. reflexivity.
  - rewrite dei_cons_nonempty by discriminate.
    rewrite intercalate_cons by (apply dei_nonempty; discriminate).
    rewrite <- app_assoc. reflexivity.
Qed.

Lemma enc_true d ps : ps <> [] -> enc d true ps = intercalate d (squeeze ps).
Proof.
  destruct ps as [|g ps]; intros H; [contradiction|]. destruct ps as [|q rest]; [reflexivity|].
  change (enc d true (g :: q :: rest))
    with ((match g with [] => d | _ => g ++ d end) ++ enc d false (q :: rest)).
  rewrite enc_false by discriminate. unfold squeeze.
  rewrite intercalate_cons by (apply dei_nonempty; discriminate).
  destruct g; [reflexivity | rewrite <- app_assoc; reflexivity].
Qed.

Theorem compress_is_squeeze d line : d <> [] -> line <> [] ->
  compress_delimiter d line = intercalate d (squeeze (split d line)).
Proof.
  intros Hd Hl. unfold compress_delimiter.
  pose proof (lit_matches_wf d line) as Hwf. unfold lit_matches in Hwf.
  change (fun p : nat => (p, p + length d)) with (mk d) in Hwf.
  rewrite (compress_from_enc d line Hd _ 0 Hwf). cbn [Nat.eqb].
  pose proof (scan_ranges_split d line Hd Hl) as E. unfold fields_of_matches, lit_matches in E.
  destruct line as [|c l]; [contradiction|].
  change (map (mk d) (find_iter d (c :: l)))
    with (map (fun p : nat => (p, p + length d)) (find_iter d (c :: l))).
  rewrite E. apply enc_true. apply split_go_nonempty.
Qed.

(** ---------- the fields of the statement are unique: [split] is the only [is_split] *)
Lemma split_go_skip d : forall a k cur rest,
  length a = k -> split_go d k cur (a ++ rest) = split_go d 0 cur rest.
Proof.
  induction a as [|x a IH]; intros k cur rest H; cbn in H; subst k; [reflexivity|].
  cbn [app split_go length]. apply IH. reflexivity.
Qed.

Lemma split_go_no_occ d : forall p cur rest,
  (forall j, j < length p -> starts_with d (skipn j (p ++ rest)) = false) ->
  split_go d 0 cur (p ++ rest) = split_go d 0 (rev p ++ cur) rest.
Proof.
  induction p as [|x p IH]; intros cur rest H; [reflexivity|].
  cbn [app split_go]. pose proof (H 0 ltac:(cbn; lia)) as H0. cbn [skipn app] in H0. rewrite H0.
  rewrite IH; [cbn [rev]; rewrite <- app_assoc; reflexivity|].
  intros j Hj. apply (H (S j)). cbn. lia.
Qed.

Lemma first_occ_no_earlier d p rest : d <> [] -> first_occ_at_end d p ->
  forall j, j < length p -> starts_with d (skipn j (p ++ d ++ rest)) = false.
Proof.
  intros Hd Hf j Hj. destruct (starts_with d (skipn j (p ++ d ++ rest))) eqn:E; [|reflexivity].
  exfalso. apply starts_with_true in E. destruct E as [r Er].
  (* p ++ d ++ rest = firstn j p ++ d ++ r *)
  assert (Hsplit : p ++ d ++ rest = firstn j p ++ d ++ r).
  { rewrite <- (firstn_skipn j (p ++ d ++ rest)) at 1. rewrite Er.
    rewrite firstn_app. replace (j - length p) with 0 by lia. cbn [firstn]. rewrite app_nil_r. reflexivity. }
  assert (Hlen : length r = length p - j + length rest).
  { apply (f_equal (@length _)) in Hsplit. rewrite !app_length, firstn_length in Hsplit. lia. }
  specialize (Hf (firstn j p) (firstn (length p - j) r)).
  assert (Hb : firstn (length p - j) r = []).
  { apply Hf.
    apply (f_equal (firstn (length p + length d))) in Hsplit.
    rewrite app_assoc, firstn_app in Hsplit.
    rewrite firstn_all2 in Hsplit by (rewrite app_length; lia).
    rewrite app_length in Hsplit. replace (length p + length d - (length p + length d)) with 0 in Hsplit by lia.
    cbn [firstn] in Hsplit. rewrite app_nil_r in Hsplit. rewrite Hsplit.
    rewrite (app_assoc (firstn j p) d r), firstn_app.
    rewrite firstn_all2 by (rewrite app_length, firstn_length; lia).
    rewrite app_length, firstn_length. replace (Nat.min j (length p)) with j by lia.
    replace (length p + length d - (j + length d)) with (length p - j) by lia.
    rewrite <- app_assoc. reflexivity. }
  apply (f_equal (@length _)) in Hb. rewrite firstn_length in Hb. cbn in Hb. lia.
Qed.

Lemma no_occ_no_start d p : d <> [] -> ~ occurs_in d p -> forall j, starts_with d (skipn j p) = false.
Proof.
  intros Hd Hn j. destruct (starts_with d (skipn j p)) eqn:E; [|reflexivity].
  exfalso. apply Hn. apply starts_with_true in E. destruct E as [r Er].
  exists (firstn j p), r. rewrite <- Er. symmetry. apply firstn_skipn.
Qed.

Theorem split_unique d : d <> [] -> forall ps line, is_split d line ps -> split d line = ps.
Proof.
  intros Hd. unfold is_split, split.
  assert (G : forall ps cur, leftmost_fields d ps ->
            split_go d 0 cur (intercalate d ps)
            = match ps with [] => [] | p :: rest => (rev cur ++ p) :: rest end).
  { induction ps as [|p ps IH]; intros cur H; [contradiction|].
    destruct ps as [|q rest].
    - cbn [intercalate leftmost_fields] in *. rewrite <- (app_nil_r p) at 1.
      rewrite split_go_no_occ.
      + cbn [split_go]. rewrite rev_app_distr, rev_involutive. reflexivity.
      + intros j _. rewrite app_nil_r. apply no_occ_no_start; assumption.
    - destruct H as [Hf Hrest].
      change (intercalate d (p :: q :: rest)) with (p ++ d ++ intercalate d (q :: rest)).
      rewrite split_go_no_occ by (apply first_occ_no_earlier; assumption).
      destruct d as [|c d']; [contradiction|]. cbn [app split_go].
      assert (Esw : starts_with (c :: d') (c :: d' ++ intercalate (c :: d') (q :: rest)) = true).
      { apply starts_with_true. eexists. reflexivity. }
      rewrite Esw. rewrite rev_app_distr, rev_involutive. f_equal.
      cbn [length]. replace (S (length d') - 1) with (length d') by lia.
      rewrite (split_go_skip (c :: d') d' (length d') [] _ eq_refl).
      rewrite (IH [] Hrest). reflexivity. }
  intros ps line [E H]. subst line. rewrite (G ps [] H). destruct ps; [contradiction | reflexivity].
Qed.

Lemma dei_leftmost d : forall ps, ps <> [] -> leftmost_fields d ps -> leftmost_fields d (drop_empty_inner ps).
Proof.
  induction ps as [|p ps IH]; intros Hne H; [contradiction|].
  destruct ps as [|q rest]; [exact H|]. destruct H as [Hf Hr].
  destruct p as [|y ys].
  - rewrite dei_cons_empty. apply IH; [discriminate | exact Hr].
  - rewrite dei_cons_nonempty by discriminate.
    pose proof (dei_nonempty (q :: rest) ltac:(discriminate)) as Hn.
    destruct (drop_empty_inner (q :: rest)) as [|q' r'] eqn:E; [contradiction|].
    split; [exact Hf|]. apply IH; [discriminate | exact Hr].
Qed.

Lemma squeeze_leftmost d ps : leftmost_fields d ps -> leftmost_fields d (squeeze ps).
Proof.
  destruct ps as [|p ps]; intros H; [contradiction|]. destruct ps as [|q rest]; [exact H|].
  destruct H as [Hf Hr]. unfold squeeze.
  pose proof (dei_nonempty (q :: rest) ltac:(discriminate)) as Hn.
  destruct (drop_empty_inner (q :: rest)) as [|q' r'] eqn:E; [contradiction|].
  split; [exact Hf|]. rewrite <- E. apply dei_leftmost; [discriminate | exact Hr].
Qed.

(** -p collapses every run of delimiters before the fields are counted: cutting the
    compressed record gives the fields of the record minus the empty ones strictly inside *)
Theorem compress_then_split d line : d <> [] -> line <> [] ->
  split d (compress_delimiter d line) = squeeze (split d line).
Proof.
  intros Hd Hl. rewrite (compress_is_squeeze d line Hd Hl).
  apply split_unique; [exact Hd|]. split; [reflexivity|].
  apply squeeze_leftmost. apply (split_is_split d line Hd).
Qed.

(** so -p and -g count the same fields *)
Corollary compress_and_greedy_agree d line : d <> [] -> line <> [] ->
  split d (compress_delimiter d line)
  = pieces line (fields_of_matches (merge_adjacent (lit_matches d line)) line).
Proof. intros Hd Hl. rewrite compress_then_split, greedy_fields by assumption. reflexivity. Qed.

(** ---------- -t : trim removes every whole copy of the delimiter at the chosen end(s),
    and nothing else *)
Definition copies (d : bytes) (k : nat) : bytes := concat (repeat d k).

Lemma strip_prefix_nil_none d : d <> [] -> strip_prefix d [] = None.
Proof. destruct d; [contradiction | reflexivity]. Qed.

Lemma trim_left_fuel_spec d : d <> [] -> forall fuel l, length l <= fuel ->
  exists k, l = copies d k ++ trim_left_fuel fuel d l
            /\ strip_prefix d (trim_left_fuel fuel d l) = None.
Proof.
  intros Hd. induction fuel as [|f IH]; intros l Hlen.
  - destruct l; [|cbn in Hlen; lia]. exists 0. split; [reflexivity | apply strip_prefix_nil_none, Hd].
  - cbn [trim_left_fuel]. destruct (strip_prefix d l) as [r|] eqn:E.
    + pose proof (strip_prefix_some d l r E) as ->.
      assert (Hr : length r <= f).
      { rewrite app_length in Hlen. destruct d; [contradiction | cbn in Hlen; lia]. }
      destruct (IH r Hr) as [k [E1 E2]]. exists (S k). split; [|exact E2].
      unfold copies in *. cbn [repeat concat]. rewrite <- app_assoc. f_equal. exact E1.
    + exists 0. split; [reflexivity | exact E].
Qed.

Theorem trim_left_spec d l : d <> [] ->
  exists k, l = copies d k ++ trim_left d l /\ strip_prefix d (trim_left d l) = None.
Proof.
  intros Hd. unfold trim_left. destruct d as [|c d']; [contradiction|].
  apply trim_left_fuel_spec; [discriminate | lia].
Qed.

Lemma copies_comm d k : copies d k ++ d = d ++ copies d k.
Proof.
  unfold copies. induction k as [|k IH]; cbn [repeat concat]; [rewrite app_nil_r; reflexivity|].
  rewrite <- app_assoc, IH. reflexivity.
Qed.

Lemma rev_copies d k : rev (copies (rev d) k) = copies d k.
Proof.
  induction k as [|k IH]; [reflexivity|]. unfold copies in *. cbn [repeat concat].
  rewrite rev_app_distr, IH, rev_involutive. apply copies_comm.
Qed.

Theorem trim_right_spec d l : d <> [] ->
  exists k, l = trim_right d l ++ copies d k
            /\ forall x, trim_right d l <> x ++ d.
Proof.
  intros Hd. unfold trim_right.
  assert (Hrd : rev d <> []) by (intros E; apply Hd; rewrite <- (rev_involutive d), E; reflexivity).
  destruct (trim_left_spec (rev d) (rev l) Hrd) as [k [E1 E2]]. exists k. split.
  - rewrite <- (rev_involutive l), E1 at 1. rewrite rev_app_distr, rev_copies. reflexivity.
  - intros x Ex. apply (f_equal (@rev _)) in Ex. rewrite rev_involutive, rev_app_distr in Ex.
    rewrite Ex, strip_prefix_app in E2. discriminate.
Qed.

(** ---------- -s : a record is dropped exactly when it has no delimiter *)
Theorem one_field_iff_no_delimiter d line : d <> [] ->
  (length (split d line) = 1 <-> ~ occurs_in d line).
Proof.
  intros Hd. destruct (split_is_split d line Hd) as [E H]. split.
  - intros Hlen. destruct (split d line) as [|p [|q r]]; try discriminate.
    cbn in E, H. subst p. exact H.
  - intros Hno. destruct (split d line) as [|p [|q r]]; [contradiction | reflexivity|].
    exfalso. apply Hno. exists p, (intercalate d (q :: r)). rewrite <- E. reflexivity.
Qed.

(** ---------- how the general path stages a record (literal delimiter, field mode) *)
From TucModel Require Import Model.Bounds Model.Opt Model.CutBytes Model.CutStr.

Definition lit_stage (o : opt) (line1 : bytes) : bytes * list mtch :=
  let line := if o_compress o then compress_delimiter (o_delim o) line1 else line1 in
  let ms := if o_greedy o then merge_adjacent (lit_matches (o_delim o) line)
            else lit_matches (o_delim o) line in
  (line, fields_of_matches ms line).

(** the fields of the statement for this option set *)
Definition spec_fields (o : opt) (line1 : bytes) : list bytes :=
  if o_compress o || o_greedy o then squeeze (split (o_delim o) line1) else split (o_delim o) line1.

Lemma dei_idem ps : drop_empty_inner (drop_empty_inner ps) = drop_empty_inner ps.
Proof.
  induction ps as [|p ps IH]; [reflexivity|]. destruct ps as [|q rest]; [reflexivity|].
  destruct p as [|y ys].
  - rewrite dei_cons_empty. exact IH.
  - rewrite dei_cons_nonempty by discriminate.
    pose proof (dei_nonempty (q :: rest) ltac:(discriminate)) as Hn.
    destruct (drop_empty_inner (q :: rest)) as [|q' r'] eqn:E; [contradiction|].
    rewrite dei_cons_nonempty by discriminate. rewrite IH. reflexivity.
Qed.

Lemma squeeze_idem ps : squeeze (squeeze ps) = squeeze ps.
Proof. destruct ps as [|p ps]; [reflexivity|]. cbn [squeeze]. rewrite dei_idem. reflexivity. Qed.

Lemma compress_nonempty d line : d <> [] -> line <> [] -> compress_delimiter d line <> [].
Proof.
  intros Hd Hl E. rewrite (compress_is_squeeze d line Hd Hl) in E.
  destruct (split_is_split d line Hd) as [Ei _].
  destruct (split d line) as [|p ps] eqn:Es; [exact (split_go_nonempty d 0 [] line Es)|].
  destruct ps as [|q rest].
  - cbn in E, Ei. subst p. apply Hl. symmetry. exact Ei.
  - unfold squeeze in E. pose proof (dei_nonempty (q :: rest) ltac:(discriminate)) as Hn.
    rewrite intercalate_cons in E by exact Hn.
    apply (f_equal (@length _)) in E. rewrite !app_length in E. destruct d; [contradiction | cbn in E; lia].
Qed.

Theorem stage_fields o line1 : o_delim o <> [] -> line1 <> [] ->
  pieces (fst (lit_stage o line1)) (snd (lit_stage o line1)) = spec_fields o line1.
Proof.
  intros Hd Hl. unfold lit_stage, spec_fields. cbn [fst snd].
  destruct (o_compress o); destruct (o_greedy o); cbn [orb].
  - rewrite greedy_fields by (try apply compress_nonempty; assumption).
    rewrite compress_then_split by assumption. apply squeeze_idem.
  - rewrite scan_ranges_split by (try apply compress_nonempty; assumption).
    apply compress_then_split; assumption.
  - apply greedy_fields; assumption.
  - apply scan_ranges_split; assumption.
Qed.

(** what follows once the fields are known: -s, complement, the output loop, the EOL *)
Definition finish_record (o : opt) (line : bytes) (fields : list mtch) : rres :=
  let n := length fields in
  if o_only_delimited o && Nat.eqb n 1 then ROk []
  else
    match (if o_complement o then
             match complement_list (items (o_bounds o)) n with
             | Some l => Some (items l)
             | None => None
             end
           else Some (items (o_bounds o))) with
    | None => RErr
    | Some bs1 =>
        match out_loop o line fields bs1 with
        | ROk body => ROk (body ++ [o_eol o])
        | e => e
        end
    end.

Theorem cut_str_literal o line0 :
  o_regex o = None -> o_btype o = BFields -> o_json o = false ->
  cut_str o line0
  = Some (let line1 := match o_trim o with
                       | None => line0
                       | Some k => trim_lit k (o_delim o) line0
                       end in
          match line1 with
          | [] => ROk (if o_only_delimited o then [] else [o_eol o])
          | _ => finish_record o (fst (lit_stage o line1)) (snd (lit_stage o line1))
          end).
Proof.
  intros Hx Hb Hj. unfold cut_str, finish_record, lit_stage. rewrite Hx, Hb, Hj. cbn [andb orb btype_eqb fst snd].
  destruct (o_trim o) as [k|]; cbv zeta.
  - destruct (trim_lit k (o_delim o) line0) as [|c l]; [reflexivity|].
    rewrite Bool.andb_true_r. destruct (o_compress o); destruct (o_greedy o); cbv iota;
      match goal with |- context [o_only_delimited o && ?X] => destruct (o_only_delimited o && X) end;
      try reflexivity;
      match goal with |- context [if o_complement o then ?A else ?B] => destruct (if o_complement o then A else B) end;
      try reflexivity;
      match goal with |- context [out_loop ?a ?b ?c ?d] => destruct (out_loop a b c d) end; reflexivity.
  - destruct line0 as [|c l]; [reflexivity|].
    rewrite Bool.andb_true_r. destruct (o_compress o); destruct (o_greedy o); cbv iota;
      match goal with |- context [o_only_delimited o && ?X] => destruct (o_only_delimited o && X) end;
      try reflexivity;
      match goal with |- context [if o_complement o then ?A else ?B] => destruct (if o_complement o then A else B) end;
      try reflexivity;
      match goal with |- context [out_loop ?a ?b ?c ?d] => destruct (out_loop a b c d) end; reflexivity.
Qed.
