(** Appending an ASCII byte (a record terminator) does not change whether a text is valid UTF-8. *)
From Coq Require Import List NArith Bool Lia.
From TucModel Require Import Base.Bytes Model.Utf8 Proofs.C07 Proofs.C07Utf8.
Import ListNotations.
Local Open Scope N_scope.

Lemma ascii_scalar (c : byte) : c < 128 -> scalar [c].
Proof. intros H. unfold scalar, utf8_head_len. destruct (N.ltb_spec c 128); [reflexivity | lia]. Qed.

Lemma in_rng_ge lo hi b : 128 <= lo -> in_rng lo hi b = true -> 128 <= b.
Proof. unfold in_rng. intros Hlo H. apply andb_prop in H. destruct H as [H _]. apply N.leb_le in H. lia. Qed.

(** every byte of a scalar encoding after the first is a continuation byte *)
Lemma scalar_tail_cont (s : bytes) : scalar s -> forall x, In x (tl s) -> 128 <= x.
Proof.
  unfold scalar, utf8_head_len. destruct s as [|b0 r]; [discriminate|]. cbn [tl length].
  destruct (b0 <? 128). { intros H. injection H as H. destruct r; [intros x []| discriminate]. }
  destruct (in_rng 194 223 b0).
  { destruct r as [|b1 r2]; [discriminate|]. destruct (is_cont b1) eqn:E1; [|discriminate].
    intros H. injection H as H. destruct r2; [|discriminate]. intros x [<-|[]]. apply (in_rng_ge 128 191); [lia | exact E1]. }
  destruct (in_rng 224 239 b0).
  { destruct r as [|b1 [|b2 r3]]; try discriminate.
    match goal with |- (if ?c then _ else _) = _ -> _ => destruct c eqn:E end; [|discriminate].
    intros H. injection H as H. destruct r3; [|discriminate]. apply andb_prop in E. destruct E as [Ea Eb].
    intros x [<-|[<-|[]]].
    - destruct (b0 =? 224); [apply (in_rng_ge 160 191); [lia|exact Ea]|]. destruct (b0 =? 237); [apply (in_rng_ge 128 159); [lia|exact Ea] | apply (in_rng_ge 128 191); [lia|exact Ea]].
    - apply (in_rng_ge 128 191); [lia | exact Eb]. }
  destruct (in_rng 240 244 b0); [|discriminate].
  destruct r as [|b1 [|b2 [|b3 r4]]]; try discriminate.
  match goal with |- (if ?c then _ else _) = _ -> _ => destruct c eqn:E end; [|discriminate].
  intros H. injection H as H. destruct r4; [|discriminate]. apply andb_prop in E. destruct E as [E Ec]. apply andb_prop in E. destruct E as [Ea Eb].
  intros x [<-|[<-|[<-|[]]]].
  - destruct (b0 =? 240); [apply (in_rng_ge 144 191); [lia|exact Ea]|]. destruct (b0 =? 244); [apply (in_rng_ge 128 143); [lia|exact Ea] | apply (in_rng_ge 128 191); [lia|exact Ea]].
  - apply (in_rng_ge 128 191); [lia | exact Eb].
  - apply (in_rng_ge 128 191); [lia | exact Ec].
Qed.

Lemma valid_chars (l : bytes) : utf8_valid l = true -> exists cs, concat cs = l /\ Forall scalar cs /\ Forall (fun c => c <> []) cs.
Proof.
  unfold utf8_valid, utf8_chars. destruct (utf8_chars_fuel (length l) l) as [cs|] eqn:E; [|discriminate]. intros _.
  destruct (utf8_chars_fuel_concat _ _ _ E) as [H1 H2]. exists cs. split; [exact H1 | split; [exact (utf8_chars_fuel_scalar _ _ _ E) | exact H2]].
Qed.

Theorem utf8_valid_snoc (l : bytes) (c : byte) : c < 128 -> utf8_valid (l ++ [c]) = utf8_valid l.
Proof.
  intros Hc. destruct (utf8_valid l) eqn:El.
  - destruct (valid_chars l El) as (cs & H1 & H2 & _). rewrite <- H1.
    replace (concat cs ++ [c]) with (concat (cs ++ [[c]])) by (rewrite concat_app; cbn [concat]; rewrite app_nil_r; reflexivity).
    apply scalars_are_valid. apply Forall_app. split; [exact H2 | constructor; [apply ascii_scalar, Hc | constructor]].
  - destruct (utf8_valid (l ++ [c])) eqn:E; [|reflexivity]. exfalso.
    destruct (valid_chars _ E) as (cs & H1 & H2 & H3).
    destruct (exists_last (l := cs)) as (cs0 & s & ->).
    { intros ->. cbn in H1. destruct l; discriminate. }
    rewrite concat_app in H1. cbn [concat] in H1. rewrite app_nil_r in H1.
    apply Forall_app in H2. destruct H2 as [Hs0 Hs]. inversion Hs as [|? ? Hsc _]; subst.
    apply Forall_app in H3. destruct H3 as [_ Hn]. inversion Hn as [|? ? Hsn _]; subst.
    destruct (exists_last Hsn) as (s0 & z & ->).
    rewrite app_assoc in H1. apply app_inj_tail in H1. destruct H1 as [Hl Hz]. subst z.
    destruct s0 as [|y s0'].
    + rewrite app_nil_r in Hl. rewrite <- Hl in El. rewrite (scalars_are_valid cs0 Hs0) in El. discriminate.
    + assert (Hin : In c (tl ((y :: s0') ++ [c]))) by (cbn [app tl]; apply in_or_app; right; left; reflexivity).
      pose proof (scalar_tail_cont _ Hsc c Hin). lia.
Qed.
