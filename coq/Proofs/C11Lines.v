(** C11 for -l (both algorithms) and -c. *)
From TucModel Require Import Base.Bytes Base.ListX Model.Bounds Model.Scan Model.Utf8 Model.Regex Model.Opt
     Model.CutBytes Model.CutStr Model.CutLines Model.Stream Proofs.C10 Proofs.C11 Proofs.C11Run Proofs.C11Stream Proofs.C11Utf8.

Section Renaming.
  Variable f : byte -> byte.
  Hypothesis f_inj : forall a b, f a = f b -> a = b.
  (** the renaming keeps UTF-8 validity (true of the LF/NUL exchange) *)
  Hypothesis f_utf8 : forall l, utf8_valid (map f l) = utf8_valid l.
  Notation rn := (map f).
  Notation ri := (rename_item f).
  Notation ro := (rename_opt f).

  Lemma nonempty_map {A B} (g : A -> B) l : nonempty (map g l) = nonempty l.
  Proof. destruct l; reflexivity. Qed.

  Lemma sep_rename o (bs : list bof) :
    (if o_join (ro o) && nonempty (map ri bs) then [o_eol (ro o)] else [])
    = rn (if o_join o && nonempty bs then [o_eol o] else []).
  Proof. cbn [rename_opt o_join o_eol]. rewrite nonempty_map. destruct (o_join o && nonempty bs); reflexivity. Qed.

  Lemma fwd_bounds_rename o : forall bs add idx line,
    fwd_bounds (ro o) (map ri bs) add idx (rn line)
    = (rn (fst (fst (fwd_bounds o bs add idx line))), map ri (snd (fst (fwd_bounds o bs add idx line))),
       snd (fwd_bounds o bs add idx line)).
  Proof.
    induction bs as [|[b|t] bs IH]; intros add idx line; [reflexivity| |].
    - change (map ri (Bound b :: bs)) with (Bound (rename_bound f b) :: map ri bs).
      cbn [fwd_bounds]. change (matches (rename_bound f b) idx) with (matches b idx).
      change (br (rename_bound f b)) with (br b).
      destruct (matches b idx) as [[|]|]; try reflexivity.
      destruct (side_eqb (br b) (SSome idx)).
      + rewrite sep_rename, IH.
        destruct (fwd_bounds o bs false idx line) as [[out rest] a]. cbn [fst snd].
        cbn [rename_opt o_eol]. rewrite !map_app. destruct add; reflexivity.
      + cbn [fst snd rename_opt o_eol]. rewrite map_app. destruct add; reflexivity.
    - change (map ri (Filler t :: bs)) with (Filler (rn t) :: map ri bs).
      cbn [fwd_bounds]. rewrite sep_rename, IH.
      destruct (fwd_bounds o bs add idx line) as [[out rest] a]. cbn [fst snd]. rewrite !map_app. reflexivity.
  Qed.

  Lemma fwd_tail_rename o : forall bs, fwd_tail (ro o) (map ri bs) = option_map rn (fwd_tail o bs).
  Proof.
    induction bs as [|[b|t] bs IH]; [reflexivity| |].
    - change (map ri (Bound b :: bs)) with (Bound (rename_bound f b) :: map ri bs).
      cbn [fwd_tail]. rewrite sep_rename, IH. cbn [rename_opt o_fallback]. rewrite (fallback_for_rename f).
      destruct (fallback_for b (o_fallback o)); cbn [option_map]; [|reflexivity].
      destruct (fwd_tail o bs); cbn [option_map]; [rewrite !map_app|]; reflexivity.
    - change (map ri (Filler t :: bs)) with (Filler (rn t) :: map ri bs).
      cbn [fwd_tail]. rewrite sep_rename, IH.
      destruct (fwd_tail o bs); cbn [option_map]; [rewrite !map_app|]; reflexivity.
  Qed.

  Lemma fwd_finish_rename o bs add : fwd_finish (ro o) (map ri bs) add = option_map rn (fwd_finish o bs add).
  Proof.
    unfold fwd_finish. destruct bs as [|[b|t] bs'].
    - exact (fwd_tail_rename o []).
    - change (map ri (Bound b :: bs')) with (Bound (rename_bound f b) :: map ri bs').
      cbv iota. destruct add.
      + change (br (rename_bound f b)) with (br b). destruct (br b); [reflexivity|].
        rewrite sep_rename, fwd_tail_rename. destruct (fwd_tail o bs'); cbn [option_map]; [rewrite map_app|]; reflexivity.
      + exact (fwd_tail_rename o (Bound b :: bs')).
    - exact (fwd_tail_rename o (Filler t :: bs')).
  Qed.

  Lemma fwd_lines_rename o : forall ls bs add idx acc,
    fwd_lines (ro o) (map rn ls) (map ri bs) add idx (rn acc)
    = rename_outcome f (fwd_lines o ls bs add idx acc).
  Proof.
    induction ls as [|line ls IH]; intros bs add idx acc; cbn [map fwd_lines].
    - rewrite fwd_finish_rename. destruct (fwd_finish o bs add); cbn [option_map rename_outcome]; [|reflexivity].
      cbn [rename_opt o_eol]. rewrite !map_app. reflexivity.
    - rewrite f_utf8. destruct (negb (utf8_valid line)); [reflexivity|].
      rewrite fwd_bounds_rename. destruct (fwd_bounds o bs add (idx + 1)%Z line) as [[out rest] a]. cbn [fst snd].
      destruct rest as [|r0 rest']; cbn [map].
      + cbn [rename_outcome rename_opt o_eol]. rewrite !map_app. reflexivity.
      + change (ri r0 :: map ri rest') with (map ri (r0 :: rest')). rewrite <- map_app. apply IH.
  Qed.

  Lemma strip_one_suffix_rename eol l : strip_one_suffix (f eol) (rn l) = rn (strip_one_suffix eol l).
  Proof.
    unfold strip_one_suffix. rewrite <- map_rev. destruct (rev l) as [|x r]; [reflexivity|]. cbn [map].
    rewrite (eqb_f f f_inj). destruct (N.eqb x eol); [rewrite map_rev|]; reflexivity.
  Qed.

  Lemma has_range_with_fallback_rename o : has_range_with_fallback (ro o) = has_range_with_fallback o.
  Proof.
    unfold has_range_with_fallback. cbn [rename_opt o_bounds rename_ublist items o_fallback].
    induction (items (o_bounds o)) as [|x l IH]; [reflexivity|]. cbn [map existsb]. rewrite IH. f_equal.
    destruct x as [b|t]; [|reflexivity]. cbn [rename_item]. rewrite (fallback_for_rename f).
    destruct (fallback_for b (o_fallback o)); reflexivity.
  Qed.

  Lemma can_be_streamed_rename o : can_be_streamed (ro o) = can_be_streamed o.
  Proof.
    unfold can_be_streamed. rewrite has_range_with_fallback_rename.
    cbn [rename_opt o_complement o_compress o_bounds rename_ublist items]. unfold is_forward_only.
    rewrite (is_sortable_rename f), (is_sorted_rename f), (has_negative_rename f). reflexivity.
  Qed.

  (** whole runs of -l, both algorithms *)
  Theorem lines_rename o input : o_regex o = None -> o_json o = false ->
    read_and_cut_lines (ro o) (rn input) = option_map (rename_outcome f) (read_and_cut_lines o input).
  Proof.
    intros Hx Hj. unfold read_and_cut_lines. rewrite can_be_streamed_rename.
    destruct (can_be_streamed o).
    - cbn [option_map]. f_equal. unfold lines_of.
      change (o_eol (ro o)) with (f (o_eol o)). rewrite (records_rename f f_inj).
      change (items (o_bounds (ro o))) with (map ri (items (o_bounds o))).
      change (@nil N) with (rn []). apply fwd_lines_rename.
    - unfold cut_lines_buffered. rewrite f_utf8. destruct (negb (utf8_valid input)); [reflexivity|].
      change (o_eol (ro o)) with (f (o_eol o)). rewrite strip_one_suffix_rename.
      rewrite (cut_str_rename f f_inj o _ Hx Hj).
      destruct (cut_str o (strip_one_suffix (o_eol o) input)) as [[out| | |]|]; reflexivity.
  Qed.

  (** -c: the character splitter sees the same boundaries in the renamed text *)
  Hypothesis f_chars : forall l, char_matches (rn l) = char_matches l.

  Lemma trim_matches_rename k ms (l : bytes) : trim_matches k ms (rn l) = rn (trim_matches k ms l).
  Proof.
    unfold trim_matches. rewrite map_length.
    destruct (match ms with
              | [] => (0, ms)
              | m :: ms' =>
                  if match k with TRight => false | _ => true end
                  then if Nat.eqb (fst m) 0 then (snd m, ms') else (0, ms)
                  else (0, ms)
              end) as [a rest].
    apply (slice_rename f).
  Qed.

  Theorem cut_str_rename_chars o line0 :
    o_regex o = Some RxChars -> o_btype o = BChars -> o_json o = false ->
    cut_str (ro o) (rn line0) = option_map (rename_rres f) (cut_str o line0).
  Proof.
    intros Hx Hb Hj. unfold cut_str.
    cbn [rename_opt o_regex o_replace o_compress o_join o_trim o_delim o_only_delimited o_eol o_btype o_greedy
         o_complement o_bounds o_json]. rewrite Hx, Hb, Hj. cbn [andb orb btype_eqb rx_greedy rx_normal].
    assert (Hnr : match option_map rn (o_replace o) with None => true | Some _ => false end
                  = match o_replace o with None => true | Some _ => false end)
      by (destruct (o_replace o); reflexivity).
    rewrite Hnr. clear Hnr.
    destruct (match o_replace o with None => true | Some _ => false end && (o_compress o || o_join o)); [reflexivity|].
    rewrite f_chars.
    assert (Htrim : match o_trim o with
                    | Some k => match char_matches line0 with
                                | Some ms => Some (trim_matches k ms (rn line0))
                                | None => None
                                end
                    | None => Some (rn line0)
                    end
                    = option_map rn (match o_trim o with
                                     | Some k => match char_matches line0 with
                                                 | Some ms => Some (trim_matches k ms line0)
                                                 | None => None
                                                 end
                                     | None => Some line0
                                     end)).
    { destruct (o_trim o) as [k|]; [|reflexivity]. destruct (char_matches line0); [|reflexivity].
      cbn [option_map]. rewrite trim_matches_rename. reflexivity. }
    rewrite Htrim. clear Htrim.
    destruct (match o_trim o with
              | Some k => match char_matches line0 with Some ms => Some (trim_matches k ms line0) | None => None end
              | None => Some line0
              end) as [line1|]; cbn [option_map]; [|reflexivity].
    destruct line1 as [|c l1]; cbn [map].
    { destruct (o_only_delimited o); reflexivity. }
    change (f c :: rn l1) with (rn (c :: l1)). set (L := c :: l1).
    rewrite andb_false_r. cbv iota beta.
    assert (Hms : (if o_greedy o then char_matches (rn L) else char_matches (rn L))
                  = (if o_greedy o then char_matches L else char_matches L))
      by (rewrite f_chars; reflexivity).
    rewrite Hms. clear Hms.
    destruct (if o_greedy o then char_matches L else char_matches L) as [ms|]; [|reflexivity].
    rewrite !(fields_of_matches_rename f).
    pose proof (cut_tail f f_inj o L (fields_of_matches ms L) (or_intror Hb) Hj) as T.
    rewrite Hb in T. cbn [btype_eqb] in T. exact T.
  Qed.

  Theorem chars_rename o input :
    o_regex o = Some RxChars -> o_btype o = BChars -> o_json o = false ->
    read_and_cut_str (ro o) (rn input) = option_map (rename_outcome f) (read_and_cut_str o input).
  Proof.
    intros Hx Hb Hj. unfold read_and_cut_str. change (o_eol (ro o)) with (f (o_eol o)).
    rewrite (records_rename f f_inj).
    apply (run_records_rename f (cut_str o) (cut_str (ro o)) (fun r => cut_str_rename_chars o r Hx Hb Hj) _ []).
  Qed.
End Renaming.

(** ---------- the instance of the statement *)
(** in line mode the delimiter is the terminator itself; the other texts are neutral *)
Definition neutral_line_texts (o : opt) : Prop :=
  o_delim o = [o_eol o] /\ neutral_opt (o_replace o) /\ neutral_opt (o_fallback o)
  /\ Forall neutral_item (items (o_bounds o)).

Definition with_line_eol (e : byte) (o : opt) : opt :=
  mkOpt [e] e (o_bounds o) (o_btype o) (o_only_delimited o) (o_greedy o) (o_compress o)
        (o_replace o) (o_trim o) (o_complement o) (o_join o) (o_json o) (o_fixed_memory o) (o_fallback o) (o_regex o).

Lemma rename_neutral_line_opt o : neutral_line_texts o -> rename_opt swap o = with_line_eol (swap (o_eol o)) o.
Proof.
  intros [Hd [Hr [Hf Hb]]]. unfold rename_opt, with_line_eol.
  rewrite Hd, (option_map_neutral _ Hr), (option_map_neutral _ Hf). cbn [map]. f_equal.
  unfold rename_ublist. destruct (o_bounds o) as [its l]. cbn [items lif] in *. f_equal.
  induction Hb as [|x its Hx Hits IH]; [reflexivity|]. cbn [map]. rewrite IH. f_equal.
  destruct x as [b|t]; cbn [rename_item neutral_item] in *.
  - unfold rename_bound. rewrite (option_map_neutral _ Hx). destruct b; reflexivity.
  - rewrite (swap_neutral _ Hx). reflexivity.
Qed.

Theorem C11_line_mode_swap o input :
  o_regex o = None -> o_json o = false -> neutral_line_texts o ->
  read_and_cut_lines (with_line_eol (swap (o_eol o)) o) (map swap input)
  = option_map (rename_outcome swap) (read_and_cut_lines o input).
Proof.
  intros Hx Hj Hn. rewrite <- (rename_neutral_line_opt o Hn).
  apply lines_rename; [apply swap_injective | apply utf8_valid_swap | assumption | assumption].
Qed.

(** -c *)
Lemma char_matches_swap l : char_matches (map swap l) = char_matches l.
Proof.
  unfold char_matches. rewrite utf8_chars_swap. destruct (utf8_chars l) as [cs|]; cbn [option_map]; [|reflexivity].
  f_equal. f_equal. generalize 0 as pos. induction cs as [|c cs IH]; intros pos; [reflexivity|].
  cbn [map boundaries_from]. rewrite map_length, IH. reflexivity.
Qed.

Theorem C11_character_mode_swap o input :
  o_regex o = Some RxChars -> o_btype o = BChars -> o_json o = false -> neutral_texts o ->
  read_and_cut_str (with_eol (swap (o_eol o)) o) (map swap input)
  = option_map (rename_outcome swap) (read_and_cut_str o input).
Proof.
  intros Hx Hb Hj Hn. rewrite <- (rename_neutral_opt o Hn).
  apply chars_rename; try assumption; [apply swap_injective | apply char_matches_swap].
Qed.
