(** C05: both line algorithms index the same list of lines; a single trailing EOL never
    counts as an extra empty line. *)
From TucModel Require Import Base.Bytes Base.ListX Model.Bounds Model.BoundsParse Model.Scan Model.Opt
     Model.CutBytes Model.CutStr Model.CutLines Spec.Fields Proofs.ScanSplit.

(** the lines of the statement: split at every EOL, minus one trailing empty piece *)
Definition drop_last_empty (ps : list bytes) : list bytes :=
  match rev ps with
  | [] :: r => rev r
  | _ => ps
  end.

Definition prepend (c : bytes) (ps : list bytes) : list bytes :=
  match ps with
  | p :: ps' => (c ++ p) :: ps'
  | [] => [c]
  end.

Lemma split_on_cons_ne c x s : N.eqb x c = false ->
  split_on c (x :: s) = prepend [x] (split_on c s).
Proof.
  intros H. cbn [split_on]. rewrite H. destruct (split_on c s); reflexivity.
Qed.

Lemma split_on_ne c s : split_on c s <> [].
Proof.
  induction s as [|x s IH]; cbn [split_on]; [discriminate|].
  destruct (N.eqb x c); [discriminate|]. destruct (split_on c s); [contradiction | discriminate].
Qed.

Lemma drop_last_empty_cons p ps : ps <> [] -> drop_last_empty (p :: ps) = p :: drop_last_empty ps.
Proof.
  intros Hne. unfold drop_last_empty. cbn [rev].
  destruct (rev ps) as [|q r] eqn:E.
  - apply (f_equal (@rev _)) in E. rewrite rev_involutive in E. cbn in E. contradiction.
  - cbn [app]. destruct q as [|y q]; [|reflexivity]. rewrite rev_app_distr. reflexivity.
Qed.

Lemma prepend_prepend a b ps : ps <> [] -> prepend a (prepend b ps) = prepend (a ++ b) ps.
Proof. destruct ps as [|p ps]; [contradiction|]. intros _. cbn. rewrite app_assoc. reflexivity. Qed.

(** the record reader delivers exactly those lines *)
Lemma records_aux_spec eol : forall l cur,
  records_aux eol cur l = drop_last_empty (prepend (rev cur) (split_on eol l)).
Proof.
  induction l as [|x l IH]; intros cur; cbn [records_aux].
  - cbn [split_on prepend]. rewrite app_nil_r. unfold drop_last_empty. cbn [rev app].
    destruct cur as [|c cur]; [reflexivity|].
    destruct (rev (c :: cur)) eqn:E; [|reflexivity].
    apply (f_equal (@rev _)) in E. rewrite rev_involutive in E. discriminate.
  - destruct (N.eqb x eol) eqn:Ex.
    + cbn [split_on]. rewrite Ex. cbn [prepend]. rewrite app_nil_r.
      rewrite drop_last_empty_cons by apply split_on_ne.
      f_equal. rewrite IH. cbn [rev]. destruct (split_on eol l) eqn:E; [exfalso; exact (split_on_ne _ _ E)|].
      reflexivity.
    + rewrite IH, (split_on_cons_ne eol x l Ex). cbn [rev].
      rewrite prepend_prepend by apply split_on_ne. reflexivity.
Qed.

Theorem records_spec eol l : records eol l = drop_last_empty (split_on eol l).
Proof.
  unfold records. rewrite records_aux_spec. cbn [rev]. f_equal.
  destruct (split_on eol l) eqn:E; [exfalso; exact (split_on_ne _ _ E) | reflexivity].
Qed.

Lemma split_on_snoc eol l : split_on eol (l ++ [eol]) = split_on eol l ++ [[]].
Proof.
  induction l as [|x l IH]; cbn [app split_on].
  - rewrite N.eqb_refl. reflexivity.
  - destruct (N.eqb x eol); [rewrite IH; reflexivity|].
    rewrite IH. destruct (split_on eol l) as [|p ps] eqn:E; [exfalso; exact (split_on_ne _ _ E)|]. reflexivity.
Qed.

Lemma split_on_last_nonempty eol l x : N.eqb x eol = false ->
  exists ps p, split_on eol (l ++ [x]) = ps ++ [p] /\ p <> [].
Proof.
  intros Hx. induction l as [|y l IH]; cbn [app split_on].
  - rewrite Hx. exists [], [x]. split; [reflexivity | discriminate].
  - destruct IH as [ps [p [E Hp]]]. rewrite E. destruct (N.eqb y eol).
    + exists ([] :: ps), p. split; [reflexivity | exact Hp].
    + destruct ps as [|q ps]; cbn [app].
      * exists [], (y :: p). split; [reflexivity | discriminate].
      * exists ((y :: q) :: ps), p. split; [reflexivity | exact Hp].
Qed.

(** the buffered algorithm strips one trailing EOL and splits at every EOL: it indexes the
    same lines as the one-line-at-a-time reader, for every input other than the empty one *)
Theorem C05_same_lines eol input : input <> [] ->
  split_on eol (strip_one_suffix eol input) = records eol input.
Proof.
  intros Hne. rewrite records_spec. unfold strip_one_suffix.
  destruct (rev input) as [|x r] eqn:E.
  - apply (f_equal (@rev _)) in E. rewrite rev_involutive in E. cbn in E. contradiction.
  - assert (Hin : input = rev r ++ [x]).
    { apply (f_equal (@rev _)) in E. rewrite rev_involutive in E. cbn in E. exact E. }
    destruct (N.eqb x eol) eqn:Ex.
    + apply N.eqb_eq in Ex. subst x. rewrite Hin, split_on_snoc.
      unfold drop_last_empty. rewrite rev_app_distr. cbn [rev app]. rewrite rev_involutive. reflexivity.
    + rewrite Hin. destruct (split_on_last_nonempty eol (rev r) x Ex) as [ps [p [Es Hp]]].
      rewrite Es. unfold drop_last_empty. rewrite rev_app_distr. cbn [rev app].
      destruct p; [contradiction | reflexivity].
Qed.

(** splitting at a one-byte EOL is the general splitter of the model (what cut_str does
    with the EOL as delimiter) *)
Lemma split_go_byte eol : forall l cur,
  split_go [eol] 0 cur l = prepend (rev cur) (split_on eol l).
Proof.
  induction l as [|x l IH]; intros cur; cbn [split_go split_on].
  - cbn [prepend]. rewrite app_nil_r. reflexivity.
  - unfold starts_with. cbn [strip_prefix]. rewrite (N.eqb_sym eol x).
    destruct (N.eqb x eol) eqn:Ex.
    + cbn [length Nat.sub prepend]. rewrite app_nil_r. f_equal. rewrite IH. cbn [rev].
      destruct (split_on eol l) eqn:E; [exfalso; exact (split_on_ne _ _ E) | reflexivity].
    + rewrite IH. cbn [rev]. destruct (split_on eol l) as [|p ps] eqn:E; [exfalso; exact (split_on_ne _ _ E)|].
      cbn [prepend]. rewrite <- app_assoc. reflexivity.
Qed.

Theorem C05_buffered_fields_are_the_lines eol input :
  input <> [] -> strip_one_suffix eol input <> [] ->
  pieces (strip_one_suffix eol input)
         (fields_of_matches (lit_matches [eol] (strip_one_suffix eol input)) (strip_one_suffix eol input))
  = records eol input.
Proof.
  intros Hne Hs. rewrite (scan_ranges_split [eol] _ ltac:(discriminate) Hs).
  unfold split. rewrite split_go_byte. cbn [rev]. rewrite <- (C05_same_lines eol input Hne).
  destruct (split_on eol (strip_one_suffix eol input)) eqn:E; [exfalso; exact (split_on_ne _ _ E) | reflexivity].
Qed.
