(** C12: no index in the general path can go out of range, and the work of range
    expansion is bounded by the number of parts, not by the value of an index. *)
From TucModel Require Import Base.Bytes Base.ListX Model.Bounds Model.Scan Model.Opt Model.CutBytes
     Model.CutStr Model.FastLane Spec.Resolve Proofs.BoundsFacts Proofs.C06 Proofs.ScanSplit Proofs.C02.

(** matches sorted, non-overlapping, inside [start, len] *)
Fixpoint wf_ms (start : nat) (ms : list mtch) (len : nat) : Prop :=
  match ms with
  | [] => start <= len
  | m :: ms' => start <= fst m /\ fst m <= snd m /\ wf_ms (snd m) ms' len
  end.

(** in the gaps table every start is <= every later end, and every end is <= len *)
Lemma gaps_mono ms len : forall start i j a z,
  wf_ms start ms len -> i <= j ->
  nth_error (gaps_from start ms len) i = Some a ->
  nth_error (gaps_from start ms len) j = Some z ->
  start <= fst a /\ fst a <= snd z /\ snd z <= len.
Proof.
  induction ms as [|m ms IH]; intros start i j a z Hwf Hij Ha Hz; cbn [gaps_from] in *.
  - destruct i; [|destruct i; discriminate]. destruct j; [|destruct j; discriminate].
    cbn in Ha, Hz. injection Ha as <-. injection Hz as <-. cbn in *. lia.
  - destruct Hwf as [H1 [H2 H3]]. destruct i as [|i'].
    + cbn in Ha. injection Ha as <-. cbn [fst]. destruct j as [|j'].
      * cbn in Hz. injection Hz as <-. cbn [snd].
        assert (snd m <= len).
        { clear - H3. revert H3. generalize (snd m). induction ms as [|m' ms IH]; intros s H; cbn in *; [exact H|].
          destruct H as [A [B C]]. apply IH in C. lia. }
        lia.
      * cbn [nth_error] in Hz.
        assert (Hfirst : exists a0, nth_error (gaps_from (snd m) ms len) 0 = Some a0).
        { destruct ms; cbn; eexists; reflexivity. }
        destruct Hfirst as [a0 Ha0].
        destruct (IH (snd m) 0 j' a0 z H3 ltac:(lia) Ha0 Hz) as [P1 [P2 P3]]. lia.
    + destruct j as [|j']; [lia|]. cbn [nth_error] in Ha, Hz.
      destruct (IH (snd m) i' j' a z H3 ltac:(lia) Ha Hz) as [P1 [P2 P3]]. lia.
Qed.

Lemma wf_ms_weaken ms : forall s s' n n', s' <= s -> n <= n' -> wf_ms s ms n -> wf_ms s' ms n'.
Proof.
  induction ms as [|m ms IH]; intros s s' n n' Hs Hn; cbn [wf_ms]; [lia|].
  intros [A [B C]]. split; [lia|]. split; [exact B|]. eapply IH; [apply Nat.le_refl | exact Hn | exact C].
Qed.

(** the literal finder yields such matches *)
Lemma find_iter_wf d : forall l skip pos,
  wf_ms (pos + skip) (map (fun p => (p, p + length d)) (find_iter_aux d skip pos l))
        (Nat.max (pos + length l) (pos + skip)).
Proof.
  induction l as [|x l IH]; intros skip pos; cbn [find_iter_aux].
  - destruct skip; [destruct d|]; cbn [map wf_ms fst snd length]; lia.
  - destruct skip as [|k].
    + destruct (starts_with d (x :: l)) eqn:E.
      * cbn [map wf_ms fst snd]. split; [lia|]. split; [lia|].
        specialize (IH (length d - 1) (S pos)).
        apply starts_with_length in E. cbn [length] in *.
        eapply wf_ms_weaken; [| |exact IH]; lia.
      * specialize (IH 0 (S pos)). cbn [length].
        eapply wf_ms_weaken; [| |exact IH]; lia.
    + specialize (IH k (S pos)). cbn [length].
      eapply wf_ms_weaken; [| |exact IH]; lia.
Qed.

Lemma lit_matches_wf d line : wf_ms 0 (lit_matches d line) (length line).
Proof.
  unfold lit_matches, find_iter. pose proof (find_iter_wf d line 0 0) as H. cbn in H.
  rewrite Nat.max_l in H by lia. exact H.
Qed.

(** merging adjacent matches keeps them well-formed *)
Lemma merge_from_wf len : forall ms cur start,
  start <= fst cur -> fst cur <= snd cur -> wf_ms (snd cur) ms len ->
  wf_ms start (merge_adjacent_from cur ms) len.
Proof.
  induction ms as [|m ms IH]; intros cur start H1 H2 Hw; cbn [merge_adjacent_from].
  - cbn. repeat split; assumption.
  - cbn in Hw. destruct Hw as [A [B C]]. destruct (Nat.eqb (fst m) (snd cur)).
    + apply IH; cbn [fst snd]; [exact H1 | lia | exact C].
    + cbn [wf_ms]. split; [exact H1|]. split; [exact H2|]. apply IH; [exact A | exact B | exact C].
Qed.

Lemma merge_adjacent_wf ms len : wf_ms 0 ms len -> wf_ms 0 (merge_adjacent ms) len.
Proof.
  destruct ms as [|m ms]; [intros H; exact H|]. cbn [merge_adjacent wf_ms].
  intros [A [B C]]. apply merge_from_wf; assumption.
Qed.

(** the output loop of the general path never indexes out of range on a fields table
    built from well-formed matches *)
Theorem out_loop_no_panic o line ms bs :
  line <> [] -> wf_ms 0 ms (length line) -> Forall item_nz bs ->
  out_loop o line (fields_of_matches ms line) bs <> RPanic.
Proof.
  intros Hl Hwf Hnz. unfold fields_of_matches. destruct line as [|c line']; [contradiction|].
  set (line := c :: line') in *. set (fields := gaps_from 0 ms (length line)).
  induction bs as [|x bs IH]; [discriminate|].
  inversion Hnz as [|? ? Hx Hbs]; subst. specialize (IH Hbs).
  destruct x as [b|f]; cbn [out_loop].
  - destruct (try_into_range b (length fields)) as [[s e]|] eqn:E.
    + destruct (try_into_range_some b _ s e Hx E) as [_ [_ [_ Hse]]].
      unfold range_start, range_end.
      destruct (nth_error fields s) as [a|] eqn:Ea.
      2:{ apply nth_error_None in Ea. lia. }
      destruct (nth_error fields (e - 1)) as [z|] eqn:Ez.
      2:{ apply nth_error_None in Ez. lia. }
      destruct (gaps_mono ms (length line) 0 s (e - 1) a z Hwf ltac:(lia) Ea Ez) as [_ [P2 P3]].
      assert (G1 : (fst a <=? snd z) = true) by (apply Nat.leb_le; exact P2).
      assert (G2 : (snd z <=? length line) = true) by (apply Nat.leb_le; exact P3).
      rewrite G1, G2. cbn [andb].
      destruct (maybe_replace o (slice line (fst a) (snd z))) as [t|]; [|discriminate].
      destruct (emit_part o t); [|discriminate].
      destruct (out_loop o line fields bs); try discriminate. contradiction.
    + destruct (fallback_for b (o_fallback o)) as [fb|]; [|discriminate].
      destruct (emit_part o fb); [|discriminate].
      destruct (out_loop o line fields bs); try discriminate. contradiction.
  - destruct (out_loop o line fields bs); try discriminate. contradiction.
Qed.

(** range expansion allocates at most one bound per part, whatever the index values *)
Theorem unpack_cost b n : bound_nz b -> length (unpack_bound b n) <= Nat.max 1 n.
Proof.
  intros Hnz. unfold unpack_bound. destruct (try_into_range b n) as [[s e]|] eqn:E; [|cbn [length]; lia].
  destruct (try_into_range_some b n s e Hnz E) as [_ [_ [_ Hse]]].
  assert (forall st c, length (singles_from st c) = c) by (intros st c; revert st; induction c; intros; cbn; [|rewrite IHc]; reflexivity).
  rewrite H. lia.
Qed.

(** the fast lane never panics either (it computes what the general path computes) *)
Theorem fast_no_panic o l line0 :
  fast_eligible o = true -> from_vec l = Some (o_bounds o) -> Forall item_nz l ->
  cut_str o line0 <> Some RPanic -> cut_fast o line0 <> RPanic.
Proof.
  intros He Hf Hn H E. apply H. rewrite (C02_record o l line0 He Hf Hn), E. reflexivity.
Qed.
