(** C19: the model of parse_args + the -M eligibility test decides every option set as the
    statement says (finite table, checked by computation inside the kernel), and the -M
    eligibility is exactly the documented one. *)
From TucModel Require Import Base.Bytes Model.Bounds Model.BoundsParse Model.Scan Model.Regex Model.Opt
     Model.CutStr Model.Stream Model.Args Model.Main Spec.OptTable.

Definition tok (s : list N) : bytes := s.

(** a canonical command line for an abstract option set (representative values) *)
Definition render (s : optset) : args :=
  (match s_mode s with
   | MNone => []
   | MF => [k_f; [49; 44; 50]%N]
   | MC => [k_c; [49; 44; 50]%N]
   | MB => [k_b; [49; 44; 50]%N]
   | ML => [k_l; [49; 44; 50]%N]
   end)
  ++ (if s_d s then [k_d; [45%N]] else [])
  ++ (if s_e s then [k_e; [45%N]] else [])
  ++ (if s_g s then [k_g] else [])
  ++ (if s_p s then [k_p] else [])
  ++ (if s_s s then [k_s] else [])
  ++ (if s_m s then [k_m] else [])
  ++ (if s_j s then [k_j] else [])
  ++ (if s_nojoin s then [k_nojoin] else [])
  ++ (if s_json s then [k_json] else [])
  ++ (if s_r s then [k_r; [47%N]] else [])
  ++ (if s_t s then [k_t; [108%N]] else [])
  ++ (match s_M s with MAbsent => [] | MZero => [k_M; [48%N]] | MOne => [k_M; [49%N]] end).

Definition decide_model (s : optset) : decision :=
  match parse_args (render s) with
  | PExit1 => Reject
  | PInfo => Unspecified
  | PUnknown => Unspecified
  | POpt o =>
      if o_fixed_memory o then
        match stream_opt o with Some _ => Accept | None => Reject end
      else if match o_regex o with Some (RxRe _) => true | _ => false end
              && match o_replace o with None => true | Some _ => false end
              && (o_compress o || o_join o)
           then FailFirstRecord
           else Accept
  end.

Definition decision_eqb (a b : decision) : bool :=
  match a, b with
  | Reject, Reject | FailFirstRecord, FailFirstRecord | Accept, Accept => true
  | Unspecified, _ => true        (* the statement does not determine these *)
  | _, _ => false
  end.

Definition row_ok (s : optset) : bool := decision_eqb (decide_spec s) (decide_model s).

Lemma table_checked : forallb row_ok all_optsets = true.
Proof. vm_compute. reflexivity. Qed.

Theorem C19_table : forall s, In s all_optsets -> row_ok s = true.
Proof. exact (proj1 (forallb_forall row_ok all_optsets) table_checked). Qed.

(** the enumeration is complete *)
Lemma all_optsets_complete : forall s, In s all_optsets.
Proof.
  intros [mo d e g p s m j nj js r t M]. unfold all_optsets.
  assert (Hb : forall b, In b bools) by (intros []; cbn; tauto).
  apply in_flat_map. exists mo. split; [destruct mo; cbn; tauto|].
  apply in_flat_map. exists d. split; [apply Hb|].
  apply in_flat_map. exists e. split; [apply Hb|].
  apply in_flat_map. exists g. split; [apply Hb|].
  apply in_flat_map. exists p. split; [apply Hb|].
  apply in_flat_map. exists s. split; [apply Hb|].
  apply in_flat_map. exists m. split; [apply Hb|].
  apply in_flat_map. exists j. split; [apply Hb|].
  apply in_flat_map. exists nj. split; [apply Hb|].
  apply in_flat_map. exists js. split; [apply Hb|].
  apply in_flat_map. exists r. split; [apply Hb|].
  apply in_flat_map. exists t. split; [apply Hb|].
  apply in_map_iff. exists M. split; [reflexivity | destruct M; cbn; tauto].
Qed.

Theorem C19_every_option_set :
  forall s, decision_eqb (decide_spec s) (decide_model s) = true.
Proof. intros s. exact (C19_table s (all_optsets_complete s)). Qed.

(** "fails on the first record": with a regex, -j or -p and no replacement every record fails *)
Theorem C19_regex_join_without_replacement_fails o line :
  o_regex o <> None -> o_replace o = None -> (o_compress o || o_join o) = true ->
  cut_str o line = Some RErr.
Proof.
  intros Hr Hp Hc. unfold cut_str. destruct (o_regex o); [|contradiction]. rewrite Hp, Hc. reflexivity.
Qed.

(** -M eligibility, as documented *)
Theorem C19_stream_eligibility o :
  (exists so, stream_opt o = Some so) <->
  (exists d, o_delim o = [d])
  /\ o_complement o = false /\ o_greedy o = false /\ o_compress o = false /\ o_json o = false
  /\ o_btype o = BFields
  /\ (o_replace o = None \/ exists r, o_replace o = Some [r])
  /\ o_trim o = None /\ o_regex o = None /\ o_only_delimited o = false
  /\ forward_bounds_ok (items (o_bounds o)) = true.
Proof.
  unfold stream_opt. split.
  - intros [so H]. destruct (o_delim o) as [|d [|]]; try discriminate.
    destruct (o_complement o); [discriminate|]. destruct (o_greedy o); [discriminate|].
    destruct (o_compress o); [discriminate|]. destruct (o_json o); [discriminate|].
    destruct (o_btype o); try discriminate. cbn [btype_eqb negb orb] in H.
    destruct (o_replace o) as [[|r [|]]|]; try discriminate;
      (destruct (o_trim o); [discriminate|]); (destruct (o_regex o); [discriminate|]);
      (destruct (o_only_delimited o); [discriminate|]); cbn [orb] in H;
      (destruct (forward_bounds_ok (items (o_bounds o))); [|discriminate]);
      repeat split; eauto.
  - intros [[d Hd] [Hc [Hg [Hp [Hj [Hb [Hr [Ht [Hx [Hs Hf]]]]]]]]]].
    rewrite Hd, Hc, Hg, Hp, Hj, Hb, Ht, Hx, Hs, Hf. cbn [btype_eqb negb orb].
    destruct Hr as [->|[r ->]]; eexists; reflexivity.
Qed.
