(** C08, array level: the line --json prints for a record reads back, with a strict one-pass
    reader, as exactly the list of parts. *)
From TucModel Require Import Base.Bytes Model.Json Spec.JsonSpec Spec.Fields Spec.JsonArray Proofs.C08.
Local Open Scope N_scope.

Lemma jarr_escape_low :
  forall b0, In b0 (map N.of_nat (seq 0 32)) ->
  forall cur acc r, jarr JStr cur acc (json_escape_byte b0 ++ r) = jarr JStr (b0 :: cur) acc r.
Proof.
  cbn [seq map]. intros b0 H cur acc r.
  repeat (destruct H as [<-|H]; [reflexivity|]). contradiction.
Qed.

Lemma jarr_escape_byte b cur acc r :
  jarr JStr cur acc (json_escape_byte b ++ r) = jarr JStr (b :: cur) acc r.
Proof.
  destruct (N.ltb_spec b 32) as [Hlt|Hge].
  - apply jarr_escape_low. apply in_map_iff. exists (N.to_nat b).
    split; [apply N2Nat.id | apply in_seq; lia].
  - unfold json_escape_byte.
    destruct (N.eqb_spec b 34) as [->|H34]; [reflexivity|].
    destruct (N.eqb_spec b 92) as [->|H92]; [reflexivity|].
    destruct (N.eqb_spec b 8) as [->|H8]; [lia|].
    destruct (N.eqb_spec b 9) as [->|H9]; [lia|].
    destruct (N.eqb_spec b 10) as [->|H10]; [lia|].
    destruct (N.eqb_spec b 12) as [->|H12]; [lia|].
    destruct (N.eqb_spec b 13) as [->|H13]; [lia|].
    destruct (N.ltb_spec b 32) as [|_]; [lia|].
    cbn [app jarr].
    destruct (N.eqb_spec b 34) as [|_]; [contradiction|].
    destruct (N.eqb_spec b 92) as [|_]; [contradiction|].
    destruct (N.ltb_spec b 32) as [|_]; [lia|]. reflexivity.
Qed.

Lemma jarr_body s : forall cur acc r,
  jarr JStr cur acc (flat_map json_escape_byte s ++ r) = jarr JStr (rev s ++ cur) acc r.
Proof.
  induction s as [|b s IH]; intros cur acc r; [reflexivity|].
  cbn [flat_map rev]. rewrite <- app_assoc, jarr_escape_byte, IH, <- app_assoc. reflexivity.
Qed.

(** one element, from the opening quote to just after the closing one *)
Lemma jarr_string s acc r :
  jarr JStr [] acc (flat_map json_escape_byte s ++ ch_quote :: r) = jarr JAfter [] (s :: acc) r.
Proof.
  rewrite jarr_body, app_nil_r. cbn [jarr]. unfold ch_quote.
  change (34 =? 34) with true. cbv iota. rewrite rev_involutive. reflexivity.
Qed.

Lemma json_string_unfold s r :
  json_string s ++ r = ch_quote :: flat_map json_escape_byte s ++ ch_quote :: r.
Proof. unfold json_string. cbn [app]. rewrite <- app_assoc. reflexivity. Qed.

Lemma jarr_elements parts : forall p acc,
  jarr JStr [] acc (flat_map json_escape_byte p ++ ch_quote ::
                    flat_map (fun q => [ch_comma] ++ json_string q) parts ++ [ch_rbracket])
  = Some (rev acc ++ p :: parts).
Proof.
  induction parts as [|q parts IH]; intros p acc.
  - rewrite jarr_string. cbn [flat_map app jarr]. reflexivity.
  - rewrite jarr_string. cbn [flat_map]. rewrite <- app_assoc.
    cbn [app]. rewrite json_string_unfold.
    cbn [jarr]. unfold ch_comma, ch_quote. change (44 =? 44) with true. change (34 =? 34) with true.
    cbv iota. fold ch_quote. rewrite IH. cbn [rev]. rewrite <- app_assoc. reflexivity.
Qed.

Lemma intercalate_as_flat_map (sep : bytes) (f : bytes -> bytes) p parts :
  intercalate sep (map f (p :: parts)) = f p ++ flat_map (fun q => sep ++ f q) parts.
Proof.
  revert p; induction parts as [|q parts IH]; intros p.
  - cbn. rewrite app_nil_r. reflexivity.
  - change (intercalate sep (map f (p :: q :: parts)))
      with (f p ++ sep ++ intercalate sep (map f (q :: parts))).
    rewrite IH. cbn [flat_map]. rewrite <- app_assoc. reflexivity.
Qed.

(** what --json prints for a record: '[' e1 ',' e2 ... ']' with e_i the JSON string of part i *)
Definition json_array_line (parts : list bytes) : bytes :=
  [ch_lbracket] ++ intercalate [ch_comma] (map json_string parts) ++ [ch_rbracket].

Theorem json_array_roundtrip parts : json_read_array (json_array_line parts) = Some parts.
Proof.
  unfold json_read_array, json_array_line. destruct parts as [|p parts]; [reflexivity|].
  rewrite intercalate_as_flat_map. cbn [app jarr]. unfold ch_lbracket. change (91 =? 91) with true.
  cbv iota. rewrite <- app_assoc, json_string_unfold. cbn [jarr]. unfold ch_quote at 1.
  change (34 =? 93) with false. change (34 =? 34) with true. cbv iota.
  apply (jarr_elements parts p []).
Qed.
