(** C02: the early stop of the fast lane never changes what a bound resolves to. *)
From TucModel Require Import Base.Bytes Base.ListX Model.Bounds Model.Scan Model.Opt Model.CutBytes
     Model.CutStr Model.FastLane Spec.Resolve Proofs.BoundsFacts Proofs.C06.
Local Open Scope Z_scope.

(** all indexes positive, every right side closed and at most L *)
Definition bound_within (L : Z) (b : ubound) : Prop :=
  match bl b with SCont => True | SSome l => 0 < l end
  /\ match br b with SCont => False | SSome r => 0 < r <= L end.

Definition items_within (L : Z) (l : list bof) : Prop :=
  Forall (fun x => match x with Bound b => bound_within L b | Filler _ => True end) l.

(** resolving such a bound on L parts or on any larger number of parts gives the same
    range, and the same failure *)
Theorem early_stop_resolve L n b :
  bound_within (Z.of_nat L) b -> (L <= n)%nat ->
  try_into_range b L = try_into_range b n.
Proof.
  intros [Hl Hr] Hn. unfold try_into_range.
  destruct (br b) as [r|]; [|contradiction]. destruct (bl b) as [l|]; cbn [resolve_left resolve_right].
  - destruct (Z.of_nat L <? l) eqn:A.
    + (* l > L >= r : reversed, fails on both *)
      apply Z.ltb_lt in A. cbn [orb].
      destruct (Z.of_nat n <? l) eqn:A'; cbn [orb]; [reflexivity|].
      destruct (l <? - Z.of_nat n) eqn:B'; [reflexivity|].
      destruct (Z.of_nat n <? r) eqn:C'; [reflexivity|].
      destruct (r <? - Z.of_nat n) eqn:D'; cbn [orb]; [reflexivity|].
      destruct (l <? 0) eqn:E; [apply Z.ltb_lt in E; lia|].
      destruct (r <? 0) eqn:F; [apply Z.ltb_lt in F; lia|].
      destruct (r <=? l - 1) eqn:G; [reflexivity | apply Z.leb_gt in G; lia].
    + apply Z.ltb_ge in A.
      destruct (l <? - Z.of_nat L) eqn:B; [apply Z.ltb_lt in B; lia|]. cbn [orb].
      destruct (Z.of_nat L <? r) eqn:C; [apply Z.ltb_lt in C; lia|].
      destruct (r <? - Z.of_nat L) eqn:D; [apply Z.ltb_lt in D; lia|]. cbn [orb].
      destruct (Z.of_nat n <? l) eqn:A'; [apply Z.ltb_lt in A'; lia|].
      destruct (l <? - Z.of_nat n) eqn:B'; [apply Z.ltb_lt in B'; lia|]. cbn [orb].
      destruct (Z.of_nat n <? r) eqn:C'; [apply Z.ltb_lt in C'; lia|].
      destruct (r <? - Z.of_nat n) eqn:D'; [apply Z.ltb_lt in D'; lia|]. cbn [orb].
      destruct (l <? 0) eqn:E; [apply Z.ltb_lt in E; lia|].
      destruct (r <? 0) eqn:F; [apply Z.ltb_lt in F; lia|]. reflexivity.
  - destruct (Z.of_nat L <? r) eqn:C; [apply Z.ltb_lt in C; lia|].
    destruct (r <? - Z.of_nat L) eqn:D; [apply Z.ltb_lt in D; lia|]. cbn [orb].
    destruct (Z.of_nat n <? r) eqn:C'; [apply Z.ltb_lt in C'; lia|].
    destruct (r <? - Z.of_nat n) eqn:D'; [apply Z.ltb_lt in D'; lia|]. cbn [orb].
    destruct (r <? 0) eqn:F; [apply Z.ltb_lt in F; lia|]. reflexivity.
Qed.

(** ---------- last_interesting_field is the right-most bound, and only when every index is positive *)

Definition all_pos (bs : list ubound) : Prop :=
  Forall (fun b => match bl b with SCont => True | SSome l => 0 < l end
                   /\ match br b with SCont => True | SSome r => 0 < r end) bs.

Lemma is_sortable_pos l b0 :
  is_sortable l = true -> In b0 (bounds_only l) -> side_pos (br b0) = true ->
  all_pos (bounds_only l).
Proof.
  unfold is_sortable. intros Hs Hin Hp.
  assert (Hpos : existsb (fun b => side_pos (bl b) || side_pos (br b)) (bounds_only l) = true).
  { apply existsb_exists. exists b0. split; [exact Hin|]. rewrite Hp. apply orb_true_r. }
  rewrite Hpos, andb_true_r in Hs. apply negb_true_iff in Hs.
  apply Forall_forall. intros b Hb.
  assert (Hb' : side_nonpos (bl b) || side_nonpos (br b) = false).
  { destruct (side_nonpos (bl b) || side_nonpos (br b)) eqn:E; [|reflexivity].
    assert (existsb (fun b => side_nonpos (bl b) || side_nonpos (br b)) (bounds_only l) = true)
      by (apply existsb_exists; exists b; split; assumption).
    congruence. }
  apply orb_false_iff in Hb'. destruct Hb' as [H1 H2].
  split; [destruct (bl b) as [v|] | destruct (br b) as [v|]]; try exact I;
    cbn in *; apply negb_false_iff in H1 || apply negb_false_iff in H2;
    apply Z.ltb_lt; assumption.
Qed.

(** the accumulator of [rightmost] dominates every right side seen *)
Lemma rightmost_ge bs : forall acc L,
  all_pos bs ->
  (match acc with Some SCont => False | Some (SSome a) => 0 < a | None => True end) ->
  rightmost acc bs = Some (SSome L) ->
  (match acc with Some (SSome a) => a <= L | _ => True end)
  /\ Forall (fun b => match br b with SSome r => r <= L | SCont => False end) bs
  /\ (acc = None -> bs <> []).
Proof.
  induction bs as [|b bs IH]; intros acc L Hp Hacc; cbn [rightmost].
  - intros ->. destruct L as [|L|L]; split; try lia; split; try constructor; discriminate.
  - inversion Hp as [|? ? [Hbl Hbr] Hp']; subst.
    destruct acc as [[a|]|].
    + cbn [side_gt]. destruct (br b) as [r|] eqn:Er.
      * unfold side_gt. destruct (same_sign r a && (a <? r)) eqn:G.
        -- intros H. destruct (IH (Some (SSome r)) L Hp' Hbr H) as [H1 [H2 _]].
           apply andb_true_iff in G. destruct G as [_ G]. apply Z.ltb_lt in G.
           split; [lia|]. split; [|discriminate]. constructor; [rewrite Er; exact H1 | exact H2].
        -- intros H. destruct (IH (Some (SSome a)) L Hp' Hacc H) as [H1 [H2 _]].
           split; [exact H1|]. split; [|discriminate]. constructor; [|exact H2]. rewrite Er.
           apply andb_false_iff in G. destruct G as [G|G].
           ++ unfold same_sign in G. destruct (0 <? r) eqn:R; [|apply Z.ltb_ge in R; lia].
              destruct (0 <? a) eqn:A; [discriminate | apply Z.ltb_ge in A; lia].
           ++ apply Z.ltb_ge in G. lia.
      * (* an open right side wins and stays: the result would be SCont *)
        intros H. exfalso. clear - H. revert H. generalize bs. induction bs0 as [|b' bs' IHb]; cbn [rightmost].
        -- discriminate.
        -- destruct (br b'); cbn [side_gt]; exact IHb.
    + contradiction.
    + destruct (br b) as [r|] eqn:Er.
      * intros H. destruct (IH (Some (SSome r)) L Hp' Hbr H) as [H1 [H2 _]].
        split; [exact I|]. split; [|discriminate]. constructor; [rewrite Er; exact H1 | exact H2].
      * intros H. exfalso. clear - H. revert H. generalize bs. induction bs0 as [|b' bs' IHb]; cbn [rightmost].
        -- discriminate.
        -- destruct (br b'); cbn [side_gt]; exact IHb.
Qed.

Lemma rightmost_in bs : forall acc s,
  rightmost acc bs = Some s -> acc = Some s \/ exists b, In b bs /\ br b = s.
Proof.
  induction bs as [|b bs IH]; intros acc s; cbn [rightmost].
  - intros ->. left; reflexivity.
  - intros H. apply IH in H. destruct H as [H|[b' [Hin Hb]]].
    + destruct acc as [a|].
      * destruct (side_gt (br b) a); injection H as <-; [right; exists b; split; [left|]; reflexivity | left; reflexivity].
      * injection H as <-. right. exists b. split; [left|]; reflexivity.
    + right. exists b'. split; [right; exact Hin | exact Hb].
Qed.

Lemma mark_last_sides l :
  Forall2 (fun x y => match x, y with
                      | Bound a, Bound b => bl a = bl b /\ br a = br b /\ bfb a = bfb b
                      | Filler f, Filler g => f = g
                      | _, _ => False
                      end) l (mark_last l).
Proof.
  induction l as [|x l IH]; [constructor|]. destruct x as [b|f]; cbn [mark_last].
  - destruct (bounds_only l).
    + constructor; [repeat split|]. clear. induction l as [|y l IH]; constructor; [destruct y; repeat split | exact IH].
    + constructor; [repeat split | exact IH].
  - constructor; [reflexivity | exact IH].
Qed.

Lemma bounds_only_in l b : In b (bounds_only l) <-> In (Bound b) l.
Proof.
  induction l as [|x l IH]; [split; intros []|]. destruct x as [b'|f]; cbn [bounds_only flat_map app In].
  - rewrite IH. split; (intros [H|H]; [left; congruence | right; exact H]).
  - rewrite IH. split; [intros H; right; exact H | intros [H|H]; [discriminate | exact H]].
Qed.

(** last_interesting_field = L > 0 only when every index is positive, every right side is
    closed, and none exceeds L *)
Theorem lif_sound l u L :
  from_vec l = Some u -> lif u = SSome L -> 0 < L -> items_within L (items u).
Proof.
  unfold from_vec. destruct (bounds_only l) as [|b0 bs0] eqn:Eb; [discriminate|].
  intros H; injection H as <-. cbn [lif items]. intros Hl HL.
  destruct (is_sortable l) eqn:Es; [|discriminate].
  destruct (rightmost (Some (br b0)) bs0) as [s|] eqn:Er; [|discriminate]. subst s.
  change (rightmost None (b0 :: bs0) = Some (SSome L)) in Er.
  destruct (rightmost_in _ _ _ Er) as [H|[bm [Hin Hbm]]]; [discriminate|].
  assert (Hpos : all_pos (bounds_only l)).
  { apply (is_sortable_pos l bm Es); [rewrite Eb; exact Hin|]. rewrite Hbm. cbn. apply Z.ltb_lt, HL. }
  rewrite Eb in Hpos.
  destruct (rightmost_ge (b0 :: bs0) None L Hpos I Er) as [_ [Hle _]].
  (* transfer to the items of mark_last l *)
  unfold items_within. pose proof (mark_last_sides l) as F2.
  assert (G : forall x, In x l -> match x with Bound b => bound_within L b | Filler _ => True end).
  { intros x Hx. destruct x as [b|f]; [|exact I].
    assert (Hb : In b (b0 :: bs0)) by (rewrite <- Eb; apply bounds_only_in, Hx).
    unfold all_pos in Hpos. rewrite Forall_forall in Hpos. rewrite Forall_forall in Hle.
    specialize (Hpos b Hb). specialize (Hle b Hb).
    destruct Hpos as [P1 P2]. split; [exact P1|].
    destruct (br b) as [r|]; [lia | contradiction]. }
  clear - F2 G. induction F2 as [|x y l l' Hxy _ IH]; [constructor|].
  constructor.
  - specialize (G x (or_introl eq_refl)). destruct x as [a|f]; destruct y as [b|g]; try contradiction; [|exact I].
    destruct Hxy as [E1 [E2 _]]. unfold bound_within in *. rewrite <- E1, <- E2. exact G.
  - apply IH. intros z Hz. apply G. right; exact Hz.
Qed.

(** with a non-positive last_interesting_field the early stop never fires *)
Lemma scan_starts_no_stop lif ps : forall curr,
  0 <= curr -> (forall L, lif = SSome L -> L <= curr \/ Z.of_nat (length ps) + curr < L) ->
  scan_starts lif curr ps = (map S ps, curr + Z.of_nat (length ps)).
Proof.
  induction ps as [|i ps IH]; intros curr Hc Hl; cbn [scan_starts map length].
  - f_equal. lia.
  - destruct (side_eqb (SSome (curr + 1)) lif) eqn:E.
    + destruct lif as [L|]; [|discriminate]. cbn in E. apply Z.eqb_eq in E. subst L.
      destruct (Hl _ eq_refl); cbn [length] in *; lia.
    + rewrite (IH (curr + 1)); [f_equal; cbn [length]; lia | lia |].
      intros L HL. destruct (Hl L HL); cbn [length] in *; [left | right]; lia.
Qed.

(** with 1 <= L <= number of delimiters the scan keeps exactly the first L of them *)
Lemma scan_starts_stop L ps : forall curr,
  0 <= curr -> curr < L -> L - curr <= Z.of_nat (length ps) ->
  scan_starts (SSome L) curr ps = (map S (firstn (Z.to_nat (L - curr)) ps), L).
Proof.
  induction ps as [|i ps IH]; intros curr Hc Hlt Hle; cbn [scan_starts length] in *; [lia|].
  destruct (side_eqb (SSome (curr + 1)) (SSome L)) eqn:E.
  - cbn in E. apply Z.eqb_eq in E. replace (Z.to_nat (L - curr)) with 1%nat by lia.
    cbn [firstn map]. subst L. reflexivity.
  - cbn in E. apply Z.eqb_neq in E. rewrite (IH (curr + 1)) by lia.
    replace (Z.to_nat (L - curr)) with (S (Z.to_nat (L - (curr + 1)))) by lia. reflexivity.
Qed.

(** ---------- the two field tables describe the same fields *)
Lemma find_iter_byte d l : forall pos, find_iter_aux [d] 0 pos l = positions_from d pos l.
Proof.
  induction l as [|x l IH]; intros pos; cbn [find_iter_aux positions_from]; [reflexivity|].
  unfold starts_with. cbn [strip_prefix]. rewrite (N.eqb_sym d x).
  destruct (N.eqb x d); cbn [length Nat.sub]; rewrite IH; reflexivity.
Qed.

Lemma gaps_combine ps len : forall start,
  gaps_from start (map (fun p => (p, p + 1)%nat) ps) len
  = combine (start :: map S ps) (ps ++ [len]).
Proof.
  induction ps as [|p ps IH]; intros start; cbn [map gaps_from combine app fst snd]; [reflexivity|].
  rewrite IH. replace (p + 1)%nat with (S p) by lia. reflexivity.
Qed.

(** positions are strictly increasing and inside the line *)
Lemma positions_sorted d l : forall pos i j x y,
  (i < j)%nat -> nth_error (positions_from d pos l) i = Some x ->
  nth_error (positions_from d pos l) j = Some y -> (x < y)%nat.
Proof.
  induction l as [|c l IH]; intros pos i j x y Hij; cbn [positions_from].
  - destruct i; discriminate.
  - assert (Hge : forall k v, nth_error (positions_from d (S pos) l) k = Some v -> (S pos <= v)%nat).
    { clear. revert pos. induction l as [|c l IH]; intros pos k v; cbn [positions_from]; [destruct k; discriminate|].
      destruct (N.eqb c d).
      - destruct k; cbn; [intros H; injection H as <-; lia | intros H; apply IH in H; lia].
      - intros H; apply IH in H; lia. }
    destruct (N.eqb c d).
    + destruct i; destruct j; try lia; cbn [nth_error].
      * intros H; injection H as <-. intros H. apply Hge in H. lia.
      * apply IH. lia.
    + apply IH, Hij.
Qed.

Lemma positions_bound d l : forall pos k v,
  nth_error (positions_from d pos l) k = Some v -> (pos <= v < pos + length l)%nat.
Proof.
  induction l as [|c l IH]; intros pos k v; cbn [positions_from]; [destruct k; discriminate|].
  destruct (N.eqb c d).
  - destruct k; cbn [nth_error length].
    + intros H; injection H as <-. lia.
    + intros H; apply IH in H. lia.
  - intros H; apply IH in H. cbn [length]. lia.
Qed.

Lemma nth_error_combine {A B} (a : list A) (b : list B) i :
  nth_error (combine a b) i =
  match nth_error a i, nth_error b i with Some x, Some y => Some (x, y) | _, _ => None end.
Proof.
  revert b i; induction a as [|x a IH]; intros b i; [destruct i; reflexivity|].
  destruct b as [|y b]; [destruct i; cbn; [reflexivity | destruct (nth_error a i); reflexivity]|].
  destruct i; cbn; [reflexivity | apply IH].
Qed.

(** the general shape of the comparison: [Sg]/[Eg] are the starts and ends of the fields,
    [F] a table of starts such that F[e] - 1 = Eg[e-1] *)
Record tables_agree (len m : nat) (Sg Eg F : list nat) : Prop := {
  ta_len : length Sg = length Eg;
  ta_m : (m <= length Eg)%nat /\ length F = S m;
  ta_start : forall s, (s < m)%nat -> nth_error F s = nth_error Sg s;
  ta_end : forall e, (1 <= e <= m)%nat -> nth_error F e = option_map S (nth_error Eg (e - 1));
  ta_mono : forall i j x y, (i <= j)%nat -> nth_error Sg i = Some x -> nth_error Eg j = Some y ->
                            (x <= y <= len)%nat
}.

Definition eligible_plain (o : opt) (d : byte) : Prop :=
  o_delim o = [d] /\ o_replace o = None /\ o_json o = false /\ o_btype o = BFields /\ o_regex o = None.

Lemma out_loops_agree o d line Sg Eg F m bs :
  eligible_plain o d ->
  tables_agree (length line) m Sg Eg F ->
  Forall (fun x => match x with
                   | Bound b => bound_nz b /\ try_into_range b m = try_into_range b (length Eg)
                   | Filler _ => True
                   end) bs ->
  fast_out o d line F bs = out_loop o line (combine Sg Eg) bs.
Proof.
  intros [Hd [Hr [Hj [Hb Hx]]]] T. induction bs as [|x bs IH]; intros HF; [reflexivity|].
  inversion HF as [|? ? Hx0 HF']; subst. specialize (IH HF').
  destruct x as [b|f]; cbn [fast_out out_loop]; [|rewrite IH; reflexivity].
  destruct Hx0 as [Hnz0 Hx0].
  assert (HMR : forall t, maybe_replace o t = Some t) by (intros t; unfold maybe_replace; rewrite Hb, Hr; reflexivity).
  assert (HEP : forall t, emit_part o t = Some t) by (intros t; unfold emit_part; rewrite Hj; reflexivity).
  destruct T as [Tl [Tm1 Tm2] Ts Te Tmono].
  assert (Hlen : @length mtch (combine Sg Eg) = length Eg) by (unfold mtch; rewrite combine_length, Tl; lia).
  rewrite Tm2, Hlen. replace (S m - 1)%nat with m by lia. rewrite Hx0.
  destruct (try_into_range b (length Eg)) as [[s e]|] eqn:E.
  - (* resolved: the same slice *)
    assert (Hse : (s < e <= m)%nat).
    { destruct (try_into_range_some b m s e Hnz0 Hx0) as [_ [_ [_ H]]]. exact H. }
    unfold range_start, range_end, mtch. rewrite !nth_error_combine.
    rewrite (Ts s ltac:(lia)), (Te e ltac:(lia)).
    destruct (nth_error Sg s) as [a|] eqn:Ea.
    2:{ exfalso. apply nth_error_None in Ea. lia. }
    destruct (nth_error Eg s) as [a'|] eqn:Ea'.
    2:{ exfalso. apply nth_error_None in Ea'. lia. }
    destruct (nth_error Eg (e - 1)) as [z|] eqn:Ez.
    2:{ exfalso. apply nth_error_None in Ez. lia. }
    destruct (nth_error Sg (e - 1)) as [z'|] eqn:Ez'.
    2:{ exfalso. apply nth_error_None in Ez'. lia. }
    cbn [option_map fst snd].
    destruct (Tmono s (e - 1)%nat a z ltac:(lia) Ea Ez) as [M1 M2].
    replace (S z - 1)%nat with z by lia.
    assert (G1 : (1 <=? S z)%nat = true) by (apply Nat.leb_le; lia).
    assert (G2 : (a <=? z)%nat = true) by (apply Nat.leb_le; lia).
    assert (G3 : (z <=? length line)%nat = true) by (apply Nat.leb_le; lia).
    rewrite G1, G2, G3. cbn [andb].
    rewrite HMR, HEP, IH, Hd, Hr. reflexivity.
  - destruct (fallback_for b (o_fallback o)); [|reflexivity]. rewrite HEP, IH, Hd, Hr. reflexivity.
Qed.

(** ---------- the concrete tables of one record *)
Section Record.
  Local Open Scope nat_scope.
  Variable d : byte.
  Variable line : bytes.
  Let P := positions_from d 0 line.
  Let len := length line.
  Let Sg := (0 :: map S P)%nat.
  Let Eg := P ++ [len].

  Lemma Eg_nth j y : nth_error Eg j = Some y ->
    (j < length P /\ nth_error P j = Some y) \/ (j = length P /\ y = len).
  Proof.
    unfold Eg. intros H. destruct (Nat.lt_ge_cases j (length P)) as [Hlt|Hge].
    - left. split; [exact Hlt|]. rewrite nth_error_app1 in H by exact Hlt. exact H.
    - right. rewrite nth_error_app2 in H by exact Hge.
      destruct (j - length P)%nat as [|k] eqn:Ek; cbn in H.
      + injection H as <-. split; [lia | reflexivity].
      + destruct k; discriminate.
  Qed.

  Lemma tables_mono i j x y : (i <= j)%nat -> nth_error Sg i = Some x -> nth_error Eg j = Some y ->
    (x <= y <= len)%nat.
  Proof.
    intros Hij Hx Hy. apply Eg_nth in Hy.
    assert (Hyb : (y <= len)%nat).
    { destruct Hy as [[_ Hy]|[_ ->]]; [|lia]. apply positions_bound in Hy. unfold len. lia. }
    split; [|exact Hyb]. unfold Sg in Hx. destruct i as [|i']; cbn [nth_error] in Hx.
    - injection Hx as <-. lia.
    - rewrite nth_error_map in Hx. destruct (nth_error P i') as [p|] eqn:Ep; [|discriminate].
      cbn in Hx. injection Hx as <-.
      destruct Hy as [[Hj Hy]|[-> ->]].
      + assert (p < y)%nat by (eapply (positions_sorted d line 0 i' j); [lia | exact Ep | exact Hy]). lia.
      + apply positions_bound in Ep. unfold len. lia.
  Qed.

  Lemma tables_full : tables_agree len (S (length P)) Sg Eg (0 :: map S P ++ [S len])%nat.
  Proof.
    constructor.
    - unfold Sg, Eg. cbn [length]. rewrite map_length, app_length. cbn. lia.
    - unfold Eg. rewrite app_length. cbn [length]. rewrite app_length, map_length. cbn. lia.
    - intros s Hs. unfold Sg. change (0 :: map S P ++ [S len])%nat with ((0 :: map S P) ++ [S len])%nat.
      apply nth_error_app1. cbn [length]. rewrite map_length. lia.
    - intros e He. destruct e as [|e']; [lia|]. cbn [nth_error]. replace (S e' - 1)%nat with e' by lia.
      unfold Eg. replace (map S P ++ [S len]) with (map S (P ++ [len])) by (rewrite map_app; reflexivity).
      apply nth_error_map.
    - exact tables_mono.
  Qed.

  Lemma tables_stop L : (1 <= L <= length P)%nat ->
    tables_agree len L Sg Eg (0 :: map S (firstn L P))%nat.
  Proof.
    intros HL. constructor.
    - unfold Sg, Eg. cbn [length]. rewrite map_length, app_length. cbn. lia.
    - unfold Eg. rewrite app_length. cbn [length]. rewrite map_length, firstn_length. lia.
    - intros s Hs. unfold Sg. destruct s as [|s']; [reflexivity|]. cbn [nth_error].
      rewrite !nth_error_map. f_equal. apply nth_error_firstn_lt. lia.
    - intros e He. destruct e as [|e']; [lia|]. cbn [nth_error]. replace (S e' - 1)%nat with e' by lia.
      rewrite nth_error_map. f_equal. unfold Eg.
      rewrite nth_error_app1 by lia. apply nth_error_firstn_lt. lia.
    - exact tables_mono.
  Qed.
End Record.

(** ---------- one record: the fast lane prints what the general path prints *)
Lemma fast_eligible_plain o : fast_eligible o = true ->
  exists d, eligible_plain o d /\ o_complement o = false /\ o_greedy o = false /\ o_compress o = false.
Proof.
  unfold fast_eligible. intros H. repeat (apply andb_true_iff in H; destruct H as [H ?]).
  destruct (o_delim o) as [|d [|]] eqn:Ed; try discriminate.
  exists d. unfold eligible_plain. rewrite Ed.
  destruct (o_replace o); [discriminate|]. destruct (o_regex o); [discriminate|].
  destruct (o_btype o); try discriminate.
  repeat match goal with H : negb _ = true |- _ => apply negb_true_iff in H end.
  repeat split; assumption.
Qed.

Lemma lif_nonzero l u : from_vec l = Some u -> Forall item_nz l -> lif u <> SSome 0.
Proof.
  unfold from_vec. destruct (bounds_only l) as [|b0 bs0] eqn:Eb; [discriminate|].
  intros H; injection H as <-. cbn [lif]. intros Hnz.
  destruct (is_sortable l); [|discriminate].
  destruct (rightmost (Some (br b0)) bs0) as [s|] eqn:Er; [|discriminate].
  change (rightmost None (b0 :: bs0) = Some s) in Er.
  destruct (rightmost_in _ _ _ Er) as [H|[bm [Hin Hbm]]]; [discriminate|].
  intros ->. rewrite <- Eb in Hin. apply bounds_only_in in Hin.
  rewrite Forall_forall in Hnz. specialize (Hnz _ Hin). cbn in Hnz. destruct Hnz as [_ Hr].
  rewrite Hbm in Hr. cbn in Hr. contradiction.
Qed.

Lemma C06_item_nz_mark l : Forall item_nz l -> Forall item_nz (mark_last l).
Proof.
  intros H. pose proof (mark_last_sides l) as F2. induction F2 as [|x y l l' Hxy _ IH]; [constructor|].
  inversion H as [|? ? Hx Hl]; subst. constructor; [|apply IH, Hl].
  destruct x as [a|f]; destruct y as [b|g]; try contradiction; [|exact I].
  destruct Hxy as [E1 [E2 _]]. cbn in *. unfold bound_nz in *. rewrite <- E1, <- E2. exact Hx.
Qed.

Definition buffer_of (o : opt) (d : byte) (line0 : bytes) : bytes :=
  match o_trim o with Some k => trim_lit k [d] line0 | None => line0 end.

Lemma cut_fast_unfold o d line0 : o_delim o = [d] ->
  cut_fast o line0 =
  match buffer_of o d line0 with
  | [] => ROk (if o_only_delimited o then [] else [o_eol o])
  | _ =>
      let buffer := buffer_of o d line0 in
      let sc := scan_starts (lif (o_bounds o)) 0 (positions_from d 0 buffer) in
      if (snd sc =? 0) && o_only_delimited o then ROk []
      else
        match fast_out o d buffer
                (0%nat :: fst sc ++ (if side_eqb (SSome (snd sc)) (lif (o_bounds o)) then [] else [S (length buffer)]))
                (items (o_bounds o)) with
        | ROk body => ROk (body ++ [o_eol o])
        | e => e
        end
  end.
Proof.
  intros Hd. unfold cut_fast, buffer_of. rewrite Hd.
  destruct (o_trim o) as [k|]; cbv iota.
  - destruct (trim_lit k [d] line0) as [|c0 buf]; [reflexivity|].
    destruct (scan_starts (lif (o_bounds o)) 0 (positions_from d 0 (c0 :: buf))); reflexivity.
  - destruct line0 as [|c0 buf]; [reflexivity|].
    destruct (scan_starts (lif (o_bounds o)) 0 (positions_from d 0 (c0 :: buf))); reflexivity.
Qed.

Lemma cut_str_unfold o d line0 :
  eligible_plain o d -> o_complement o = false -> o_greedy o = false -> o_compress o = false ->
  cut_str o line0 =
  match buffer_of o d line0 with
  | [] => Some (ROk (if o_only_delimited o then [] else [o_eol o]))
  | _ =>
      let buffer := buffer_of o d line0 in
      let fields := fields_of_matches (lit_matches [d] buffer) buffer in
      if o_only_delimited o && Nat.eqb (length fields) 1 then Some (ROk [])
      else
        match out_loop o buffer fields (items (o_bounds o)) with
        | ROk body => Some (ROk (body ++ [o_eol o]))
        | e => Some e
        end
  end.
Proof.
  intros [Hd [Hr [Hj [Hb Hx]]]] Hc Hg Hp. unfold cut_str, buffer_of.
  rewrite Hx, Hr, Hd, Hb, Hc, Hg, Hp, Hj. cbn [andb orb btype_eqb].
  destruct (o_trim o) as [k|]; cbv iota.
  - destruct (trim_lit k [d] line0) as [|c0 buf]; [reflexivity|]. cbv zeta.
    match goal with |- (if ?c then _ else _) = _ => destruct c end; [reflexivity|].
    match goal with |- match ?x with _ => _ end = _ => destruct x end; reflexivity.
  - destruct line0 as [|c0 buf]; [reflexivity|]. cbv zeta.
    match goal with |- (if ?c then _ else _) = _ => destruct c end; [reflexivity|].
    match goal with |- match ?x with _ => _ end = _ => destruct x end; reflexivity.
Qed.

Theorem C02_record o l line0 :
  fast_eligible o = true ->
  from_vec l = Some (o_bounds o) -> Forall item_nz l ->
  cut_str o line0 = Some (cut_fast o line0).
Proof.
  intros He Hfv Hnz.
  destruct (fast_eligible_plain o He) as [d [Hpl [Hc [Hg Hp]]]].
  pose proof Hpl as [Hd [Hr [Hj [Hb Hx]]]].
  assert (Hnz' : Forall item_nz (items (o_bounds o))).
  { unfold from_vec in Hfv. destruct (bounds_only l); [discriminate|]. injection Hfv as <-. cbn.
    apply C06_item_nz_mark, Hnz. }
  rewrite (cut_str_unfold o d line0 Hpl Hc Hg Hp), (cut_fast_unfold o d line0 Hd).
  destruct (buffer_of o d line0) as [|c0 buf] eqn:Ebuf; [reflexivity|].
  set (line := c0 :: buf). cbv zeta. set (P := positions_from d 0 line).
  assert (Hms : lit_matches [d] line = map (fun p => (p, p + 1)%nat) P).
  { unfold lit_matches, find_iter. rewrite find_iter_byte. reflexivity. }
  rewrite Hms. unfold fields_of_matches.
  change (match line with [] => [] | _ :: _ => gaps_from 0 (map (fun p => (p, (p + 1)%nat)) P) (length line) end)
    with (gaps_from 0 (map (fun p => (p, (p + 1)%nat)) P) (length line)).
  rewrite gaps_combine.
  assert (Hlen : @length mtch (combine (0%nat :: map S P) (P ++ [length line])) = S (length P)).
  { unfold mtch. rewrite combine_length. cbn [length]. rewrite map_length, app_length. cbn [length]. lia. }
  rewrite Hlen.
  assert (HK0 : (Z.of_nat (length P) =? 0) = (S (length P) =? 1)%nat).
  { destruct (length P); reflexivity. }
  assert (Hfull :
    (if (Z.of_nat (length P) =? 0) && o_only_delimited o then ROk []
     else match fast_out o d line (0%nat :: map S P ++ [S (length line)]) (items (o_bounds o)) with
          | ROk body => ROk (body ++ [o_eol o]) | e => e end)
    = match (if o_only_delimited o && (S (length P) =? 1)%nat then Some (ROk [])
             else match out_loop o line (combine (0%nat :: map S P) (P ++ [length line])) (items (o_bounds o)) with
                  | ROk body => Some (ROk (body ++ [o_eol o])) | e => Some e end)
      with Some r => r | None => RPanic end).
  { rewrite HK0, andb_comm. destruct (o_only_delimited o && (S (length P) =? 1)%nat); [reflexivity|].
    rewrite (out_loops_agree o d line (0%nat :: map S P) (P ++ [length line])
               (0%nat :: map S P ++ [S (length line)]) (S (length P)) (items (o_bounds o)) Hpl).
    - destruct (out_loop o line (combine (0%nat :: map S P) (P ++ [length line])) (items (o_bounds o))); reflexivity.
    - apply tables_full.
    - rewrite Forall_forall in Hnz'. apply Forall_forall. intros x Hx0. specialize (Hnz' x Hx0).
      destruct x as [b|f]; [|exact I]. split; [exact Hnz'|].
      rewrite app_length. cbn [length]. replace (length P + 1)%nat with (S (length P)) by lia. reflexivity. }
  assert (Hwrap : forall (X : option rres) (Y : rres),
             Y = match X with Some r => r | None => RPanic end -> (exists r, X = Some r) -> X = Some Y).
  { intros X Y -> [r ->]. reflexivity. }
  apply Hwrap.
  2:{ destruct (o_only_delimited o && (S (length P) =? 1)%nat); [eexists; reflexivity|].
      destruct (out_loop o line (combine (0%nat :: map S P) (P ++ [length line])) (items (o_bounds o)));
        eexists; reflexivity. }
  (* does the early stop fire? *)
  destruct (lif (o_bounds o)) as [L|] eqn:El.
  - destruct (Z_lt_le_dec 0 L) as [HLpos|HLnonpos].
    + destruct (Z_le_gt_dec L (Z.of_nat (length P))) as [HLK|HLK].
      * (* it fires after L delimiters *)
        rewrite (scan_starts_stop L P 0 ltac:(lia) HLpos ltac:(lia)).
        rewrite Z.sub_0_r. cbn [fst snd side_eqb]. rewrite Z.eqb_refl.
        destruct (L =? 0) eqn:EL0; [apply Z.eqb_eq in EL0; lia|]. cbn [andb].
        assert (HSP : (S (length P) =? 1)%nat = false) by (apply Nat.eqb_neq; lia).
        rewrite HSP, andb_false_r. rewrite app_nil_r.
        rewrite (out_loops_agree o d line (0%nat :: map S P) (P ++ [length line])
                   (0%nat :: map S (firstn (Z.to_nat L) P)) (Z.to_nat L) (items (o_bounds o)) Hpl).
        -- destruct (out_loop o line (combine (0%nat :: map S P) (P ++ [length line])) (items (o_bounds o)));
             reflexivity.
        -- apply tables_stop. fold line P. lia.
        -- pose proof (lif_sound l (o_bounds o) L Hfv El HLpos) as Hw. unfold items_within in Hw.
           rewrite Forall_forall in Hw. rewrite Forall_forall in Hnz'. apply Forall_forall. intros x Hx0.
           specialize (Hw x Hx0). specialize (Hnz' x Hx0). destruct x as [b|f]; [|exact I].
           split; [exact Hnz'|]. rewrite app_length. cbn [length].
           apply early_stop_resolve; [rewrite Z2Nat.id by lia; exact Hw | lia].
      * rewrite (scan_starts_no_stop (SSome L) P 0 ltac:(lia)).
        2:{ intros L' HL'. injection HL' as <-. right. lia. }
        cbn [Z.add fst snd side_eqb].
        destruct (Z.of_nat (length P) =? L) eqn:EKL; [apply Z.eqb_eq in EKL; lia|].
        exact Hfull.
    + assert (HL0 : L <> 0) by (intros ->; exact (lif_nonzero l (o_bounds o) Hfv Hnz El)).
      rewrite (scan_starts_no_stop (SSome L) P 0 ltac:(lia)).
      2:{ intros L' HL'. injection HL' as <-. left. lia. }
      cbn [Z.add fst snd side_eqb].
      destruct (Z.of_nat (length P) =? L) eqn:EKL; [apply Z.eqb_eq in EKL; lia|].
      exact Hfull.
  - rewrite (scan_starts_no_stop SCont P 0 ltac:(lia)) by discriminate.
    cbn [Z.add fst snd side_eqb]. exact Hfull.
Qed.

Lemma run_records_ext cut1 cut2 rs : (forall r, cut1 r = cut2 r) ->
  forall acc, run_records cut1 rs acc = run_records cut2 rs acc.
Proof.
  intros H. induction rs as [|r rs IH]; intros acc; cbn [run_records]; [reflexivity|].
  rewrite H. destruct (cut2 r) as [[o| | |]|]; try reflexivity. apply IH.
Qed.

(** whole runs: same stdout, same status, same completed records on failure *)
Theorem C02_run o l input :
  fast_eligible o = true -> from_vec l = Some (o_bounds o) -> Forall item_nz l ->
  read_and_cut_fast o input = read_and_cut_str o input.
Proof.
  intros He Hfv Hnz. unfold read_and_cut_fast, read_and_cut_str.
  apply run_records_ext. intros r. symmetry. exact (C02_record o l r He Hfv Hnz).
Qed.
