(** The general path on one record, for a one-byte literal delimiter and plain options,
    in terms of the record's fields: each bound prints its fields joined by the (replacement)
    delimiter.  Used by C01 (output loop) and C03 (the reference of -M). *)
From TucModel Require Import Base.Bytes Base.ListX Model.Bounds Model.BoundsParse Model.Scan Model.Opt
     Model.CutBytes Model.CutStr Model.FastLane Spec.Fields Proofs.BoundsFacts Proofs.C06 Proofs.ScanSplit
     Proofs.C02 Proofs.C05 Proofs.C12.

(** [ps] are positions of the byte [d] in [line], increasing, all >= start *)
Fixpoint dpos (line : bytes) (d : byte) (start : nat) (ps : list nat) : Prop :=
  match ps with
  | [] => start <= length line
  | p :: ps' => start <= p /\ (exists rest, skipn p line = d :: rest) /\ dpos line d (S p) ps'
  end.

Lemma positions_dpos d : forall l pre,
  dpos (pre ++ l) d (length pre) (positions_from d (length pre) l).
Proof.
  induction l as [|x l IH]; intros pre; cbn [positions_from dpos].
  - rewrite app_length. cbn. lia.
  - specialize (IH (pre ++ [x])). rewrite <- app_assoc in IH. cbn [app] in IH.
    rewrite app_length in IH. cbn [length] in IH. replace (length pre + 1) with (S (length pre)) in IH by lia.
    destruct (N.eqb_spec x d) as [->|Hne].
    + cbn [dpos]. split; [lia|]. split; [exists l; apply skipn_app_length|]. exact IH.
    + clear - IH. revert IH. generalize (positions_from d (S (length pre)) l). intros ps.
      destruct ps as [|p ps]; cbn [dpos]; [lia|]. intros [A B]. split; [lia | exact B].
Qed.

Lemma dpos_end line d : forall ps start, dpos line d start ps -> start <= length line.
Proof.
  induction ps as [|p ps IH]; intros start; cbn [dpos]; [tauto|].
  intros [A [[rest E] C]]. apply IH in C. lia.
Qed.

Lemma slice_one (line : bytes) p d rest : skipn p line = d :: rest -> slice line p (S p) = [d].
Proof. intros H. unfold slice. rewrite H. replace (S p - p) with 1 by lia. reflexivity. Qed.

Definition dup1 (p : nat) : mtch := (p, p + 1).

(** the slice from the start of field s to the end of field e-1 is those fields joined by d *)
Lemma range_slice line d : forall ps start s e a z,
  dpos line d start ps -> s < e ->
  nth_error (gaps_from start (map dup1 ps) (length line)) s = Some a ->
  nth_error (gaps_from start (map dup1 ps) (length line)) (e - 1) = Some z ->
  slice line (fst a) (snd z)
  = intercalate [d] (firstn (e - s) (skipn s (pieces line (gaps_from start (map dup1 ps) (length line))))).
Proof.
  induction ps as [|p ps IH]; intros start s e a z Hd Hse Ha Hz; cbn [map gaps_from] in *.
  - destruct s; [|destruct s; discriminate]. destruct e as [|[|e']]; try lia; [|cbn in Hz; destruct e'; discriminate].
    cbn in Ha, Hz. injection Ha as <-. injection Hz as <-. cbn. reflexivity.
  - destruct Hd as [H1 [[rest Hp] H3]]. change (dup1 p) with (p, p + 1) in *. cbn [fst snd] in *.
    replace (p + 1) with (S p) in * by lia.
    destruct s as [|s'].
    + cbn in Ha. injection Ha as <-. cbn [fst].
      destruct e as [|[|e']]; [lia | |].
      * cbn in Hz. injection Hz as <-. cbn [snd pieces map firstn skipn Nat.sub fst snd intercalate]. reflexivity.
      * replace (S (S e') - 1) with (S e') in Hz by lia. cbn [nth_error] in Hz.
        assert (Hfirst : exists a0, nth_error (gaps_from (S p) (map dup1 ps) (length line)) 0 = Some a0 /\ fst a0 = S p).
        { destruct ps; cbn; eexists; split; reflexivity. }
        destruct Hfirst as [a0 [Ha0 Hf0]].
        specialize (IH (S p) 0 (S e') a0 z H3 ltac:(lia) Ha0).
        replace (S e' - 1) with e' in IH by lia. specialize (IH Hz). rewrite Hf0 in IH.
        assert (Hz' : S p <= snd z /\ snd z <= length line).
        { pose proof (dpos_end _ _ _ _ H3).
          assert (W : wf_ms (S p) (map dup1 ps) (length line)).
          { clear - H3. revert H3. generalize (S p). induction ps as [|q ps IH]; intros st; cbn [dpos map wf_ms dup1 fst snd].
            - tauto.
            - intros [A [[r E] C]]. split; [exact A|]. split; [lia|]. replace (q + 1) with (S q) by lia. apply IH, C. }
          destruct (gaps_mono _ _ (S p) 0 e' a0 z W ltac:(lia) Ha0 Hz) as [Q1 [Q2 Q3]]. lia. }
        rewrite (slice_split line start p (snd z)) by lia.
        rewrite (slice_split line p (S p) (snd z)) by lia.
        rewrite (slice_one line p d rest Hp), IH.
        cbn [pieces map skipn fst snd]. replace (S (S e') - 0) with (S (S e')) by lia.
        replace (S e' - 0) with (S e') by lia. cbn [firstn].
        fold (pieces line (gaps_from (S p) (map dup1 ps) (length line))).
        destruct (pieces line (gaps_from (S p) (map dup1 ps) (length line))) as [|q qs] eqn:Eq.
        { destruct ps; discriminate. }
        cbn [firstn intercalate skipn]. reflexivity.
    + destruct e as [|e']; [lia|]. replace (S e' - 1) with e' in Hz by lia.
      cbn [nth_error] in Ha. destruct e' as [|e'']; [lia|]. cbn [nth_error] in Hz.
      specialize (IH (S p) s' (S e'') a z H3 ltac:(lia) Ha).
      replace (S e'' - 1) with e'' in IH by lia. specialize (IH Hz).
      rewrite IH. cbn [pieces map skipn]. replace (S (S e'') - S s') with (S e'' - s') by lia. reflexivity.
Qed.

(** replacing the matches = joining the gaps with the replacement (any match list) *)
Lemma gaps_from_nonempty start ms len : gaps_from start ms len <> [].
Proof. destruct ms; discriminate. Qed.

Lemma replace_is_intercalate line rep : forall ms start,
  replace_matches_from line start ms rep
  = intercalate rep (pieces line (gaps_from start ms (length line))).
Proof.
  induction ms as [|m ms IH]; intros start; cbn [replace_matches_from gaps_from pieces map fst snd intercalate].
  - unfold slice. symmetry. apply firstn_all2. rewrite skipn_length. lia.
  - rewrite IH. fold (pieces line (gaps_from (snd m) ms (length line))).
    destruct (pieces line (gaps_from (snd m) ms (length line))) as [|q qs] eqn:E.
    + exfalso. apply (gaps_from_nonempty (snd m) ms (length line)). unfold pieces in E.
      destruct (gaps_from (snd m) ms (length line)); [reflexivity | discriminate].
    + reflexivity.
Qed.

(** fields of a one-byte split contain no delimiter; joining them and splitting again is the identity *)
Definition dfree (d : byte) (f : bytes) : Prop := Forall (fun x => N.eqb x d = false) f.

Lemma split_on_dfree d : forall l, Forall (dfree d) (split_on d l).
Proof.
  induction l as [|x l IH]; cbn [split_on]; [repeat constructor|].
  destruct (N.eqb x d) eqn:E; [constructor; [constructor | exact IH]|].
  destruct (split_on d l) as [|p ps]; [repeat constructor; exact E|].
  inversion IH as [|? ? Hp Hps]; subst. constructor; [constructor; assumption | exact Hps].
Qed.

Lemma split_on_dfree_one d f : dfree d f -> split_on d f = [f].
Proof.
  induction f as [|x f IH]; intros H; [reflexivity|]. inversion H as [|? ? Hx Hf]; subst.
  cbn [split_on]. rewrite Hx, (IH Hf). reflexivity.
Qed.

Lemma split_on_app_dfree d f rest : dfree d f ->
  split_on d (f ++ d :: rest) = f :: split_on d rest.
Proof.
  induction f as [|x f IH]; intros H; cbn [app split_on].
  - rewrite N.eqb_refl. reflexivity.
  - inversion H as [|? ? Hx Hf]; subst. rewrite Hx, (IH Hf). reflexivity.
Qed.

Lemma split_intercalate d : forall fs, fs <> [] -> Forall (dfree d) fs ->
  split_on d (intercalate [d] fs) = fs.
Proof.
  induction fs as [|f fs IH]; intros Hne Hf; [contradiction|].
  inversion Hf as [|? ? H1 H2]; subst. destruct fs as [|g fs'].
  - cbn [intercalate]. apply split_on_dfree_one, H1.
  - change (intercalate [d] (f :: g :: fs')) with (f ++ [d] ++ intercalate [d] (g :: fs')).
    cbn [app]. rewrite split_on_app_dfree by exact H1. f_equal. apply IH; [discriminate | exact H2].
Qed.

Lemma split_byte d l : split [d] l = split_on d l.
Proof.
  unfold split. rewrite split_go_byte. cbn [rev]. destruct (split_on d l) as [|p ps] eqn:E; [|reflexivity].
  exfalso. exact (split_on_ne _ _ E).
Qed.

(** the text of a range of fields with its delimiters replaced *)
Lemma replace_joined d rep fs : fs <> [] -> Forall (dfree d) fs ->
  replace_matches (intercalate [d] fs) (lit_matches [d] (intercalate [d] fs)) rep = intercalate rep fs.
Proof.
  intros Hne Hf. unfold replace_matches. rewrite replace_is_intercalate.
  destruct (intercalate [d] fs) as [|c t] eqn:Et.
  - (* the only way to join to the empty text is a single empty field *)
    cbn. destruct fs as [|f [|g fs']]; [contradiction | | ].
    + cbn in Et. subst f. reflexivity.
    + exfalso. change (intercalate [d] (f :: g :: fs')) with (f ++ [d] ++ intercalate [d] (g :: fs')) in Et.
      destruct f; discriminate.
  - rewrite <- Et.
    assert (Hs : pieces (intercalate [d] fs) (gaps_from 0 (lit_matches [d] (intercalate [d] fs)) (length (intercalate [d] fs)))
                 = split [d] (intercalate [d] fs)).
    { pose proof (scan_ranges_split [d] (intercalate [d] fs) ltac:(discriminate)) as H.
      unfold fields_of_matches in H. rewrite Et in *. apply H. discriminate. }
    rewrite Hs, split_byte, split_intercalate by assumption. reflexivity.
Qed.

(** ---------- the value-level meaning of one record under plain options *)
Definition rep_of (o : opt) (d : byte) : bytes := match o_replace o with Some nd => nd | None => [d] end.

Fixpoint spec_items (fs : list bytes) (generic : option bytes) (join : bool) (rep : bytes)
         (its : list bof) : option bytes :=
  match its with
  | [] => Some []
  | Filler f :: r => option_map (app f) (spec_items fs generic join rep r)
  | Bound b :: r =>
      match (match try_into_range b (length fs) with
             | Some (s, e) => Some (intercalate rep (firstn (e - s) (skipn s fs)))
             | None => fallback_for b generic
             end) with
      | None => None
      | Some p =>
          option_map (fun t => p ++ (if join && negb (blast b) then rep else []) ++ t)
                     (spec_items fs generic join rep r)
      end
  end.

Definition plain_opts (o : opt) (d : byte) : Prop :=
  o_delim o = [d] /\ o_regex o = None /\ o_json o = false /\ btype_eqb (o_btype o) BChars = false
  /\ o_complement o = false /\ o_greedy o = false /\ o_compress o = false.

Lemma lit_matches_byte d line : lit_matches [d] line = map dup1 (positions_from d 0 line).
Proof. unfold lit_matches, find_iter. rewrite find_iter_byte. reflexivity. Qed.

Lemma pieces_length line rs : length (pieces line rs) = length rs.
Proof. unfold pieces. apply map_length. Qed.

Lemma firstn_skipn_dfree {A} (P : A -> Prop) (l : list A) a b : Forall P l -> Forall P (firstn a (skipn b l)).
Proof.
  intros H. apply Forall_forall. intros x Hx. rewrite Forall_forall in H. apply H.
  eapply in_skipn, in_firstn, Hx.
Qed.

Lemma out_loop_plain o d line its :
  plain_opts o d -> line <> [] -> Forall item_nz its ->
  let fields := gaps_from 0 (map dup1 (positions_from d 0 line)) (length line) in
  out_loop o line fields its
  = match spec_items (split_on d line) (o_fallback o) (o_join o) (rep_of o d) its with
    | Some x => ROk x
    | None => RErr
    end.
Proof.
  intros [Hd [Hx [Hj [Hb [Hc [Hg Hp]]]]]] Hl Hnz fields.
  assert (Hfs : pieces line fields = split_on d line).
  { unfold fields. pose proof (scan_ranges_split [d] line ltac:(discriminate) Hl) as H.
    unfold fields_of_matches in H. rewrite lit_matches_byte in H. destruct line as [|c l]; [contradiction|].
    rewrite <- split_byte. exact H. }
  assert (Hlen : length fields = length (split_on d line)) by (rewrite <- Hfs, pieces_length; reflexivity).
  assert (Hdp : dpos line d 0 (positions_from d 0 line)) by apply (positions_dpos d line []).
  assert (HEP : forall t, emit_part o t = Some t) by (intros t; unfold emit_part; rewrite Hj; reflexivity).
  induction its as [|x its IH]; [reflexivity|].
  inversion Hnz as [|? ? Hx0 Hnz']; subst. specialize (IH Hnz').
  destruct x as [b|f]; cbn [out_loop spec_items].
  - rewrite Hlen.
    destruct (try_into_range b (length (split_on d line))) as [[s e]|] eqn:E.
    + destruct (try_into_range_some b _ s e Hx0 E) as [_ [_ [_ Hse]]].
      unfold range_start, range_end.
      destruct (nth_error fields s) as [a|] eqn:Ea.
      2:{ apply nth_error_None in Ea. lia. }
      destruct (nth_error fields (e - 1)) as [z|] eqn:Ez.
      2:{ apply nth_error_None in Ez. lia. }
      assert (W : wf_ms 0 (map dup1 (positions_from d 0 line)) (length line)).
      { rewrite <- lit_matches_byte. apply lit_matches_wf. }
      destruct (gaps_mono _ _ 0 s (e - 1) a z W ltac:(lia) Ea Ez) as [_ [P2 P3]].
      assert (G1 : (fst a <=? snd z) = true) by (apply Nat.leb_le; exact P2).
      assert (G2 : (snd z <=? length line) = true) by (apply Nat.leb_le; exact P3).
      rewrite G1, G2. cbn [andb].
      rewrite (range_slice line d _ 0 s e a z Hdp ltac:(lia) Ea Ez).
      fold fields. rewrite Hfs.
      set (sub := firstn (e - s) (skipn s (split_on d line))).
      assert (Hsub_ne : sub <> []).
      { unfold sub. intros H0. apply (f_equal (@length _)) in H0. rewrite firstn_length, skipn_length in H0. cbn in H0. lia. }
      assert (Hsub_free : Forall (dfree d) sub) by (unfold sub; apply firstn_skipn_dfree, split_on_dfree).
      assert (HMR : maybe_replace o (intercalate [d] sub) = Some (intercalate (rep_of o d) sub)).
      { unfold maybe_replace, rep_of. rewrite Hx.
        destruct (o_btype o); try discriminate; (destruct (o_replace o) as [nd|]; [|reflexivity]);
          rewrite Hd; f_equal; apply replace_joined; assumption. }
      rewrite HMR, HEP, IH. unfold rep_of. rewrite Hd.
      destruct (spec_items (split_on d line) (o_fallback o) (o_join o) _ its); cbn [option_map]; reflexivity.
    + destruct (fallback_for b (o_fallback o)) as [fb|]; [|reflexivity].
      rewrite HEP, IH. unfold rep_of. rewrite Hd.
      destruct (spec_items (split_on d line) (o_fallback o) (o_join o) _ its); cbn [option_map]; reflexivity.
  - rewrite IH. destruct (spec_items (split_on d line) (o_fallback o) (o_join o) (rep_of o d) its); reflexivity.
Qed.

(** one record under plain options (no trim, no -s): exactly the requested fields *)
Theorem general_plain_record o d line :
  plain_opts o d -> o_trim o = None -> o_only_delimited o = false ->
  line <> [] -> Forall item_nz (items (o_bounds o)) ->
  cut_str o line
  = Some (match spec_items (split_on d line) (o_fallback o) (o_join o) (rep_of o d) (items (o_bounds o)) with
          | Some x => ROk (x ++ [o_eol o])
          | None => RErr
          end).
Proof.
  intros Hpl Ht Hs Hl Hnz. pose proof Hpl as [Hd [Hx [Hj [Hb [Hc [Hg Hp]]]]]].
  unfold cut_str. rewrite Hx, Ht, Hs, Hd, Hb, Hc, Hg, Hp, Hj. cbn [andb orb].
  destruct line as [|c l]; [contradiction|]. cbv iota.
  rewrite lit_matches_byte. unfold fields_of_matches.
  rewrite (out_loop_plain o d (c :: l) (items (o_bounds o)) Hpl Hl Hnz).
  destruct (spec_items (split_on d (c :: l)) (o_fallback o) (o_join o) (rep_of o d) (items (o_bounds o)));
    reflexivity.
Qed.
