(** C15: the complement of a resolved bound is the parts before it followed by the parts after it *)
From TucModel Require Import Base.Bytes Base.ListX Model.Bounds Model.CutBytes Model.Scan Model.Opt
     Model.CutStr Spec.Resolve Proofs.BoundsFacts Proofs.C06.
Local Open Scope Z_scope.

Lemma of_range_resolves a z n : (a < z <= n)%nat -> try_into_range (of_range a z) n = Some (a, z).
Proof.
  intros H. unfold try_into_range, of_range. cbn [bl br resolve_left resolve_right].
  destruct (Z.of_nat n <? Z.of_nat a + 1) eqn:A; [apply Z.ltb_lt in A; lia|].
  destruct (Z.of_nat a + 1 <? - Z.of_nat n) eqn:B; [apply Z.ltb_lt in B; lia|].
  destruct (Z.of_nat n <? Z.of_nat z) eqn:C; [apply Z.ltb_lt in C; lia|].
  destruct (Z.of_nat z <? - Z.of_nat n) eqn:D; [apply Z.ltb_lt in D; lia|]. cbn.
  destruct (Z.of_nat a + 1 <? 0) eqn:E; [apply Z.ltb_lt in E; lia|].
  destruct (Z.of_nat z <? 0) eqn:F; [apply Z.ltb_lt in F; lia|].
  destruct (Z.of_nat z <=? Z.of_nat a + 1 - 1) eqn:G; [apply Z.leb_le in G; lia|].
  f_equal. f_equal; lia.
Qed.

(** the specification: the non-empty ones among [0,s) and [e,n), in that order *)
Definition complement_spec (n s e : nat) : list (nat * nat) :=
  (if Nat.ltb 0 s then [(0%nat, s)] else []) ++ (if Nat.ltb e n then [(e, n)] else []).

Lemma complement_std_range_spec n s e : (s < e <= n)%nat ->
  complement_std_range n s e = complement_spec n s e.
Proof.
  intros H. unfold complement_std_range, complement_spec.
  destruct (Nat.ltb_spec 0 s) as [Hs|Hs]; destruct (Nat.ltb_spec e n) as [He|He];
    destruct (Nat.eqb_spec e n) as [Hen|Hen]; try lia;
    destruct s as [|s]; try lia; reflexivity.
Qed.

(** C15 core: each bound of the complement resolves, and they denote exactly the parts
    before and the parts after the original bound, in that order *)
Theorem C15_core b n s e :
  bound_nz b -> try_into_range b n = Some (s, e) ->
  exists cs, complement_bound b n = Some cs
             /\ map (fun c => try_into_range c n) cs = map Some (complement_spec n s e)
             /\ Forall (fun c => bfb c = None /\ blast c = false) cs.
Proof.
  intros Hnz E. pose proof (try_into_range_some b n s e Hnz E) as [_ [_ [_ Hse]]].
  unfold complement_bound. rewrite E. eexists. split; [reflexivity|].
  rewrite (complement_std_range_spec n s e Hse). unfold complement_spec.
  destruct (Nat.ltb_spec 0 s) as [Hs|Hs]; destruct (Nat.ltb_spec e n) as [He|He];
    cbn [app map fst snd]; rewrite ?of_range_resolves by lia;
    (split; [reflexivity | repeat constructor]).
Qed.

(** what the complement selects: everything but the selected parts, order kept *)
Theorem C15_selects {A} (parts : list A) s e : (s < e <= length parts)%nat ->
  concat (map (fun r => slice parts (fst r) (snd r)) (complement_spec (length parts) s e))
  = firstn s parts ++ skipn e parts.
Proof.
  intros H. unfold complement_spec.
  destruct (Nat.ltb_spec 0 s) as [Hs|Hs]; destruct (Nat.ltb_spec e (length parts)) as [He|He];
    cbn [app map concat fst snd]; unfold slice; rewrite ?app_nil_r, ?Nat.sub_0_r; cbn [skipn].
  - f_equal. rewrite firstn_all2; [reflexivity|]. rewrite skipn_length. lia.
  - rewrite (skipn_all2 parts) by lia. rewrite app_nil_r. reflexivity.
  - replace s with 0%nat by lia. cbn [firstn app]. rewrite firstn_all2; [reflexivity|].
    rewrite skipn_length. lia.
  - replace s with 0%nat by lia. rewrite (skipn_all2 parts) by lia. reflexivity.
Qed.

(** '2' behaves as '1,3:' *)
Example C15_example :
  complement_bound (mkB (SSome 2) (SSome 2) false None) 5
  = Some [of_range 0 1; of_range 2 5].
Proof. reflexivity. Qed.

(** if every bound covers all the parts, nothing is left and the record fails *)
Lemma complement_items_all l n :
  Forall (fun x => match x with Bound b => try_into_range b n = Some (0%nat, n) | Filler _ => True end) l ->
  bounds_only (complement_items l n) = [].
Proof.
  induction l as [|x l IH]; intros H; [reflexivity|].
  inversion H as [|? ? Hx Hl]; subst. specialize (IH Hl).
  destruct x as [b|f]; cbn [complement_items flat_map].
  - unfold complement_bound. rewrite Hx. unfold complement_std_range. rewrite Nat.eqb_refl.
    cbn [map app]. exact IH.
  - cbn [app bounds_only flat_map]. exact IH.
Qed.

Theorem C15_nothing_left l n :
  Forall (fun x => match x with Bound b => try_into_range b n = Some (0%nat, n) | Filler _ => True end) l ->
  complement_list l n = None.
Proof.
  intros H. unfold complement_list.
  change (bounds_only (complement_items l n)) with (bounds_only (complement_items l n)).
  rewrite (complement_items_all l n H). reflexivity.
Qed.
