(** C18: the four sequential replacements applied to literal text are one left-to-right pass. *)
From TucModel Require Import Base.Bytes Model.Bounds Model.BoundsParse Spec.Fields Spec.BoundsGrammar.
Local Open Scope N_scope.

Lemma replace2_cons_ne a b rep x s : (x =? a) = false -> replace2 a b rep (x :: s) = x :: replace2 a b rep s.
Proof. intros H. cbn [replace2]. destruct s as [|y t]; [reflexivity|]. rewrite H. reflexivity. Qed.

Lemma replace2_cons_ne2 a b rep x y s : (y =? b) = false ->
  replace2 a b rep (x :: y :: s) = x :: replace2 a b rep (y :: s).
Proof. intros H. cbn [replace2]. rewrite H, andb_false_r. reflexivity. Qed.

Lemma replace2_pair a b rep s : replace2 a b rep (a :: b :: s) = rep ++ replace2 a b rep s.
Proof. cbn [replace2]. rewrite !N.eqb_refl. reflexivity. Qed.

Lemma replace2_single a b rep x : replace2 a b rep [x] = [x].
Proof. reflexivity. Qed.

(** the head after a pass: unchanged, or the replacement byte *)
Lemma replace2_head a b c s :
  hd_error (replace2 a b [c] s) = hd_error s \/ hd_error (replace2 a b [c] s) = Some c.
Proof.
  destruct s as [|x [|y t]]; [left; reflexivity | left; reflexivity|].
  cbn [replace2]. destruct ((x =? a) && (y =? b)); [right; reflexivity | left; reflexivity].
Qed.

Lemma replace2_head_same a b s : hd_error (replace2 a b [a] s) = hd_error s.
Proof.
  destruct s as [|x [|y t]]; [reflexivity | reflexivity|].
  cbn [replace2]. destruct ((x =? a) && (y =? b)) eqn:E; [|reflexivity].
  apply andb_true_iff in E. destruct E as [E _]. apply N.eqb_eq in E. subst x. reflexivity.
Qed.

Definition R1 := replace2 ch_lbrace ch_lbrace [ch_lbrace].
Definition R2 := replace2 ch_rbrace ch_rbrace [ch_rbrace].
Definition R3 := replace2 ch_backslash ch_n [LF].
Definition R4 := replace2 ch_backslash ch_t [TAB].

Lemma render_filler_R s : render_filler s = R4 (R3 (R2 (R1 s))).
Proof. reflexivity. Qed.

(** a byte followed by [X]: the pass leaves it alone when it is not the first byte of the
    pattern, or when the head of [X] is not the second *)
Lemma pass_keeps a b rep x X :
  (x =? a) = false \/ (forall y, hd_error X = Some y -> (y =? b) = false) ->
  replace2 a b rep (x :: X) = x :: replace2 a b rep X.
Proof.
  intros [H|H]; [apply replace2_cons_ne, H|].
  destruct X as [|y t]; [reflexivity|]. apply replace2_cons_ne2. apply H. reflexivity.
Qed.

Theorem render_filler_is_spec : forall t, render_filler t = render_spec t.
Proof.
  intros t. rewrite render_filler_R.
  remember (length t) as n eqn:Hn. revert t Hn.
  induction n as [n IH] using lt_wf_ind. intros t Hn.
  destruct t as [|x r]; [reflexivity|].
  destruct r as [|y r'].
  { cbn [render_spec]. reflexivity. }
  assert (IHr : R4 (R3 (R2 (R1 (y :: r')))) = render_spec (y :: r')).
  { apply (IH (length (y :: r'))); [subst n; cbn; lia | reflexivity]. }
  assert (IHr' : R4 (R3 (R2 (R1 r'))) = render_spec r').
  { apply (IH (length r')); [subst n; cbn; lia | reflexivity]. }
  change (render_spec (x :: y :: r'))
    with (if (x =? ch_lbrace) && (y =? ch_lbrace) then ch_lbrace :: render_spec r'
          else if (x =? ch_rbrace) && (y =? ch_rbrace) then ch_rbrace :: render_spec r'
          else if (x =? ch_backslash) && (y =? ch_n) then LF :: render_spec r'
          else if (x =? ch_backslash) && (y =? ch_t) then TAB :: render_spec r'
          else x :: render_spec (y :: r')).
  (* heads of the intermediate texts *)
  assert (H1 : hd_error (R1 (y :: r')) = Some y) by (unfold R1; rewrite replace2_head_same; reflexivity).
  assert (H2 : hd_error (R2 (R1 (y :: r'))) = Some y) by (unfold R2; rewrite replace2_head_same; exact H1).
  assert (H3 : hd_error (R3 (R2 (R1 (y :: r')))) = Some y \/ hd_error (R3 (R2 (R1 (y :: r')))) = Some LF).
  { unfold R3. destruct (replace2_head ch_backslash ch_n LF (R2 (R1 (y :: r')))) as [E|E];
      [left; rewrite E; exact H2 | right; exact E]. }
  destruct ((x =? ch_lbrace) && (y =? ch_lbrace)) eqn:E1.
  { apply andb_true_iff in E1. destruct E1 as [Ex Ey]. apply N.eqb_eq in Ex. apply N.eqb_eq in Ey. subst x y.
    unfold R1 at 1. rewrite replace2_pair. cbn [app]. fold R1.
    unfold R2 at 1. rewrite replace2_cons_ne by reflexivity. fold R2.
    unfold R3 at 1. rewrite replace2_cons_ne by reflexivity. fold R3.
    unfold R4 at 1. rewrite replace2_cons_ne by reflexivity. fold R4.
    rewrite IHr'. reflexivity. }
  destruct ((x =? ch_rbrace) && (y =? ch_rbrace)) eqn:E2.
  { apply andb_true_iff in E2. destruct E2 as [Ex Ey]. apply N.eqb_eq in Ex. apply N.eqb_eq in Ey. subst x y.
    unfold R1 at 1. rewrite replace2_cons_ne by reflexivity. rewrite replace2_cons_ne by reflexivity. fold R1.
    unfold R2 at 1. rewrite replace2_pair. cbn [app]. fold R2.
    unfold R3 at 1. rewrite replace2_cons_ne by reflexivity. fold R3.
    unfold R4 at 1. rewrite replace2_cons_ne by reflexivity. fold R4.
    rewrite IHr'. reflexivity. }
  destruct ((x =? ch_backslash) && (y =? ch_n)) eqn:E3.
  { apply andb_true_iff in E3. destruct E3 as [Ex Ey]. apply N.eqb_eq in Ex. apply N.eqb_eq in Ey. subst x y.
    unfold R1 at 1. rewrite replace2_cons_ne by reflexivity. rewrite replace2_cons_ne by reflexivity. fold R1.
    unfold R2 at 1. rewrite replace2_cons_ne by reflexivity. rewrite replace2_cons_ne by reflexivity. fold R2.
    unfold R3 at 1. rewrite replace2_pair. cbn [app]. fold R3.
    unfold R4 at 1. rewrite replace2_cons_ne by reflexivity. fold R4.
    rewrite IHr'. reflexivity. }
  destruct ((x =? ch_backslash) && (y =? ch_t)) eqn:E4.
  { apply andb_true_iff in E4. destruct E4 as [Ex Ey]. apply N.eqb_eq in Ex. apply N.eqb_eq in Ey. subst x y.
    unfold R1 at 1. rewrite replace2_cons_ne by reflexivity. rewrite replace2_cons_ne by reflexivity. fold R1.
    unfold R2 at 1. rewrite replace2_cons_ne by reflexivity. rewrite replace2_cons_ne by reflexivity. fold R2.
    unfold R3 at 1. rewrite replace2_cons_ne2 by reflexivity. rewrite replace2_cons_ne by reflexivity. fold R3.
    unfold R4 at 1. rewrite replace2_pair. cbn [app]. fold R4.
    rewrite IHr'. reflexivity. }
  (* no pattern starts at x: every pass keeps x and goes on *)
  assert (K1 : R1 (x :: y :: r') = x :: R1 (y :: r')).
  { unfold R1. apply pass_keeps. destruct (x =? ch_lbrace) eqn:A; [|left; reflexivity].
    right. intros y0 Hy. injection Hy as <-. cbn [andb] in E1. exact E1. }
  assert (K2 : R2 (x :: R1 (y :: r')) = x :: R2 (R1 (y :: r'))).
  { unfold R2. apply pass_keeps. destruct (x =? ch_rbrace) eqn:A; [|left; reflexivity].
    right. intros y0 Hy. rewrite H1 in Hy. injection Hy as <-. cbn [andb] in E2. exact E2. }
  assert (K3 : R3 (x :: R2 (R1 (y :: r'))) = x :: R3 (R2 (R1 (y :: r')))).
  { unfold R3. apply pass_keeps. destruct (x =? ch_backslash) eqn:A; [|left; reflexivity].
    right. intros y0 Hy. rewrite H2 in Hy. injection Hy as <-. cbn [andb] in E3. exact E3. }
  assert (K4 : R4 (x :: R3 (R2 (R1 (y :: r')))) = x :: R4 (R3 (R2 (R1 (y :: r'))))).
  { unfold R4. apply pass_keeps. destruct (x =? ch_backslash) eqn:A; [|left; reflexivity].
    right. intros y0 Hy. destruct H3 as [H3|H3]; rewrite H3 in Hy; injection Hy as <-;
      [cbn [andb] in E4; exact E4 | reflexivity]. }
  rewrite K1, K2, K3, K4, IHr. reflexivity.
Qed.
