(** Facts about try_into_range: it is exactly the specification's [resolves] / positions. *)
From TucModel Require Import Base.Bytes Model.Bounds Spec.Resolve.
Local Open Scope Z_scope.


(** Well-formed sides never hold index 0 (the parser rejects it). *)
Definition side_nz (s : side) : Prop := match s with SSome v => v <> 0 | SCont => True end.
Definition bound_nz (b : ubound) : Prop := side_nz (bl b) /\ side_nz (br b).

Lemma resolve_left_some s n v :
  0 <= n -> side_nz s -> resolve_left s n = Some v ->
  side_in_parts s n /\ v = match s with SCont => 0 | SSome x => pos_of x n - 1 end.
Proof.
  intros Hn Hnz. destruct s as [x|]; cbn [resolve_left side_in_parts side_nz] in *.
  - destruct ((n <? x) || (x <? - n)) eqn:E; [discriminate|].
    apply orb_false_iff in E. destruct E as [E1 E2].
    apply Z.ltb_ge in E1. apply Z.ltb_ge in E2.
    intros H. injection H as <-. unfold in_parts, pos_of.
    destruct (x <? 0) eqn:Ex.
    + apply Z.ltb_lt in Ex. split; [right; lia | lia].
    + apply Z.ltb_ge in Ex. split; [left; lia | lia].
  - intros H. injection H as <-. split; [exact I | reflexivity].
Qed.

Lemma resolve_left_none s n :
  0 <= n -> resolve_left s n = None -> ~ side_in_parts s n.
Proof.
  intros Hn. destruct s as [x|]; cbn [resolve_left side_in_parts]; [|discriminate].
  destruct ((n <? x) || (x <? - n)) eqn:E; [|discriminate].
  intros _. apply orb_true_iff in E. unfold in_parts.
  destruct E as [E|E]; [apply Z.ltb_lt in E | apply Z.ltb_lt in E]; lia.
Qed.

Lemma resolve_right_some s n v :
  0 <= n -> side_nz s -> resolve_right s n = Some v ->
  side_in_parts s n /\ v = match s with SCont => n | SSome x => pos_of x n end.
Proof.
  intros Hn Hnz. destruct s as [x|]; cbn [resolve_right side_in_parts side_nz] in *.
  - destruct ((n <? x) || (x <? - n)) eqn:E; [discriminate|].
    apply orb_false_iff in E. destruct E as [E1 E2].
    apply Z.ltb_ge in E1. apply Z.ltb_ge in E2.
    intros H. injection H as <-. unfold in_parts, pos_of.
    destruct (x <? 0) eqn:Ex.
    + apply Z.ltb_lt in Ex. split; [right; lia | lia].
    + apply Z.ltb_ge in Ex. split; [left; lia | lia].
  - intros H. injection H as <-. split; [exact I | reflexivity].
Qed.

Lemma resolve_right_none s n :
  0 <= n -> resolve_right s n = None -> ~ side_in_parts s n.
Proof.
  intros Hn. destruct s as [x|]; cbn [resolve_right side_in_parts]; [|discriminate].
  destruct ((n <? x) || (x <? - n)) eqn:E; [|discriminate].
  intros _. apply orb_true_iff in E. unfold in_parts.
  destruct E as [E|E]; [apply Z.ltb_lt in E | apply Z.ltb_lt in E]; lia.
Qed.

(** try_into_range succeeds exactly on the bounds that resolve, and yields the
    0-based half-open interval [first_pos-1, last_pos). *)
Theorem try_into_range_some b n s e :
  bound_nz b -> try_into_range b n = Some (s, e) ->
  resolves b n
  /\ Z.of_nat s = first_pos b (Z.of_nat n) - 1
  /\ Z.of_nat e = last_pos b (Z.of_nat n)
  /\ (s < e <= n)%nat.
Proof.
  intros [Hl Hr]. unfold try_into_range.
  destruct (resolve_left (bl b) (Z.of_nat n)) as [s0|] eqn:EL; [|discriminate].
  destruct (resolve_right (br b) (Z.of_nat n)) as [e0|] eqn:ER; [|discriminate].
  destruct (e0 <=? s0) eqn:Ele; [discriminate|].
  apply Z.leb_gt in Ele.
  intros H. injection H as <- <-.
  apply resolve_left_some in EL; [|lia|exact Hl].
  apply resolve_right_some in ER; [|lia|exact Hr].
  destruct EL as [HL ->]. destruct ER as [HR ->].
  unfold resolves, first_pos, last_pos.
  assert (Hs0 : 0 <= match bl b with SCont => 0 | SSome x => pos_of x (Z.of_nat n) - 1 end).
  { destruct (bl b) as [x|]; [|lia]. cbn in HL. unfold in_parts, pos_of in *.
    destruct (x <? 0) eqn:Ex; [apply Z.ltb_lt in Ex | apply Z.ltb_ge in Ex]; lia. }
  assert (He0 : match br b with SCont => Z.of_nat n | SSome x => pos_of x (Z.of_nat n) end <= Z.of_nat n).
  { destruct (br b) as [x|]; [|lia]. cbn in HR. unfold in_parts, pos_of in *.
    destruct (x <? 0) eqn:Ex; [apply Z.ltb_lt in Ex | apply Z.ltb_ge in Ex]; lia. }
  destruct (bl b) as [x|]; destruct (br b) as [y|]; cbn in *;
    (split; [split; [assumption | split; [assumption | lia]] | split; [lia | split; lia]]).
Qed.

Theorem try_into_range_none b n :
  try_into_range b n = None -> ~ resolves b n.
Proof.
  unfold try_into_range, resolves.
  destruct (resolve_left (bl b) (Z.of_nat n)) as [s0|] eqn:EL.
  2:{ intros _ [H _]. apply resolve_left_none in EL; [contradiction | lia]. }
  destruct (resolve_right (br b) (Z.of_nat n)) as [e0|] eqn:ER.
  2:{ intros _ [_ [H _]]. apply resolve_right_none in ER; [contradiction | lia]. }
  destruct (e0 <=? s0) eqn:Ele; [|discriminate].
  apply Z.leb_le in Ele. intros _ [HL [HR Hle]].
  unfold first_pos, last_pos in Hle.
  destruct (bl b) as [x|] eqn:Eb; destruct (br b) as [y|] eqn:Ec; cbn in *.
  - destruct ((Z.of_nat n <? x) || (x <? - Z.of_nat n)); [discriminate|].
    destruct ((Z.of_nat n <? y) || (y <? - Z.of_nat n)); [discriminate|].
    injection EL as <-. injection ER as <-. unfold in_parts, pos_of in *.
    destruct (x <? 0) eqn:Ex; destruct (y <? 0) eqn:Ey;
      try apply Z.ltb_lt in Ex; try apply Z.ltb_ge in Ex;
      try apply Z.ltb_lt in Ey; try apply Z.ltb_ge in Ey; lia.
  - destruct ((Z.of_nat n <? x) || (x <? - Z.of_nat n)); [discriminate|].
    injection EL as <-. injection ER as <-. unfold in_parts, pos_of in *.
    destruct (x <? 0) eqn:Ex; try apply Z.ltb_lt in Ex; try apply Z.ltb_ge in Ex; lia.
  - destruct ((Z.of_nat n <? y) || (y <? - Z.of_nat n)); [discriminate|].
    injection EL as <-. injection ER as <-. unfold in_parts, pos_of in *.
    destruct (y <? 0) eqn:Ey; try apply Z.ltb_lt in Ey; try apply Z.ltb_ge in Ey; lia.
  - injection EL as <-. injection ER as <-. lia.
Qed.

(** completeness: a bound that resolves is accepted *)
Theorem try_into_range_complete b n :
  bound_nz b -> resolves b n -> exists s e, try_into_range b n = Some (s, e).
Proof.
  intros Hnz Hres. destruct (try_into_range b n) as [[s e]|] eqn:E.
  - eauto.
  - exfalso. exact (try_into_range_none _ _ E Hres).
Qed.
