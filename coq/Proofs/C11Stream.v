(** C11 for -M: the fixed-memory reader commutes with every injective renaming of the bytes. *)
From TucModel Require Import Base.Bytes Base.ListX Model.Bounds Model.Scan Model.Opt Model.CutBytes Model.CutStr
     Model.Stream Proofs.C10 Proofs.C11 Proofs.C11Run.

Section Renaming.
  Variable f : byte -> byte.
  Hypothesis f_inj : forall a b, f a = f b -> a = b.
  Notation rn := (map f).
  Notation ri := (rename_item f).

  Definition rename_sopt (so : sopt) : sopt :=
    mkSO (f (s_delim so)) (option_map f (s_repl so)) (s_join so) (f (s_eol so))
         (option_map rn (s_fallback so)) (map ri (s_items so)) (s_lif so).

  Lemma sdelim_rename so : sdelim (rename_sopt so) = f (sdelim so).
  Proof. unfold sdelim. cbn [rename_sopt s_repl s_delim]. destruct (s_repl so); reflexivity. Qed.

  Lemma print_bof_rename so its curr piece trunc c :
    print_bof (rename_sopt so) (map ri its) curr (rn piece) trunc c
    = (rn (fst (print_bof so its curr piece trunc c)), map ri (snd (print_bof so its curr piece trunc c))).
  Proof.
    unfold print_bof.
    assert (G : forall o1 its1,
      (match map ri its1 with
       | Bound b :: r =>
           match matches b curr with
           | Some true =>
               let pre := if negb trunc && (1 <? curr)%Z && negb (side_eqb (bl b) (SSome curr))
                          then [sdelim (rename_sopt so)] else [] in
               if c && side_eqb (br b) (SSome curr) then
                 (rn o1 ++ pre ++ rn piece ++ (if s_join (rename_sopt so) && negb (blast b) then [sdelim (rename_sopt so)] else []), r)
               else (rn o1 ++ pre ++ rn piece, map ri its1)
           | _ => (rn o1, map ri its1)
           end
       | _ => (rn o1, map ri its1)
       end)
      = (rn (fst (match its1 with
                  | Bound b :: r =>
                      match matches b curr with
                      | Some true =>
                          let pre := if negb trunc && (1 <? curr)%Z && negb (side_eqb (bl b) (SSome curr))
                                     then [sdelim so] else [] in
                          if c && side_eqb (br b) (SSome curr) then
                            (o1 ++ pre ++ piece ++ (if s_join so && negb (blast b) then [sdelim so] else []), r)
                          else (o1 ++ pre ++ piece, its1)
                      | _ => (o1, its1)
                      end
                  | _ => (o1, its1)
                  end)),
         map ri (snd (match its1 with
                      | Bound b :: r =>
                          match matches b curr with
                          | Some true =>
                              let pre := if negb trunc && (1 <? curr)%Z && negb (side_eqb (bl b) (SSome curr))
                                         then [sdelim so] else [] in
                              if c && side_eqb (br b) (SSome curr) then
                                (o1 ++ pre ++ piece ++ (if s_join so && negb (blast b) then [sdelim so] else []), r)
                              else (o1 ++ pre ++ piece, its1)
                          | _ => (o1, its1)
                          end
                      | _ => (o1, its1)
                      end)))).
    { intros o1 its1. destruct its1 as [|[b|t] r]; cbn [map rename_item]; try reflexivity.
      change (matches (rename_bound f b) curr) with (matches b curr).
      destruct (matches b curr) as [[|]|]; try reflexivity.
      cbv zeta. cbn [rename_bound bl br blast]. rewrite sdelim_rename. cbn [rename_sopt s_join].
      destruct (c && side_eqb (br b) (SSome curr)); cbn [fst snd]; rewrite !map_app;
        destruct (negb trunc && (1 <? curr)%Z && negb (side_eqb (bl b) (SSome curr))); cbn [map];
        try reflexivity; destruct (s_join so && negb (blast b)); reflexivity. }
    destruct its as [|[b|t] r]; cbn [map rename_item].
    - exact (G [] []).
    - exact (G [] (Bound b :: r)).
    - exact (G t r).
  Qed.

  Lemma pff_rename so n : forall its,
    pff (rename_sopt so) (map ri its) n = option_map rn (pff so its n).
  Proof.
    induction its as [|[b|t] r IH]; cbn [map rename_item pff]; [reflexivity| |].
    - cbn [rename_bound bl br blast]. rewrite sdelim_rename. cbn [rename_sopt s_join s_fallback].
      destruct ((match bl b with SCont => true | SSome l => (l <=? n)%Z end) && side_eqb (br b) SCont); [exact IH|].
      change (mkB (bl b) (br b) (blast b) (option_map rn (bfb b))) with (rename_bound f b).
      rewrite (fallback_for_rename f). destruct (fallback_for b (s_fallback so)) as [fb|]; cbn [option_map]; [|reflexivity].
      fold (rename_sopt so). rewrite IH. destruct (pff so r n); cbn [option_map]; [|reflexivity].
      rewrite !map_app. destruct (s_join so && negb (blast b)); reflexivity.
    - rewrite IH. destruct (pff so r n); cbn [option_map]; [rewrite map_app|]; reflexivity.
  Qed.

  Definition rename_scan_res (r : scan_res) : scan_res :=
    match r with
    | ChunkEnd out its curr trunc => ChunkEnd (rn out) (map ri its) curr trunc
    | RecordEnd out rest => RecordEnd (rn out) (rn rest)
    | SkipFrom out rest => SkipFrom (rn out) (rn rest)
    | ScanErr => ScanErr
    end.

  Lemma eqb_rename a b : N.eqb (f a) (f b) = N.eqb a b.
  Proof. apply (eqb_f f f_inj). Qed.

  Lemma scan_chunk_rename so : forall chunk its curr trunc piece out,
    scan_chunk (rename_sopt so) (map ri its) curr trunc (rn piece) (rn chunk) (rn out)
    = rename_scan_res (scan_chunk so its curr trunc piece chunk out).
  Proof.
    induction chunk as [|x rest IH]; intros its curr trunc piece out; cbn [map scan_chunk].
    - destruct piece as [|y p]; cbn [map]; [reflexivity|].
      change (f y :: rn p) with (rn (y :: p)). rewrite <- map_rev, print_bof_rename.
      destruct (print_bof so its curr (rev (y :: p)) trunc false) as [o its']. cbn [fst snd rename_scan_res].
      rewrite map_app. reflexivity.
    - cbn [rename_sopt s_eol s_delim s_lif]. rewrite !eqb_rename. fold (rename_sopt so).
      destruct (N.eqb x (s_eol so)).
      + assert (Hp : (match rn piece with [] => true | _ :: _ => false end)
                     = (match piece with [] => true | _ :: _ => false end))
          by (destruct piece; reflexivity).
        rewrite Hp. destruct ((curr =? 1)%Z && negb trunc && match piece with [] => true | _ => false end).
        * cbn [rename_scan_res]. rewrite map_app. reflexivity.
        * rewrite <- map_rev, print_bof_rename.
          destruct (print_bof so its curr (rev piece) trunc true) as [o its']. cbn [fst snd].
          rewrite pff_rename. destruct (pff so its' curr); cbn [option_map rename_scan_res]; [|reflexivity].
          rewrite !map_app. reflexivity.
      + destruct (N.eqb x (s_delim so)).
        * rewrite <- map_rev, print_bof_rename.
          destruct (print_bof so its curr (rev piece) trunc true) as [o its']. cbn [fst snd].
          destruct (side_eqb (SSome curr) (s_lif so)).
          -- rewrite pff_rename. destruct (pff so its' curr); cbn [option_map rename_scan_res]; [|reflexivity].
             rewrite !map_app. reflexivity.
          -- rewrite <- map_app. exact (IH its' (curr + 1)%Z false [] (out ++ o)).
        * exact (IH its curr trunc (x :: piece) out).
  Qed.

  Lemma after_eol_rename eol : forall l, after_eol (f eol) (rn l) = option_map rn (after_eol eol l).
  Proof.
    induction l as [|x l IH]; [reflexivity|]. cbn [map after_eol]. rewrite eqb_rename.
    destruct (N.eqb x eol); [reflexivity | exact IH].
  Qed.

  Lemma push_rest_rename rest cs : push_rest (rn rest) (map rn cs) = map rn (push_rest rest cs).
  Proof. destruct rest; reflexivity. Qed.

  Definition rename_mode (m : smode) : smode :=
    match m with Normal its curr trunc => Normal (map ri its) curr trunc | Skipping => Skipping end.

  Definition rename_rec_res (r : rec_res) : rec_res :=
    match r with
    | REof => REof
    | RLast out => RLast (rn out)
    | RRecord out cs => RRecord (rn out) (map rn cs)
    | RFail => RFail
    end.

  Definition at_eof (so : sopt) (mode : smode) (started : bool) (out : bytes) : rec_res :=
    if started then
      match mode with
      | Skipping => RLast (out ++ [s_eol so])
      | Normal its curr trunc =>
          let '(o, its') := print_bof so its curr [] trunc true in
          match pff so its' curr with
          | None => RFail
          | Some t => RLast (out ++ o ++ t ++ [s_eol so])
          end
      end
    else REof.

  Lemma at_eof_rename so (mode : smode) (started : bool) (out : bytes) :
    at_eof (rename_sopt so) (rename_mode mode) started (rn out) = rename_rec_res (at_eof so mode started out).
  Proof.
    unfold at_eof. destruct started; [|reflexivity]. destruct mode as [its curr trunc|]; cbn [rename_mode].
      - change (@nil N) with (rn []) at 1. rewrite print_bof_rename.
        destruct (print_bof so its curr [] trunc true) as [o its']. cbn [fst snd]. rewrite pff_rename.
        destruct (pff so its' curr); cbn [option_map rename_rec_res]; [|reflexivity].
        rewrite !map_app. reflexivity.
      - cbn [rename_rec_res]. rewrite map_app. reflexivity. 
  Qed.

  Lemma rec_chunks_rename so : forall cs mode started out,
    rec_chunks (rename_sopt so) (rename_mode mode) started (map rn cs) (rn out)
    = rename_rec_res (rec_chunks so mode started cs out).
  Proof.
    induction cs as [|c cs IH]; intros mode started out.
    - cbn [map rec_chunks]. apply (at_eof_rename so mode started out).
    - destruct c as [|x c'].
      + cbn [map rec_chunks]. apply (at_eof_rename so mode started out).
      + change (map rn ((x :: c') :: cs)) with ((f x :: rn c') :: map rn cs).
        cbn [rec_chunks]. change (f x :: rn c') with (rn (x :: c')).
        destruct mode as [its curr trunc|]; cbn [rename_mode].
        * change (@nil N) with (rn []) at 1. rewrite scan_chunk_rename.
          destruct (scan_chunk so its curr trunc [] (x :: c') out) as [o1 i1 c1 t1|o1 rest|o1 rest|];
            cbn [rename_scan_res].
          -- exact (IH (Normal i1 c1 t1) true o1).
          -- rewrite push_rest_rename. reflexivity.
          -- cbn [rename_sopt s_eol]. rewrite after_eol_rename. fold (rename_sopt so).
             destruct (after_eol (s_eol so) rest) as [rest'|]; cbn [option_map].
             ++ rewrite push_rest_rename. cbn [rename_rec_res]. rewrite map_app. reflexivity.
             ++ exact (IH Skipping true o1).
          -- reflexivity.
        * cbn [rename_sopt s_eol]. rewrite after_eol_rename. fold (rename_sopt so).
          destruct (after_eol (s_eol so) (x :: c')) as [rest'|]; cbn [option_map].
          -- rewrite push_rest_rename. cbn [rename_rec_res]. rewrite map_app. reflexivity.
          -- exact (IH Skipping true out).
  Qed.

  Lemma run_stream_fuel_rename so : forall fuel cs acc,
    run_stream_fuel fuel (rename_sopt so) (map rn cs) (rn acc)
    = rename_outcome f (run_stream_fuel fuel so cs acc).
  Proof.
    induction fuel as [|fuel IH]; intros cs acc; [reflexivity|]. cbn [run_stream_fuel].
    change (Normal (s_items (rename_sopt so)) 1 false) with (rename_mode (Normal (s_items so) 1 false)).
    change (@nil N) with (rn []) at 1. rewrite rec_chunks_rename.
    destruct (rec_chunks so (Normal (s_items so) 1 false) false cs []) as [|o|o cs'|]; cbn [rename_rec_res rename_outcome].
    - reflexivity.
    - rewrite map_app. reflexivity.
    - rewrite <- map_app. apply IH.
    - reflexivity.
  Qed.

  Lemma total_len_rename cs : total_len (map rn cs) = total_len cs.
  Proof. unfold total_len. induction cs as [|c cs IH]; [reflexivity|]. cbn [map fold_right]. rewrite map_length, IH. reflexivity. Qed.

  (** whole runs of -M *)
  Theorem stream_rename so input :
    run_stream_whole (rename_sopt so) (rn input) = rename_outcome f (run_stream_whole so input).
  Proof.
    unfold run_stream_whole, run_stream.
    change (@nil (list N)) with (map rn []). rewrite push_rest_rename, total_len_rename.
    change (@nil N) with (rn []). apply run_stream_fuel_rename.
  Qed.
End Renaming.

Section OptLevel.
  Variable f : byte -> byte.
  Hypothesis f_inj : forall a b, f a = f b -> a = b.

  Lemma is_sorted_rename l : is_sorted (map (rename_item f) l) = is_sorted l.
  Proof.
    unfold is_sorted. rewrite (bounds_only_rename f).
    destruct (bounds_only l) as [|b bs]; [reflexivity|]. cbn [map].
    revert b. induction bs as [|b' bs IH]; intros b; [reflexivity|]. cbn [map is_sorted_from].
    change (bound_le (rename_bound f b) (rename_bound f b')) with (bound_le b b').
    destruct (bound_le b b'); [apply IH | reflexivity].
  Qed.

  Lemma has_negative_rename l : has_negative_indices (map (rename_item f) l) = has_negative_indices l.
  Proof.
    unfold has_negative_indices. rewrite (bounds_only_rename f). apply existsb_rename_bound. reflexivity.
  Qed.

  Lemma strict_from_rename : forall bs prev, strict_from prev (map (rename_bound f) bs) = strict_from prev bs.
  Proof.
    induction bs as [|b bs IH]; intros prev; [reflexivity|]. cbn [map strict_from rename_bound bl br].
    destruct (side_eqb _ prev); [reflexivity | apply IH].
  Qed.

  Lemma forward_bounds_ok_rename l : forward_bounds_ok (map (rename_item f) l) = forward_bounds_ok l.
  Proof.
    unfold forward_bounds_ok, is_forward_only. destruct l as [|x l']; [reflexivity|].
    change (map (rename_item f) (x :: l')) with (rename_item f x :: map (rename_item f) l') at 1.
    change (rename_item f x :: map (rename_item f) l') with (map (rename_item f) (x :: l')).
    rewrite (is_sortable_rename f), is_sorted_rename, has_negative_rename, (bounds_only_rename f), strict_from_rename.
    reflexivity.
  Qed.

  Lemma last_bound_r_rename l : last_bound_r (map (rename_item f) l) = last_bound_r l.
  Proof.
    unfold last_bound_r. rewrite (bounds_only_rename f), <- map_rev.
    destruct (rev (bounds_only l)); reflexivity.
  Qed.

  Theorem stream_opt_rename o : stream_opt (rename_opt f o) = option_map (rename_sopt f) (stream_opt o).
  Proof.
    unfold stream_opt. cbn [rename_opt o_delim o_complement o_greedy o_compress o_json o_btype o_replace o_trim
                            o_regex o_only_delimited o_bounds o_join o_eol o_fallback].
    destruct (o_delim o) as [|d [|d2 ds]]; cbn [map]; try reflexivity.
    assert (Hr : match option_map (map f) (o_replace o) with Some [_] => false | Some _ => true | None => false end
                 = match o_replace o with Some [_] => false | Some _ => true | None => false end).
    { destruct (o_replace o) as [[|r [|r2 rs]]|]; reflexivity. }
    rewrite Hr. clear Hr.
    match goal with |- (if ?c then _ else _) = _ => destruct c end; [reflexivity|].
    unfold rename_ublist. cbn [items]. rewrite forward_bounds_ok_rename.
    destruct (forward_bounds_ok (items (o_bounds o))); [|reflexivity].
    cbn [option_map]. unfold rename_sopt. cbn [s_delim s_repl s_join s_eol s_fallback s_items s_lif].
    rewrite last_bound_r_rename. f_equal. f_equal.
    destruct (o_replace o) as [[|r [|r2 rs]]|]; reflexivity.
  Qed.
End OptLevel.

(** C11 for -M: with neutral option texts, -M with the other terminator on the exchanged
    input is accepted exactly when it was, and prints the exchanged output *)
Theorem C11_fixed_memory_swap o input :
  neutral_texts o ->
  match stream_opt o, stream_opt (with_eol (swap (o_eol o)) o) with
  | Some so, Some so' => run_stream_whole so' (map swap input) = rename_outcome swap (run_stream_whole so input)
  | None, None => True
  | _, _ => False
  end.
Proof.
  intros Hn. rewrite <- (rename_neutral_opt o Hn), (stream_opt_rename swap o).
  destruct (stream_opt o) as [so|]; cbn [option_map]; [|exact I].
  apply stream_rename, swap_injective.
Qed.
