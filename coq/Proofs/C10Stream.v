(** C10 for -M: the fixed-memory reader is a per-record function mapped over the records of
    the input; so the run over A ++ B (A ending with an EOL) is the run over A followed by
    the run over B, whatever the chunking. *)
From TucModel Require Import Base.Bytes Base.ListX Model.Bounds Model.Scan Model.Opt
     Model.CutBytes Model.CutStr Model.Stream Proofs.C04 Proofs.C10 Proofs.C03Full.
Local Open Scope Z_scope.

(** every terminated record yields its output or fails, and what follows the EOL is handed
    on untouched *)
Lemma record_shape so r its started out :
  bfree (s_eol so) r -> no_adjacent_fillers its ->
  exists res : option bytes,
    forall rest,
      rec_chunks so (Normal its 1 false) started [r ++ s_eol so :: rest] out
      = match res with Some o => RRecord o (push_rest rest []) | None => RFail end.
Proof.
  intros Hf Hn.
  pose proof (scan_no_eol so r its 1 false [] out Hf) as Hs.
  assert (Hshape : forall rest, r ++ s_eol so :: rest = (r ++ [s_eol so]) ++ rest)
    by (intros rest; rewrite <- app_assoc; reflexivity).
  assert (Hstep : forall rest,
    rec_chunks so (Normal its 1 false) started [r ++ s_eol so :: rest] out
    = match scan_then so (scan_then so (scan_chunk so its 1 false [] r out) [s_eol so]) rest with
      | ChunkEnd out' its' curr' trunc' => rec_chunks so (Normal its' curr' trunc') true [] out'
      | RecordEnd out' rest' => RRecord out' (push_rest rest' [])
      | SkipFrom out' rest' =>
          match after_eol (s_eol so) rest' with
          | Some rest'' => RRecord (out' ++ [s_eol so]) (push_rest rest'' [])
          | None => rec_chunks so Skipping true [] out'
          end
      | ScanErr => RFail
      end).
  { intros rest. rewrite <- (scan_app so [s_eol so] r its 1 false [] out Hn).
    rewrite <- (scan_app so rest (r ++ [s_eol so]) its 1 false [] out Hn).
    rewrite <- Hshape. destruct (r ++ s_eol so :: rest) as [|c0 l0] eqn:E; [destruct r; discriminate|].
    reflexivity. }
  destruct (scan_chunk so its 1 false [] r out) as [o1 i1 c1 t1|o1 rest1|o1 rest1|] eqn:ES.
  - (* the record runs up to its EOL *)
    cbn [scan_then] in Hstep. cbn [scan_chunk] in Hstep. rewrite N.eqb_refl in Hstep.
    destruct ((c1 =? 1) && negb t1 && true).
    + exists (Some (o1 ++ [s_eol so])). intros rest. rewrite Hstep. reflexivity.
    + cbn [rev] in Hstep. destruct (print_bof so i1 c1 [] t1 true) as [o its'].
      destruct (pff so its' c1) as [t|].
      * eexists (Some _). intros rest. rewrite Hstep. reflexivity.
      * exists None. intros rest. rewrite Hstep. reflexivity.
  - contradiction.
  - (* early stop: the rest of the record is skipped *)
    exists (Some (o1 ++ [s_eol so])). intros rest. rewrite Hstep. cbn [scan_then].
    rewrite after_eol_app, (after_eol_snoc _ _ Hs). reflexivity.
  - exists None. intros rest. rewrite Hstep. reflexivity.
Qed.

(** what -M prints for one record *)
Definition stream_cut (so : sopt) (r : bytes) : option rres :=
  Some (match rec_chunks so (Normal (s_items so) 1 false) false [r ++ [s_eol so]] [] with
        | RRecord o _ => ROk o
        | RFail => RErr
        | _ => RPanic
        end).

Theorem stream_is_per_record so :
  no_adjacent_fillers (s_items so) ->
  forall fuel input acc,
    (length input < fuel)%nat ->
    Some (run_stream_fuel fuel so (push_rest input []) acc)
    = run_records (stream_cut so) (records (s_eol so) input) acc.
Proof.
  intros Hn. induction fuel as [|fuel IH]; intros input acc Hlen; [lia|].
  cbn [run_stream_fuel].
  destruct (first_record (s_eol so) input) as [Hfree|[r [rest [-> Hfree]]]].
  - destruct input as [|c0 i0]; [reflexivity|].
    set (r := c0 :: i0) in *. assert (Hr : r <> []) by discriminate.
    rewrite (records_last _ r Hfree Hr).
    replace (push_rest r []) with [r] by reflexivity.
    rewrite (last_record_without_eol so r (s_items so) 1 [] false Hr Hfree Hn ltac:(lia)).
    cbn [run_records]. unfold stream_cut.
    destruct (record_shape so r (s_items so) false [] Hfree Hn) as [res Hres].
    rewrite (Hres []). destruct res as [o|]; reflexivity.
  - rewrite (records_first (s_eol so) r rest Hfree).
    assert (Hpr : push_rest (r ++ s_eol so :: rest) [] = [r ++ s_eol so :: rest]) by (destruct r; reflexivity).
    rewrite Hpr. cbn [run_records]. unfold stream_cut.
    destruct (record_shape so r (s_items so) false [] Hfree Hn) as [res Hres].
    rewrite (Hres rest), (Hres []). destruct res as [o|]; [|reflexivity].
    apply IH. rewrite app_length in Hlen. cbn [length] in Hlen. lia.
Qed.

Corollary stream_whole_per_record so input :
  no_adjacent_fillers (s_items so) ->
  Some (run_stream_whole so input) = run_records (stream_cut so) (records (s_eol so) input) [].
Proof.
  intros Hn. unfold run_stream_whole, run_stream. apply stream_is_per_record; [exact Hn|].
  unfold total_len, push_rest. destruct input; cbn; lia.
Qed.

(** C10 for -M, one read *)
Theorem C10_stream so A B :
  no_adjacent_fillers (s_items so) ->
  Some (run_stream_whole so ((A ++ [s_eol so]) ++ B))
  = seq_outcome (Some (run_stream_whole so (A ++ [s_eol so]))) (Some (run_stream_whole so B)).
Proof.
  intros Hn. rewrite !stream_whole_per_record by exact Hn. rewrite records_app. apply run_records_app.
Qed.

(** ... and under every chunking of the three inputs *)
Theorem C10_stream_chunked so A B cs csA csB :
  no_adjacent_fillers (s_items so) ->
  chunks_ok cs -> chunks_ok csA -> chunks_ok csB ->
  concat cs = (A ++ [s_eol so]) ++ B -> concat csA = A ++ [s_eol so] -> concat csB = B ->
  Some (run_stream so cs) = seq_outcome (Some (run_stream so csA)) (Some (run_stream so csB)).
Proof.
  intros Hn Hc HcA HcB E EA EB.
  rewrite (C04_equals_single_read so cs Hn Hc), (C04_equals_single_read so csA Hn HcA),
    (C04_equals_single_read so csB Hn HcB), E, EA, EB.
  apply C10_stream, Hn.
Qed.

(** a failing record keeps the complete records before it, whatever follows *)
Theorem C10_stream_failure_prefix so A B pre :
  no_adjacent_fillers (s_items so) ->
  run_stream_whole so (A ++ [s_eol so]) = Fail pre ->
  run_stream_whole so ((A ++ [s_eol so]) ++ B) = Fail pre.
Proof.
  intros Hn H. pose proof (C10_stream so A B Hn) as E. rewrite H in E. cbn [seq_outcome] in E.
  injection E as E. exact E.
Qed.
