(** C16: -r R prints the literal text R wherever a delimiter is replaced — for the matches of any
    engine, the selected text comes out as its fields joined by R. *)
From TucModel Require Import Base.Bytes Base.ListX Model.Bounds Model.Scan Model.Regex Model.Opt Model.CutStr
     Spec.Fields Proofs.ScanSplit Proofs.Plain.

Lemma replace_matches_is_intercalate (line rep : bytes) (ms : list mtch) :
  replace_matches line ms rep = intercalate rep (pieces line (gaps_from 0 ms (length line))).
Proof. unfold replace_matches. apply replace_is_intercalate. Qed.

Lemma maybe_replace_regex_is_intercalate (o : opt) (x : rx) (nd text : bytes) (ms : list mtch) :
  o_btype o <> BChars -> o_replace o = Some nd -> o_regex o = Some x -> o_compress o = false ->
  rx_normal x text = Some ms ->
  maybe_replace o text = Some (intercalate nd (pieces text (gaps_from 0 ms (length text)))).
Proof.
  intros Hb Hr Hx Hc Hm. unfold maybe_replace. rewrite Hr, Hx, Hc, Hm, replace_matches_is_intercalate.
  destruct (o_btype o); try reflexivity. exfalso. apply Hb. reflexivity.
Qed.

(** with -p the runs of matches were rewritten to R before cutting: the selected text is printed as it is *)
Lemma maybe_replace_after_compress (o : opt) (x : rx) (nd text : bytes) :
  o_replace o = Some nd -> o_regex o = Some x -> o_compress o = true -> maybe_replace o text = Some text.
Proof. intros Hr Hx Hc. unfold maybe_replace. rewrite Hr, Hx, Hc. destruct (o_btype o); reflexivity. Qed.
