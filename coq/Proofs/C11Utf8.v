From TucModel Require Import Base.Bytes Base.ListX Model.Utf8 Proofs.C11.
Local Open Scope N_scope.

Lemma swap_cases b : (b = LF /\ swap b = NUL) \/ (b = NUL /\ swap b = LF) \/ (b <> LF /\ b <> NUL /\ swap b = b).
Proof.
  unfold swap. destruct (N.eqb_spec b LF) as [->|H1]; [left; split; reflexivity|].
  destruct (N.eqb_spec b NUL) as [->|H2]; [right; left; split; reflexivity|].
  right; right. repeat split; assumption.
Qed.

Lemma swap_lt128 b : (swap b <? 128) = (b <? 128).
Proof. destruct (swap_cases b) as [[-> ->]|[[-> ->]|[_ [_ ->]]]]; reflexivity. Qed.

Lemma in_rng_swap lo hi b : 11 <= lo -> in_rng lo hi (swap b) = in_rng lo hi b.
Proof.
  intros H. destruct (swap_cases b) as [[-> ->]|[[-> ->]|[_ [_ ->]]]]; try reflexivity;
    unfold in_rng, LF, NUL; (destruct (N.leb_spec lo 0); [lia|]); (destruct (N.leb_spec lo 10); [lia|]); reflexivity.
Qed.

Lemma eqb_swap_hi b k : 11 <= k -> (swap b =? k) = (b =? k).
Proof.
  intros H. destruct (swap_cases b) as [[-> ->]|[[-> ->]|[_ [_ ->]]]]; try reflexivity;
    unfold LF, NUL; (destruct (N.eqb_spec 0 k); [lia|]); (destruct (N.eqb_spec 10 k); [lia|]); reflexivity.
Qed.

Lemma head_len_swap l : utf8_head_len (map swap l) = utf8_head_len l.
Proof.
  destruct l as [|b0 r]; [reflexivity|]. cbn [map]. unfold utf8_head_len.
  rewrite swap_lt128. destruct (b0 <? 128); [reflexivity|].
  rewrite !in_rng_swap by lia. rewrite !eqb_swap_hi by lia.
  destruct (in_rng 194 223 b0).
  { destruct r as [|b1 r1]; [reflexivity|]. cbn [map]. unfold is_cont. rewrite in_rng_swap by lia. reflexivity. }
  destruct (in_rng 224 239 b0).
  { destruct r as [|b1 [|b2 r2]]; try reflexivity. cbn [map]. unfold is_cont. rewrite !in_rng_swap by lia. reflexivity. }
  destruct (in_rng 240 244 b0); [|reflexivity].
  destruct r as [|b1 [|b2 [|b3 r3]]]; try reflexivity. cbn [map]. unfold is_cont. rewrite !in_rng_swap by lia. reflexivity.
Qed.

Lemma utf8_chars_fuel_swap : forall fuel l,
  utf8_chars_fuel fuel (map swap l) = option_map (map (map swap)) (utf8_chars_fuel fuel l).
Proof.
  induction fuel as [|fuel IH]; intros l; cbn [utf8_chars_fuel].
  - destruct l; reflexivity.
  - destruct l as [|b l']; [reflexivity|].
    change (map swap (b :: l')) with (swap b :: map swap l') at 1. cbv iota.
    change (swap b :: map swap l') with (map swap (b :: l')).
    rewrite head_len_swap. destruct (utf8_head_len (b :: l')) as [k|]; [|reflexivity].
    rewrite skipn_map, IH, firstn_map.
    destruct (utf8_chars_fuel fuel (skipn k (b :: l'))); reflexivity.
Qed.

Theorem utf8_chars_swap l : utf8_chars (map swap l) = option_map (map (map swap)) (utf8_chars l).
Proof. unfold utf8_chars. rewrite map_length. apply utf8_chars_fuel_swap. Qed.

Theorem utf8_valid_swap l : utf8_valid (map swap l) = utf8_valid l.
Proof. unfold utf8_valid. rewrite utf8_chars_swap. destruct (utf8_chars l); reflexivity. Qed.
