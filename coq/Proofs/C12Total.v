(** C12, whole runs: for every argument vector and every input the model of tuc ends with
    status 0 or 1 - never in [Panic] (an index out of range, an unwrap on None) and never in
    [Hang] (fuel exhausted). *)
From TucModel Require Import Base.Bytes Base.ListX Model.Bounds Model.BoundsParse Model.Scan Model.Utf8
     Model.Json Model.Regex Model.Opt Model.CutBytes Model.CutStr Model.FastLane Model.CutLines Model.Stream
     Model.Args Model.Main Spec.Resolve Proofs.BoundsFacts Proofs.ParseFacts Proofs.C06 Proofs.ScanSplit
     Proofs.C02 Proofs.C04 Proofs.C04Parse Proofs.C07 Proofs.C12 Proofs.C13 Proofs.C15 Proofs.C16
     Proofs.C03Full Proofs.C10 Proofs.C10Stream.

(** ---------- a fields table in which every start is <= every later end <= the length *)
Definition table_ok (fields : list mtch) (len : nat) : Prop :=
  forall i j a z, i <= j -> nth_error fields i = Some a -> nth_error fields j = Some z ->
                  fst a <= snd z /\ snd z <= len.

Lemma gaps_table_ok ms len : wf_ms 0 ms len -> table_ok (gaps_from 0 ms len) len.
Proof.
  intros Hwf i j a z Hij Ha Hz. destruct (gaps_mono ms len 0 i j a z Hwf Hij Ha Hz) as [_ [A B]]. split; assumption.
Qed.

Lemma nth_error_removelast {A} (l : list A) i : S i < length l -> nth_error (removelast l) i = nth_error l i.
Proof.
  revert i; induction l as [|x l IH]; intros i H; [cbn in H; lia|].
  destruct l as [|y l']; [cbn in H; lia|]. destruct i as [|i']; [reflexivity|].
  change (removelast (x :: y :: l')) with (x :: removelast (y :: l')). cbn [nth_error]. apply IH. cbn in *. lia.
Qed.

Lemma removelast_length {A} (l : list A) : length (removelast l) = length l - 1.
Proof.
  induction l as [|x l IH]; [reflexivity|]. destruct l as [|y l']; [reflexivity|].
  change (removelast (x :: y :: l')) with (x :: removelast (y :: l')). cbn [length] in *. lia.
Qed.

Lemma drop_outer_nth {A} (l : list A) i a :
  nth_error (drop_outer l) i = Some a -> exists k, nth_error l k = Some a /\ (2 < length l -> k = S i) /\ (length l <= 2 -> k = i).
Proof.
  unfold drop_outer. destruct (Nat.ltb_spec 2 (length l)) as [H|H]; intros E.
  - exists (S i). assert (Hi : i < length (removelast (tl l))) by (apply nth_error_Some; congruence).
    rewrite removelast_length in Hi. destruct l as [|x l']; [cbn in H; lia|]. cbn [tl length] in *.
    rewrite nth_error_removelast in E by lia. split; [exact E | split; [reflexivity | lia]].
  - exists i. split; [exact E | split; [lia | reflexivity]].
Qed.

Lemma drop_outer_table_ok fields len : table_ok fields len -> table_ok (drop_outer fields) len.
Proof.
  intros H i j a z Hij Ha Hz.
  destruct (drop_outer_nth fields i a Ha) as [ki [Ea [A1 A2]]].
  destruct (drop_outer_nth fields j z Hz) as [kj [Ez [B1 B2]]].
  apply (H ki kj a z); [|exact Ea | exact Ez].
  destruct (Nat.ltb_spec 2 (length fields)) as [L|L]; [rewrite (A1 L), (B1 L) | rewrite (A2 L), (B2 L)]; lia.
Qed.

(** the output loop on such a table never indexes out of range; and when the regex of the
    option set is the character splitter only in character mode, it never reaches [RHang] *)
Definition rx_consistent (o : opt) : Prop := o_regex o = Some RxChars -> o_btype o = BChars.

Lemma maybe_replace_some o t : rx_consistent o -> maybe_replace o t <> None.
Proof.
  intros Hc. unfold maybe_replace. destruct (o_btype o) eqn:Eb; try discriminate;
    destruct (o_replace o); try discriminate;
    destruct (o_regex o) as [x|] eqn:Ex; try discriminate;
    destruct (o_compress o); try discriminate;
    destruct x as [|r]; try discriminate;
    specialize (Hc Ex); congruence.
Qed.

Definition rres_ok (r : rres) : Prop := match r with RPanic | RHang => False | _ => True end.

Lemma out_loop_total o line fields bs :
  rx_consistent o -> table_ok fields (length line) -> Forall item_nz bs ->
  rres_ok (out_loop o line fields bs).
Proof.
  intros Hc Ht Hnz. induction bs as [|x bs IH]; [exact I|].
  inversion Hnz as [|? ? Hx Hbs]; subst. specialize (IH Hbs).
  destruct x as [b|f]; cbn [out_loop].
  - destruct (try_into_range b (length fields)) as [[s e]|] eqn:E.
    + destruct (try_into_range_some b _ s e Hx E) as [_ [_ [_ Hse]]].
      unfold range_start, range_end.
      destruct (nth_error fields s) as [a|] eqn:Ea.
      2:{ apply nth_error_None in Ea. lia. }
      destruct (nth_error fields (e - 1)) as [z|] eqn:Ez.
      2:{ apply nth_error_None in Ez. lia. }
      destruct (Ht s (e - 1) a z ltac:(lia) Ea Ez) as [P2 P3].
      assert (G1 : (fst a <=? snd z) = true) by (apply Nat.leb_le; exact P2).
      assert (G2 : (snd z <=? length line) = true) by (apply Nat.leb_le; exact P3).
      rewrite G1, G2. cbn [andb].
      pose proof (maybe_replace_some o (slice line (fst a) (snd z)) Hc) as Hm.
      destruct (maybe_replace o (slice line (fst a) (snd z))) as [t|]; [|contradiction].
      destruct (emit_part o t); [|exact I].
      destruct (out_loop o line fields bs); exact IH || exact I.
    + destruct (fallback_for b (o_fallback o)) as [fb|]; [|exact I].
      destruct (emit_part o fb); [|exact I].
      destruct (out_loop o line fields bs); exact IH || exact I.
  - destruct (out_loop o line fields bs); exact IH || exact I.
Qed.

(** ---------- what every option set built by parse_args satisfies *)
Definition bounds_ok (o : opt) : Prop :=
  exists l0, from_vec l0 = Some (o_bounds o) /\ Forall item_nz l0.

Lemma bounds_only_mark_last_len l : length (bounds_only (mark_last l)) = length (bounds_only l).
Proof.
  induction l as [|x l IH]; [reflexivity|]. destruct x as [b|f]; cbn [mark_last].
  - destruct (bounds_only l) eqn:E; cbn [bounds_only flat_map app length]; fold (bounds_only l);
      fold (bounds_only (mark_last l)); [rewrite E; reflexivity | rewrite IH, E; reflexivity].
  - cbn [bounds_only flat_map app]. exact IH.
Qed.

Lemma from_vec_items l u : from_vec l = Some u ->
  items u = mark_last l /\ bounds_only l <> [].
Proof.
  unfold from_vec. destruct (bounds_only l) eqn:E; [discriminate|]. intros H; injection H as <-.
  split; [reflexivity | discriminate].
Qed.

Lemma bounds_ok_items o : bounds_ok o ->
  Forall item_nz (items (o_bounds o)) /\ bounds_only (items (o_bounds o)) <> [].
Proof.
  intros [l0 [Hf Hnz]]. destruct (from_vec_items _ _ Hf) as [-> Hne]. split; [apply mark_last_nz, Hnz|].
  intros E. apply Hne. apply length_zero_iff_nil. rewrite <- bounds_only_mark_last_len, E. reflexivity.
Qed.

(** complement and range expansion keep the list well formed and non-empty *)
Lemma of_range_nz a z : a < z -> bound_nz (of_range a z).
Proof. intros H. split; cbn; lia. Qed.

Lemma complement_bound_nz b n cs : bound_nz b -> complement_bound b n = Some cs -> Forall bound_nz cs.
Proof.
  intros Hnz. unfold complement_bound. destruct (try_into_range b n) as [[s e]|] eqn:E; [|discriminate].
  pose proof (try_into_range_some b n s e Hnz E) as [_ [_ [_ Hse]]].
  intros H; injection H as <-. rewrite (complement_std_range_spec n s e Hse). unfold complement_spec.
  destruct (Nat.ltb_spec 0 s); destruct (Nat.ltb_spec e n); cbn [app map fst snd];
    repeat constructor; apply of_range_nz; lia.
Qed.

Lemma complement_items_nz l n : Forall item_nz l -> Forall item_nz (complement_items l n).
Proof.
  induction l as [|x l IH]; intros H; [constructor|]. inversion H as [|? ? Hx Hl]; subst.
  unfold complement_items in *. cbn [flat_map]. apply Forall_app. split; [|apply IH, Hl].
  destruct x as [b|f]; [|constructor; [exact I | constructor]].
  destruct (complement_bound b n) as [cs|] eqn:E.
  - pose proof (complement_bound_nz b n cs Hx E) as Hcs.
    clear - Hcs. induction Hcs; constructor; assumption.
  - constructor; [exact Hx | constructor].
Qed.

Lemma complement_list_ok l n u : Forall item_nz l -> complement_list l n = Some u ->
  Forall item_nz (items u) /\ bounds_only (items u) <> [].
Proof.
  intros Hnz. unfold complement_list. destruct (bounds_only (complement_items l n)) eqn:E; [discriminate|].
  intros Hf. destruct (from_vec_items _ _ Hf) as [-> Hne]. split.
  - apply mark_last_nz, complement_items_nz, Hnz.
  - intros E2. apply Hne. apply length_zero_iff_nil. rewrite <- bounds_only_mark_last_len, E2. reflexivity.
Qed.

Lemma singles_nz s c : Forall bound_nz (singles_from s c).
Proof.
  revert s; induction c as [|c IH]; intros s; cbn [singles_from]; constructor; [|apply IH].
  split; cbn; lia.
Qed.

Lemma unpack_bound_nz b n : bound_nz b -> Forall bound_nz (unpack_bound b n) /\ unpack_bound b n <> [].
Proof.
  intros Hnz. unfold unpack_bound. destruct (try_into_range b n) as [[s e]|] eqn:E.
  - pose proof (try_into_range_some b n s e Hnz E) as [_ [_ [_ Hse]]]. split; [apply singles_nz|].
    destruct (e - s) as [|k] eqn:Ek; [lia | discriminate].
  - split; [constructor; [exact Hnz | constructor] | discriminate].
Qed.

Definition unpack_item (n : nat) (x : bof) : list bof :=
  match x with
  | Bound b => map Bound (unpack_bound b n)
  | Filler f => [Filler f]
  end.

Lemma unpack_flat_nz n l : Forall item_nz l -> Forall item_nz (flat_map (unpack_item n) l).
Proof.
  induction l as [|x l IH]; intros H; [constructor|]. inversion H as [|? ? Hx Hl]; subst.
  cbn [flat_map]. apply Forall_app. split; [|apply IH, Hl].
  destruct x as [b|f]; [|constructor; [exact I | constructor]].
  destruct (unpack_bound_nz b n Hx) as [A _]. cbn [unpack_item].
  clear - A. induction A; constructor; assumption.
Qed.

Lemma unpack_flat_bounds n l : Forall item_nz l -> bounds_only l <> [] ->
  bounds_only (flat_map (unpack_item n) l) <> [].
Proof.
  induction l as [|x l IH]; intros H Hne; [contradiction|]. inversion H as [|? ? Hx Hl]; subst.
  cbn [flat_map]. destruct x as [b|f].
  - destruct (unpack_bound_nz b n Hx) as [_ B]. cbn [unpack_item].
    destruct (unpack_bound b n) as [|u0 us]; [contradiction|]. cbn. discriminate.
  - cbn [unpack_item app]. cbn [bounds_only flat_map app] in *. fold (bounds_only l) in Hne.
    exact (IH Hl Hne).
Qed.

Lemma unpack_list_ok l n : Forall item_nz l -> bounds_only l <> [] ->
  exists u, unpack_list l n = Some u /\ Forall item_nz (items u).
Proof.
  intros Hnz Hne. unfold unpack_list. change (fun x : bof => match x with
                              | Bound b => map Bound (unpack_bound b n)
                              | Filler f => [Filler f]
                              end) with (unpack_item n).
  pose proof (unpack_flat_nz n l Hnz) as H1. pose proof (unpack_flat_bounds n l Hnz Hne) as H2.
  unfold from_vec. destruct (bounds_only (flat_map (unpack_item n) l)) eqn:E; [contradiction|].
  eexists. split; [reflexivity|]. cbn [items]. apply mark_last_nz, H1.
Qed.

(** ---------- matches are well formed whatever splitter produced them *)
Lemma boundaries_wf : forall cs pos len, pos + total cs <= len ->
  wf_ms pos (map (fun p => (p, p)) (boundaries_from pos cs)) len.
Proof.
  induction cs as [|c cs IH]; intros pos len H; cbn [boundaries_from map wf_ms fst snd].
  - unfold total in H. cbn in H. lia.
  - split; [lia|]. split; [lia|].
    assert (H' : pos + length c + total cs <= len).
    { unfold total in *. cbn [concat] in H. rewrite app_length in H. lia. }
    specialize (IH (pos + length c) len H').
    eapply wf_ms_weaken; [| |exact IH]; lia.
Qed.

Lemma char_matches_wf line ms : char_matches line = Some ms -> wf_ms 0 ms (length line).
Proof.
  unfold char_matches. destruct (utf8_chars line) as [cs|] eqn:E; [|discriminate].
  intros H; injection H as <-. unfold utf8_chars in E.
  destruct (utf8_chars_fuel_concat _ _ _ E) as [Hc _]. apply boundaries_wf.
  unfold total. rewrite Hc. lia.
Qed.

Lemma rx_normal_wf x line ms : rx_normal x line = Some ms -> wf_ms 0 ms (length line).
Proof.
  destruct x as [|r]; cbn [rx_normal]; [apply char_matches_wf|].
  intros H; injection H as <-. apply (re_matches_wf r line).
Qed.

Lemma rx_greedy_wf x line ms : rx_greedy x line = Some ms -> wf_ms 0 ms (length line).
Proof.
  destruct x as [|r]; cbn [rx_greedy]; [apply char_matches_wf|].
  intros H; injection H as <-. apply (re_matches_wf (RPlus r) line).
Qed.

Lemma table_ok_nil len : table_ok [] len.
Proof. intros i j a z _ Ha _. destruct i; discriminate. Qed.

Lemma fields_table_ok ms line : wf_ms 0 ms (length line) -> table_ok (fields_of_matches ms line) (length line).
Proof.
  intros H. unfold fields_of_matches. destruct line as [|c l]; [apply table_ok_nil | apply gaps_table_ok, H].
Qed.

(** ---------- the general path on one record *)
Theorem cut_str_total o line0 :
  bounds_ok o -> rx_consistent o ->
  match cut_str o line0 with Some r => rres_ok r | None => True end.
Proof.
  intros Hb Hc. destruct (bounds_ok_items o Hb) as [Hnz Hne].
  unfold cut_str.
  match goal with |- context [if ?c then Some RErr else _] => destruct c end; [exact I|].
  match goal with |- match (match ?T with _ => _ end) with _ => _ end => destruct T as [[|c0 line1]|] end;
    [exact I | | exact I].
  match goal with |- match (match ?T with _ => _ end) with _ => _ end => destruct T as [[[line delim] use_re]|] end;
    [|exact I].
  match goal with |- match (match ?T with _ => _ end) with _ => _ end =>
    assert (Hwf : forall ms, T = Some ms -> wf_ms 0 ms (length line));
      [|destruct T as [ms|]; [specialize (Hwf ms eq_refl) | exact I]] end.
  { intros ms. destruct use_re.
    - destruct (o_regex o) as [x|].
      + destruct (o_greedy o); [apply rx_greedy_wf | apply rx_normal_wf].
      + intros H; injection H as <-. cbn. lia.
    - destruct (o_greedy o); intros H; injection H as <-;
        [apply merge_adjacent_wf, lit_matches_wf | apply lit_matches_wf]. }
  set (fields := if btype_eqb (o_btype o) BChars then drop_outer (fields_of_matches ms line)
                 else fields_of_matches ms line).
  assert (Ht : table_ok fields (length line)).
  { subst fields. destruct (btype_eqb (o_btype o) BChars);
      [apply drop_outer_table_ok|]; apply fields_table_ok, Hwf. }
  destruct (o_only_delimited o && Nat.eqb (length fields) 1); [exact I|].
  assert (Hb1 : forall bs1,
            (if o_complement o
             then match complement_list (items (o_bounds o)) (length fields) with
                  | Some l => Some (items l)
                  | None => None
                  end
             else Some (items (o_bounds o))) = Some bs1 ->
            Forall item_nz bs1 /\ bounds_only bs1 <> []).
  { intros bs1. destruct (o_complement o).
    - destruct (complement_list (items (o_bounds o)) (length fields)) as [u|] eqn:E; [|discriminate].
      intros H; injection H as <-. apply (complement_list_ok _ _ _ Hnz E).
    - intros H; injection H as <-. split; assumption. }
  match goal with |- match (match ?T with _ => _ end) with _ => _ end =>
    destruct T as [bs1|]; [destruct (Hb1 bs1 eq_refl) as [Hnz1 Hne1] | exact I] end.
  match goal with |- match (match ?T with _ => _ end) with _ => _ end =>
    assert (Hb2 : exists bs2, T = Some bs2 /\ Forall item_nz bs2) end.
  { match goal with |- exists bs2, (if ?c then _ else _) = _ /\ _ => destruct c end.
    - destruct (unpack_list_ok bs1 (length fields) Hnz1 Hne1) as [u [E Hu]]. rewrite E. eexists. split; [reflexivity | exact Hu].
    - eexists. split; [reflexivity | exact Hnz1]. }
  destruct Hb2 as [bs2 [-> Hnz2]].
  pose proof (out_loop_total o line fields bs2 Hc Ht Hnz2) as Hout.
  destruct (out_loop o line fields bs2); exact Hout || exact I.
Qed.

(** ---------- whole runs *)
Definition outcome_ok (x : outcome) : Prop := match x with Panic | Hang => False | _ => True end.
Definition mres_ok (m : mres) : Prop := match m with MOut x => outcome_ok x | _ => True end.

Lemma run_records_total cut rs : forall acc,
  (forall r, match cut r with Some x => rres_ok x | None => True end) ->
  match run_records cut rs acc with Some x => outcome_ok x | None => True end.
Proof.
  induction rs as [|r rs IH]; intros acc H; cbn [run_records]; [exact I|].
  specialize (H r) as Hr. destruct (cut r) as [[o| | |]|]; try exact I; try contradiction.
  apply IH, H.
Qed.

Theorem general_path_total o input : bounds_ok o -> rx_consistent o ->
  mres_ok (lift (read_and_cut_str o input)).
Proof.
  intros Hb Hc. unfold read_and_cut_str.
  pose proof (run_records_total (cut_str o) (records (o_eol o) input) [] (fun r => cut_str_total o r Hb Hc)) as H.
  destruct (run_records (cut_str o) (records (o_eol o) input) []) as [x|]; [exact H | exact I].
Qed.

Theorem fast_lane_total o input : bounds_ok o -> rx_consistent o -> fast_eligible o = true ->
  mres_ok (lift (read_and_cut_fast o input)).
Proof.
  intros Hb Hc He. destruct Hb as [l0 [Hf Hnz]]. unfold read_and_cut_fast.
  pose proof (run_records_total (fun r => Some (cut_fast o r)) (records (o_eol o) input) []) as H.
  match type of H with ?P -> _ => assert (HP : P) end.
  { intros r. pose proof (cut_str_total o r (ex_intro _ l0 (conj Hf Hnz)) Hc) as Hr.
    rewrite (C02_record o l0 r He Hf Hnz) in Hr. exact Hr. }
  specialize (H HP).
  destruct (run_records _ _ []) as [x|]; [exact H | exact I].
Qed.

Theorem byte_mode_total l g data : outcome_ok (cut_bytes l g data).
Proof. unfold cut_bytes. destruct data; [exact I|]. destruct (cut_bytes_items _ _ _); exact I. Qed.

Lemma fwd_lines_total o : forall ls bs add idx acc, outcome_ok (fwd_lines o ls bs add idx acc).
Proof.
  induction ls as [|line ls IH]; intros bs add idx acc; cbn [fwd_lines].
  - destruct (fwd_finish o bs add); exact I.
  - destruct (negb (utf8_valid line)); [exact I|].
    destruct (fwd_bounds o bs add (idx + 1)%Z line) as [[out rest] a].
    destruct rest; [exact I | apply IH].
Qed.

Theorem line_mode_total o input : bounds_ok o -> rx_consistent o ->
  mres_ok (lift (read_and_cut_lines o input)).
Proof.
  intros Hb Hc. unfold read_and_cut_lines. destruct (can_be_streamed o).
  - cbn [lift mres_ok]. apply fwd_lines_total.
  - unfold cut_lines_buffered. destruct (negb (utf8_valid input)); [exact I|].
    pose proof (cut_str_total o (strip_one_suffix (o_eol o) input) Hb Hc) as H.
    destruct (cut_str o (strip_one_suffix (o_eol o) input)) as [[x| | |]|]; try exact I; contradiction.
Qed.

(** -M: the run is the per-record function over the records (C10), and a record read to
    its EOL yields output or fails; the fuel (input length + 1) is never exhausted *)
Theorem fixed_memory_total so input : no_adjacent_fillers (s_items so) ->
  outcome_ok (run_stream_whole so input).
Proof.
  intros Hn. pose proof (stream_whole_per_record so input Hn) as E.
  pose proof (run_records_total (stream_cut so) (records (s_eol so) input) []) as H.
  match type of H with ?P -> _ => assert (HP : P) end.
  { intros r. unfold stream_cut.
    destruct (first_record (s_eol so) r) as [Hfree|[r1 [rest [-> Hfree]]]].
    - destruct (record_shape so r (s_items so) false [] Hfree Hn) as [res Hres].
      rewrite (Hres []). destruct res; exact I.
    - (* a record never contains its terminator; the shape lemma still applies to its first part *)
      destruct (record_shape so r1 (s_items so) false [] Hfree Hn) as [res Hres].
      rewrite <- app_assoc. cbn [app]. rewrite (Hres (rest ++ [s_eol so])). destruct res; exact I. }
  specialize (H HP). rewrite <- E in H. exact H.
Qed.

(** ---------- what parse_args builds *)
Definition parsed_opt (o : opt) : Prop :=
  bounds_ok o /\ rx_consistent o /\ no_adjacent_fillers (items (o_bounds o)).

Lemma with_value_opt {A} (r : vres A) k o :
  with_value r k = POpt o ->
  exists v a, (r = VAbsent a /\ v = None \/ exists x, r = VPresent x a /\ v = Some x) /\ k v a = POpt o.
Proof.
  unfold with_value. destruct r as [l|x l| |]; try discriminate; intros H.
  - exists None, l. split; [left; split; reflexivity | exact H].
  - exists (Some x), l. split; [right; exists x; split; reflexivity | exact H].
Qed.

Lemma with_flag_opt s l a k o : with_flag s l a k = POpt o -> exists b a', k b a' = POpt o.
Proof. unfold with_flag. intros H. eauto. Qed.

Lemma opt_value_present {A} s l (f : bytes -> option A) a x a' :
  opt_value s l f a = VPresent x a' -> exists v, f v = Some x.
Proof.
  unfold opt_value. destruct (find_value s l a) as [| |v two i]; try discriminate.
  destruct (f v) as [y|] eqn:E; [|discriminate]. intros H; injection H as <- _. exists v. exact E.
Qed.

Definition ublist_ok (u : ublist) : Prop :=
  (exists l0, from_vec l0 = Some u /\ Forall item_nz l0) /\ no_adjacent_fillers (items u).

Lemma parsed_ublist_ok s u : parse_ublist s = Some u -> ublist_ok u.
Proof.
  intros H. split; [|exact (parse_ublist_naf s u H)].
  unfold parse_ublist in H. destruct s as [|c s']; [discriminate|].
  destruct (parse_bounds_list (c :: s')) as [l|] eqn:E; [|discriminate].
  exists l. split; [exact H | exact (parse_bounds_list_nz _ _ E)].
Qed.

Lemma default_bounds_ok : ublist_ok default_bounds.
Proof.
  split; [|cbn; exact I].
  exists [Bound (mkB (SSome 1) SCont false None)]. split; [reflexivity|].
  constructor; [|constructor]. split; cbn; [discriminate | exact I].
Qed.

Lemma mode_value_ok s l a (m : option ublist) a' :
  (opt_value s l parse_ublist a = VAbsent a' /\ m = None
   \/ exists x, opt_value s l parse_ublist a = VPresent x a' /\ m = Some x) ->
  match m with Some x => ublist_ok x | None => True end.
Proof.
  intros [[_ ->]|[x [E ->]]]; [exact I|].
  destruct (opt_value_present _ _ _ _ _ _ E) as [v Hv]. exact (parsed_ublist_ok v x Hv).
Qed.

Lemma pick_mode_ok mf mb mc ml :
  match mf with Some x => ublist_ok x | None => True end ->
  match mb with Some x => ublist_ok x | None => True end ->
  match mc with Some x => ublist_ok x | None => True end ->
  match ml with Some x => ublist_ok x | None => True end ->
  ublist_ok (snd (pick_mode mf mb mc ml)).
Proof.
  intros Hf Hb Hc Hl. unfold pick_mode.
  destruct mf; [exact Hf|]. destruct mb; [exact Hb|]. destruct mc; [exact Hc|]. destruct ml; [exact Hl|].
  apply default_bounds_ok.
Qed.

Theorem parse_args_builds_parsed_opt argv o : parse_args argv = POpt o -> parsed_opt o.
Proof.
  unfold parse_args. destruct argv as [|a0 argv']; [discriminate|]. set (argv := a0 :: argv').
  intros H.
  apply with_flag_opt in H. destruct H as [h [a1 H]]. destruct h; [discriminate|].
  apply with_value_opt in H. destruct H as [mf [a2 [Hmf H]]].
  apply with_value_opt in H. destruct H as [mc [a3 [Hmc H]]].
  apply with_value_opt in H. destruct H as [mb [a4 [Hmb H]]].
  apply with_value_opt in H. destruct H as [ml [a5 [Hml H]]].
  cbv zeta in H.
  pose proof (pick_mode_ok mf mb mc ml (mode_value_ok _ _ _ _ _ Hmf) (mode_value_ok _ _ _ _ _ Hmb)
                (mode_value_ok _ _ _ _ _ Hmc) (mode_value_ok _ _ _ _ _ Hml)) as Hbounds.
  set (bt := fst (pick_mode mf mb mc ml)) in *. set (bounds := snd (pick_mode mf mb mc ml)) in *.
  apply with_value_opt in H. destruct H as [md [a6 [_ H]]].
  apply with_flag_opt in H. destruct H as [greedy [a7 H]].
  apply with_value_opt in H. destruct H as [repl0 [a8 [_ H]]].
  apply with_value_opt in H. destruct H as [fixed [a9 [_ H]]].
  match type of H with (if ?c then _ else _) = _ => destruct c; [discriminate|] end.
  apply with_flag_opt in H. destruct H as [has_json [a10 H]].
  apply with_flag_opt in H. destruct H as [has_join [a11 H]].
  apply with_flag_opt in H. destruct H as [has_no_join [a12 H]].
  repeat match type of H with (if ?c then PExit1 else _) = _ => destruct c eqn:?; [discriminate|] end.
  destruct (parse_regex_value (btype_eqb bt BChars) a12) as [lr|xr lr| |] eqn:Erx; try discriminate.
  - (* no -e, not -c *)
    match type of H with (if ?c then PExit1 else _) = _ => destruct c eqn:?; [discriminate|] end.
    repeat (apply with_flag_opt in H; destruct H as [? [? H]]).
    apply with_value_opt in H. destruct H as [trim [? [_ H]]].
    apply with_value_opt in H. destruct H as [fallback [? [_ H]]].
    match type of H with (if ?c then _ else _) = _ => destruct c; [discriminate|] end.
    match type of H with match ?l with _ => _ end = _ => destruct l; [|discriminate] end.
    injection H as <-. destruct Hbounds as [Hb Hn]. split; [exact Hb|]. split; [|exact Hn].
    intros E. cbn [o_regex] in E. discriminate.
  - destruct xr as [x|]; [|discriminate].
    match type of H with (if ?c then PExit1 else _) = _ => destruct c eqn:?; [discriminate|] end.
    repeat (apply with_flag_opt in H; destruct H as [? [? H]]).
    apply with_value_opt in H. destruct H as [trim [? [_ H]]].
    apply with_value_opt in H. destruct H as [fallback [? [_ H]]].
    match type of H with (if ?c then _ else _) = _ => destruct c; [discriminate|] end.
    match type of H with match ?l with _ => _ end = _ => destruct l; [|discriminate] end.
    injection H as <-. destruct Hbounds as [Hb Hn]. split; [exact Hb|]. split; [|exact Hn].
    intros E. cbn [o_regex o_btype] in *. injection E as ->.
    unfold parse_regex_value in Erx. destruct (btype_eqb bt BChars) eqn:Ebt.
    + destruct bt; try discriminate. reflexivity.
    + destruct (opt_value k_e k_regex some_str a12) as [|s0 l0| |]; try discriminate.
      injection Erx as Erx _. destruct (parse_re s0); discriminate.
Qed.

Theorem run_opt_total o input : parsed_opt o -> mres_ok (run_opt o input).
Proof.
  intros [Hb [Hc Hn]]. unfold run_opt. destruct (o_fixed_memory o).
  - destruct (stream_opt o) as [so|] eqn:Es; [|exact I]. cbn [mres_ok].
    apply fixed_memory_total.
    unfold stream_opt in Es. destruct (o_delim o) as [|d [|d2 ds]]; try discriminate.
    match type of Es with (if ?c then _ else _) = _ => destruct c; [discriminate|] end.
    destruct (forward_bounds_ok (items (o_bounds o))); [|discriminate].
    injection Es as <-. exact Hn.
  - destruct (o_btype o) eqn:Eb;
      try (cbn [mres_ok]; apply byte_mode_total);
      try (apply line_mode_total; assumption);
      (destruct (fast_eligible o) eqn:Ef; [apply fast_lane_total | apply general_path_total]; assumption).
Qed.

(** C12 over the model: every invocation ends with status 0 or 1 (or prints help/version),
    or is outside what the model describes (a regex outside the family; -c on text that is
    not valid UTF-8); it never panics and never runs out of fuel *)
Theorem every_run_terminates_normally argv input : mres_ok (run_main argv input).
Proof.
  unfold run_main. destruct (parse_args argv) as [| | |o] eqn:E; try exact I.
  apply run_opt_total, (parse_args_builds_parsed_opt argv o E).
Qed.
