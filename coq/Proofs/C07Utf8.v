From TucModel Require Import Base.Bytes Base.ListX Model.Utf8 Proofs.ScanSplit Proofs.C07.
Local Open Scope N_scope.

Definition scalar (c : bytes) : Prop := utf8_head_len c = Some (length c).

Lemma head_len_app c rest : scalar c -> utf8_head_len (c ++ rest) = Some (length c).
Proof.
  unfold scalar. destruct c as [|b0 c1]; [discriminate|].
  cbn [app]. unfold utf8_head_len.
  destruct (b0 <? 128).
  { intros H. injection H as H. destruct c1; [reflexivity | discriminate]. }
  destruct (in_rng 194 223 b0).
  { destruct c1 as [|b1 c2]; [discriminate|]. cbn [app]. destruct (is_cont b1); [|discriminate].
    intros H. injection H as H. destruct c2; [reflexivity | discriminate]. }
  destruct (in_rng 224 239 b0).
  { destruct c1 as [|b1 [|b2 c3]]; try discriminate. cbn [app].
    match goal with |- (if ?c then _ else _) = _ -> _ => destruct c end; [|discriminate].
    intros H. injection H as H. destruct c3; [reflexivity | discriminate]. }
  destruct (in_rng 240 244 b0); [|discriminate].
  destruct c1 as [|b1 [|b2 [|b3 c4]]]; try discriminate. cbn [app].
  match goal with |- (if ?c then _ else _) = _ -> _ => destruct c end; [|discriminate].
  intros H. injection H as H. destruct c4; [reflexivity | discriminate].
Qed.

Lemma utf8_chars_fuel_scalars : forall cs fuel,
  Forall scalar cs -> (length (concat cs) <= fuel)%nat -> utf8_chars_fuel fuel (concat cs) = Some cs.
Proof.
  induction cs as [|c cs IH]; intros fuel Hs Hf.
  - destruct fuel; reflexivity.
  - inversion Hs as [|? ? Hc Hrest]; subst.
    assert (Hne : c <> []) by (intros ->; unfold scalar in Hc; discriminate).
    cbn [concat] in *. rewrite app_length in Hf.
    destruct fuel as [|f]; [destruct c; [contradiction | cbn in Hf; lia]|].
    destruct (c ++ concat cs) as [|x t] eqn:E; [destruct c; [contradiction | discriminate]|].
    cbn [utf8_chars_fuel]. rewrite <- E. rewrite (head_len_app c (concat cs) Hc).
    rewrite skipn_app_length, firstn_app, Nat.sub_diag, firstn_all. cbn [firstn]. rewrite app_nil_r.
    rewrite IH; [reflexivity | exact Hrest|]. destruct c; [contradiction | cbn in Hf; lia].
Qed.

(** any run of whole characters is valid UTF-8 again *)
Theorem scalars_are_valid cs : Forall scalar cs -> utf8_valid (concat cs) = true.
Proof.
  intros H. unfold utf8_valid, utf8_chars. rewrite (utf8_chars_fuel_scalars cs _ H (Nat.le_refl _)). reflexivity.
Qed.

(** the characters of a valid text are scalar encodings *)
Lemma utf8_chars_fuel_scalar : forall fuel l cs, utf8_chars_fuel fuel l = Some cs -> Forall scalar cs.
Proof.
  induction fuel as [|f IH]; intros l cs; cbn [utf8_chars_fuel].
  - destruct l; [|discriminate]. intros H; injection H as <-. constructor.
  - destruct l as [|b l']; [intros H; injection H as <-; constructor|].
    destruct (utf8_head_len (b :: l')) as [k|] eqn:Ek; [|discriminate].
    destruct (utf8_chars_fuel f (skipn k (b :: l'))) as [cs'|] eqn:E; [|discriminate].
    intros H; injection H as <-. constructor; [|exact (IH _ _ E)].
    (* the head length looks at the first k bytes only *)
    unfold scalar.
    assert (Hk : (k <= length (b :: l'))%nat).
    { unfold utf8_head_len in Ek.
      repeat match type of Ek with
             | (if ?c then _ else _) = _ => destruct c
             | match ?x with _ => _ end = _ => destruct x
             end; try discriminate; injection Ek as <-; cbn; lia. }
    rewrite firstn_length, Nat.min_l by exact Hk.
    revert Ek. unfold utf8_head_len.
    destruct (b <? 128) eqn:E0. { intros H; injection H as <-. cbn [firstn]. rewrite E0. reflexivity. }
    destruct (in_rng 194 223 b) eqn:E2.
    { destruct l' as [|b1 l2]; [discriminate|]. destruct (is_cont b1) eqn:E1; [|discriminate].
      intros H; injection H as <-. cbn [firstn]. rewrite E0, E2, E1. reflexivity. }
    destruct (in_rng 224 239 b) eqn:E3.
    { destruct l' as [|b1 [|b2 l3]]; try discriminate.
      match goal with |- (if ?c then _ else _) = _ -> _ => destruct c eqn:E1 end; [|discriminate].
      intros H; injection H as <-. cbn [firstn]. rewrite E0, E2, E3, E1. reflexivity. }
    destruct (in_rng 240 244 b) eqn:E4; [|discriminate].
    destruct l' as [|b1 [|b2 [|b3 l4]]]; try discriminate.
    match goal with |- (if ?c then _ else _) = _ -> _ => destruct c eqn:E1 end; [|discriminate].
    intros H; injection H as <-. cbn [firstn]. rewrite E0, E2, E3, E4, E1. reflexivity.
Qed.

Theorem selected_characters_are_valid_utf8 line cs s e :
  utf8_chars line = Some cs -> utf8_valid (concat (slice cs s e)) = true.
Proof.
  intros H. apply scalars_are_valid. pose proof (utf8_chars_fuel_scalar _ _ _ H) as HS.
  unfold slice. apply Forall_forall. intros c Hin.
  apply (proj1 (Forall_forall _ _) HS). apply in_firstn in Hin. apply in_skipn in Hin. exact Hin.
Qed.
