(** The ranges pushed by fill_with_fields_locations cut the line into exactly its fields. *)
From TucModel Require Import Base.Bytes Base.ListX Model.Scan Spec.Fields.

(** ---------- generic list facts *)
Lemma strip_prefix_some d l r : strip_prefix d l = Some r -> l = d ++ r.
Proof.
  revert l; induction d as [|x d IH]; intros l H; cbn in *.
  - injection H as <-. reflexivity.
  - destruct l as [|y l]; [discriminate|]. destruct (N.eqb_spec x y) as [<-|]; [|discriminate].
    f_equal. apply IH, H.
Qed.

Lemma strip_prefix_app d r : strip_prefix d (d ++ r) = Some r.
Proof. induction d as [|x d IH]; cbn; [reflexivity|]. rewrite N.eqb_refl. exact IH. Qed.

Lemma starts_with_true d l : starts_with d l = true <-> exists r, l = d ++ r.
Proof.
  unfold starts_with. split.
  - destruct (strip_prefix d l) as [r|] eqn:E; [|discriminate]. intros _. exists r.
    apply strip_prefix_some, E.
  - intros [r ->]. rewrite strip_prefix_app. reflexivity.
Qed.

Lemma slice_full {A} (l : list A) : slice l 0 (length l) = l.
Proof. unfold slice. rewrite Nat.sub_0_r. cbn [skipn]. apply firstn_all. Qed.

Lemma slice_empty {A} (l : list A) a : slice l a a = [].
Proof. unfold slice. rewrite Nat.sub_diag. reflexivity. Qed.

Lemma slice_snoc {A} (l : list A) s p x rest :
  s <= p -> skipn p l = x :: rest -> slice l s (S p) = slice l s p ++ [x].
Proof.
  intros Hsp Hsk. unfold slice.
  assert (E : skipn (p - s) (skipn s l) = x :: rest).
  { rewrite skipn_skipn'. replace (p - s + s) with p by lia. exact Hsk. }
  replace (S p - s) with (S (p - s)) by lia.
  remember (skipn s l) as m. remember (p - s) as k. clear - E.
  revert m E; induction k as [|k IH]; intros m E.
  - cbn in E. subst m. reflexivity.
  - destruct m as [|y m]; [discriminate|]. cbn [skipn] in E. cbn [firstn app].
    f_equal. apply IH, E.
Qed.

Lemma slice_split {A} (l : list A) a b c : a <= b -> b <= c -> slice l a c = slice l a b ++ slice l b c.
Proof.
  intros Hab Hbc. unfold slice.
  replace (c - a) with ((b - a) + (c - b)) by lia.
  rewrite firstn_add_app. f_equal.
  rewrite skipn_skipn'. replace (b - a + a) with b by lia. reflexivity.
Qed.

Lemma skipn_S_of_cons {A} (l : list A) p x rest : skipn p l = x :: rest -> skipn (S p) l = rest.
Proof.
  revert l; induction p as [|p IH]; intros l H.
  - cbn in H. subst l. reflexivity.
  - destruct l as [|y l]; [discriminate|]. cbn [skipn] in *. apply IH, H.
Qed.

Lemma skipn_length_le {A} (l : list A) p x rest : skipn p l = x :: rest -> p < length l.
Proof.
  intros H. destruct (Nat.lt_ge_cases p (length l)) as [|Hge]; [assumption|].
  rewrite skipn_all2 in H by exact Hge. discriminate.
Qed.

(** ---------- the value-level scan that the offset-level one is compared with *)
Fixpoint split_go (d : bytes) (skip : nat) (cur : bytes) (l : bytes) : list bytes :=
  match l with
  | [] => [rev cur]
  | x :: l' =>
      match skip with
      | S k => split_go d k cur l'
      | O => if starts_with d l then rev cur :: split_go d (length d - 1) [] l'
             else split_go d 0 (x :: cur) l'
      end
  end.

Definition split (d l : bytes) : list bytes := split_go d 0 [] l.

Definition pieces (line : bytes) (rs : list mtch) : list bytes :=
  map (fun r => slice line (fst r) (snd r)) rs.

Lemma starts_with_length d l : starts_with d l = true -> length d <= length l.
Proof. intros H. apply starts_with_true in H. destruct H as [r ->]. rewrite app_length. lia. Qed.

(** offset-level scan = value-level scan (any non-empty delimiter) *)
Lemma scan_ranges_go d line : d <> [] ->
  forall rest skip pos start cur,
    skipn pos line = rest ->
    skip <= length rest ->
    (skip = 0 -> start <= pos /\ rev cur = slice line start pos) ->
    (skip <> 0 -> cur = [] /\ start = pos + skip) ->
    pieces line (gaps_from start (map (fun p => (p, p + length d)) (find_iter_aux d skip pos rest)) (length line))
    = split_go d skip cur rest.
Proof.
  intros Hd. induction rest as [|x rest IH]; intros skip pos start cur Hsk Hle H0 Hn0.
  - cbn in Hle. assert (skip = 0) by lia. subst skip. destruct (H0 eq_refl) as [Hsp Hcur].
    cbn [find_iter_aux]. destruct d as [|c d]; [contradiction|]. cbn [map gaps_from pieces split_go fst snd].
    assert (pos >= length line).
    { destruct (Nat.lt_ge_cases pos (length line)) as [Hlt|]; [|assumption].
      exfalso. assert (length (skipn pos line) = 0) by (rewrite Hsk; reflexivity).
      rewrite skipn_length in H. lia. }
    f_equal. rewrite Hcur. unfold slice. rewrite !firstn_all2; try reflexivity;
      rewrite skipn_length; lia.
  - cbn [find_iter_aux split_go]. destruct skip as [|k].
    + destruct (H0 eq_refl) as [Hsp Hcur].
      destruct (starts_with d (x :: rest)) eqn:Esw.
      * cbn [map gaps_from pieces fst snd]. f_equal; [symmetry; exact Hcur|].
        fold (pieces line). apply IH.
        -- eapply skipn_S_of_cons; exact Hsk.
        -- apply starts_with_length in Esw. cbn in Esw. lia.
        -- intros Hz.
           assert (Hd1 : pos + length d = S pos) by (destruct d; [contradiction|cbn in *; lia]).
           rewrite Hd1. split; [lia|]. rewrite slice_empty. reflexivity.
        -- intros _. split; [reflexivity|]. destruct d; [contradiction|cbn; lia].
      * apply IH.
        -- eapply skipn_S_of_cons; exact Hsk.
        -- lia.
        -- intros _. split; [lia|]. cbn [rev]. rewrite Hcur. symmetry.
           eapply slice_snoc; [exact Hsp | exact Hsk].
        -- intros H; contradiction.
    + destruct (Hn0 ltac:(discriminate)) as [-> ->]. apply IH.
      * eapply skipn_S_of_cons; exact Hsk.
      * cbn in Hle. lia.
      * intros ->. split; [lia|]. replace (pos + 1) with (S pos) by lia.
        rewrite slice_empty. reflexivity.
      * intros _. split; [reflexivity | lia].
Qed.

(** the fields-locations of a non-empty line are the ranges of its split *)
Theorem scan_ranges_split d line : d <> [] -> line <> [] ->
  pieces line (fields_of_matches (lit_matches d line) line) = split d line.
Proof.
  intros Hd Hl. unfold fields_of_matches, lit_matches, find_iter, split.
  destruct line as [|c line]; [contradiction|].
  apply (scan_ranges_go d (c :: line) Hd (c :: line) 0 0 0 []).
  - reflexivity.
  - lia.
  - intros _. split; [lia | rewrite slice_empty; reflexivity].
  - intros H; contradiction.
Qed.

(** ---------- the value-level scan yields the fields of the statement *)
Lemma split_go_nonempty d skip cur l : split_go d skip cur l <> [].
Proof.
  revert skip cur; induction l as [|x l IH]; intros skip cur; cbn [split_go]; [discriminate|].
  destruct skip; [|apply IH]. destruct (starts_with d (x :: l)); [discriminate | apply IH].
Qed.

Lemma intercalate_cons d p ps : ps <> [] -> intercalate d (p :: ps) = p ++ d ++ intercalate d ps.
Proof. destruct ps; [contradiction | reflexivity]. Qed.

Lemma skipn_app_length {A} (a b : list A) : skipn (length a) (a ++ b) = b.
Proof. induction a; [reflexivity | exact IHa]. Qed.

Lemma occ_starts_with d (a b : bytes) : starts_with d (skipn (length a) (a ++ d ++ b)) = true.
Proof. rewrite skipn_app_length. apply starts_with_true. exists b. reflexivity. Qed.

(** no occurrence of [d] starts at an offset < k of [l] *)
Definition no_occ_before (d l : bytes) (k : nat) : Prop :=
  forall p, p < k -> starts_with d (skipn p l) = false.

Lemma split_go_spec d : d <> [] ->
  forall rest skip cur,
    skip <= length rest ->
    (skip <> 0 -> cur = []) ->
    no_occ_before d (rev cur ++ rest) (length cur) ->
    intercalate d (split_go d skip cur rest) = rev cur ++ skipn skip rest
    /\ leftmost_fields d (split_go d skip cur rest).
Proof.
  intros Hd. induction rest as [|x rest IH]; intros skip cur Hle Hcur Hno.
  - cbn in Hle. assert (skip = 0) by lia. subst skip. cbn [split_go intercalate skipn leftmost_fields].
    rewrite app_nil_r. split; [reflexivity|]. intros [a [b E]].
    rewrite app_nil_r in Hno. specialize (Hno (length a)).
    rewrite E in Hno. rewrite occ_starts_with in Hno.
    assert (length a < length cur).
    { rewrite <- (rev_length cur), E, !app_length. destruct d; [contradiction | cbn; lia]. }
    specialize (Hno H). discriminate.
  - cbn [split_go]. destruct skip as [|k].
    + destruct (starts_with d (x :: rest)) eqn:Esw.
      * pose proof Esw as Esw'. apply starts_with_true in Esw'. destruct Esw' as [r Er].
        assert (Hk : length d - 1 <= length rest).
        { apply starts_with_length in Esw. cbn in Esw. lia. }
        destruct (IH (length d - 1) [] Hk (fun _ => eq_refl)) as [I1 I2].
        { intros p Hp. cbn in Hp. lia. }
        assert (Hr : skipn (length d - 1) rest = r).
        { destruct d as [|c d]; [contradiction|]. cbn [app] in Er. injection Er as _ Er.
          cbn [length]. replace (S (length d) - 1) with (length d) by lia.
          rewrite Er. apply skipn_app_length. }
        split.
        -- rewrite intercalate_cons by apply split_go_nonempty.
           rewrite I1. cbn [rev app skipn]. rewrite Hr, Er. reflexivity.
        -- assert (Hne : split_go d (length d - 1) [] rest <> []) by apply split_go_nonempty.
           destruct (split_go d (length d - 1) [] rest) as [|q qs] eqn:Eq; [contradiction|].
           cbn [leftmost_fields]. split; [|exact I2].
           intros a b E. destruct b as [|y b]; [reflexivity|]. exfalso.
           assert (Hlen : length a < length cur).
           { apply (f_equal (@length _)) in E. rewrite !app_length, rev_length in E. cbn in E. lia. }
           specialize (Hno (length a) Hlen). cbn [skipn] in Hno.
           rewrite Er in Hno. rewrite app_assoc, E in Hno.
           rewrite <- !app_assoc in Hno. rewrite occ_starts_with in Hno. discriminate.
      * cbn [skipn]. destruct (IH 0 (x :: cur) ltac:(lia) ltac:(intros H; contradiction)) as [I1 I2].
        { intros p Hp. cbn [rev]. rewrite <- app_assoc. cbn [app].
          cbn [length] in Hp. destruct (Nat.eq_dec p (length cur)) as [->|Hne].
          - rewrite <- rev_length, skipn_app_length. exact Esw.
          - apply Hno. lia. }
        cbn [skipn] in I1. cbn [rev] in I1. rewrite <- app_assoc in I1. cbn [app] in I1.
        split; assumption.
    + rewrite (Hcur ltac:(discriminate)) in *. cbn [skipn rev app].
      destruct (IH k [] ltac:(cbn in Hle; lia) (fun _ => eq_refl)) as [I1 I2].
      { intros p Hp. cbn in Hp. lia. }
      split; assumption.
Qed.

(** the value-level scan computes the fields of the statement *)
Theorem split_is_split d line : d <> [] -> is_split d line (split d line).
Proof.
  intros Hd. unfold is_split, split.
  destruct (split_go_spec d Hd line 0 [] ltac:(lia) ltac:(intros H; contradiction)) as [H1 H2].
  - intros p Hp. cbn in Hp. lia.
  - cbn [rev app skipn] in H1. split; assumption.
Qed.

(** C01 core: the byte ranges pushed by fill_with_fields_locations cut a non-empty record
    into exactly the fields of the statement, for every non-empty delimiter
    (self-overlapping ones included) *)
Theorem fields_locations_are_fields d line : d <> [] -> line <> [] ->
  is_split d line (pieces line (fields_of_matches (lit_matches d line) line)).
Proof. intros Hd Hl. rewrite (scan_ranges_split d line Hd Hl). apply split_is_split, Hd. Qed.
