(** C11: -z is newline mode with the roles of LF and NUL exchanged.
    Proved: record splitting, field locations, trimming and the streaming scan depend only
    on which bytes are equal to which, so they commute with any injective renaming of the
    bytes; exchanging LF and NUL is such a renaming. *)
From TucModel Require Import Base.Bytes Base.ListX Model.Scan Model.CutStr.

Definition swap (b : byte) : byte :=
  if N.eqb b LF then NUL else if N.eqb b NUL then LF else b.

Lemma swap_involutive b : swap (swap b) = b.
Proof.
  unfold swap, LF, NUL.
  destruct (N.eqb_spec b 10) as [->|H1]; [reflexivity|].
  destruct (N.eqb_spec b 0) as [->|H2]; [reflexivity|].
  destruct (N.eqb_spec b 10); [contradiction|]. destruct (N.eqb_spec b 0); [contradiction|]. reflexivity.
Qed.

Lemma swap_injective a b : swap a = swap b -> a = b.
Proof. intros H. rewrite <- (swap_involutive a), <- (swap_involutive b), H. reflexivity. Qed.

Section Renaming.
  Variable f : byte -> byte.
  Hypothesis f_inj : forall a b, f a = f b -> a = b.

  Lemma eqb_f a b : N.eqb (f a) (f b) = N.eqb a b.
  Proof.
    destruct (N.eqb_spec a b) as [->|H]; [apply N.eqb_refl|].
    apply N.eqb_neq. intros E. apply H, f_inj, E.
  Qed.

  (** records: splitting the renamed input at the renamed terminator *)
  Lemma records_aux_rename eol : forall l cur,
    records_aux (f eol) (map f cur) (map f l) = map (map f) (records_aux eol cur l).
  Proof.
    induction l as [|x l IH]; intros cur; cbn [map records_aux].
    - destruct cur; cbn [map]; [reflexivity|]. rewrite <- map_cons, <- map_rev. reflexivity.
    - rewrite eqb_f. destruct (N.eqb x eol).
      + cbn [map]. rewrite <- map_rev. f_equal. apply (IH []).
      + apply (IH (x :: cur)).
  Qed.

  Theorem records_rename eol l : records (f eol) (map f l) = map (map f) (records eol l).
  Proof. apply (records_aux_rename eol l []). Qed.

  Lemma strip_prefix_rename d l :
    strip_prefix (map f d) (map f l) = option_map (map f) (strip_prefix d l).
  Proof.
    revert l; induction d as [|x d IH]; intros l; cbn [map strip_prefix]; [reflexivity|].
    destruct l as [|y l]; cbn [map]; [reflexivity|]. rewrite eqb_f.
    destruct (N.eqb x y); [apply IH | reflexivity].
  Qed.

  Lemma starts_with_rename d l : starts_with (map f d) (map f l) = starts_with d l.
  Proof. unfold starts_with. rewrite strip_prefix_rename. destruct (strip_prefix d l); reflexivity. Qed.

  (** the delimiter occurrences, hence the field locations, are unchanged *)
  Lemma find_iter_aux_rename d : forall l skip pos,
    find_iter_aux (map f d) skip pos (map f l) = find_iter_aux d skip pos l.
  Proof.
    induction l as [|x l IH]; intros skip pos; cbn [map find_iter_aux].
    - destruct skip; [destruct d; reflexivity | reflexivity].
    - destruct skip; [|apply IH].
      change (f x :: map f l) with (map f (x :: l)). rewrite starts_with_rename, map_length.
      destruct (starts_with d (x :: l)); [f_equal|]; apply IH.
  Qed.

  Theorem fields_locations_rename d line :
    fields_of_matches (lit_matches (map f d) (map f line)) (map f line)
    = fields_of_matches (lit_matches d line) line.
  Proof.
    unfold fields_of_matches, lit_matches, find_iter. rewrite find_iter_aux_rename, !map_length.
    destruct line; reflexivity.
  Qed.

  Theorem greedy_locations_rename d line :
    fields_of_matches (merge_adjacent (lit_matches (map f d) (map f line))) (map f line)
    = fields_of_matches (merge_adjacent (lit_matches d line)) line.
  Proof.
    unfold fields_of_matches, lit_matches, find_iter. rewrite find_iter_aux_rename, !map_length.
    destruct line; reflexivity.
  Qed.

  (** the bytes selected by a range of locations are the renamed bytes *)
  Lemma slice_rename (l : bytes) a b : slice (map f l) a b = map f (slice l a b).
  Proof. unfold slice. rewrite skipn_map, firstn_map. reflexivity. Qed.

  (** trimming *)
  Lemma trim_left_fuel_rename d : forall fuel l,
    trim_left_fuel fuel (map f d) (map f l) = map f (trim_left_fuel fuel d l).
  Proof.
    induction fuel as [|n IH]; intros l; cbn [trim_left_fuel]; [reflexivity|].
    rewrite strip_prefix_rename. destruct (strip_prefix d l); cbn [option_map]; [apply IH | reflexivity].
  Qed.

  Lemma trim_left_rename d l : trim_left (map f d) (map f l) = map f (trim_left d l).
  Proof. unfold trim_left. destruct d; cbn [map]; [reflexivity|]. rewrite map_length. apply (trim_left_fuel_rename (_ :: _)). Qed.

  Theorem trim_rename k d l : trim_lit k (map f d) (map f l) = map f (trim_lit k d l).
  Proof.
    unfold trim_lit, trim_right. destruct k.
    - apply trim_left_rename.
    - rewrite <- !map_rev, trim_left_rename, map_rev. reflexivity.
    - rewrite trim_left_rename, <- !map_rev, trim_left_rename, map_rev. reflexivity.
  Qed.

  (** -p *)
  Lemma compress_from_rename d line : forall ps prev,
    compress_from (map f d) (map f line) prev ps = map f (compress_from d line prev ps).
  Proof.
    induction ps as [|idx ps IH]; intros prev; cbn [compress_from]; rewrite !map_length.
    - destruct (Nat.ltb prev (length line)); [apply skipn_map | reflexivity].
    - rewrite slice_rename, IH, map_app. f_equal.
      destruct (Nat.eqb idx 0); [reflexivity|].
      destruct (slice line prev idx); cbn [map]; [reflexivity|]. rewrite <- map_cons, <- map_app. reflexivity.
  Qed.

  Theorem compress_rename d line :
    compress_delimiter (map f d) (map f line) = map f (compress_delimiter d line).
  Proof.
    unfold compress_delimiter, find_iter. rewrite find_iter_aux_rename. apply compress_from_rename.
  Qed.
End Renaming.

(** the instance of the statement *)
Theorem C11_records_swap eol l : records (swap eol) (map swap l) = map (map swap) (records eol l).
Proof. apply records_rename, swap_injective. Qed.

Example swap_terminators : swap LF = NUL /\ swap NUL = LF /\ swap 13%N = 13%N.
Proof. repeat split; reflexivity. Qed.
