(** C18: the parser accepts exactly the language of Spec/BoundsGrammar.v (lists without
    format text), and builds the bounds the grammar assigns. *)
From TucModel Require Import Base.Bytes Model.Bounds Model.BoundsParse Spec.Fields Spec.BoundsGrammar
     Proofs.ScanSplit Proofs.C05 Proofs.Plain.
Local Open Scope Z_scope.

Lemma is_digit_iff x : is_digit x = true <-> digit x.
Proof.
  unfold is_digit, digit. rewrite andb_true_iff, !N.leb_le. tauto.
Qed.

Lemma digits_val_iff ds : forall acc v,
  digits_val acc ds = Some v <-> Forall digit ds /\ v = dec_value acc ds.
Proof.
  induction ds as [|x ds IH]; intros acc v; cbn [digits_val dec_value].
  - split; [intros H; injection H as <-; split; [constructor | reflexivity] | intros [_ ->]; reflexivity].
  - destruct (is_digit x) eqn:E.
    + rewrite IH. apply is_digit_iff in E. split; intros [A B]; (split; [|exact B]).
      * constructor; assumption.
      * inversion A; assumption.
    + split; [discriminate|]. intros [A _]. inversion A as [|? ? Hx _]; subst.
      apply is_digit_iff in Hx. rewrite Hx in E. discriminate.
Qed.

Definition in_i32 (v : Z) : Prop := -2147483648 <= v <= 2147483647.

Lemma range_check v : ((i32_min <=? v) && (v <=? i32_max)) = true <-> in_i32 v.
Proof. unfold in_i32, i32_min, i32_max. rewrite andb_true_iff, !Z.leb_le. tauto. Qed.

Lemma digit_not_sign x : digit x -> N.eqb x ch_minus = false /\ N.eqb x ch_plus = false.
Proof. unfold digit, ch_minus, ch_plus. intros [A B]. split; apply N.eqb_neq; lia. Qed.

Theorem parse_i32_iff s v : parse_i32 s = Some v <-> int_lit s v /\ in_i32 v.
Proof.
  unfold parse_i32. split.
  - destruct s as [|x r]; [discriminate|].
    destruct (N.eqb x ch_minus) eqn:Em; [|destruct (N.eqb x ch_plus) eqn:Ep].
    + apply N.eqb_eq in Em. subst x. destruct r as [|c r']; [discriminate|].
      destruct (digits_val 0 (c :: r')) as [w|] eqn:D; [|discriminate].
      apply digits_val_iff in D. destruct D as [HF ->].
      destruct ((i32_min <=? - dec_value 0 (c :: r')) && (- dec_value 0 (c :: r') <=? i32_max)) eqn:R; [|discriminate].
      intros H; injection H as <-. split; [apply il_minus; [discriminate | exact HF] | apply range_check, R].
    + apply N.eqb_eq in Ep. subst x. destruct r as [|c r']; [discriminate|].
      destruct (digits_val 0 (c :: r')) as [w|] eqn:D; [|discriminate].
      apply digits_val_iff in D. destruct D as [HF ->].
      destruct ((i32_min <=? dec_value 0 (c :: r')) && (dec_value 0 (c :: r') <=? i32_max)) eqn:R; [|discriminate].
      intros H; injection H as <-. split; [apply il_plus; [discriminate | exact HF] | apply range_check, R].
    + destruct (digits_val 0 (x :: r)) as [w|] eqn:D; [|discriminate].
      apply digits_val_iff in D. destruct D as [HF ->].
      destruct ((i32_min <=? dec_value 0 (x :: r)) && (dec_value 0 (x :: r) <=? i32_max)) eqn:R; [|discriminate].
      intros H; injection H as <-. split; [apply il_plain; [discriminate | exact HF] | apply range_check, R].
  - intros [HL HR]. apply range_check in HR. revert HR.
    destruct HL as [ds Hne HF|ds Hne HF|ds Hne HF]; intros HR.
    + destruct ds as [|x r]; [contradiction|]. inversion HF as [|? ? Hx _]; subst.
      destruct (digit_not_sign x Hx) as [-> ->].
      assert (D : digits_val 0 (x :: r) = Some (dec_value 0 (x :: r))) by (apply digits_val_iff; split; [exact HF | reflexivity]).
      rewrite D, HR. reflexivity.
    + unfold ch_plus at 1. change (N.eqb 43 ch_minus) with false. rewrite N.eqb_refl.
      destruct ds as [|x r]; [contradiction|].
      assert (D : digits_val 0 (x :: r) = Some (dec_value 0 (x :: r))) by (apply digits_val_iff; split; [exact HF | reflexivity]).
      rewrite D, HR. reflexivity.
    + rewrite N.eqb_refl. destruct ds as [|x r]; [contradiction|].
      assert (D : digits_val 0 (x :: r) = Some (dec_value 0 (x :: r))) by (apply digits_val_iff; split; [exact HF | reflexivity]).
      rewrite D, HR. reflexivity.
Qed.

(** the bytes of an index: digits and signs only, at least one *)
Definition idx_byte (x : byte) : Prop := digit x \/ x = ch_plus \/ x = ch_minus.

Lemma int_lit_bytes s v : int_lit s v -> s <> [] /\ Forall idx_byte s.
Proof.
  intros H. destruct H as [ds Hne HF|ds Hne HF|ds Hne HF].
  - split; [exact Hne|]. eapply Forall_impl; [|exact HF]. intros x Hx. left. exact Hx.
  - split; [discriminate|]. constructor; [right; left; reflexivity|].
    eapply Forall_impl; [|exact HF]. intros x Hx. left. exact Hx.
  - split; [discriminate|]. constructor; [right; right; reflexivity|].
    eapply Forall_impl; [|exact HF]. intros x Hx. left. exact Hx.
Qed.

Lemma idx_byte_not c x : idx_byte x -> (c = ch_colon \/ c = ch_eq \/ c = ch_comma) -> N.eqb x c = false.
Proof.
  unfold idx_byte, digit, ch_plus, ch_minus, ch_colon, ch_eq, ch_comma.
  intros H Hc. apply N.eqb_neq. destruct Hc as [ -> | [ -> | -> ] ]; destruct H as [ [A B] | [ -> | -> ] ]; lia.
Qed.

(** split_once *)
Lemma split_once_none c : forall s a, split_once c s = (a, None) -> a = s /\ dfree c s.
Proof.
  induction s as [|x s IH]; intros a; cbn [split_once].
  - intros H; injection H as <-. split; [reflexivity | constructor].
  - destruct (N.eqb x c) eqn:E; [discriminate|].
    destruct (split_once c s) as [a' b'] eqn:Es. intros H; injection H as <- ->.
    destruct (IH a' eq_refl) as [-> Hf]. split; [reflexivity | constructor; assumption].
Qed.

Lemma split_once_some c : forall s a b, split_once c s = (a, Some b) -> s = a ++ c :: b /\ dfree c a.
Proof.
  induction s as [|x s IH]; intros a b; cbn [split_once]; [discriminate|].
  destruct (N.eqb x c) eqn:E.
  - intros H; injection H as <- <-. apply N.eqb_eq in E. subst x. split; [reflexivity | constructor].
  - destruct (split_once c s) as [a' b'] eqn:Es. intros H; injection H as <- ->.
    destruct (IH a' b eq_refl) as [-> Hf]. split; [reflexivity | constructor; assumption].
Qed.

Lemma split_once_app c a b : dfree c a -> split_once c (a ++ c :: b) = (a, Some b).
Proof.
  induction a as [|x a IH]; intros H; cbn [app split_once].
  - rewrite N.eqb_refl. reflexivity.
  - inversion H as [|? ? Hx Ha]; subst. rewrite Hx, (IH Ha). reflexivity.
Qed.

Lemma split_once_free c s : dfree c s -> split_once c s = (s, None).
Proof.
  induction s as [|x s IH]; intros H; cbn [split_once]; [reflexivity|].
  inversion H as [|? ? Hx Hs]; subst. rewrite Hx, (IH Hs). reflexivity.
Qed.

(** the part of UserBounds::from_str after the fallback has been split off *)
Definition parse_range (s : bytes) : option (side * side) :=
  match s with
  | [] => None
  | _ =>
    if bytes_eqb s [ch_colon] then None
    else
      let '(a, rest) := split_once ch_colon s in
      let sides :=
        match rest with
        | None => match parse_side a with Some x => Some (x, x) | None => None end
        | Some b =>
            match a, b with
            | [], _ => match parse_side b with Some r => Some (SCont, r) | None => None end
            | _, [] => match parse_side a with Some l => Some (l, SCont) | None => None end
            | _, _ => match parse_side a, parse_side b with
                      | Some l, Some r => Some (l, r)
                      | _, _ => None
                      end
            end
        end in
      match sides with
      | None => None
      | Some (l, r) =>
          if side_is_zero l || side_is_zero r then None
          else
            match l, r with
            | SSome lv, SSome rv => if (rv <? lv) && same_sign rv lv then None else Some (l, r)
            | _, _ => Some (l, r)
            end
      end
  end.

Lemma parse_bound_unfold s0 :
  parse_bound s0 = let '(s, fb) := split_once ch_eq s0 in
                   match parse_range s with
                   | Some (l, r) => Some (mkB l r false fb)
                   | None => None
                   end.
Proof.
  unfold parse_bound, parse_range. destruct (split_once ch_eq s0) as [s fb].
  destruct s as [|c s']; [reflexivity|].
  destruct (bytes_eqb (c :: s') [ch_colon]); [reflexivity|].
  destruct (split_once ch_colon (c :: s')) as [a rest].
  match goal with |- match ?X with _ => _ end = _ => destruct X as [[l r]|] end; [|reflexivity].
  destruct (side_is_zero l || side_is_zero r); [reflexivity|].
  destruct l as [lv|]; destruct r as [rv|]; try reflexivity.
  destruct ((rv <? lv) && same_sign rv lv); reflexivity.
Qed.

Lemma parse_side_index s v :
  s <> [] -> (parse_side s = Some (SSome v) <-> int_lit s v /\ in_i32 v).
Proof.
  intros Hs. unfold parse_side. destruct s as [|c s']; [contradiction|].
  rewrite <- parse_i32_iff. destruct (parse_i32 (c :: s')) as [w|].
  - split; intros H; injection H as ->; reflexivity.
  - split; discriminate.
Qed.

Lemma parse_side_nonempty s x : s <> [] -> parse_side s = Some x -> exists v, x = SSome v.
Proof.
  intros Hs. unfold parse_side. destruct s as [|c s']; [contradiction|].
  destruct (parse_i32 (c :: s')) as [w|]; [|discriminate]. intros H; injection H as <-. eauto.
Qed.

Lemma index_lit_free s v c : index_lit s v -> (c = ch_colon \/ c = ch_eq \/ c = ch_comma) -> dfree c s.
Proof.
  intros [H _] Hc. destruct (int_lit_bytes s v H) as [_ HF].
  eapply Forall_impl; [|exact HF]. intros x Hx. apply idx_byte_not; assumption.
Qed.

Lemma index_lit_ne s v : index_lit s v -> s <> [].
Proof. intros [H _]. apply (int_lit_bytes s v H). Qed.

Lemma bytes_eqb_true a b : bytes_eqb a b = true -> a = b.
Proof.
  revert b; induction a as [|x a IH]; intros [|y b]; cbn; try discriminate; [reflexivity|].
  intros H. apply andb_true_iff in H. destruct H as [E1 E2]. apply N.eqb_eq in E1. subst y. f_equal. apply IH, E2.
Qed.

Lemma bytes_eqb_refl a : bytes_eqb a a = true.
Proof. induction a as [|x a IH]; [reflexivity|]. cbn. rewrite N.eqb_refl. exact IH. Qed.

Lemma zero_check l r :
  side_is_zero l || side_is_zero r = false <->
  match l with SSome v => v <> 0 | SCont => True end /\ match r with SSome v => v <> 0 | SCont => True end.
Proof.
  rewrite orb_false_iff. destruct l as [lv|]; destruct r as [rv|]; cbn [side_is_zero];
    rewrite ?Z.eqb_neq; intuition congruence.
Qed.

Lemma mk_index s v : int_lit s v -> in_i32 v -> v <> 0 -> index_lit s v.
Proof. intros A B C. split; [exact A | split; [exact B | exact C]]. Qed.

Theorem parse_range_sound s l r : parse_range s = Some (l, r) -> range_text s l r.
Proof.
  unfold parse_range. destruct s as [|c s']; [discriminate|]. set (s := c :: s').
  destruct (bytes_eqb s [ch_colon]) eqn:Ecol; [discriminate|].
  destruct (split_once ch_colon s) as [a rest] eqn:Es.
  match goal with |- match ?X with _ => _ end = _ -> _ => destruct X as [[l0 r0]|] eqn:Esides end; [|discriminate].
  destruct (side_is_zero l0 || side_is_zero r0) eqn:Z; [discriminate|].
  apply zero_check in Z. destruct Z as [Zl Zr].
  assert (Hfin : (match l0, r0 with
                  | SSome lv, SSome rv => if (rv <? lv) && same_sign rv lv then None else Some (l0, r0)
                  | _, _ => Some (l0, r0)
                  end = Some (l, r)) ->
                 l = l0 /\ r = r0 /\ forall lv rv, l0 = SSome lv -> r0 = SSome rv -> same_sign rv lv = true -> lv <= rv).
  { destruct l0 as [lv|]; destruct r0 as [rv|];
      try (intros H; injection H as <- <-; repeat split; intros; discriminate).
    destruct ((rv <? lv) && same_sign rv lv) eqn:G; [discriminate|].
    intros H; injection H as <- <-. repeat split. intros lv' rv' Hl Hr Hs. injection Hl as <-. injection Hr as <-.
    rewrite Hs, andb_true_r in G. apply Z.ltb_ge in G. exact G. }
  intros H. destruct (Hfin H) as [-> [-> Hord]]. clear H Hfin.
  destruct rest as [b|].
  - destruct (split_once_some _ _ _ _ Es) as [Eq _].
    destruct a as [|a0 a']; [|destruct b as [|b0 b']].
    + (* :M *)
      destruct b as [|b0 b']; [subst s; cbn in Eq; rewrite Eq, bytes_eqb_refl in Ecol; discriminate|].
      destruct (parse_side (b0 :: b')) as [x|] eqn:P; [|discriminate]. injection Esides as <- <-.
      destruct (parse_side_nonempty (b0 :: b') x ltac:(discriminate) P) as [rv ->].
      apply parse_side_index in P; [|discriminate]. destruct P as [P1 P2].
      rewrite Eq. cbn [app]. apply rt_upto. apply mk_index; assumption.
    + (* N: *)
      destruct (parse_side (a0 :: a')) as [x|] eqn:P; [|discriminate]. injection Esides as <- <-.
      destruct (parse_side_nonempty (a0 :: a') x ltac:(discriminate) P) as [lv ->].
      apply parse_side_index in P; [|discriminate]. destruct P as [P1 P2].
      rewrite Eq. apply rt_from. apply mk_index; assumption.
    + destruct (parse_side (a0 :: a')) as [x|] eqn:P1; [|discriminate].
      destruct (parse_side (b0 :: b')) as [y|] eqn:P2; [|discriminate]. injection Esides as <- <-.
      destruct (parse_side_nonempty (a0 :: a') x ltac:(discriminate) P1) as [lv ->].
      destruct (parse_side_nonempty (b0 :: b') y ltac:(discriminate) P2) as [rv ->].
      apply parse_side_index in P1; [|discriminate]. apply parse_side_index in P2; [|discriminate].
      destruct P1 as [A1 A2]. destruct P2 as [B1 B2].
      rewrite Eq. apply rt_closed; [apply mk_index; assumption | apply mk_index; assumption|].
      apply Hord; reflexivity.
  - destruct (split_once_none _ _ _ Es) as [-> _].
    destruct (parse_side s) as [x|] eqn:P; [|discriminate]. injection Esides as <- <-.
    destruct (parse_side_nonempty s x ltac:(discriminate) P) as [v ->].
    apply parse_side_index in P; [|discriminate]. destruct P as [P1 P2].
    apply rt_single. apply mk_index; assumption.
Qed.

Lemma index_parse s v : index_lit s v -> parse_side s = Some (SSome v).
Proof.
  intros H. pose proof (index_lit_ne s v H) as Hne. destruct H as [A [B C]].
  apply parse_side_index; [exact Hne | split; assumption].
Qed.

Lemma order_check l r : (same_sign r l = true -> l <= r) -> (r <? l) && same_sign r l = false.
Proof.
  intros H. destruct (same_sign r l); [|apply andb_false_r].
  rewrite andb_true_r. apply Z.ltb_ge. apply H. reflexivity.
Qed.

Lemma not_single_colon s : dfree ch_colon s -> bytes_eqb s [ch_colon] = false.
Proof.
  intros H. destruct (bytes_eqb s [ch_colon]) eqn:E; [|reflexivity].
  apply bytes_eqb_true in E. subst s. inversion H as [|? ? Hx _]; subst. rewrite N.eqb_refl in Hx. discriminate.
Qed.

Theorem parse_range_complete s l r : range_text s l r -> parse_range s = Some (l, r).
Proof.
  intros H. destruct H as [s v Hi|a b l r Ha Hb Hord|a l Ha|b r Hb].
  - pose proof (index_lit_ne s v Hi) as Hne. pose proof (index_lit_free s v ch_colon Hi ltac:(tauto)) as Hf.
    unfold parse_range. destruct s as [|c s']; [contradiction|].
    rewrite (not_single_colon _ Hf), (split_once_free _ _ Hf), (index_parse _ _ Hi).
    destruct Hi as [_ [_ Hnz]]. cbn [side_is_zero]. apply Z.eqb_neq in Hnz. rewrite Hnz. cbn [orb].
    rewrite Z.ltb_irrefl. reflexivity.
  - pose proof (index_lit_ne a l Ha) as Hna. pose proof (index_lit_ne b r Hb) as Hnb.
    pose proof (index_lit_free a l ch_colon Ha ltac:(tauto)) as Hfa.
    unfold parse_range. destruct a as [|a0 a']; [contradiction|]. cbn [app].
    assert (Ecol : bytes_eqb (a0 :: a' ++ ch_colon :: b) [ch_colon] = false).
    { cbn [bytes_eqb]. destruct a'; cbn; apply andb_false_r. }
    rewrite Ecol. change (a0 :: a' ++ ch_colon :: b) with ((a0 :: a') ++ ch_colon :: b).
    rewrite (split_once_app _ _ _ Hfa). destruct b as [|b0 b']; [contradiction|].
    rewrite (index_parse _ _ Ha), (index_parse _ _ Hb).
    destruct Ha as [_ [_ Hl]]. destruct Hb as [_ [_ Hr]]. cbn [side_is_zero].
    apply Z.eqb_neq in Hl. apply Z.eqb_neq in Hr. rewrite Hl, Hr. cbn [orb].
    rewrite (order_check l r Hord). reflexivity.
  - pose proof (index_lit_ne a l Ha) as Hna.
    pose proof (index_lit_free a l ch_colon Ha ltac:(tauto)) as Hfa.
    unfold parse_range. destruct a as [|a0 a']; [contradiction|]. cbn [app].
    assert (Ecol : bytes_eqb (a0 :: a' ++ [ch_colon]) [ch_colon] = false).
    { cbn [bytes_eqb]. destruct a'; cbn; apply andb_false_r. }
    rewrite Ecol. change (a0 :: a' ++ [ch_colon]) with ((a0 :: a') ++ ch_colon :: []).
    rewrite (split_once_app _ _ _ Hfa). rewrite (index_parse _ _ Ha).
    destruct Ha as [_ [_ Hl]]. cbn [side_is_zero]. apply Z.eqb_neq in Hl. rewrite Hl. reflexivity.
  - pose proof (index_lit_ne b r Hb) as Hnb. unfold parse_range.
    destruct b as [|b0 b']; [contradiction|].
    assert (Ecol : bytes_eqb (ch_colon :: b0 :: b') [ch_colon] = false).
    { cbn [bytes_eqb]. apply andb_false_r. }
    rewrite Ecol. cbn [split_once]. rewrite N.eqb_refl. rewrite (index_parse _ _ Hb).
    destruct Hb as [_ [_ Hr]]. cbn [side_is_zero]. apply Z.eqb_neq in Hr. rewrite Hr. reflexivity.
Qed.

Theorem parse_range_iff s l r : parse_range s = Some (l, r) <-> range_text s l r.
Proof. split; [apply parse_range_sound | apply parse_range_complete]. Qed.

(** the bytes of a range: no '=' (so the first '=' of a bound starts its fallback) and no ',' *)
Lemma range_text_free s l r c : range_text s l r -> (c = ch_eq \/ c = ch_comma) -> dfree c s.
Proof.
  intros H Hc.
  assert (Hcc : N.eqb ch_colon c = false) by (destruct Hc as [->| ->]; reflexivity).
  assert (G : forall t v, index_lit t v -> dfree c t).
  { intros t v Hi. apply (index_lit_free t v c Hi). tauto. }
  destruct H as [s v Hi|a b l r Ha Hb _|a l Ha|b r Hb].
  - exact (G _ _ Hi).
  - apply Forall_app. split; [exact (G _ _ Ha) | constructor; [exact Hcc | exact (G _ _ Hb)]].
  - apply Forall_app. split; [exact (G _ _ Ha) | constructor; [exact Hcc | constructor]].
  - constructor; [exact Hcc | exact (G _ _ Hb)].
Qed.

(** UserBounds::from_str accepts exactly the bounds of the grammar *)
Theorem parse_bound_iff s b : parse_bound s = Some b <-> bound_text s b.
Proof.
  rewrite parse_bound_unfold. split.
  - destruct (split_once ch_eq s) as [t fb] eqn:Es.
    destruct (parse_range t) as [[l r]|] eqn:Er; [|discriminate].
    intros H; injection H as <-. apply parse_range_sound in Er. destruct fb as [f|].
    + destruct (split_once_some _ _ _ _ Es) as [-> _]. apply bt_fallback, Er.
    + destruct (split_once_none _ _ _ Es) as [-> _]. apply bt_plain, Er.
  - intros H. destruct H as [t l r Hr|t f l r Hr].
    + rewrite (split_once_free _ _ (range_text_free t l r ch_eq Hr ltac:(tauto))).
      rewrite (parse_range_complete _ _ _ Hr). reflexivity.
    + rewrite (split_once_app _ _ _ (range_text_free t l r ch_eq Hr ltac:(tauto))).
      rewrite (parse_range_complete _ _ _ Hr). reflexivity.
Qed.

(** ---------- lists *)
Lemma parse_csv_iff parts : forall l,
  parse_bounds_csv parts = Some l <-> exists bs, Forall2 bound_text parts bs /\ l = map Bound bs.
Proof.
  induction parts as [|p parts IH]; intros l; cbn [parse_bounds_csv].
  - split.
    + intros H; injection H as <-. exists []. split; [constructor | reflexivity].
    + intros [bs [HF ->]]. inversion HF; subst. reflexivity.
  - split.
    + destruct (parse_bound p) as [b|] eqn:E; [|discriminate].
      destruct (parse_bounds_csv parts) as [r|] eqn:Er; [|discriminate].
      intros H; injection H as <-. destruct (proj1 (IH r) eq_refl) as [bs [HF ->]].
      exists (b :: bs). split; [constructor; [apply parse_bound_iff, E | exact HF] | reflexivity].
    + intros [bs [HF ->]]. inversion HF as [|? b ? bs' Hb Hrest]; subst.
      apply parse_bound_iff in Hb. rewrite Hb.
      rewrite (proj2 (IH (map Bound bs')) (ex_intro _ bs' (conj Hrest eq_refl))). reflexivity.
Qed.

Lemma intercalate_split_on d : forall l, intercalate [d] (split_on d l) = l.
Proof.
  induction l as [|x l IH]; [reflexivity|]. cbn [split_on].
  destruct (N.eqb x d) eqn:E.
  - apply N.eqb_eq in E. subst x.
    destruct (split_on d l) as [|p ps] eqn:Es; [exfalso; exact (split_on_ne _ _ Es)|].
    change (intercalate [d] ([] :: p :: ps)) with ([] ++ [d] ++ intercalate [d] (p :: ps)).
    rewrite IH. reflexivity.
  - destruct (split_on d l) as [|p ps] eqn:Es; [exfalso; exact (split_on_ne _ _ Es)|].
    destruct ps as [|q qs].
    + cbn [intercalate] in *. rewrite IH. reflexivity.
    + change (intercalate [d] ((x :: p) :: q :: qs)) with (x :: (p ++ [d] ++ intercalate [d] (q :: qs))).
      change (intercalate [d] (p :: q :: qs)) with (p ++ [d] ++ intercalate [d] (q :: qs)) in IH.
      rewrite IH. reflexivity.
Qed.

Lemma split_on_iff d s parts :
  split_on d s = parts <-> parts <> [] /\ s = intercalate [d] parts /\ Forall (dfree d) parts.
Proof.
  split.
  - intros <-. split; [intros E; exact (split_on_ne _ _ E)|].
    split; [symmetry; apply intercalate_split_on | apply split_on_dfree].
  - intros [Hne [-> HF]]. apply split_intercalate; assumption.
Qed.

Theorem parse_list_iff s bs :
  existsb is_brace s = false -> s <> [] ->
  (parse_bounds_list s = Some (map Bound bs) <-> csv_text s bs).
Proof.
  intros Hb Hs. unfold parse_bounds_list, csv_text. destruct s as [|c s']; [contradiction|]. rewrite Hb.
  rewrite parse_csv_iff. split.
  - intros [bs' [HF E]].
    assert (bs' = bs).
    { clear - E. revert bs' E. induction bs as [|b bs IH]; intros [|b' bs'] E; try discriminate; [reflexivity|].
      cbn in E. injection E as -> E. f_equal. apply IH. exact E. }
    subst bs'. exists (split_on ch_comma (c :: s')).
    destruct (proj1 (split_on_iff ch_comma (c :: s') _) eq_refl) as [A [B C]].
    repeat split; assumption.
  - intros [parts [Hne [E [Hfree HF]]]].
    assert (Hsp : split_on ch_comma (c :: s') = parts) by (apply split_on_iff; repeat split; assumption).
    rewrite Hsp. exists bs. split; [exact HF | reflexivity].
Qed.

(** the empty argument is not a list *)
Lemma csv_text_nonempty s bs : csv_text s bs -> s <> [].
Proof.
  intros [parts [Hne [-> [_ HF]]]] E.
  destruct parts as [|p ps]; [contradiction|]. destruct ps as [|q qs].
  - cbn in E. subst p. inversion HF as [|? b ? ? Hb _]; subst.
    assert (G : forall l r, ~ range_text [] l r).
    { intros l r H. inversion H as [s0 v0 Hi|a1 b1 l1 r1 Ha1 Hb1 Ho1|a2 l2 Ha2|b3 r3 Hb3]; subst.
      - exact (index_lit_ne [] v0 Hi eq_refl).
      - destruct a1; discriminate.
      - destruct a2; discriminate. }
    inversion Hb as [t l r Hr|t f l r Hr]; subst; [exact (G l r Hr)|]. destruct t; discriminate.
  - change (intercalate [ch_comma] (p :: q :: qs)) with (p ++ [ch_comma] ++ intercalate [ch_comma] (q :: qs)) in E.
    destruct p; discriminate.
Qed.

(** C18, lists without format text: accepted iff in the language, with the bounds the
    grammar assigns, the last one flagged *)
Theorem parse_ublist_iff s :
  existsb is_brace s = false ->
  ((exists u, parse_ublist s = Some u) <-> (exists bs, csv_text s bs)).
Proof.
  intros Hb. split.
  - intros [u H]. unfold parse_ublist in H. destruct s as [|c s']; [discriminate|].
    destruct (parse_bounds_list (c :: s')) as [l|] eqn:E; [|discriminate].
    pose proof E as E'. unfold parse_bounds_list in E'. rewrite Hb in E'.
    destruct (proj1 (parse_csv_iff _ l) E') as [bs [_ ->]].
    exists bs. apply (parse_list_iff (c :: s') bs Hb ltac:(discriminate)). exact E.
  - intros [bs H]. pose proof (csv_text_nonempty s bs H) as Hs.
    pose proof (proj2 (parse_list_iff s bs Hb Hs) H) as E.
    unfold parse_ublist. destruct s as [|c s']; [contradiction|]. rewrite E.
    unfold from_vec.
    assert (Hbs : bs <> []).
    { destruct H as [parts [Hne [_ [_ HF]]]]. intros ->. inversion HF; subst. contradiction. }
    assert (Hbo : bounds_only (map Bound bs) = bs).
    { clear. induction bs as [|b bs IH]; [reflexivity|]. cbn. f_equal. exact IH. }
    rewrite Hbo. destruct bs as [|b0 bs']; [contradiction|]. eexists. reflexivity.
Qed.

Theorem parse_ublist_structure s u :
  existsb is_brace s = false -> parse_ublist s = Some u ->
  exists bs, csv_text s bs /\ items u = mark_last (map Bound bs).
Proof.
  intros Hb H. unfold parse_ublist in H. destruct s as [|c s']; [discriminate|].
  destruct (parse_bounds_list (c :: s')) as [l|] eqn:E; [|discriminate].
  pose proof E as E'. unfold parse_bounds_list in E'. rewrite Hb in E'.
  destruct (proj1 (parse_csv_iff _ l) E') as [bs [_ ->]].
  exists bs. split; [apply (parse_list_iff (c :: s') bs Hb ltac:(discriminate)); exact E|].
  unfold from_vec in H. destruct (bounds_only (map Bound bs)); [discriminate|].
  injection H as <-. reflexivity.
Qed.
