(** every bounds list the parser produces is free of adjacent fillers, so C04's theorem
    applies to every -M invocation *)
From TucModel Require Import Base.Bytes Model.Bounds Model.BoundsParse Model.Opt Model.Stream Proofs.C04.

(** the list does not end with a filler *)
Definition ends_ok (l : list bof) : Prop := forall l' f, l <> l' ++ [Filler f].

Lemma naf_app_bound l b r : no_adjacent_fillers l -> no_adjacent_fillers (Bound b :: r) ->
  no_adjacent_fillers (l ++ Bound b :: r).
Proof.
  induction l as [|x l IH]; intros Hl Hr; [exact Hr|].
  destruct x as [b0|f]; cbn [app].
  - cbn. apply IH; [exact (naf_tail _ _ Hl) | exact Hr].
  - destruct l as [|[b1|g] l'].
    + cbn. exact Hr.
    + cbn [app]. cbn. apply (IH (naf_tail _ _ Hl) Hr).
    + cbn in Hl. contradiction.
Qed.

Lemma naf_bounds_csv ps l : parse_bounds_csv ps = Some l -> Forall (fun x => is_filler x = false) l.
Proof.
  revert l; induction ps as [|p ps IH]; intros l; cbn [parse_bounds_csv].
  - intros H; injection H as <-. constructor.
  - destruct (parse_bound p); [|discriminate]. destruct (parse_bounds_csv ps) as [r|]; [|discriminate].
    intros H; injection H as <-. constructor; [reflexivity | apply IH; reflexivity].
Qed.

Lemma naf_all_bounds l : Forall (fun x => is_filler x = false) l -> no_adjacent_fillers l.
Proof.
  induction l as [|x l IH]; intros H; [exact I|]. inversion H as [|? ? Hx Hl]; subst.
  destruct x as [b|f]; [|discriminate]. cbn. apply IH, Hl.
Qed.

Lemma rev_app_single {A} (l : list A) x : rev (l ++ [x]) = x :: rev l.
Proof. rewrite rev_app_distr. reflexivity. Qed.

Lemma naf_push_filler cur acc : no_adjacent_fillers acc -> ends_ok acc ->
  no_adjacent_fillers (push_filler cur acc).
Proof.
  intros Hn He. unfold push_filler. destruct cur as [|c cur]; [exact Hn|].
  generalize (render_filler (c :: cur)) as t. intros t.
  induction acc as [|x acc IH]; [exact I|].
  destruct acc as [|y acc'].
  - cbn [app]. destruct x as [b|f]; [cbn; exact I|]. exfalso. apply (He [] f). reflexivity.
  - cbn [app]. assert (He' : ends_ok (y :: acc')).
    { intros l' f E. apply (He (x :: l') f). cbn [app]. rewrite E. reflexivity. }
    specialize (IH (naf_tail _ _ Hn) He'). cbn [app] in IH.
    destruct x as [b|f]; [cbn; exact IH|]. destruct y as [b|g]; [cbn; exact IH|]. cbn in Hn. contradiction.
Qed.

Lemma ends_ok_app_bounds acc bs :
  bs <> [] -> Forall (fun x => is_filler x = false) bs -> ends_ok (acc ++ bs).
Proof.
  intros Hne Hb l' f E.
  assert (Hin : In (Filler f) bs).
  { apply (f_equal (@rev _)) in E. rewrite !rev_app_distr in E. cbn [rev app] in E.
    destruct (rev bs) as [|x r] eqn:Er.
    - apply (f_equal (@rev _)) in Er. rewrite rev_involutive in Er. cbn in Er. contradiction.
    - cbn [app] in E. injection E as -> _. apply in_rev. rewrite Er. left; reflexivity. }
  rewrite Forall_forall in Hb. specialize (Hb _ Hin). discriminate.
Qed.

Lemma naf_app_bounds acc bs : no_adjacent_fillers acc -> bs <> [] ->
  Forall (fun x => is_filler x = false) bs -> no_adjacent_fillers (acc ++ bs).
Proof.
  intros Hn Hne Hb. destruct bs as [|x bs]; [contradiction|]. inversion Hb as [|? ? Hx Hbs]; subst.
  destruct x as [b|f]; [|discriminate]. apply naf_app_bound; [exact Hn|]. cbn. apply naf_all_bounds, Hbs.
Qed.

Lemma parse_bounds_csv_nonempty ps l : ps <> [] -> parse_bounds_csv ps = Some l -> l <> [].
Proof.
  destruct ps as [|p ps]; [contradiction|]. intros _. cbn [parse_bounds_csv].
  destruct (parse_bound p); [|discriminate]. destruct (parse_bounds_csv ps); [|discriminate].
  intros H; injection H as <-. discriminate.
Qed.

Lemma split_on_nonempty c s : split_on c s <> [].
Proof.
  induction s as [|x s IH]; cbn [split_on]; [discriminate|].
  destruct (N.eqb x c); [discriminate|]. destruct (split_on c s); [contradiction | discriminate].
Qed.

Lemma scan_format_naf n : forall s inside cur acc l,
  length s <= n -> no_adjacent_fillers acc -> (inside = false -> ends_ok acc) ->
  scan_format s inside cur acc = Some l -> no_adjacent_fillers l.
Proof.
  induction n as [|n IH]; intros s inside cur acc l Hlen Hn He.
  - destruct s; [|cbn in Hlen; lia]. cbn [scan_format]. destruct inside; [discriminate|].
    intros H; injection H as <-. apply naf_push_filler; [exact Hn | apply He; reflexivity].
  - destruct s as [|w0 s']; cbn [scan_format].
    + destruct inside; [discriminate|]. intros H; injection H as <-.
      apply naf_push_filler; [exact Hn | apply He; reflexivity].
    + cbn in Hlen.
      match goal with |- (if ?c then _ else _) = _ -> _ => destruct c eqn:Eesc end.
      * destruct s' as [|w1 s'']; [discriminate|]. apply IH; [cbn in *; lia | exact Hn | exact He].
      * destruct (N.eqb w0 ch_rbrace && negb inside); [discriminate|].
        destruct (N.eqb w0 ch_lbrace).
        -- destruct inside; [discriminate|]. apply IH; [lia | | discriminate].
           apply naf_push_filler; [exact Hn | apply He; reflexivity].
        -- destruct (N.eqb w0 ch_rbrace).
           ++ destruct (parse_bounds_csv (split_on ch_comma cur)) as [bs|] eqn:E; [|discriminate].
              pose proof (naf_bounds_csv _ _ E) as Hb.
              pose proof (parse_bounds_csv_nonempty _ _ (split_on_nonempty _ _) E) as Hne.
              apply IH; [lia | apply naf_app_bounds; assumption | intros _; apply ends_ok_app_bounds; assumption].
           ++ apply IH; [lia | exact Hn | exact He].
Qed.

Lemma parse_bounds_list_naf s l : parse_bounds_list s = Some l -> no_adjacent_fillers l.
Proof.
  unfold parse_bounds_list. destruct s as [|c s]; [intros H; injection H as <-; exact I|].
  destruct (existsb is_brace (c :: s)).
  - apply (scan_format_naf (length (c :: s))); [lia | exact I |].
    intros _ l' f E. destruct l'; discriminate.
  - intros H. apply naf_all_bounds, (naf_bounds_csv _ _ H).
Qed.

Lemma mark_last_naf l : no_adjacent_fillers l -> no_adjacent_fillers (mark_last l).
Proof.
  induction l as [|x l IH]; intros H; [exact I|].
  destruct x as [b|f]; cbn [mark_last].
  - destruct (bounds_only l); [exact H|]. cbn. apply IH. exact (naf_tail _ _ H).
  - destruct l as [|[b|g] l']; [exact I | | cbn in H; contradiction].
    specialize (IH (naf_tail _ _ H)). cbn [mark_last] in *.
    destruct (bounds_only l'); cbn; cbn in IH; exact IH.
Qed.

Theorem parse_ublist_naf s u : parse_ublist s = Some u -> no_adjacent_fillers (items u).
Proof.
  unfold parse_ublist. destruct s as [|c s]; [discriminate|].
  destruct (parse_bounds_list (c :: s)) as [l|] eqn:E; [|discriminate].
  unfold from_vec. destruct (bounds_only l); [discriminate|].
  intros H; injection H as <-. cbn. apply mark_last_naf, (parse_bounds_list_naf _ _ E).
Qed.

Lemma stream_opt_items o so : stream_opt o = Some so -> s_items so = items (o_bounds o).
Proof.
  unfold stream_opt. destruct (o_delim o) as [|d [|]]; try discriminate.
  match goal with |- (if ?c then _ else _) = _ -> _ => destruct c end; [discriminate|].
  destruct (forward_bounds_ok (items (o_bounds o))); [|discriminate].
  intros H; injection H as <-. reflexivity.
Qed.
