(** C18, format strings: the scanner accepts exactly the language [fmt_items] of
    Spec/BoundsGrammar.v and builds the items the grammar assigns; the documented language
    [fmt_doc] (no braces inside a bound) is the part of it without doubled braces in fallbacks. *)
From TucModel Require Import Base.Bytes Model.Bounds Model.BoundsParse Spec.Fields Spec.BoundsGrammar
     Proofs.ScanSplit Proofs.C05 Proofs.Plain Proofs.C18Iff.

Lemma csv_parse c bs :
  csv_text c bs <-> parse_bounds_csv (split_on ch_comma c) = Some (map Bound bs).
Proof.
  rewrite parse_csv_iff. unfold csv_text. split.
  - intros [parts [Hne [E [Hfree HF]]]].
    assert (Hsp : split_on ch_comma c = parts) by (apply split_on_iff; repeat split; assumption).
    rewrite Hsp. exists bs. split; [exact HF | reflexivity].
  - intros [bs' [HF E]].
    assert (bs' = bs).
    { clear - E. revert bs' E. induction bs as [|b bs IH]; intros [|b' bs'] E; try discriminate; [reflexivity|].
      cbn in E. injection E as -> E. f_equal. apply IH. exact E. }
    subst bs'. exists (split_on ch_comma c).
    destruct (proj1 (split_on_iff ch_comma c _) eq_refl) as [A [B C]]. repeat split; assumption.
Qed.

Lemma is_brace_false x : x <> ch_lbrace -> x <> ch_rbrace -> is_brace x = false.
Proof. intros A B. unfold is_brace. apply orb_false_iff. split; apply N.eqb_neq; assumption. Qed.

(** one step of the scanner, spelled out *)
Lemma scan_format_eq w0 s' inside cur acc :
  scan_format (w0 :: s') inside cur acc
  = (let closes_bound := inside && N.eqb w0 ch_rbrace && Nat.odd (run_len ch_rbrace (w0 :: s')) in
     let escaped :=
       match s' with
       | w1 :: _ => N.eqb w0 w1 && is_brace w0 && negb closes_bound
       | [] => false
       end in
     if escaped then
       match s' with
       | w1 :: s'' => scan_format s'' inside (cur ++ [w0; w1]) acc
       | [] => None
       end
     else if N.eqb w0 ch_rbrace && negb inside then None
     else if N.eqb w0 ch_lbrace then
       if inside then None
       else scan_format s' true [] (push_filler cur acc)
     else if N.eqb w0 ch_rbrace then
       match parse_bounds_csv (split_on ch_comma cur) with
       | None => None
       | Some bs => scan_format s' false [] (acc ++ bs)
       end
     else scan_format s' inside (cur ++ [w0]) acc).
Proof. reflexivity. Qed.

(** one step of the scanner on a byte that is not a brace *)
Lemma scan_plain_byte x s inside cur acc : x <> ch_lbrace -> x <> ch_rbrace ->
  scan_format (x :: s) inside cur acc = scan_format s inside (cur ++ [x]) acc.
Proof.
  intros A B. rewrite scan_format_eq. cbv zeta. apply N.eqb_neq in A. apply N.eqb_neq in B.
  rewrite A, B. cbn [andb]. rewrite andb_false_r. cbn [andb negb].
  destruct s as [|w1 s']; [reflexivity|]. unfold is_brace. rewrite A, B. cbn [orb]. rewrite andb_false_r. reflexivity.
Qed.

Lemma scan_lb_pair s inside cur acc :
  scan_format (ch_lbrace :: ch_lbrace :: s) inside cur acc = scan_format s inside (cur ++ [ch_lbrace; ch_lbrace]) acc.
Proof.
  rewrite scan_format_eq. cbv zeta. change (N.eqb ch_lbrace ch_rbrace) with false. rewrite andb_false_r. cbn [andb negb].
  rewrite N.eqb_refl. reflexivity.
Qed.

Lemma scan_rb_pair_outside s cur acc :
  scan_format (ch_rbrace :: ch_rbrace :: s) false cur acc = scan_format s false (cur ++ [ch_rbrace; ch_rbrace]) acc.
Proof. rewrite scan_format_eq. cbv zeta. cbn [andb negb]. rewrite N.eqb_refl. reflexivity. Qed.

Lemma scan_rb_pair_inside s cur acc :
  Nat.even (run_len ch_rbrace s) = true ->
  scan_format (ch_rbrace :: ch_rbrace :: s) true cur acc = scan_format s true (cur ++ [ch_rbrace; ch_rbrace]) acc.
Proof.
  intros Hev. rewrite scan_format_eq. cbv zeta. cbn [run_len]. rewrite !N.eqb_refl. cbn [andb].
  change (Nat.odd (S (S (run_len ch_rbrace s)))) with (Nat.odd (run_len ch_rbrace s)).
  rewrite <- Nat.negb_even, Hev. cbn [negb andb].
  unfold is_brace. rewrite N.eqb_refl, orb_true_r. reflexivity.
Qed.

Lemma scan_close rest cur acc :
  Nat.even (run_len ch_rbrace rest) = true ->
  scan_format (ch_rbrace :: rest) true cur acc
  = match parse_bounds_csv (split_on ch_comma cur) with
    | None => None
    | Some bs => scan_format rest false [] (acc ++ bs)
    end.
Proof.
  intros Hev. rewrite scan_format_eq. cbv zeta. cbn [run_len]. rewrite N.eqb_refl. cbn [andb].
  rewrite Nat.odd_succ, Hev. cbn [negb].
  change (N.eqb ch_rbrace ch_lbrace) with false.
  destruct rest as [|w1 r']; [reflexivity|]. rewrite andb_false_r. reflexivity.
Qed.

(** literal text outside braces is collected token by token, whatever follows *)
Lemma scan_text_outside t : raw_text t -> forall s cur acc,
  scan_format (t ++ s) false cur acc = scan_format s false (cur ++ t) acc.
Proof.
  induction 1 as [|x t A B Ht IH|t Ht IH|t Ht IH]; intros s cur acc; cbn [app].
  - rewrite app_nil_r. reflexivity.
  - rewrite scan_plain_byte by assumption. rewrite IH, <- app_assoc. reflexivity.
  - rewrite scan_lb_pair, IH, <- app_assoc. reflexivity.
  - rewrite scan_rb_pair_outside, IH, <- app_assoc. reflexivity.
Qed.

Lemma run_len_app_even c : raw_text c -> c <> [] -> (forall x, c <> x ++ [ch_rbrace]) ->
  forall tail, Nat.even (run_len ch_rbrace (c ++ tail)) = true.
Proof.
  induction 1 as [|x t A B Ht IH|t Ht IH|t Ht IH]; intros Hne Hlast tail; cbn [app run_len].
  - contradiction.
  - apply N.eqb_neq in B. rewrite B. reflexivity.
  - reflexivity.
  - rewrite N.eqb_refl. cbn [Nat.even]. apply IH.
    + intros ->. apply (Hlast [ch_rbrace]). reflexivity.
    + intros x E. apply (Hlast (ch_rbrace :: ch_rbrace :: x)). rewrite E. reflexivity.
Qed.

(** inside a bound: text up to the closing brace, which is the first of an odd run *)
Lemma scan_text_inside c : raw_text c -> forall rest cur acc,
  (forall x, c <> x ++ [ch_rbrace]) ->
  Nat.even (run_len ch_rbrace rest) = true ->
  scan_format (c ++ ch_rbrace :: rest) true cur acc
  = match parse_bounds_csv (split_on ch_comma (cur ++ c)) with
    | None => None
    | Some bs => scan_format rest false [] (acc ++ bs)
    end.
Proof.
  induction 1 as [|x t A B Ht IH|t Ht IH|t Ht IH]; intros rest cur acc Hlast Hev; cbn [app].
  - rewrite app_nil_r. apply scan_close, Hev.
  - rewrite scan_plain_byte by assumption. rewrite IH; [rewrite <- app_assoc; reflexivity | | exact Hev].
    intros y E. apply (Hlast (x :: y)). rewrite E. reflexivity.
  - rewrite scan_lb_pair. rewrite IH; [rewrite <- app_assoc; reflexivity | | exact Hev].
    intros y E. apply (Hlast (ch_lbrace :: ch_lbrace :: y)). rewrite E. reflexivity.
  - assert (Hne : t <> []) by (intros ->; apply (Hlast [ch_rbrace]); reflexivity).
    assert (Hl' : forall y, t <> y ++ [ch_rbrace]).
    { intros y E. apply (Hlast (ch_rbrace :: ch_rbrace :: y)). rewrite E. reflexivity. }
    pose proof (run_len_app_even t Ht Hne Hl' (ch_rbrace :: rest)) as Hrun.
    rewrite (scan_rb_pair_inside _ cur acc Hrun).
    rewrite IH; [rewrite <- app_assoc; reflexivity | exact Hl' | exact Hev].
Qed.

Lemma push_filler_is t acc : push_filler t acc = acc ++ filler_of t.
Proof. unfold push_filler, filler_of. destruct t; [rewrite app_nil_r|]; reflexivity. Qed.

(** completeness: everything in the language is accepted, with the items the grammar gives *)
Theorem scan_format_complete s its : fmt_items s its ->
  forall acc, scan_format s false [] acc = Some (acc ++ its).
Proof.
  induction 1 as [t Ht|t c rest bs its Ht Hc Hhd Hlast Hev Hcsv Hrest IH]; intros acc.
  - rewrite <- (app_nil_r t) at 1. rewrite (scan_text_outside t Ht). cbn [app scan_format].
    apply f_equal. apply push_filler_is.
  - rewrite (scan_text_outside t Ht). cbn [app].
    assert (Hopen : scan_format (ch_lbrace :: c ++ ch_rbrace :: rest) false t acc
                    = scan_format (c ++ ch_rbrace :: rest) true [] (push_filler t acc)).
    { rewrite scan_format_eq. cbv zeta. cbn [andb negb]. change (N.eqb ch_lbrace ch_rbrace) with false. cbn [andb].
      rewrite N.eqb_refl.
      destruct c as [|c0 c']; cbn [app].
      - change (N.eqb ch_lbrace ch_rbrace) with false. reflexivity.
      - assert (N.eqb ch_lbrace c0 = false).
        { apply N.eqb_neq. intros <-. apply (Hhd c'). reflexivity. }
        rewrite H. reflexivity. }
    rewrite Hopen, (scan_text_inside c Hc rest [] _ Hlast Hev). cbn [app].
    rewrite (proj1 (csv_parse c bs) Hcsv). rewrite IH, push_filler_is, <- !app_assoc. reflexivity.
Qed.

(** ---------- soundness *)
Lemma raw_text_app a b : raw_text a -> raw_text b -> raw_text (a ++ b).
Proof.
  induction 1 as [|x t A B Ht IH|t Ht IH|t Ht IH]; intros Hb; cbn [app];
    [exact Hb | apply rx_byte; auto | apply rx_lb; auto | apply rx_rb; auto].
Qed.

Lemma raw_text_byte x : x <> ch_lbrace -> x <> ch_rbrace -> raw_text [x].
Proof. intros A B. apply rx_byte; [exact A | exact B | constructor]. Qed.

Lemma is_brace_cases x : is_brace x = true -> x = ch_lbrace \/ x = ch_rbrace.
Proof. unfold is_brace. intros H. apply orb_true_iff in H. destruct H as [H|H]; apply N.eqb_eq in H; auto. Qed.

Lemma run_len_pos_cons s : Nat.even (run_len ch_rbrace (ch_rbrace :: s)) = true ->
  exists s'', s = ch_rbrace :: s'' /\ Nat.even (run_len ch_rbrace s'') = true.
Proof.
  cbn [run_len]. rewrite N.eqb_refl. destruct s as [|w1 s'']; [cbn; discriminate|].
  cbn [run_len]. destruct (N.eqb w1 ch_rbrace) eqn:E; [|cbn; discriminate].
  apply N.eqb_eq in E. subst w1. cbn [Nat.even]. intros H. exists s''. split; [reflexivity | exact H].
Qed.

Definition inside_result (cur s : bytes) (acc its : list bof) : Prop :=
  exists c' rest bs its',
    s = c' ++ ch_rbrace :: rest
    /\ raw_text (cur ++ c')
    /\ (forall x, cur ++ c' <> x ++ [ch_rbrace])
    /\ Nat.even (run_len ch_rbrace rest) = true
    /\ csv_text (cur ++ c') bs
    /\ fmt_items rest its'
    /\ its = acc ++ map Bound bs ++ its'.

Lemma scan_sound_both : forall n s, length s <= n ->
  (forall cur acc its, raw_text cur ->
     scan_format s false cur acc = Some its ->
     exists its', fmt_items (cur ++ s) its' /\ its = acc ++ its')
  /\
  (forall cur acc its, raw_text cur ->
     (forall y, cur = y ++ [ch_rbrace] -> Nat.even (run_len ch_rbrace s) = true) ->
     scan_format s true cur acc = Some its ->
     inside_result cur s acc its).
Proof.
  induction n as [|n IH]; intros s Hlen.
  - destruct s; [|cbn in Hlen; lia]. split.
    + intros cur acc its Hc H. cbn in H. injection H as <-.
      exists (filler_of cur). rewrite app_nil_r. split; [apply fi_end, Hc | apply push_filler_is].
    + intros cur acc its _ _ H. cbn in H. discriminate.
  - destruct s as [|w0 s']; [apply (IH []); cbn; lia|].
    assert (Hs' : length s' <= n) by (cbn in Hlen; lia).
    destruct (IH s' Hs') as [IHout IHin].
    split.
    + (* outside *)
      intros cur acc its Hc. rewrite scan_format_eq. cbv zeta. cbn [andb].
      destruct s' as [|w1 s''].
      * (* last byte *)
        cbv iota.
        destruct (N.eqb w0 ch_rbrace) eqn:Er; [cbn [andb negb]; discriminate|]. cbn [andb].
        destruct (N.eqb w0 ch_lbrace) eqn:El.
        -- intros H. cbn in H. discriminate.
        -- intros H. apply N.eqb_neq in Er. apply N.eqb_neq in El.
           destruct (IHout (cur ++ [w0]) acc its (raw_text_app _ _ Hc (raw_text_byte w0 El Er)) H) as [its' [F E]].
           exists its'. rewrite <- app_assoc in F. split; assumption.
      * destruct (N.eqb w0 w1 && is_brace w0 && negb false) eqn:Esc.
        -- (* a doubled brace *)
           rewrite andb_true_r in Esc. apply andb_true_iff in Esc. destruct Esc as [E1 E2].
           apply N.eqb_eq in E1. subst w1.
           assert (Hs'' : length s'' <= n) by (cbn in Hlen; lia).
           destruct (IH s'' Hs'') as [IHout2 _].
           intros H.
           assert (Hraw : raw_text (cur ++ [w0; w0])).
           { apply raw_text_app; [exact Hc|]. destruct (is_brace_cases w0 E2) as [->| ->]; constructor; constructor. }
           destruct (IHout2 (cur ++ [w0; w0]) acc its Hraw H) as [its' [F E]].
           exists its'. rewrite <- app_assoc in F. split; assumption.
        -- destruct (N.eqb w0 ch_rbrace) eqn:Er; [cbn [andb negb]; discriminate|]. cbn [andb].
           destruct (N.eqb w0 ch_lbrace) eqn:El.
           ++ (* a bound opens *)
              apply N.eqb_eq in El. subst w0. intros H.
              assert (Hw1 : w1 <> ch_lbrace).
              { intros ->. rewrite N.eqb_refl in Esc. cbn in Esc. discriminate. }
              destruct (IHin [] (push_filler cur acc) its rx_nil ltac:(intros y E; destruct y; discriminate) H)
                as [c' [rest [bs [its' [Es [Hraw [Hlast [Hev [Hcsv [Hf Eits]]]]]]]]]].
              cbn [app] in *. exists (filler_of cur ++ map Bound bs ++ its'). split.
              ** rewrite Es. apply fi_bound; try assumption.
                 intros x Ex. destruct c' as [|c0 c'']; [discriminate|].
                 cbn [app] in Es. injection Es as E0 _. injection Ex as E1 _. congruence.
              ** rewrite Eits, push_filler_is, <- !app_assoc. reflexivity.
           ++ intros H. apply N.eqb_neq in Er. apply N.eqb_neq in El.
              destruct (IHout (cur ++ [w0]) acc its (raw_text_app _ _ Hc (raw_text_byte w0 El Er)) H) as [its' [F E]].
              exists its'. rewrite <- app_assoc in F. split; assumption.
    + (* inside *)
      intros cur acc its Hc Hpar. rewrite scan_format_eq. cbv zeta. cbn [andb].
      destruct (N.eqb w0 ch_rbrace) eqn:Er.
      * apply N.eqb_eq in Er. subst w0.
        destruct (Nat.odd (run_len ch_rbrace (ch_rbrace :: s'))) eqn:Eodd.
        -- (* the closing brace *)
           cbn [andb].
           assert (Hesc : match s' with
                          | [] => false
                          | w1 :: _ => N.eqb ch_rbrace w1 && is_brace ch_rbrace && negb true
                          end = false) by (destruct s'; [reflexivity | apply andb_false_r]).
           rewrite Hesc. cbn [negb andb]. change (N.eqb ch_rbrace ch_lbrace) with false. cbv iota.
           destruct (parse_bounds_csv (split_on ch_comma cur)) as [l|] eqn:Ecsv; [|discriminate].
           destruct (proj1 (parse_csv_iff _ l) Ecsv) as [bs [_ ->]].
           intros H. destruct (IHout [] (acc ++ map Bound bs) its rx_nil H) as [its' [F E]]. cbn [app] in F.
           exists [], s', bs, its'. rewrite app_nil_r.
           assert (Hev' : Nat.even (run_len ch_rbrace s') = true).
           { cbn [run_len] in Eodd. rewrite N.eqb_refl in Eodd. rewrite Nat.odd_succ in Eodd. exact Eodd. }
           repeat split; try assumption.
           ++ intros y Ey. specialize (Hpar y Ey). rewrite <- Nat.negb_odd, Eodd in Hpar. discriminate.
           ++ apply csv_parse. exact Ecsv.
           ++ rewrite E, <- app_assoc. reflexivity.
        -- (* an escaped pair of closing braces *)
           assert (Hev : Nat.even (run_len ch_rbrace (ch_rbrace :: s')) = true)
             by (rewrite <- Nat.negb_odd, Eodd; reflexivity).
           destruct (run_len_pos_cons s' Hev) as [s'' [-> Hev'']].
           cbn [andb]. rewrite N.eqb_refl. unfold is_brace at 1. rewrite N.eqb_refl, orb_true_r. cbn [negb andb].
           assert (Hs'' : length s'' <= n) by (cbn in Hlen; lia).
           destruct (IH s'' Hs'') as [_ IHin2].
           intros H.
           assert (Hraw : raw_text (cur ++ [ch_rbrace; ch_rbrace]))
             by (apply raw_text_app; [exact Hc | constructor; constructor]).
           destruct (IHin2 (cur ++ [ch_rbrace; ch_rbrace]) acc its Hraw (fun _ _ => Hev'') H)
             as [c' [rest [bs [its' [Es [Hr [Hlast [Hevr [Hcsv [Hf Eits]]]]]]]]]].
           exists (ch_rbrace :: ch_rbrace :: c'), rest, bs, its'.
           rewrite <- app_assoc in Hr, Hlast, Hcsv. cbn [app] in *. rewrite Es.
           repeat split; assumption.
      * cbn [andb].
        destruct s' as [|w1 s''].
        -- cbv iota. destruct (N.eqb w0 ch_lbrace) eqn:El; [discriminate|].
           intros H. cbn in H. discriminate.
        -- destruct (N.eqb w0 w1 && is_brace w0 && negb false) eqn:Esc.
           ++ rewrite andb_true_r in Esc. apply andb_true_iff in Esc. destruct Esc as [E1 E2].
              apply N.eqb_eq in E1. subst w1.
              destruct (is_brace_cases w0 E2) as [->| ->]; [|rewrite N.eqb_refl in Er; discriminate].
              assert (Hs'' : length s'' <= n) by (cbn in Hlen; lia).
              destruct (IH s'' Hs'') as [_ IHin2].
              intros H.
              assert (Hraw : raw_text (cur ++ [ch_lbrace; ch_lbrace]))
                by (apply raw_text_app; [exact Hc | constructor; constructor]).
              assert (Hpar' : forall y, cur ++ [ch_lbrace; ch_lbrace] = y ++ [ch_rbrace] ->
                                        Nat.even (run_len ch_rbrace s'') = true).
              { intros y Ey. exfalso. apply (f_equal (@rev _)) in Ey.
                rewrite !rev_app_distr in Ey. cbn in Ey. discriminate. }
              destruct (IHin2 (cur ++ [ch_lbrace; ch_lbrace]) acc its Hraw Hpar' H)
                as [c' [rest [bs [its' [Es [Hr [Hlast [Hevr [Hcsv [Hf Eits]]]]]]]]]].
              exists (ch_lbrace :: ch_lbrace :: c'), rest, bs, its'.
              rewrite <- app_assoc in Hr, Hlast, Hcsv. cbn [app] in *. rewrite Es.
              repeat split; assumption.
           ++ destruct (N.eqb w0 ch_lbrace) eqn:El; [discriminate|].
              intros H. apply N.eqb_neq in Er. apply N.eqb_neq in El.
              assert (Hraw : raw_text (cur ++ [w0])) by (apply raw_text_app; [exact Hc | apply raw_text_byte; assumption]).
              assert (Hpar' : forall y, cur ++ [w0] = y ++ [ch_rbrace] ->
                                        Nat.even (run_len ch_rbrace (w1 :: s'')) = true).
              { intros y Ey. exfalso. apply (f_equal (@rev _)) in Ey.
                rewrite !rev_app_distr in Ey. cbn in Ey. injection Ey as Ey _. contradiction. }
              destruct (IHin (cur ++ [w0]) acc its Hraw Hpar' H)
                as [c' [rest [bs [its' [Es [Hr [Hlast [Hevr [Hcsv [Hf Eits]]]]]]]]]].
              exists (w0 :: c'), rest, bs, its'.
              rewrite <- app_assoc in Hr, Hlast, Hcsv. cbn [app] in *. rewrite Es.
              repeat split; assumption.
Qed.

(** soundness: whatever the scanner accepts is in the language, with those items *)
Theorem scan_format_sound s its : scan_format s false [] [] = Some its -> fmt_items s its.
Proof.
  intros H. destruct (scan_sound_both (length s) s (Nat.le_refl _)) as [A _].
  destruct (A [] [] its rx_nil H) as [its' [F E]]. cbn [app] in *. subst its'. exact F.
Qed.

Theorem scan_format_iff s its : scan_format s false [] [] = Some its <-> fmt_items s its.
Proof.
  split; [apply scan_format_sound|]. intros H. rewrite (scan_format_complete s its H []). reflexivity.
Qed.

(** the documented language (no braces inside a bound) is part of it *)
Lemma brace_free_raw c : brace_free c -> raw_text c.
Proof.
  induction 1 as [|x c [A B] Hc IH]; [constructor | apply rx_byte; assumption].
Qed.

Lemma raw_run_even_tail t : raw_text t -> forall tail,
  (tail = [] \/ exists x, tail = ch_lbrace :: x) -> Nat.even (run_len ch_rbrace (t ++ tail)) = true.
Proof.
  induction 1 as [|x t A B Ht IH|t Ht IH|t Ht IH]; intros tail Htail; cbn [app run_len].
  - destruct Htail as [->|[x ->]]; reflexivity.
  - apply N.eqb_neq in B. rewrite B. reflexivity.
  - reflexivity.
  - rewrite N.eqb_refl. cbn [Nat.even]. apply IH, Htail.
Qed.

Lemma fmt_doc_run s its : fmt_doc s its -> Nat.even (run_len ch_rbrace s) = true.
Proof.
  intros H. destruct H as [t Ht|t c rest bs its Ht Hc Hcsv Hrest].
  - rewrite <- (app_nil_r t). apply raw_run_even_tail; [exact Ht | left; reflexivity].
  - apply raw_run_even_tail; [exact Ht | right; eexists; reflexivity].
Qed.

Theorem doc_in_language s its : fmt_doc s its -> fmt_items s its.
Proof.
  induction 1 as [t Ht|t c rest bs its Ht Hc Hcsv Hrest IH].
  - apply fi_end, Ht.
  - apply fi_bound; try assumption.
    + apply brace_free_raw, Hc.
    + intros x E. subst c. inversion Hc as [|? ? [A _] _]; subst. apply A. reflexivity.
    + intros x E. subst c. apply Forall_app in Hc. destruct Hc as [_ Hc].
      inversion Hc as [|? ? [_ B] _]; subst. apply B. reflexivity.
    + apply (fmt_doc_run rest its Hrest).
Qed.

(** every format string of the documented language is accepted with the items it denotes *)
Corollary documented_format_accepted s its : fmt_doc s its -> scan_format s false [] [] = Some its.
Proof. intros H. apply scan_format_iff, doc_in_language, H. Qed.

(** the whole of UserBoundsList::from_str on an argument that holds a brace *)
Theorem parse_ublist_format_iff s u :
  existsb is_brace s = true ->
  (parse_ublist s = Some u <->
   exists its, fmt_items s its /\ bounds_only its <> []
               /\ from_vec its = Some u).
Proof.
  intros Hb. unfold parse_ublist, parse_bounds_list. destruct s as [|c s']; [discriminate|]. rewrite Hb.
  split.
  - destruct (scan_format (c :: s') false [] []) as [l|] eqn:E; [|discriminate].
    intros H. exists l. split; [apply scan_format_sound, E|]. split; [|exact H].
    unfold from_vec in H. destruct (bounds_only l); [discriminate | discriminate].
  - intros [its [F [_ H]]]. rewrite (proj2 (scan_format_iff _ _) F). exact H.
Qed.
