(** C18, format strings: the scanner accepts exactly the language [fmt_items] of
    Spec/BoundsGrammar.v and builds the items the grammar assigns; the documented language
    [fmt_doc] (no braces inside a bound) is the part of it without doubled braces in fallbacks. *)
From TucModel Require Import Base.Bytes Model.Bounds Model.BoundsParse Spec.Fields Spec.BoundsGrammar
     Proofs.ScanSplit Proofs.C05 Proofs.Plain Proofs.C18Iff.

Lemma csv_parse c bs :
  csv_text c bs <-> parse_bounds_csv (split_on ch_comma c) = Some (map Bound bs).
Proof.
  rewrite parse_csv_iff. unfold csv_text. split.
  - intros [parts [Hne [E [Hfree HF]]]].
    assert (Hsp : split_on ch_comma c = parts) by (apply split_on_iff; repeat split; assumption).
    rewrite Hsp. exists bs. split; [exact HF | reflexivity].
  - intros [bs' [HF E]].
    assert (bs' = bs).
    { clear - E. revert bs' E. induction bs as [|b bs IH]; intros [|b' bs'] E; try discriminate; [reflexivity|].
      cbn in E. injection E as -> E. f_equal. apply IH. exact E. }
    subst bs'. exists (split_on ch_comma c).
    destruct (proj1 (split_on_iff ch_comma c _) eq_refl) as [A [B C]]. repeat split; assumption.
Qed.

Lemma is_brace_false x : x <> ch_lbrace -> x <> ch_rbrace -> is_brace x = false.
Proof. intros A B. unfold is_brace. apply orb_false_iff. split; apply N.eqb_neq; assumption. Qed.

(** one step of the scanner, spelled out *)
Lemma scan_format_eq w0 s' inside cur acc :
  scan_format (w0 :: s') inside cur acc
  = (let closes_bound := inside && N.eqb w0 ch_rbrace && Nat.odd (run_len ch_rbrace (w0 :: s')) in
     let escaped :=
       match s' with
       | w1 :: _ => N.eqb w0 w1 && is_brace w0 && negb closes_bound
       | [] => false
       end in
     if escaped then
       match s' with
       | w1 :: s'' => scan_format s'' inside (cur ++ [w0; w1]) acc
       | [] => None
       end
     else if N.eqb w0 ch_rbrace && negb inside then None
     else if N.eqb w0 ch_lbrace then
       if inside then None
       else scan_format s' true [] (push_filler cur acc)
     else if N.eqb w0 ch_rbrace then
       match parse_bounds_csv (split_on ch_comma cur) with
       | None => None
       | Some bs => scan_format s' false [] (acc ++ bs)
       end
     else scan_format s' inside (cur ++ [w0]) acc).
Proof. reflexivity. Qed.

(** one step of the scanner on a byte that is not a brace *)
Lemma scan_plain_byte x s inside cur acc : x <> ch_lbrace -> x <> ch_rbrace ->
  scan_format (x :: s) inside cur acc = scan_format s inside (cur ++ [x]) acc.
Proof.
  intros A B. rewrite scan_format_eq. cbv zeta. apply N.eqb_neq in A. apply N.eqb_neq in B.
  rewrite A, B. cbn [andb]. rewrite andb_false_r. cbn [andb negb].
  destruct s as [|w1 s']; [reflexivity|]. unfold is_brace. rewrite A, B. cbn [orb]. rewrite andb_false_r. reflexivity.
Qed.

Lemma scan_lb_pair s inside cur acc :
  scan_format (ch_lbrace :: ch_lbrace :: s) inside cur acc = scan_format s inside (cur ++ [ch_lbrace; ch_lbrace]) acc.
Proof.
  rewrite scan_format_eq. cbv zeta. change (N.eqb ch_lbrace ch_rbrace) with false. rewrite andb_false_r. cbn [andb negb].
  rewrite N.eqb_refl. reflexivity.
Qed.

Lemma scan_rb_pair_outside s cur acc :
  scan_format (ch_rbrace :: ch_rbrace :: s) false cur acc = scan_format s false (cur ++ [ch_rbrace; ch_rbrace]) acc.
Proof. rewrite scan_format_eq. cbv zeta. cbn [andb negb]. rewrite N.eqb_refl. reflexivity. Qed.

Lemma scan_rb_pair_inside s cur acc :
  Nat.even (run_len ch_rbrace s) = true ->
  scan_format (ch_rbrace :: ch_rbrace :: s) true cur acc = scan_format s true (cur ++ [ch_rbrace; ch_rbrace]) acc.
Proof.
  intros Hev. rewrite scan_format_eq. cbv zeta. cbn [run_len]. rewrite !N.eqb_refl. cbn [andb].
  change (Nat.odd (S (S (run_len ch_rbrace s)))) with (Nat.odd (run_len ch_rbrace s)).
  rewrite <- Nat.negb_even, Hev. cbn [negb andb].
  unfold is_brace. rewrite N.eqb_refl, orb_true_r. reflexivity.
Qed.

Lemma scan_close rest cur acc :
  Nat.even (run_len ch_rbrace rest) = true ->
  scan_format (ch_rbrace :: rest) true cur acc
  = match parse_bounds_csv (split_on ch_comma cur) with
    | None => None
    | Some bs => scan_format rest false [] (acc ++ bs)
    end.
Proof.
  intros Hev. rewrite scan_format_eq. cbv zeta. cbn [run_len]. rewrite N.eqb_refl. cbn [andb].
  rewrite Nat.odd_succ, Hev. cbn [negb].
  change (N.eqb ch_rbrace ch_lbrace) with false.
  destruct rest as [|w1 r']; [reflexivity|]. rewrite andb_false_r. reflexivity.
Qed.

(** literal text outside braces is collected token by token, whatever follows *)
Lemma scan_text_outside t : raw_text t -> forall s cur acc,
  scan_format (t ++ s) false cur acc = scan_format s false (cur ++ t) acc.
Proof.
  induction 1 as [|x t A B Ht IH|t Ht IH|t Ht IH]; intros s cur acc; cbn [app].
  - rewrite app_nil_r. reflexivity.
  - rewrite scan_plain_byte by assumption. rewrite IH, <- app_assoc. reflexivity.
  - rewrite scan_lb_pair, IH, <- app_assoc. reflexivity.
  - rewrite scan_rb_pair_outside, IH, <- app_assoc. reflexivity.
Qed.

Lemma run_len_app_even c : raw_text c -> c <> [] -> (forall x, c <> x ++ [ch_rbrace]) ->
  forall tail, Nat.even (run_len ch_rbrace (c ++ tail)) = true.
Proof.
  induction 1 as [|x t A B Ht IH|t Ht IH|t Ht IH]; intros Hne Hlast tail; cbn [app run_len].
  - contradiction.
  - apply N.eqb_neq in B. rewrite B. reflexivity.
  - reflexivity.
  - rewrite N.eqb_refl. cbn [Nat.even]. apply IH.
    + intros ->. apply (Hlast [ch_rbrace]). reflexivity.
    + intros x E. apply (Hlast (ch_rbrace :: ch_rbrace :: x)). rewrite E. reflexivity.
Qed.

(** inside a bound: text up to the closing brace, which is the first of an odd run *)
Lemma scan_text_inside c : raw_text c -> forall rest cur acc,
  (forall x, c <> x ++ [ch_rbrace]) ->
  Nat.even (run_len ch_rbrace rest) = true ->
  scan_format (c ++ ch_rbrace :: rest) true cur acc
  = match parse_bounds_csv (split_on ch_comma (cur ++ c)) with
    | None => None
    | Some bs => scan_format rest false [] (acc ++ bs)
    end.
Proof.
  induction 1 as [|x t A B Ht IH|t Ht IH|t Ht IH]; intros rest cur acc Hlast Hev; cbn [app].
  - rewrite app_nil_r. apply scan_close, Hev.
  - rewrite scan_plain_byte by assumption. rewrite IH; [rewrite <- app_assoc; reflexivity | | exact Hev].
    intros y E. apply (Hlast (x :: y)). rewrite E. reflexivity.
  - rewrite scan_lb_pair. rewrite IH; [rewrite <- app_assoc; reflexivity | | exact Hev].
    intros y E. apply (Hlast (ch_lbrace :: ch_lbrace :: y)). rewrite E. reflexivity.
  - assert (Hne : t <> []) by (intros ->; apply (Hlast [ch_rbrace]); reflexivity).
    assert (Hl' : forall y, t <> y ++ [ch_rbrace]).
    { intros y E. apply (Hlast (ch_rbrace :: ch_rbrace :: y)). rewrite E. reflexivity. }
    pose proof (run_len_app_even t Ht Hne Hl' (ch_rbrace :: rest)) as Hrun.
    rewrite (scan_rb_pair_inside _ cur acc Hrun).
    rewrite IH; [rewrite <- app_assoc; reflexivity | exact Hl' | exact Hev].
Qed.

Lemma push_filler_is t acc : push_filler t acc = acc ++ filler_of t.
Proof. unfold push_filler, filler_of. destruct t; [rewrite app_nil_r|]; reflexivity. Qed.

(** completeness: everything in the language is accepted, with the items the grammar gives *)
Theorem scan_format_complete s its : fmt_items s its ->
  forall acc, scan_format s false [] acc = Some (acc ++ its).
Proof.
  induction 1 as [t Ht|t c rest bs its Ht Hc Hhd Hlast Hev Hcsv Hrest IH]; intros acc.
  - rewrite <- (app_nil_r t) at 1. rewrite (scan_text_outside t Ht). cbn [app scan_format].
    apply f_equal. apply push_filler_is.
  - rewrite (scan_text_outside t Ht). cbn [app].
    assert (Hopen : scan_format (ch_lbrace :: c ++ ch_rbrace :: rest) false t acc
                    = scan_format (c ++ ch_rbrace :: rest) true [] (push_filler t acc)).
    { rewrite scan_format_eq. cbv zeta. cbn [andb negb]. change (N.eqb ch_lbrace ch_rbrace) with false. cbn [andb].
      rewrite N.eqb_refl.
      destruct c as [|c0 c']; cbn [app].
      - change (N.eqb ch_lbrace ch_rbrace) with false. reflexivity.
      - assert (N.eqb ch_lbrace c0 = false).
        { apply N.eqb_neq. intros <-. apply (Hhd c'). reflexivity. }
        rewrite H. reflexivity. }
    rewrite Hopen, (scan_text_inside c Hc rest [] _ Hlast Hev). cbn [app].
    rewrite (proj1 (csv_parse c bs) Hcsv). rewrite IH, push_filler_is, <- !app_assoc. reflexivity.
Qed.
