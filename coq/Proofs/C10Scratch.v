(** C10, the scratch buffers: whatever the reused vectors hold when a record arrives, the record is cut
    as by the stateless model; hence a whole run that threads the buffers from record to record prints
    what the stateless run prints, and the theorems of Proofs/C10.v hold for it. *)
From Coq Require Import Lia.
From TucModel Require Import Base.Bytes Base.ListX Model.Bounds Model.Scan Model.Regex Model.Opt Model.CutStr Model.FastLane Model.Scratch.

(** the fields table is rebuilt from nothing: clear, then the pushes *)
Lemma fill_push_spec ms : forall buf prev len, fill_push buf prev ms len = buf ++ gaps_from prev ms len.
Proof.
  induction ms as [|m ms IH]; intros buf prev len; cbn [fill_push gaps_from]; unfold v_push.
  - reflexivity.
  - rewrite IH, <- app_assoc. reflexivity.
Qed.

Lemma fill_fields_spec buf ms line : fill_fields buf ms line = fields_of_matches ms line.
Proof.
  unfold fill_fields, fields_of_matches, v_clear. destruct line; [reflexivity|]. rewrite fill_push_spec. reflexivity.
Qed.

(** the compressed copy too *)
Lemma compress_push_spec d line ps : forall out prev, compress_push out d line prev ps = out ++ compress_from d line prev ps.
Proof.
  induction ps as [|idx ps IH]; intros out prev; cbn [compress_push compress_from]; unfold v_extend.
  - destruct (Nat.ltb prev (length line)); [reflexivity | rewrite app_nil_r; reflexivity].
  - rewrite IH. destruct (Nat.eqb idx 0).
    + rewrite <- app_assoc. reflexivity.
    + destruct (slice line prev idx); [reflexivity|]. rewrite <- !app_assoc. reflexivity.
Qed.

Lemma compress_st_spec out d line : compress_st out d line = compress_delimiter d line.
Proof. unfold compress_st, compress_delimiter, v_clear. rewrite compress_push_spec. reflexivity. Qed.

Lemma drop_outer_st {A} (f : list A) :
  (if Nat.ltb 2 (length f) then v_drain1 (v_pop f) else f) = drop_outer f.
Proof.
  unfold drop_outer, v_drain1, v_pop. destruct (Nat.ltb 2 (length f)) eqn:E; [|reflexivity].
  destruct f as [|a [|b f]]; try discriminate. cbn [tl removelast]. destruct f; reflexivity.
Qed.

(** one record of the general path *)
Ltac fin :=
  rewrite ?fill_fields_spec;
  match goal with
  | |- context [if ?c && Nat.ltb 2 (length ?f) then _ else _] =>
      destruct c eqn:?; cbn [andb fst snd]; rewrite ?drop_outer_st; reflexivity
  end.

Theorem cut_str_st_output : forall (s : scratch) (o : opt) (line0 : bytes),
  fst (cut_str_st s o line0) = cut_str o line0.
Proof.
  intros s o line0. unfold cut_str_st, cut_str, cut_tail.
  destruct (match o_regex o with Some _ => true | None => false end
            && match o_replace o with None => true | Some _ => false end && (o_compress o || o_join o)); [reflexivity|].
  match goal with |- fst (match ?t with _ => _ end) = _ => destruct t as [[|x line1]|] end; try reflexivity.
  set (line1' := x :: line1).
  destruct (o_compress o && (btype_eqb (o_btype o) BFields || btype_eqb (o_btype o) BLines)).
  - destruct (o_regex o) as [rxv|].
    + destruct (rx_greedy rxv line1') as [ms|]; [|reflexivity]. destruct (o_replace o) as [nd|]; [|reflexivity].
      cbn [fst snd]. destruct (o_greedy o); fin.
    + rewrite compress_st_spec. cbn [fst snd sc_fields sc_cbuf sc_starts]. destruct (o_greedy o); fin.
  - cbn [fst snd].
    match goal with |- fst (match ?m with _ => _ end) = _ => destruct m as [ms|] end; [|reflexivity]. fin.
Qed.

(** the fast lane's vector of field starts: cleared, then 0, then one push per delimiter up to the
    early stop, then the fake start *)
Lemma scan_push_spec lif ps : forall v curr,
  scan_push v lif curr ps = (v ++ fst (scan_starts lif curr ps), snd (scan_starts lif curr ps)).
Proof.
  induction ps as [|i ps IH]; intros v curr; cbn [scan_push scan_starts fst snd]; unfold v_push.
  - rewrite app_nil_r. reflexivity.
  - destruct (side_eqb (SSome (curr + 1)%Z) lif); cbn [fst snd]; [reflexivity|].
    rewrite IH. destruct (scan_starts lif (curr + 1)%Z ps) as [r c]. cbn [fst snd]. rewrite <- app_assoc. reflexivity.
Qed.

Theorem cut_fast_st_output : forall (s : scratch) (o : opt) (line0 : bytes),
  fst (cut_fast_st s o line0) = cut_fast o line0.
Proof.
  intros s o line0. unfold cut_fast_st, cut_fast.
  destruct (o_delim o) as [|d [|d2 ds]]; try reflexivity.
  match goal with |- fst (match ?b with _ => _ end) = _ => destruct b as [|x buf] eqn:Eb end; [reflexivity|].
  rewrite scan_push_spec. unfold v_clear, v_push. cbn [app].
  destruct (scan_starts (lif (o_bounds o)) 0 (positions_from d 0 (x :: buf))) as [starts curr]. cbn [fst snd].
  destruct (Z.eqb curr 0 && o_only_delimited o); [reflexivity|].
  destruct (side_eqb (SSome curr) (lif (o_bounds o))); cbn [fst]; rewrite ?app_nil_r, <- ?app_assoc; reflexivity.
Qed.

(** whole runs: the buffers are handed from record to record, and nothing of it shows *)
Lemma run_records_st_output (cut_st : scratch -> bytes -> option rres * scratch) (cut : bytes -> option rres) :
  (forall s r, fst (cut_st s r) = cut r) ->
  forall rs acc s, fst (run_records_st cut_st rs acc s) = run_records cut rs acc.
Proof.
  intros H rs. induction rs as [|r rs IH]; intros acc s; [reflexivity|].
  cbn [run_records_st run_records]. specialize (H s r). destruct (cut_st s r) as [x s']. cbn [fst] in H. subst x.
  destruct (cut r) as [[o| | |]|]; try reflexivity. apply IH.
Qed.

Theorem C10_general_path_scratch : forall (o : opt) (input : bytes),
  read_and_cut_str_st o input = read_and_cut_str o input.
Proof.
  intros o input. unfold read_and_cut_str_st, read_and_cut_str.
  apply run_records_st_output. intros s r. apply cut_str_st_output.
Qed.

Theorem C10_fast_path_scratch : forall (o : opt) (input : bytes),
  read_and_cut_fast_st o input = read_and_cut_fast o input.
Proof.
  intros o input. unfold read_and_cut_fast_st, read_and_cut_fast.
  apply run_records_st_output. intros s r. rewrite <- (cut_fast_st_output s o r).
  destruct (cut_fast_st s o r). reflexivity.
Qed.

(** and from any buffers at all, not only fresh ones: what a record prints is the same whatever an
    earlier record (or anything else) left in them *)
Theorem C10_record_ignores_scratch : forall (s s' : scratch) (o : opt) (line : bytes),
  fst (cut_str_st s o line) = fst (cut_str_st s' o line)
  /\ fst (cut_fast_st s o line) = fst (cut_fast_st s' o line).
Proof. intros. rewrite !cut_str_st_output, !cut_fast_st_output. split; reflexivity. Qed.
