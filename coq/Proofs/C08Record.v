(** C08, record level: under --json the output loop prints, between the brackets, one JSON
    string per selected part - a range is expanded into its parts, an unresolvable bound
    contributes its fallback as one element - separated by commas. *)
From TucModel Require Import Base.Bytes Base.ListX Model.Bounds Model.BoundsParse Model.Scan Model.Utf8 Model.Json
     Model.Regex Model.Opt Model.CutBytes Model.CutStr Spec.Resolve Spec.JsonSpec Spec.Fields
     Spec.JsonArray Proofs.BoundsFacts Proofs.ParseFacts Proofs.C13 Proofs.C15 Proofs.C08 Proofs.C08Array.

(** the option settings --json installs (src/bin/tuc.rs) *)
Definition json_opts (o : opt) : Prop :=
  o_json o = true /\ o_join o = true /\ o_replace o = Some [ch_comma].

(** the text of part [i] (0-based) as the output loop prints it *)
Definition field_text (o : opt) (line : bytes) (fields : list mtch) (i : nat) : option bytes :=
  match nth_error fields i with
  | Some f =>
      if Nat.leb (fst f) (snd f) && Nat.leb (snd f) (length line)
      then maybe_replace o (slice line (fst f) (snd f)) else None
  | None => None
  end.

(** the element a single-part (or unresolvable) bound contributes *)
Definition elem_of (o : opt) (line : bytes) (fields : list mtch) (b : ubound) (p : bytes) : Prop :=
  utf8_valid p = true /\
  match try_into_range b (length fields) with
  | Some (s, _) => field_text o line fields s = Some p
  | None => fallback_for b (o_fallback o) = Some p
  end.

Definition single_or_none (n : nat) (b : ubound) : Prop :=
  try_into_range b n = None \/ exists i, try_into_range b n = Some (i, S i).

(** flags: [is_last] is set on the last bound only *)
Fixpoint set_last_flag (bs : list ubound) : list ubound :=
  match bs with
  | [] => []
  | [b] => [set_last b]
  | b :: r => b :: set_last_flag r
  end.

Fixpoint unmarked_init (bs : list ubound) : Prop :=
  match bs with
  | [] => True
  | b :: r => (r <> [] -> blast b = false) /\ unmarked_init r
  end.

Lemma bounds_only_map_Bound bs : bounds_only (map Bound bs) = bs.
Proof. induction bs as [|b bs IH]; [reflexivity|]. cbn. f_equal. exact IH. Qed.

Lemma mark_last_bounds bs : mark_last (map Bound bs) = map Bound (set_last_flag bs).
Proof.
  induction bs as [|b bs IH]; [reflexivity|].
  cbn [map mark_last]. rewrite bounds_only_map_Bound.
  destruct bs as [|b' bs']; [reflexivity|]. rewrite IH. reflexivity.
Qed.

Lemma try_into_range_set_last b n : try_into_range (set_last b) n = try_into_range b n.
Proof. reflexivity. Qed.

Lemma fallback_for_set_last b g : fallback_for (set_last b) g = fallback_for b g.
Proof. reflexivity. Qed.

Lemma intercalate_cons2 (d : bytes) p q r :
  intercalate d (p :: q :: r) = p ++ d ++ intercalate d (q :: r).
Proof. reflexivity. Qed.

Section Loop.
Variable o : opt.
Hypothesis Hj : json_opts o.
Variables (line : bytes) (fields : list mtch).

(** what the loop does for one single-part or unresolvable bound *)
Lemma piece_elem b (X : rres -> rres) :
  single_or_none (length fields) b ->
  forall p,
  match try_into_range b (length fields) with
  | Some (s, e) =>
      match range_start fields s, range_end fields (e - 1) with
      | Some a, Some z =>
          if Nat.leb a z && Nat.leb z (length line) then
            match maybe_replace o (slice line a z) with
            | Some t => match emit_part o t with Some p => ROk p | None => RErr end
            | None => RHang
            end
          else RPanic
      | _, _ => RPanic
      end
  | None =>
      match fallback_for b (o_fallback o) with
      | Some f => match emit_part o f with Some p => ROk p | None => RErr end
      | None => RErr
      end
  end = ROk p ->
  exists t, elem_of o line fields b t /\ p = json_string t.
Proof.
  destruct Hj as [Hjs _]. intros Hs p. unfold elem_of, emit_part. rewrite Hjs.
  destruct Hs as [E|[i E]]; rewrite E.
  - destruct (fallback_for b (o_fallback o)) as [f|]; [|discriminate].
    destruct (utf8_valid f) eqn:V; [|discriminate]. intros H; injection H as <-.
    exists f. split; [split; [exact V | reflexivity] | reflexivity].
  - replace (S i - 1) with i by lia. unfold range_start, range_end, field_text.
    destruct (nth_error fields i) as [f|]; [|discriminate].
    destruct (Nat.leb (fst f) (snd f) && Nat.leb (snd f) (length line)); [|discriminate].
    destruct (maybe_replace o (slice line (fst f) (snd f))) as [t|]; [|discriminate].
    destruct (utf8_valid t) eqn:V; [|discriminate]. intros H; injection H as <-.
    exists t. split; [split; [exact V | reflexivity] | reflexivity].
Qed.

Lemma out_loop_json_elems : forall bs body,
  unmarked_init bs -> Forall (single_or_none (length fields)) bs ->
  out_loop o line fields (map Bound (set_last_flag bs)) = ROk body ->
  exists parts, Forall2 (elem_of o line fields) bs parts
                /\ body = intercalate [ch_comma] (map json_string parts).
Proof.
  pose proof Hj as [Hjs [Hjj Hjr]].
  induction bs as [|b bs IH]; intros body Hu Hs.
  - cbn. intros H; injection H as <-. exists []. split; [constructor | reflexivity].
  - inversion Hs as [|? ? Hb Hrest]; subst. destruct Hu as [Hflag Hu].
    destruct bs as [|b' bs'].
    + (* the last bound: no separator *)
      cbn [set_last_flag map out_loop]. rewrite try_into_range_set_last, fallback_for_set_last.
      match goal with |- match ?P with _ => _ end = _ -> _ => destruct P as [p| | |] eqn:EP end;
        try discriminate.
      apply (piece_elem b (fun x => x) Hb) in EP. destruct EP as [t [Ht ->]].
      cbn [blast set_last negb andb]. rewrite Bool.andb_false_r. cbn [app].
      intros H; injection H as <-. exists [t]. split; [constructor; [exact Ht | constructor]|].
      cbn. rewrite app_nil_r. reflexivity.
    + change (set_last_flag (b :: b' :: bs')) with (b :: set_last_flag (b' :: bs')).
      cbn [map out_loop].
      match goal with |- match ?P with _ => _ end = _ -> _ => destruct P as [p| | |] eqn:EP end;
        try discriminate.
      apply (piece_elem b (fun x => x) Hb) in EP. destruct EP as [t [Ht ->]].
      rewrite (Hflag ltac:(discriminate)), Hjj, Hjr. cbn [negb andb].
      destruct (out_loop o line fields (map Bound (set_last_flag (b' :: bs')))) as [r| | |] eqn:ER;
        try discriminate.
      intros H; injection H as <-.
      destruct (IH r Hu Hrest eq_refl) as [parts [HF ->]].
      exists (t :: parts). split; [constructor; assumption|].
      inversion HF as [|? q ? qs Hq Hqs]; subst. cbn [map]. rewrite intercalate_cons2. reflexivity.
Qed.
End Loop.

(** ---------- range expansion (unpack) *)

Lemma singles_unmarked s c : Forall (fun u => blast u = false) (singles_from s c).
Proof. revert s; induction c as [|c IH]; intros s; cbn [singles_from]; constructor; [reflexivity | apply IH]. Qed.

Lemma unmarked_init_app l1 l2 :
  Forall (fun u => blast u = false) l1 -> unmarked_init l2 -> unmarked_init (l1 ++ l2).
Proof.
  induction l1 as [|x l1 IH]; intros H1 H2; [exact H2|].
  inversion H1 as [|? ? Hx Hl]; subst. cbn [app unmarked_init]. split; [intros _; exact Hx | apply IH; assumption].
Qed.

Lemma unpack_unmarked n bs :
  unmarked_init bs -> unmarked_init (flat_map (fun b => unpack_bound b n) bs).
Proof.
  induction bs as [|b bs IH]; intros H; [exact I|]. destruct H as [Hb Hr]. cbn [flat_map].
  unfold unpack_bound at 1. destruct (try_into_range b n) as [[s e]|].
  - apply unmarked_init_app; [apply singles_unmarked | apply IH, Hr].
  - cbn [app unmarked_init]. split; [|apply IH, Hr].
    intros Hne. apply Hb. intros ->. apply Hne. reflexivity.
Qed.

Lemma unpack_single_or_none n bs :
  Forall bound_nz bs -> Forall (single_or_none n) (flat_map (fun b => unpack_bound b n) bs).
Proof.
  induction bs as [|b bs IH]; intros H; [constructor|].
  inversion H as [|? ? Hb Hr]; subst. cbn [flat_map]. apply Forall_app. split; [|apply IH, Hr].
  destruct (try_into_range b n) as [[s e]|] eqn:E.
  - destruct (C13_unpack_expands b n s e Hb E) as [_ HF].
    eapply Forall_impl; [|exact HF]. intros u [i [_ Ei]]. right. exists i. exact Ei.
  - unfold unpack_bound. rewrite E. constructor; [left; exact E | constructor].
Qed.

Lemma Forall2_flat_map_inv {A B} (R : A -> B -> Prop) (f : A -> list A) : forall bs parts,
  Forall2 R (flat_map f bs) parts ->
  exists pss, parts = concat pss /\ Forall2 (fun b ps => Forall2 R (f b) ps) bs pss.
Proof.
  induction bs as [|b bs IH]; intros parts H.
  - inversion H; subst. exists []. split; [reflexivity | constructor].
  - cbn [flat_map] in H. apply Forall2_app_inv_l in H. destruct H as [p1 [p2 [H1 [H2 ->]]]].
    destruct (IH p2 H2) as [pss [-> HF]]. exists (p1 :: pss). split; [reflexivity | constructor; assumption].
Qed.

Section Body.
Variable o : opt.
Hypothesis Hj : json_opts o.
Variables (line : bytes) (fields : list mtch).

(** what a requested bound contributes to the array: a resolvable one, one element per
    part it covers, in order; an unresolvable one, its fallback as one element *)
Definition bound_elems (b : ubound) (ps : list bytes) : Prop :=
  match try_into_range b (length fields) with
  | Some (s, e) =>
      Forall2 (fun i p => field_text o line fields i = Some p /\ utf8_valid p = true) (seq s (e - s)) ps
  | None =>
      exists f, fallback_for b (o_fallback o) = Some f /\ utf8_valid f = true /\ ps = [f]
  end.

Lemma singles_elems : forall c s ps,
  (s + c <= length fields)%nat ->
  Forall2 (elem_of o line fields) (singles_from s c) ps ->
  Forall2 (fun i p => field_text o line fields i = Some p /\ utf8_valid p = true) (seq s c) ps.
Proof.
  induction c as [|c IH]; intros s ps Hle H; cbn [singles_from seq] in *.
  - inversion H; subst. constructor.
  - inversion H as [|u p us ps' Hu Hus]; subst. constructor; [|apply IH; [lia | exact Hus]].
    destruct Hu as [V Hu].
    pose proof (singles_from_resolve s 1 (length fields) ltac:(lia)) as HS.
    cbn [singles_from] in HS. inversion HS as [|? ? [i [Hi Ei]] _]; subst.
    rewrite Ei in Hu. replace i with s in Hu by lia. split; assumption.
Qed.

Lemma unpack_elems b ps :
  bound_nz b -> Forall2 (elem_of o line fields) (unpack_bound b (length fields)) ps -> bound_elems b ps.
Proof.
  intros Hnz H. unfold bound_elems, unpack_bound in *.
  destruct (try_into_range b (length fields)) as [[s e]|] eqn:E.
  - pose proof (try_into_range_some b _ s e Hnz E) as [_ [_ [_ Hse]]].
    apply singles_elems; [lia | exact H].
  - inversion H as [|? p ? ? [V Hp] Hr]; subst. inversion Hr; subst.
    rewrite E in Hp. exists p. repeat split; assumption.
Qed.

(** a bound that needs no expansion is a single index *)
Lemma no_unpack_single b n :
  bound_nz b ->
  (negb (side_eqb (bl b) (br b)) || side_eqb (bl b) SCont) = false -> single_or_none n b.
Proof.
  intros [Hnzl _] H. apply Bool.orb_false_iff in H. destruct H as [H1 H2].
  apply Bool.negb_false_iff in H1.
  destruct b as [l r la fb]. cbn [bl br] in *. destruct l as [v|]; [|discriminate].
  destruct r as [w|]; [|discriminate]. cbn [side_eqb] in H1. apply Z.eqb_eq in H1. subst w.
  unfold single_or_none, try_into_range. cbn [bl br resolve_left resolve_right].
  destruct ((Z.of_nat n <? v) || (v <? - Z.of_nat n))%Z eqn:G; [left; reflexivity|].
  apply Bool.orb_false_iff in G. destruct G as [G1 G2].
  apply Z.ltb_ge in G1. apply Z.ltb_ge in G2.
  destruct (v <? 0)%Z eqn:Neg.
  - apply Z.ltb_lt in Neg.
    destruct (Z.of_nat n + v + 1 <=? Z.of_nat n + v)%Z eqn:C; [apply Z.leb_le in C; lia|].
    right. exists (Z.to_nat (Z.of_nat n + v)). f_equal. f_equal. lia.
  - apply Z.ltb_ge in Neg.
    destruct (v <=? v - 1)%Z eqn:C; [apply Z.leb_le in C; lia|].
    assert (Hnz : v <> 0%Z) by exact Hnzl.
    right. exists (Z.to_nat (v - 1)). f_equal. f_equal. lia.
Qed.

Lemma needs_unpack_false bs :
  needs_unpack (map Bound bs) = false -> Forall bound_nz bs ->
  Forall (single_or_none (length fields)) bs.
Proof.
  induction bs as [|b bs IH]; intros H Hnz; [constructor|].
  inversion Hnz as [|? ? Hb Hr]; subst. cbn [map needs_unpack existsb] in H.
  apply Bool.orb_false_iff in H. destruct H as [H1 H2].
  constructor; [apply no_unpack_single; assumption | apply IH; assumption].
Qed.

Lemma single_elems b p :
  single_or_none (length fields) b -> elem_of o line fields b p -> bound_elems b [p].
Proof.
  intros Hs [V He]. unfold bound_elems. destruct Hs as [E|[i E]]; rewrite E in *.
  - exists p. repeat split; assumption.
  - replace (S i - i)%nat with 1%nat by lia. cbn [seq]. constructor; [split; assumption | constructor].
Qed.

Lemma unpack_flat_map n bs :
  flat_map (fun x => match x with
                     | Bound b => map Bound (unpack_bound b n)
                     | Filler f => [Filler f]
                     end) (map Bound bs)
  = map Bound (flat_map (fun b => unpack_bound b n) bs).
Proof.
  induction bs as [|b bs IH]; [reflexivity|]. cbn [map flat_map]. rewrite IH, map_app. reflexivity.
Qed.

Lemma from_vec_bounds X u : from_vec (map Bound X) = Some u -> items u = map Bound (set_last_flag X).
Proof.
  unfold from_vec. rewrite bounds_only_map_Bound. destruct X as [|x X]; [discriminate|].
  intros H; injection H as <-. cbn [items]. exact (mark_last_bounds (x :: X)).
Qed.

(** between the brackets: one JSON string per selected part, commas between them *)
Theorem json_body bs l2 body :
  Forall bound_nz bs -> unmarked_init bs -> set_last_flag bs = bs ->
  (if needs_unpack (map Bound bs)
   then option_map items (unpack_list (map Bound bs) (length fields))
   else Some (map Bound bs)) = Some l2 ->
  out_loop o line fields l2 = ROk body ->
  exists pss, Forall2 bound_elems bs pss
              /\ body = intercalate [ch_comma] (map json_string (concat pss)).
Proof.
  intros Hnz Hu Hlast Hl2 Hout.
  destruct (needs_unpack (map Bound bs)) eqn:NU.
  - unfold unpack_list in Hl2. rewrite unpack_flat_map in Hl2.
    destruct (from_vec (map Bound (flat_map (fun b => unpack_bound b (length fields)) bs))) as [u|] eqn:FV;
      [|discriminate].
    cbn [option_map] in Hl2. injection Hl2 as <-. rewrite (from_vec_bounds _ _ FV) in Hout.
    destruct (out_loop_json_elems o Hj line fields _ body
                (unpack_unmarked _ bs Hu) (unpack_single_or_none _ bs Hnz) Hout) as [parts [HF ->]].
    destruct (Forall2_flat_map_inv _ _ _ _ HF) as [pss [-> HP]].
    exists pss. split; [|reflexivity].
    clear - HP Hnz. revert pss HP. induction bs as [|b bs IH]; intros pss HP.
    + inversion HP; subst. constructor.
    + inversion HP as [|? ps ? pss' H1 H2]; subst. inversion Hnz as [|? ? Hb Hr]; subst.
      constructor; [apply unpack_elems; assumption | apply IH; assumption].
  - injection Hl2 as <-. rewrite <- Hlast in Hout.
    pose proof (needs_unpack_false bs NU Hnz) as Hs.
    destruct (out_loop_json_elems o Hj line fields _ body Hu Hs Hout) as [parts [HF ->]].
    exists (map (fun p => [p]) parts). split.
    + clear - HF Hs. revert parts HF. induction bs as [|b bs IH]; intros parts HF.
      * inversion HF; subst. constructor.
      * inversion HF as [|? p ? ps H1 H2]; subst. inversion Hs as [|? ? Hb Hr]; subst.
        cbn [map]. constructor; [apply single_elems; assumption | apply IH; assumption].
    + f_equal. f_equal. clear. induction parts as [|p ps IH]; [reflexivity|]. cbn. f_equal. exact IH.
Qed.
End Body.

(** ---------- the whole record *)

Lemma set_last_flag_idem X : set_last_flag (set_last_flag X) = set_last_flag X.
Proof.
  induction X as [|x X IH]; [reflexivity|]. destruct X as [|y Y]; [reflexivity|].
  change (set_last_flag (x :: y :: Y)) with (x :: set_last_flag (y :: Y)).
  destruct (set_last_flag (y :: Y)) as [|z Z] eqn:E.
  - destruct Y; discriminate.
  - change (set_last_flag (x :: z :: Z)) with (x :: set_last_flag (z :: Z)). rewrite IH. reflexivity.
Qed.

Lemma set_last_flag_unmarked X :
  Forall (fun u => blast u = false) X -> unmarked_init (set_last_flag X).
Proof.
  induction X as [|x X IH]; intros H; [exact I|]. inversion H as [|? ? Hx Hr]; subst.
  destruct X as [|y Y]; [cbn; split; [intros C; contradiction C; reflexivity | exact I]|].
  change (set_last_flag (x :: y :: Y)) with (x :: set_last_flag (y :: Y)).
  split; [intros _; exact Hx | apply IH, Hr].
Qed.

Lemma set_last_flag_nz X : Forall bound_nz X -> Forall bound_nz (set_last_flag X).
Proof.
  induction X as [|x X IH]; intros H; [constructor|]. inversion H as [|? ? Hx Hr]; subst.
  destruct X as [|y Y]; [constructor; [exact Hx | constructor]|].
  change (set_last_flag (x :: y :: Y)) with (x :: set_last_flag (y :: Y)).
  constructor; [exact Hx | apply IH, Hr].
Qed.

(** bounds lists without format text, as [From<Vec<BoundOrFiller>>] builds them *)
Definition plain_bounds (l : list bof) (bs : list ubound) : Prop :=
  l = map Bound bs /\ Forall bound_nz bs /\ unmarked_init bs /\ set_last_flag bs = bs.

Lemma complement_bound_good b n cs :
  bound_nz b -> complement_bound b n = Some cs ->
  Forall bound_nz cs /\ Forall (fun u => blast u = false) cs.
Proof.
  intros Hnz. unfold complement_bound. destruct (try_into_range b n) as [[s e]|] eqn:E; [|discriminate].
  pose proof (try_into_range_some b n s e Hnz E) as [_ [_ [_ Hse]]].
  intros H; injection H as <-. rewrite (complement_std_range_spec n s e Hse).
  unfold complement_spec.
  assert (G : forall a z, (a < z)%nat -> bound_nz (of_range a z)).
  { intros a z Haz. split; cbn; lia. }
  destruct (Nat.ltb_spec 0 s); destruct (Nat.ltb_spec e n); cbn [app map fst snd];
    split; repeat constructor; apply G; lia.
Qed.

Lemma Forall_dec_nz b n c : complement_bound b n = Some c ->
  Forall (fun u => blast u = false) c \/ c = [b].
Proof.
  unfold complement_bound. destruct (try_into_range b n) as [[s e]|]; [|discriminate].
  intros H; injection H as <-. left. apply Forall_forall. intros u Hin.
  apply in_map_iff in Hin. destruct Hin as [r [<- _]]. reflexivity.
Qed.

Lemma complement_items_bounds bs n :
  complement_items (map Bound bs) n
  = map Bound (flat_map (fun b => match complement_bound b n with Some c => c | None => [b] end) bs).
Proof.
  induction bs as [|b bs IH]; [reflexivity|]. unfold complement_items in *. cbn [map flat_map].
  rewrite IH, map_app. destruct (complement_bound b n); reflexivity.
Qed.

Lemma unmarked_init_flat (f : ubound -> list ubound) bs :
  (forall b, Forall (fun u => blast u = false) (f b) \/ f b = [b]) ->
  unmarked_init bs -> unmarked_init (flat_map f bs).
Proof.
  intros Hf. induction bs as [|b bs IH]; intros H; [exact I|]. destruct H as [Hb Hr]. cbn [flat_map].
  destruct (Hf b) as [Hu|E].
  - apply unmarked_init_app; [exact Hu | apply IH, Hr].
  - rewrite E. cbn [app unmarked_init]. split; [|apply IH, Hr].
    intros Hne. apply Hb. intros ->. apply Hne. reflexivity.
Qed.

Lemma set_last_flag_unmarked_init X : unmarked_init X -> unmarked_init (set_last_flag X).
Proof.
  induction X as [|x X IH]; intros H; [exact I|]. destruct H as [Hx Hr].
  destruct X as [|y Y]; [cbn; split; [intros C; contradiction C; reflexivity | exact I]|].
  change (set_last_flag (x :: y :: Y)) with (x :: set_last_flag (y :: Y)).
  split; [intros _; apply Hx; discriminate | apply IH, Hr].
Qed.

Lemma complement_list_plain bs n u :
  Forall bound_nz bs -> unmarked_init bs -> complement_list (map Bound bs) n = Some u ->
  exists cs, plain_bounds (items u) cs.
Proof.
  intros Hnz Hu. unfold complement_list. rewrite complement_items_bounds, bounds_only_map_Bound.
  set (f := fun b => match complement_bound b n with Some c => c | None => [b] end).
  set (X := flat_map f bs).
  assert (X1 : Forall bound_nz X).
  { subst X. clear Hu. induction bs as [|b bs IH]; [constructor|].
    inversion Hnz as [|? ? Hb Hr]; subst. cbn [flat_map]. apply Forall_app. split; [|apply IH, Hr].
    unfold f. destruct (complement_bound b n) as [c|] eqn:E.
    - apply (complement_bound_good b n c Hb E).
    - constructor; [exact Hb | constructor]. }
  assert (X2 : unmarked_init X).
  { subst X. apply unmarked_init_flat; [|exact Hu]. intros b. unfold f.
    destruct (complement_bound b n) as [c|] eqn:E; [|right; reflexivity].
    destruct (Forall_dec_nz b n c E) as [H|H]; [left; exact H|right; exact H]. }
  destruct X as [|x X'] eqn:EX; [discriminate|]. rewrite <- EX in *.
  intros FV. exists (set_last_flag X). split; [exact (from_vec_bounds _ _ FV)|].
  split; [apply set_last_flag_nz, X1|]. split; [apply set_last_flag_unmarked_init, X2 | apply set_last_flag_idem].
Qed.

Theorem C08_record o rec out bs0 :
  json_opts o -> plain_bounds (items (o_bounds o)) bs0 ->
  cut_str o rec = Some (ROk out) ->
  (out = [] /\ o_only_delimited o = true)
  \/ (out = [o_eol o] /\ (o_trim o = None -> rec = []))
  \/ exists line fields bs pss,
       (o_complement o = false -> bs = bs0)
       /\ Forall2 (bound_elems o line fields) bs pss
       /\ out = json_array_line (concat pss) ++ [o_eol o].
Proof.
  intros Hj [Hit [Hnz [Hu Hlast]]]. pose proof Hj as [Hjs [Hjj Hjr]].
  unfold cut_str. rewrite Hjr, Hjs. rewrite Bool.andb_false_r. cbn [andb orb].
  match goal with |- match ?T with _ => _ end = _ -> _ =>
    assert (Htr : o_trim o = None -> T = Some rec) by (intros ->; reflexivity);
    destruct T as [[|c line1]|] end; try discriminate.
  { destruct (o_only_delimited o) eqn:S; intros H; injection H as <-; [left; split; reflexivity|].
    right; left. split; [reflexivity|]. intros Ht. specialize (Htr Ht). injection Htr as <-. reflexivity. }
  match goal with |- match ?T with _ => _ end = _ -> _ => destruct T as [[[line delim] use_re]|] end; try discriminate.
  match goal with |- match ?T with _ => _ end = _ -> _ => destruct T as [ms|] end; try discriminate.
  set (fields := if btype_eqb (o_btype o) BChars then drop_outer (fields_of_matches ms line)
                 else fields_of_matches ms line).
  destruct (o_only_delimited o && Nat.eqb (length fields) 1) eqn:S.
  { intros H; injection H as <-. left. split; [reflexivity|]. apply Bool.andb_true_iff in S. apply S. }
  assert (G : forall bs, plain_bounds (map Bound bs) bs ->
     match (if true && needs_unpack (map Bound bs)
            then match unpack_list (map Bound bs) (length fields) with Some l => Some (items l) | None => None end
            else Some (map Bound bs)) with
     | Some bs2 => match out_loop o line fields bs2 with
                   | ROk body => Some (ROk ([ch_lbracket] ++ body ++ [ch_rbracket] ++ [o_eol o]))
                   | e => Some e
                   end
     | None => Some RPanic
     end = Some (ROk out) ->
     exists pss, Forall2 (bound_elems o line fields) bs pss
                 /\ out = json_array_line (concat pss) ++ [o_eol o]).
  { intros bs [_ [Bnz [Bu Bl]]]. cbn [andb].
    match goal with |- match ?T with _ => _ end = _ -> _ => destruct T as [bs2|] eqn:E2 end; [|discriminate].
    destruct (out_loop o line fields bs2) as [body| | |] eqn:EO; try discriminate.
    intros H; injection H as <-.
    assert (E2' : (if needs_unpack (map Bound bs)
                   then option_map items (unpack_list (map Bound bs) (length fields))
                   else Some (map Bound bs)) = Some bs2).
    { destruct (needs_unpack (map Bound bs)); [|exact E2].
      destruct (unpack_list (map Bound bs) (length fields)); [exact E2 | discriminate]. }
    destruct (json_body o Hj line fields bs bs2 body Bnz Bu Bl E2' EO) as [pss [HF ->]].
    exists pss. split; [exact HF|]. unfold json_array_line. rewrite <- !app_assoc. reflexivity. }
  destruct (o_complement o) eqn:Cm.
  - destruct (complement_list (items (o_bounds o)) (length fields)) as [u|] eqn:CL; [|discriminate].
    rewrite Hit in CL. destruct (complement_list_plain bs0 _ u Hnz Hu CL) as [cs Hcs].
    pose proof Hcs as [Hcit _]. rewrite Hcit. rewrite Hcit in Hcs. intros H.
    destruct (G cs Hcs H) as [pss [HF ->]].
    right. right. exists line, fields, cs, pss. split; [discriminate | split; [exact HF | reflexivity]].
  - rewrite Hit. intros H.
    destruct (G bs0 (conj eq_refl (conj Hnz (conj Hu Hlast))) H) as [pss [HF ->]].
    right. right. exists line, fields, bs0, pss. split; [reflexivity | split; [exact HF | reflexivity]].
Qed.

(** with no -t and no -s: every non-empty record gives exactly one array line, and a strict
    reader decodes it to the list of parts *)
Corollary C08_record_decodes o rec out bs0 :
  json_opts o -> plain_bounds (items (o_bounds o)) bs0 ->
  o_trim o = None -> o_only_delimited o = false -> rec <> [] ->
  cut_str o rec = Some (ROk out) ->
  exists line fields bs pss,
    (o_complement o = false -> bs = bs0)
    /\ Forall2 (bound_elems o line fields) bs pss
    /\ out = json_array_line (concat pss) ++ [o_eol o]
    /\ json_read_array (json_array_line (concat pss)) = Some (concat pss).
Proof.
  intros Hj Hb Ht Hs Hne H.
  destruct (C08_record o rec out bs0 Hj Hb H) as [[_ C]|[C|[line [fields [bs [pss [A [B C]]]]]]]].
  - rewrite Hs in C. discriminate.
  - destruct C as [_ C]. elim Hne. exact (C Ht).
  - exists line, fields, bs, pss. repeat split; try assumption. apply json_array_roundtrip.
Qed.

(** every bounds argument without format text that the parser accepts is such a list *)
Lemma parse_bound_unmarked s b : parse_bound s = Some b -> blast b = false.
Proof.
  unfold parse_bound. destruct (split_once ch_eq s) as [r fb].
  destruct r as [|c r]; [discriminate|].
  destruct (bytes_eqb (c :: r) [ch_colon]); [discriminate|].
  destruct (split_once ch_colon (c :: r)) as [a rest].
  match goal with |- match ?X with _ => _ end = _ -> _ => destruct X as [[l r']|] end; [|discriminate].
  destruct (side_is_zero l || side_is_zero r'); [discriminate|].
  intros H. destruct l as [lv|]; destruct r' as [rv|]; try (injection H as <-; reflexivity).
  destruct ((rv <? lv)%Z && same_sign rv lv); [discriminate|]. injection H as <-. reflexivity.
Qed.

Lemma parse_bounds_csv_plain ps l : parse_bounds_csv ps = Some l ->
  exists bs, l = map Bound bs /\ Forall bound_nz bs /\ Forall (fun u => blast u = false) bs.
Proof.
  revert l; induction ps as [|p ps IH]; intros l; cbn [parse_bounds_csv].
  - intros H; injection H as <-. exists []. repeat split; constructor.
  - destruct (parse_bound p) as [b|] eqn:E; [|discriminate].
    destruct (parse_bounds_csv ps) as [r|]; [|discriminate].
    intros H; injection H as <-. destruct (IH r eq_refl) as [bs [-> [H1 H2]]].
    exists (b :: bs). split; [reflexivity|].
    split; constructor; try assumption;
      [exact (ParseFacts.parse_bound_nz _ _ E) | exact (parse_bound_unmarked _ _ E)].
Qed.

Theorem parsed_plain_bounds s u :
  existsb is_brace s = false -> parse_ublist s = Some u -> exists bs, plain_bounds (items u) bs.
Proof.
  intros Hb. unfold parse_ublist, parse_bounds_list. destruct s as [|c s]; [discriminate|]. rewrite Hb.
  destruct (parse_bounds_csv (split_on ch_comma (c :: s))) as [l|] eqn:E; [|discriminate].
  destruct (parse_bounds_csv_plain _ _ E) as [bs [-> [H1 H2]]]. intros FV.
  exists (set_last_flag bs). split; [exact (from_vec_bounds _ _ FV)|].
  split; [apply set_last_flag_nz, H1|]. split; [apply set_last_flag_unmarked, H2 | apply set_last_flag_idem].
Qed.
