From TucModel Require Import Base.Bytes Base.ListX Model.Bounds Model.CutBytes Model.Scan Model.Opt Model.CutStr
     Proofs.C01More Proofs.C09More.

Definition without_complement (o : opt) : opt :=
  mkOpt (o_delim o) (o_eol o) (o_bounds o) (o_btype o) (o_only_delimited o) (o_greedy o) (o_compress o) (o_replace o)
        (o_trim o) false (o_join o) (o_json o) (o_fixed_memory o) (o_fallback o) (o_regex o).

Lemma out_loop_without_complement o line fields bs :
  out_loop (without_complement o) line fields bs = out_loop o line fields bs.
Proof.
  induction bs as [|[b|f] bs IH]; cbn [out_loop]; [reflexivity| |rewrite IH; reflexivity].
  rewrite IH. reflexivity.
Qed.

(** -m on a record = the same invocation without -m on the complemented list: every bound
    replaced, in place, by the parts before it followed by the parts after it; -j, -r, -s and
    the EOL are treated by the very same code *)
Theorem complement_is_the_explicit_request o line fields u :
  o_complement o = true ->
  complement_list (items (o_bounds o)) (length fields) = Some u ->
  finish_record o line fields = finish_record (with_bounds u (without_complement o)) line fields.
Proof.
  intros Hc Hu. unfold finish_record.
  cbn [with_bounds without_complement o_only_delimited o_complement o_bounds o_eol]. rewrite Hc, Hu.
  destruct (o_only_delimited o && Nat.eqb (length fields) 1); [reflexivity|].
  rewrite out_loop_with_bounds, out_loop_without_complement. reflexivity.
Qed.

Theorem complement_of_everything_fails o line fields :
  o_complement o = true ->
  complement_list (items (o_bounds o)) (length fields) = None ->
  (o_only_delimited o && Nat.eqb (length fields) 1) = false ->
  finish_record o line fields = RErr.
Proof. intros Hc Hu Hs. unfold finish_record. rewrite Hs, Hc, Hu. reflexivity. Qed.
