(** C13: an unresolvable bound prints its own fallback, else the generic one, else the run
    fails -- on every path; a resolvable bound never consults a fallback. *)
From TucModel Require Import Base.Bytes Model.Bounds Model.CutBytes Model.Scan Model.Opt Model.CutStr
     Model.FastLane Model.CutLines Model.Stream Spec.Resolve Proofs.BoundsFacts Proofs.C06.
Local Open Scope Z_scope.

(** the rule of the statement, written independently of the model *)
Definition fallback_rule (own generic : option bytes) : option bytes :=
  match own with
  | Some f => Some f
  | None => match generic with Some g => Some g | None => None end
  end.

Lemma fallback_for_rule b g : fallback_for b g = fallback_rule (bfb b) g.
Proof. unfold fallback_for, fallback_rule. destruct (bfb b); [reflexivity|]. destruct g; reflexivity. Qed.

Lemma unresolved_none b n : bound_nz b -> ~ resolves b n -> try_into_range b n = None.
Proof.
  intros Hnz H. destruct (try_into_range b n) as [[s e]|] eqn:E; [|reflexivity].
  exfalso. apply H. exact (proj1 (try_into_range_some b n s e Hnz E)).
Qed.

(** ---------- byte mode *)
Theorem C13_bytes_unresolved b l generic data :
  bound_nz b -> ~ resolves b (length data) ->
  cut_bytes_items (Bound b :: l) generic data =
  match fallback_rule (bfb b) generic with
  | None => None
  | Some f => match cut_bytes_items l generic data with
              | Some r => Some (f ++ r)
              | None => None
              end
  end.
Proof.
  intros Hnz H. cbn [cut_bytes_items]. rewrite (unresolved_none b _ Hnz H), fallback_for_rule.
  reflexivity.
Qed.

(** ---------- general path (plain, and --json / -c after unpack) *)
Definition sep_of (o : opt) (b : ubound) : bytes :=
  if o_join o && negb (blast b)
  then match o_replace o with Some nd => nd | None => o_delim o end else [].

Theorem C13_general_unresolved o line fields b bs :
  bound_nz b -> ~ resolves b (length fields) ->
  out_loop o line fields (Bound b :: bs) =
  match fallback_rule (bfb b) (o_fallback o) with
  | None => RErr
  | Some f => match emit_part o f with
              | None => RErr
              | Some p => match out_loop o line fields bs with
                          | ROk r => ROk (p ++ sep_of o b ++ r)
                          | e => e
                          end
              end
  end.
Proof.
  intros Hnz H. cbn [out_loop]. rewrite (unresolved_none b _ Hnz H), fallback_for_rule.
  destruct (fallback_rule (bfb b) (o_fallback o)) as [f|]; [|reflexivity].
  destruct (emit_part o f); reflexivity.
Qed.

(** range expansion keeps an unresolvable bound, with its fallback, intact *)
Theorem C13_unpack_keeps b n : bound_nz b -> ~ resolves b n -> unpack_bound b n = [b].
Proof. intros Hnz H. unfold unpack_bound. rewrite (unresolved_none b n Hnz H). reflexivity. Qed.

(** and expands a resolvable one into exactly its parts, none of which can fall back *)
Lemma singles_from_resolve s c n :
  (s + c <= n)%nat ->
  Forall (fun u => exists i, (s <= i < s + c)%nat /\ try_into_range u n = Some (i, S i)) (singles_from s c).
Proof.
  revert s; induction c as [|c IH]; intros s H; cbn [singles_from]; constructor.
  - exists s. split; [lia|]. unfold try_into_range, single. cbn [bl br resolve_left resolve_right].
    destruct (Z.of_nat n <? Z.of_nat s + 1) eqn:A; [apply Z.ltb_lt in A; lia|].
    destruct (Z.of_nat s + 1 <? - Z.of_nat n) eqn:B; [apply Z.ltb_lt in B; lia|]. cbn.
    destruct (Z.of_nat s + 1 <? 0) eqn:C; [apply Z.ltb_lt in C; lia|].
    destruct (Z.of_nat s + 1 <=? Z.of_nat s + 1 - 1) eqn:D; [apply Z.leb_le in D; lia|].
    f_equal. f_equal; lia.
  - specialize (IH (S s)). eapply Forall_impl; [|apply IH; lia].
    intros u [i [Hi E]]. exists i. split; [lia | exact E].
Qed.

Theorem C13_unpack_expands b n s e :
  bound_nz b -> try_into_range b n = Some (s, e) ->
  unpack_bound b n = singles_from s (e - s)
  /\ Forall (fun u => exists i, (s <= i < e)%nat /\ try_into_range u n = Some (i, S i)) (unpack_bound b n).
Proof.
  intros Hnz E. unfold unpack_bound. rewrite E. split; [reflexivity|].
  pose proof (try_into_range_some b n s e Hnz E) as [_ [_ [_ Hse]]].
  pose proof (singles_from_resolve s (e - s) n ltac:(lia)) as H.
  eapply Forall_impl; [|exact H]. intros u [i [Hi Ei]]. exists i. split; [lia | exact Ei].
Qed.

(** ---------- fast lane *)
Theorem C13_fast_unresolved o d line fields b bs :
  bound_nz b -> ~ resolves b (length fields - 1) ->
  fast_out o d line fields (Bound b :: bs) =
  match fallback_rule (bfb b) (o_fallback o) with
  | None => RErr
  | Some f => match fast_out o d line fields bs with
              | ROk r => ROk (f ++ (if o_join o && negb (blast b) then [d] else []) ++ r)
              | e => e
              end
  end.
Proof.
  intros Hnz H. cbn [fast_out]. rewrite (unresolved_none b _ Hnz H), fallback_for_rule.
  destruct (fallback_rule (bfb b) (o_fallback o)); reflexivity.
Qed.

(** ---------- a resolvable bound never consults a fallback (general, fast, bytes):
    replacing every fallback by anything else leaves the output unchanged *)
Definition strip_fb (x : bof) : bof :=
  match x with Bound b => Bound (mkB (bl b) (br b) (blast b) None) | f => f end.
Definition with_fallback (o : opt) (g : option bytes) : opt :=
  mkOpt (o_delim o) (o_eol o) (o_bounds o) (o_btype o) (o_only_delimited o) (o_greedy o)
        (o_compress o) (o_replace o) (o_trim o) (o_complement o) (o_join o) (o_json o)
        (o_fixed_memory o) g (o_regex o).

Lemma try_into_range_strip b n :
  try_into_range (mkB (bl b) (br b) (blast b) None) n = try_into_range b n.
Proof. reflexivity. Qed.

Theorem C13_general_resolved_no_fallback o g line fields bs :
  Forall item_nz bs -> Forall (item_resolves (length fields)) bs ->
  out_loop (with_fallback o g) line fields (map strip_fb bs) = out_loop o line fields bs.
Proof.
  induction bs as [|x bs IH]; intros Hnz Hres; [reflexivity|].
  inversion Hnz as [|? ? Hx Hl]; subst. inversion Hres as [|? ? Rx Rl]; subst.
  specialize (IH Hl Rl). destruct x as [b|f]; cbn [map strip_fb out_loop].
  - rewrite try_into_range_strip.
    destruct (try_into_range_complete b _ Hx Rx) as [s [e E]]. rewrite E, IH. reflexivity.
  - rewrite IH. reflexivity.
Qed.

Theorem C13_fast_resolved_no_fallback o g d line fields bs :
  Forall item_nz bs -> Forall (item_resolves (length fields - 1)) bs ->
  fast_out (with_fallback o g) d line fields (map strip_fb bs) = fast_out o d line fields bs.
Proof.
  induction bs as [|x bs IH]; intros Hnz Hres; [reflexivity|].
  inversion Hnz as [|? ? Hx Hl]; subst. inversion Hres as [|? ? Rx Rl]; subst.
  specialize (IH Hl Rl). destruct x as [b|f]; cbn [map strip_fb fast_out].
  - rewrite try_into_range_strip.
    destruct (try_into_range_complete b _ Hx Rx) as [s [e E]]. rewrite E, IH. reflexivity.
  - rewrite IH. reflexivity.
Qed.

Theorem C13_bytes_resolved_no_fallback g g' data bs :
  Forall item_nz bs -> Forall (item_resolves (length data)) bs ->
  cut_bytes_items (map strip_fb bs) g' data = cut_bytes_items bs g data.
Proof.
  induction bs as [|x bs IH]; intros Hnz Hres; [reflexivity|].
  inversion Hnz as [|? ? Hx Hl]; subst. inversion Hres as [|? ? Rx Rl]; subst.
  specialize (IH Hl Rl). destruct x as [b|f]; cbn [map strip_fb cut_bytes_items].
  - rewrite try_into_range_strip.
    destruct (try_into_range_complete b _ Hx Rx) as [s [e E]]. rewrite E, IH. reflexivity.
  - rewrite IH. reflexivity.
Qed.

(** ---------- line mode, one line at a time: every bound still pending when the input is
    exhausted (other than an open range already printing) follows the rule *)
Theorem C13_lines_forward_tail o b bs :
  fwd_tail o (Bound b :: bs) =
  match fallback_rule (bfb b) (o_fallback o) with
  | None => None
  | Some f => match fwd_tail o bs with
              | Some r => Some (f ++ (if o_join o && nonempty bs then [o_eol o] else []) ++ r)
              | None => None
              end
  end.
Proof. cbn [fwd_tail]. rewrite fallback_for_rule. reflexivity. Qed.

(** a pending closed range that already printed lines cannot be completed: failure *)
Theorem C13_lines_forward_straddle o b bs v :
  br b = SSome v -> fwd_finish o (Bound b :: bs) true = None.
Proof. intros H. cbn [fwd_finish]. rewrite H. reflexivity. Qed.

(** ---------- -M : a bound that starts after the last field of the record follows the rule *)
Theorem C13_stream_not_started so b bs n l :
  bl b = SSome l -> n < l ->
  pff so (Bound b :: bs) n =
  match fallback_rule (bfb b) (s_fallback so) with
  | None => None
  | Some f => match pff so bs n with
              | Some t => Some (f ++ (if s_join so && negb (blast b) then [sdelim so] else []) ++ t)
              | None => None
              end
  end.
Proof.
  intros Hl Hn. cbn [pff]. rewrite Hl.
  destruct (l <=? n) eqn:E; [apply Z.leb_le in E; lia|]. cbn [andb].
  rewrite fallback_for_rule. reflexivity.
Qed.

(** ---------- --complement: an unresolvable bound is not dropped; it stays in the list, so
    the output loop prints its fallback in its place or fails the record *)
Theorem C13_complement_keeps l n b :
  In (Bound b) l -> bound_nz b -> ~ resolves b n -> In (Bound b) (complement_items l n).
Proof.
  intros Hin Hnz Hr. unfold complement_items. apply in_flat_map. exists (Bound b). split; [exact Hin|].
  unfold complement_bound. rewrite (unresolved_none b n Hnz Hr). left. reflexivity.
Qed.
