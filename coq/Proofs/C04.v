(** C04: the output of the fixed-memory path does not depend on how the input is split
    into successive reads. *)
From TucModel Require Import Base.Bytes Base.ListX Model.Bounds Model.CutBytes Model.Stream.
Local Open Scope Z_scope.

(** format text is never split into two adjacent fillers (the parser merges text) *)
Fixpoint no_adjacent_fillers (l : list bof) : Prop :=
  match l with
  | Filler _ :: ((Filler _ :: _) as l') => False
  | _ :: l' => no_adjacent_fillers l'
  | [] => True
  end.

Lemma naf_tail x l : no_adjacent_fillers (x :: l) -> no_adjacent_fillers l.
Proof. destruct x as [b|f]; cbn; [tauto|]. destruct l as [|[b|g] l]; cbn; tauto. Qed.

(** print_bof keeps the list a suffix *)
Lemma print_bof_its so its curr piece trunc c o its' :
  print_bof so its curr piece trunc c = (o, its') ->
  its' = its \/ (exists x, its = x :: its') \/ (exists x y, its = x :: y :: its').
Proof.
  unfold print_bof. destruct its as [|[b|f] r].
  - intros H; injection H as <- <-. left; reflexivity.
  - destruct (matches b curr) as [[|]|]; try (intros H; injection H as <- <-; left; reflexivity).
    destruct (c && side_eqb (br b) (SSome curr)); intros H; injection H as <- <-;
      [right; left; eexists; reflexivity | left; reflexivity].
  - destruct r as [|[b|g] r'].
    + intros H; injection H as <- <-. right; left; eexists; reflexivity.
    + destruct (matches b curr) as [[|]|]; try (intros H; injection H as <- <-; right; left; eexists; reflexivity).
      destruct (c && side_eqb (br b) (SSome curr)); intros H; injection H as <- <-;
        [right; right; do 2 eexists; reflexivity | right; left; eexists; reflexivity].
    + intros H; injection H as <- <-. right; left; eexists; reflexivity.
Qed.

Lemma print_bof_naf so its curr piece trunc c o its' :
  no_adjacent_fillers its -> print_bof so its curr piece trunc c = (o, its') -> no_adjacent_fillers its'.
Proof.
  intros Hn H. apply print_bof_its in H. destruct H as [->|[[x ->]|[x [y ->]]]].
  - exact Hn.
  - eapply naf_tail, Hn.
  - eapply naf_tail, naf_tail, Hn.
Qed.

(** printing a field in two pieces = printing it at once *)
Lemma print_bof_compose so its curr a b trunc c :
  no_adjacent_fillers its -> a <> [] ->
  print_bof so its curr (a ++ b) trunc c =
  (fst (print_bof so its curr a trunc false)
     ++ fst (print_bof so (snd (print_bof so its curr a trunc false)) curr b true c),
   snd (print_bof so (snd (print_bof so its curr a trunc false)) curr b true c)).
Proof.
  intros Hn Ha. unfold print_bof.
  destruct its as [|[b0|f] r].
  - cbn. reflexivity.
  - cbn [fst snd]. destruct (matches b0 curr) as [[|]|] eqn:Em; cbn [fst snd andb];
      rewrite ?Em; cbn [fst snd negb andb app];
      try destruct (c && side_eqb (br b0) (SSome curr)); cbn [fst snd app];
      rewrite ?app_nil_r, <- ?app_assoc; cbn [app]; rewrite <- ?app_assoc; reflexivity.
  - destruct r as [|[b0|g] r'].
    + cbn. rewrite ?app_nil_r. reflexivity.
    + cbn [fst snd]. destruct (matches b0 curr) as [[|]|] eqn:Em; cbn [fst snd andb];
        rewrite ?Em; cbn [fst snd negb andb app];
        try destruct (c && side_eqb (br b0) (SSome curr)); cbn [fst snd app];
        rewrite ?app_nil_r, <- ?app_assoc; cbn [app]; rewrite <- ?app_assoc; reflexivity.
    + cbn in Hn. contradiction.
Qed.

(** flushing the part of a field seen so far does not change the result of the scan *)
Lemma scan_flush so : forall c its curr trunc q p out,
  no_adjacent_fillers its -> p <> [] ->
  scan_chunk so its curr trunc (q ++ p) c out =
  scan_chunk so (snd (print_bof so its curr (rev p) trunc false)) curr true q c
             (out ++ fst (print_bof so its curr (rev p) trunc false)).
Proof.
  induction c as [|x c IH]; intros its curr trunc q p out Hn Hp.
  - cbn [scan_chunk].
    destruct (q ++ p) as [|y yp] eqn:Eqp.
    { destruct q; [cbn in Eqp; contradiction | discriminate]. }
    rewrite <- Eqp. rewrite rev_app_distr.
    rewrite (print_bof_compose so its curr (rev p) (rev q) trunc false Hn).
    2:{ intros H. apply (f_equal (@rev _)) in H. rewrite rev_involutive in H. cbn in H. contradiction. }
    destruct (print_bof so its curr (rev p) trunc false) as [o1 its1] eqn:E1. cbn [fst snd].
    destruct q as [|z q'].
    + cbn [rev]. unfold print_bof at 1 2.
      (* an empty continuation piece that does not complete the field prints nothing new *)
      destruct its1 as [|[b|f] r].
      * cbn. rewrite app_nil_r. reflexivity.
      * destruct (matches b curr) as [[|]|]; cbn; rewrite ?app_nil_r; reflexivity.
      * (* a filler pending after a partial piece: impossible, the first call consumed it *)
        exfalso. unfold print_bof in E1. destruct its as [|[b0|f0] r0].
        -- injection E1 as _ E. discriminate.
        -- destruct (matches b0 curr) as [[|]|]; injection E1 as _ E; try discriminate.
        -- destruct r0 as [|[b1|g] r1]; try (injection E1 as _ E; discriminate).
           ++ destruct (matches b1 curr) as [[|]|]; injection E1 as _ E; discriminate.
           ++ cbn in Hn. contradiction.
    + destruct (print_bof so its1 curr (rev (z :: q')) true false) as [o2 its2]. cbn [fst snd].
      rewrite app_assoc. reflexivity.
  - cbn [scan_chunk].
    assert (Hnil : match q ++ p with [] => true | _ :: _ => false end = false).
    { destruct q; [destruct p; [contradiction|reflexivity] | reflexivity]. }
    destruct (N.eqb x (s_eol so)).
    + rewrite Hnil, andb_false_r. cbn [negb]. rewrite andb_false_r. cbn [andb].
      rewrite rev_app_distr.
      rewrite (print_bof_compose so its curr (rev p) (rev q) trunc true Hn).
      2:{ intros H. apply (f_equal (@rev _)) in H. rewrite rev_involutive in H. cbn in H. contradiction. }
      destruct (print_bof so its curr (rev p) trunc false) as [o1 its1]. cbn [fst snd].
      destruct (print_bof so its1 curr (rev q) true true) as [o2 its2]. cbn [fst snd].
      destruct (pff so its2 curr); [|reflexivity]. rewrite <- !app_assoc. reflexivity.
    + destruct (N.eqb x (s_delim so)).
      * rewrite rev_app_distr.
        rewrite (print_bof_compose so its curr (rev p) (rev q) trunc true Hn).
        2:{ intros H. apply (f_equal (@rev _)) in H. rewrite rev_involutive in H. cbn in H. contradiction. }
        destruct (print_bof so its curr (rev p) trunc false) as [o1 its1]. cbn [fst snd].
        destruct (print_bof so its1 curr (rev q) true true) as [o2 its2]. cbn [fst snd].
        destruct (side_eqb (SSome curr) (s_lif so)).
        -- destruct (pff so its2 curr); [|reflexivity]. rewrite <- !app_assoc. reflexivity.
        -- rewrite <- !app_assoc. reflexivity.
      * change (x :: q ++ p) with ((x :: q) ++ p). apply IH; assumption.
Qed.

(** scanning c1 ++ c2 = scanning c1, then (if the record goes on) scanning c2 *)
Definition scan_then (so : sopt) (r : scan_res) (c2 : bytes) : scan_res :=
  match r with
  | ChunkEnd out' its' curr' trunc' => scan_chunk so its' curr' trunc' [] c2 out'
  | RecordEnd out' rest => RecordEnd out' (rest ++ c2)
  | SkipFrom out' rest => SkipFrom out' (rest ++ c2)
  | ScanErr => ScanErr
  end.

Lemma scan_app so c2 : forall c1 its curr trunc p out,
  no_adjacent_fillers its ->
  scan_chunk so its curr trunc p (c1 ++ c2) out
  = scan_then so (scan_chunk so its curr trunc p c1 out) c2.
Proof.
  induction c1 as [|x c1 IH]; intros its curr trunc p out Hn.
  - cbn [app scan_chunk]. destruct p as [|y p'].
    + reflexivity.
    + destruct (print_bof so its curr (rev (y :: p')) trunc false) as [o its'] eqn:E.
      cbn [scan_then]. change (y :: p') with ([] ++ (y :: p')).
      rewrite (scan_flush so c2 its curr trunc [] (y :: p') out Hn ltac:(discriminate)).
      cbn [app] in E. rewrite E. reflexivity.
  - cbn [app scan_chunk].
    destruct (N.eqb x (s_eol so)).
    + destruct ((curr =? 1) && negb trunc && match p with [] => true | _ => false end); [reflexivity|].
      destruct (print_bof so its curr (rev p) trunc true) as [o its'].
      destruct (pff so its' curr); reflexivity.
    + destruct (N.eqb x (s_delim so)).
      * destruct (print_bof so its curr (rev p) trunc true) as [o its'] eqn:E.
        destruct (side_eqb (SSome curr) (s_lif so)).
        -- destruct (pff so its' curr); reflexivity.
        -- apply IH. eapply print_bof_naf; [exact Hn | exact E].
      * apply IH, Hn.
Qed.

(** the list of pending items stays free of adjacent fillers *)
Lemma scan_chunk_naf so : forall c its curr trunc p out out' its' curr' trunc',
  no_adjacent_fillers its ->
  scan_chunk so its curr trunc p c out = ChunkEnd out' its' curr' trunc' ->
  no_adjacent_fillers its'.
Proof.
  induction c as [|x c IH]; intros its curr trunc p out out' its' curr' trunc' Hn; cbn [scan_chunk].
  - destruct p as [|y p'].
    + intros H; injection H as _ <- _ _. exact Hn.
    + destruct (print_bof so its curr (rev (y :: p')) trunc false) as [o i] eqn:E.
      intros H; injection H as _ <- _ _. eapply print_bof_naf; [exact Hn | exact E].
  - destruct (N.eqb x (s_eol so)).
    + destruct ((curr =? 1) && negb trunc && match p with [] => true | _ => false end); [discriminate|].
      destruct (print_bof so its curr (rev p) trunc true) as [o i].
      destruct (pff so i curr); discriminate.
    + destruct (N.eqb x (s_delim so)).
      * destruct (print_bof so its curr (rev p) trunc true) as [o i] eqn:E.
        destruct (side_eqb (SSome curr) (s_lif so)).
        -- destruct (pff so i curr); discriminate.
        -- apply IH. eapply print_bof_naf; [exact Hn | exact E].
      * apply IH, Hn.
Qed.

Lemma after_eol_app eol a b :
  after_eol eol (a ++ b) = match after_eol eol a with
                           | Some r => Some (r ++ b)
                           | None => after_eol eol b
                           end.
Proof.
  induction a as [|x a IH]; cbn [app after_eol]; [reflexivity|].
  destruct (N.eqb x eol); [reflexivity | exact IH].
Qed.

(** two reader states are equivalent when they hold the same bytes *)
Definition chunks_ok (cs : list bytes) : Prop := Forall (fun c => c <> []) cs.

Inductive rec_equiv : rec_res -> rec_res -> Prop :=
| re_eof : rec_equiv REof REof
| re_last o : rec_equiv (RLast o) (RLast o)
| re_fail : rec_equiv RFail RFail
| re_rec o cs cs' : chunks_ok cs -> chunks_ok cs' -> concat cs = concat cs' ->
                    rec_equiv (RRecord o cs) (RRecord o cs').

Lemma rec_equiv_refl r : (forall o cs, r = RRecord o cs -> chunks_ok cs) -> rec_equiv r r.
Proof. destruct r; intros H; constructor; try reflexivity; eapply H; reflexivity. Qed.

Lemma rec_equiv_trans a b c : rec_equiv a b -> rec_equiv b c -> rec_equiv a c.
Proof.
  intros H1 H2. inversion H1; subst; inversion H2; subst; constructor; try assumption.
  congruence.
Qed.

Lemma push_rest_ok rest cs : chunks_ok cs -> chunks_ok (push_rest rest cs).
Proof. intros H. unfold push_rest. destruct rest; [exact H|]. constructor; [discriminate | exact H]. Qed.

Lemma push_rest_concat rest cs : concat (push_rest rest cs) = rest ++ concat cs.
Proof. unfold push_rest. destruct rest; reflexivity. Qed.

Definition mode_naf (m : smode) : Prop :=
  match m with Normal its _ _ => no_adjacent_fillers its | Skipping => True end.

(** every record result leaves a well-formed reader *)
Lemma rec_chunks_ok so : forall cs mode started out o cs',
  chunks_ok cs -> rec_chunks so mode started cs out = RRecord o cs' -> chunks_ok cs'.
Proof.
  induction cs as [|c cs IH]; intros mode started out o cs' Hok; cbn [rec_chunks].
  - destruct started; [|discriminate]. destruct mode as [its curr trunc|]; [|discriminate].
    destruct (print_bof so its curr [] trunc true) as [o1 i1]. destruct (pff so i1 curr); discriminate.
  - inversion Hok as [|? ? Hc Hcs]; subst. destruct c as [|x c]; [contradiction|].
    destruct mode as [its curr trunc|].
    + destruct (scan_chunk so its curr trunc [] (x :: c) out) as [o1 i1 c1 t1|o1 rest|o1 rest|] eqn:E.
      * apply IH, Hcs.
      * intros H; injection H as _ <-. apply push_rest_ok, Hcs.
      * destruct (after_eol (s_eol so) rest) as [r|].
        -- intros H; injection H as _ <-. apply push_rest_ok, Hcs.
        -- apply IH, Hcs.
      * discriminate.
    + destruct (after_eol (s_eol so) (x :: c)) as [r|].
      * intros H; injection H as _ <-. apply push_rest_ok, Hcs.
      * apply IH, Hcs.
Qed.

(** merging the first two chunks does not change what a record yields *)
Lemma rec_chunks_merge so c1 c2 cs mode started out :
  c1 <> [] -> c2 <> [] -> chunks_ok cs -> mode_naf mode ->
  rec_equiv (rec_chunks so mode started ((c1 ++ c2) :: cs) out)
            (rec_chunks so mode started (c1 :: c2 :: cs) out).
Proof.
  intros H1 H2 Hok Hn.
  assert (H12 : c1 ++ c2 <> []) by (destruct c1; [contradiction | discriminate]).
  destruct c1 as [|x1 c1']; [contradiction|]. destruct c2 as [|x2 c2']; [contradiction|].
  cbn [rec_chunks app]. destruct mode as [its curr trunc|].
  - change (x1 :: c1' ++ x2 :: c2') with ((x1 :: c1') ++ (x2 :: c2')).
    cbn [mode_naf] in Hn. rewrite (scan_app so (x2 :: c2') (x1 :: c1') its curr trunc [] out Hn).
    destruct (scan_chunk so its curr trunc [] (x1 :: c1') out) as [o1 i1 cu1 t1|o1 rest|o1 rest|] eqn:E;
      cbn [scan_then].
    + (* the record goes on into c2 *)
      cbn [rec_chunks].
      apply rec_equiv_refl. intros o cs' Hr.
      destruct (scan_chunk so i1 cu1 t1 [] (x2 :: c2') o1) as [o2 i2 cu2 t2|o2 rest2|o2 rest2|] eqn:E2.
      * eapply rec_chunks_ok; [exact Hok | exact Hr].
      * injection Hr as _ <-. apply push_rest_ok, Hok.
      * destruct (after_eol (s_eol so) rest2).
        -- injection Hr as _ <-. apply push_rest_ok, Hok.
        -- eapply rec_chunks_ok; [exact Hok | exact Hr].
      * discriminate.
    + constructor.
      * apply push_rest_ok, Hok.
      * apply push_rest_ok. constructor; [discriminate | exact Hok].
      * rewrite !push_rest_concat. cbn [concat]. rewrite app_assoc. reflexivity.
    + rewrite after_eol_app. destruct (after_eol (s_eol so) rest) as [r|].
      * constructor.
        -- apply push_rest_ok, Hok.
        -- apply push_rest_ok. constructor; [discriminate | exact Hok].
        -- rewrite !push_rest_concat. cbn [concat]. rewrite app_assoc. reflexivity.
      * cbn [rec_chunks]. apply rec_equiv_refl. intros o cs' Hr.
        destruct (after_eol (s_eol so) (x2 :: c2')).
        -- injection Hr as _ <-. apply push_rest_ok, Hok.
        -- eapply rec_chunks_ok; [exact Hok | exact Hr].
    + constructor.
  - change (x1 :: c1' ++ x2 :: c2') with ((x1 :: c1') ++ (x2 :: c2')).
    rewrite after_eol_app. destruct (after_eol (s_eol so) (x1 :: c1')) as [r|].
    + constructor.
      * apply push_rest_ok, Hok.
      * apply push_rest_ok. constructor; [discriminate | exact Hok].
      * rewrite !push_rest_concat. cbn [concat]. rewrite app_assoc. reflexivity.
    + cbn [rec_chunks]. apply rec_equiv_refl. intros o cs' Hr.
      destruct (after_eol (s_eol so) (x2 :: c2')).
      * injection Hr as _ <-. apply push_rest_ok, Hok.
      * eapply rec_chunks_ok; [exact Hok | exact Hr].
Qed.

Lemma chunks_ok_concat_nil cs : chunks_ok cs -> concat cs = [] -> cs = [].
Proof.
  intros H E. destruct cs as [|c cs]; [reflexivity|]. inversion H as [|? ? Hc _]; subst.
  cbn in E. destruct c; [contradiction | discriminate].
Qed.

(** a record read from any segmentation yields what it yields from the merged chunk *)
Lemma rec_chunks_concat so : forall n cs mode started out,
  length cs = S n -> chunks_ok cs -> mode_naf mode ->
  rec_equiv (rec_chunks so mode started [concat cs] out) (rec_chunks so mode started cs out).
Proof.
  induction n as [|n IH]; intros cs mode started out Hlen Hok Hn.
  - destruct cs as [|c [|c' cs]]; try discriminate. cbn [concat]. rewrite app_nil_r.
    apply rec_equiv_refl. intros o cs' Hr. eapply rec_chunks_ok; [exact Hok | exact Hr].
  - destruct cs as [|c1 [|c2 cs]]; try discriminate.
    inversion Hok as [|? ? H1 Hok1]; subst. inversion Hok1 as [|? ? H2 Hok2]; subst.
    eapply rec_equiv_trans.
    + replace (concat (c1 :: c2 :: cs)) with (concat ((c1 ++ c2) :: cs)) by (cbn; rewrite app_assoc; reflexivity).
      apply IH; [cbn in *; lia | | exact Hn].
      constructor; [destruct c1; [contradiction | discriminate] | exact Hok2].
    + apply rec_chunks_merge; assumption.
Qed.

Lemma rec_equiv_sym a b : rec_equiv a b -> rec_equiv b a.
Proof. intros H; inversion H; subst; constructor; try assumption. symmetry; assumption. Qed.

Lemma rec_chunks_equiv so cs cs' mode started out :
  chunks_ok cs -> chunks_ok cs' -> concat cs = concat cs' -> mode_naf mode ->
  rec_equiv (rec_chunks so mode started cs out) (rec_chunks so mode started cs' out).
Proof.
  intros Hok Hok' E Hn.
  destruct cs as [|c cs0].
  - cbn in E. symmetry in E. apply chunks_ok_concat_nil in E; [|exact Hok']. subst cs'.
    apply rec_equiv_refl. intros o l Hr. eapply rec_chunks_ok; [exact Hok | exact Hr].
  - destruct cs' as [|c' cs0'].
    + apply chunks_ok_concat_nil in E; [discriminate | exact Hok].
    + eapply rec_equiv_trans.
      * apply rec_equiv_sym. eapply rec_chunks_concat; [reflexivity | exact Hok | exact Hn].
      * rewrite E. eapply rec_chunks_concat; [reflexivity | exact Hok' | exact Hn].
Qed.

(** the whole run *)
Lemma run_stream_fuel_equiv so : no_adjacent_fillers (s_items so) ->
  forall fuel cs cs' acc,
    chunks_ok cs -> chunks_ok cs' -> concat cs = concat cs' ->
    run_stream_fuel fuel so cs acc = run_stream_fuel fuel so cs' acc.
Proof.
  intros Hn. induction fuel as [|f IH]; intros cs cs' acc Hok Hok' E; [reflexivity|].
  cbn [run_stream_fuel].
  pose proof (rec_chunks_equiv so cs cs' (Normal (s_items so) 1 false) false [] Hok Hok' E Hn) as R.
  inversion R as [| | |o l l' Hl Hl' El]; subst; try reflexivity.
  apply IH; assumption.
Qed.

Lemma total_len_concat cs : total_len cs = length (concat cs).
Proof.
  unfold total_len. induction cs as [|c cs IH]; [reflexivity|].
  cbn [fold_right concat]. rewrite app_length, IH. reflexivity.
Qed.

(** C04: any two ways of splitting the same input into non-empty reads give the same
    output and the same status *)
Theorem C04_segmentation_independent so cs cs' :
  no_adjacent_fillers (s_items so) ->
  chunks_ok cs -> chunks_ok cs' -> concat cs = concat cs' ->
  run_stream so cs = run_stream so cs'.
Proof.
  intros Hn Hok Hok' E. unfold run_stream. rewrite (total_len_concat cs), (total_len_concat cs'), E.
  apply run_stream_fuel_equiv; assumption.
Qed.

(** in particular every segmentation equals the run on the whole input in one read *)
Theorem C04_equals_single_read so cs :
  no_adjacent_fillers (s_items so) -> chunks_ok cs ->
  run_stream so cs = run_stream_whole so (concat cs).
Proof.
  intros Hn Hok. unfold run_stream_whole. apply C04_segmentation_independent; try assumption.
  - apply push_rest_ok. constructor.
  - rewrite push_rest_concat. cbn. rewrite app_nil_r. reflexivity.
Qed.
