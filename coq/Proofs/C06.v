From TucModel Require Import Base.Bytes Base.ListX Model.Bounds Model.CutBytes Spec.Resolve Spec.BytesMode
     Proofs.BoundsFacts.
Local Open Scope Z_scope.

Definition item_nz (x : bof) : Prop := match x with Bound b => bound_nz b | Filler _ => True end.
Definition item_resolves (n : nat) (x : bof) : Prop :=
  match x with Bound b => resolves b n | Filler _ => True end.

Lemma selected_slice b (data : bytes) s e :
  bound_nz b -> try_into_range b (length data) = Some (s, e) ->
  selected b data = slice data s e.
Proof.
  intros Hnz H. apply try_into_range_some in H; [|exact Hnz].
  destruct H as [_ [Hs [He _]]]. unfold selected. rewrite <- Hs, <- He.
  rewrite !Nat2Z.id. reflexivity.
Qed.

Lemma cut_bytes_items_spec l generic data :
  Forall item_nz l -> Forall (item_resolves (length data)) l ->
  cut_bytes_items l generic data = Some (spec_bytes l data).
Proof.
  induction l as [|x l IH]; intros Hnz Hres.
  - reflexivity.
  - inversion Hnz as [|? ? Hx Hl]; subst. inversion Hres as [|? ? Rx Rl]; subst.
    specialize (IH Hl Rl). destruct x as [b|f]; cbn [cut_bytes_items].
    + cbn in Hx, Rx. destruct (try_into_range_complete b (length data) Hx Rx) as [s [e E]].
      rewrite E, IH. unfold spec_bytes. cbn [map concat item_text].
      rewrite (selected_slice b data s e Hx E). reflexivity.
    + rewrite IH. reflexivity.
Qed.

Theorem C06_exact l generic data :
  data <> [] ->
  Forall item_nz (items l) -> Forall (item_resolves (length data)) (items l) ->
  cut_bytes l generic data = Done (spec_bytes (items l) data).
Proof.
  intros Hne Hnz Hres. unfold cut_bytes. destruct data as [|x d]; [contradiction|].
  rewrite (cut_bytes_items_spec (items l) generic (x :: d) Hnz Hres). reflexivity.
Qed.

Theorem C06_empty l generic : cut_bytes l generic [] = Done [].
Proof. reflexivity. Qed.

(** the selected bytes really are "the bytes at the selected 1-based positions":
    position p (1 <= p <= n) of the data is [nth (p-1)], and [selected] is the run of
    positions first_pos .. last_pos *)
Lemma selected_nth b (data : bytes) (k : nat) d :
  bound_nz b -> resolves b (length data) ->
  (k < Z.to_nat (last_pos b (Z.of_nat (length data)) - first_pos b (Z.of_nat (length data)) + 1))%nat ->
  nth k (selected b data) d
  = nth (Z.to_nat (first_pos b (Z.of_nat (length data)) - 1) + k) data d.
Proof.
  intros Hnz Hres Hk.
  destruct (try_into_range_complete b _ Hnz Hres) as [s [e E]].
  pose proof (try_into_range_some b _ s e Hnz E) as [_ [Hs [He Hse]]].
  unfold selected, slice. rewrite <- Hs, <- He, !Nat2Z.id.
  assert (Hk' : (k < e - s)%nat) by lia.
  rewrite nth_firstn_lt by exact Hk'.
  apply nth_skipn_add.
Qed.
