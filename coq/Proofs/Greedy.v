(** C01 under -g, at the value level: the printed range is the plain fields from the first
    selected (greedy) field to the last, runs of delimiters between them printed whole. *)
From TucModel Require Import Base.Bytes Base.ListX Model.Bounds Model.BoundsParse Model.Scan Model.Opt
     Model.CutBytes Model.CutStr Spec.Fields Proofs.BoundsFacts Proofs.C06 Proofs.ScanSplit
     Proofs.C02 Proofs.C05 Proofs.C12 Proofs.Plain Proofs.C01More Proofs.C12Total Proofs.PlainMulti.

(** the interior gaps of zero width disappear (offset level) *)
Fixpoint drop_empty_inner_r (gs : list mtch) : list mtch :=
  match gs with
  | [] => []
  | [g] => [g]
  | g :: rest => if Nat.eqb (fst g) (snd g) then drop_empty_inner_r rest else g :: drop_empty_inner_r rest
  end.

Lemma deir_cons g q rest :
  drop_empty_inner_r (g :: q :: rest)
  = if Nat.eqb (fst g) (snd g) then drop_empty_inner_r (q :: rest) else g :: drop_empty_inner_r (q :: rest).
Proof. reflexivity. Qed.

Lemma merge_from_gaps len : forall ms cur start,
  fst cur <= snd cur -> wf_ms (snd cur) ms len ->
  gaps_from start (merge_adjacent_from cur ms) len
  = (start, fst cur) :: drop_empty_inner_r (gaps_from (snd cur) ms len).
Proof.
  induction ms as [|m ms IH]; intros cur start Hc Hwf; [reflexivity|].
  cbn [merge_adjacent_from]. destruct Hwf as [H1 [H2 H3]].
  destruct (gaps_from_cons (snd m) ms len) as [g [gs Eg]].
  cbn [gaps_from]. rewrite Eg, deir_cons. cbn [fst snd]. rewrite <- Eg.
  destruct (Nat.eqb_spec (fst m) (snd cur)) as [E|NE].
  - rewrite (IH (fst cur, snd m) start); [|cbn; lia | exact H3]. cbn [fst snd].
    destruct (Nat.eqb_spec (snd cur) (fst m)); [reflexivity | lia].
  - cbn [gaps_from]. rewrite (IH m (snd cur) H2 H3).
    destruct (Nat.eqb_spec (snd cur) (fst m)); [lia | reflexivity].
Qed.

(** positions, in the plain table, of the gaps that survive *)
Fixpoint kept_inner (base : nat) (gs : list mtch) : list nat :=
  match gs with
  | [] => []
  | [g] => [base]
  | g :: rest => (if Nat.eqb (fst g) (snd g) then [] else [base]) ++ kept_inner (S base) rest
  end.

Lemma deir_is_select : forall gs base (tbl : list mtch),
  (forall i g, nth_error gs i = Some g -> nth_error tbl (base + i) = Some g) ->
  Forall2 (fun k g => nth_error tbl k = Some g) (kept_inner base gs) (drop_empty_inner_r gs).
Proof.
  induction gs as [|g gs IH]; intros base tbl H; [constructor|].
  destruct gs as [|q rest].
  - cbn. constructor; [|constructor]. specialize (H 0 g eq_refl). rewrite Nat.add_0_r in H. exact H.
  - rewrite deir_cons. change (kept_inner base (g :: q :: rest))
      with ((if Nat.eqb (fst g) (snd g) then [] else [base]) ++ kept_inner (S base) (q :: rest)).
    assert (IH' : Forall2 (fun k g0 => nth_error tbl k = Some g0) (kept_inner (S base) (q :: rest)) (drop_empty_inner_r (q :: rest))).
    { apply IH. intros i g0 Hi. specialize (H (S i) g0 Hi). replace (S base + i) with (base + S i) by lia. exact H. }
    destruct (Nat.eqb (fst g) (snd g)); cbn [app]; [exact IH'|].
    constructor; [|exact IH']. specialize (H 0 g eq_refl). rewrite Nat.add_0_r in H. exact H.
Qed.

Lemma kept_inner_mono : forall gs base, Forall (fun k => base <= k < base + length gs) (kept_inner base gs).
Proof.
  induction gs as [|g gs IH]; intros base; [constructor|]. destruct gs as [|q rest].
  - cbn. constructor; [lia | constructor].
  - change (kept_inner base (g :: q :: rest))
      with ((if Nat.eqb (fst g) (snd g) then [] else [base]) ++ kept_inner (S base) (q :: rest)).
    apply Forall_app. split.
    + destruct (Nat.eqb (fst g) (snd g)); constructor; [cbn; lia | constructor].
    + eapply Forall_impl; [|apply IH]. cbn [length]. intros k Hk. lia.
Qed.

Lemma kept_inner_sorted : forall gs base i j a b,
  i < j -> nth_error (kept_inner base gs) i = Some a -> nth_error (kept_inner base gs) j = Some b -> a < b.
Proof.
  induction gs as [|g gs IH]; intros base i j a b Hij Ha Hb; [destruct i; discriminate|].
  destruct gs as [|q rest].
  - cbn in Ha, Hb. destruct j; [lia|]. destruct j; discriminate.
  - change (kept_inner base (g :: q :: rest))
      with ((if Nat.eqb (fst g) (snd g) then [] else [base]) ++ kept_inner (S base) (q :: rest)) in Ha, Hb.
    destruct (Nat.eqb (fst g) (snd g)); cbn [app] in Ha, Hb.
    + exact (IH (S base) i j a b Hij Ha Hb).
    + destruct i as [|i'].
      * cbn in Ha. injection Ha as <-. destruct j as [|j']; [lia|]. cbn [nth_error] in Hb.
        pose proof (kept_inner_mono (q :: rest) (S base)) as M. rewrite Forall_forall in M.
        specialize (M b (nth_error_In _ _ Hb)). lia.
      * destruct j as [|j']; [lia|]. cbn [nth_error] in Ha, Hb. exact (IH (S base) i' j' a b ltac:(lia) Ha Hb).
Qed.

(** the same positions, read off the values: the first field, the non-empty ones, the last *)
Fixpoint kept_inner_v (base : nat) (ps : list bytes) : list nat :=
  match ps with
  | [] => []
  | [p] => [base]
  | p :: rest => (match p with [] => [] | _ => [base] end) ++ kept_inner_v (S base) rest
  end.

Definition kept_v (ps : list bytes) : list nat :=
  match ps with [] => [] | p :: rest => 0 :: kept_inner_v 1 rest end.

Lemma slice_empty_iff (line : bytes) a b : a <= b -> b <= length line -> (slice line a b = [] <-> a = b).
Proof.
  intros H1 H2. split.
  - intros E. destruct (Nat.eq_dec a b) as [|N]; [assumption|]. exfalso. revert E. apply slice_nonempty; lia.
  - intros ->. apply slice_empty.
Qed.

Lemma gaps_wf_each len : forall ms start, wf_ms start ms len ->
  Forall (fun g => fst g <= snd g /\ snd g <= len) (gaps_from start ms len).
Proof.
  induction ms as [|m ms IH]; intros start H; cbn [gaps_from wf_ms] in *.
  - constructor; [cbn; lia | constructor].
  - destruct H as [A [B C]]. constructor; [cbn; pose proof (wf_ms_le _ _ _ C); lia | apply IH, C].
Qed.

Lemma kept_inner_values line : forall gs base,
  Forall (fun g => fst g <= snd g /\ snd g <= length line) gs ->
  kept_inner base gs = kept_inner_v base (pieces line gs).
Proof.
  induction gs as [|g gs IH]; intros base H; [reflexivity|]. inversion H as [|? ? [A B] Hr]; subst.
  destruct gs as [|q rest]; [reflexivity|].
  change (kept_inner base (g :: q :: rest))
    with ((if Nat.eqb (fst g) (snd g) then [] else [base]) ++ kept_inner (S base) (q :: rest)).
  change (pieces line (g :: q :: rest)) with (slice line (fst g) (snd g) :: pieces line (q :: rest)).
  change (pieces line (q :: rest)) with (slice line (fst q) (snd q) :: pieces line rest) at 1.
  change (kept_inner_v base (slice line (fst g) (snd g) :: slice line (fst q) (snd q) :: pieces line rest))
    with ((match slice line (fst g) (snd g) with [] => [] | _ => [base] end)
          ++ kept_inner_v (S base) (slice line (fst q) (snd q) :: pieces line rest)).
  change (slice line (fst q) (snd q) :: pieces line rest) with (pieces line (q :: rest)).
  rewrite <- (IH (S base) Hr). f_equal.
  destruct (Nat.eqb_spec (fst g) (snd g)) as [E|N].
  - rewrite E, slice_empty. reflexivity.
  - destruct (slice line (fst g) (snd g)) eqn:Es; [|reflexivity].
    apply slice_empty_iff in Es; [contradiction | exact A | exact B].
Qed.

(** the greedy table is the plain table at the kept positions *)
Lemma greedy_table d line : d <> [] -> line <> [] ->
  let P := gaps_from 0 (lit_matches d line) (length line) in
  let G := gaps_from 0 (merge_adjacent (lit_matches d line)) (length line) in
  Forall2 (fun k g => nth_error P k = Some g) (kept_v (split d line)) G.
Proof.
  intros Hd Hl P G. pose proof (lit_matches_wf d line) as Hwf.
  pose proof (scan_ranges_split d line Hd Hl) as Hsp. unfold fields_of_matches in Hsp.
  destruct line as [|c l]; [contradiction|]. set (line := c :: l) in *. fold P in Hsp.
  subst G. destruct (lit_matches d line) as [|m ms] eqn:Em.
  - cbn [merge_adjacent gaps_from]. subst P. cbn [gaps_from] in *. rewrite <- Hsp. cbn.
    constructor; [reflexivity | constructor].
  - cbn [merge_adjacent]. destruct Hwf as [H1 [H2 H3]].
    rewrite (merge_from_gaps (length line) ms m 0 H2 H3).
    subst P. cbn [gaps_from] in *. rewrite <- Hsp. cbn [pieces map kept_v].
    constructor; [reflexivity|].
    fold (pieces line (gaps_from (snd m) ms (length line))).
    rewrite <- (kept_inner_values line _ 1 (gaps_wf_each _ _ _ H3)).
    apply deir_is_select. intros i g Hi. cbn [Nat.add nth_error]. exact Hi.
Qed.

Lemma kept_inner_v_mono : forall ps base, Forall (fun k => base <= k < base + length ps) (kept_inner_v base ps).
Proof.
  induction ps as [|p ps IH]; intros base; [constructor|]. destruct ps as [|q rest].
  - cbn. constructor; [lia | constructor].
  - change (kept_inner_v base (p :: q :: rest))
      with ((match p with [] => [] | _ => [base] end) ++ kept_inner_v (S base) (q :: rest)).
    apply Forall_app. split.
    + destruct p; constructor; [cbn; lia | constructor].
    + eapply Forall_impl; [|apply IH]. cbn [length]. intros k Hk. lia.
Qed.

Lemma kept_inner_v_sorted : forall ps base i j a b,
  i < j -> nth_error (kept_inner_v base ps) i = Some a -> nth_error (kept_inner_v base ps) j = Some b -> a < b.
Proof.
  induction ps as [|p ps IH]; intros base i j a b Hij Ha Hb; [destruct i; discriminate|].
  destruct ps as [|q rest].
  - cbn in Ha, Hb. destruct j; [lia|]. destruct j; discriminate.
  - change (kept_inner_v base (p :: q :: rest))
      with ((match p with [] => [] | _ => [base] end) ++ kept_inner_v (S base) (q :: rest)) in Ha, Hb.
    destruct p as [|y ys]; cbn [app] in Ha, Hb.
    + exact (IH (S base) i j a b Hij Ha Hb).
    + destruct i as [|i'].
      * cbn in Ha. injection Ha as <-. destruct j as [|j']; [lia|]. cbn [nth_error] in Hb.
        pose proof (kept_inner_v_mono (q :: rest) (S base)) as M. rewrite Forall_forall in M.
        specialize (M b (nth_error_In _ _ Hb)). lia.
      * destruct j as [|j']; [lia|]. cbn [nth_error] in Ha, Hb. exact (IH (S base) i' j' a b ltac:(lia) Ha Hb).
Qed.

Lemma kept_v_sorted ps i j a b :
  i < j -> nth_error (kept_v ps) i = Some a -> nth_error (kept_v ps) j = Some b -> a < b.
Proof.
  unfold kept_v. destruct ps as [|p rest]; [destruct i; discriminate|]. intros Hij Ha Hb.
  destruct i as [|i'].
  - cbn in Ha. injection Ha as <-. destruct j as [|j']; [lia|]. cbn [nth_error] in Hb.
    pose proof (kept_inner_v_mono rest 1) as M. rewrite Forall_forall in M.
    specialize (M b (nth_error_In _ _ Hb)). lia.
  - destruct j as [|j']; [lia|]. cbn [nth_error] in Ha, Hb.
    exact (kept_inner_v_sorted rest 1 i' j' a b ltac:(lia) Ha Hb).
Qed.

Lemma kept_v_bound ps k : In k (kept_v ps) -> k < length ps.
Proof.
  unfold kept_v. destruct ps as [|p rest]; [contradiction|]. intros [<-|H]; [cbn; lia|].
  pose proof (kept_inner_v_mono rest 1) as M. rewrite Forall_forall in M. specialize (M k H). cbn [length]. lia.
Qed.

(** the value-level meaning of one record under -g *)
Fixpoint spec_items_g (ps : list bytes) (ks : list nat) (generic : option bytes) (join : bool) (rep : bytes)
         (its : list bof) : option bytes :=
  match its with
  | [] => Some []
  | Filler f :: r => option_map (app f) (spec_items_g ps ks generic join rep r)
  | Bound b :: r =>
      match (match try_into_range b (length ks) with
             | Some (s, e) =>
                 match nth_error ks s, nth_error ks (e - 1) with
                 | Some a, Some z => Some (intercalate rep (firstn (z + 1 - a) (skipn a ps)))
                 | _, _ => None
                 end
             | None => fallback_for b generic
             end) with
      | None => None
      | Some p =>
          option_map (fun t => p ++ (if join && negb (blast b) then rep else []) ++ t)
                     (spec_items_g ps ks generic join rep r)
      end
  end.

Lemma Forall2_nth {A B} (R : A -> B -> Prop) : forall l1 l2 i b,
  Forall2 R l1 l2 -> nth_error l2 i = Some b -> exists a, nth_error l1 i = Some a /\ R a b.
Proof.
  induction l1 as [|x l1 IH]; intros l2 i b H Hb; inversion H; subst; [destruct i; discriminate|].
  destruct i as [|i']; [cbn in Hb; injection Hb as <-; eexists; split; [reflexivity | assumption]|].
  cbn [nth_error] in *. eapply IH; eassumption.
Qed.

Lemma Forall2_len {A B} (R : A -> B -> Prop) l1 l2 : Forall2 R l1 l2 -> length l1 = length l2.
Proof. induction 1; cbn; congruence. Qed.

Lemma out_loop_greedy o line its :
  loop_opts o -> line <> [] -> Forall item_nz its ->
  let d := o_delim o in
  out_loop o line (gaps_from 0 (merge_adjacent (lit_matches d line)) (length line)) its
  = match spec_items_g (split d line) (kept_v (split d line)) (o_fallback o) (o_join o) (rep_of' o) its with
    | Some x => ROk x
    | None => RErr
    end.
Proof.
  intros [Hd [Hx [Hj Hb]]] Hl Hnz d. fold d in Hd.
  set (P := gaps_from 0 (lit_matches d line) (length line)).
  set (G := gaps_from 0 (merge_adjacent (lit_matches d line)) (length line)).
  pose proof (greedy_table d line Hd Hl) as HT. cbv zeta in HT. fold P G in HT.
  assert (HP : pieces line P = split d line).
  { pose proof (scan_ranges_split d line Hd Hl) as H. unfold fields_of_matches in H.
    destruct line as [|c l]; [contradiction|]. exact H. }
  assert (Hlen : length G = length (kept_v (split d line))) by (symmetry; apply (Forall2_len _ _ _ HT)).
  assert (Hdp : mpos line d 0 (lit_matches d line)) by (apply lit_matches_mpos, Hd).
  assert (Hvalid : leftmost_fields d (split d line)) by (apply (split_is_split d line Hd)).
  assert (HEP : forall t, emit_part o t = Some t) by (intros t; unfold emit_part; rewrite Hj; reflexivity).
  pose proof (merge_adjacent_wf _ _ (lit_matches_wf d line)) as WG.
  induction its as [|x its IH]; [reflexivity|].
  inversion Hnz as [|? ? Hx0 Hnz']; subst. specialize (IH Hnz').
  destruct x as [b|f]; cbn [out_loop spec_items_g].
  - rewrite Hlen.
    destruct (try_into_range b (length (kept_v (split d line)))) as [[s e]|] eqn:E.
    + destruct (try_into_range_some b _ s e Hx0 E) as [_ [_ [_ Hse]]].
      unfold range_start, range_end.
      destruct (nth_error G s) as [a|] eqn:Ea.
      2:{ apply nth_error_None in Ea. lia. }
      destruct (nth_error G (e - 1)) as [z|] eqn:Ez.
      2:{ apply nth_error_None in Ez. lia. }
      destruct (gaps_mono _ _ 0 s (e - 1) a z WG ltac:(lia) Ea Ez) as [_ [P2 P3]].
      assert (G1 : (fst a <=? snd z) = true) by (apply Nat.leb_le; exact P2).
      assert (G2 : (snd z <=? length line) = true) by (apply Nat.leb_le; exact P3).
      rewrite G1, G2. cbn [andb].
      destruct (Forall2_nth _ _ _ s a HT Ea) as [ka [Eka Hka]].
      destruct (Forall2_nth _ _ _ (e - 1) z HT Ez) as [kz [Ekz Hkz]].
      rewrite Eka, Ekz.
      assert (Hle : ka <= kz).
      { destruct (Nat.eq_dec s (e - 1)) as [Es|Ns]; [rewrite Es in Eka; rewrite Eka in Ekz; injection Ekz as ->; lia|].
        pose proof (kept_v_sorted _ s (e - 1) ka kz ltac:(lia) Eka Ekz). lia. }
      assert (Hkzb : kz < length (split d line)) by (apply kept_v_bound; eapply nth_error_In; exact Ekz).
      replace kz with (kz + 1 - 1) in Hkz by lia.
      rewrite (range_slice_gen line d _ 0 ka (kz + 1) a z Hdp ltac:(lia) Hka Hkz).
      fold P. rewrite HP.
      set (sub := firstn (kz + 1 - ka) (skipn ka (split d line))).
      assert (Hsub_ne : sub <> []).
      { unfold sub. intros H0. apply (f_equal (@length _)) in H0. rewrite firstn_length, skipn_length in H0. cbn in H0. lia. }
      assert (Hsub_valid : leftmost_fields d sub).
      { unfold sub. apply leftmost_firstn; [exact Hd | lia | rewrite skipn_length; lia|].
        apply leftmost_skipn; [lia | exact Hvalid]. }
      assert (HMR : maybe_replace o (intercalate d sub) = Some (intercalate (rep_of' o) sub)).
      { unfold maybe_replace, rep_of'. rewrite Hx.
        destruct (o_btype o); try discriminate; (destruct (o_replace o) as [nd|]; [|reflexivity]);
          fold d; f_equal; apply replace_joined_gen; assumption. }
      rewrite HMR, HEP, IH. unfold rep_of'. fold d.
      destruct (spec_items_g (split d line) _ (o_fallback o) (o_join o) _ its); cbn [option_map]; reflexivity.
    + destruct (fallback_for b (o_fallback o)) as [fb|]; [|reflexivity].
      rewrite HEP, IH. unfold rep_of'. fold d.
      destruct (spec_items_g (split d line) _ (o_fallback o) (o_join o) _ its); cbn [option_map]; reflexivity.
  - rewrite IH. destruct (spec_items_g (split d line) _ (o_fallback o) (o_join o) (rep_of' o) its); reflexivity.
Qed.

Lemma finish_record_greedy o line :
  loop_opts o -> line <> [] -> Forall item_nz (items (o_bounds o)) ->
  let d := o_delim o in
  let ks := kept_v (split d line) in
  finish_record o line (fields_of_matches (merge_adjacent (lit_matches d line)) line)
  = if o_only_delimited o && Nat.eqb (length ks) 1 then ROk []
    else match effective_bounds o (length ks) with
         | None => RErr
         | Some bs =>
             match spec_items_g (split d line) ks (o_fallback o) (o_join o) (rep_of' o) bs with
             | Some x => ROk (x ++ [o_eol o])
             | None => RErr
             end
         end.
Proof.
  intros Hlo Hl Hnz. cbv zeta. unfold finish_record, effective_bounds.
  pose proof Hlo as [Hd _].
  assert (Hlen : length (fields_of_matches (merge_adjacent (lit_matches (o_delim o) line)) line)
                 = length (kept_v (split (o_delim o) line))).
  { unfold fields_of_matches. destruct line as [|c l]; [contradiction|].
    pose proof (greedy_table (o_delim o) (c :: l) Hd Hl) as HT. cbv zeta in HT. symmetry. apply (Forall2_len _ _ _ HT). }
  rewrite Hlen. destruct (o_only_delimited o && Nat.eqb (length (kept_v (split (o_delim o) line))) 1); [reflexivity|].
  unfold fields_of_matches. destruct line as [|c l]; [contradiction|].
  destruct (o_complement o).
  - destruct (complement_list (items (o_bounds o)) (length (kept_v (split (o_delim o) (c :: l))))) as [u|] eqn:Ec;
      cbn [option_map]; [|reflexivity].
    destruct (complement_list_ok _ _ _ Hnz Ec) as [Hnzu _].
    pose proof (out_loop_greedy o (c :: l) (items u) Hlo Hl Hnzu) as F. cbv zeta in F. rewrite F.
    destruct (spec_items_g _ _ _ _ _ _); reflexivity.
  - pose proof (out_loop_greedy o (c :: l) (items (o_bounds o)) Hlo Hl Hnz) as F. cbv zeta in F. rewrite F.
    destruct (spec_items_g _ _ _ _ _ _); reflexivity.
Qed.

Definition greedy_opts (o : opt) : Prop :=
  o_delim o <> [] /\ o_regex o = None /\ o_json o = false /\ o_btype o = BFields /\ o_greedy o = true.

(** C01 under -g as a function of the record (with any of -t, -p, -s, -m, -j, -r, format
    text, fallbacks): the fields counted are the first field, the non-empty ones, and the last
    ([kept_v]: their positions among all the fields); a bound that resolves to the counted
    fields s+1..e prints every field of the record from the first of them to the last of them,
    joined by the (replacement) delimiter - the runs in between, empty fields included *)
Theorem general_record_value_greedy o line0 :
  greedy_opts o -> Forall item_nz (items (o_bounds o)) ->
  cut_str o line0
  = Some (let d := o_delim o in
          let line1 := match o_trim o with Some k => trim_lit k d line0 | None => line0 end in
          match line1 with
          | [] => ROk (if o_only_delimited o then [] else [o_eol o])
          | _ =>
              let ps := if o_compress o then squeeze (split d line1) else split d line1 in
              let ks := kept_v ps in
              if o_only_delimited o && Nat.eqb (length ks) 1 then ROk []
              else match effective_bounds o (length ks) with
                   | None => RErr
                   | Some bs =>
                       match spec_items_g ps ks (o_fallback o) (o_join o) (rep_of' o) bs with
                       | Some x => ROk (x ++ [o_eol o])
                       | None => RErr
                       end
                   end
          end).
Proof.
  intros [Hd [Hx [Hj [Hb Hg]]]] Hnz.
  rewrite (cut_str_literal o line0 Hx Hb Hj). cbv zeta. f_equal.
  destruct (match o_trim o with Some k => trim_lit k (o_delim o) line0 | None => line0 end) as [|c l1] eqn:E; [reflexivity|].
  assert (Hlo : loop_opts o) by (repeat split; try assumption; rewrite Hb; reflexivity).
  unfold lit_stage. rewrite Hg. cbn [fst snd]. destruct (o_compress o).
  - assert (Hl' : compress_delimiter (o_delim o) (c :: l1) <> []) by (apply compress_nonempty; [exact Hd | discriminate]).
    pose proof (finish_record_greedy o _ Hlo Hl' Hnz) as F. cbv zeta in F. rewrite F.
    rewrite (compress_then_split (o_delim o) (c :: l1) Hd ltac:(discriminate)). reflexivity.
  - pose proof (finish_record_greedy o (c :: l1) Hlo ltac:(discriminate) Hnz) as F. cbv zeta in F. exact F.
Qed.

(** the counted fields under -g are the squeezed ones *)
Lemma kept_v_is_squeeze ps : map (fun k => nth k ps []) (kept_v ps) = squeeze ps.
Proof.
  unfold kept_v, squeeze. destruct ps as [|p rest]; [reflexivity|]. cbn [map nth]. f_equal.
  assert (G : forall rest base pre, length pre = base ->
            map (fun k => nth k (pre ++ rest) []) (kept_inner_v base rest) = drop_empty_inner rest).
  { induction rest0 as [|q r IH]; intros base pre Hb; [reflexivity|]. destruct r as [|q2 r2].
    - cbn. rewrite <- Hb, app_nth2, Nat.sub_diag by lia. reflexivity.
    - change (kept_inner_v base (q :: q2 :: r2))
        with ((match q with [] => [] | _ => [base] end) ++ kept_inner_v (S base) (q2 :: r2)).
      rewrite map_app. specialize (IH (S base) (pre ++ [q])).
      rewrite <- app_assoc in IH. cbn [app] in IH. rewrite IH by (rewrite app_length; cbn; lia).
      destruct q as [|y ys].
      + rewrite dei_cons_empty. reflexivity.
      + rewrite dei_cons_nonempty by discriminate. cbn [map app]. f_equal.
        rewrite <- Hb, app_nth2, Nat.sub_diag by lia. reflexivity. }
  exact (G rest 1 [p] eq_refl).
Qed.
