(** C08: what the JSON writer emits for a part decodes back to exactly that part. *)
From TucModel Require Import Base.Bytes Model.Json Spec.JsonSpec.
Local Open Scope N_scope.

Lemma low_bytes_roundtrip :
  forallb (fun b => match json_unescape (json_escape_byte b) with
                    | Some [x] => N.eqb x b
                    | _ => false
                    end) (map N.of_nat (seq 0 32)) = true.
Proof. vm_compute. reflexivity. Qed.

Lemma escape_byte_roundtrip b r :
  json_unescape (json_escape_byte b ++ r) = option_map (cons b) (json_unescape r).
Proof.
  destruct (N.ltb_spec b 32) as [Hlt|Hge].
  - (* the 32 control bytes: by enumeration *)
    assert (Hin : In b (map N.of_nat (seq 0 32))).
    { apply in_map_iff. exists (N.to_nat b). split; [apply N2Nat.id|]. apply in_seq. lia. }
    revert r. clear Hlt.
    assert (G : forall b0, In b0 (map N.of_nat (seq 0 32)) ->
                forall r, json_unescape (json_escape_byte b0 ++ r) = option_map (cons b0) (json_unescape r)).
    { cbn [seq map]. intros b0 H r.
      repeat (destruct H as [<-|H]; [reflexivity|]). contradiction. }
    exact (G b Hin).
  - unfold json_escape_byte.
    destruct (N.eqb_spec b 34) as [->|H34]; [reflexivity|].
    destruct (N.eqb_spec b 92) as [->|H92]; [reflexivity|].
    destruct (N.eqb_spec b 8) as [->|H8]; [lia|].
    destruct (N.eqb_spec b 9) as [->|H9]; [lia|].
    destruct (N.eqb_spec b 10) as [->|H10]; [lia|].
    destruct (N.eqb_spec b 12) as [->|H12]; [lia|].
    destruct (N.eqb_spec b 13) as [->|H13]; [lia|].
    destruct (N.ltb_spec b 32) as [|_]; [lia|].
    cbn [app json_unescape].
    (* an ordinary byte: not a backslash, not a quote, not a control *)
    destruct b as [|p]; [lia|].
    assert (Hne : Npos p <> 92) by exact H92.
    assert (E1 : (Npos p <? 32) = false) by (apply N.ltb_ge; lia).
    assert (E2 : (Npos p =? 34) = false) by (apply N.eqb_neq; exact H34).
    (* the pattern match on the literal 92 *)
    assert (G : forall q, Npos q <> 92 -> (Npos q <? 32) = false -> (Npos q =? 34) = false ->
                json_unescape (Npos q :: r) = option_map (cons (Npos q)) (json_unescape r)).
    { intros q Hq F1 F2. cbn [json_unescape].
      destruct q as [q|q|]; try (cbn in F1; discriminate);
        repeat (match goal with q : positive |- _ => destruct q as [q|q|] end;
                try (cbn in F1; discriminate); try (exfalso; apply Hq; reflexivity);
                try (rewrite F1, F2; reflexivity); try (cbn in F2; discriminate)). }
    apply G; assumption.
Qed.

Theorem json_unescape_escape s : json_unescape (flat_map json_escape_byte s) = Some s.
Proof.
  induction s as [|b s IH]; [reflexivity|]. cbn [flat_map].
  rewrite escape_byte_roundtrip, IH. reflexivity.
Qed.

(** the element --json writes for a part reads back as exactly that part, whatever quotes,
    backslashes or control characters it contains *)
Theorem C08_roundtrip s : json_read_string (json_string s) = Some s.
Proof.
  unfold json_read_string, json_string. cbn [app].
  rewrite rev_app_distr. cbn [rev app]. rewrite rev_involutive. apply json_unescape_escape.
Qed.
