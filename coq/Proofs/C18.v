(** C18: what the bounds parser accepts is well-formed; rejection happens before any input. *)
From TucModel Require Import Base.Bytes Model.Bounds Model.BoundsParse Model.Opt Model.Args Model.Main
     Spec.Resolve Proofs.BoundsFacts Proofs.C06 Proofs.ParseFacts.
Local Open Scope Z_scope.

Definition side_i32 (s : side) : Prop :=
  match s with SSome v => i32_min <= v <= i32_max /\ v <> 0 | SCont => True end.

Lemma parse_i32_range s v : parse_i32 s = Some v -> i32_min <= v <= i32_max.
Proof.
  unfold parse_i32.
  destruct (match s with
            | [] => (false, s)
            | x :: r => if N.eqb x ch_minus then (true, r) else if N.eqb x ch_plus then (false, r) else (false, s)
            end) as [neg ds].
  destruct ds as [|c ds]; [discriminate|].
  destruct (digits_val 0 (c :: ds)) as [w|]; [|discriminate].
  destruct ((i32_min <=? (if neg then - w else w)) && ((if neg then - w else w) <=? i32_max)) eqn:E; [|discriminate].
  intros H; injection H as <-. apply andb_true_iff in E. destruct E as [A B].
  apply Z.leb_le in A. apply Z.leb_le in B. lia.
Qed.

Lemma parse_side_range s x : parse_side s = Some x ->
  match x with SSome v => i32_min <= v <= i32_max | SCont => True end.
Proof.
  unfold parse_side. destruct s as [|c s]; [intros H; injection H as <-; exact I|].
  destruct (parse_i32 (c :: s)) as [v|] eqn:E; [|discriminate].
  intros H; injection H as <-. exact (parse_i32_range _ _ E).
Qed.

(** an accepted bound: indexes are non-zero 32-bit integers and a same-sign range does not decrease *)
Theorem parse_bound_sound s b : parse_bound s = Some b ->
  side_i32 (bl b) /\ side_i32 (br b)
  /\ (forall l r, bl b = SSome l -> br b = SSome r -> same_sign r l = true -> l <= r).
Proof.
  intros H. pose proof (parse_bound_nz s b H) as [Nl Nr]. revert H.
  unfold parse_bound. destruct (split_once ch_eq s) as [rp fb].
  destruct rp as [|c rp]; [discriminate|].
  destruct (bytes_eqb (c :: rp) [ch_colon]); [discriminate|].
  destruct (split_once ch_colon (c :: rp)) as [a rest].
  match goal with |- match ?X with _ => _ end = _ -> _ => destruct X as [[l r']|] eqn:E end; [|discriminate].
  assert (Rg : match l with SSome v => i32_min <= v <= i32_max | SCont => True end
               /\ match r' with SSome v => i32_min <= v <= i32_max | SCont => True end).
  { destruct rest as [bb|].
    - destruct a as [|a0 a']; [|destruct bb as [|b0 b']].
      + destruct (parse_side bb) eqn:P; [|discriminate]. injection E as <- <-. split; [exact I | exact (parse_side_range _ _ P)].
      + destruct (parse_side (a0 :: a')) eqn:P; [|discriminate]. injection E as <- <-. split; [exact (parse_side_range _ _ P) | exact I].
      + destruct (parse_side (a0 :: a')) eqn:P1; [|discriminate]. destruct (parse_side (b0 :: b')) eqn:P2; [|discriminate].
        injection E as <- <-. split; [exact (parse_side_range _ _ P1) | exact (parse_side_range _ _ P2)].
    - destruct (parse_side a) eqn:P; [|discriminate]. injection E as <- <-.
      split; exact (parse_side_range _ _ P). }
  destruct (side_is_zero l || side_is_zero r'); [discriminate|].
  destruct l as [lv|]; destruct r' as [rv|];
    try (intros H; injection H as <-; cbn in *; repeat split; try tauto; try discriminate; intros; discriminate).
  destruct ((rv <? lv) && same_sign rv lv) eqn:G; [discriminate|].
  intros H; injection H as <-. cbn in *. repeat split; try tauto.
  intros l0 r0 Hl Hr Hs. injection Hl as <-. injection Hr as <-.
  rewrite Hs, andb_true_r in G. apply Z.ltb_ge in G. exact G.
Qed.

(** a rejected argument vector yields status 1 and no output, whatever the input *)
Theorem rejected_before_input argv :
  parse_args argv = PExit1 -> forall input, run_main argv input = MOut (Fail []).
Proof. intros H input. unfold run_main. rewrite H. reflexivity. Qed.

(** text without backslashes and braces is reproduced byte for byte *)
Definition plain_byte (b : byte) : bool :=
  negb (N.eqb b ch_backslash) && negb (N.eqb b ch_lbrace) && negb (N.eqb b ch_rbrace).

Lemma replace2_plain a b rep s : Forall (fun x => N.eqb x a = false) s -> replace2 a b rep s = s.
Proof.
  induction s as [|x s IH]; intros H; [reflexivity|]. inversion H as [|? ? Hx Hs]; subst.
  cbn [replace2]. destruct s as [|y t]; [reflexivity|]. rewrite Hx. cbn [andb]. f_equal. apply IH, Hs.
Qed.

Theorem render_plain s : forallb plain_byte s = true -> render_filler s = s.
Proof.
  intros H. assert (F : Forall (fun x => plain_byte x = true) s) by (apply Forall_forall; apply forallb_forall; exact H).
  assert (G : forall c, (c = ch_backslash \/ c = ch_lbrace \/ c = ch_rbrace) -> Forall (fun x => N.eqb x c = false) s).
  { intros c Hc. eapply Forall_impl; [|exact F]. intros x Hx. unfold plain_byte in Hx.
    apply andb_true_iff in Hx. destruct Hx as [Hx H3]. apply andb_true_iff in Hx. destruct Hx as [H1 H2].
    apply negb_true_iff in H1, H2, H3. destruct Hc as [->|[->| ->]]; assumption. }
  unfold render_filler. rewrite (replace2_plain ch_lbrace ch_lbrace) by (apply G; tauto).
  rewrite (replace2_plain ch_rbrace ch_rbrace) by (apply G; tauto).
  rewrite (replace2_plain ch_backslash ch_n) by (apply G; tauto).
  apply replace2_plain, G. tauto.
Qed.
