(** C16: with a regex delimiter the fields are exactly the gaps between successive
    leftmost non-overlapping matches: matches and gaps tile the record, in order. *)
From TucModel Require Import Base.Bytes Base.ListX Model.Scan Model.Regex Model.Opt Model.CutStr
     Proofs.ScanSplit Proofs.C12.

(** gaps and matched texts, woven together *)
Fixpoint weave (line : bytes) (start : nat) (ms : list mtch) (len : nat) : bytes :=
  match ms with
  | [] => slice line start len
  | m :: ms' => slice line start (fst m) ++ slice line (fst m) (snd m) ++ weave line (snd m) ms' len
  end.

Lemma wf_ms_end ms : forall start len, wf_ms start ms len -> start <= len.
Proof.
  induction ms as [|m ms IH]; intros start len; cbn [wf_ms]; [tauto|].
  intros [A [B C]]. apply IH in C. lia.
Qed.

(** no byte of the record is lost, altered or reordered by splitting at the matches *)
Theorem weave_is_the_line line : forall ms start len,
  wf_ms start ms len -> weave line start ms len = slice line start len.
Proof.
  induction ms as [|m ms IH]; intros start len Hwf; cbn [weave]; [reflexivity|].
  destruct Hwf as [A [B C]]. rewrite (IH _ _ C). pose proof (wf_ms_end _ _ _ C) as D.
  rewrite <- (slice_split line (fst m) (snd m) len B D).
  rewrite <- (slice_split line start (fst m) len A ltac:(lia)). reflexivity.
Qed.

(** and the gaps are the fields *)
Lemma weave_gaps line : forall ms start len,
  pieces line (gaps_from start ms len)
  = (fix gaps (start : nat) (ms : list mtch) :=
       match ms with
       | [] => [slice line start len]
       | m :: ms' => slice line start (fst m) :: gaps (snd m) ms'
       end) start ms.
Proof. induction ms as [|m ms IH]; intros start len; cbn [gaps_from pieces map fst snd]; [reflexivity|]. f_equal. apply IH. Qed.

(** the mini engine yields sorted, non-overlapping, non-empty, in-range matches *)
Lemma re_find_wf r : forall l skip pos,
  wf_ms (pos + skip) (re_find_aux r skip pos l) (Nat.max (pos + length l) (pos + skip))
  /\ Forall (fun m => fst m < snd m) (re_find_aux r skip pos l).
Proof.
  induction l as [|x l IH]; intros skip pos; cbn [re_find_aux].
  - split; [cbn [wf_ms length]; lia | constructor].
  - destruct skip as [|k].
    + destruct (match_len r (x :: l)) as [[|n]|] eqn:E.
      * destruct (IH 0 (S pos)) as [I1 I2]. split; [|exact I2].
        cbn [length]. eapply wf_ms_weaken; [| |exact I1]; lia.
      * destruct (IH n (S pos)) as [I1 I2].
        assert (Hn : S n <= length (x :: l)).
        { remember (length (x :: l)) as L eqn:HL. unfold match_len in E. rewrite <- HL in E.
          destruct (m r (x :: l) (fun rest => Some rest)) as [b|]; [|discriminate].
          remember (length b) as B. injection E as E. lia. }
        split.
        -- cbn [wf_ms fst snd]. split; [lia|]. split; [lia|]. cbn [length] in *.
           eapply wf_ms_weaken; [| |exact I1]; lia.
        -- constructor; [cbn [fst snd]; lia | exact I2].
      * destruct (IH 0 (S pos)) as [I1 I2]. split; [|exact I2].
        cbn [length]. eapply wf_ms_weaken; [| |exact I1]; lia.
    + destruct (IH k (S pos)) as [I1 I2]. split; [|exact I2].
      cbn [length]. eapply wf_ms_weaken; [| |exact I1]; lia.
Qed.

Theorem re_matches_wf r line :
  wf_ms 0 (re_find_iter r line) (length line) /\ Forall (fun m => fst m < snd m) (re_find_iter r line).
Proof.
  unfold re_find_iter. destruct (re_find_wf r line 0 0) as [H1 H2]. split; [|exact H2].
  rewrite !Nat.add_0_r, Nat.add_0_l, Nat.max_l in H1 by lia. exact H1.
Qed.

(** C16: for every regex of the family, the fields and the matches tile the record *)
Theorem regex_fields_tile_the_record r line :
  weave line 0 (re_find_iter r line) (length line) = line.
Proof.
  rewrite (weave_is_the_line line _ 0 (length line) (proj1 (re_matches_wf r line))).
  apply slice_full.
Qed.

(** -g : the same with maximal runs of adjacent matches, i.e. the matches of (RE)+ *)
Theorem regex_greedy_fields_tile_the_record r line :
  weave line 0 (re_find_iter (RPlus r) line) (length line) = line.
Proof. apply regex_fields_tile_the_record. Qed.

(** -r R inserts R literally wherever a match is replaced *)
Theorem replace_is_literal line rep : forall ms start,
  replace_matches_from line start ms rep
  = (fix go (start : nat) (ms : list mtch) :=
       match ms with
       | [] => skipn start line
       | m :: ms' => slice line start (fst m) ++ rep ++ go (snd m) ms'
       end) start ms.
Proof. induction ms as [|m ms IH]; intros start; cbn [replace_matches_from]; [reflexivity|]. rewrite IH. reflexivity. Qed.
