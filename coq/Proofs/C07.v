(** C07: in character mode the fields of a valid UTF-8 record are exactly its scalar
    encodings, whole. *)
From TucModel Require Import Base.Bytes Base.ListX Model.Scan Model.Utf8 Model.CutStr Proofs.ScanSplit.

Lemma utf8_chars_fuel_concat : forall fuel l cs,
  utf8_chars_fuel fuel l = Some cs -> concat cs = l /\ Forall (fun c => c <> []) cs.
Proof.
  induction fuel as [|f IH]; intros l cs; cbn [utf8_chars_fuel].
  - destruct l; [|discriminate]. intros H; injection H as <-. split; [reflexivity | constructor].
  - destruct l as [|b l']; [intros H; injection H as <-; split; [reflexivity | constructor]|].
    destruct (utf8_head_len (b :: l')) as [k|] eqn:Ek; [|discriminate].
    destruct (utf8_chars_fuel f (skipn k (b :: l'))) as [cs'|] eqn:E; [|discriminate].
    intros H; injection H as <-. destruct (IH _ _ E) as [H1 H2]. split.
    + cbn [concat]. rewrite H1. apply firstn_skipn.
    + constructor; [|exact H2].
      assert (k <> 0).
      { unfold utf8_head_len in Ek.
        repeat match type of Ek with
               | (if ?c then _ else _) = _ => destruct c
               | match ?x with _ => _ end = _ => destruct x
               end; try discriminate; injection Ek as <-; discriminate. }
      destruct k; [contradiction | discriminate].
Qed.

Fixpoint char_ranges (pos : nat) (cs : list bytes) : list mtch :=
  match cs with
  | [] => []
  | c :: cs' => (pos, pos + length c) :: char_ranges (pos + length c) cs'
  end.

Definition total (cs : list bytes) : nat := length (concat cs).

Lemma gaps_boundaries len : forall cs start pos,
  gaps_from start (map (fun p => (p, p)) (boundaries_from pos cs)) len
  = (start, pos) :: char_ranges pos cs ++ [(pos + total cs, len)].
Proof.
  induction cs as [|c cs IH]; intros start pos; cbn [boundaries_from map gaps_from fst snd char_ranges app].
  - unfold total. cbn. rewrite Nat.add_0_r. reflexivity.
  - rewrite IH. unfold total. cbn [concat]. rewrite app_length, Nat.add_assoc. reflexivity.
Qed.

Lemma pieces_char_ranges : forall cs pre,
  pieces (pre ++ concat cs) (char_ranges (length pre) cs) = cs.
Proof.
  induction cs as [|c cs IH]; intros pre; [reflexivity|].
  cbn [char_ranges pieces map fst snd concat]. f_equal.
  - unfold slice. rewrite skipn_app_length. replace (length pre + length c - length pre) with (length c) by lia.
    rewrite firstn_app, Nat.sub_diag, firstn_all. cbn [firstn]. apply app_nil_r.
  - fold (pieces (pre ++ c ++ concat cs)). rewrite app_assoc, <- app_length. apply IH.
Qed.

(** the fields of -c on a valid record with at least one character: its scalar encodings *)
Theorem chars_are_fields line cs :
  utf8_chars line = Some cs -> cs <> [] ->
  exists ms, char_matches line = Some ms
             /\ pieces line (drop_outer (fields_of_matches ms line)) = cs.
Proof.
  intros Hu Hne. unfold char_matches. rewrite Hu. eexists. split; [reflexivity|].
  unfold utf8_chars in Hu. destruct (utf8_chars_fuel_concat _ _ _ Hu) as [Hc Hn].
  unfold fields_of_matches. destruct line as [|b l'].
  { destruct cs as [|c cs']; [contradiction|]. inversion Hn as [|? ? Hc0 _]; subst.
    cbn in Hc. destruct c; [contradiction | discriminate]. }
  rewrite gaps_boundaries. unfold drop_outer. cbn [length]. rewrite app_length. cbn [length].
  assert (Hl : forall n, length (char_ranges n cs) = length cs).
  { clear. induction cs as [|c cs' IH]; intros n; [reflexivity|]. cbn. f_equal. apply IH. }
  assert (H2 : Nat.ltb 2 (S (length (char_ranges 0 cs) + 1)) = true).
  { apply Nat.ltb_lt. rewrite Hl. destruct cs; [contradiction | cbn [length]; lia]. }
  rewrite H2. cbn [tl]. rewrite removelast_last.
  rewrite <- Hc at 1. apply (pieces_char_ranges cs []).
Qed.

(** no character is ever split: every field is one whole scalar encoding *)
Corollary fields_are_whole_scalars line cs :
  utf8_chars line = Some cs -> Forall (fun c => utf8_head_len c = Some (length c)) cs ->
  cs <> [] ->
  exists ms, char_matches line = Some ms
             /\ Forall (fun f => utf8_head_len f = Some (length f))
                       (pieces line (drop_outer (fields_of_matches ms line))).
Proof.
  intros Hu Hw Hne. destruct (chars_are_fields line cs Hu Hne) as [ms [H1 H2]].
  exists ms. split; [exact H1 | rewrite H2; exact Hw].
Qed.
