From TucModel Require Import Base.Bytes Base.ListX Model.Bounds Model.Scan Model.Opt Model.CutBytes
     Model.CutStr Model.FastLane Model.Stream Proofs.C04 Proofs.C10 Proofs.C10Stream.

(** what a run over records delivers, exactly: on success the outputs of all the records, in
    order; on failure the outputs - complete and unmodified - of the records before the
    first failing one, and nothing of it or after it *)
Definition cut_ok (cut : bytes -> option rres) (r o : bytes) : Prop := cut r = Some (ROk o).

Lemma run_records_done cut : forall rs acc out,
  run_records cut rs acc = Some (Done out) <->
  exists outs, Forall2 (cut_ok cut) rs outs /\ out = acc ++ concat outs.
Proof.
  induction rs as [|r rs IH]; intros acc out; cbn [run_records].
  - split.
    + intros H; injection H as <-. exists []. split; [constructor | rewrite app_nil_r; reflexivity].
    + intros [outs [HF ->]]. inversion HF; subst. cbn. rewrite app_nil_r. reflexivity.
  - destruct (cut r) as [[o| | |]|] eqn:E.
    + rewrite IH. split.
      * intros [outs [HF ->]]. exists (o :: outs). split; [constructor; [exact E | exact HF]|].
        cbn [concat]. rewrite app_assoc. reflexivity.
      * intros [outs [HF ->]]. inversion HF as [|? o' ? outs' Ho Hr]; subst. unfold cut_ok in Ho.
        rewrite E in Ho. injection Ho as <-. exists outs'. split; [exact Hr|]. cbn [concat]. rewrite app_assoc. reflexivity.
    + split; [discriminate|]. intros [outs [HF _]]. inversion HF as [|? o' ? ? Ho _]; subst.
      unfold cut_ok in Ho. rewrite E in Ho. discriminate.
    + split; [discriminate|]. intros [outs [HF _]]. inversion HF as [|? o' ? ? Ho _]; subst.
      unfold cut_ok in Ho. rewrite E in Ho. discriminate.
    + split; [discriminate|]. intros [outs [HF _]]. inversion HF as [|? o' ? ? Ho _]; subst.
      unfold cut_ok in Ho. rewrite E in Ho. discriminate.
    + split; [discriminate|]. intros [outs [HF _]]. inversion HF as [|? o' ? ? Ho _]; subst.
      unfold cut_ok in Ho. rewrite E in Ho. discriminate.
Qed.

Lemma run_records_fail cut : forall rs acc pre,
  run_records cut rs acc = Some (Fail pre) <->
  exists rs1 r rs2 outs, rs = rs1 ++ r :: rs2 /\ Forall2 (cut_ok cut) rs1 outs
                         /\ cut r = Some RErr /\ pre = acc ++ concat outs.
Proof.
  induction rs as [|r rs IH]; intros acc pre; cbn [run_records].
  - split; [discriminate|]. intros [rs1 [r [rs2 [outs [E _]]]]]. destruct rs1; discriminate.
  - destruct (cut r) as [[o| | |]|] eqn:E.
    + rewrite IH. split.
      * intros [rs1 [r0 [rs2 [outs [-> [HF [He ->]]]]]]].
        exists (r :: rs1), r0, rs2, (o :: outs). split; [reflexivity|].
        split; [constructor; [exact E | exact HF]|]. split; [exact He|]. cbn [concat]. rewrite app_assoc. reflexivity.
      * intros [rs1 [r0 [rs2 [outs [Eq [HF [He ->]]]]]]]. destruct rs1 as [|r1 rs1'].
        -- cbn in Eq. injection Eq as <- <-. rewrite E in He. discriminate.
        -- cbn in Eq. injection Eq as <- ->. inversion HF as [|? o' ? outs' Ho Hr]; subst.
           unfold cut_ok in Ho. rewrite E in Ho. injection Ho as <-.
           exists rs1', r0, rs2, outs'. repeat split; try assumption. cbn [concat]. rewrite app_assoc. reflexivity.
    + split.
      * intros H; injection H as <-. exists [], r, rs, []. cbn. rewrite app_nil_r. repeat split; try constructor. exact E.
      * intros [rs1 [r0 [rs2 [outs [Eq [HF [He ->]]]]]]]. destruct rs1 as [|r1 rs1'].
        -- inversion HF; subst. cbn. rewrite app_nil_r. reflexivity.
        -- cbn in Eq. injection Eq as <- ->. inversion HF as [|? o' ? ? Ho _]; subst.
           unfold cut_ok in Ho. rewrite E in Ho. discriminate.
    + split; [discriminate|]. intros [rs1 [r0 [rs2 [outs [Eq [HF [He _]]]]]]]. destruct rs1 as [|r1 rs1'].
      * cbn in Eq. injection Eq as <- <-. rewrite E in He. discriminate.
      * cbn in Eq. injection Eq as <- ->. inversion HF as [|? o' ? ? Ho _]; subst. unfold cut_ok in Ho. rewrite E in Ho. discriminate.
    + split; [discriminate|]. intros [rs1 [r0 [rs2 [outs [Eq [HF [He _]]]]]]]. destruct rs1 as [|r1 rs1'].
      * cbn in Eq. injection Eq as <- <-. rewrite E in He. discriminate.
      * cbn in Eq. injection Eq as <- ->. inversion HF as [|? o' ? ? Ho _]; subst. unfold cut_ok in Ho. rewrite E in Ho. discriminate.
    + split; [discriminate|]. intros [rs1 [r0 [rs2 [outs [Eq [HF [He _]]]]]]]. destruct rs1 as [|r1 rs1'].
      * cbn in Eq. injection Eq as <- <-. rewrite E in He. discriminate.
      * cbn in Eq. injection Eq as <- ->. inversion HF as [|? o' ? ? Ho _]; subst. unfold cut_ok in Ho. rewrite E in Ho. discriminate.
Qed.

(** instances: the general path (also -c, --json, -e), the fast lane, -M *)
Theorem general_failure_delivers_earlier_records o input pre :
  read_and_cut_str o input = Some (Fail pre) <->
  exists rs1 r rs2 outs, records (o_eol o) input = rs1 ++ r :: rs2
                         /\ Forall2 (cut_ok (cut_str o)) rs1 outs /\ cut_str o r = Some RErr /\ pre = concat outs.
Proof. unfold read_and_cut_str. rewrite run_records_fail. cbn [app]. reflexivity. Qed.

Theorem general_success_delivers_all_records o input out :
  read_and_cut_str o input = Some (Done out) <->
  exists outs, Forall2 (cut_ok (cut_str o)) (records (o_eol o) input) outs /\ out = concat outs.
Proof. unfold read_and_cut_str. rewrite run_records_done. cbn [app]. reflexivity. Qed.

Theorem fixed_memory_failure_delivers_earlier_records so input pre :
  no_adjacent_fillers (s_items so) ->
  (run_stream_whole so input = Fail pre <->
   exists rs1 r rs2 outs, records (s_eol so) input = rs1 ++ r :: rs2
                          /\ Forall2 (cut_ok (stream_cut so)) rs1 outs /\ stream_cut so r = Some RErr
                          /\ pre = concat outs).
Proof.
  intros Hn. rewrite <- (run_records_fail (stream_cut so) (records (s_eol so) input) [] pre).
  rewrite <- (stream_whole_per_record so input Hn). split; [intros ->; reflexivity | intros H; injection H as H; exact H].
Qed.

Theorem fixed_memory_success_delivers_all_records so input out :
  no_adjacent_fillers (s_items so) ->
  (run_stream_whole so input = Done out <->
   exists outs, Forall2 (cut_ok (stream_cut so)) (records (s_eol so) input) outs /\ out = concat outs).
Proof.
  intros Hn. rewrite <- (run_records_done (stream_cut so) (records (s_eol so) input) [] out).
  rewrite <- (stream_whole_per_record so input Hn). split; [intros ->; reflexivity | intros H; injection H as H; exact H].
Qed.
