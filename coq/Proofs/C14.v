(** C14 (partial): over the I/O envelope model, what reaches stdout is always a prefix of
    the fault-free output, a successful status means everything was delivered, and a failing
    record leaves the earlier records complete. *)
From TucModel Require Import Base.Bytes Base.ListX Model.Bounds Model.Scan Model.Opt Model.CutBytes
     Model.CutStr Model.FastLane Model.Main Model.IO Proofs.C10.

Definition is_prefix (a b : bytes) : Prop := exists t, b = a ++ t.

Lemma firstn_prefix {A} k (l : list A) : exists t, l = firstn k l ++ t.
Proof. exists (skipn k l). symmetry. apply firstn_skipn. Qed.

(** whatever the writer fault, the delivered bytes are a prefix of what the run produced *)
Theorem delivered_is_prefix r read_ok wk :
  match r with
  | Done out | Fail out => is_prefix (snd (envelope r read_ok wk)) out
  | _ => snd (envelope r read_ok wk) = []
  end.
Proof.
  destruct r as [out|pre| |]; cbn [envelope snd]; try reflexivity;
    unfold accepted; destruct wk as [k|]; try apply firstn_prefix; exists []; rewrite app_nil_r; reflexivity.
Qed.

(** status 0 means: the cut succeeded, the reader never failed, and every byte was delivered *)
Theorem success_means_everything_delivered r read_ok wk :
  fst (envelope r read_ok wk) = 0 ->
  exists out, r = Done out /\ read_ok = true /\ snd (envelope r read_ok wk) = out.
Proof.
  destruct r as [out|pre| |]; cbn [envelope fst snd]; try discriminate.
  destruct (read_ok && fits out wk) eqn:E; [|discriminate]. intros _.
  apply andb_true_iff in E. destruct E as [E1 E2]. exists out. split; [reflexivity|]. split; [exact E1|].
  unfold accepted, fits in *. destruct wk as [k|]; [|reflexivity].
  apply Nat.leb_le in E2. apply firstn_all2, E2.
Qed.

(** a fault never turns into success: a writer that rejects part of the output, or a reader
    that failed, gives a non-zero status *)
Theorem fault_is_reported out read_ok wk :
  read_ok = false \/ fits out wk = false -> fst (envelope (Done out) read_ok wk) = 1.
Proof.
  intros [->|H]; cbn [envelope fst]; [reflexivity|]. rewrite H, andb_false_r. reflexivity.
Qed.

(** a failing record: the status is non-zero and stdout holds the earlier records, complete
    and unmodified (general path; the fast lane likewise) *)
Theorem failing_record_keeps_earlier_output o A B a :
  read_and_cut_str o (A ++ [o_eol o]) = Some (Done a) ->
  match read_and_cut_str o ((A ++ [o_eol o]) ++ B) with
  | Some (Done out) | Some (Fail out) => is_prefix a out
  | _ => True
  end.
Proof.
  intros H. rewrite C10_general, H. unfold seq_outcome.
  destruct (read_and_cut_str o B) as [[b|b| |]|]; try exact I; exists b; reflexivity.
Qed.

Theorem failing_record_keeps_earlier_output_fast o A B a :
  read_and_cut_fast o (A ++ [o_eol o]) = Some (Done a) ->
  match read_and_cut_fast o ((A ++ [o_eol o]) ++ B) with
  | Some (Done out) | Some (Fail out) => is_prefix a out
  | _ => True
  end.
Proof.
  intros H. rewrite C10_fast, H. unfold seq_outcome.
  destruct (read_and_cut_fast o B) as [[b|b| |]|]; try exact I; exists b; reflexivity.
Qed.

(** the status of a failing cut is non-zero whatever the writer does *)
Theorem failing_cut_is_reported pre read_ok wk : fst (envelope (Fail pre) read_ok wk) = 1.
Proof. reflexivity. Qed.
