(** The bounds mini-language as the documentation states it (C18), written as a grammar,
    independently of the parser:
      index  ::= ['+'|'-'] digit+          non-zero, fits in 32 bits
      range  ::= index | index ':' index | index ':' | ':' index
                 (a closed range whose two indexes have the same sign does not decrease)
      bound  ::= range | range '=' fallback          fallback: any bytes
      list   ::= bound (',' bound)*                  no ',' inside a bound *)
From TucModel Require Import Base.Bytes Model.Bounds Spec.Fields.
Local Open Scope Z_scope.

Definition digit (b : byte) : Prop := (48 <= b /\ b <= 57)%N.

Fixpoint dec_value (acc : Z) (ds : bytes) : Z :=
  match ds with
  | [] => acc
  | x :: r => dec_value (acc * 10 + Z.of_N (x - 48)) r
  end.

Inductive int_lit : bytes -> Z -> Prop :=
| il_plain ds : ds <> [] -> Forall digit ds -> int_lit ds (dec_value 0 ds)
| il_plus ds : ds <> [] -> Forall digit ds -> int_lit (ch_plus :: ds) (dec_value 0 ds)
| il_minus ds : ds <> [] -> Forall digit ds -> int_lit (ch_minus :: ds) (- dec_value 0 ds).

Definition index_lit (s : bytes) (v : Z) : Prop :=
  int_lit s v /\ (-2147483648 <= v <= 2147483647) /\ v <> 0.

Inductive range_text : bytes -> side -> side -> Prop :=
| rt_single s v : index_lit s v -> range_text s (SSome v) (SSome v)
| rt_closed a b l r : index_lit a l -> index_lit b r -> (same_sign r l = true -> l <= r) ->
                      range_text (a ++ ch_colon :: b) (SSome l) (SSome r)
| rt_from a l : index_lit a l -> range_text (a ++ [ch_colon]) (SSome l) SCont
| rt_upto b r : index_lit b r -> range_text (ch_colon :: b) SCont (SSome r).

Inductive bound_text : bytes -> ubound -> Prop :=
| bt_plain s l r : range_text s l r -> bound_text s (mkB l r false None)
| bt_fallback s f l r : range_text s l r -> bound_text (s ++ ch_eq :: f) (mkB l r false (Some f)).

Definition comma_free (s : bytes) : Prop := Forall (fun x => N.eqb x ch_comma = false) s.

(** a comma-separated list of bounds *)
Definition csv_text (s : bytes) (bs : list ubound) : Prop :=
  exists parts, parts <> [] /\ s = intercalate [ch_comma] parts
                /\ Forall comma_free parts /\ Forall2 bound_text parts bs.

(** ---------- format strings *)
From TucModel Require Import Model.BoundsParse.

(** text in which braces only occur doubled: non-brace bytes, "{{" and "}}" *)
Inductive raw_text : bytes -> Prop :=
| rx_nil : raw_text []
| rx_byte x t : x <> ch_lbrace -> x <> ch_rbrace -> raw_text t -> raw_text (x :: t)
| rx_lb t : raw_text t -> raw_text (ch_lbrace :: ch_lbrace :: t)
| rx_rb t : raw_text t -> raw_text (ch_rbrace :: ch_rbrace :: t).

(** the item a stretch of literal text becomes (nothing when empty), rendered by the four
    replacements "{{"->"{", "}}"->"}", backslash-n->LF, backslash-t->TAB *)
Definition filler_of (t : bytes) : list bof :=
  match t with [] => [] | _ => [Filler (render_filler t)] end.

(** The language the scanner accepts, as a grammar: literal text, then either the end or
    '{' list '}' and the rest.  The list [c] may itself hold doubled braces (inside a
    fallback); the three side conditions say how "{{" and "}}" next to the delimiting braces
    are read: "{{" before a bound is literal text, and of a run of '}' that ends a bound the
    first closes it exactly when the run is odd. *)
Inductive fmt_items : bytes -> list bof -> Prop :=
| fi_end t : raw_text t -> fmt_items t (filler_of t)
| fi_bound t c rest bs its :
    raw_text t -> raw_text c ->
    (forall x, c <> ch_lbrace :: x) -> (forall x, c <> x ++ [ch_rbrace]) ->
    Nat.even (run_len ch_rbrace rest) = true ->
    csv_text c bs -> fmt_items rest its ->
    fmt_items (t ++ ch_lbrace :: c ++ ch_rbrace :: rest) (filler_of t ++ map Bound bs ++ its).

Definition brace_free (c : bytes) : Prop := Forall (fun x => x <> ch_lbrace /\ x <> ch_rbrace) c.

(** The documented language: every '{...}' holds a list (no braces inside), braces
    balance, "{{" and "}}" stand for literal braces. *)
Inductive fmt_doc : bytes -> list bof -> Prop :=
| fd_end t : raw_text t -> fmt_doc t (filler_of t)
| fd_bound t c rest bs its :
    raw_text t -> brace_free c -> csv_text c bs -> fmt_doc rest its ->
    fmt_doc (t ++ ch_lbrace :: c ++ ch_rbrace :: rest) (filler_of t ++ map Bound bs ++ its).

(** what the documentation says about literal text, as one left-to-right pass *)
Fixpoint render_spec (t : bytes) : bytes :=
  match t with
  | [] => []
  | x :: r =>
      match r with
      | y :: r' =>
          if (N.eqb x ch_lbrace) && (N.eqb y ch_lbrace) then ch_lbrace :: render_spec r'
          else if (N.eqb x ch_rbrace) && (N.eqb y ch_rbrace) then ch_rbrace :: render_spec r'
          else if (N.eqb x ch_backslash) && (N.eqb y ch_n) then LF :: render_spec r'
          else if (N.eqb x ch_backslash) && (N.eqb y ch_t) then TAB :: render_spec r'
          else x :: render_spec r
      | [] => [x]
      end
  end.

