(** The bounds mini-language as the documentation states it (C18), written as a grammar,
    independently of the parser:
      index  ::= ['+'|'-'] digit+          non-zero, fits in 32 bits
      range  ::= index | index ':' index | index ':' | ':' index
                 (a closed range whose two indexes have the same sign does not decrease)
      bound  ::= range | range '=' fallback          fallback: any bytes
      list   ::= bound (',' bound)*                  no ',' inside a bound *)
From TucModel Require Import Base.Bytes Model.Bounds Spec.Fields.
Local Open Scope Z_scope.

Definition digit (b : byte) : Prop := (48 <= b /\ b <= 57)%N.

Fixpoint dec_value (acc : Z) (ds : bytes) : Z :=
  match ds with
  | [] => acc
  | x :: r => dec_value (acc * 10 + Z.of_N (x - 48)) r
  end.

Inductive int_lit : bytes -> Z -> Prop :=
| il_plain ds : ds <> [] -> Forall digit ds -> int_lit ds (dec_value 0 ds)
| il_plus ds : ds <> [] -> Forall digit ds -> int_lit (ch_plus :: ds) (dec_value 0 ds)
| il_minus ds : ds <> [] -> Forall digit ds -> int_lit (ch_minus :: ds) (- dec_value 0 ds).

Definition index_lit (s : bytes) (v : Z) : Prop :=
  int_lit s v /\ (-2147483648 <= v <= 2147483647) /\ v <> 0.

Inductive range_text : bytes -> side -> side -> Prop :=
| rt_single s v : index_lit s v -> range_text s (SSome v) (SSome v)
| rt_closed a b l r : index_lit a l -> index_lit b r -> (same_sign r l = true -> l <= r) ->
                      range_text (a ++ ch_colon :: b) (SSome l) (SSome r)
| rt_from a l : index_lit a l -> range_text (a ++ [ch_colon]) (SSome l) SCont
| rt_upto b r : index_lit b r -> range_text (ch_colon :: b) SCont (SSome r).

Inductive bound_text : bytes -> ubound -> Prop :=
| bt_plain s l r : range_text s l r -> bound_text s (mkB l r false None)
| bt_fallback s f l r : range_text s l r -> bound_text (s ++ ch_eq :: f) (mkB l r false (Some f)).

Definition comma_free (s : bytes) : Prop := Forall (fun x => N.eqb x ch_comma = false) s.

(** a comma-separated list of bounds *)
Definition csv_text (s : bytes) (bs : list ubound) : Prop :=
  exists parts, parts <> [] /\ s = intercalate [ch_comma] parts
                /\ Forall comma_free parts /\ Forall2 bound_text parts bs.
