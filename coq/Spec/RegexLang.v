(** The language of a regex of the modelled family, and what "the leftmost non-overlapping
    matches" of a text are (C16), written independently of the engine of Model/Regex.v. *)
From TucModel Require Import Base.Bytes Model.Scan Model.Regex.

(** the language of a regex of the family *)
Inductive re_lang : re -> bytes -> Prop :=
| L_byte b : re_lang (RByte b) [b]
| L_class rs x : in_class rs x = true -> re_lang (RClass rs) [x]
| L_cat a b u v : re_lang a u -> re_lang b v -> re_lang (RCat a b) (u ++ v)
| L_alt_l a b u : re_lang a u -> re_lang (RAlt a b) u
| L_alt_r a b u : re_lang b u -> re_lang (RAlt a b) u
| L_plus a us : us <> [] -> Forall (re_lang a) us -> re_lang (RPlus a) (concat us).

(** find_iter: every reported match is a word of the language that starts at the first
    position (after the previous match) where any word of the language starts *)
Inductive scan_ok (r : re) : nat -> nat -> bytes -> list mtch -> Prop :=
| so_nil skip pos : scan_ok r skip pos [] []
| so_skip k pos x l ms : scan_ok r k (S pos) l ms -> scan_ok r (S k) pos (x :: l) ms
| so_match pos x l n ms :
    S n <= length (x :: l) -> re_lang r (firstn (S n) (x :: l)) -> scan_ok r n (S pos) l ms ->
    scan_ok r 0 pos (x :: l) ((pos, pos + S n) :: ms)
| so_none pos x l ms :
    (forall u s', x :: l = u ++ s' -> ~ re_lang r u) -> scan_ok r 0 (S pos) l ms ->
    scan_ok r 0 pos (x :: l) ms.

