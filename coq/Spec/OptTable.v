(** C19: the decision table for option sets, transcribed from the statement. *)
From TucModel Require Import Base.Bytes.

Inductive mode := MNone | MF | MC | MB | ML.
Inductive mval := MAbsent | MZero | MOne.

Record optset := mkOS {
  s_mode : mode; s_d : bool; s_e : bool; s_g : bool; s_p : bool; s_s : bool; s_m : bool;
  s_j : bool; s_nojoin : bool; s_json : bool; s_r : bool; s_t : bool; s_M : mval
}.

Inductive decision := Reject | FailFirstRecord | Accept | Unspecified.

Definition is_c (m : mode) := match m with MC => true | _ => false end.
Definition is_bl (m : mode) := match m with MB | ML => true | _ => false end.
Definition is_cbl (m : mode) := match m with MC | MB | ML => true | _ => false end.
Definition has_M (v : mval) := match v with MAbsent => false | _ => true end.

Definition no_option (s : optset) : bool :=
  match s_mode s with MNone => true | _ => false end
  && negb (s_d s || s_e s || s_g s || s_p s || s_s s || s_m s || s_j s || s_nojoin s || s_json s
           || s_r s || s_t s || has_M (s_M s)).

Definition decide_spec (s : optset) : decision :=
  if no_option s then Unspecified          (* no argument at all: the short help *)
  else if s_e s && is_bl (s_mode s) then Unspecified
  else if
    (s_j s && s_nojoin s)                                              (* --join with --no-join *)
    || (s_nojoin s && (s_json s || s_r s || is_c (s_mode s)))          (* --no-join with --json, -r or -c *)
    || (s_r s && s_json s)                                             (* -r with --json *)
    || (s_json s && is_bl (s_mode s))                                  (* --json with -b or -l *)
    || (match s_M s with MZero => true | _ => false end)               (* -M 0 *)
    || (has_M (s_M s) && (s_g s || s_p s || s_m s || s_t s || s_s s || s_e s || s_json s
                          || is_cbl (s_mode s)))                       (* -M with ... *)
    || (s_d s && is_cbl (s_mode s))                                    (* -d outside field mode *)
    || (s_e s && is_c (s_mode s))                                      (* -e with -c *)
  then Reject
  else if s_e s && (s_j s || s_p s) && negb (s_r s) && negb (s_json s) then FailFirstRecord
  else Accept.

Definition bools := [false; true].
Definition all_optsets : list optset :=
  flat_map (fun mo =>
  flat_map (fun d => flat_map (fun e => flat_map (fun g => flat_map (fun p => flat_map (fun s =>
  flat_map (fun m => flat_map (fun j => flat_map (fun nj => flat_map (fun js => flat_map (fun r =>
  flat_map (fun t => map (fun M => mkOS mo d e g p s m j nj js r t M) [MAbsent; MZero; MOne])
  bools) bools) bools) bools) bools) bools) bools) bools) bools) bools) bools)
  [MNone; MF; MC; MB; ML].
