(** What "the fields of a record" means (C01), written from the statement:
    the record is p1 ++ d ++ p2 ++ d ++ ... ++ pk where the occurrences of the delimiter
    d are the leftmost non-overlapping ones. *)
From TucModel Require Import Base.Bytes.

Fixpoint intercalate (d : bytes) (ps : list bytes) : bytes :=
  match ps with
  | [] => []
  | [p] => p
  | p :: ps' => p ++ d ++ intercalate d ps'
  end.

(** [d] occurs in [l] at offset [|a|] *)
Definition occurs_in (d l : bytes) : Prop := exists a b, l = a ++ d ++ b.

(** in [p ++ d] the delimiter occurs only at the very end: scanning from the left, the
    first occurrence found is the one that terminates the field [p] *)
Definition first_occ_at_end (d p : bytes) : Prop :=
  forall a b, p ++ d = a ++ d ++ b -> b = [].

(** [ps] are the fields of a record for delimiter [d] (leftmost, non-overlapping) *)
Fixpoint leftmost_fields (d : bytes) (ps : list bytes) : Prop :=
  match ps with
  | [] => False
  | [p] => ~ occurs_in d p
  | p :: ps' => first_occ_at_end d p /\ leftmost_fields d ps'
  end.

Definition is_split (d line : bytes) (ps : list bytes) : Prop :=
  intercalate d ps = line /\ leftmost_fields d ps.
