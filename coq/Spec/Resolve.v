(** Specification vocabulary for bounds: what a bound denotes on [n] parts.
    Written from the property statements, not from the code. *)
From TucModel Require Import Base.Bytes Model.Bounds.
Local Open Scope Z_scope.

(** 1-based position denoted by an index [v] on [n] parts: v itself if positive,
    n+1+v if negative (so -1 is the last part and -n the first). *)
Definition pos_of (v n : Z) : Z := if v <? 0 then n + 1 + v else v.

(** an index is within the parts iff 1 <= |v| <= n *)
Definition in_parts (v n : Z) : Prop := (1 <= v <= n) \/ (- n <= v <= -1).

(** first and last selected 1-based positions of a bound *)
Definition first_pos (b : ubound) (n : Z) : Z :=
  match bl b with SCont => 1 | SSome v => pos_of v n end.
Definition last_pos (b : ubound) (n : Z) : Z :=
  match br b with SCont => n | SSome v => pos_of v n end.

Definition side_in_parts (s : side) (n : Z) : Prop :=
  match s with SCont => True | SSome v => in_parts v n end.

(** a bound resolves on n parts iff both indexes are within the parts and the
    denoted interval is not empty *)
Definition resolves (b : ubound) (n : nat) : Prop :=
  side_in_parts (bl b) (Z.of_nat n) /\ side_in_parts (br b) (Z.of_nat n)
  /\ first_pos b (Z.of_nat n) <= last_pos b (Z.of_nat n).

(** the parts a bound selects: positions first_pos .. last_pos, 0-based half-open *)
Definition selected {A} (b : ubound) (parts : list A) : list A :=
  let n := Z.of_nat (length parts) in
  slice parts (Z.to_nat (first_pos b n - 1)) (Z.to_nat (last_pos b n)).
