(** What byte mode must print (C06), written from the statement. *)
From TucModel Require Import Base.Bytes Model.Bounds Spec.Resolve.

(** the text denoted by one item of a bounds list on resolvable bounds *)
Definition item_text (data : bytes) (x : bof) : bytes :=
  match x with
  | Filler f => f
  | Bound b => selected b data
  end.

Definition spec_bytes (l : list bof) (data : bytes) : bytes :=
  concat (map (item_text data) l).
