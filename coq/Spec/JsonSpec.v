(** A strict reader for one JSON string body (RFC 8259 escapes), written from the RFC:
    the inverse of what --json must produce.  Bytes >= 0x80 are copied (UTF-8 validity of
    the text is a separate premise). *)
From TucModel Require Import Base.Bytes.
Local Open Scope N_scope.

Definition hex_val (b : byte) : option N :=
  if (48 <=? b) && (b <=? 57) then Some (b - 48)
  else if (97 <=? b) && (b <=? 102) then Some (b - 87)
  else if (65 <=? b) && (b <=? 70) then Some (b - 55)
  else None.

(** decode the characters between the quotes; [None] on anything a strict reader rejects:
    raw control characters, a raw quote, an unknown escape.  \uXXXX is accepted for code
    points below 0x80 (what the writer can produce); others are outside this reader. *)
Fixpoint json_unescape (s : bytes) : option bytes :=
  match s with
  | [] => Some []
  | 92 :: rest =>
      match rest with
      | 34 :: r => option_map (cons 34) (json_unescape r)
      | 92 :: r => option_map (cons 92) (json_unescape r)
      | 47 :: r => option_map (cons 47) (json_unescape r)
      | 98 :: r => option_map (cons 8) (json_unescape r)
      | 116 :: r => option_map (cons 9) (json_unescape r)
      | 110 :: r => option_map (cons 10) (json_unescape r)
      | 102 :: r => option_map (cons 12) (json_unescape r)
      | 114 :: r => option_map (cons 13) (json_unescape r)
      | 117 :: 48 :: 48 :: h :: l :: r =>
          match hex_val h, hex_val l with
          | Some a, Some b => if a <? 8 then option_map (cons (a * 16 + b)) (json_unescape r) else None
          | _, _ => None
          end
      | _ => None
      end
  | b :: rest =>
      if (b <? 32) || (b =? 34) then None
      else option_map (cons b) (json_unescape rest)
  end.

(** a whole JSON string: quote, body, quote *)
Definition json_read_string (s : bytes) : option bytes :=
  match s with
  | 34 :: r =>
      match rev r with
      | 34 :: body_rev => json_unescape (rev body_rev)
      | _ => None
      end
  | _ => None
  end.
