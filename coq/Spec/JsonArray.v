(** A strict one-pass reader for what --json must print for a record: one JSON array of
    strings, no white space, nothing after the closing bracket.  Written from RFC 8259 as a
    state machine over the bytes (no look-behind, unlike [json_read_string]); it returns the
    decoded elements in order.  \uXXXX is accepted for code points below 0x80 only. *)
From TucModel Require Import Base.Bytes Spec.JsonSpec Spec.Fields.
Local Open Scope N_scope.

Inductive jstate :=
| JOpen    (* expects '[' *)
| JFirst   (* after '[' : a string or ']' *)
| JStr     (* inside a string *)
| JAfter   (* after a string : ',' or ']' *)
| JNext    (* after ',' : a string *)
| JEnd.    (* after ']' : nothing *)

Definition simple_escape (e : byte) : option byte :=
  if e =? 34 then Some 34
  else if e =? 92 then Some 92
  else if e =? 47 then Some 47
  else if e =? 98 then Some 8
  else if e =? 116 then Some 9
  else if e =? 110 then Some 10
  else if e =? 102 then Some 12
  else if e =? 114 then Some 13
  else None.

Fixpoint jarr (st : jstate) (cur : bytes) (acc : list bytes) (s : bytes) {struct s}
  : option (list bytes) :=
  match s with
  | [] => match st with JEnd => Some (rev acc) | _ => None end
  | b :: r =>
      match st with
      | JOpen => if b =? 91 then jarr JFirst [] acc r else None
      | JFirst => if b =? 93 then jarr JEnd [] acc r
                  else if b =? 34 then jarr JStr [] acc r else None
      | JNext => if b =? 34 then jarr JStr [] acc r else None
      | JAfter => if b =? 44 then jarr JNext [] acc r
                  else if b =? 93 then jarr JEnd [] acc r else None
      | JEnd => None
      | JStr =>
          if b =? 34 then jarr JAfter [] (rev cur :: acc) r
          else if b =? 92 then
            match r with
            | [] => None
            | e :: r1 =>
                match simple_escape e with
                | Some c => jarr JStr (c :: cur) acc r1
                | None =>
                    if e =? 117 then
                      match r1 with
                      | z1 :: z2 :: h :: l :: r2 =>
                          if (z1 =? 48) && (z2 =? 48) then
                            match hex_val h, hex_val l with
                            | Some a, Some c =>
                                if a <? 8 then jarr JStr ((a * 16 + c) :: cur) acc r2 else None
                            | _, _ => None
                            end
                          else None
                      | _ => None
                      end
                    else None
                end
            end
          else if b <? 32 then None
          else jarr JStr (b :: cur) acc r
      end
  end.

Definition json_read_array (s : bytes) : option (list bytes) := jarr JOpen [] [] s.

