(** Pins for C19: the statements written out, so that no theorem is weakened quietly. *)
From TucModel Require Import Base.Bytes Model.Bounds Model.BoundsParse Model.Scan Model.Regex Model.Opt
     Model.CutStr Model.Stream Model.Args Model.Main Spec.OptTable Proofs.C19 Properties.C19.


Check C19_decision_table :
  forall s : optset, decision_eqb (decide_spec s) (decide_model s) = true.
Print Assumptions C19_decision_table.

Check C19_regex_with_join_or_compress_fails_each_record :
  forall (o : opt) (line : bytes),
    o_regex o <> None -> o_replace o = None -> (o_compress o || o_join o) = true ->
    cut_str o line = Some RErr.
Print Assumptions C19_regex_with_join_or_compress_fails_each_record.

Check C19_fixed_memory_eligibility :
  forall o : opt,
    (exists so, stream_opt o = Some so) <->
    (exists d, o_delim o = [d])
    /\ o_complement o = false /\ o_greedy o = false /\ o_compress o = false /\ o_json o = false
    /\ o_btype o = BFields
    /\ (o_replace o = None \/ exists r, o_replace o = Some [r])
    /\ o_trim o = None /\ o_regex o = None /\ o_only_delimited o = false
    /\ forward_bounds_ok (items (o_bounds o)) = true.
Print Assumptions C19_fixed_memory_eligibility.
