(** Pins for C14: the statements written out, so that no theorem is weakened quietly. *)
From TucModel Require Import Base.Bytes Base.ListX Model.Bounds Model.Scan Model.Opt Model.CutBytes
     Model.CutStr Model.FastLane Model.Main Model.IO Proofs.C10 Proofs.C14 Properties.C14.


Check C14_delivered_is_a_prefix :
  forall (r : outcome) (read_ok : bool) (wk : option nat),
    match r with
    | Done out | Fail out => is_prefix (snd (envelope r read_ok wk)) out
    | _ => snd (envelope r read_ok wk) = []
    end.
Print Assumptions C14_delivered_is_a_prefix.

Check C14_success_means_everything_delivered :
  forall (r : outcome) (read_ok : bool) (wk : option nat),
    fst (envelope r read_ok wk) = 0 ->
    exists out, r = Done out /\ read_ok = true /\ snd (envelope r read_ok wk) = out.
Print Assumptions C14_success_means_everything_delivered.

Check C14_a_fault_is_never_a_success :
  forall (out : bytes) (read_ok : bool) (wk : option nat),
    read_ok = false \/ fits out wk = false -> fst (envelope (Done out) read_ok wk) = 1.
Print Assumptions C14_a_fault_is_never_a_success.

Check C14_failing_record_keeps_earlier_records :
  forall (o : opt) (A B a : bytes),
    read_and_cut_str o (A ++ [o_eol o]) = Some (Done a) ->
    match read_and_cut_str o ((A ++ [o_eol o]) ++ B) with
    | Some (Done out) | Some (Fail out) => is_prefix a out
    | _ => True
    end.
Print Assumptions C14_failing_record_keeps_earlier_records.

Check C14_failing_record_keeps_earlier_records_fast :
  forall (o : opt) (A B a : bytes),
    read_and_cut_fast o (A ++ [o_eol o]) = Some (Done a) ->
    match read_and_cut_fast o ((A ++ [o_eol o]) ++ B) with
    | Some (Done out) | Some (Fail out) => is_prefix a out
    | _ => True
    end.
Print Assumptions C14_failing_record_keeps_earlier_records_fast.

Check C14_failing_cut_is_reported :
  forall (pre : bytes) (read_ok : bool) (wk : option nat), fst (envelope (Fail pre) read_ok wk) = 1.
Print Assumptions C14_failing_cut_is_reported.
