(** Pins for C14: the statements written out, so that no theorem is weakened quietly. *)
From TucModel Require Import Base.Bytes Base.ListX Model.Bounds Model.Scan Model.Opt Model.CutBytes
     Model.CutStr Model.FastLane Model.Stream Model.Main Model.IO Proofs.C04 Proofs.C10 Proofs.C10Stream Proofs.C14 Proofs.C14More Properties.C14.


Check C14_delivered_is_a_prefix :
  forall (r : outcome) (read_ok : bool) (wk : option nat),
    match r with
    | Done out | Fail out => is_prefix (snd (envelope r read_ok wk)) out
    | _ => snd (envelope r read_ok wk) = []
    end.
Print Assumptions C14_delivered_is_a_prefix.

Check C14_success_means_everything_delivered :
  forall (r : outcome) (read_ok : bool) (wk : option nat),
    fst (envelope r read_ok wk) = 0 ->
    exists out, r = Done out /\ read_ok = true /\ snd (envelope r read_ok wk) = out.
Print Assumptions C14_success_means_everything_delivered.

Check C14_a_fault_is_never_a_success :
  forall (out : bytes) (read_ok : bool) (wk : option nat),
    read_ok = false \/ fits out wk = false -> fst (envelope (Done out) read_ok wk) = 1.
Print Assumptions C14_a_fault_is_never_a_success.

Check C14_failing_record_keeps_earlier_records :
  forall (o : opt) (A B a : bytes),
    read_and_cut_str o (A ++ [o_eol o]) = Some (Done a) ->
    match read_and_cut_str o ((A ++ [o_eol o]) ++ B) with
    | Some (Done out) | Some (Fail out) => is_prefix a out
    | _ => True
    end.
Print Assumptions C14_failing_record_keeps_earlier_records.

Check C14_failing_record_keeps_earlier_records_fast :
  forall (o : opt) (A B a : bytes),
    read_and_cut_fast o (A ++ [o_eol o]) = Some (Done a) ->
    match read_and_cut_fast o ((A ++ [o_eol o]) ++ B) with
    | Some (Done out) | Some (Fail out) => is_prefix a out
    | _ => True
    end.
Print Assumptions C14_failing_record_keeps_earlier_records_fast.

Check C14_failing_cut_is_reported :
  forall (pre : bytes) (read_ok : bool) (wk : option nat), fst (envelope (Fail pre) read_ok wk) = 1.
Print Assumptions C14_failing_cut_is_reported.

Check C14_failure_delivers_exactly_the_earlier_records :
  forall (o : opt) (input pre : bytes),
    read_and_cut_str o input = Some (Fail pre) <->
    exists rs1 r rs2 outs, records (o_eol o) input = rs1 ++ r :: rs2
                           /\ Forall2 (cut_ok (cut_str o)) rs1 outs /\ cut_str o r = Some RErr
                           /\ pre = concat outs.
Print Assumptions C14_failure_delivers_exactly_the_earlier_records.

Check C14_success_delivers_every_record :
  forall (o : opt) (input out : bytes),
    read_and_cut_str o input = Some (Done out) <->
    exists outs, Forall2 (cut_ok (cut_str o)) (records (o_eol o) input) outs /\ out = concat outs.
Print Assumptions C14_success_delivers_every_record.

Check C14_fixed_memory_failure_delivers_exactly_the_earlier_records :
  forall (so : sopt) (input pre : bytes),
    no_adjacent_fillers (s_items so) ->
    (run_stream_whole so input = Fail pre <->
     exists rs1 r rs2 outs, records (s_eol so) input = rs1 ++ r :: rs2
                            /\ Forall2 (cut_ok (stream_cut so)) rs1 outs /\ stream_cut so r = Some RErr
                            /\ pre = concat outs).
Print Assumptions C14_fixed_memory_failure_delivers_exactly_the_earlier_records.

Check C14_fixed_memory_success_delivers_every_record :
  forall (so : sopt) (input out : bytes),
    no_adjacent_fillers (s_items so) ->
    (run_stream_whole so input = Done out <->
     exists outs, Forall2 (cut_ok (stream_cut so)) (records (s_eol so) input) outs /\ out = concat outs).
Print Assumptions C14_fixed_memory_success_delivers_every_record.
