(** Pins for C18: the statements written out, so that no theorem is weakened quietly. *)
From TucModel Require Import Base.Bytes Model.Bounds Model.BoundsParse Model.Opt Model.Args Model.Main
     Spec.Resolve Spec.Fields Spec.BoundsGrammar Proofs.BoundsFacts Proofs.C06 Proofs.ParseFacts Proofs.C18 Proofs.C18Iff Proofs.C18Fmt Proofs.C18Render Properties.C18.
Local Open Scope Z_scope.

Check C18_integer_iff :
  forall (s : bytes) (v : Z), parse_i32 s = Some v <-> int_lit s v /\ in_i32 v.
Print Assumptions C18_integer_iff.

Check C18_bound_accepted_iff :
  forall (s : bytes) (b : ubound), parse_bound s = Some b <-> bound_text s b.
Print Assumptions C18_bound_accepted_iff.

Check C18_list_accepted_iff :
  forall s : bytes, existsb is_brace s = false ->
    ((exists u, parse_ublist s = Some u) <-> (exists bs, csv_text s bs)).
Print Assumptions C18_list_accepted_iff.

Check C18_list_structure :
  forall (s : bytes) (u : ublist), existsb is_brace s = false -> parse_ublist s = Some u ->
    exists bs, csv_text s bs /\ items u = mark_last (map Bound bs).
Print Assumptions C18_list_structure.

Check C18_format_accepted_iff :
  forall (s : bytes) (its : list bof), scan_format s false [] [] = Some its <-> fmt_items s its.
Print Assumptions C18_format_accepted_iff.

Check C18_documented_format_is_accepted :
  forall (s : bytes) (its : list bof), fmt_doc s its -> scan_format s false [] [] = Some its.
Print Assumptions C18_documented_format_is_accepted.

Check C18_format_list_accepted_iff :
  forall (s : bytes) (u : ublist), existsb is_brace s = true ->
    (parse_ublist s = Some u <->
     exists its, fmt_items s its /\ bounds_only its <> [] /\ from_vec its = Some u).
Print Assumptions C18_format_list_accepted_iff.

Check C18_literal_text_rendering :
  forall t : bytes, render_filler t = render_spec t.
Print Assumptions C18_literal_text_rendering.

Check C18_accepted_bound_is_well_formed :
  forall (s : bytes) (b : ubound), parse_bound s = Some b ->
    side_i32 (bl b) /\ side_i32 (br b)
    /\ (forall l r, bl b = SSome l -> br b = SSome r -> same_sign r l = true -> l <= r).
Print Assumptions C18_accepted_bound_is_well_formed.

Check C18_accepted_list_has_no_zero_index :
  forall (s : bytes) (u : ublist), parse_ublist s = Some u -> Forall item_nz (items u).
Print Assumptions C18_accepted_list_has_no_zero_index.

Check C18_rejected_before_any_input :
  forall argv : args, parse_args argv = PExit1 -> forall input, run_main argv input = MOut (Fail []).
Print Assumptions C18_rejected_before_any_input.

Check C18_plain_text_is_reproduced :
  forall s : bytes, forallb plain_byte s = true -> render_filler s = s.
Print Assumptions C18_plain_text_is_reproduced.
