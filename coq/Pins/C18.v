(** Pins for C18: the statements written out, so that no theorem is weakened quietly. *)
From TucModel Require Import Base.Bytes Model.Bounds Model.BoundsParse Model.Opt Model.Args Model.Main
     Spec.Resolve Proofs.BoundsFacts Proofs.C06 Proofs.ParseFacts Proofs.C18 Properties.C18.
Local Open Scope Z_scope.

Check C18_accepted_bound_is_well_formed :
  forall (s : bytes) (b : ubound), parse_bound s = Some b ->
    side_i32 (bl b) /\ side_i32 (br b)
    /\ (forall l r, bl b = SSome l -> br b = SSome r -> same_sign r l = true -> l <= r).
Print Assumptions C18_accepted_bound_is_well_formed.

Check C18_accepted_list_has_no_zero_index :
  forall (s : bytes) (u : ublist), parse_ublist s = Some u -> Forall item_nz (items u).
Print Assumptions C18_accepted_list_has_no_zero_index.

Check C18_rejected_before_any_input :
  forall argv : args, parse_args argv = PExit1 -> forall input, run_main argv input = MOut (Fail []).
Print Assumptions C18_rejected_before_any_input.

Check C18_plain_text_is_reproduced :
  forall s : bytes, forallb plain_byte s = true -> render_filler s = s.
Print Assumptions C18_plain_text_is_reproduced.
