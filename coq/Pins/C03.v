(** Pins for C03: the statements written out, so that no theorem is weakened quietly. *)
From TucModel Require Import Base.Bytes Base.ListX Model.Bounds Model.BoundsParse Model.Scan Model.Opt
     Model.CutBytes Model.CutStr Model.FastLane Model.Stream Spec.Fields Proofs.BoundsFacts Proofs.C06
     Proofs.C04 Proofs.C03 Proofs.Plain Proofs.C03Full Properties.C03.
Local Open Scope Z_scope.

Check C03_fixed_memory_equals_line_mode :
  forall (o : opt) (so : sopt) (l0 : list bof) (input : bytes),
    from_vec l0 = Some (o_bounds o) ->
    Forall item_nz l0 -> Forall closed_ordered (bounds_only l0) -> no_adjacent_fillers l0 ->
    stream_opt o = Some so ->
    Forall (fun r => r = [] \/ no_straddle (Z.of_nat (length (split_on (s_delim so) r))) (items (o_bounds o)))
           (records (s_eol so) input) ->
    Some (run_stream_whole so input) = read_and_cut_str o input.
Print Assumptions C03_fixed_memory_equals_line_mode.

Check C03_each_record :
  forall (o : opt) (so : sopt) (r rest : bytes) (cs : list bytes),
    stream_opt o = Some so ->
    Forall item_nz (items (o_bounds o)) ->
    no_adjacent_fillers (items (o_bounds o)) -> bounds_only (items (o_bounds o)) <> [] ->
    r <> [] -> bfree (s_eol so) r ->
    asc 0 (Z.of_nat (length (split_on (s_delim so) r))) (items (o_bounds o)) ->
    rec_chunks so (Normal (s_items so) 1 false) false ((r ++ s_eol so :: rest) :: cs) []
    = match cut_str o r with
      | Some (ROk x) => RRecord x (push_rest rest cs)
      | _ => RFail
      end.
Print Assumptions C03_each_record.

Check C03_final_record_without_eol :
  forall (so : sopt) (r : bytes) (its : list bof) (curr : Z) (out : bytes) (started : bool),
    r <> [] -> bfree (s_eol so) r -> no_adjacent_fillers its -> 1 <= curr ->
    rec_chunks so (Normal its curr false) started [r] out
    = match rec_chunks so (Normal its curr false) started [r ++ [s_eol so]] out with
      | RRecord x _ => RLast x
      | other => other
      end.
Print Assumptions C03_final_record_without_eol.

Check C03_domain_is_only_about_the_input :
  forall (n : Z) (its : list bof),
    forward_bounds_ok its = true -> Forall item_nz its ->
    Forall closed_ordered (bounds_only its) ->
    Forall (fun b => br b = SCont -> blast b = true) (bounds_only its) ->
    no_straddle n its -> asc 0 n its.
Print Assumptions C03_domain_is_only_about_the_input.

Check C03_reference_prints_the_requested_fields :
  forall (o : opt) (d : byte) (line : bytes),
    plain_opts o d -> o_trim o = None -> o_only_delimited o = false ->
    line <> [] -> Forall item_nz (items (o_bounds o)) ->
    cut_str o line
    = Some (match spec_items (split_on d line) (o_fallback o) (o_join o) (rep_of o d) (items (o_bounds o)) with
            | Some x => ROk (x ++ [o_eol o])
            | None => RErr
            end).
Print Assumptions C03_reference_prints_the_requested_fields.

Check C03_reference_path_is_well_defined :
  forall (o : opt) (so : sopt), stream_opt o = Some so ->
    (o_replace o = None /\ fast_eligible o = true)
    \/ (exists r, o_replace o = Some [r] /\ fast_eligible o = false).
Print Assumptions C03_reference_path_is_well_defined.

Check C03_empty_record_fixed_memory :
  forall (so : sopt) (rest : bytes),
    rec_chunks so (Normal (s_items so) 1 false) false ((s_eol so :: rest) :: []) []
    = RRecord [s_eol so] (push_rest rest []).
Print Assumptions C03_empty_record_fixed_memory.

Check C03_empty_record_line_mode :
  forall o : opt,
    o_only_delimited o = false -> o_trim o = None ->
    (o_regex o = None \/ o_replace o <> None \/ (o_compress o = false /\ o_join o = false)) ->
    cut_str o [] = Some (ROk [o_eol o]).
Print Assumptions C03_empty_record_line_mode.

Check C03_chunking_is_irrelevant :
  forall (so : sopt) (cs : list bytes),
    no_adjacent_fillers (s_items so) -> chunks_ok cs ->
    run_stream so cs = run_stream_whole so (concat cs).
Print Assumptions C03_chunking_is_irrelevant.

Check C03_field_inside_the_pending_bound :
  forall (so : sopt) (b : ubound) (its : list bof) (curr : Z) (piece : bytes),
    matches b curr = Some true ->
    print_bof so (Bound b :: its) curr piece false true =
    ((if (1 <? curr) && negb (side_eqb (bl b) (SSome curr)) then [sdelim so] else [])
       ++ piece
       ++ (if side_eqb (br b) (SSome curr) then (if s_join so && negb (blast b) then [sdelim so] else []) else []),
     if side_eqb (br b) (SSome curr) then its else Bound b :: its).
Print Assumptions C03_field_inside_the_pending_bound.

Check C03_field_outside_the_pending_bound :
  forall (so : sopt) (b : ubound) (its : list bof) (curr : Z) (piece : bytes),
    matches b curr = Some false ->
    print_bof so (Bound b :: its) curr piece false true = ([], Bound b :: its).
Print Assumptions C03_field_outside_the_pending_bound.
