(** Pins for C03: the statements written out, so that no theorem is weakened quietly. *)
From TucModel Require Import Base.Bytes Base.ListX Model.Bounds Model.Scan Model.Opt Model.CutBytes
     Model.CutStr Model.FastLane Model.Stream Proofs.C04 Proofs.C03 Properties.C03.
Local Open Scope Z_scope.

Check C03_reference_path_is_well_defined :
  forall (o : opt) (so : sopt), stream_opt o = Some so ->
    (o_replace o = None /\ fast_eligible o = true)
    \/ (exists r, o_replace o = Some [r] /\ fast_eligible o = false).
Print Assumptions C03_reference_path_is_well_defined.

Check C03_empty_record_fixed_memory :
  forall (so : sopt) (rest : bytes),
    rec_chunks so (Normal (s_items so) 1 false) false ((s_eol so :: rest) :: []) []
    = RRecord [s_eol so] (push_rest rest []).
Print Assumptions C03_empty_record_fixed_memory.

Check C03_empty_record_line_mode :
  forall o : opt,
    o_only_delimited o = false -> o_trim o = None ->
    (o_regex o = None \/ o_replace o <> None \/ (o_compress o = false /\ o_join o = false)) ->
    cut_str o [] = Some (ROk [o_eol o]).
Print Assumptions C03_empty_record_line_mode.

Check C03_chunking_is_irrelevant :
  forall (so : sopt) (cs : list bytes),
    no_adjacent_fillers (s_items so) -> chunks_ok cs ->
    run_stream so cs = run_stream_whole so (concat cs).
Print Assumptions C03_chunking_is_irrelevant.

Check C03_field_inside_the_pending_bound :
  forall (so : sopt) (b : ubound) (its : list bof) (curr : Z) (piece : bytes),
    matches b curr = Some true ->
    print_bof so (Bound b :: its) curr piece false true =
    ((if (1 <? curr) && negb (side_eqb (bl b) (SSome curr)) then [sdelim so] else [])
       ++ piece
       ++ (if side_eqb (br b) (SSome curr) then (if s_join so && negb (blast b) then [sdelim so] else []) else []),
     if side_eqb (br b) (SSome curr) then its else Bound b :: its).
Print Assumptions C03_field_inside_the_pending_bound.

Check C03_field_outside_the_pending_bound :
  forall (so : sopt) (b : ubound) (its : list bof) (curr : Z) (piece : bytes),
    matches b curr = Some false ->
    print_bof so (Bound b :: its) curr piece false true = ([], Bound b :: its).
Print Assumptions C03_field_outside_the_pending_bound.
